/-
  C05, eager mode (Workflows) — `runner.run` with `taskManager.wait = waitOne`, interrupts and
  resume, one graph level, value mode.  Built from the engine's own functions (`calcNext`,
  `resolve`, `updateValues`, `updateDeps`, `execOne`, `collectOne`) like the uninterrupted eager
  loop of Model/C02Workflow.lean (`eagerLoop`, `runEager`), which is the reference run.

  What eager mode adds to Model/C05.lean: when a configured interrupt point is hit (the collected
  task is an interrupt-after node, or one of the tasks computed from it is an interrupt-before
  node) other tasks are still in flight; `tm.waitAll()` drains them, and one of the drained tasks
  may be a node that asks for a rerun or a nested graph that interrupted inside ("aborting"
  tasks).  That is the second call site of `handleInterruptWithSubGraphAndRerunNodes`
  (graph_run.go, after `tm.waitAll()`); what it is handed is a SOURCE FACT (`DrainSave`):

    refold       `append(completedTasks, newCompletedTasks...)`; the tasks already computed
                 (`nextTasks`, whose channels `get` has emptied) are dropped and are expected to
                 become ready again from the second fold            — the shipped code
    drainedOnly  `newCompletedTasks`; next tasks dropped            — the regression this
                 family of the check exists for
    pending      `newCompletedTasks`, and `nextTasks` saved as pending inputs of the checkpoint
                 (fixes/C05-eager-drain-pending.diff)

  An aborting node is modelled by the number of attempts that abort (`aborts`); the attempt
  counters are part of what is persisted (graph state / nested checkpoint).  A re-run attempt
  sees the input of the aborted one (the property's assumption: the node's pre-handler rebuilds
  it from state; a nested graph continues from its own checkpoint).
  Core Lean only (compiled into the oracle).
-/
import EinoV.Model.Engine
import EinoV.Model.C02Workflow

namespace EinoV.Interrupt.Eager
open EinoV.Engine

/-- source fact: what the interrupt site after `tm.waitAll()` saves -/
inductive DrainSave where
  | refold
  | drainedOnly
  | pending
  deriving DecidableEq, Repr, Inhabited

/-- the encoding used by the generated fact `FactsC05.eagerDrainSave` -/
def DrainSave.ofCode : Nat → Option DrainSave
  | 0 => some .refold
  | 1 => some .drainedOnly
  | 2 => some .pending
  | _ => none

structure EIRunner (V : Type) where
  base : Runner V
  intBefore : List Key := []
  intAfter : List Key := []
  aborts : List (Key × Nat) := []     -- node ↦ number of attempts that abort (rerun / nested interrupt)

/-- interrupts and aborts switched off (the reference run) -/
def EIRunner.plain {V} (r : EIRunner V) : EIRunner V := { base := r.base }

/-- what is persisted at an interrupt -/
structure ECp (V : Type) where
  chans : Chans V
  inputs : List (Key × V)
  att : List (Key × Nat)              -- attempts made so far by the aborting nodes

inductive ERes (V : Type) where
  | done (v : V)
  | failed (e : Err)
  | interrupted (cp : ECp V)

/-- one call: its result and the node executions that ran to completion, in collection order -/
structure EOut (V : Type) where
  res : ERes V
  execs : List (Key × V)

def attOf (att : List (Key × Nat)) (k : Key) : Nat := (alookup k att).getD 0

def willAbort {V} (r : EIRunner V) (att : List (Key × Nat)) (k : Key) : Bool :=
  attOf att k < (alookup k r.aborts).getD 0

def bump (att : List (Key × Nat)) (k : Key) : List (Key × Nat) := aset k (attOf att k + 1) att

/-- resolveCompletedTasks + updateValues + updateDependencies, no `get`
    (`handleInterruptWithSubGraphAndRerunNodes`) -/
def foldDone {V} (r : Runner V) (cm : Chans V) (done : List (Done V)) : Except Err (Chans V) := do
  let res ← resolve r cm done
  pure (updateDeps r (updateValues r res.cm res.writes) res.deps)

structure Drained (V : Type) where
  others : List (Done V)            -- finished normally
  ran : List (Key × V)              -- … their executions
  aborting : List (Key × V)         -- asked for a rerun / interrupted inside: kept with their inputs
  att : List (Key × Nat)

/-- `tm.waitAll()` + `resolveInterruptCompletedTasks` on the tasks in flight -/
def drain {V} (r : EIRunner V) : List (Key × Nat) → List (Key × V) → Except Err (Drained V)
  | att, [] => .ok { others := [], ran := [], aborting := [], att := att }
  | att, t :: rest =>
    if willAbort r att t.1 then
      match drain r (bump att t.1) rest with
      | .error e => .error e
      | .ok d => .ok { d with aborting := t :: d.aborting }
    else
      match collectOne (execOne r.base t) with
      | .error e => .error e
      | .ok o =>
        match drain r att rest with
        | .error e => .error e
        | .ok d => .ok { d with others := o :: d.others, ran := t :: d.ran }

/-- the interrupt site after `tm.waitAll()` when a drained task aborts: what is persisted.
    `cm'` = the channels after `calculateNextTasks` on the collected task `o` (the channels of its
    ready successors `ts` have been emptied by `get`), `d` = the drained tasks. -/
def secondSite {V} (save : DrainSave) (r : Runner V) (cm' : Chans V) (o : Done V) (ts : List (Key × V))
    (d : Drained V) : Except Err (ECp V) :=
  let folded := match save with
    | .refold => o :: d.others
    | .drainedOnly => d.others
    | .pending => d.others
  let pend := match save with
    | .pending => ts
    | _ => []
  match foldDone r cm' folded with
  | .error e => .error e
  | .ok cm2 => .ok { chans := cm2, inputs := pend ++ d.aborting, att := d.att }

def hit {V} (r : EIRunner V) (k : Key) (ts : List (Key × V)) : Bool :=
  r.intAfter.contains k || ts.any (fun t => r.intBefore.contains t.1)

/-- the main loop of one call (`fuel` bounds the completions) -/
def callLoop {V} (ops : ValOps V) (save : DrainSave) (r : EIRunner V) (pick : Pick V) :
    Nat → Chans V → List (Key × V) → List (Key × Nat) → List (Key × V) → EOut V
  | 0, _, _, _, ex => { res := .failed { cls := .fuel }, execs := ex }
  | fuel + 1, cm, running, att, ex =>
    match running[pick running % running.length]? with
    | none => { res := .failed { cls := .noTasks }, execs := ex }
    | some t =>
      let rest := running.eraseIdx (pick running % running.length)
      if willAbort r att t.1 then
        -- first site: the collected task aborts; everything else in flight is drained and folded
        match drain r (bump att t.1) rest with
        | .error e => { res := .failed e, execs := ex }
        | .ok d =>
          match foldDone r.base cm d.others with
          | .error e => { res := .failed e, execs := ex ++ d.ran }
          | .ok cm' => { res := .interrupted { chans := cm', inputs := t :: d.aborting, att := d.att }, execs := ex ++ d.ran }
      else
        match collectOne (execOne r.base t) with
        | .error e => { res := .failed e, execs := ex ++ [t] }
        | .ok o =>
          match calcNext ops r.base cm [o] with
          | .error e => { res := .failed e, execs := ex ++ [t] }
          | .ok (_, .result v) => { res := .done v, execs := ex ++ [t] }
          | .ok (cm', .tasks ts) =>
            if !hit r t.1 ts then callLoop ops save r pick fuel cm' (rest ++ ts) att (ex ++ [t])
            else
              match drain r att rest with
              | .error e => { res := .failed e, execs := ex ++ [t] }
              | .ok d =>
                if d.aborting.isEmpty then
                  -- plain interrupt: the drained tasks go through calculateNextTasks, all next
                  -- tasks are saved as pending inputs (`handleInterrupt`)
                  match calcNext ops r.base cm' d.others with
                  | .error e => { res := .failed e, execs := ex ++ [t] ++ d.ran }
                  | .ok (_, .result v) => { res := .done v, execs := ex ++ [t] ++ d.ran }
                  | .ok (cm2, .tasks ts2) =>
                    { res := .interrupted { chans := cm2, inputs := ts ++ ts2, att := d.att }, execs := ex ++ [t] ++ d.ran }
                else
                  -- second site: an interrupt point was hit and a drained task aborts
                  match secondSite save r.base cm' o ts d with
                  | .error e => { res := .failed e, execs := ex ++ [t] ++ d.ran }
                  | .ok cp => { res := .interrupted cp, execs := ex ++ [t] ++ d.ran }

/-- one call of `runner.run`: a fresh input or a checkpoint to resume from (the restored tasks are
    submitted without another interrupt-before check) -/
def callE {V} (ops : ValOps V) (save : DrainSave) (r : EIRunner V) (pick : Pick V) : V ⊕ ECp V → EOut V
  | .inr cp => callLoop ops save r pick r.base.eagerFuel cp.chans cp.inputs cp.att []
  | .inl x =>
    match calcNext ops r.base (initChans r.base) [(START, x)] with
    | .error e => { res := .failed e, execs := [] }
    | .ok (_, .result v) => { res := .done v, execs := [] }
    | .ok (cm, .tasks ts) =>
      if ts.any (fun t => r.intBefore.contains t.1) then
        { res := .interrupted { chans := cm, inputs := ts, att := [] }, execs := [] }
      else callLoop ops save r pick r.base.eagerFuel cm ts [] []

/-- the final result and all completed node executions of a history -/
structure EHist (V : Type) where
  final : ERes V
  execs : List (Key × V)
  calls : Nat

/-- a caller that resumes until the run completes (at most `n` calls) -/
def resumeE {V} (ops : ValOps V) (save : DrainSave) (r : EIRunner V) (pick : Pick V) :
    Nat → V ⊕ ECp V → List (Key × V) → Nat → EHist V
  | 0, inp, ex, c =>
    { final := (match inp with | .inr cp => .interrupted cp | .inl _ => .failed { cls := .fuel }), execs := ex, calls := c }
  | n + 1, inp, ex, c =>
    let o := callE ops save r pick inp
    match o.res with
    | .interrupted cp => resumeE ops save r pick n (.inr cp) (ex ++ o.execs) (c + 1)
    | res => { final := res, execs := ex ++ o.execs, calls := c + 1 }

def historyE {V} (ops : ValOps V) (save : DrainSave) (r : EIRunner V) (pick : Pick V) (calls : Nat) (x : V) : EHist V :=
  resumeE ops save r pick calls (.inl x) [] 0

def ERes.val? {V} : ERes V → Option V
  | .done v => some v
  | _ => none

def ERes.errCls? {V} : ERes V → Option ErrClass
  | .failed e => some e.cls
  | _ => none

end EinoV.Interrupt.Eager
