/-
  Additions to the prelude for the translated `GenericRegister` (internal/serialization; Gen/TransC12.lean,
  gotrans phase 7).  Core Lean only.

  * `reflect.Type` as far as `GenericRegister` looks at it: a type is an opaque base type (an identity) or a
    pointer to a type — `GoRType`.  `t.Kind() == reflect.Ptr` is `GoRType.kind`, `t.Elem()` is `GoRType.elem?`
    (`none` for a base type: reflect's Elem panics for kinds without an element type — a base type that is a
    slice / map / array / chan would have one, the translated code only calls Elem under `Kind() == Ptr`, and the
    refinement theorems show the guard never fires).  `==` on types is structural equality (type identity).
    Chosen over externals `isPtr` / `elem` so that the pointer-stripping loop is real iteration: the translated
    loop has fuel, and the theorem says the pointer depth + 1 is enough.
  * a Go map whose key is not a string (`map[reflect.Type]string`, `map[int][]int`) is an association list with
    one entry per key, `GoMapK κ α`, with the same operations as `GoMap`.
-/
import EinoV.Model.GoSemErr
namespace EinoV.GoSem

inductive GoRType where
  | base (id : Nat)
  | ptr (t : GoRType)
  deriving DecidableEq, Repr, Inhabited

inductive GoKind where
  | ptr
  | other
  deriving DecidableEq, Repr, Inhabited

/-- `t.Kind()` as far as it is compared with `reflect.Ptr` -/
def GoRType.kind : GoRType → GoKind
  | .ptr _ => .ptr
  | .base _ => .other

/-- `t.Elem()` of a pointer type -/
def GoRType.elem? : GoRType → Option GoRType
  | .ptr t => some t
  | .base _ => none

abbrev GoMapK (κ α : Type) := List (κ × α)

def GoMapK.lookup {κ α} [BEq κ] (k : κ) : GoMapK κ α → Option α
  | [] => none
  | (k', v) :: rest => if k' == k then some v else GoMapK.lookup k rest

/-- `_, ok := m[k]` -/
def GoMapK.has {κ α} [BEq κ] (m : GoMapK κ α) (k : κ) : Bool := (GoMapK.lookup k m).isSome
/-- `m[k]` (the zero value when absent) -/
def GoMapK.getD' {κ α} [BEq κ] (m : GoMapK κ α) (k : κ) (zero : α) : α := (GoMapK.lookup k m).getD zero
/-- `m[k] = v` -/
def GoMapK.set {κ α} [BEq κ] : GoMapK κ α → κ → α → GoMapK κ α
  | [], k, v => [(k, v)]
  | (k', v') :: rest, k, v => if k' == k then (k, v) :: rest else (k', v') :: GoMapK.set rest k v

end EinoV.GoSem
