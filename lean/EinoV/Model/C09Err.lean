/-
  C09 — runs that FAIL: the error a run returns is a value of that run.

  Two layers.

  (1) Specification `runSpec` of what one run of a tower of nested graphs returns (the case
  language of the harness family `errpath`, harness/props/c09_errs.go): level 0 is the compiled
  runnable, level l+1 is a graph node (key `key`) of level l.  Every level runs its pass nodes
  `p<l>_<j>`, its fail node `f<l>`, then the nested level (or, in the innermost graph, the
  `site`), then the pass nodes `q<l>_<j>`.  A run carries a directive: succeed, fail in node
  `f<l>`, or fail at the site (a loop that exceeds the step limit of an AnyPredecessor graph, a
  failing branch condition, a fan-in of two maps with the same key).  The error is built
  COMPOSITIONALLY, the way compose/error.go builds it: the failing graph makes the error
  (`newGraphRunError`: empty path; a failing node: `wrapGraphNodeError(nodeKey, err)` makes
  `NodeRunError` with path `[nodeKey]`), and every enclosing graph prepends the key of the node
  the error came out of (`wrapGraphNodeError`, compose/graph_run.go resolveInterruptCompletedTasks).

  (2) The error-OBJECT machine: `wrapGraphNodeError` does not build a new error, it finds the
  `*internalError` with `errors.As` and prepends to `ie.nodePath.path` IN PLACE.  So what a run
  reports is the content of a heap cell, and who else can reach that cell matters.  `Cell`s live
  in a heap; cell indices below the initial heap length are objects that exist before any run
  (package-level variables, fields of compiled objects).  A failing run is a little program
  `Prog`: obtain the error object (one step), then one step per enclosing graph.  Where the
  object comes from is the source fact `fresh` (tools/factgen/c09.go `storedRunErrors = []`: no
  value made by an `*internalError` constructor is kept in a package-level variable or in a
  struct field): `fresh = true` — allocated by the failing run; `fresh = false` — a run whose
  error kind is marked `shared` takes cell 0 (the seeded change C09-22:
  `var errRunExceedMaxSteps = newGraphRunError(ErrExceedMaxSteps)`).  Runs are interleaved at
  step granularity by an arbitrary schedule (`exec`), several compiled objects included: the
  machine does not care which object a run belongs to.

  NOT modelled: the Go memory model (steps are atomic; the unsynchronised read-modify-write of
  the shared slice is what the race detector reports), `streamWrapperPath` (same discipline as
  `nodePath`, not rendered by `Error()`), interrupt errors (returned unwrapped).
-/
namespace EinoV.C09.Err

/-! ### (1) what one run returns -/

structure Level where
  key : String   -- node key of this graph in its parent ("" at level 0)
  pre : Nat
  post : Nat
  deriving Repr, DecidableEq

/-- what the innermost graph holds behind its fail node -/
inductive Site | none | loop | branch | merge
  deriving Repr, DecidableEq

structure Obj where
  levels : List Level
  site : Site
  deriving Repr, DecidableEq

inductive Dir | ok | site | fail (l : Nat)
  deriving Repr, DecidableEq

structure ErrVal where
  tag : String          -- "NodeRunError" | "GraphRunError"
  cause : String        -- boom | maxsteps | branch | merge
  path : List String
  deriving Repr, DecidableEq

inductive Outcome
  | ok (v : String)
  | err (e : ErrVal)
  deriving Repr, DecidableEq

def passes (pfx : String) (l : Nat) : Nat → String → String
  | 0, v => v
  | n + 1, v => passes pfx l n v ++ "." ++ pfx ++ toString l ++ "_" ++ toString n

/-- the innermost graph behind its fail node; an error made here is made by the graph RUN
    (`newGraphRunError`), with an empty path -/
def siteOutcome (s : Site) (d : Dir) (v : String) : Outcome :=
  match s, d with
  | .loop, .site => .err ⟨"GraphRunError", "maxsteps", []⟩
  | .branch, .site => .err ⟨"GraphRunError", "branch", []⟩
  | .merge, .site => .err ⟨"GraphRunError", "merge", []⟩
  | .loop, _ => .ok (v ++ ".ping.pong")
  | .branch, _ => .ok (v ++ ".ba.bm")
  | .merge, _ => .ok (v ++ ".ma+" ++ v ++ ".mb")
  | .none, _ => .ok v

/-- `wrapGraphNodeError nodeKey err` as a function on values -/
def wrapNode (key : String) : Outcome → Outcome
  | .ok v => .ok v
  | .err e => .err { e with path := key :: e.path }

/-- the run of level `l` (first element of the list) on value `v` -/
def descend (site : Site) (d : Dir) : List Level → Nat → String → Outcome
  | [], _, v => .ok v
  | lv :: rest, l, v =>
    let v1 := passes "p" l lv.pre v
    if d = .fail l then
      -- node f<l> returns an error: the graph of level l wraps it with the node's key
      .err ⟨"NodeRunError", "boom", ["f" ++ toString l]⟩
    else
      let v2 := v1 ++ ".f" ++ toString l
      let inner : Outcome := match rest with
        | [] => siteOutcome site d v2
        | nx :: _ => wrapNode nx.key (descend site d rest (l + 1) v2)
      match inner with
      | .ok v3 => .ok (passes "q" l lv.post v3)
      | .err e => .err e

def runSpec (o : Obj) (tok : String) (d : Dir) : Outcome :=
  let dir := match d with
    | .ok => "ok"
    | .site => "site"
    | .fail l => "f" ++ toString l
  descend o.site d o.levels 0 (tok ++ "~" ++ dir)

/-- the keys of the nested graphs a run is inside of when it is in level `l`: its nesting path -/
def nesting (levels : List Level) (l : Nat) : List String :=
  ((levels.drop 1).take l).map (·.key)

def joinWith (sep : String) : List String → String
  | [] => ""
  | [x] => x
  | x :: rest => x ++ sep ++ joinWith sep rest

def renderErr (tag cause : String) (path : List String) : String :=
  "err|" ++ tag ++ "|" ++ cause ++ "|" ++ joinWith "," path

def render : Outcome → String
  | .ok v => "ok|" ++ v
  | .err e => renderErr e.tag e.cause e.path

/-! ### (2) error objects -/

structure Cell where
  tag : String
  cause : String
  path : List String
  deriving Repr, DecidableEq

/-- a failing run: obtain the error object (`init` = the path it is created with), then prepend
    the keys `ups` (outermost first; the innermost enclosing graph prepends first).
    `shared`: the error kind a seeded change builds once (the "exceeds max steps" run error). -/
structure Prog where
  tag : String
  cause : String
  shared : Bool
  init : List String
  ups : List String
  deriving Repr, DecidableEq

/-- the content the object of a run with program `p` must have after `k` prepends -/
def want (p : Prog) (k : Nat) : Cell :=
  ⟨p.tag, p.cause, p.ups.drop (p.ups.length - k) ++ p.init⟩

structure RState where
  pc : Nat
  ref : Option Nat
  deriving Repr, DecidableEq

structure St where
  heap : List Cell
  rs : Nat → RState

def St.init (h0 : List Cell) : St := ⟨h0, fun _ => ⟨0, none⟩⟩

def upd (f : Nat → RState) (i : Nat) (v : RState) : Nat → RState := fun j => if j = i then v else f j

/-- one atomic step of run `i` (a run without program — a successful run — does nothing) -/
def step (fresh : Bool) (progs : List (Option Prog)) (st : St) (i : Nat) : St :=
  match progs[i]? with
  | some (some p) =>
    let r := st.rs i
    if r.pc = 0 then
      if !fresh && p.shared then
        { st with rs := upd st.rs i ⟨1, some 0⟩ }                      -- `return nil, errRunExceedMaxSteps`
      else
        { heap := st.heap ++ [⟨p.tag, p.cause, p.init⟩],               -- `&internalError{…}`
          rs := upd st.rs i ⟨1, some st.heap.length⟩ }
    else if r.pc ≤ p.ups.length then
      match r.ref with
      | some a =>
        match st.heap[a]? with
        | some c =>                                                     -- ie.nodePath.path = append([]string{key}, ie.nodePath.path...)
          { heap := st.heap.set a { c with path := p.ups.getD (p.ups.length - r.pc) "" :: c.path },
            rs := upd st.rs i ⟨r.pc + 1, some a⟩ }
        | none => st
      | none => st
    else st
  | _ => st

def exec (fresh : Bool) (progs : List (Option Prog)) : List Nat → St → St
  | [], st => st
  | i :: rest, st => exec fresh progs rest (step fresh progs st i)

/-- what the error run `i` returned reads NOW -/
def read (st : St) (i : Nat) : Option Cell :=
  (st.rs i).ref.bind fun a => st.heap[a]?

def done (progs : List (Option Prog)) (st : St) (i : Nat) : Bool :=
  match progs[i]? with
  | some (some p) => (st.rs i).pc == p.ups.length + 1
  | _ => true

/-- the program of a failing run, read off the object and the directive (NOT off `runSpec`):
    a node failure at level `l` creates `NodeRunError [f<l>]` and is wrapped by the graphs the
    run is nested in at level `l`; a site failure creates `GraphRunError []` in the innermost
    graph and is wrapped by all enclosing graphs. -/
def progOf (o : Obj) (d : Dir) : Option Prog :=
  let n := o.levels.length
  match d with
  | .ok => none
  | .fail l => if l < n then some ⟨"NodeRunError", "boom", false, ["f" ++ toString l], nesting o.levels l⟩ else none
  | .site =>
    if n = 0 then none else
    match o.site with
    | .none => none
    | .loop => some ⟨"GraphRunError", "maxsteps", true, [], nesting o.levels (n - 1)⟩
    | .branch => some ⟨"GraphRunError", "branch", false, [], nesting o.levels (n - 1)⟩
    | .merge => some ⟨"GraphRunError", "merge", false, [], nesting o.levels (n - 1)⟩

/-- the source fact as the model's parameter: every run error is allocated by the failing run iff
    no value of the mutable error type is kept in a package-level variable / struct field
    (`storedRunErrors` of tools/factgen/c09_errs.go) -/
def freshOf (storedRunErrors : List String) : Bool := storedRunErrors.isEmpty

/-- the package-level object of the seeded change, as initial heap -/
def sharedHeap : List Cell := [⟨"GraphRunError", "maxsteps", []⟩]

end EinoV.C09.Err
