/-
  C02, the same compiled runnable called several times in sequence (a "session").

  `runner.run` (compose/graph_run.go) builds its channel manager with `initChannelManager` on
  every call, so a run starts from `initChans r` whatever happened before.  The session model
  makes that an explicit parameter: `fresh` (source fact `FactsC02.runBuildsFreshChannels`) says
  whether a call builds its channels anew; when it does not, the call starts from what the
  previous *completed* call left behind, passed through `recycle` (whatever clean-up a runner that
  keeps its channels performs).  `Props/C02.lean` proves that with `fresh = true` (or with a
  `recycle` that restores `initChans r`) a session is the list of independent runs, and exhibits
  a session that differs when the clean-up restores the dependency bookkeeping only.
-/
import EinoV.Model.Engine
import EinoV.Model.C02Workflow

namespace EinoV.Engine

/-- `eagerLoop`, also handing back the channels the run ends with -/
def eagerLoopC {V} (ops : ValOps V) (r : Runner V) (pick : Pick V) :
    Nat → Chans V → List (Key × V) → List (List (Key × V)) → List Key → EOutcome V × Chans V
  | 0, cm, running, bs, comp =>
    ({ result := .error { cls := .fuel }, batches := bs, completed := comp, abandoned := running }, cm)
  | fuel + 1, cm, running, bs, comp =>
    match running[pick running % running.length]? with
    | none => ({ result := .error { cls := .noTasks }, batches := bs, completed := comp, abandoned := [] }, cm)
    | some t =>
      let rest := running.eraseIdx (pick running % running.length)
      match collectOne (execOne r t) with
      | .error e => ({ result := .error e, batches := bs, completed := comp ++ [t.1], abandoned := rest }, cm)
      | .ok d =>
        match calcNext ops r cm [d] with
        | .error e => ({ result := .error e, batches := bs, completed := comp ++ [t.1], abandoned := rest }, cm)
        | .ok (cm', .result v) => ({ result := .ok v, batches := bs, completed := comp ++ [t.1], abandoned := rest }, cm')
        | .ok (cm', .tasks ts) => eagerLoopC ops r pick fuel cm' (rest ++ ts) (bs ++ [ts]) (comp ++ [t.1])

/-- `runEager` started from the channels `cm0` (instead of `initChans r`), with the channels it
    ends with -/
def runEagerFrom {V} (ops : ValOps V) (r : Runner V) (pick : Pick V) (cm0 : Chans V) (input : V) :
    EOutcome V × Chans V :=
  match calcNext ops r cm0 [(START, input)] with
  | .error e => ({ result := .error e, batches := [], completed := [], abandoned := [] }, cm0)
  | .ok (cm, .result v) => ({ result := .ok v, batches := [], completed := [], abandoned := [] }, cm)
  | .ok (cm, .tasks ts) => eagerLoopC ops r pick r.eagerFuel cm ts [ts] []

/-- the batch `loop`, also handing back the channels the run ends with -/
def loopC {V} (ops : ValOps V) (r : Runner V) (sched : Sched V) :
    Nat → Chans V → List (Key × V) → Trace V → Outcome V × Chans V
  | 0, cm, _, tr => ({ result := .error { cls := if r.dag then .fuel else .maxSteps }, trace := tr.reverse }, cm)
  | fuel + 1, cm, tasks, tr =>
    let tr' := tasks :: tr
    match runTasks r sched tr.length tasks with
    | .error e => ({ result := .error e, trace := tr'.reverse }, cm)
    | .ok done =>
      if done.isEmpty then ({ result := .error { cls := .noTasks }, trace := tr'.reverse }, cm) else
      match calcNext ops r cm done with
      | .error e => ({ result := .error e, trace := tr'.reverse }, cm)
      | .ok (cm', .result v) => ({ result := .ok v, trace := tr'.reverse }, cm')
      | .ok (cm', .tasks ts) => loopC ops r sched fuel cm' ts tr'

/-- `runS` started from the channels `cm0` -/
def runSFrom {V} (ops : ValOps V) (r : Runner V) (sched : Sched V) (cm0 : Chans V) (input : V) :
    Outcome V × Chans V :=
  match calcNext ops r cm0 [(START, input)] with
  | .error e => ({ result := .error e, trace := [] }, cm0)
  | .ok (cm, .result v) => ({ result := .ok v, trace := [] }, cm)
  | .ok (cm, .tasks ts) => loopC ops r sched r.fuel cm ts []

/-- the channels a call begins with: `idle` is what the last completed call left (none: first
    call, or the last call failed and kept its channels) -/
def startChans {V} (fresh : Bool) (recycle : Chans V → Chans V) (r : Runner V) : Option (Chans V) → Chans V
  | none => initChans r
  | some cm => if fresh then initChans r else recycle cm

/-- a sequence of calls of one eager runner (a compiled Workflow): each call has its own
    completion schedule and input -/
def sessionEager {V} (fresh : Bool) (recycle : Chans V → Chans V) (ops : ValOps V) (r : Runner V) :
    Option (Chans V) → List (Pick V × V) → List (EOutcome V)
  | _, [] => []
  | idle, c :: rest =>
    let oc := runEagerFrom ops r c.1 (startChans fresh recycle r idle) c.2
    oc.1 :: sessionEager fresh recycle ops r
      (match oc.1.result with | .ok _ => some oc.2 | .error _ => none) rest

/-- a sequence of calls of one batch runner (a compiled all-predecessor Graph) -/
def sessionS {V} (fresh : Bool) (recycle : Chans V → Chans V) (ops : ValOps V) (r : Runner V) :
    Option (Chans V) → List (Sched V × V) → List (Outcome V)
  | _, [] => []
  | idle, c :: rest =>
    let oc := runSFrom ops r c.1 (startChans fresh recycle r idle) c.2
    oc.1 :: sessionS fresh recycle ops r
      (match oc.1.result with | .ok _ => some oc.2 | .error _ => none) rest

/-- a clean-up that restores the dependency bookkeeping of every channel (control states back
    to waiting, data flags back to false, not skipped) and leaves the received values alone -/
def Chan.resetDepsOnly {V} (c : Chan V) : Chan V :=
  { c with ctrl := c.ctrl.map (fun p => (p.1, Dep.waiting)), data := c.data.map (fun p => (p.1, false)),
           skipped := false }

def recycleDepsOnly {V} (cm : Chans V) : Chans V := cm.map (fun p => (p.1, p.2.resetDepsOnly))

/-- the complete clean-up: `Chan.reset` (values too) and not skipped -/
def recycleAll {V} (cm : Chans V) : Chans V := cm.map (fun p => (p.1, { p.2.reset with skipped := false }))

end EinoV.Engine
