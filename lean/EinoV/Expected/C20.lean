/- The fact values the C20 (and, for the shared builder, C07) theorems are proved for; the
   oracles run the model with these. -/
import EinoV.Model.C20Builder
import EinoV.Model.C20Keys
namespace EinoV.Expected.C20
open EinoV.Build

def allGuards : Guards := { checkErr := true, checkCompiled := true, storeErr := true }

/-- the good values: all guards present, addBranch never retypes a typed pass-through and
    always propagates, compile leaves the builder-owned handler maps alone -/
def facts : Facts :=
  { nodeG := allGuards, edgeG := allGuards, branchG := allGuards,
    branchGuarded := true, branchPropagates := true, compileMutates := false, compileChecksTypes := true }

/-- `addEdgeWithMappings` records entry / exit edges inside `if !noControl { … }` only -/
def entryExitInControlBlock : Bool := true

/-- `Workflow.compile` checks that the end nodes of a recorded branch were declared (the good
    value; the unrepaired source dereferences the missing entry: finding
    `C20:panic:workflow-compile:branch-end-undeclared`) -/
def wfBranchEndsChecked : Bool := true

/-- `Workflow.compile` replays the recorded inputs node by node in declaration order (the good
    value; the unrepaired source ranges over the Go map `wf.workflowNodes`: finding
    `C20:nondeterministic:workflow-compile:input-replay-order`) -/
def wfInputsReplayedInDeclaredOrder : Bool := true

/-- fields of `g` that `compile` may assign (only the flag) -/
def compileAssigns : List String := ["compiled"]

/-- key options: `forMapInput` / `forMapOutput` accept the nil helper of a pass-through node whose
    own type is not inferred yet, and `compile` refuses a node whose own type is unknown (the good
    values; the unrepaired source has neither: finding `C20:panic:*:keyed-passthrough`) -/
def kfacts : KFacts := { helperNilSafe := true, compileChecksOwnTypes := true }

end EinoV.Expected.C20
