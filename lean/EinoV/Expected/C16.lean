/- The fact values the C16 theorems are proved for (and the oracle runs with). -/
import EinoV.Model.C16
import EinoV.Model.C16Keys
import EinoV.Model.C16Slices
import EinoV.Model.C16Resume
namespace EinoV.Expected.C16
def facts : EinoV.C16.Facts :=
  { typeCmpIdentity := true, typeCmpImplements := false, strip := 1, passSubPathIsError := true, nestedCopies := true,
    designateCopies := true }
/-- both closures of both key wrappers (`WithInputKey`, `WithOutputKey`) pass `opts...` on -/
def keyFacts : EinoV.C16.KeyFacts :=
  { inKeyFwdInvoke := true, inKeyFwdTransform := true, outKeyFwdInvoke := true, outKeyFwdTransform := true }
/-- every list of `optMap` grows by `append` from the map's own slot -/
def sliceFacts : EinoV.C16.SliceFacts := { valsGrowFromMapSlot := true }
/-- every task – restored from a checkpoint or new – gets its node callbacks -/
def resumeFacts : EinoV.C16.ResumeFacts := { restoredTaskGetsNodeCallbacks := true }
end EinoV.Expected.C16
