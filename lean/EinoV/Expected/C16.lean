/- The fact values the C16 theorems are proved for (and the oracle runs with). -/
import EinoV.Model.C16
namespace EinoV.Expected.C16
def facts : EinoV.C16.Facts :=
  { typeCmpIdentity := true, typeCmpImplements := false, strip := 1, passSubPathIsError := true, nestedCopies := true,
    designateCopies := true }
end EinoV.Expected.C16
