/- The fact values the C18 theorems are proved for (and the oracle runs the model with). -/
import EinoV.Model.C18Shared
namespace EinoV.Expected.C18
open EinoV.C18

/-- react.go `firstChunkStreamToolCallChecker`: EOF ⇒ false; tool calls ⇒ true; empty content
    ⇒ continue; otherwise ⇒ false -/
def firstChunkChecker : CheckerSpec :=
  { rules := [(.hasToolCalls, .retTrue), (.emptyContent, .next), (.otherwise, .retFalse)],
    atEOF := false }

def topoPlain : Topo :=
  { nodes := ["chat", "tools"],
    edges := [("start", "chat"), ("tools", "chat")],
    branches := [("chat", ["end", "tools"])] }

def topoRD : Topo :=
  { nodes := ["chat", "direct_return", "tools"],
    edges := [("direct_return", "end"), ("start", "chat")],
    branches := [("chat", ["end", "tools"]), ("tools", ["chat", "direct_return"])] }

def facts : Facts :=
  { defaultChecker := firstChunkChecker, topoPlain := topoPlain, topoRD := topoRD,
    maxStepPassed := true, maxStepExported := true, defaultSlack := 10, modelPreAppends := true, toolsPreAppends := true }

/-- react.go: `state.Messages` is only ever assigned `append(state.Messages, …)`, and the state
    generator makes the slice inside the per-run closure -/
def memFacts : MemFacts := { historyOnlyAppended := true, stateFreshPerRun := true }

end EinoV.Expected.C18
