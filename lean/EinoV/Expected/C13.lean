/- The fact values the C13 theorems are proved for (and the oracle runs with). -/
namespace EinoV.Expected.C13
def internalErrorHasUnwrap : Bool := true
def failedTaskReportedAsIs : Bool := true
/-- every state-mutex `Lock()` of compose/state.go is followed by `defer …Unlock()` -/
def stateLocksReleasedByDefer : Bool := true
/-- the deferred recover handler of `taskManager.executor` does nothing that can itself panic -/
def executorRecoverHandlerClean : Bool := true
/-- the facts of the step model (`ExecFacts` fields: recovers, handlerClean, unlockByDefer) -/
def execRecovers : Bool := true
/-- the step loop reports a done context by wrapping (`%w`) `ctx.Err()` of the run's context -/
def loopReportsCtxErr : Bool := true
/-- the goroutine of `streamReaderWithConvert.toStream` recovers -/
def convForwarderRecovers : Bool := true
/-- the goroutine of `childStreamReader.toStream` recovers -/
def childForwarderRecovers : Bool := true
/-- `internalError.Error()` keeps the text it rendered first (false: rendered from the current fields) -/
def errorTextMemoised : Bool := false
/-- at both drain sites of `runner.run` the classification error of the drained tasks is checked -/
def drainedTaskErrorChecked : Bool := true
end EinoV.Expected.C13
