/- The fact values the C13 theorems are proved for (and the oracle runs with). -/
namespace EinoV.Expected.C13
def internalErrorHasUnwrap : Bool := true
def failedTaskReportedAsIs : Bool := true
end EinoV.Expected.C13
