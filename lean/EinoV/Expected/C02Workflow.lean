/- The fact values the Workflow theorems of C02 are proved for (tools/factgen/c02_workflow.go). -/
namespace EinoV.Expected.C02Workflow
def wfAddInputEdge : Bool × Bool := (false, false)       -- AddInput: addEdgeWithMappings(from, to, noControl=false, noData=false)
def wfAddDependencyEdge : Bool × Bool := (false, true)   -- AddDependency: control edge only
def wfNoDirectEdge : Bool × Bool := (true, false)        -- WithNoDirectDependency: data edge only
def wfOptionsSelectBranches : Bool := true               -- the options select those three branches
def wfBranchSkipsData : Bool := true                     -- Workflow.compile: addBranch(from, branch, skipData = true)
def edgeFlagsGuardAppends : Bool := true                 -- controlEdges appended iff !noControl, dataEdges iff !noData
def skipDataSetsNoDataFlow : Bool := true                -- addBranch: skipData ⇒ branch.noDataFlow
def eagerWaitsForOne : Bool := true                      -- needAll = !eager; wait = one waitOne unless needAll
end EinoV.Expected.C02Workflow
