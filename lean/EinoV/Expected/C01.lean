/- The fact values the C01 theorems are proved for (and the oracle runs with). -/
namespace EinoV.Expected.C01
/-- `r.options.maxRunSteps = len(r.chanSubscribeTo) + 10` -/
def stepSlack : Nat := 10
/-- the loop checks `!r.dag && step >= maxSteps` before submitting the step's tasks -/
def stepGuardBeforeSubmit : Bool := true
def stepGuardOp : String := ">="
/-- `Chain.AppendBranch` never assigns to (a field of) the `*ChainBranch` it is given: the table
    branch key → node key of an append is a local captured by that append's closures -/
def appendBranchLeavesBuilderIntact : Bool := true
end EinoV.Expected.C01
