/- The fact values the C14 theorems are proved for (and the oracle runs the model with). -/
import EinoV.Model.C14
namespace EinoV.Expected.C14
open EinoV.C14

/-- internal/concat.go `concatFuncs` -/
def concatFuncs : List (String × String) :=
  [("string", "concatStrings"), ("int8", "useLast"), ("int16", "useLast"), ("int32", "useLast"),
   ("int64", "useLast"), ("int", "useLast"), ("uint8", "useLast"), ("uint16", "useLast"),
   ("uint32", "useLast"), ("uint64", "useLast"), ("uint", "useLast"), ("bool", "useLast"),
   ("float32", "useLast"), ("float64", "useLast"), ("time.Time", "useLast"),
   ("time.Duration", "useLast")]

/-- message.go `init`: types registered through `RegisterStreamChunkConcatFunc` -/
def registered : List (String × String) :=
  [("schema", "ConcatMessages"), ("schema", "concatMessageArray")]

def ruleOfName : String → Option Rule
  | "concatStrings" => some .concatStr
  | "useLast" => some .useLast
  | _ => none

def tableOf (l : List (String × String)) : List (String × Rule) :=
  l.filterMap (fun p => (ruleOfName p.2).map (fun r => (p.1, r)))

/-- concatMaps treats a nil interface value as absent (never hands it to reflect) -/
def nilGuard : Bool := true
/-- that guard is `val.Kind() == reflect.Interface && val.IsNil()` (kind tested first) -/
def guardKindFirst : Bool := true
/-- recursion into nested maps is decided by `….Type().Elem().Kind() == reflect.Map` -/
def recurseByKind : Bool := true
/-- `ConcatItems` returns T's zero value for a nil interface result (the repaired behaviour,
    fixes/C14-nil-interface-result.diff); NOT part of `facts_match`: the theorems about `any`
    chunks are stated for both values of the regenerated fact -/
def nilResultGuard : Bool := true
def roleCheck : Bool := true
def nameCheck : Bool := true
def tcidCheck : Bool := true
def tcIdCheck : Bool := true
def tcTypeCheck : Bool := true
def tcNameCheck : Bool := true
/-- the final sort of `concatToolCalls` is `sort.SliceStable` -/
def tcSortStable : Bool := true

def mkCfg (tbl : List (String × String)) (nilGuard kindFirst byKind nilRes r n t i ty nm stable : Bool) : Cfg :=
  { table := tableOf tbl, nilAbsent := nilGuard, guardKindFirst := kindFirst, recurseByKind := byKind,
    nilResultGuard := nilRes, roleCheck := r, nameCheck := n, tcidCheck := t,
    tcIdCheck := i, tcTypeCheck := ty, tcNameCheck := nm, tcSortStable := stable }

def cfg : Cfg := mkCfg concatFuncs nilGuard guardKindFirst recurseByKind nilResultGuard roleCheck nameCheck tcidCheck
  tcIdCheck tcTypeCheck tcNameCheck tcSortStable

end EinoV.Expected.C14
