/- The fact values the C11 theorems are proved for (and the oracle runs the model with). -/
import EinoV.Model.C11
import EinoV.Model.C11Late
namespace EinoV.Expected.C11
/-- the four handler wrappers and `ProcessState` hold the state mutex around the user call;
    access through the pointer returned by the deprecated `GetState` is not covered -/
def locks : EinoV.C11.LockFacts :=
  { pre := true, post := true, streamPre := true, streamPost := true, process := true,
    getState := false }
def mutexPerState : Bool := true
def genPerRun : Bool := true
def cpSavesState : Bool := true
def cpRestoredBeforeTasks : Bool := true
def preBeforeSpawn : Bool := true
def postAfterDone : Bool := true
def firstTaskInline : Bool := true
/-- the top-level resume branch of `runner.run` (checkpoint from the store) -/
def topResume : EinoV.C11.ResumeFacts :=
  { saves := true, restoresFirst := true, setAlways := true, oneHolder := true }
/-- the sub-graph resume branch of `runner.run` (checkpoint handed down by the parent) -/
def subResume : EinoV.C11.ResumeFacts :=
  { saves := true, restoresFirst := true, setAlways := true, oneHolder := true }
/-- the interrupt handlers save the state only for a graph that declares state: the value the
    property needs (a nested graph without state keeps working on the enclosing state after a
    resume).  NOT tied by `facts_match`: on a tree where the extracted fact is `false` the
    harness reports the finding `C11:resume:stateless-nested-state-copy`. -/
def cpSavesOwnStateOnly : Bool := true
/-- `setNodeKey` builds the path of a child node in a backing array of its own: the value the
    property needs (sibling graphs keep distinct node paths, so the caller's modifier is told
    the right path on resume).  NOT tied by `facts_match`: on a tree where the extracted fact
    is `false` the harness reports the finding `C11:paths:modifier-path`. -/
def nodePathFresh : Bool := true
/-- `internalState{…}` literals in package compose: `runCtx` + one per resume branch -/
def holderAllocSites : Nat := 3
/-- contexts and the lock: the lock sites hand the user function their own `ctx` and go through
    `Lock` whatever a context carries (the oracle runs `runK` with these; tied to the source by
    `captured_ctx_takes_lock`, which needs only that no context can make a lock site skip the lock) -/
def ctxFacts : EinoV.C11.CtxFacts := { handsPlainCtx := true, lockUnconditional := true }
/-- the mark "skip the state pre-handler" belongs to the one task `restoreTasks` rebuilt from the
    checkpoint; tasks the resumed run creates later for the same node do not have it -/
def skipPrePerTask : Bool := true
end EinoV.Expected.C11
