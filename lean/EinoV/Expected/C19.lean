/- The fact values the C19 theorems are proved for. -/
namespace EinoV.Expected.C19
/-- resolveCompletedTasks closes the copies that no successor consumes -/
def closesSurplus : Bool := true
/-- a stream copy replaced by a later copy for the same (successor, sender) slot is closed -/
def closesReplaced : Bool := true
/-- dagChannel.reportValues closes the streams handed to a skipped channel -/
def skippedChannelClosesValues : Bool := true
/-- updateValues closes a stream addressed to a node it is not a data predecessor of -/
def closesNonDataValues : Bool := true
def firstCopyExpr : String := "len(t.call.writeTo)+len(t.call.writeToBranches)*2"
/-- multiStreamReader.close: the loop signals every merged source (range variables renamed K, V) -/
def mergeCloseLoop : String := "range msr.sts: V.closeRecv()"
/-- multiStreamReader.recv: a source found closed is removed from chosenList (first occurrence) -/
def mergeRecvDrop : String := "if msr.chosenList[K]==chosen: append(msr.chosenList[:K],msr.chosenList[K+1:]...)"
end EinoV.Expected.C19
