/- The fact values the C19 theorems are proved for. -/
namespace EinoV.Expected.C19
/-- resolveCompletedTasks closes the copies that no successor consumes -/
def closesSurplus : Bool := true
/-- a stream copy replaced by a later copy for the same (successor, sender) slot is closed -/
def closesReplaced : Bool := true
/-- dagChannel.reportValues closes the streams handed to a skipped channel -/
def skippedChannelClosesValues : Bool := true
/-- dagChannel.reportSkip closes the streams the channel already holds when it turns skipped -/
def skipReleasesStored : Bool := true
/-- updateValues closes a stream addressed to a node it is not a data predecessor of -/
def closesNonDataValues : Bool := true
/-- updateValues, target without an entry in dataPredecessors: it goes on with an empty set, so the
    values sent to the target reach the arm that closes streams from non-data senders -/
def missingDpsArm : String := "empty-set"
/-- OnWithStreamHandle: one copy per kept handler occurrence plus one for the node -/
def cbCopyCountExpr : String := "len(handlers)+1"
/-- OnWithStreamHandle: every kept occurrence is handed the copy at its own index -/
def cbHandLoop : String := "range handlers: ctx=handle(ctx,V,inOuts[K])"
def firstCopyExpr : String := "len(t.call.writeTo)+len(t.call.writeToBranches)*2"
/-- multiStreamReader.close: the loop signals every merged source (range variables renamed K, V) -/
def mergeCloseLoop : String := "range msr.sts: V.closeRecv()"
/-- multiStreamReader.recv: a source found closed is removed from chosenList (first occurrence) -/
def mergeRecvDrop : String := "if msr.chosenList[K]==chosen: append(msr.chosenList[:K],msr.chosenList[K+1:]...)"
end EinoV.Expected.C19
