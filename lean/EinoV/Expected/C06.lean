/- The fact values the C06 theorems are proved for (and the oracle runs with): the repaired code. -/
namespace EinoV.Expected.C06
/-- `getHitKey(nextTasks, r.interruptBeforeNodes)` is consulted for the tasks computed from START -/
def initialTasksChecked : Bool := true
/-- `checkPointer.set` is reached only under `!isSubGraph && checkPointID != nil`, in both interrupt handlers -/
def storeOnlyTopLevelWithID : Bool := true
/-- the in-loop interrupt-before check is applied to the result of every `calculateNextTasks` of the loop -/
def loopTasksChecked : Bool := true
end EinoV.Expected.C06
