/- The fact values the C06 theorems are proved for (and the oracle runs with): the repaired code. -/
namespace EinoV.Expected.C06
/-- `getHitKey(nextTasks, r.interruptBeforeNodes)` is consulted for the tasks computed from START -/
def initialTasksChecked : Bool := true
/-- `checkPointer.set` is reached only under `!isSubGraph && checkPointID != nil`, in both interrupt handlers -/
def storeOnlyTopLevelWithID : Bool := true
/-- the in-loop interrupt-before check is applied to the result of every `calculateNextTasks` of the loop -/
def loopTasksChecked : Bool := true
/-- a resumed run's ctx keeps the checkpoint, so that nested graphs are re-entered from a stale checkpoint
    (C05's fact; the nested clause of before_honoured rests on its being false) -/
def createTasksForwardsStaleCP : Bool := false
/-- the error of `r.checkPointer.set(…)` reaches the return of the interrupt handlers (a failed
    checkpoint write is the run's error; no interrupt is returned then) -/
def checkpointWriteErrorReturned : Bool := true
end EinoV.Expected.C06
