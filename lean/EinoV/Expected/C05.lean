/- The fact values the C05 theorems are proved for (and the oracle runs with): the repaired code. -/
namespace EinoV.Expected.C05
/-- after `restoreTasks` the loop's ctx still carries the checkpoint, so `createTasks` →
    `forwardCheckPoint` re-applies nested checkpoints to tasks created later -/
def createTasksForwardsStaleCP : Bool := false
/-- sub-graph tasks of an interrupted step are saved with `SkipPreHandler[key] = true` (rerun nodes are not) -/
def subGraphSavedWithSkipPre : Bool := true
/-- sub-graph and rerun tasks are saved with the zero input (`inputZeroValue` / `inputEmptyStream`) -/
def rerunInputsSavedZero : Bool := true
/-- `handleInterruptWithSubGraphAndRerunNodes` folds the other finished tasks with
    resolveCompletedTasks + updateValues + updateDependencies and no `get` -/
def foldWithoutGet : Bool := true
/-- the stream<->value convert pairs registered for START's output and END's input hold functions
    (an interrupt in the Stream paradigm converts channel contents written by START) -/
def checkpointStartEndPairsSet : Bool := true
end EinoV.Expected.C05
