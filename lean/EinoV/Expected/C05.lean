/- The fact values the C05 theorems are proved for (and the oracle runs with): the repaired code. -/
namespace EinoV.Expected.C05
/-- after `restoreTasks` the loop's ctx still carries the checkpoint, so `createTasks` →
    `forwardCheckPoint` re-applies nested checkpoints to tasks created later -/
def createTasksForwardsStaleCP : Bool := false
/-- sub-graph tasks of an interrupted step are saved with `SkipPreHandler[key] = true` (rerun nodes are not) -/
def subGraphSavedWithSkipPre : Bool := true
/-- sub-graph and rerun tasks are saved with the zero input (`inputZeroValue` / `inputEmptyStream`) -/
def rerunInputsSavedZero : Bool := true
/-- `handleInterruptWithSubGraphAndRerunNodes` folds the other finished tasks with
    resolveCompletedTasks + updateValues + updateDependencies and no `get` -/
def foldWithoutGet : Bool := true
/-- the stream<->value convert pairs registered for START's output and END's input hold functions
    (an interrupt in the Stream paradigm converts channel contents written by START) -/
def checkpointStartEndPairsSet : Bool := true
/-- eager mode: the interrupt site after `tm.waitAll()` hands the drained tasks to the handler and saves
    the tasks already computed as pending inputs (2 = `DrainSave.pending`, fixes/C05-eager-drain-pending.diff;
    the shipped code has 0 = `refold`, the recorded finding) -/
def eagerDrainSave : Nat := 2
/-- a stream that was closed without any chunk is stored in a checkpoint as `nil` and `nil` is restored
    as a stream without chunks (`defaultStreamConvertPair`): the chunk-less stream survives the round
    trip as what it was (not as a stream with one zero chunk) -/
def emptyStreamStoredAsNil : Bool := true
end EinoV.Expected.C05
