/- The fact values the C09 theorems are proved for (and the oracle runs the model with). -/
import EinoV.Model.C09
import EinoV.Model.C09Err
import EinoV.Model.C09Cb
import EinoV.Model.C09Flight
namespace EinoV.Expected.C09
def runAllocsChannelManager : Bool := true
def channelsBuiltPerRun : Bool := true
def runAllocsTaskManager : Bool := true
def taskManagerQueueFresh : Bool := true
def channelManagerFieldsFresh : Bool := true
def nonFreshPerRunFields : List String := []
def runBuildsOptMap : Bool := true
def runCreatesStateViaRunCtx : Bool := true
def sharedWrites : List String := []
def extractOptionCopies : Bool := true
def toolsNodeRunPathWrites : List String := []
def storedRunErrors : List String := []
def errorPathMutators : List String :=
  ["compose/error.go:wrapGraphNodeError:ie.nodePath.path", "compose/error.go:wrapStreamWrapperError:ie.streamWrapperPath"]
def graphHandlersCollectCopies : Bool := true
def nodeHandlersCollectCopies : Bool := true
def appendHandlersCopies : Bool := true
def cbFacts : EinoV.C09.Cb.Facts := ⟨graphHandlersCollectCopies, nodeHandlersCollectCopies, appendHandlersCopies⟩
def runPathSharedSync : List String := []
def sharedSyncOnRunPath : Bool := !runPathSharedSync.isEmpty
def compiledObjectSync : List String := []
def lockOnCompiledObject : Bool := !compiledObjectSync.isEmpty
def branchSuccessorsFresh : Bool := true
def runErrorsFresh : Bool := EinoV.C09.Err.freshOf storedRunErrors
def alloc : EinoV.C09.Alloc :=
  EinoV.C09.allocOf runAllocsChannelManager channelsBuiltPerRun channelManagerFieldsFresh
    runAllocsTaskManager taskManagerQueueFresh runBuildsOptMap runCreatesStateViaRunCtx
    sharedWrites nonFreshPerRunFields extractOptionCopies
end EinoV.Expected.C09
