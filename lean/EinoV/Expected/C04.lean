import EinoV.Model.C04
/- The fact values the C04 theorems are proved for (and the oracle runs with). -/
namespace EinoV.Expected.C04
open EinoV.C04
/-- preference lists of newRunnablePacker (if / else-if chains, in order) -/
def packerPref : Pref :=
  { forI := [.i, .s, .c, .t], forS := [.s, .t, .i, .c], forC := [.c, .t, .i, .s], forT := [.t, .s, .c, .i] }
end EinoV.Expected.C04
