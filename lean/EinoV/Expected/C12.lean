/- The fact values the C12 theorems are proved for (and the oracle runs the model with):
   the tree AFTER fixes/C12-container-pointernum.diff, fixes/C12-nil-in-pointer-chain.diff and
   fixes/C12-empty-registry-key.diff. -/
import EinoV.Model.C12
import EinoV.Model.C12Reg
namespace EinoV.Expected.C12
open EinoV.C12

/-- internal/serialization init: (registry key, Go type) -/
def registry : List (String × String) :=
  [("_eino_int", "int"), ("_eino_int8", "int8"), ("_eino_int16", "int16"), ("_eino_int32", "int32"),
   ("_eino_int64", "int64"), ("_eino_uint", "uint"), ("_eino_uint8", "uint8"), ("_eino_uint16", "uint16"),
   ("_eino_uint32", "uint32"), ("_eino_uint64", "uint64"), ("_eino_float32", "float32"),
   ("_eino_float64", "float64"), ("_eino_complex64", "complex64"), ("_eino_complex128", "complex128"),
   ("_eino_uintptr", "uintptr"), ("_eino_bool", "bool"), ("_eino_string", "string"), ("_eino_any", "any"),
   ("_eino_message", "schema.Message"), ("_eino_document", "schema.Document"),
   ("_eino_role_type", "schema.RoleType"), ("_eino_chat_message_type", "schema.ChatMessagePart"),
   ("_eino_tool_call", "schema.ToolCall"), ("_eino_function_call", "schema.FunctionCall"),
   ("_eino_response_meta", "schema.ResponseMeta"), ("_eino_token_usage", "schema.TokenUsage"),
   ("_eino_log_probs", "schema.LogProbs")]

/-- compose init (dag.go): checkpoint and channel types -/
def composeRegistry : List (String × String) :=
  [("_eino_channel", "compose.channel"), ("_eino_checkpoint", "compose.checkpoint"),
   ("_eino_dag_channel", "compose.dagChannel"), ("_eino_pregel_channel", "compose.pregelChannel"),
   ("_eino_dependency_state", "compose.dependencyState")]

def registerForwards : Bool := true
def registerRejectsDuplicates : Bool := true
def registerRejectsEmptyKey : Bool := true

/-- the guards of `GenericRegister` in source order, each refusing unconditionally -/
def registerGuards : List String := ["emptyKey", "keyTaken", "typeTaken"]
def registerStoresBoth : Bool := true
def registerStripsPointers : Bool := true

/-- the registry state machine's fact record built from the guard list -/
def regFactsOf (guards : List String) : RegFacts :=
  { rejectsEmptyKey := guards.contains "emptyKey"
    rejectsTakenKey := guards.contains "keyTaken"
    rejectsTakenType := guards.contains "typeTaken" }

/-- what the oracle runs the registry state machine with -/
def regFacts : RegFacts := regFactsOf registerGuards

/-- the order `dec` tests the discriminating fields in (the rest is the slice branch) -/
def decodeDispatch : List String := ["Type", "StructType", "MapKeyType"]

def decodeUsesPointerNum : List (String × Bool) :=
  [("Type", true), ("StructType", true), ("MapKeyType", true), ("slice", true)]

def nilChainRecorded : Bool := true

/-- `internalMarshal` is a function of the tree `reflect` unfolds: one parameter, recursive
    calls with one argument, no pointer identity asked for (`marshalL = enc ∘ erase`) -/
def encodeWalkStateless : Bool := true
/-- every registry key the encoder writes is `rm[<the exact reflect.Type>]` (`keyOf ctx t`) -/
def typeKeysByExactType : Bool := true
/-- the struct case of the encoder writes one entry per own field of the struct under the field's
    own name (`encFields` over the declared field list); an embedded struct is one field -/
def structEncoderOwnFieldsOnly : Bool := true
/-- every map entry is decoded into a key of its own (`placeKVs`) -/
def mapKeyFreshPerEntry : Bool := true

/-- the model's fact record built from the tables above -/
def factsOf (uses : List (String × Bool)) (nilChain : Bool) : Facts :=
  { ptrBasic := (uses.lookup "Type").getD false
    ptrStruct := (uses.lookup "StructType").getD false
    ptrMap := (uses.lookup "MapKeyType").getD false
    ptrSlice := (uses.lookup "slice").getD false
    nilChain := nilChain }

def facts : Facts := factsOf decodeUsesPointerNum nilChainRecorded

/-- the predeclared basic kinds -/
def basicKinds : List String :=
  ["int", "int8", "int16", "int32", "int64", "uint", "uint8", "uint16", "uint32", "uint64",
   "float32", "float64", "complex64", "complex128", "uintptr", "bool", "string"]

/-- Registry entries of the built-in tables as model types.  `kinds` tells, for a defined
    type named in the tables, whether it is a struct ("struct") or a named basic (its
    underlying kind); defined types not listed in `kinds` are left out. -/
def builtinReg (tables : List (String × String)) (kinds : List (String × String)) : List (Name × GoTy) :=
  tables.filterMap fun (key, ty) =>
    if basicKinds.contains ty then some (key, GoTy.basic ty)
    else if ty == "any" then some (key, GoTy.iface)
    else match kinds.lookup ty with
      | some "struct" => some (key, GoTy.struct ty)
      | some k => some (key, GoTy.named ty k)
      | none => none

end EinoV.Expected.C12
