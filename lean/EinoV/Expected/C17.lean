/- The fact values the C17 theorems are proved for (and the oracle runs the model with). -/
import EinoV.Model.C17
namespace EinoV.Expected.C17
def facts : EinoV.C17.Facts :=
  { storeByIndex := true, goroutineRecovers := true, taskPassedAsArg := true,
    handlerConsulted := true, executorRecovers := true }
end EinoV.Expected.C17
