/- The fact values the C17 theorems are proved for (and the oracle runs the model with). -/
import EinoV.Model.C17
import EinoV.Model.C17Late
import EinoV.Model.C17Utils
import EinoV.Model.C17Readers
namespace EinoV.Expected.C17
def facts : EinoV.C17.Facts :=
  { storeByIndex := true, goroutineRecovers := true, taskPassedAsArg := true,
    handlerConsulted := true, executorRecovers := true }
/-- family `late`: the tools' context is the caller's, nothing the node does ends it -/
def ctxFacts : EinoV.C17.CtxFacts := { notScoped := true, fromCaller := true }
/-- family `utils`: the request object is made inside the call -/
def ufacts : EinoV.C17.UFacts := { freshPerCall := true }
/-- family `readers`: the concatenation writes nothing into what it was given -/
def concatFacts : EinoV.C17.ConcatFacts := { arrayAllocates := true, msgsAllocates := true }
end EinoV.Expected.C17
