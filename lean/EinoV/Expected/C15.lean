/- The fact values the C15 theorems are proved for (and the oracle runs with): the trie of
   `checkAndAddMappedPath` is a proper prefix tree, `takeOne`/`fieldMap` never panic. -/
import EinoV.Model.C15
namespace EinoV.Expected.C15
open EinoV.C15

def trie : TrieFacts :=
  { rejectsThroughTerminal := true, descendsExisting := true, rejectsEndOnInner := true,
    rejectsWholeAfterFields := true, emptyPathIsWhole := true }

def take : TakeFacts :=
  { guardsInvalid := true, guardsElem := true, returnsGenericErr := true }

def validate : ValidateFacts :=
  { rejectsTrailingSegment := true, checkerPerMapping := true, streamCheckerKeepsChunkType := true,
    ifaceCheckerGuardsNil := true, lastSegmentBelowIfaceIsIntermediate := true, derefsOnePointerLevel := true }

def validateAsFound : ValidateFacts :=
  { rejectsTrailingSegment := false, checkerPerMapping := false, streamCheckerKeepsChunkType := false,
    ifaceCheckerGuardsNil := false, lastSegmentBelowIfaceIsIntermediate := false, derefsOnePointerLevel := false }

/-- the tree with every earlier repair, a last segment below a non-empty interface still let
    through with the interface type as the slot type -/
def validateIfaceLastLoose : ValidateFacts := { validate with lastSegmentBelowIfaceIsIntermediate := false }

/-- the tree with every earlier repair, every pointer level still removed statically -/
def validateDerefsAll : ValidateFacts := { validate with derefsOnePointerLevel := false }

/-- the tree with every earlier repair, the interface-path checker still without its nil guard -/
def validateNoNilGuard : ValidateFacts := { validate with ifaceCheckerGuardsNil := false }

/-- the values found on the tree before the fixes (used for the negation witnesses) -/
def trieAsFound : TrieFacts :=
  { rejectsThroughTerminal := true, descendsExisting := false, rejectsEndOnInner := false,
    rejectsWholeAfterFields := false, emptyPathIsWhole := false }

def takeAsFound : TakeFacts :=
  { guardsInvalid := false, guardsElem := false, returnsGenericErr := false }

/-- `preNodeHandlerManager.handle` / `preBranchHandlerManager.handle` / `edgeHandlerManager.handle`:
    both twins run through the whole handler list -/
def chain : ChainFacts := { valueAppliesAll := true, streamAppliesAll := true }

/-- the stream twin leaves the loop after the first handler (`return v.transform(…)` in the loop
    body): the value the negation witness is stated for -/
def chainStreamReturnsEarly : ChainFacts := { valueAppliesAll := true, streamAppliesAll := false }

end EinoV.Expected.C15
