/- The fact values the C02 theorems are proved for. -/
namespace EinoV.Expected.C02
def reportSkipMarksData : Bool := true      -- reportSkip sets DataPredecessors[k] = true
def skippedIffAllSkipped : Bool := true     -- ch.Skipped = (every control predecessor is Skipped)
def getResetsAll : Bool := true             -- get's deferred reset clears Values and both predecessor maps
def workflowIsEagerDag : Bool := true       -- isWorkflow ⇒ runTypeDAG ∧ eager
def runBuildsFreshChannels : Bool := true   -- runner.run: cm := r.initChannelManager(...), every channel made anew, the runner keeps none
end EinoV.Expected.C02
