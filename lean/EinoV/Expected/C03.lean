/- The fact values the C03 theorems are proved for (and the oracle runs with). -/
import EinoV.Model.C03
import EinoV.Model.C03Loop
import EinoV.Model.C03Cancel
namespace EinoV.Expected.C03
def facts : EinoV.C03.Facts :=
  { waitOneRefills := true, refillOnErrorPath := true, doneCap := 1, pushUnderLock := true,
    firstTaskInline := true, inlineRemovesFirst := true }
/-- `submit` pre-processes every task before anything is started; the interrupt path of the
    run loop collects with `waitAll` -/
def loopFacts : EinoV.C03.LoopFacts :=
  { submitPreprocessesFirst := true, interruptPathWaitsAll := true }
/-- `executor` registers the hand-off `defer` as its first statement -/
def cancelFacts : EinoV.C03.CancelFacts := { executorDefersFirst := true }
end EinoV.Expected.C03
