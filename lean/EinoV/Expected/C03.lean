/- The fact values the C03 theorems are proved for (and the oracle runs with). -/
import EinoV.Model.C03
namespace EinoV.Expected.C03
def facts : EinoV.C03.Facts :=
  { waitOneRefills := true, refillOnErrorPath := true, doneCap := 1, pushUnderLock := true,
    firstTaskInline := true, inlineRemovesFirst := true }
end EinoV.Expected.C03
