/- The fact values the C07 theorems are proved for (the oracle runs the shared builder model
   with EinoV.Expected.C20.facts, which holds the two addBranch facts). -/
import EinoV.Expected.C20
namespace EinoV.Expected.C07

/-- the decision list of utils.go checkAssignable, in source order – what
    `EinoV.Build.checkAssignable` transcribes -/
def checkAssignableShape : List String :=
  ["arg==nil||input==nil->assignableTypeMustNot",
   "arg==input->assignableTypeMust",
   "arg.Kind()==reflect.Interface&&input.Implements(arg)->assignableTypeMust",
   "input.Kind()==reflect.Interface{arg.Implements(input)->assignableTypeMay;assignableTypeMustNot}",
   "assignableTypeMustNot"]

/-- updateToValidateMap assigns a node's type only under these two conditions -/
def updateInferConds : List String :=
  ["startNodeOutputType!=nil&&endNodeInputType==nil", "startNodeOutputType==nil"]
end EinoV.Expected.C07
