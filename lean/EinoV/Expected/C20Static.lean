/- The values of the two source facts of Model/C20Static.lean that the oracle runs with. -/
import EinoV.Model.C20Static
namespace EinoV.Expected.C20
open EinoV.Build.SV

/-- `Workflow.compile` hands the handler closures a private copy of `n.staticValues` (the good
    value); `SetStaticValue` returns at once when the graph is compiled (since the repair cc4bd20; before it:
    known finding `C20:workflow-modified-after-compile:static-value`, repair proposed in
    fixes/C20-late-static-value.diff – with the repair the value is `true`) -/
def sfacts : SFacts := { copies := true, guarded := true }

end EinoV.Expected.C20
