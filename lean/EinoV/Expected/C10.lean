/- The fact values the C10 theorems are proved for (and the oracle runs the model with). -/
import EinoV.Model.C10
import EinoV.Model.C10Builtin
namespace EinoV.Expected.C10
def appendHandlersCopies : Bool := true
def onCopies : Bool := true
def startReversed : Bool := true
def startStreamReversed : Bool := true
def endForward : Bool := true
def streamCopyExtra : Nat := 1
def flowGetsLastCopy : Bool := true
def runHasDeferredBlock : Bool := true
def deferStartsIfMissing : Bool := true
def startSetsFlag : Bool := true
def wrapperStartThenEndOrError : Bool := true
def injectionGuarded : Bool := true
def toolCallOwnRunInfo : Bool := true
def wrapperOnErrorAlways : Bool := true
def toolRunInfoUnconditional : Bool := true
/-- every graph node made from a `*Lambda` value has a runnable of its own -/
def lambdaNodeOwnsRunnable : Bool := true
/-- the parameters of the compose level -/
def cfacts : EinoV.C10.CFacts := ⟨runHasDeferredBlock, deferStartsIfMissing, wrapperOnErrorAlways, toolRunInfoUnconditional⟩
/-- `InitCallbacks` always stores a manager (possibly nil) in the returned context -/
def initInstalls : Bool := true
/-- a nil manager in the context means "no callbacks": `managerFromCtx` reports none, `On` and `ReuseHandlers` return early -/
def nilManagerSilent : Bool := true
/-- the parameters of the unit machine -/
def facts : EinoV.C10.Facts := ⟨appendHandlersCopies, onCopies, startReversed, initInstalls⟩
/-- the self-firing built-in components report every error / panic path (Model/C10Builtin.lean) -/
def tplErrDeferred : Bool := true
def tplStartEndUnconditional : Bool := true
def taskErrReported : Bool := true
def taskPanicReported : Bool := true
def routeErrReported : Bool := true
def routerFusionErrReported : Bool := true
def mqFusionErrReported : Bool := true
def routerDefaultInstalled : Bool := true
def bfacts : EinoV.C10.BFacts :=
  ⟨tplErrDeferred, tplStartEndUnconditional, taskErrReported, taskPanicReported, routeErrReported,
   routerFusionErrReported, mqFusionErrReported, routerDefaultInstalled⟩
end EinoV.Expected.C10
