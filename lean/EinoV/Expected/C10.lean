/- The fact values the C10 theorems are proved for (and the oracle runs the model with). -/
import EinoV.Model.C10
namespace EinoV.Expected.C10
def appendHandlersCopies : Bool := true
def onCopies : Bool := true
def startReversed : Bool := true
def startStreamReversed : Bool := true
def endForward : Bool := true
def streamCopyExtra : Nat := 1
def flowGetsLastCopy : Bool := true
def runHasDeferredBlock : Bool := true
def deferStartsIfMissing : Bool := true
def startSetsFlag : Bool := true
def wrapperStartThenEndOrError : Bool := true
def injectionGuarded : Bool := true
def toolCallOwnRunInfo : Bool := true
def wrapperOnErrorAlways : Bool := true
def toolRunInfoUnconditional : Bool := true
/-- every graph node made from a `*Lambda` value has a runnable of its own -/
def lambdaNodeOwnsRunnable : Bool := true
/-- the parameters of the compose level -/
def cfacts : EinoV.C10.CFacts := ⟨runHasDeferredBlock, deferStartsIfMissing, wrapperOnErrorAlways, toolRunInfoUnconditional⟩
/-- the parameters of the unit machine -/
def facts : EinoV.C10.Facts := ⟨appendHandlersCopies, onCopies, startReversed⟩
end EinoV.Expected.C10
