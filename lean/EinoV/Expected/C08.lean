/- The fact values the C08 theorems are proved for (and the oracle runs the model with). -/
import EinoV.Model.C08Net
import EinoV.Model.C08Late
import EinoV.Model.C08Wide
namespace EinoV.Expected.C08
open EinoV.C08

def receiveN : List (List (Nat × Nat)) :=
  [[], [(0, 0)], [(0, 0), (1, 1)], [(0, 0), (1, 1), (2, 2)], [(0, 0), (1, 1), (2, 2), (3, 3)],
   [(0, 0), (1, 1), (2, 2), (3, 3), (4, 4)]]
def maxSelectNum : Nat := 5
def copyFacts : CopyFacts := { fillOnce := true, closeIncr := true, closeAtLen := true }
/-- end-of-stream tests on the receive paths compare with the sentinel by identity -/
def eofByIdentity : Bool := true
def facts : Facts := { copy := copyFacts, tbl := receiveN, maxSel := maxSelectNum, fwdCloses := true }
/-- `MergeStreamReaders`: (reader type, how its items are taken), see tools/factgen/c08_late.go -/
def mergeTakes : List (Nat × Nat) := [(0, 0), (1, 1), (2, 2), (3, 3), (4, 4)]
/-- a copy is merged through its own receive path, an array reader from its index -/
def lateFacts : LateFacts := { childViaRecv := true, arrayFromIndex := true }
/-- the select case switched off when a source ends is the one at the source's index -/
def wideFacts : WideFacts := { disableByIndex := true }

end EinoV.Expected.C08
