import EinoV.Basic.JsonUtil
import EinoV.Model.C03
import EinoV.Model.C03Loop
import EinoV.Model.C03Fail
import EinoV.Expected.C03
import EinoV.Oracle.C03Branch
import EinoV.Oracle.C03Cancel

/-
  Oracle for C03.  Two case kinds:

  {"kind":"tmtrace","needAll":b,"events":[…]}   replay a real taskManager trace on the model
      (`step` with the Expected facts).  A `finish` event may carry `"err":true` (the execution
      ended with an error: `InterruptAndRerun`, sub-graph interrupt; `finish t true` of the
      model).  Every event must be an enabled transition and the
      logged post-state (l.Len(), len(done), num, the task received) must equal the model's.
      Linearisation: `finish` and `refill` are logged inside the mutex section, `submit` on the
      run-loop goroutine; `recv` is logged *after* the channel receive it reports, so its
      linearisation point may precede `finish` events logged before it (never another
      run-loop event).  The replay therefore may move a `recv` in front of the `finish` events
      logged since the previous run-loop event, when (and only when) the logged post-state
      of such a `finish` requires it; the two placements always differ in the logged
      counters, so the choice is forced.  Likewise a `recv` may be logged just before the
      `finish` whose send it consumed (that executor still holds the mutex and logs last).

  {"kind":"run","nodes":[{"key","preds"}],"endPreds":[…],"input":s}   order-free reference
      result of an acyclic graph with the deterministic bodies `bodyOut`.

  {"kind":"eager",…same graph…,"order":[keys]}   the eager engine (`eRun`) following a given
      completion order: what was submitted, collected, left uncollected when END fired.

  {"kind":"intr",…same graph…,"eager":b,"before":[keys],"after":[keys],"priority":[keys]}
      the engine with interrupt points (`iAll`, Expected loop facts): per Invoke of the
      run-and-resume sequence the release script, the outcome (ok / interrupt info / stuck) and
      what has been started / collected at its return; the result of the last Invoke.

  {"kind":"prefail","needAll":b,"n":k,"fail":i}   `submitP` (Expected facts) of the tasks
      1..k on the initial task manager where the pre-processor of task i fails: does `submit`
      return an error, which executions have been started, `num`.

  {"kind":"failstep",…same graph…,"bad":[keys],"priority":[keys]}   the batch engine with
      failing node bodies (`fRun`, `Model/C03Fail.lean`, with the expected value `true` of the
      fact `waitAllLoops`): does the run fail, which node's error is reported, the supersteps in
      completion order, what has been started / received when the run returns, the result.

  {"kind":"cancel",…same graph…,"eager":b,"priority":[keys],"cancel":{"phase","node"}}   runs whose
      context becomes done at a chosen position (`cRun`): see `Oracle/C03Cancel.lean`.

  {"kind":"brjoin","w":workflow,"input":s,"orders":[[keys]]}   Workflows with branches under
      several completion priorities, evaluated on the shared engine model (`runEager`): see
      `Oracle/C03Branch.lean`.
-/
namespace EinoV.Oracle.C03
open Lean EinoV EinoV.C03

structure TEv where
  k : String
  t : Int
  rest : List Nat
  l : Int
  ch : Int
  num : Int
  /-- finish: the execution ended with `task.err != nil` (annotated by the harness, which
      knows which node bodies answered `InterruptAndRerun` / contain an interrupting graph) -/
  err : Bool
  deriving Inhabited

def parseEv (j : Json) : JE TEv := do
  pure { k := (← J.str j "k"), t := (← J.int j "t"),
         rest := (J.arrD j "rest").filterMap (fun a => a.getNat?.toOption),
         l := (← J.int j "l"), ch := (← J.int j "ch"), num := (← J.int j "num"),
         err := J.boolD j "err" false }

structure Fail where
  at_ : Nat
  why : String

def cntOk (logged : Int) (model : Nat) : Bool := logged < 0 || logged == (model : Int)

def stateJson (s : St) : Json :=
  Json.mkObj [("running", J.mkNats s.running), ("l", J.mkNats s.l), ("ch", J.mkNats s.ch),
    ("num", (s.num : Json)), ("got", J.mkNats s.got), ("errs", J.mkNats s.errs),
    ("coll", Json.str (match s.coll with | .idle => "idle" | .window => "window" | .inline _ => "inline"))]

/-- index of the next run-loop event after `i` if only `finish` events lie in between -/
partial def nextCollector (evs : Array TEv) (j : Nat) : Option Nat :=
  if h : j < evs.size then
    if evs[j].k == "finish" then nextCollector evs (j + 1) else some j
  else none

def applyRecv (F : Facts) (needAll : Bool) (s : St) (e : TEv) (i : Nat) : Except Fail St :=
  match step F needAll s .recv with
  | none => .error ⟨i, "recv is not enabled in the model (collector not idle, num = 0 or channel empty)"⟩
  | some s1 =>
    if s1.got.getLast? != some e.t.toNat then
      .error ⟨i, s!"recv returned execution {e.t}, the model hands out {repr s1.got.getLast?} (FIFO order)"⟩
    else if !cntOk e.num s1.num then .error ⟨i, s!"num after recv: logged {e.num}, model {s1.num}"⟩
    else .ok s1

partial def replay (F : Facts) (needAll : Bool) (evs : Array TEv) (i : Nat) (s : St)
    (early : Option Nat) (nEarly : Nat) : Except Fail (St × Nat) :=
  if h : i < evs.size then
    let e := evs[i]
    match e.k with
    | "submit" =>
      let ts := (if e.t ≥ 0 then [e.t.toNat] else []) ++ e.rest
      if !cntOk e.num s.num then .error ⟨i, s!"num before submit: logged {e.num}, model {s.num}"⟩ else
      if inlines F needAll s ts != decide (e.t ≥ 0) then
        .error ⟨i, s!"inline decision differs: implementation inline={decide (e.t ≥ 0)}, model {inlines F needAll s ts}"⟩ else
      match step F needAll s (.submit ts) with
      | none => .error ⟨i, "submit while the collector is not idle"⟩
      | some s1 => replay F needAll evs (i + 1) s1 early nEarly
    | "finish" =>
      let t := e.t.toNat
      let direct : Option St :=
        match step F needAll s (.finish t e.err) with
        | some s1 => if cntOk e.l s1.l.length && cntOk e.ch s1.ch.length then some s1 else none
        | none => none
      match direct with
      | some s1 => replay F needAll evs (i + 1) s1 early nEarly
      | none =>
        -- the next run-loop event is a recv; its channel receive happened (a) before this
        -- finish's critical section, or (b) inside it, after updateChan's send and before the
        -- hook read the counters (a receiver blocked in `<-done` takes the value at once)
        let viaEarly : Option (St × Nat) :=
          if early.isSome then none else
          match nextCollector evs (i + 1) with
          | some j =>
            if evs[j]!.k == "recv" then
              let before : Option (St × Nat) :=
                match applyRecv F needAll s evs[j]! j with
                | .ok s0 =>
                  match step F needAll s0 (.finish t e.err) with
                  | some s1 => if cntOk e.l s1.l.length && cntOk e.ch s1.ch.length then some (s1, j) else none
                  | none => none
                | .error _ => none
              match before with
              | some r => some r
              | none =>
                match step F needAll s (.finish t e.err) with
                | some s1 =>
                  match applyRecv F needAll s1 evs[j]! j with
                  | .ok s2 => if cntOk e.l s2.l.length && cntOk e.ch s2.ch.length then some (s2, j) else none
                  | .error _ => none
                | none => none
            else none
          | none => none
        match viaEarly with
        | some (s1, j) => replay F needAll evs (i + 1) s1 (some j) (nEarly + 1)
        | none =>
          match step F needAll s (.finish t e.err) with
          | none => .error ⟨i, s!"finish of execution {t}, which is not running in the model"⟩
          | some s1 => .error ⟨i, s!"post-state of finish {t}: logged l={e.l} ch={e.ch}, model l={s1.l.length} ch={s1.ch.length}"⟩
    | "recv" =>
      if early == some i then replay F needAll evs (i + 1) s none nEarly else
      -- (c) an executor inside its critical section logs its `finish` (and reads the
      -- counters) last: a recv logged immediately before a finish may have happened after
      -- that finish's updateChan
      let swapped : Option St :=
        if h2 : i + 1 < evs.size then
          let e2 := evs[i + 1]
          if e2.k == "finish" then
            match step F needAll s (.finish e2.t.toNat e2.err) with
            | some s1 =>
              match applyRecv F needAll s1 e i with
              | .ok s2 => if cntOk e2.l s2.l.length && cntOk e2.ch s2.ch.length then some s2 else none
              | .error _ => none
            | none => none
          else none
        else none
      let inOrder : Option St :=
        match applyRecv F needAll s e i with
        | .ok s1 =>
          if h2 : i + 1 < evs.size then
            let e2 := evs[i + 1]
            if e2.k == "finish" && swapped.isSome then
              -- keep the logged order only if it explains the finish's counters
              match step F needAll s1 (.finish e2.t.toNat e2.err) with
              | some s2 => if cntOk e2.l s2.l.length && cntOk e2.ch s2.ch.length then some s1 else none
              | none => none
            else some s1
          else some s1
        | .error _ => none
      match inOrder with
      | some s1 => replay F needAll evs (i + 1) s1 early nEarly
      | none =>
      match applyRecv F needAll s e i with
      | .ok _ =>
        match swapped with
        | some s2 => replay F needAll evs (i + 2) s2 early (nEarly + 1)
        | none => .error ⟨i, "unreachable"⟩
      | .error f =>
        -- (c) the value was sent by an executor that is still inside its critical section: it
        -- logs its `finish` (and reads the counters) only after this recv was logged, and the
        -- run loop cannot log anything else before (its re-fill needs the same mutex)
        let viaOpen : Option St :=
          if h2 : i + 1 < evs.size then
            let e2 := evs[i + 1]
            if e2.k == "finish" then
              match step F needAll s (.finish e2.t.toNat e2.err) with
              | some s1 =>
                match applyRecv F needAll s1 e i with
                | .ok s2 => if cntOk e2.l s2.l.length && cntOk e2.ch s2.ch.length then some s2 else none
                | .error _ => none
              | none => none
            else none
          else none
        match viaOpen with
        | some s2 => replay F needAll evs (i + 2) s2 early (nEarly + 1)
        | none => .error f
    | "refill" =>
      match step F needAll s .refill with
      | none => .error ⟨i, "refill while the collector is not in its window"⟩
      | some s1 =>
        if cntOk e.l s1.l.length && cntOk e.ch s1.ch.length && cntOk e.num s1.num then
          replay F needAll evs (i + 1) s1 early nEarly
        else .error ⟨i, s!"post-state of refill: logged l={e.l} ch={e.ch} num={e.num}, model l={s1.l.length} ch={s1.ch.length} num={s1.num}"⟩
    | k => .error ⟨i, s!"unknown event kind {k}"⟩
  else .ok (s, nEarly)

def handleTrace (c : Json) : JE Json := do
  let needAll ← J.bool c "needAll"
  let evs ← (← J.arr c "events").mapM parseEv
  match replay Expected.C03.facts needAll evs.toArray 0 St.init none 0 with
  | .ok (s, nEarly) =>
    pure <| Json.mkObj [("ok", Json.bool true), ("final", stateJson s), ("early", (nEarly : Json)),
      ("submitted", J.mkNats s.submitted)]
  | .error f =>
    pure <| Json.mkObj [("ok", Json.bool false), ("at", (f.at_ : Json)), ("why", Json.str f.why)]

def parseNode (j : Json) : JE GNode := do
  pure { key := (← J.str j "key"), preds := (← J.strList j "preds") }

def handleRun (c : Json) : JE Json := do
  let nodes ← (← J.arr c "nodes").mapM parseNode
  let g : GCase := { nodes := nodes, endPreds := (← J.strList c "endPreds"), input := (← J.str c "input") }
  let st := gRun g
  let feeds := feedsEnd g (g.nodes.length + 1) [endKey]
  pure <| Json.mkObj [
    ("result", J.mkArr ((gResult g).map fun p => J.mkStrs [p.1, p.2])),
    ("execs", J.mkStrs st.execs),
    ("batches", J.mkArr ((gBatches g).map J.mkStrs)),
    ("feedsEnd", J.mkStrs (feeds.filter (· != endKey)))]

/-- {"kind":"eager",…graph…,"order":[keys]}: the eager engine following the completion order
    observed in the real run (the order of the `recv` events) -/
def handleEager (c : Json) : JE Json := do
  let nodes ← (← J.arr c "nodes").mapM parseNode
  let g : GCase := { nodes := nodes, endPreds := (← J.strList c "endPreds"), input := (← J.str c "input") }
  let st := eRun g (← J.strList c "order")
  pure <| Json.mkObj [
    ("result", J.mkArr ((eResult g st).map fun p => J.mkStrs [p.1, p.2])),
    ("returned", Json.bool (eEndReady g st)),
    ("started", J.mkStrs (st.started.filter (· != startKey))),
    ("collected", J.mkStrs (st.done.filter (· != startKey))),
    ("uncollected", J.mkStrs (eUncollected st))]

def invokeJson (pre : EState) (v : IInvoke) : Json :=
  let (kind, b, a, p) := match v.out with
    | .ok => ("ok", [], [], [])
    | .stuck => ("stuck", [], [], [])
    | .interrupt b a p => ("interrupt", b, a, p)
  Json.mkObj [("out", Json.str kind), ("before", J.mkStrs b), ("after", J.mkStrs a), ("pending", J.mkStrs p),
    ("steps", J.mkArr (v.steps.map fun st =>
      Json.mkObj [("release", Json.str st.release), ("inflight", J.mkStrs st.inflight)])),
    ("started", J.mkStrs (v.st.started.filter fun k => !pre.started.contains k)),
    ("collected", J.mkStrs (v.st.done.filter fun k => !pre.done.contains k)),
    ("uncollected", J.mkStrs (iUncollected v.st)), ("drained", J.mkStrs v.drained)]

def invokesJson : EState → List IInvoke → List Json
  | _, [] => []
  | pre, v :: vs => invokeJson pre v :: invokesJson v.st vs

def handleIntr (c : Json) : JE Json := do
  let nodes ← (← J.arr c "nodes").mapM parseNode
  let g : GCase := { nodes := nodes, endPreds := (← J.strList c "endPreds"), input := (← J.str c "input") }
  let cfg : ICfg := { g := g, eager := (← J.bool c "eager"), before := (← J.strList c "before"),
                      after := (← J.strList c "after"), order := (← J.strList c "priority") }
  let runs := iAll cfg Expected.C03.loopFacts
  let result : List (Key × String) := match runs.getLast? with
    | some v => if v.out == IOut.ok then eResult g v.st else []
    | none => []
  pure <| Json.mkObj [
    ("invokes", J.mkArr (invokesJson (iInit g) runs)),
    ("result", J.mkArr (result.map fun p => J.mkStrs [p.1, p.2]))]

def handlePrefail (c : Json) : JE Json := do
  let needAll ← J.bool c "needAll"
  let n ← J.nat c "n"
  let fail ← J.nat c "fail"
  let ts := (List.range n).map (· + 1)
  match submitP Expected.C03.facts Expected.C03.loopFacts needAll St.init ts [fail] with
  | none => throw "submit is not enabled in the initial state"
  | some (s, err) =>
    pure <| Json.mkObj [("err", Json.bool err), ("started", J.mkNats s.running), ("num", (s.num : Json)),
      ("coll", Json.str (match s.coll with | .idle => "idle" | .window => "window" | .inline _ => "inline"))]

def handleFailstep (c : Json) : JE Json := do
  let nodes ← (← J.arr c "nodes").mapM parseNode
  let g : GCase := { nodes := nodes, endPreds := (← J.strList c "endPreds"), input := (← J.str c "input") }
  let cfg : FCfg := { g := g, bad := (← J.strList c "bad"), order := (← J.strList c "priority") }
  -- `waitAllLoops = true`: the value `facts_match` (Props/C03.lean) ties to the source
  let r := fRun cfg true
  pure <| Json.mkObj [
    ("failed", Json.bool r.failed),
    ("reported", Json.str (r.reported.getD "")),
    ("steps", J.mkArr (r.steps.map J.mkStrs)),
    ("started", J.mkStrs r.started),
    ("collected", J.mkStrs r.collected),
    ("uncollected", J.mkStrs (fUncollected r)),
    ("result", J.mkArr (r.result.map fun p => J.mkStrs [p.1, p.2]))]

def handle (c : Json) : JE Json := do
  match (← J.str c "kind") with
  | "failstep" => handleFailstep c
  | "brjoin" => C03Branch.handle c
  | "cancel" => C03Cancel.handle c
  | "tmtrace" => handleTrace c
  | "run" => handleRun c
  | "eager" => handleEager c
  | "intr" => handleIntr c
  | "prefail" => handlePrefail c
  | k => throw s!"bad case kind {k}"

end EinoV.Oracle.C03
