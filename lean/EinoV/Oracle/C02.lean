import EinoV.Oracle.GraphCase

namespace EinoV.Oracle.C02
open Lean EinoV

/-- case: {"g": graph case, "input": "x"} -/
def handle (c : Json) : JE Json := do
  let g ← J.field c "g"
  let x ← J.str c "input"
  GraphCase.outcomeJson g [("in", x)]

end EinoV.Oracle.C02
