import EinoV.Oracle.GraphCase
import EinoV.Oracle.C02Workflow
import EinoV.Oracle.C02Rerun
import EinoV.Spec.DagWF
import EinoV.Spec.DagStatus
import EinoV.Spec.GraphDefWF

namespace EinoV.Oracle.C02
open Lean EinoV

/-- extra case families of this property, by the "kind" field of the case
    (extended in this file by the families' owners) -/
def handleKind (kind : String) (c : Json) : JE Json :=
  match kind with
  | "workflow" => C02Workflow.handle c
  | "rerun" => C02Rerun.handle c
  | _ => throw s!"unknown case kind {kind}"

/-- case: {"g": graph case, "input": "x"}  (no "kind"), or a case of an extra family -/
def handle (c : Json) : JE Json := do
  match c.getObjVal? "kind" with
  | .ok (.str k) => handleKind k c
  | _ =>
    let g ← J.field c "g"
    let x ← J.str c "input"
    let out ← GraphCase.outcomeJson g [("in", x)]
    -- does the compiled runner satisfy the hypothesis of the run-level theorems
    -- (Props/C02.lean `dag_at_most_once`; `dag_wf_check_sound`)?
    let gd ← GraphCase.parseGraph g
    let r := Engine.compile GraphCase.defaultStepSlack gd
    pure ((((out.setObjVal! "wf" (Json.bool (Engine.DagRun.dagWFb r))).setObjVal! "wf2" (Json.bool (Engine.DagRun.dagWF2b r))).setObjVal! "wf3" (Json.bool (Engine.DagRun.dagWF3b r))).setObjVal! "gwf" (Json.bool (Engine.DagRun.graphDefWFb gd)))

end EinoV.Oracle.C02
