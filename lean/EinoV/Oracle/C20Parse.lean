/- JSON case language shared by oracle_C20 and oracle_C07 (kind "build"). -/
import EinoV.Basic.JsonUtil
import EinoV.Model.C20Builder

namespace EinoV.Oracle.C20Parse
open Lean EinoV EinoV.Build

def parseTy (s : String) : JE Ty :=
  if s == "any" then pure .any
  else
    let tag := s.take 1
    match (s.drop 1).toNat? with
    | some n => if tag == "c" then pure (.conc n) else if tag == "i" then pure (.iface n) else throw s!"bad type {s}"
    | none => throw s!"bad type {s}"

def tyStr : Ty → String
  | .any => "any"
  | .conc n => s!"c{n}"
  | .iface n => s!"i{n}"

def parseHandler (j : Json) (k : String) : JE (Option Handler) :=
  match j.getObjVal? k with
  | .ok (.null) => pure none
  | .ok h => do pure (some { stateTy := (← J.nat h "s"), ty := (← parseTy (← J.str h "t")) })
  | .error _ => pure none

def parseOp (j : Json) : JE Op := do
  match (← J.str j "op") with
  | "node" =>
    let pt := J.boolD j "pt" false
    let i ← if pt then pure Ty.any else parseTy (← J.str j "in")
    let o ← if pt then pure Ty.any else parseTy (← J.str j "out")
    -- WithInputKey / WithOutputKey (C07): the node's declared type on that side is
    -- map[string]any (c5), whatever the lambda or graph inside takes / returns
    let i := if J.boolD j "inKey" false then Ty.conc 5 else i
    let o := if J.boolD j "outKey" false then Ty.conc 5 else o
    pure (.node { key := (← J.str j "key"), passthrough := pt, inTy := i, outTy := o,
                  pre := (← parseHandler j "pre"), post := (← parseHandler j "post"),
                  nodeKeyOpt := J.boolD j "keyOpt" false })
  | "edge" =>
    let m : Option Nat := match j.getObjVal? "mapped" with
      | .ok v => v.getNat?.toOption
      | .error _ => none
    pure (.edge (← J.str j "s") (← J.str j "e") (J.boolD j "nc" false) (J.boolD j "nd" false) m)
  | "branch" =>
    pure (.branch (← J.str j "s") (← parseTy (← J.str j "t")) (← J.strList j "ends") (J.boolD j "skip" false))
  | "compile" =>
    let tr := match J.strD j "mode" "" with
      | "any" => Trigger.anyPred
      | "all" => Trigger.allPred
      | _ => Trigger.unset
    pure (.compile { trigger := tr, maxSteps := J.natD j "maxSteps" 0, getState := J.boolD j "getState" false })
  | k => throw s!"bad op {k}"

def parseImpl (c : Json) : JE Impl := do
  (J.arrD c "impl").mapM fun p => do
    match p with
    | .arr a =>
      if h : a.size = 2 then
        let t ← parseTy (← J.asStr a[0])
        let n ← J.asNat a[1]
        pure (t, n)
      else throw "impl pair"
    | _ => throw "impl pair"

structure Case where
  b0 : Builder
  im : Impl
  ops : List Op

def parseCase (c : Json) : JE Case := do
  let cmp := match J.strD c "cmp" "graph" with
    | "chain" => Cmp.chain
    | "workflow" => Cmp.workflow
    | _ => Cmp.graph
  let st : Option Nat := match c.getObjVal? "state" with
    | .ok v => v.getNat?.toOption
    | .error _ => none
  let inT ← parseTy (← J.str c "inT")
  let outT ← parseTy (← J.str c "outT")
  let ops ← (← J.arr c "ops").mapM parseOp
  pure { b0 := Builder.new cmp inT outT st, im := (← parseImpl c), ops }

def outcomeStr : Outcome → String
  | .ok => "ok"
  | .fresh _ => "fresh"
  | .stored _ => "stored"
  | .compiled => "compiled"
  | .panic => "panic"

def kindStr : Outcome → String
  | .ok => ""
  | .compiled => "compiled"
  | .panic => "panic"
  | .fresh k | .stored k => ((reprStr k).splitOn ".").getLast!

end EinoV.Oracle.C20Parse
