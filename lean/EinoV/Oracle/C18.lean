import EinoV.Basic.JsonUtil
import EinoV.Model.C18
import EinoV.Model.C18Shared
import EinoV.Expected.C18

namespace EinoV.Oracle.C18
open Lean EinoV EinoV.C18

/-- a tool call / a streamed delta of one: {"id","name","args"} and, when the delta carries
    `ToolCall.Index`, "index": n (absent or null = nil) -/
def parseCall (j : Json) : JE ToolCall := do
  let index ← match J.fieldD j "index" Json.null with
    | .null => pure none
    | v => do pure (some (← J.asNat v))
  pure { id := (← J.str j "id"), name := (← J.str j "name"), args := (← J.str j "args"), index := index }

def parseRole (s : String) : JE Role :=
  match s with
  | "system" => pure .system
  | "user" => pure .user
  | "assistant" => pure .assistant
  | "tool" => pure .tool
  | r => throw s!"bad role {r}"

def parseMsg (j : Json) : JE Msg := do
  pure { role := (← parseRole (← J.str j "role")), content := J.strD j "content" "",
         calls := (← (J.arrD j "calls").mapM parseCall), callId := J.strD j "callId" "" }

def parseChunk (j : Json) : JE Chunk := do
  pure { content := J.strD j "content" "", calls := (← (J.arrD j "calls").mapM parseCall),
         extras := (← (J.arrD j "extras").mapM J.asStr) }

def parseReply (j : Json) : JE Reply := do
  pure { chunks := (← (← J.arr j "chunks").mapM parseChunk) }

/-- tool table entry: {"name":…, "kind":"echo"|"const"|"fail", "value":…, "errId":n} -/
def parseTool (j : Json) : JE (String × (String → Except Nat String)) := do
  let name ← J.str j "name"
  match (← J.str j "kind") with
  | "echo" => pure (name, fun a => .ok (name ++ "(" ++ a ++ ")"))
  | "const" => let v := J.strD j "value" ""; pure (name, fun _ => .ok v)
  | "fail" => let e := J.natD j "errId" 0; pure (name, fun _ => .error e)
  | k => throw s!"bad tool kind {k}"

def lookupTool (tbl : List (String × (String → Except Nat String))) (n : String) :
    Option (String → Except Nat String) :=
  (tbl.find? (·.1 == n)).map (·.2)

def parseModifier (s : String) : JE (List Msg → List Msg) :=
  match s with
  | "none" => pure id
  | "system" => pure (fun l => { role := .system, content := "persona", calls := [], callId := "" } :: l)
  | "tail" => pure (fun l => l.drop (l.length - 3))
  | m => throw s!"bad modifier {m}"

def parseChecker (s : String) : JE (Option CheckerSpec) :=
  match s with
  | "default" => pure none
  | "whole" => pure (some wholeStreamChecker)
  | c => throw s!"bad checker {c}"

/-- `ToolsConfig.UnknownToolsHandler`: "" / "none" = nil; "echo" names the tool it was asked for;
    "const" always says the same; "fail" returns an error -/
def parseUnknown (s : String) : JE (Option (String → String → Except Nat String)) :=
  match s with
  | "" | "none" => pure none
  | "echo" => pure (some fun n a => .ok ("no tool " ++ n ++ "(" ++ a ++ ")"))
  | "const" => pure (some fun _ _ => .ok "no such tool")
  | "fail" => pure (some fun _ _ => .error 9)
  | u => throw s!"bad unknown-tools handler {u}"

/-- "agent" (Agent.Generate/Stream, default) | "chain" | "graph" (the graph returned by
    ExportGraph inside a parent chain / graph) -/
def parseHost (s : String) : JE Host :=
  match s with
  | "" | "agent" => pure .agent
  | "chain" | "graph" => pure .exported
  | h => throw s!"bad host {h}"

def roleStr : Role → String
  | .system => "system" | .user => "user" | .assistant => "assistant" | .tool => "tool"

def callJson (c : ToolCall) : Json :=
  Json.mkObj [("id", c.id), ("name", c.name), ("args", c.args)]

def msgJson (m : Msg) : Json :=
  Json.mkObj [("role", roleStr m.role), ("content", m.content),
              ("calls", J.mkArr (m.calls.map callJson)), ("callId", m.callId)]

def errClass : Err → String
  | .maxSteps => "maxSteps"
  | .modelExhausted => "model"
  | .toolFailed _ => "tool"
  | .badMaxSteps | .toolNotFound | .noToolCall | .noDirectResult | .badTopology => "other"

def evJson : Ev → Json
  | .chat => Json.mkObj [("n", "chat")]
  | .tools started => Json.mkObj [("n", "tools"), ("started", J.mkArr (started.map callJson))]
  | .direct => Json.mkObj [("n", "direct_return")]

def runJson (r : Run) : Json :=
  Json.mkObj [
    ("seen", J.mkArr (r.seen.map fun l => J.mkArr (l.map msgJson))),
    ("evs", J.mkArr (r.evs.map evJson)),
    ("result", match r.result with
      | .ok m => Json.mkObj [("ok", msgJson m)]
      | .error e => Json.mkObj [("err", errClass e)])]

def topoJson (T : Topo) : Json :=
  Json.mkObj [
    ("nodes", J.mkStrs T.nodes),
    ("edges", J.mkArr (T.edges.map fun e => J.mkStrs [e.1, e.2])),
    ("branches", J.mkArr (T.branches.map fun b => Json.mkObj [("from", b.1), ("ends", J.mkStrs b.2)]))]

def parseMode (s : String) : JE Mode :=
  match s with
  | "generate" => pure .generate
  | "stream" => pure .stream
  | m => throw s!"bad mode {m}"

/-- the cells behind the caller's slice, `n` of them (the harness puts sentinel messages there) -/
def spareCells (n : Nat) : List Msg :=
  (List.range n).map fun i => { role := .user, content := s!"spare-{i}", calls := [], callId := "" }

/-- case {"kind":"shared", orig, tools, rd, maxStep, modifier, checker, host, spare: n,
    runs: [{mode, script}], sched: [run numbers]} → every run's `Run` in the interleaved
    experiment of Model/C18Shared.lean, and whether the caller's backing array is intact -/
def handleShared (c : Json) : JE Json := do
  let F := Expected.C18.facts
  let orig ← (← J.arr c "orig").mapM parseMsg
  let tools ← (J.arrD c "tools").mapM parseTool
  let rd ← (J.arrD c "rd").mapM J.asStr
  let maxStep ← J.int c "maxStep"
  let modifier ← parseModifier (J.strD c "modifier" "none")
  let checker ← parseChecker (J.strD c "checker" "default")
  let host ← parseHost (J.strD c "host" "agent")
  let unknown ← parseUnknown (J.strD c "unknown" "")
  let cfg : Config := { tools := lookupTool tools, returnDirectly := rd, maxStep := maxStep,
                        modifier := modifier, checker := checker, unknown := unknown }
  let spare := spareCells (J.natD c "spare" 0)
  let specs ← (← J.arr c "runs").mapM fun r => do
    let script ← (← J.arr r "script").mapM parseReply
    let mode ← parseMode (← J.str r "mode")
    pure ({ cfg := cfg, mode := mode, script := script } : RunSpec)
  let sched ← (J.arrD c "sched").mapM J.asNat
  let out := (runShared (F.forHost host) Expected.C18.memFacts (fun n => n) orig spare specs sched).out
  pure <| Json.mkObj [
    ("runs", J.mkArr (out.runs.map fun r => match r with | some r => runJson r | none => Json.null)),
    ("callerIntact", Json.bool (out.callerArr == orig ++ spare)),
    ("limit", match stepLimit (F.forHost host) cfg with | some n => (n : Json) | none => Json.null)]

/-- case {"kind":"topology","rd":bool} → the model's topology table;
    case {"kind":"run", orig, script, tools, rd, maxStep, modifier, checker, host, unknown} → both modes
    (chunks: {content, calls, extras}; the calls of a chunk are deltas {id, name, args, index?},
    assembled per index by the model; calls in the answer are printed without their index) -/
def handle (c : Json) : JE Json := do
  let F := Expected.C18.facts
  match J.strD c "kind" "run" with
  | "topology" =>
    pure (topoJson (if J.boolD c "rd" false then F.topoRD else F.topoPlain))
  | "shared" => handleShared c
  | _ =>
    let orig ← (← J.arr c "orig").mapM parseMsg
    let script ← (← J.arr c "script").mapM parseReply
    let tools ← (J.arrD c "tools").mapM parseTool
    let rd ← (J.arrD c "rd").mapM J.asStr
    let maxStep ← J.int c "maxStep"
    let modifier ← parseModifier (J.strD c "modifier" "none")
    let checker ← parseChecker (J.strD c "checker" "default")
    let host ← parseHost (J.strD c "host" "agent")
    let unknown ← parseUnknown (J.strD c "unknown" "")
    let cfg : Config := { tools := lookupTool tools, returnDirectly := rd, maxStep := maxStep,
                          modifier := modifier, checker := checker, unknown := unknown }
    pure <| Json.mkObj [
      ("generate", runJson (runAt F host cfg .generate orig script)),
      ("stream", runJson (runAt F host cfg .stream orig script)),
      ("limit", match stepLimit (F.forHost host) cfg with | some n => (n : Json) | none => Json.null)]

end EinoV.Oracle.C18
