import EinoV.Oracle.C05GraphCase
import EinoV.Model.C06Fault
import EinoV.Expected.C06

/-! Oracle of the C06 family `fault`: the C05/C06 graph case language plus a fault plan of the
    caller's checkpoint store; the history is `Fault.histF` over the model's `runI` (value mode). -/
namespace EinoV.Oracle.C06Fault
open Lean EinoV EinoV.Engine EinoV.Interrupt EinoV.Interrupt.Fault
open EinoV.Oracle.C05GraphCase

def natList (c : Json) (k : String) : List Nat :=
  (J.arrD c k).filterMap (fun x => x.getNat?.toOption)

/-- {"kind":"fault","g":…,"input":"x","maxCalls":n,"getFail":[k…],"setFail":[k…]} →
    {"calls":[{"fres":"ran"|"readFailed"|"writeFailed","call":{…as C05GraphCase…}}]} -/
def handle (c : Json) : JE Json := do
  let g ← J.field c "g"
  let x ← J.str c "input"
  let maxCalls := J.natD c "maxCalls" 12
  let input : FlatMap := [("in", x)]
  let theCfg := cfgOf c
  let gf := natList c "getFail"
  let sf := natList c "setFail"
  let plan : Plan := { getFails := fun k => gf.contains k, setFails := fun k => sf.contains k }
  let idLv := uniformSched (ISched.id : ISched FlatMap St Payload)
  let rV ← parseGraph theCfg idLv 0 false false g
  let h := histF Expected.C06.checkpointWriteErrorReturned plan (runI flatOps theCfg rV ISched.id false true) input maxCalls {}
  let dummy : Err := { cls := .fuel }
  let one (p : FOut FlatMap St Payload × Store FlatMap St Payload) : Json :=
    match p.1.res with
    | .ran r => Json.mkObj [("fres", "ran"), ("call", callJson g { res := r, evs := p.1.evs })]
    | .readFailed => Json.mkObj [("fres", "readFailed"), ("call", callJson g { res := .failed dummy, evs := p.1.evs })]
    | .writeFailed => Json.mkObj [("fres", "writeFailed"), ("call", callJson g { res := .failed dummy, evs := p.1.evs })]
  pure (Json.mkObj [("calls", J.mkArr (h.map one))])

end EinoV.Oracle.C06Fault
