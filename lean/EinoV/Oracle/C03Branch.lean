/-
  Oracle for the C03 case family "brjoin": Workflows (eager execution) with BRANCHES, whose
  join nodes mix ends of branches (selected or not) with plain dependencies, run under several
  completion orders.  The reference is the shared engine model (`Model/Engine.lean`,
  `Model/C02Workflow.lean`: `compileW`, `runEager` with an arbitrary completion `Pick`), the
  model the theorems `workflow_result_completion_order_independent` and
  `compiled_workflow_result_completion_order_independent` of `Props/C03.lean` are about.  The
  case language of the workflow is the one of `Oracle/C02Workflow.lean` (its parser is reused).

  case: {"kind":"brjoin", "w": workflow (see Oracle/C02Workflow.lean), "input": "x",
         "orders": [[node keys] …]}          -- completion priorities

  A priority list is turned into a `Pick`: of the running tasks the one whose key comes first
  in the list finishes next (keys missing from the list last, in submission order).

  answer: {"runs":[{"result":…, "batches":[[keys submitted by the i-th iteration of the run loop]],
                    "order":[keys in completion order], "abandoned":[keys still running at the return]}],
           "same": all runs that return a value return the same value,
           "wf","wf2","wf3","gwf": the hypotheses of the schedule-independence theorems, evaluated}
  A case with a field "g" instead of "w" is an all-predecessor Graph in batch mode: `handleDag`.
  Interpreter glue only.
-/
import EinoV.Oracle.C02Workflow
import EinoV.Spec.GraphDefWF

namespace EinoV.Oracle.C03Branch
open Lean EinoV EinoV.Engine EinoV.Oracle.GraphCase

/-- position of `k` in the priority list (`order.length` when missing) -/
def posIn (order : List Key) (k : Key) : Nat := (order.findIdx? (· == k)).getD order.length

/-- index of the running task with the best priority (first one on ties) -/
def prioPick (order : List Key) : Pick FlatMap := fun running =>
  let rec go (i best bestPos : Nat) : List (Key × FlatMap) → Nat
    | [] => best
    | t :: rest =>
      let p := posIn order t.1
      if p < bestPos then go (i + 1) i p rest else go (i + 1) best bestPos rest
  go 0 0 (order.length + 1) running

def sortKeys (l : List Key) : List Key :=
  l.foldl (fun acc k =>
    let rec ins : List Key → List Key
      | [] => [k]
      | x :: xs => if k < x then k :: x :: xs else x :: ins xs
    ins acc) []

def runJson (r : Runner FlatMap) (order : List Key) (input : FlatMap) : Json × Except Err FlatMap :=
  let o := runEager flatOps r (prioPick order) input
  (Json.mkObj [
    ("result", resultJson o.result),
    ("batches", J.mkArr (o.batches.map fun b => J.mkStrs (sortKeys (b.map (·.1))))),
    ("order", J.mkStrs o.completed),
    ("abandoned", J.mkStrs (o.abandoned.map (·.1)))], o.result)

/-- {"kind":"brjoin","mode":"dag","g": graph case (Oracle/GraphCase.lean), "input": "x"}: an
    all-predecessor Graph with branches, run in batch mode.  The model's run (`runS` under the
    default schedule; by `dag_result_schedule_independent` every fair schedule that returns a
    value returns this one), the failures other completion orders of the failing step may
    report (`alts`) and the hypotheses of the theorem, evaluated. -/
def handleDag (c : Json) : JE Json := do
  let g ← J.field c "g"
  let x ← J.str c "input"
  let out ← GraphCase.outcomeJson g [("in", x)]
  let gd ← GraphCase.parseGraph g
  let r := Engine.compile GraphCase.defaultStepSlack gd
  pure (Json.mkObj [("result", J.fieldD out "result" Json.null), ("alts", J.fieldD out "alts" (J.mkArr [])),
    ("wf", Json.bool (Engine.DagRun.dagWFb r)),
    ("wf2", Json.bool (Engine.DagRun.dagWF2b r)),
    ("wf3", Json.bool (Engine.DagRun.dagWF3b r)),
    ("gwf", Json.bool (Engine.DagRun.graphDefWFb gd))])

def handle (c : Json) : JE Json := do
  if (c.getObjVal? "g").toOption.isSome then return (← handleDag c)
  let w ← C02Workflow.parseWorkflow (← J.field c "w")
  let x ← J.str c "input"
  let orders ← (← J.arr c "orders").mapM (fun o => do (← J.asArr o).mapM J.asStr)
  let r := compileW flatOps w
  let input : FlatMap := [("in", x)]
  let runs := orders.map (fun o => runJson r o input)
  let oks := (runs.filterMap fun p => match p.2 with | .ok v => some (FlatMap.render v) | .error _ => none).eraseDups
  pure (Json.mkObj [("runs", J.mkArr (runs.map (·.1))),
    ("same", Json.bool (oks.length ≤ 1)),
    ("wf", Json.bool (Engine.DagRun.dagWFb r)),
    ("wf2", Json.bool (Engine.DagRun.dagWF2b r)),
    ("wf3", Json.bool (Engine.DagRun.dagWF3b r)),
    ("gwf", Json.bool (Engine.DagRun.workflowDefWFb flatOps w))])

end EinoV.Oracle.C03Branch
