/-
  Oracle for the "eager" case family of C05 (harness/props/c05_eager.go): the *uninterrupted*
  run of the case's Workflow under the engine model's eager loop (`EinoV.Engine.runEager`,
  Model/C02Workflow.lean) — the second reference for the run the resumed history is compared
  with. The interrupt sets, rerun requests and wait scripts of the case are irrelevant here:
  a rerun node is a `tag` node, a nested graph is the function its inner nodes compose to.

  case: {"kind":"eager",
         "w": {"nodes":[{"key":k,"kind":"tag"|"rerun"|"sub","sub":{"shape":"chain","len":n}|{"shape":"pq"}}],
               "deps":[{"from":a,"to":b,"kind":"in"|"dep"|"data"}], …},
         "input": "x"}
  answer: {"result":…, "tasks":[{"k":…,"in":…}] (sorted), "results":[…] (other schedules), "wf":bool,
           "interrupt":[{"sched":s,"pending":bool,"refold":bool,"calls":n}]}
  "interrupt": the interrupt/resume model of eager mode (Model/C05Eager.lean) run on the case — its
  interrupt sets, and every rerun node / interrupting nested graph as a node that aborts as many times
  as it asks for a rerun / interrupts inside — under several completion schedules: is the resumed
  history equivalent to the uninterrupted eager run (same final value, same executions) for the
  repaired drain site (`pending`, the value of Expected.C05.eagerDrainSave) and for the shipped one
  (`refold`)?  This is a test of the unproved full statement on generated cases, inside the model.
  Interpreter glue only.
-/
import EinoV.Basic.JsonUtil
import EinoV.Model.FlatMap
import EinoV.Model.C02Workflow
import EinoV.Model.C05Eager
import EinoV.Expected.C05
import EinoV.Oracle.GraphCase
import EinoV.Oracle.C02Workflow
import EinoV.Spec.DagWF

namespace EinoV.Oracle.C05Eager
open Lean EinoV EinoV.Engine EinoV.Oracle.GraphCase

def iter (f : FlatMap → FlatMap) : Nat → FlatMap → FlatMap
  | 0, v => v
  | n + 1, v => iter f n (f v)

/-- what the node computes in an uninterrupted run (mirrors the node bodies of c05_eager.go):
    tag / rerun: `tagBody key`; chain of n inner nodes: n times `tagBody key`;
    pq: `tagBody key` of the merge of `tagBody (key++"p")` and `tagBody (key++"q")` -/
def bodyOf (key : Key) (n : Json) : JE (FlatMap → Except Err FlatMap) := do
  match (← J.str n "kind") with
  | "tag" => pure (fun v => .ok (tagBody key v))
  | "rerun" => pure (fun v => .ok (tagBody key v))
  | "sub" => do
    let s ← J.field n "sub"
    match (← J.str s "shape") with
    | "chain" => do
      let len ← J.nat s "len"
      pure (fun v => .ok (iter (tagBody key) len v))
    | "pq" =>
      pure (fun v =>
        match FlatMap.merge [tagBody (key ++ "p") v, tagBody (key ++ "q") v] with
        | some m => .ok (tagBody key m)
        | none => .error { cls := .merge })
    | sh => throw s!"bad sub shape {sh}"
  | k => throw s!"bad node kind {k}"

def parseW (j : Json) : JE (WorkflowDef FlatMap) := do
  let nodes ← (← J.arr j "nodes").mapM (fun n => do
    let k ← J.str n "key"
    let b ← bodyOf k n
    pure (k, b))
  let deps ← (J.arrD j "deps").mapM C02Workflow.parseDep
  pure { nodes := nodes, deps := deps, branches := [], statics := [] }

open EinoV.Interrupt.Eager in
/-- how many times the node aborts before it completes -/
def abortsOf (n : Json) : Nat :=
  match J.strD n "kind" "" with
  | "rerun" => J.natD n "rerun" 0
  | "sub" =>
    match n.getObjVal? "sub" with
    | .error _ => 0
    | .ok s =>
      let b := (J.arrD s "intBefore").filterMap (fun x => x.getStr?.toOption)
      let a := (J.arrD s "intAfter").filterMap (fun x => x.getStr?.toOption)
      let one (p : Bool) : Nat := if p then 1 else 0
      if J.strD s "shape" "" == "pq" then
        one (b.contains "p" || b.contains "q") + one (a.contains "p") + one (a.contains "q") + one (b.contains "j")
      else
        let len := J.natD s "len" 1
        let key (i : Nat) : String := "s" ++ toString i
        one (b.contains (key 0)) +
          ((List.range (len - 1)).filter (fun i => a.contains (key i) || b.contains (key (i + 1)))).length
  | _ => 0

open EinoV.Interrupt.Eager in
def interruptJson (wj : Json) (r : Runner FlatMap) (input : FlatMap) : Json :=
  let strs (k : String) := (J.arrD wj k).filterMap (fun x => x.getStr?.toOption)
  let aborts := (J.arrD wj "nodes").filterMap (fun n =>
    let a := abortsOf n
    if a == 0 then none else some (J.strD n "key" "", a))
  let ir : EIRunner FlatMap := { base := r, intBefore := strs "intBefore", intAfter := strs "intAfter", aborts := aborts }
  let canon (l : List (Key × FlatMap)) : List String :=
    ((l.map (fun t => t.1 ++ " " ++ FlatMap.render t.2)).toArray.qsort (· < ·)).toList
  J.mkArr (["first", "last", "kmax", "kmin", "h1", "h2"].map (fun name =>
    let pick := C02Workflow.pickOf r name
    let ref := runEager flatOps r pick input
    let refVal : Option FlatMap := match ref.result with | .ok v => some v | .error _ => none
    let equiv (save : DrainSave) : Bool × Nat :=
      let h := historyE flatOps save ir pick 40 input
      (refVal.isSome && h.final.val? == refVal && canon h.execs == canon ref.submitted, h.calls)
    let p := equiv ((DrainSave.ofCode Expected.C05.eagerDrainSave).getD .pending)
    Json.mkObj [("sched", Json.str name), ("pending", Json.bool p.1), ("refold", Json.bool (equiv .refold).1),
                ("calls", Json.num p.2)]))

def handle (c : Json) : JE Json := do
  let wj ← J.field c "w"
  let w ← parseW wj
  let x ← J.str c "input"
  let r := compileW flatOps w
  let input : FlatMap := [("in", x)]
  let o := runEager flatOps r (C02Workflow.pickOf r "first") input
  let others := ["last", "kmax", "kmin", "h1", "h2"].map (fun s =>
    resultJson (runEager flatOps r (C02Workflow.pickOf r s) input).result)
  pure (Json.mkObj [
    ("result", resultJson o.result),
    ("tasks", J.mkArr ((sortTasks o.submitted).map fun t =>
      Json.mkObj [("k", Json.str t.1), ("in", Json.str (FlatMap.render t.2))])),
    ("results", J.mkArr others),
    ("wf", Json.bool (Engine.DagRun.dagWFb r)),
    ("interrupt", interruptJson wj r input)])

end EinoV.Oracle.C05Eager
