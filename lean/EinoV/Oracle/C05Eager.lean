/-
  Oracle for the "eager" case family of C05 (harness/props/c05_eager.go): the *uninterrupted*
  run of the case's Workflow under the engine model's eager loop (`EinoV.Engine.runEager`,
  Model/C02Workflow.lean) — the second reference for the run the resumed history is compared
  with. The interrupt sets, rerun requests and wait scripts of the case are irrelevant here:
  a rerun node is a `tag` node, a nested graph is the function its inner nodes compose to.

  case: {"kind":"eager",
         "w": {"nodes":[{"key":k,"kind":"tag"|"rerun"|"sub","sub":{"shape":"chain","len":n}|{"shape":"pq"}}],
               "deps":[{"from":a,"to":b,"kind":"in"|"dep"|"data"}], …},
         "input": "x"}
  answer: {"result":…, "tasks":[{"k":…,"in":…}] (sorted), "results":[…] (other schedules), "wf":bool}
  Interpreter glue only.
-/
import EinoV.Basic.JsonUtil
import EinoV.Model.FlatMap
import EinoV.Model.C02Workflow
import EinoV.Oracle.GraphCase
import EinoV.Oracle.C02Workflow
import EinoV.Spec.DagWF

namespace EinoV.Oracle.C05Eager
open Lean EinoV EinoV.Engine EinoV.Oracle.GraphCase

def iter (f : FlatMap → FlatMap) : Nat → FlatMap → FlatMap
  | 0, v => v
  | n + 1, v => iter f n (f v)

/-- what the node computes in an uninterrupted run (mirrors the node bodies of c05_eager.go):
    tag / rerun: `tagBody key`; chain of n inner nodes: n times `tagBody key`;
    pq: `tagBody key` of the merge of `tagBody (key++"p")` and `tagBody (key++"q")` -/
def bodyOf (key : Key) (n : Json) : JE (FlatMap → Except Err FlatMap) := do
  match (← J.str n "kind") with
  | "tag" => pure (fun v => .ok (tagBody key v))
  | "rerun" => pure (fun v => .ok (tagBody key v))
  | "sub" => do
    let s ← J.field n "sub"
    match (← J.str s "shape") with
    | "chain" => do
      let len ← J.nat s "len"
      pure (fun v => .ok (iter (tagBody key) len v))
    | "pq" =>
      pure (fun v =>
        match FlatMap.merge [tagBody (key ++ "p") v, tagBody (key ++ "q") v] with
        | some m => .ok (tagBody key m)
        | none => .error { cls := .merge })
    | sh => throw s!"bad sub shape {sh}"
  | k => throw s!"bad node kind {k}"

def parseW (j : Json) : JE (WorkflowDef FlatMap) := do
  let nodes ← (← J.arr j "nodes").mapM (fun n => do
    let k ← J.str n "key"
    let b ← bodyOf k n
    pure (k, b))
  let deps ← (J.arrD j "deps").mapM C02Workflow.parseDep
  pure { nodes := nodes, deps := deps, branches := [], statics := [] }

def handle (c : Json) : JE Json := do
  let w ← parseW (← J.field c "w")
  let x ← J.str c "input"
  let r := compileW flatOps w
  let input : FlatMap := [("in", x)]
  let o := runEager flatOps r (C02Workflow.pickOf r "first") input
  let others := ["last", "kmax", "kmin", "h1", "h2"].map (fun s =>
    resultJson (runEager flatOps r (C02Workflow.pickOf r s) input).result)
  pure (Json.mkObj [
    ("result", resultJson o.result),
    ("tasks", J.mkArr ((sortTasks o.submitted).map fun t =>
      Json.mkObj [("k", Json.str t.1), ("in", Json.str (FlatMap.render t.2))])),
    ("results", J.mkArr others),
    ("wf", Json.bool (Engine.DagRun.dagWFb r))])

end EinoV.Oracle.C05Eager
