/-
  C01 "chain" case family: a chain program in JSON → `Chain` (stage bodies interpreted),
  run (a) as the lowered graph on the engine and (b) by `Chain.sem`.  Interpreter glue only:
  the theorems quantify over arbitrary stage functions.

  case: {"kind":"chain","input":"x","c":{"stages":[stage…]}}
  stage: {"t":"lambda","body":B} | {"t":"pass"} | {"t":"par","subs":[{"k":key,"body":B}…]}
       | {"t":"br","table":[key…],"fail":id?,"subs":[{"k":key,"body":B}…]}
  body B: {"op":"tag","name":n} | {"op":"fail","id":n} | {"op":"pass"}
        | {"op":"graph","g":graph case} | {"op":"chain","c":chain}
-/
import EinoV.Basic.JsonUtil
import EinoV.Model.C01Chain
import EinoV.Oracle.GraphCase
import EinoV.Expected.C01

namespace EinoV.Oracle.C01Chain
open Lean EinoV EinoV.Engine EinoV.Chain

def slack : Nat := EinoV.Expected.C01.stepSlack

def insertKV (kv : String × CVal) : List (String × CVal) → List (String × CVal)
  | [] => [kv]
  | x :: xs => if kv.1 < x.1 then kv :: x :: xs else x :: insertKV kv xs

def sortKV (l : List (String × CVal)) : List (String × CVal) := l.foldl (fun acc kv => insertKV kv acc) []

/-- canonical rendering: leaf as is, map as "{k=v;k=v;}" with sorted keys -/
partial def render : CVal → String
  | .leaf s => s
  | .map kvs => "{" ++ (sortKV kvs).foldl (fun s kv => s ++ kv.1 ++ "=" ++ render kv.2 ++ ";") "" ++ "}"

def tagBody (name : String) (v : CVal) : CVal :=
  .map [(name, .leaf (hex32 (fnv32 (render v ++ "#" ++ name))))]

def toFlat : CVal → Option FlatMap
  | .map kvs => kvs.foldl (fun acc kv => acc.bind fun m =>
      match kv.2 with
      | .leaf s => some (FlatMap.insertSorted kv.1 s m)
      | .map _ => none) (some [])
  | .leaf _ => none

def ofFlat (m : FlatMap) : CVal := .map (m.map fun kv => (kv.1, .leaf kv.2))

def pickKey (table : List String) (v : CVal) : String :=
  if table.isEmpty then "" else table.getD ((fnv32 (render v)).toNat % table.length) ""

def chainWF (c : Chain) : Bool :=
  !c.isEmpty && stagesOK false c && nodupB (START :: (lowerKeys c ++ [END]))

mutual
/-- a body and "every nested chain inside it is well-formed" -/
partial def parseBody (j : Json) : JE (Fn × Bool) := do
  match (← J.str j "op") with
  | "tag" => do let n ← J.str j "name"; pure (fun v => .ok (tagBody n v), true)
  | "pass" => pure (fun v => .ok v, true)
  | "fail" => do let id ← J.nat j "id"; pure (fun _ => .error { cls := .user id }, true)
  | "graph" => do
      let g ← GraphCase.parseGraph (← J.field j "g")
      let r := compile GraphCase.defaultStepSlack g
      pure (fun v => match toFlat v with
        | some m => (run GraphCase.flatOps r m).result.map ofFlat
        | none => .error { cls := .fuel }, true)
  | "chain" => do
      let (c, ok) ← parseChain (← J.field j "c")
      pure (fun v => c.exec slack v, ok && chainWF c)
  | op => throw s!"bad body op {op}"

partial def parseSubs (j : Json) : JE (List (String × Fn) × Bool) := do
  let subs ← (← J.arr j "subs").mapM (fun s => do
    let k ← J.str s "k"
    let (f, ok) ← parseBody (← J.field s "body")
    pure ((k, f), ok))
  pure (subs.map (·.1), subs.all (·.2))

partial def parseStage (j : Json) : JE (Stage × Bool) := do
  match (← J.str j "t") with
  | "lambda" => do let (f, ok) ← parseBody (← J.field j "body"); pure (.lambda f, ok)
  | "pass" => pure (.passthrough, true)
  | "par" => do let (subs, ok) ← parseSubs j; pure (.parallel subs, ok)
  | "br" => do
      let (subs, ok) ← parseSubs j
      let table ← J.strList j "table"
      let failId := (j.getObjVal? "fail").toOption.bind (fun x => x.getNat?.toOption)
      let cond : CVal → Except Err String := fun v =>
        match failId with
        | some id => .error { cls := .branchUser id }
        | none => .ok (pickKey table v)
      pure (.branch cond subs, ok)
  | t => throw s!"bad stage {t}"

partial def parseChain (j : Json) : JE (Chain × Bool) := do
  let sts ← (← J.arr j "stages").mapM parseStage
  pure (sts.map (·.1), sts.all (·.2))
end

def resultJson : Except Err CVal → Json
  | .ok v => Json.mkObj [("ok", Json.str (render v))]
  | .error e => Json.mkObj [("err", GraphCase.errClassJson e.cls), ("path", J.mkStrs e.path)]

/-- case → {"wf":…, "keys":[…], "result":engine, "sem":Chain.sem, "alts":[…]} -/
def handle (c : Json) : JE Json := do
  let (ch, nestedOK) ← parseChain (← J.field c "c")
  let x ← J.str c "input"
  let input : CVal := .map [("in", .leaf x)]
  let wf := nestedOK && chainWF ch
  let r := ch.runner slack
  let out := run cvalOps r input
  let width := out.trace.foldl (fun m st => max m st.length) 1
  let mkS (f : List (Key × Except Err CVal) → List (Key × Except Err CVal)) : Sched CVal := fun _ l => f l
  let scheds : List (Sched CVal) :=
    [mkS (fun l => l.reverse)] ++
    (List.range width).map (fun i => mkS (fun l => (l.drop i).take 1 ++ (l.eraseIdx i)))
  let alts : List Json := match out.result with
    | .error _ => ((scheds.map (fun sc => (resultJson (runS cvalOps r sc input).result).compress)).eraseDups).filterMap
        (fun t => (Json.parse t).toOption)
    | .ok _ => []
  pure (Json.mkObj [("wf", Json.bool wf), ("keys", J.mkStrs (lowerKeys ch)),
    ("steps", (out.trace.length : Nat)),
    ("result", resultJson out.result), ("sem", resultJson (ch.sem input)), ("alts", J.mkArr alts)])

end EinoV.Oracle.C01Chain
