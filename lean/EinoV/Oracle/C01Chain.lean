/-
  C01 "chain" case family: a chain program in JSON → `Chain` (stage bodies interpreted),
  run (a) as the lowered graph on the engine and (b) by `Chain.sem`.  Interpreter glue only:
  the theorems quantify over arbitrary stage functions.

  case: {"kind":"chain","input":"x","c":{"stages":[stage…]}}
  stage: {"t":"lambda","body":B} | {"t":"pass"} | {"t":"par","subs":[{"k":key,"body":B}…]}
       | {"t":"br","table":[key…],"fail":id?,"subs":[{"k":key,"body":B}…]}
  body B: {"op":"tag","name":n} | {"op":"fail","id":n} | {"op":"pass"}
        | {"op":"graph","g":graph case} | {"op":"chain","c":chain}
-/
import EinoV.Basic.JsonUtil
import EinoV.Model.C01Chain
import EinoV.Oracle.GraphCase
import EinoV.Expected.C01

namespace EinoV.Oracle.C01Chain
open Lean EinoV EinoV.Engine EinoV.Chain

def slack : Nat := EinoV.Expected.C01.stepSlack

def insertKV (kv : String × CVal) : List (String × CVal) → List (String × CVal)
  | [] => [kv]
  | x :: xs => if kv.1 < x.1 then kv :: x :: xs else x :: insertKV kv xs

def sortKV (l : List (String × CVal)) : List (String × CVal) := l.foldl (fun acc kv => insertKV kv acc) []

/-- canonical rendering: leaf as is, map as "{k=v;k=v;}" with sorted keys -/
partial def render : CVal → String
  | .leaf s => s
  | .map kvs => "{" ++ (sortKV kvs).foldl (fun s kv => s ++ kv.1 ++ "=" ++ render kv.2 ++ ";") "" ++ "}"

def tagBody (name : String) (v : CVal) : CVal :=
  .map [(name, .leaf (hex32 (fnv32 (render v ++ "#" ++ name))))]

def toFlat : CVal → Option FlatMap
  | .map kvs => kvs.foldl (fun acc kv => acc.bind fun m =>
      match kv.2 with
      | .leaf s => some (FlatMap.insertSorted kv.1 s m)
      | .map _ => none) (some [])
  | .leaf _ => none

def ofFlat (m : FlatMap) : CVal := .map (m.map fun kv => (kv.1, .leaf kv.2))

def pickKey (table : List String) (v : CVal) : String :=
  if table.isEmpty then "" else table.getD ((fnv32 (render v)).toNat % table.length) ""

def chainWF (c : Chain) : Bool :=
  !c.isEmpty && stagesOK false c && nodupB (START :: (lowerKeys c ++ [END]))

/-- a parsed stage body: its function, and every error it may return on an input when the
    members of a parallel stage inside it complete in another order (`alts v` is empty iff
    `f v` succeeds; the first element is `f v`'s own error) -/
structure Body where
  f : Fn
  alts : CVal → List Err

def Body.det (f : Fn) : Body :=
  { f := f, alts := fun v => match f v with | .error e => [e] | .ok _ => [] }

inductive PStage where
  | lambda (b : Body)
  | pass
  | par (subs : List (String × Body))
  | br (cond : CVal → Except Err String) (subs : List (String × Body))

def PStage.stage : PStage → Stage
  | .lambda b => .lambda b.f
  | .pass => .passthrough
  | .par subs => .parallel (subs.map fun kb => (kb.1, kb.2.f))
  | .br cond subs => .branch cond (subs.map fun kb => (kb.1, kb.2.f))

def parAlts (i : Nat) (v : CVal) : Nat → List (String × Body) → List Err
  | _, [] => []
  | j, (_, b) :: rest => (b.alts v).map (·.wrapNode (parKey i j)) ++ parAlts i v (j + 1) rest

/-- every error a chain may return (any completion order of parallel members, at any depth) -/
def chainAlts : Nat → List PStage → CVal → List Err
  | _, [], _ => []
  | i, st :: rest, v =>
    match st with
    | .par subs =>
      let errs := parAlts i v 0 subs
      if !errs.isEmpty then errs else
      match st.stage.sem i v with
      | .ok o => chainAlts (i + 1) rest o
      | .error e => [e]
    | .br cond subs =>
      match cond v with
      | .error e => [e]
      | .ok k =>
        match alookup k subs with
        | none => [{ cls := .badBranchEnd }]
        | some b =>
          match b.f v with
          | .error _ => (b.alts v).map (·.wrapNode (brKey i k))
          | .ok o => chainAlts (i + 1) rest o
    | .lambda b =>
      match b.f v with
      | .error _ => (b.alts v).map (·.wrapNode (nodeKey i))
      | .ok o => chainAlts (i + 1) rest o
    | .pass => chainAlts (i + 1) rest v

mutual
/-- a body and "every nested chain inside it is well-formed" -/
partial def parseBody (j : Json) : JE (Body × Bool) := do
  match (← J.str j "op") with
  | "tag" => do let n ← J.str j "name"; pure (Body.det (fun v => .ok (tagBody n v)), true)
  | "pass" => pure (Body.det (fun v => .ok v), true)
  | "fail" => do let id ← J.nat j "id"; pure (Body.det (fun _ => .error { cls := .user id }), true)
  | "graph" => do
      let g ← GraphCase.parseGraph (← J.field j "g")
      let r := compile GraphCase.defaultStepSlack g
      let gj ← J.field j "g"
      -- a nested graph may report any failing task of its failing step (at any depth)
      pure ({ f := fun v => match toFlat v with
                | some m => (run GraphCase.flatOps r m).result.map ofFlat
                | none => .error { cls := .fuel },
              alts := fun v => match toFlat v with
                | some m => (match GraphCase.errAlts gj m with | .ok l => l | .error _ => [])
                | none => [{ cls := .fuel }] }, true)
  | "chain" => do
      let (ps, ok) ← parseChain (← J.field j "c")
      let c : Chain := ps.map (·.stage)
      pure ({ f := fun v => c.exec slack v, alts := chainAlts 0 ps }, ok && chainWF c)
  | op => throw s!"bad body op {op}"

partial def parseSubs (j : Json) : JE (List (String × Body) × Bool) := do
  let subs ← (← J.arr j "subs").mapM (fun s => do
    let k ← J.str s "k"
    let (f, ok) ← parseBody (← J.field s "body")
    pure ((k, f), ok))
  pure (subs.map (·.1), subs.all (·.2))

partial def parseStage (j : Json) : JE (PStage × Bool) := do
  match (← J.str j "t") with
  | "lambda" => do let (f, ok) ← parseBody (← J.field j "body"); pure (.lambda f, ok)
  | "pass" => pure (.pass, true)
  | "par" => do let (subs, ok) ← parseSubs j; pure (.par subs, ok)
  | "br" => do
      let (subs, ok) ← parseSubs j
      let table ← J.strList j "table"
      let failId := (j.getObjVal? "fail").toOption.bind (fun x => x.getNat?.toOption)
      let cond : CVal → Except Err String := fun v =>
        match failId with
        | some id => .error { cls := .branchUser id }
        | none => .ok (pickKey table v)
      pure (.br cond subs, ok)
  | t => throw s!"bad stage {t}"

partial def parseChain (j : Json) : JE (List PStage × Bool) := do
  let sts ← (← J.arr j "stages").mapM parseStage
  pure (sts.map (·.1), sts.all (·.2))
end

def resultJson : Except Err CVal → Json
  | .ok v => Json.mkObj [("ok", Json.str (render v))]
  | .error e => Json.mkObj [("err", GraphCase.errClassJson e.cls), ("path", J.mkStrs e.path)]

/-- case → {"wf":…, "keys":[…], "result":engine, "sem":Chain.sem, "alts":[…]} -/
def handle (c : Json) : JE Json := do
  let (ps, nestedOK) ← parseChain (← J.field c "c")
  let ch : Chain := ps.map (·.stage)
  let x ← J.str c "input"
  let input : CVal := .map [("in", .leaf x)]
  let wf := nestedOK && chainWF ch
  let r := ch.runner slack
  let out := run cvalOps r input
  -- which failure a run reports depends on the order in which the members of a parallel stage
  -- complete (at any nesting depth): every one of them is legitimate
  let alts : List Json := match out.result with
    | .error _ => (((chainAlts 0 ps input).map (fun e => (resultJson (.error e)).compress)).eraseDups).filterMap
        (fun t => (Json.parse t).toOption)
    | .ok _ => []
  pure (Json.mkObj [("wf", Json.bool wf), ("keys", J.mkStrs (lowerKeys ch)),
    ("steps", (out.trace.length : Nat)),
    ("result", resultJson out.result), ("sem", resultJson (ch.sem input)), ("alts", J.mkArr alts)])

end EinoV.Oracle.C01Chain
