import EinoV.Basic.JsonUtil
import EinoV.Model.C10
import EinoV.Model.C10Runs
import EinoV.Model.C10Share
import EinoV.Model.C10Builtin
import EinoV.Model.C10Detach
import EinoV.Expected.C10

namespace EinoV.Oracle.C10
open Lean EinoV EinoV.C10

def parseHd (j : Json) : JE Hd := do
  let id ← J.nat j "id"
  let mask : Option Nat := match j.getObjVal? "mask" with
    | .ok v => (match v.getNat? with | .ok n => some n | .error _ => none)
    | .error _ => none
  pure ⟨id, mask⟩

def parseHds (j : Json) (k : String) : JE (List Hd) := (J.arrD j k).mapM parseHd

def timingOfNat : Nat → JE Timing
  | 0 => pure .start | 1 => pure .end_ | 2 => pure .error | 3 => pure .startStream | 4 => pure .endStream
  | n => throw s!"bad timing {n}"

def parsePath (j : Json) : JE (List String) := do (← J.asArr j).mapM J.asStr

def parseOpt (j : Json) : JE Opt := do
  pure ⟨← parseHds j "hs", ← (J.arrD j "paths").mapM parsePath⟩

def parseEndKind : String → JE EndKind
  | "ok" => pure .ok | "okStream" => pure .okStream | "err" => pure .err | "intr" => pure .intr
  | s => throw s!"bad end kind {s}"

def parseUKind (j : Json) : JE UKind := do
  match j.getObjVal? "g" with
  | .ok (.str p) =>
    let rp ← match p with
      | "ok" => pure RunPath.ok | "lateErr" => pure RunPath.lateErr | "earlyErr" => pure RunPath.earlyErr
      | s => throw s!"bad run path {s}"
    pure (.graph (J.boolD j "stream" false) rp)
  | _ =>
    match j.getObjVal? "w" with
    | .ok (.str k) => pure (.wrapped (J.boolD j "startStream" false) (← parseEndKind k))
    | _ => do
      let own ← (← J.natList j "self").mapM timingOfNat
      pure (.self own)

def parseUnitSpec (j : Json) : JE UnitSpec := do
  pure ⟨← (J.arrD j "path").mapM J.asStr, J.boolD j "tool" false, ← J.str j "info", ← parseUKind (← J.field j "k"),
        J.boolD j "cb" false⟩

def evJson (e : LogEv) : Json := J.mkNats [e.h.id, e.t.toNat]

def hdIds (l : List Hd) : Json := J.mkNats (l.map (·.id))

def parseUserInit (c : Json) : JE (Option (List Hd × Nat)) :=
  match c.getObjVal? "userInit" with
  | .ok (.obj o) => do
    let u : Json := .obj o
    pure (some (← parseHds u "hs", J.natD u "spare" 0))
  | _ => pure none

/-- run the unit machine on the units of one compose run (canonical sequential schedule);
    per unit: the run info its callbacks carry, the delivered (handler, timing) sequence, its handler list -/
def unitsJson (cs : Case) : List Json :=
  let P := progOf Expected.C10.cfacts cs
  let st := run Expected.C10.facts P (seqSchedule P)
  let skip := if cs.userInit.isSome then 1 else 0
  (List.range P.units.length).drop skip |>.map fun i =>
    let u := cs.units[i - skip]?
    Json.mkObj [("info", Json.str (unitInfo P i)),
                ("ev", J.mkArr ((projLog st.log i).map evJson)),
                ("handlers", match handlersFor st i with | some l => hdIds l | none => Json.null),
                ("parent", match (P.units[i]?).bind (·.parent) with | some p => (p : Json) | none => Json.null),
                ("parentInfo", match (P.units[i]?).bind (·.parent) with | some p => Json.str (unitInfo P p) | none => Json.null),
                ("tool", Json.bool ((u.map (·.toolCall)).getD false)),
                ("cb", Json.bool ((u.map (·.cbEnabled)).getD false)),
                ("intr", Json.bool ((u.map (·.kind.isInterrupt)).getD false))]

def handleCompose (c : Json) : JE Json := do
  let cs : Case := { globals := ← parseHds c "globals", userInit := ← parseUserInit c,
                     opts := ← (J.arrD c "opts").mapM parseOpt,
                     units := ← (J.arrD c "units").mapM parseUnitSpec }
  let cbs := buildCbs cs.opts
  pure <| Json.mkObj [("units", J.mkArr (unitsJson cs)), ("cbsLen", (cbs.2.len : Json)), ("cbsCap", (cbs.2.cap : Json))]

/-! ### runs: a shape with interrupting units, first run and resumed run (Model/C10Runs.lean) -/

def parseLK : String → JE (LK × Bool)
  | "i" => pure (.i, false) | "s" => pure (.s, false) | "c" => pure (.c, false) | "t" => pure (.t, false)
  | "self" => pure (.i, true)
  | s => throw s!"bad lambda kind {s}"

def parseToolD (j : Json) : JE ToolD := do
  let (hi, hs) ← match (← J.str j "tk") with
    | "inv" => pure (true, false) | "str" => pure (false, true) | "both" => pure (true, true)
    | s => throw s!"bad tool kind {s}"
  pure ⟨← J.str j "key", hi, hs, J.boolD j "cb" false, J.natD j "intr" 0 > 0⟩

def parseInnerD (j : Json) : JE InnerD := do
  let key ← J.str j "key"
  match (← J.str j "lk") with
  | "tools" => pure (.tools key (← (J.arrD j "tools").mapM parseToolD))
  | lk => do
    let (k, self) ← parseLK lk
    pure (.lam key k self (J.natD j "intr" 0 > 0))

def parseTopD (j : Json) : JE TopD := do
  match (← J.str j "lk") with
  | "graph" => pure (.sub (← J.str j "key") (← (J.arrD j "inner").mapM parseInnerD))
  | _ => pure (.inner (← parseInnerD j))

def handleRuns (c : Json) : JE Json := do
  let sh : Shape := ⟨(← J.str c "paradigm") != "invoke", ← (J.arrD c "nodes").mapM parseTopD⟩
  let globals ← parseHds c "globals"
  let userInit ← parseUserInit c
  let opts ← (J.arrD c "opts").mapM parseOpt
  -- a resume whose restore is refused by the caller's state modifier ("top" / the key of a nested graph)
  let refuse : Option ResumeFail := match J.strD c "resumeFail" "" with
    | "" => none
    | "top" => some .top
    | k => some (.sub k)
  let runs := sh.runs.map fun first =>
    let us := match first, refuse with
      | false, some w => failedResumeUnits sh w
      | _, _ => runUnits sh first
    let cs : Case := { globals := globals, userInit := userInit, opts := opts, units := us }
    Json.mkObj [("first", Json.bool first),
                ("outcome", Json.str (if first && sh.interrupts then "interrupt"
                                      else if !first && refuse.isSome then "error" else "ok")),
                ("units", J.mkArr (unitsJson cs))]
  let cbs := buildCbs opts
  pure <| Json.mkObj [("runs", J.mkArr runs), ("cbsLen", (cbs.2.len : Json)), ("cbsCap", (cbs.2.cap : Json))]

/-! ### share: one Lambda value under several node keys (Model/C10Share.lean) -/

def parseLamD (j : Json) : JE LamD := do
  let (k, self) ← parseLK (← J.str j "lk")
  pure ⟨k, self, ← J.str j "type"⟩

def parseNodeD (j : Json) : JE NodeD := do
  pure ⟨← J.nat j "lam", ← J.str j "name", J.boolD j "keyed" false⟩

def parseShareUnit (j : Json) : JE ShareUnit := do
  let path ← (J.arrD j "path").mapM J.asStr
  match j.getObjVal? "node" with
  | .ok v =>
    match v.getNat? with
    | .ok n => pure ⟨path, some n, "", .wrapped false .ok⟩
    | .error _ => pure ⟨path, none, ← J.str j "info", ← parseUKind (← J.field j "k")⟩
  | .error _ => pure ⟨path, none, ← J.str j "info", ← parseUKind (← J.field j "k")⟩

def handleShare (c : Json) : JE Json := do
  let ls ← (J.arrD c "lambdas").mapM parseLamD
  let ns ← (J.arrD c "nodes").mapM parseNodeD
  let order ← J.natList c "order"
  let globals ← parseHds c "globals"
  let userInit ← parseUserInit c
  let st := compileAll Expected.C10.lambdaNodeOwnsRunnable ls.length ns order
  let graphs ← (J.arrD c "graphs").mapM fun g => do
    let opts ← (J.arrD g "opts").mapM parseOpt
    let us ← (J.arrD g "units").mapM parseShareUnit
    let cs : Case := { globals := globals, userInit := userInit, opts := opts,
                       units := us.map (shareUnit ls ns st) }
    let cbs := buildCbs opts
    pure <| Json.mkObj [("units", J.mkArr (unitsJson cs)), ("cbsLen", (cbs.2.len : Json)), ("cbsCap", (cbs.2.cap : Json))]
  pure <| Json.mkObj [("graphs", J.mkArr graphs),
                      ("decl", J.mkArr (ns.map fun d => Json.str (declInfo ls d))),
                      ("runInfo", J.mkArr ((List.range ns.length).map fun i =>
                          match runInfo ls st i with | some s => Json.str s | none => Json.null))]

/-! ### builtin: the shipped components that fire their own callbacks, faulting at each point
    (Model/C10Builtin.lean) -/

def asBool : Json → JE Bool
  | .bool b => pure b
  | _ => throw "expected a boolean"

def parseTaskOut : String → JE TaskOut
  | "ok" => pure .ok | "err" => pure .err | "panic" => pure .panic
  | s => throw s!"bad task outcome {s}"

def parseRoute : String → JE RouteD
  | "ok" => pure .ok | "err" => pure .err | "none" => pure .none_ | "unknown" => pure .unknown
  | "default" => pure .dflt
  | s => throw s!"bad route {s}"

def parseBNode (j : Json) : JE BNode := do
  let key ← J.str j "key"
  match (← J.str j "nk") with
  | "tpl" => pure (.tpl key (← (J.arrD j "fails").mapM asBool))
  | "router" => do
    let cs ← (J.arrD j "children").mapM fun c => do pure (← J.str c "type", ← parseTaskOut (← J.str c "out"))
    pure (.router key ⟨← parseRoute (← J.str j "route"), cs, J.boolD j "fusionFails" false⟩)
  | "mq" => do
    let rw ← match (← J.str j "rewrite") with
      | "handler" => pure (RewriteD.handler (J.boolD j "rewriteFails" false))
      | "llm" => do pure (RewriteD.llm (← (J.arrD j "fails").mapM asBool) (J.boolD j "modelFails" false) (J.boolD j "parserFails" false))
      | s => throw s!"bad rewrite {s}"
    let qs ← (J.arrD j "queries").mapM fun q => do parseTaskOut (← J.asStr q)
    pure (.mq key ⟨rw, ← J.str j "origType", qs, J.boolD j "fusionFails" false⟩)
  | "lam" => pure (.lam key (J.boolD j "fail" false))
  | s => throw s!"bad node kind {s}"

def parseBTop (j : Json) : JE BTop := do
  match (← J.str j "nk") with
  | "graph" => pure (.sub (← J.str j "key") (← (J.arrD j "inner").mapM parseBNode))
  | _ => pure (.node (← parseBNode j))

def handleBuiltin (c : Json) : JE Json := do
  let sh : BShape := ⟨(← J.str c "paradigm") != "invoke", ← (J.arrD c "nodes").mapM parseBTop⟩
  let bf := Expected.C10.bfacts
  let us := bUnits bf sh
  let cs : Case := { globals := ← parseHds c "globals", userInit := ← parseUserInit c,
                     opts := ← (J.arrD c "opts").mapM parseOpt, units := us }
  let js := (unitsJson cs).zip us |>.map fun (j, u) => j.setObjVal! "path" (J.mkStrs u.path)
  let cbs := buildCbs cs.opts
  pure <| Json.mkObj [("outcome", Json.str (if sh.fails bf then "error" else "ok")),
                      ("units", J.mkArr js), ("cbsLen", (cbs.2.len : Json)), ("cbsCap", (cbs.2.cap : Json))]

/-! ### detach: work user code inside a node detaches from the run's callback context
    (Model/C10Detach.lean) -/

def parseDOp (j : Json) : JE DOp := do
  match (← J.str j "op") with
  | "init0" => pure .init0
  | "initH" => pure (.initH (← parseHds j "hs"))
  | "reuse" => pure .reuse
  | s => throw s!"bad context op {s}"

def parseDWork (j : Json) : JE DWork := do
  let ops ← (J.arrD j "ops").mapM parseDOp
  let inner ← match (← J.str j "inner") with
    | "graph" => pure (DInner.graph (← parseHds j "innerOpts") (J.boolD j "innerFails" false))
    | _ => pure (DInner.fire (J.boolD j "innerFails" false))
  pure ⟨ops, inner⟩

def parseDNode (j : Json) : JE DNode := do
  pure ⟨← J.str j "key", J.boolD j "fail" false, ← (J.arrD j "work").mapM parseDWork⟩

def handleDetach (c : Json) : JE Json := do
  let sh : DShape := ⟨(← J.str c "paradigm") != "invoke", ← (J.arrD c "nodes").mapM parseDNode⟩
  let userInit ← parseUserInit c
  let opts ← (J.arrD c "opts").mapM parseOpt
  let P := detProg Expected.C10.cfacts (← parseHds c "globals") userInit opts sh
  let st := run Expected.C10.facts P (seqSchedule P)
  let skip := if userInit.isSome then 1 else 0
  let js := (List.range P.units.length).drop skip |>.map fun i =>
    Json.mkObj [("info", Json.str (unitInfo P i)),
                ("ev", J.mkArr ((projLog st.log i).map evJson)),
                ("handlers", match handlersFor st i with | some l => hdIds l | none => Json.null)]
  let cbs := buildCbs opts
  pure <| Json.mkObj [("outcome", Json.str (if sh.fails then "error" else "ok")),
                      ("units", J.mkArr js), ("cbsLen", (cbs.2.len : Json)), ("cbsCap", (cbs.2.cap : Json))]

def parseSlice (j : Json) : JE Slice := do
  match (← J.asArr j) with
  | [a, o, l, c] => pure ⟨← J.asNat a, ← J.asNat o, ← J.asNat l, ← J.asNat c⟩
  | _ => throw "bad slice"

def parseDecl (j : Json) : JE UnitDecl := do
  let parent : Option Nat := match j.getObjVal? "parent" with
    | .ok v => (match v.getNat? with | .ok n => some n | .error _ => none)
    | .error _ => none
  let kind ← match (← J.str j "kind") with
    | "init" => do pure (Kind.init (← parseSlice (← J.field j "slice")))
    | "append" => pure Kind.append
    | "reuse" => pure Kind.reuse
    | k => throw s!"bad unit kind {k}"
  pure ⟨parent, kind, ← parseHds j "desig", ← J.str j "info", ← (← J.natList j "prog").mapM timingOfNat⟩

def parseEv (j : Json) : JE Ev := do
  match (← J.asArr j) with
  | [.str "mk", i] => pure (.mk (← J.asNat i))
  | [.str "step", i] => pure (.step (← J.asNat i))
  | _ => throw "bad event"

def handleApi (c : Json) : JE Json := do
  let arrays ← (J.arrD c "arrays").mapM (fun a => do (← J.asArr a).mapM parseHd)
  let P : Prog := ⟨arrays, ← parseHds c "globals", ← (J.arrD c "units").mapM parseDecl⟩
  let evs ← (J.arrD c "evs").mapM parseEv
  let st := run Expected.C10.facts P evs
  let log := st.log.map fun e => J.mkArr [(e.unit : Json), Json.str e.info, (e.h.id : Json), (e.t.toNat : Json)]
  let hs := (List.range P.units.length).map fun i =>
    match handlersFor st i with | some l => hdIds l | none => Json.null
  let arrs := (List.range arrays.length).map fun a => hdIds ((st.heap[a]?).getD [])
  pure <| Json.mkObj [("log", J.mkArr log), ("handlers", J.mkArr hs), ("arrays", J.mkArr arrs)]

def handleCopies (c : Json) : JE Json := do
  let items ← J.natList c "items"
  let n ← J.nat c "n"
  let ops ← (J.arrD c "ops").mapM fun j => do
    match (← J.asArr j) with
    | [.str "recv", r] => pure (ROp.recv (← J.asNat r))
    | [.str "close", r] => pure (ROp.close (← J.asNat r))
    | _ => throw "bad reader op"
  let flow := n - 1
  let (cFinal, outs) := ops.foldl (fun (acc : Copies × List Json) op =>
      match op with
      | .recv r => let (c', x) := acc.1.recv r
                   (c', acc.2 ++ [match x with | some v => (v : Json) | none => Json.null])
      | .close r => (acc.1.close r, acc.2 ++ [Json.str "closed"]))
    (Copies.mk' items n, [])
  let a := assignCopies Expected.C10.streamCopyExtra (n - 1)
  pure <| Json.mkObj [("outs", J.mkArr outs), ("flow", J.mkNats (cFinal.drain flow items.length)),
                      ("copies", (a.2.2 : Json)), ("flowIdx", match a.2.1 with | some k => (k : Json) | none => Json.null)]

def handle (c : Json) : JE Json := do
  match J.strD c "kind" "compose" with
  | "api" => handleApi c
  | "copies" => handleCopies c
  | "runs" => handleRuns c
  | "share" => handleShare c
  | "builtin" => handleBuiltin c
  | "detach" => handleDetach c
  | _ => handleCompose c

end EinoV.Oracle.C10
