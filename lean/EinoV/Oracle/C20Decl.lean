/- oracle_C20, cases of the `decl` stream: a tree of declared graphs (Workflow API and Graph
   API, graphs as nodes) and the options of 1-3 consecutive Compiles of the outermost one. -/
import EinoV.Oracle.C20Parse
import EinoV.Model.C20Wf
import EinoV.Expected.C20

namespace EinoV.Oracle.C20Decl
open Lean EinoV EinoV.Build EinoV.Oracle.C20Parse

def parseCOpts (j : Json) : COpts :=
  let tr := match J.strD j "mode" "" with
    | "any" => Trigger.anyPred
    | "all" => Trigger.allPred
    | _ => Trigger.unset
  { trigger := tr, maxSteps := J.natD j "maxSteps" 0, getState := false }

def parseSubOpts (j : Json) : COpts :=
  match j.getObjVal? "subOpts" with
  | .ok (.null) => parseCOpts (Json.mkObj [])
  | .ok o => parseCOpts o
  | .error _ => parseCOpts (Json.mkObj [])

def parseIn (j : Json) : JE WfIn := do
  let kind := match J.strD j "kind" "input" with
    | "dep" => InKind.dep
    | "indirect" => InKind.indirect
    | _ => InKind.input
  pure { src := (← J.str j "from"), kind, mapped := if J.boolD j "mapped" false then some 0 else none }

def optState (c : Json) : Option Nat :=
  match c.getObjVal? "state" with
  | .ok v => v.getNat?.toOption
  | .error _ => none

mutual
partial def parseDecl (j : Json) : JE Decl := do
  let inT ← parseTy (← J.str j "inT")
  let outT ← parseTy (← J.str j "outT")
  match J.strD j "api" "graph" with
  | "workflow" =>
    let nodes ← (J.arrD j "nodes").mapM parseWfNode
    let endIns ← (J.arrD j "endIn").mapM parseIn
    let branches ← (J.arrD j "branches").mapM fun b => do
      pure ({ src := (← J.str b "s"), ty := (← parseTy (← J.str b "t")), ends := (← J.strList b "ends") } : WfBranch)
    let d : WfDecl := { inT, outT, stateTy := optState j, nodes, endIns, branches }
    pure (d.lower Expected.C20.wfBranchEndsChecked)
  | _ =>
    let ops ← parseDOps (J.arrD j "ops")
    pure (.mk .graph inT outT (optState j) ops [] [] none)
partial def parseWfNode (j : Json) : JE WfNode := do
  let key ← J.str j "key"
  let ins ← (J.arrD j "ins").mapM parseIn
  match j.getObjVal? "sub" with
  | .ok (.obj _) =>
    let child ← parseDecl (← j.getObjVal? "sub")
    pure { key, body := .graph child (parseSubOpts j), ins }
  | _ =>
    let pt := J.boolD j "pt" false
    let i ← if pt then pure Ty.any else parseTy (← J.str j "in")
    let o ← if pt then pure Ty.any else parseTy (← J.str j "out")
    pure { key, body := .plain pt i o, ins }
partial def parseDOps (js : List Json) : JE DOps := do
  match js with
  | [] => pure .nil
  | j :: rest =>
    let tail ← parseDOps rest
    if J.strD j "op" "" == "sub" then
      let child ← parseDecl (← j.getObjVal? "sub")
      pure (.sub (← J.str j "key") child (parseSubOpts j) tail)
    else
      pure (.op (← parseOp j) tail)
end

/-- error classes as the harness reads them off the real error: the compile-time checks by
    name, every error of an Add* call as `build` -/
def kindName : Outcome → String
  | .ok => ""
  | .compiled => "compiled"
  | .panic => "panic"
  | .fresh k | .stored k =>
    match k with
    | .triggerModeOnChain => "triggerModeOnChain"
    | .getStateOutsideWorkflow => "getStateOutsideWorkflow"
    | .noStart => "noStart"
    | .noEnd => "noEnd"
    | .uninferred => "uninferred"
    | .dupMapTarget => "dupMapTarget"
    | .dagLoop => "dagLoop"
    | .maxStepsInDag => "maxStepsInDag"
    | _ => "build"

def dedup (l : List String) : List String :=
  l.foldl (fun acc s => if acc.contains s then acc else acc ++ [s]) []

/-- the error classes the first Compile may answer with: its own, or – when the failure is
    that of a sub-graph and several fail – that of any of them (Go map order picks) -/
partial def admissibleFirst (E : Env) (d : Decl) (co : COpts) : List String :=
  match d with
  | .mk cmp i o st ops re once guard =>
    let oc := Decl.first E d co
    if oc.isOk then [] else
    let b0 := Builder.new cmp i o st
    let r := DOps.build E ops b0
    if attemptAtKids E r.1 (re ++ once) guard co r.2 then
      dedup ((DOps.subs E ops b0).flatMap (fun p => admissibleFirst E p.1 p.2))
    else [kindName oc]

def insertAll {α : Type} (x : α) : List α → List (List α)
  | [] => [[x]]
  | y :: ys => (x :: y :: ys) :: (insertAll x ys).map (y :: ·)

def perms {α : Type} : List α → List (List α)
  | [] => [[]]
  | x :: xs => (perms xs).flatMap (insertAll x)

/-- (can be accepted, can be refused): the first Compile with `co`, over every order in which
    `Workflow.compile` may replay the recorded inputs (Go map iteration), at every nesting level.
    Only used to tell the harness which cases the order matters for. -/
partial def possible (E : Env) (j : Json) (co : COpts) : JE (Bool × Bool) := do
  let inT ← parseTy (← J.str j "inT")
  let outT ← parseTy (← J.str j "outT")
  match J.strD j "api" "graph" with
  | "workflow" =>
    let njs := J.arrD j "nodes"
    let nodes ← njs.mapM parseWfNode
    let endIns ← (J.arrD j "endIn").mapM parseIn
    let branches ← (J.arrD j "branches").mapM fun b => do
      pure ({ src := (← J.str b "s"), ty := (← parseTy (← J.str b "t")), ends := (← J.strList b "ends") } : WfBranch)
    let d : WfDecl := { inT, outT, stateTy := optState j, nodes, endIns, branches }
    let kids ← (njs.filter (fun n => match n.getObjVal? "sub" with | .ok (.obj _) => true | _ => false)).mapM
      (fun n => do possible E (← n.getObjVal? "sub") (parseSubOpts n))
    let r := DOps.build E (wfNodeOps d.nodes) (Builder.new .workflow inT outT (optState j))
    let allOk := List.replicate r.2.length Outcome.ok
    let orders := if d.nodes.length ≤ 4 then perms (List.range (d.nodes.length + 1)) else [List.range (d.nodes.length + 1)]
    let outs := orders.map fun o =>
      (attempt E r.1 (d.branchOps ++ d.inputOpsBy o) (d.guard Expected.C20.wfBranchEndsChecked) co allOk).2.isOk
    pure (outs.any id && kids.all (·.1), outs.any (!·) || kids.any (·.2))
  | _ =>
    let ojs := J.arrD j "ops"
    let ops ← parseDOps ojs
    let kids ← (ojs.filter (fun n => J.strD n "op" "" == "sub")).mapM
      (fun n => do possible E (← n.getObjVal? "sub") (parseSubOpts n))
    let r := DOps.build E ops (Builder.new .graph inT outT (optState j))
    let ok := (attempt E r.1 [] none co (List.replicate r.2.length Outcome.ok)).2.isOk
    pure (ok && kids.all (·.1), !ok || kids.any (·.2))

def handle (c : Json) : JE Json := do
  let im ← parseImpl c
  let d ← parseDecl (← c.getObjVal? "decl")
  let cos := (J.arrD c "compiles").map parseCOpts
  let E : Env := { f := Expected.C20.facts, inCtl := Expected.C20.entryExitInControlBlock, im, ord := Ord.id }
  let res := d.compilesX E cos
  let kidKinds : List String := match d with
    | .mk cmp i o st ops _ _ _ =>
      dedup ((DOps.subs E ops (Builder.new cmp i o st)).flatMap (fun p => admissibleFirst E p.1 p.2))
  let poss ← cos.mapM (possible E (← c.getObjVal? "decl"))
  let sensitive := poss.any (fun p => p.1 && p.2)
  pure <| Json.mkObj [
    ("sensitive", Json.bool sensitive),
    ("out", J.mkStrs (res.map (fun r => outcomeStr r.1))),
    ("kinds", J.mkArr (res.map (fun r => J.mkStrs (if r.2 then kidKinds else [kindName r.1]))))]

end EinoV.Oracle.C20Decl
