/- oracle_C20, cases of the `decl` stream: a tree of declared graphs (Workflow API and Graph
   API, graphs as nodes) and the options of 1-3 consecutive Compiles of the outermost one. -/
import EinoV.Oracle.C20Parse
import EinoV.Model.C20Wf
import EinoV.Model.C20Nest
import EinoV.Expected.C20

namespace EinoV.Oracle.C20Decl
open Lean EinoV EinoV.Build EinoV.Oracle.C20Parse

def parseCOpts (j : Json) : COpts :=
  let tr := match J.strD j "mode" "" with
    | "any" => Trigger.anyPred
    | "all" => Trigger.allPred
    | _ => Trigger.unset
  { trigger := tr, maxSteps := J.natD j "maxSteps" 0, getState := false }

def parseSubOpts (j : Json) : COpts :=
  match j.getObjVal? "subOpts" with
  | .ok (.null) => parseCOpts (Json.mkObj [])
  | .ok o => parseCOpts o
  | .error _ => parseCOpts (Json.mkObj [])

def parseIn (j : Json) : JE WfIn := do
  let kind := match J.strD j "kind" "input" with
    | "dep" => InKind.dep
    | "indirect" => InKind.indirect
    | _ => InKind.input
  -- "fid": n > 0 – the input is `MapFields("k", "k<n>")` (target field id n); "mapped": `MapFields("X","X")` (id 0)
  let fid := J.natD j "fid" 0
  pure { src := (← J.str j "from"), kind,
         mapped := if fid > 0 then some fid else if J.boolD j "mapped" false then some 0 else none }

def optState (c : Json) : Option Nat :=
  match c.getObjVal? "state" with
  | .ok v => v.getNat?.toOption
  | .error _ => none

/-- a Chain declaration (`NewChain[I,O]().AppendLambda(…).AppendPassthrough(…)`): the calls
    `Chain.addNode` makes on its graph at once – `addNode(node_i)`, `AddEdge(previous, node_i)` –
    and the END edge `Chain.compile` adds the first time it is called (`addEndIfNeeded`) -/
def chainCalls (nodes : List Json) : JE (List Op × List Op) := do
  let rec go (js : List Json) (i : Nat) (prev : Key) (acc : List Op) : JE (List Op × Key) := do
    match js with
    | [] => pure (acc, prev)
    | j :: rest =>
      let key := s!"node_{i}"
      let pt := J.boolD j "pt" false
      let ti ← if pt then pure Ty.any else parseTy (← J.str j "in")
      let to ← if pt then pure Ty.any else parseTy (← J.str j "out")
      let n : Op := .node { key, passthrough := pt, inTy := ti, outTy := to, pre := none, post := none,
                            nodeKeyOpt := false }
      go rest (i + 1) key (acc ++ [n, .edge prev key false false none])
  let (ops, last) ← go nodes 0 START []
  pure (ops, if nodes.isEmpty then [] else [.edge last END false false none])

mutual
partial def parseDecl (j : Json) : JE Decl := do
  let inT ← parseTy (← J.str j "inT")
  let outT ← parseTy (← J.str j "outT")
  match J.strD j "api" "graph" with
  | "workflow" =>
    let nodes ← (J.arrD j "nodes").mapM parseWfNode
    let endIns ← (J.arrD j "endIn").mapM parseIn
    let branches ← (J.arrD j "branches").mapM fun b => do
      pure ({ src := (← J.str b "s"), ty := (← parseTy (← J.str b "t")), ends := (← J.strList b "ends") } : WfBranch)
    let d : WfDecl := { inT, outT, stateTy := optState j, nodes, endIns, branches }
    pure (d.lower Expected.C20.wfBranchEndsChecked)
  | "chain" =>
    let (ops, once) ← chainCalls (J.arrD j "nodes")
    pure (.mk .chain inT outT (optState j) (DOps.ofList ops) [] once none)
  | _ =>
    let ops ← parseDOps (J.arrD j "ops")
    pure (.mk .graph inT outT (optState j) ops [] [] none)
partial def parseWfNode (j : Json) : JE WfNode := do
  let key ← J.str j "key"
  let ins ← (J.arrD j "ins").mapM parseIn
  match j.getObjVal? "sub" with
  | .ok (.obj _) =>
    let child ← parseDecl (← j.getObjVal? "sub")
    pure { key, body := .graph child (parseSubOpts j), ins }
  | _ =>
    let pt := J.boolD j "pt" false
    let i ← if pt then pure Ty.any else parseTy (← J.str j "in")
    let o ← if pt then pure Ty.any else parseTy (← J.str j "out")
    pure { key, body := .plain pt i o, ins }
partial def parseDOps (js : List Json) : JE DOps := do
  match js with
  | [] => pure .nil
  | j :: rest =>
    let tail ← parseDOps rest
    if J.strD j "op" "" == "sub" then
      let child ← parseDecl (← j.getObjVal? "sub")
      pure (.sub (← J.str j "key") child (parseSubOpts j) tail)
    else
      pure (.op (← parseOp j) tail)
end

/-- error classes as the harness reads them off the real error: the compile-time checks by
    name, every error of an Add* call as `build` -/
def kindName : Outcome → String
  | .ok => ""
  | .compiled => "compiled"
  | .panic => "panic"
  | .fresh k | .stored k =>
    match k with
    | .triggerModeOnChain => "triggerModeOnChain"
    | .getStateOutsideWorkflow => "getStateOutsideWorkflow"
    | .noStart => "noStart"
    | .noEnd => "noEnd"
    | .uninferred => "uninferred"
    | .dupMapTarget => "dupMapTarget"
    | .dagLoop => "dagLoop"
    | .maxStepsInDag => "maxStepsInDag"
    | _ => "build"

def dedup (l : List String) : List String :=
  l.foldl (fun acc s => if acc.contains s then acc else acc ++ [s]) []

/-- the error classes the first Compile may answer with: its own, or – when the failure is
    that of a sub-graph and several fail – that of any of them (Go map order picks) -/
partial def admissibleFirst (E : Env) (d : Decl) (co : COpts) : List String :=
  match d with
  | .mk cmp i o st ops re once guard =>
    let oc := Decl.first E d co
    if oc.isOk then [] else
    let b0 := Builder.new cmp i o st
    let r := DOps.build E ops b0
    if attemptAtKids E r.1 (re ++ once) guard co r.2 then
      dedup ((DOps.subs E ops b0).flatMap (fun p => admissibleFirst E p.1 p.2))
    else [kindName oc]

def insertAll {α : Type} (x : α) : List α → List (List α)
  | [] => [[x]]
  | y :: ys => (x :: y :: ys) :: (insertAll x ys).map (y :: ·)

def perms {α : Type} : List α → List (List α)
  | [] => [[]]
  | x :: xs => (perms xs).flatMap (insertAll x)

/-- (can be accepted, can be refused): the first Compile with `co`, over every order in which
    `Workflow.compile` may replay the recorded inputs (Go map iteration), at every nesting level.
    Only used to tell the harness which cases the order matters for. -/
partial def possible (E : Env) (j : Json) (co : COpts) : JE (Bool × Bool) := do
  let inT ← parseTy (← J.str j "inT")
  let outT ← parseTy (← J.str j "outT")
  match J.strD j "api" "graph" with
  | "workflow" =>
    let njs := J.arrD j "nodes"
    let nodes ← njs.mapM parseWfNode
    let endIns ← (J.arrD j "endIn").mapM parseIn
    let branches ← (J.arrD j "branches").mapM fun b => do
      pure ({ src := (← J.str b "s"), ty := (← parseTy (← J.str b "t")), ends := (← J.strList b "ends") } : WfBranch)
    let d : WfDecl := { inT, outT, stateTy := optState j, nodes, endIns, branches }
    let kids ← (njs.filter (fun n => match n.getObjVal? "sub" with | .ok (.obj _) => true | _ => false)).mapM
      (fun n => do possible E (← n.getObjVal? "sub") (parseSubOpts n))
    let r := DOps.build E (wfNodeOps d.nodes) (Builder.new .workflow inT outT (optState j))
    let allOk := List.replicate r.2.length Outcome.ok
    let orders := if d.nodes.length ≤ 4 then perms (List.range (d.nodes.length + 1)) else [List.range (d.nodes.length + 1)]
    let outs := orders.map fun o =>
      (attempt E r.1 (d.branchOps ++ d.inputOpsBy o) (d.guard Expected.C20.wfBranchEndsChecked) co allOk).2.isOk
    pure (outs.any id && kids.all (·.1), outs.any (!·) || kids.any (·.2))
  | "chain" =>
    let (ops, once) ← chainCalls (J.arrD j "nodes")
    let r := DOps.build E (DOps.ofList ops) (Builder.new .chain inT outT (optState j))
    let ok := (attempt E r.1 once none co []).2.isOk
    pure (ok, !ok)
  | _ =>
    let ojs := J.arrD j "ops"
    let ops ← parseDOps ojs
    let kids ← (ojs.filter (fun n => J.strD n "op" "" == "sub")).mapM
      (fun n => do possible E (← n.getObjVal? "sub") (parseSubOpts n))
    let r := DOps.build E ops (Builder.new .graph inT outT (optState j))
    let ok := (attempt E r.1 [] none co (List.replicate r.2.length Outcome.ok)).2.isOk
    pure (ok && kids.all (·.1), !ok || kids.any (·.2))

/-! ## calls after the Compiles: Add* on the graphs of the tree, further Compiles -/

def parsePath (j : Json) : List Key :=
  (J.arrD j "path").filterMap (fun x => match x with | .str s => some s | _ => none)

def pathGet (st : List (List Key × Builder)) (p : List Key) : Option Builder :=
  match st with
  | [] => none
  | (q, b) :: r => if q = p then some b else pathGet r p

def pathSet (st : List (List Key × Builder)) (p : List Key) (b : Builder) : List (List Key × Builder) :=
  (p, b) :: st.filter (fun x => x.1 != p)

/-- answers for the `mods` (a later call each, on the graph at `path`) and the `recompiles` of a
    tree one of whose Compiles succeeded (every graph in it is frozen, `nested_graphs_frozen`) -/
def later (E : Env) (d : Decl) (cos : List COpts) (mods : List Json) (recos : List COpts) :
    JE (List String × List (Outcome × Bool)) := do
  let top := match cos with | co :: _ => co | [] => { trigger := .unset, maxSteps := 0, getState := false }
  let bTop := d.afterCompiles E cos
  let mut st : List (List Key × Builder) := [([], bTop)]
  let mut poison : List (List Key) := []
  let mut answers : List String := []
  for m in mods do
    let path := parsePath m
    let op ← m.getObjVal? "op"
    match Decl.subAt E path d top with
    | none => answers := answers ++ ["nopath"]
    | some (g, gco) =>
      let b := match pathGet st path with
        | some b => b
        | none => (Decl.firstB E g gco).1
      match J.strD op "op" "" with
      | "wfnode" =>
        -- Workflow.Add…Node(key)[.AddInput(from)…]: nothing is returned; on the frozen graph the
        -- node is refused and the recorded inputs make every later Compile of this Workflow fail
        let n : Op := .node { key := (← J.str op "key"), passthrough := J.boolD op "pt" false,
                              inTy := .any, outTy := .any, pre := none, post := none, nodeKeyOpt := false }
        let r := stepK E b n
        st := pathSet st path r.1
        if r.2.1 == .compiled && !(J.arrD op "ins").isEmpty then poison := path :: poison
        answers := answers ++ [if r.2.1 == .compiled then "silent" else "unfrozen"]
      | "append" =>
        answers := answers ++ [if b.compiled then "silent" else "unfrozen"]
      | _ =>
        let o ← parseOp op
        let r := stepK E b o
        st := pathSet st path r.1
        answers := answers ++ [outcomeStr r.2.1]
  let isPoison := fun p => poison.contains p
  let mut b := (pathGet st []).getD bTop
  let mut res : List (Outcome × Bool) := []
  for co in recos do
    let r := Decl.againTop E isPoison b d co
    b := r.1
    res := res ++ [(r.2.1, r.2.2)]
  pure (answers, res)

def handle (c : Json) : JE Json := do
  let im ← parseImpl c
  let d ← parseDecl (← c.getObjVal? "decl")
  let cos := (J.arrD c "compiles").map parseCOpts
  let E : Env := { f := Expected.C20.facts, inCtl := Expected.C20.entryExitInControlBlock, im, ord := Ord.id }
  let res := d.compilesX E cos
  let kidKinds : List String := match d with
    | .mk cmp i o st ops _ _ _ =>
      dedup ((DOps.subs E ops (Builder.new cmp i o st)).flatMap (fun p => admissibleFirst E p.1 p.2))
  let poss ← cos.mapM (possible E (← c.getObjVal? "decl"))
  let sensitive := poss.any (fun p => p.1 && p.2)
  let mods := J.arrD c "mods"
  let recos := (J.arrD c "recompiles").map parseCOpts
  let base := [
    ("sensitive", Json.bool sensitive),
    ("out", J.mkStrs (res.map (fun r => outcomeStr r.1))),
    ("kinds", J.mkArr (res.map (fun r => J.mkStrs (if r.2 then kidKinds else [kindName r.1]))))]
  if mods.isEmpty && recos.isEmpty then return Json.mkObj base
  -- which graphs a failed Compile got to depends on the order Go's map visits the sub-graph
  -- nodes in: the later calls are predicted only when some Compile succeeded
  if !(res.any (fun r => r.1.isOk)) then
    return Json.mkObj (base ++ [("laterSkip", Json.bool true)])
  let (answers, re) ← later E d cos mods recos
  pure <| Json.mkObj (base ++ [
    ("laterSkip", Json.bool false),
    ("mods", J.mkStrs answers),
    ("reout", J.mkStrs (re.map (fun r => outcomeStr r.1))),
    -- a poisoned Workflow answers ErrGraphCompiled the first time its recorded input is replayed;
    -- from then on `checkAndAddMappedPath` (C15, not modelled) may refuse the replay first
    ("rekinds", J.mkArr (re.zipIdx.map (fun (r, i) =>
      J.mkStrs (if r.1 == .compiled then (if i == 0 then ["compiled"] else ["compiled", "build"])
                else [kindName r.1]))))])

end EinoV.Oracle.C20Decl
