/-
  The graph case language extended for C05 / C06: interrupt sets per graph level, state with
  pre/post handlers, rerun-requesting nodes, nested graphs that interrupt inside, tag nodes with an
  input key / output key (`WithInputKey` / `WithOutputKey`, same semantics as Oracle/C04.lean).
  JSON case → `IRunner FlatMap St Payload`; rendering of the call history.
  Natively streaming nodes (`emit`: StreamableLambda / TransformableLambda producing one chunk or a
  stream without chunks; `collect`: CollectableLambda) and stream branch conditions: a call runs the
  graph in value mode or in stream mode (`sm`), by its calling paradigm; the value universe has the one
  extra value `emptyV` = the stream without chunks (Model/C05Streams.lean).
  Interpreter glue only (the theorems quantify over arbitrary runners, handlers and bodies).
  The Go side of the same language is harness/gcase5.
-/
import EinoV.Basic.JsonUtil
import EinoV.Model.FlatMap
import EinoV.Model.GraphBuild
import EinoV.Model.C05
import EinoV.Model.C05Streams
import EinoV.Expected.C05
import EinoV.Expected.C06

namespace EinoV.Oracle.C05GraphCase
open Lean EinoV EinoV.Engine EinoV.Interrupt
open EinoV.Interrupt.Streams (emptyV isE mergeE histLoop)

abbrev St := FlatMap

/-- what an interrupted nested graph hands to its parent -/
inductive Payload where
  | mk (cp : Checkpoint FlatMap St Payload) (info : Info St Payload)

def Payload.cp : Payload → Checkpoint FlatMap St Payload | .mk c _ => c
def Payload.info : Payload → Info St Payload | .mk _ i => i

/-- `mergeE`: `FlatMap.merge` with the stream without chunks (`emptyV`) dropped from a fan-in; on
    value lists without `emptyV` it is `FlatMap.merge` (Proofs/C05Streams.lean `mergeE_of_no_empty`) -/
def flatOps : ValOps FlatMap := { merge := mergeE, zero := [] }
def defaultStepSlack : Nat := 10

def tagBody (key : Key) (inp : FlatMap) : FlatMap := [(key, hex32 (fnv32 (FlatMap.render inp ++ "#" ++ key)))]

def pick (table : List (List Key)) (v : FlatMap) : List Key :=
  if table.isEmpty then [] else table.getD ((fnv32 (FlatMap.render v)).toNat % table.length) []

def stGet (st : St) (k : String) : String := (alookup k st).getD ""
def stNum (st : St) (k : String) : Nat := (stGet st k).toNat?.getD 0
def stSet (st : St) (k v : String) : St := FlatMap.insertSorted k v st

/-- inverse of `FlatMap.render` for keys/values without '=' and ';' -/
def decodeMap (s : String) : FlatMap :=
  (s.splitOn ";").filterMap (fun item =>
    match item.splitOn "=" with
    | [k, v] => some (k, v)
    | _ => none)

/-- state pre-handler: an empty input (resumed rerun node) is rebuilt from the state; otherwise the
    input is transformed (depends on the node's completion counter and the graph's total) and saved -/
def preH (key : Key) (inp : FlatMap) (st : St) : FlatMap × St :=
  if inp.isEmpty then (decodeMap (stGet st ("in:" ++ key)), st)
  else
    let n := stNum st ("n:" ++ key)
    let tot := stNum st "tot"
    let v : FlatMap := [("p", hex32 (fnv32 (FlatMap.render inp ++ "#pre#" ++ key ++ "#" ++ toString n ++ "#" ++ toString tot)))]
    (v, stSet st ("in:" ++ key) (FlatMap.render v))

/-- state post-handler: counts the completion, output depends on the node's own counter -/
def postH (key : Key) (out : FlatMap) (st : St) : FlatMap × St :=
  let n := stNum st ("n:" ++ key) + 1
  let tot := stNum st "tot" + 1
  let st' := stSet (stSet st ("n:" ++ key) (toString n)) "tot" (toString tot)
  ([(key, hex32 (fnv32 (FlatMap.render out ++ "#post#" ++ toString n)))], st')

/-- `WithInputKey k`: the node takes input[k]; `none` when the key is missing (the framework's
    "cannot find input key" error, reported as user error 9997 as in Oracle/C04.lean) -/
def restrictKey (k : Key) (v : FlatMap) : Option FlatMap :=
  match v.find? (·.1 == k) with
  | some kv => some [kv]
  | none => none

/-- the input key of a node case ("" / absent: none) -/
def inKeyOf (n : Json) : Option Key :=
  match (n.getObjVal? "inKey").toOption.bind (fun x => x.getStr?.toOption) with
  | some "" => none
  | o => o

/-- what the body of a node with that input key sees -/
def keyedInput (ik : Option Key) (v : FlatMap) : Option FlatMap :=
  match ik with
  | none => some v
  | some k => restrictKey k v

def missingKeyErr : Err := { cls := .user 9997 }

/-- the variant of the code the oracle runs: the expected (repaired) one, unless the case pins a
    fact that belongs to the *other* property of the pair (C05 cases pin `initialChecked`, C06 cases
    pin `fwdStale` to what the implementation under test does; each property's theorems hold for both
    values of the other's fact) -/
def cfgOf (c : Json) : Cfg :=
  { initialTasksChecked := J.boolD c "cfgInitialChecked" Expected.C06.initialTasksChecked,
    fwdStale := J.boolD c "cfgFwdStale" Expected.C05.createTasksForwardsStaleCP }

structure GraphI where
  r : IRunner FlatMap St Payload

/- `lv d` is the completion schedule applied at nesting depth `d` (0 = the graph the caller runs): the
   levels are scheduled independently, so that the failure alternatives of `handle` cover e.g.
   "outer level in submission order, nested graph reversed". -/
mutual
partial def parseNode (theCfg : Cfg) (lv : Nat → ISched FlatMap St Payload) (d : Nat) (plain : Bool) (sm : Bool) (n : Json) : JE (Key × INode FlatMap St Payload) := do
  let key ← J.str n "key"
  let b ← J.field n "body"
  let pre := if J.boolD n "pre" false then some (preH key) else none
  let post := if J.boolD n "post" false then some (postH key) else none
  let body ← (do
    match (← J.str b "op") with
    | "tag" =>
      let rr := if plain then 0 else J.natD b "rerun" 0
      -- `WithInputKey` / `WithOutputKey` (inside the state handlers): the lambda sees {inKey: input[inKey]}
      -- (the framework fails the node when the key is missing, before the lambda runs); its string
      -- output appears downstream as {outKey: s} instead of {key: s}
      let ik := inKeyOf n
      let okey := match J.strD n "outKey" "" with | "" => key | k => k
      pure (fun (v : FlatMap) (st : St) (_ : Option Payload) =>
        -- (an invokable lambda handed a stream concatenates it first: no chunk, no value — the
        -- framework's error before the lambda runs, the class of the missing input key)
        match (if isE v then none else keyedInput ik v) with
        | none => ({ res := .fail missingKeyErr st } : BodyOut FlatMap St Payload)
        | some v' =>
          let att := stNum st ("a:" ++ key)
          if att < rr then ({ res := .rerun (stSet st ("a:" ++ key) (toString (att + 1))) } : BodyOut FlatMap St Payload)
          else { res := .done [(okey, ((tagBody key v').headD ("", "")).2)] st })
    | "pass" => pure (fun v st _ => ({ res := .done v st } : BodyOut FlatMap St Payload))
    | "fail" => do
      let id ← J.nat b "id"
      pure (fun v st _ => ({ res := .fail (if isE v then missingKeyErr else { cls := .user id }) st } : BodyOut FlatMap St Payload))
    | "emit" =>
      -- a stream producer. StreamableLambda (value in): handed a stream without chunks it fails like a
      -- tag node; TransformableLambda (`xform`) reads the chunks itself. `empty`: the output stream is
      -- closed without a chunk — in a value-mode call the framework cannot concatenate it (the node
      -- fails after its lambda ran)
      let xform := J.boolD b "xform" false
      let empty := J.boolD b "empty" false
      pure (fun (v : FlatMap) (st : St) (_ : Option Payload) =>
        if !xform && isE v then ({ res := .fail missingKeyErr st } : BodyOut FlatMap St Payload)
        else if empty then (if sm then { res := .done emptyV st } else { res := .fail missingKeyErr st })
        else { res := .done (tagBody key v) st })
    | "collect" =>
      -- CollectableLambda: reads the chunks itself (none: `emptyV`)
      pure (fun (v : FlatMap) (st : St) (_ : Option Payload) =>
        ({ res := .done (tagBody key v) st } : BodyOut FlatMap St Payload))
    | "graph" => do
      let sub ← parseGraph theCfg lv (d + 1) plain sm (← J.field b "g")
      pure (fun v st (x : Option Payload) =>
        let o := runI flatOps theCfg sub (lv (d + 1)) true false (match x with | some p => .inr p.cp | none => .inl v)
        match o.res with
        | .done out => ({ res := .done out st, evs := o.evs } : BodyOut FlatMap St Payload)
        | .interrupted cp info => { res := .subInt (.mk cp info) st, evs := o.evs }
        | .failed e => { res := .fail e st, evs := o.evs })
    | op => throw s!"bad body op {op}" : JE (FlatMap → St → Option Payload → BodyOut FlatMap St Payload))
  pure (key, { key := key, pre := pre, body := body, post := post })

partial def parseGraph (theCfg : Cfg) (lv : Nat → ISched FlatMap St Payload) (d : Nat) (plain : Bool) (sm : Bool) (j : Json) : JE (IRunner FlatMap St Payload) := do
  let mode := J.strD j "mode" "pregel"
  let nodes ← (← J.arr j "nodes").mapM (parseNode theCfg lv d plain sm)
  let edges ← (J.arrD j "edges").mapM (fun e => do
    match e with
    | .arr #[.str a, .str b] => pure (a, b)
    | _ => throw "bad edge")
  let branches ← (J.arrD j "branches").mapM (fun b => do
    let from_ ← J.str b "from"
    let ends ← J.strList b "ends"
    let table ← (← J.arr b "table").mapM (fun row => do (← J.asArr row).mapM J.asStr)
    let failId := (b.getObjVal? "fail").toOption.bind (fun x => x.getNat?.toOption)
    -- a stream condition reads the chunks itself (none: it picks on `emptyV`); a value condition
    -- cannot be handed a stream without chunks (the generator never builds that)
    let streamCond := J.boolD b "stream" false
    let cond : FlatMap → Except Err (List Key) := fun v =>
      if isE v && !streamCond then .error missingKeyErr else
      match failId with
      | some id => .error { cls := .branchUser id }
      | none => .ok (pick table v)
    pure (from_, ({ ends := ends, cond := cond } : Branch FlatMap)))
  let g : GraphDef FlatMap :=
    { dag := mode == "dag", eager := false, maxSteps := J.natD j "maxSteps" 0,
      nodes := nodes.map (fun p => (p.1, fun v => .ok v)), edges := edges, branches := branches }
  let intB := if plain then [] else (J.arrD j "intBefore").filterMap (fun x => x.getStr?.toOption)
  let intA := if plain then [] else (J.arrD j "intAfter").filterMap (fun x => x.getStr?.toOption)
  pure { base := compile defaultStepSlack g, inodes := nodes.map (·.2), intBefore := intB, intAfter := intA, initState := [] }
end

/-! ### rendering -/

def errClassJson : ErrClass → Json
  | .user id => Json.mkObj [("c", "user"), ("id", id)]
  | .branchUser id => Json.mkObj [("c", "branch"), ("id", id)]
  | .merge => Json.mkObj [("c", "merge")]
  | .maxSteps => Json.mkObj [("c", "maxSteps")]
  | .noTasks => Json.mkObj [("c", "noTasks")]
  | .badBranchEnd => Json.mkObj [("c", "badBranchEnd")]
  | .endSkipped => Json.mkObj [("c", "endSkipped")]
  | .fuel => Json.mkObj [("c", "MODEL-FUEL")]

def sortStrs (l : List String) : List String := (l.toArray.qsort (· < ·)).toList

/-- the graph case at a node path (for "does this level have a state", "what op is this node") -/
partial def graphAt (g : Json) : List Key → Option Json
  | [] => some g
  | k :: rest =>
    (J.arrD g "nodes").findSome? (fun n =>
      if J.strD n "key" "" == k then
        match n.getObjVal? "body" with
        | .ok b => match b.getObjVal? "g" with
                   | .ok sg => graphAt sg rest
                   | .error _ => none
        | .error _ => none
      else none)

def opAt (g : Json) (p : List Key) : String :=
  match p.reverse with
  | [] => ""
  | k :: revParent =>
    match graphAt g revParent.reverse with
    | none => ""
    | some pg =>
      ((J.arrD pg "nodes").findSome? (fun n =>
        if J.strD n "key" "" == k then
          match n.getObjVal? "body" with
          | .ok b => some (J.strD b "op" "")
          | .error _ => none
        else none)).getD ""

/-- the node case at a node path -/
def nodeAt (g : Json) (p : List Key) : Option Json :=
  match p.reverse with
  | [] => none
  | k :: revParent =>
    (graphAt g revParent.reverse).bind (fun pg =>
      (J.arrD pg "nodes").find? (fun n => J.strD n "key" "" == k))

partial def infoJson (g : Json) (i : Info St Payload) : Json :=
  let hasState := J.boolD g "state" false
  Json.mkObj [
    ("state", if hasState then Json.str (FlatMap.render i.state) else Json.null),
    ("before", J.mkStrs (sortStrs i.before)),
    ("after", J.mkStrs (sortStrs i.after)),
    ("rerun", J.mkStrs (sortStrs i.rerun)),
    ("subs", Json.mkObj ((i.subs.toArray.qsort (fun a b => a.1 < b.1)).toList.map (fun (kx : Key × Payload) =>
      (kx.1, infoJson ((graphAt g [kx.1]).getD Json.null) kx.2.info))))]

def pathStr (p : List Key) : String := "/".intercalate p

def resJson (g : Json) : Res FlatMap St Payload → List (String × Json)
  | .done v => [("res", "done"), ("result", Json.mkObj [("ok", Json.str (FlatMap.render v))])]
  | .failed e => [("res", "failed"), ("result", Json.mkObj [("err", errClassJson e.cls), ("path", J.mkStrs e.path)])]
  | .interrupted _ info => [("res", "interrupted"), ("info", infoJson g info)]

/-- events of all levels with their node paths -/
inductive FlatEv where
  | step (p : List Key) (ts : List (Key × Bool))
  | start (p : List Key) (v : FlatMap)

partial def flatten (pfx : List Key) : List (Ev FlatMap St Payload) → List FlatEv
  | [] => []
  | .step ts :: rest => .step pfx ts :: flatten pfx rest
  | .start k v :: rest => .start (pfx ++ [k]) v :: flatten pfx rest
  | .nested k evs :: rest => flatten (pfx ++ [k]) evs ++ flatten pfx rest
  | _ :: rest => flatten pfx rest

/-- one call: result, per-path superstep sequences, leaf executions (sorted), store written -/
def callJson (g : Json) (o : Out FlatMap St Payload) (notes : List String := []) : Json :=
  let fl := flatten [] o.evs
  let steps : List (String × List Json) := fl.foldl (fun acc ev =>
    match ev with
    | .step p ts =>
      let entry := J.mkStrs (sortStrs (ts.map (·.1)))
      let key := pathStr p
      match alookup key acc with
      | some l => aset key (l ++ [entry]) acc
      | none => acc ++ [(key, [entry])]
    | _ => acc) []
  let handed : List Json := fl.filterMap (fun ev =>
    match ev with
    | .step p ts => some (Json.mkObj [("p", Json.str (pathStr p)),
        ("handed", J.mkStrs (sortStrs ((ts.filter (·.2)).map (·.1))))])
    | _ => none)
  let execs : List String := fl.filterMap (fun ev =>
    match ev with
    | .start p v =>
      let op := opAt g p
      let nd := nodeAt g p
      let xform := match nd with
        | some n => (match n.getObjVal? "body" with | .ok b => J.boolD b "xform" false | .error _ => false)
        | none => false
      if op == "tag" then
        -- a keyed lambda is recorded with what it receives; it does not run when its key is missing
        -- or when it is handed a stream without chunks
        if isE v then none else
        (keyedInput (nd.bind inKeyOf) v).map (fun v' => pathStr p ++ " " ++ FlatMap.render v')
      else if op == "fail" then (if isE v then none else some (pathStr p ++ " " ++ FlatMap.render v))
      else if op == "collect" || (op == "emit" && xform) then some (pathStr p ++ " " ++ FlatMap.render v)
      else if op == "emit" then (if isE v then none else some (pathStr p ++ " " ++ FlatMap.render v))
      else none
    | _ => none)
  let stored := o.evs.any (fun ev => match ev with | .storeSet => true | _ => false)
  Json.mkObj (resJson g o.res ++ [
    ("steps", Json.mkObj ((steps.toArray.qsort (fun a b => a.1 < b.1)).toList.map (fun p => (p.1, J.mkArr p.2)))),
    ("handed", J.mkArr handed),
    ("execs", J.mkStrs (sortStrs execs)),
    ("stored", Json.bool stored)] ++ (if notes.isEmpty then [] else [("notes", J.mkStrs notes)]))

def scheds : List (ISched FlatMap St Payload) :=
  [ISched.id, fun l => l.reverse] ++
  (List.range 5).map (fun i => fun l => (l.drop (i + 1)) ++ (l.take (i + 1))) ++
  (List.range 6).map (fun i => fun l => (l.drop i).take 1 ++ (l.eraseIdx i))

/-- how deep graph nodes are nested in the case (0: no nested graph) -/
partial def nestDepth (g : Json) : Nat :=
  (J.arrD g "nodes").foldl (fun m n =>
    match n.getObjVal? "body" with
    | .ok b => (match b.getObjVal? "g" with
                | .ok sg => max m (nestDepth sg + 1)
                | .error _ => m)
    | .error _ => m) 0

/-- every assignment of a probed schedule to each of `levels` nesting levels -/
def levelCombos : Nat → List (List (ISched FlatMap St Payload))
  | 0 => [[]]
  | n + 1 => scheds.flatMap (fun s => (levelCombos n).map (s :: ·))

def comboSched (combo : List (ISched FlatMap St Payload)) : Nat → ISched FlatMap St Payload :=
  fun d => combo.getD d ISched.id

def uniformSched (sc : ISched FlatMap St Payload) : Nat → ISched FlatMap St Payload := fun _ => sc

/-- the calling paradigm of call `i` (the list cycles; none given: Invoke) -/
def parOf (ps : List String) (i : Nat) : String :=
  if ps.isEmpty then "invoke" else ps.getD (i % ps.length) "invoke"

/-- Stream / Collect / Transform run the graph on streams -/
def isStreamPar (p : String) : Bool := p != "invoke" && p != ""

/-- what the caller of paradigm `p` gets when the run's result is the stream without chunks:
    Stream / Transform hand it on (rendered `<empty>=;`), Collect cannot concatenate it (the
    framework's error, no node path) -/
def finalize (p : String) (o : Out FlatMap St Payload) : Out FlatMap St Payload :=
  match o.res with
  | .done v => if isE v && p == "collect" then { o with res := .failed missingKeyErr } else o
  | _ => o

/-- annotations of an interrupted call (for the harness's distribution, not compared): the checkpoint
    holds a stream without chunks as a pending input / as a channel content, at this or a nested level -/
partial def cpNotes (sfx : String) (cp : Checkpoint FlatMap St Payload) : List String :=
  (if cp.inputs.any (fun kv => isE kv.2) then ["chunkless-stream-in-checkpoint:pending-input" ++ sfx] else []) ++
  (if cp.chans.any (fun kc => kc.2.values.any (fun kv => isE kv.2)) then ["chunkless-stream-in-checkpoint:channel" ++ sfx] else []) ++
  cp.subs.flatMap (fun kx => cpNotes ":nested" kx.2.cp)

def outNotes (o : Out FlatMap St Payload) : List String :=
  match o.res with
  | .interrupted cp _ => (cpNotes "" cp).eraseDups
  | _ => []

/-- {"g": graph case, "input": "x", "maxCalls": n, "noID": bool, "altsFull": bool,
     "paradigms": [per call, cycling], "plainPar": paradigm of the reference run} →
    {"calls":[…], "plain": call, "alts":[final results reachable under other completion orders]} -/
def handle (c : Json) : JE Json := do
  let g ← J.field c "g"
  let x ← J.str c "input"
  let maxCalls := J.natD c "maxCalls" 40
  let noID := J.boolD c "noID" false
  let input : FlatMap := [("in", x)]
  let theCfg := cfgOf c
  let pars : List String := (J.arrD c "paradigms").filterMap (fun x => x.getStr?.toOption)
  let plainPar := J.strD c "plainPar" "invoke"
  let idLv := uniformSched (ISched.id : ISched FlatMap St Payload)
  -- the same graph in value mode and in stream mode (they differ only in the natively streaming nodes)
  let rV ← parseGraph theCfg idLv 0 false false g
  let rS ← parseGraph theCfg idLv 0 false true g
  let rOf : Nat → IRunner FlatMap St Payload := fun i => if isStreamPar (parOf pars i) then rS else rV
  let h0 : List (Out FlatMap St Payload) :=
    if noID then [runI flatOps theCfg (rOf 0) ISched.id false false (.inl input)]
    else histLoop flatOps theCfg rOf ISched.id maxCalls 0 (.inl input)
  let lastIdx := h0.length - 1
  let lastPar := parOf pars lastIdx
  let h := (List.range h0.length).zip h0 |>.map (fun io => finalize (parOf pars io.1) io.2)
  let rp ← parseGraph theCfg idLv 0 true (isStreamPar plainPar) g
  let plain := finalize plainPar (runI flatOps theCfg rp ISched.id false false (.inl input))
  let isFail := match h.getLast? with | some o => (match o.res with | .failed _ => true | _ => false) | none => false
  -- which failure a call reports depends on the order in which the tasks of the failing step complete
  -- (and, for restored tasks, on Go's map order) — at every nesting level independently: every result
  -- of the *last call* reachable under the probed completion orders, one per nesting level, is legitimate
  let lastInput : FlatMap ⊕ Checkpoint FlatMap St Payload :=
    match h.reverse with
    | _ :: prev :: _ => (match prev.res with | .interrupted cp _ => .inr cp | _ => .inl input)
    | _ => .inl input
  -- by default every probed schedule is applied uniformly at all levels; "altsFull": one probed
  -- schedule per nesting level, independently (asked for by the harness when the uniform
  -- alternatives do not explain the implementation's failure)
  let combos : List (List (ISched FlatMap St Payload)) :=
    if J.boolD c "altsFull" false then levelCombos (nestDepth g + 1)
    else scheds.map (fun s => List.replicate (nestDepth g + 1) s)
  let distinct (outs : List (Out FlatMap St Payload)) : List Json :=
    ((outs.map (fun o => (Json.mkObj (resJson g o.res)).compress)).eraseDups).filterMap (fun t => (Json.parse t).toOption)
  let alts ← if isFail then (do
      let outs ← combos.mapM (fun combo => do
        let lv := comboSched combo
        let r ← parseGraph theCfg lv 0 false (isStreamPar lastPar) g
        pure (finalize lastPar (runI flatOps theCfg r (lv 0) false (!noID) lastInput)))
      pure (distinct outs)) else pure []
  let plainAlts ← (match plain.res with
    | .failed _ => (do
      let ps ← combos.mapM (fun combo => do
        let lv := comboSched combo
        let rp ← parseGraph theCfg lv 0 true (isStreamPar plainPar) g
        pure (finalize plainPar (runI flatOps theCfg rp (lv 0) false false (.inl input))))
      pure (distinct ps))
    | _ => pure [])
  pure (Json.mkObj [("calls", J.mkArr (h.map (fun o => callJson g o (outNotes o)))), ("plain", callJson g plain),
                    ("alts", J.mkArr alts), ("plainAlts", J.mkArr plainAlts)])

end EinoV.Oracle.C05GraphCase
