import EinoV.Oracle.C04
import EinoV.Model.C19
import EinoV.Model.C19Merge
import EinoV.Model.C19Route
import EinoV.Model.C19Callbacks
import EinoV.Expected.C19

namespace EinoV.Oracle.C19
open Lean EinoV EinoV.Engine EinoV.C04 EinoV.C19

/-! the handler list of a case (see c19HandlerSet in harness/props/c19.go): `<kind>` | `=<i>` |
    `g=<i>` | `g:<kind>`; per-run handlers first, then the global ones, as `On` lists them -/

def cbNeeds (kind : String) (out : Bool) : Bool :=
  if kind == "plain" then false
  else if kind == "in-close" then !out
  else if kind == "raw-close" then true
  else out

/-- (id, kind, global) of every entry -/
def cbResolve (hs : List String) : List (Nat × String × Bool) :=
  (hs.foldl (fun (acc : List (Nat × String × Bool)) e =>
    let i := acc.length
    let look (t : String) : Nat × String := match t.toNat? with
      | some j => (match acc[j]? with | some (id, k, _) => (id, k) | none => (i, "plain"))
      | none => (i, "plain")
    if e.startsWith "g=" then let r := look (e.drop 2).toString; acc ++ [(r.1, r.2, true)]
    else if e.startsWith "=" then let r := look (e.drop 1).toString; acc ++ [(r.1, r.2, false)]
    else if e.startsWith "g:" then acc ++ [(i, (e.drop 2).toString, true)]
    else acc ++ [(i, e, false)]) [])

def cbOccs (hs : List String) (out : Bool) : List Cb.Occ :=
  let r := cbResolve hs
  ((r.filter (fun x => !x.2.2)) ++ (r.filter (fun x => x.2.2))).map
    fun x => { id := x.1, needs := cbNeeds x.2.1 out }

/-- the callback-copy ledger of one node's two streaming timings, with the expected facts -/
def cbVerdict (c : Json) : List (String × Json) :=
  let hs := (J.arrD c "handlers").filterMap (fun j => match j with | .str s => some s | _ => none)
  let cr := Cb.CopyRule.ofFact Expected.C19.cbCopyCountExpr
  let hr := Cb.HandRule.ofFact Expected.C19.cbHandLoop
  let one (out : Bool) : Nat × Nat × Nat :=
    let os := cbOccs hs out
    ((Cb.copies cr os).getD 0, (Cb.handed hr os).length, (Cb.leaked cr hr os).getD 999)
  let o := one true
  let i := one false
  [("cbCopiesOut", (o.1 : Nat)), ("cbHandedOut", (o.2.1 : Nat)), ("cbCopiesIn", (i.1 : Nat)),
   ("cbHandedIn", (i.2.1 : Nat)), ("cbLeaked", ((o.2.2 + i.2.2 : Nat)))]

/-- case: {"g": graph, "input": text, "inChunks": [...]} → the preconditions of C19 evaluated
    on the model's stream-mode run: {"ok", "dropped", "noConsumer", "surplus"} -/
def handleGraph (c : Json) : JE Json := do
  let (_, gs) ← C04.parseBoth (lazyOps C04.flatZero) (← J.field c "g")
  let x ← J.str c "input"
  let pat := (J.arrD c "inChunks").filterMap (fun v => v.getNat?.toOption)
  let rs := compile GraphCase.defaultStepSlack gs
  let xs : C04.SV := .ofList (flatChunk pat [("in", x)])
  let info := analyze (lazyOps C04.flatZero) rs xs
  let noConsumer := info.tasks.filterMap (fun t => if t.2.1 + t.2.2.2 == 0 then some t.1 else none)
  let surplus := info.tasks.filterMap (fun t => if t.2.2.1 > t.2.2.2 then some t.1 else none)
  let ledgerLeak := (info.tasks.map (fun t => (distribute false false t.2.1 t.2.2.1 t.2.2.2 0).leaked)).sum
  pure (Json.mkObj ([("ok", Json.bool info.ok), ("dropped", J.mkStrs info.droppedAtEnd),
    ("noConsumer", J.mkStrs noConsumer), ("surplus", J.mkStrs surplus),
    ("leakWithoutClose", (ledgerLeak : Nat)), ("tasks", (info.tasks.length : Nat))] ++ cbVerdict c))

/-- merge case: {"kind":"merge", "srcs":[{"len","pre"}], "recv":[source positions in the order the
    consumer received chunks], "eof": the consumer read to the end, "ordered": the positions are the
    positions in the merged reader} → the verdict of the merged-reader model, with the loop shape
    of `multiStreamReader.close` the theorems are proved for. -/
def handleMerge (c : Json) : JE Json := do
  let srcs ← (← J.arr c "srcs").mapM (fun j => do
    pure ({ len := ← J.nat j "len", pre := J.boolD j "pre" false } : Merge.Src))
  let recv ← J.natList c "recv"
  let eof := J.boolD c "eof" false
  let ordered := J.boolD c "ordered" true
  let sh := Merge.CloseShape.ofFact Expected.C19.mergeCloseLoop
  let v := Merge.judge sh srcs recv eof
  -- merge order unknown: only a shape that does not depend on positions can be evaluated
  let release := if ordered || sh.sound then v.release else
    (List.range srcs.length).filter (fun i => !v.stillOpen.contains i)
  pure (Json.mkObj [("admissible", Json.bool v.admissible), ("release", J.mkNats release),
    ("ended", J.mkNats v.ended), ("stillOpen", J.mkNats v.stillOpen)])

/-- the facts the theorems are proved for, as the `Facts` of the copy-routing model -/
def routeFacts : Route.Facts :=
  { missing := Route.Missing.ofFact Expected.C19.missingDpsArm,
    closesNonData := Expected.C19.closesNonDataValues,
    skippedCloses := Expected.C19.skippedChannelClosesValues,
    skipReleasesStored := Expected.C19.skipReleasesStored,
    closesSurplus := Expected.C19.closesSurplus,
    closesReplaced := Expected.C19.closesReplaced }

def parseKind : String → JE Route.Kind
  | "input" => pure .input
  | "dataonly" => pure .dataonly
  | "dep" => pure .dep
  | "branchend" => pure .branchend
  | k => throw s!"successor kind {k}"

def parseData : String → JE Route.Data
  | "" => pure .start
  | "start" => pure .start
  | "none" => pure .none
  | "static" => pure .static
  | "indirect" => pure .indirect
  | "pdata" => pure .pdata
  | d => throw s!"successor data {d}"

def parseCond : String → JE Route.Cond
  | "none" => pure .none
  | "value" => pure .value
  | "prefix" => pure .pfx
  | "multi-value" => pure .multiValue
  | "multi-prefix" => pure .multiPfx
  | k => throw s!"condition {k}"

/-- workflow case: {"kind":"workflow", "chunks", "succ":[{"key","kind","data"}], "cond", "select",
    "endData", "consume"} → where every copy of the producer's stream ends up, and what the
    producer must therefore observe. -/
def handleWorkflow (c : Json) : JE Json := do
  let succ ← (J.arrD c "succ").mapM (fun j => do
    pure ({ key := ← J.str j "key", kind := ← parseKind (← J.str j "kind"),
            data := ← parseData (J.strD j "data" "") } : Route.Succ))
  let consume ← J.int c "consume"
  let sel ← (J.arrD c "select").mapM J.asStr
  let wc : Route.Case :=
    { chunks := ← J.nat c "chunks", succ := succ, cond := ← parseCond (← J.str c "cond"),
      select := sel, endData := J.boolD c "endData" false,
      consume := if consume < 0 then none else some consume.toNat }
  let fs := Route.fates routeFacts wc
  let W := (Route.writeToEntries wc).length
  let B := Route.nBranches wc
  let nsel := (Route.selectedEntries wc).length
  let dups := ((Route.selectedEntries wc).filter (·.replaced)).length
  pure (Json.mkObj ([("fates", J.mkStrs (fs.map Route.Fate.name)),
    ("copies", (fs.length : Nat)),
    ("ledgerCreated", ((distribute routeFacts.closesSurplus routeFacts.closesReplaced W B nsel dups).created : Nat)),
    ("dropped", ((fs.filter Route.Fate.isDropped).length : Nat)),
    ("mustRelease", Json.bool (Route.mustRelease routeFacts wc)),
    ("mustFinish", Json.bool (Route.mustFinish routeFacts wc)),
    ("noDataPreds", J.mkStrs (((Route.entries wc).filter (fun e => e.dps.isNone)).map (·.key)))] ++ cbVerdict c))

def parseOrder : String → JE Route.Order
  | "value-first" => pure .valueFirst
  | "skip-first" => pure .skipFirst
  | "free" => pure .free
  | k => throw s!"order {k}"

def parseXData : String → JE Route.XData
  | "adata" => pure .adata
  | "ainput" => pure .ainput
  | "" => pure .start
  | "start" => pure .start
  | "none" => pure .none
  | "static" => pure .static
  | d => throw s!"end data {d}"

/-- cross case: {"kind":"cross", "chunks", "order", "ends":[{"key","data","mode"}], "select",
    "endData", "consume"} → the fate of every copy of A's stream -/
def handleCross (c : Json) : JE Json := do
  let ends ← (J.arrD c "ends").mapM (fun j => do
    pure ({ key := ← J.str j "key", data := ← parseXData (J.strD j "data" ""),
            drains := J.strD j "mode" "drain" == "drain" } : Route.XEnd))
  let consume ← J.int c "consume"
  let sel ← (J.arrD c "select").mapM J.asStr
  let xc : Route.XCase :=
    { chunks := ← J.nat c "chunks", order := ← parseOrder (← J.str c "order"), ends := ends,
      select := sel, endData := J.boolD c "endData" false,
      consume := if consume < 0 then none else some consume.toNat }
  let fs := Route.xFates routeFacts xc
  let es := Route.xEntries xc
  pure (Json.mkObj ([("fates", J.mkStrs (fs.map Route.Fate.name)),
    ("copies", (fs.length : Nat)),
    ("ledgerCreated", ((distribute routeFacts.closesSurplus routeFacts.closesReplaced es.length 0 0 0).created : Nat)),
    ("dropped", ((fs.filter Route.Fate.isDropped).length : Nat)),
    ("mustRelease", Json.bool (Route.xMustRelease routeFacts xc)),
    ("mustFinish", Json.bool (Route.xMustFinish routeFacts xc)),
    ("inScope", Json.bool (Route.xInScope xc)),
    ("skippedBefore", J.mkStrs ((es.filter (fun e => e.skip == .before || e.skip == .either)).map (·.key))),
    ("skippedAfter", J.mkStrs ((es.filter (fun e => e.skip == .after || e.skip == .either)).map (·.key)))] ++ cbVerdict c))

def handle (c : Json) : JE Json :=
  if J.strD c "kind" "" == "merge" then handleMerge c
  else if J.strD c "kind" "" == "workflow" then handleWorkflow c
  else if J.strD c "kind" "" == "cross" then handleCross c
  else handleGraph c

end EinoV.Oracle.C19
