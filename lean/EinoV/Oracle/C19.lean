import EinoV.Oracle.C04
import EinoV.Model.C19

namespace EinoV.Oracle.C19
open Lean EinoV EinoV.Engine EinoV.C04 EinoV.C19

/-- case: {"g": graph, "input": text, "inChunks": [...]} → the preconditions of C19 evaluated
    on the model's stream-mode run: {"ok", "dropped", "noConsumer", "surplus"} -/
def handle (c : Json) : JE Json := do
  let (_, gs) ← C04.parseBoth (← J.field c "g")
  let x ← J.str c "input"
  let pat := (J.arrD c "inChunks").filterMap (fun v => v.getNat?.toOption)
  let rs := compile GraphCase.defaultStepSlack gs
  let xs : C04.SV := flatChunk pat [("in", x)]
  let info := analyze streamOps rs xs
  let noConsumer := info.tasks.filterMap (fun t => if t.2.1 + t.2.2.2 == 0 then some t.1 else none)
  let surplus := info.tasks.filterMap (fun t => if t.2.2.1 > t.2.2.2 then some t.1 else none)
  let ledgerLeak := (info.tasks.map (fun t => (distribute false false t.2.1 t.2.2.1 t.2.2.2 0).leaked)).sum
  pure (Json.mkObj [("ok", Json.bool info.ok), ("dropped", J.mkStrs info.droppedAtEnd),
    ("noConsumer", J.mkStrs noConsumer), ("surplus", J.mkStrs surplus),
    ("leakWithoutClose", (ledgerLeak : Nat)), ("tasks", (info.tasks.length : Nat))])

end EinoV.Oracle.C19
