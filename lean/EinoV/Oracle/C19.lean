import EinoV.Oracle.C04
import EinoV.Model.C19
import EinoV.Model.C19Merge
import EinoV.Expected.C19

namespace EinoV.Oracle.C19
open Lean EinoV EinoV.Engine EinoV.C04 EinoV.C19

/-- case: {"g": graph, "input": text, "inChunks": [...]} → the preconditions of C19 evaluated
    on the model's stream-mode run: {"ok", "dropped", "noConsumer", "surplus"} -/
def handleGraph (c : Json) : JE Json := do
  let (_, gs) ← C04.parseBoth (lazyOps C04.flatZero) (← J.field c "g")
  let x ← J.str c "input"
  let pat := (J.arrD c "inChunks").filterMap (fun v => v.getNat?.toOption)
  let rs := compile GraphCase.defaultStepSlack gs
  let xs : C04.SV := .ofList (flatChunk pat [("in", x)])
  let info := analyze (lazyOps C04.flatZero) rs xs
  let noConsumer := info.tasks.filterMap (fun t => if t.2.1 + t.2.2.2 == 0 then some t.1 else none)
  let surplus := info.tasks.filterMap (fun t => if t.2.2.1 > t.2.2.2 then some t.1 else none)
  let ledgerLeak := (info.tasks.map (fun t => (distribute false false t.2.1 t.2.2.1 t.2.2.2 0).leaked)).sum
  pure (Json.mkObj [("ok", Json.bool info.ok), ("dropped", J.mkStrs info.droppedAtEnd),
    ("noConsumer", J.mkStrs noConsumer), ("surplus", J.mkStrs surplus),
    ("leakWithoutClose", (ledgerLeak : Nat)), ("tasks", (info.tasks.length : Nat))])

/-- merge case: {"kind":"merge", "srcs":[{"len","pre"}], "recv":[source positions in the order the
    consumer received chunks], "eof": the consumer read to the end, "ordered": the positions are the
    positions in the merged reader} → the verdict of the merged-reader model, with the loop shape
    of `multiStreamReader.close` the theorems are proved for. -/
def handleMerge (c : Json) : JE Json := do
  let srcs ← (← J.arr c "srcs").mapM (fun j => do
    pure ({ len := ← J.nat j "len", pre := J.boolD j "pre" false } : Merge.Src))
  let recv ← J.natList c "recv"
  let eof := J.boolD c "eof" false
  let ordered := J.boolD c "ordered" true
  let sh := Merge.CloseShape.ofFact Expected.C19.mergeCloseLoop
  let v := Merge.judge sh srcs recv eof
  -- merge order unknown: only a shape that does not depend on positions can be evaluated
  let release := if ordered || sh.sound then v.release else
    (List.range srcs.length).filter (fun i => !v.stillOpen.contains i)
  pure (Json.mkObj [("admissible", Json.bool v.admissible), ("release", J.mkNats release),
    ("ended", J.mkNats v.ended), ("stillOpen", J.mkNats v.stillOpen)])

def handle (c : Json) : JE Json :=
  if J.strD c "kind" "" == "merge" then handleMerge c else handleGraph c

end EinoV.Oracle.C19
