import EinoV.Basic.JsonUtil
import EinoV.Model.C15
import EinoV.Model.C15Embed
import EinoV.Expected.C15

namespace EinoV.Oracle.C15
open Lean EinoV EinoV.C15

/-- {"k":"str"|"int"|"any"} | {"k":"ptr"|"map","e":T} | {"k":"struct","name":s,"fields":[{"n":s,"t":T}]}
    | {"k":"opq","kind":"slice"|"func"|"chan","name":s} (a non-nil value of an opaque type travels
    as {"k":"str","s":token}) | {"k":"iface","name":s,"impls":[s]} (a non-empty interface and the
    spellings of the types that implement it) -/
partial def parseTy (j : Json) : JE FTy := do
  match (← J.str j "k") with
  | "str" => pure .str
  | "int" => pure .int
  | "any" => pure .any
  | "ptr" => do pure (.ptr (← parseTy (← J.field j "e")))
  | "map" => do pure (.map (← parseTy (← J.field j "e")))
  | "struct" => do
    let fs ← (J.arrD j "fields").mapM (fun f => do
      pure ((← J.str f "n"), (← parseTy (← J.field f "t"))))
    pure (.struct (← J.str j "name") (fs.foldr (fun (n, t) acc => .cons n t acc) .nil))
  | "opq" => do
    let kind ← match (← J.str j "kind") with
      | "slice" => pure OKind.slice
      | "func" => pure OKind.func
      | "chan" => pure OKind.chan
      | k => throw s!"bad opaque kind {k}"
    pure (.opq kind (← J.str j "name"))
  | "iface" => do
    pure (.iface (← J.str j "name") (← (J.arrD j "impls").mapM J.asStr))
  | k => throw s!"bad type kind {k}"

partial def parseVal (j : Json) : JE FVal := do
  match (← J.str j "k") with
  | "str" => pure (.str (← J.str j "s"))
  | "int" => pure (.int (← J.int j "i"))
  | "nil" => pure .nil
  | "ptr" => do pure (.ptr (← parseVal (← J.field j "v")))
  | "obj" => do
    let fs ← (J.arrD j "fs").mapM (fun f => do pure ((← J.str f "n"), (← parseVal (← J.field f "v"))))
    pure (.obj (fs.foldr (fun (n, v) acc => .cons n v acc) .nil))
  | "map" => do
    let fs ← (J.arrD j "kvs").mapM (fun f => do pure ((← J.str f "n"), (← parseVal (← J.field f "v"))))
    pure (.map (fs.foldl (fun acc (n, v) => acc.ins n v) .nil))
  | "box" => do pure (.box (← parseTy (← J.field j "t")) (← parseVal (← J.field j "v")))
  | k => throw s!"bad value kind {k}"

mutual
partial def renderTy : FTy → Json
  | .str => Json.mkObj [("k", "str")]
  | .int => Json.mkObj [("k", "int")]
  | .any => Json.mkObj [("k", "any")]
  | .ptr t => Json.mkObj [("k", "ptr"), ("e", renderTy t)]
  | .map t => Json.mkObj [("k", "map"), ("e", renderTy t)]
  | .struct n fs => Json.mkObj [("k", "struct"), ("name", n), ("fields", J.mkArr (renderFields fs))]
  | .opq k n => Json.mkObj [("k", "opq"),
      ("kind", match k with | .slice => "slice" | .func => "func" | .chan => "chan"), ("name", n)]
  | .iface n is => Json.mkObj [("k", "iface"), ("name", n), ("impls", J.mkStrs is)]
partial def renderFields : FFields → List Json
  | .nil => []
  | .cons n t r => Json.mkObj [("n", n), ("t", renderTy t)] :: renderFields r
end

mutual
partial def renderVal : FVal → Json
  | .str s => Json.mkObj [("k", "str"), ("s", s)]
  | .int i => Json.mkObj [("k", "int"), ("i", Json.num (JsonNumber.fromInt i))]
  | .nil => Json.mkObj [("k", "nil")]
  | .ptr v => Json.mkObj [("k", "ptr"), ("v", renderVal v)]
  | .obj fs => Json.mkObj [("k", "obj"), ("fs", J.mkArr (renderKVs fs))]
  | .map kvs => Json.mkObj [("k", "map"), ("kvs", J.mkArr (renderKVs kvs))]
  | .box t v => Json.mkObj [("k", "box"), ("t", renderTy t), ("v", renderVal v)]
partial def renderKVs : FKVs → List Json
  | .nil => []
  | .cons k v r => Json.mkObj [("n", k), ("v", renderVal v)] :: renderKVs r
end

/-- the embedded fields of the struct types of the case: `"emb":[[struct type name, field name],…]` -/
def parseEmb (c : Json) : JE Emb :=
  (J.arrD c "emb").mapM (fun p => do
    match (← J.asArr p) with
    | [a, b] => pure ((← J.asStr a), (← J.asStr b))
    | _ => throw "bad emb entry")

def parseMapping (j : Json) : JE Mapping := do
  pure { src := (← (J.arrD j "from").mapM J.asStr), dst := (← (J.arrD j "to").mapM J.asStr) }

structure Decl where
  ty : FTy
  v : FVal
  ms : List Mapping

def parseDecl (j : Json) : JE Decl := do
  pure { ty := (← parseTy (← J.field j "ty")), v := (← parseVal (← J.field j "val")),
         ms := (← (J.arrD j "maps").mapM parseMapping) }

def renderRun : Except RunErr FVal → Json
  | .ok v => Json.mkObj [("class", "ok"), ("val", renderVal v)]
  | .error .request => Json.mkObj [("class", "err")]
  | .error .panic => Json.mkObj [("class", "panic")]

/-- a dependency without mappings is an ordinary edge: the value arrives as it is -/
def runWhole (st : FTy) (d : Decl) : Except RunErr FVal :=
  match store st (unstore d.ty d.v) with
  | some v => .ok v
  | none => .error .request

/-- case: {"target":T, "decls":[{"ty":T,"val":V,"maps":[{"from":[..],"to":[..]}]}]} in
    declaration order -/
def handleMapping (c : Json) : JE Json := do
  let st ← parseTy (← J.field c "target")
  let decls ← (← J.arr c "decls").mapM parseDecl
  let emb ← parseEmb c
  let tf := Expected.C15.trie
  let kf := Expected.C15.take
  let vf := Expected.C15.validate
  -- promoted selectors are shorthand for explicit paths: overlap is judged on the slots denoted
  let groups := decls.map (fun d => d.ms.map (fun m => (elabMapping emb d.ty st m).dst))
  let free : Bool := decide (noOverlap (targets groups))
  let wholeOnly := match decls with
    | [d] => d.ms.isEmpty
    | _ => false
  let ok : Bool :=
    if wholeOnly then
      match decls with
      | [d] => checkAssignable d.ty st != .mustNot
      | _ => false
    else compileOKP emb tf vf st (decls.map (fun d => (d.ty, d.ms)))
  let edge (d : Decl) : Edge := { pt := d.ty, v := d.v, ms := d.ms }
  let run (allowMissing : Bool) : Except RunErr FVal :=
    match decls with
    | [d] => if d.ms.isEmpty then runWhole st d
             else runNodeP emb kf vf allowMissing st [edge d]
    | _ => runNodeP emb kf vf allowMissing st (decls.map edge)
  -- Stream: every predecessor edge delivers its own chunk (fieldMap with allowMapKeyNotFound),
  -- each chunk is converted on its own
  let chunks : List (Except RunErr FVal) := decls.map (fun d =>
    if d.ms.isEmpty then runWhole st d
    else runNodeP emb kf vf true st [edge d])
  let anyPanic := chunks.any (fun r => match r with | .error .panic => true | _ => false)
  let anyErr := chunks.any (fun r => match r with | .error _ => true | _ => false)
  let streamClass := if anyPanic then "panic" else if anyErr then "err" else "ok"
  let promoted : Bool := decls.any (fun d => d.ms.any (fun m =>
    elabMapping emb d.ty st m != m || runPath emb kf d.ty d.v (elabMapping emb d.ty st m) != m.src))
  let base := [("compile", Json.str (if ok then "accept" else "reject")), ("overlapFree", Json.bool free),
    ("promoted", Json.bool promoted)]
  if ok then
    pure <| Json.mkObj (base ++ [("invoke", renderRun (run false)),
      ("stream", Json.mkObj [("class", streamClass)]),
      ("streamChunks", J.mkArr (if streamClass == "ok" then chunks.map renderRun else []))])
  else pure <| Json.mkObj base

/-! ## family "static": a node with field mappings and static values, four calling paradigms -/

def renderIn : NodeIn → Json
  | .val v => renderVal v
  | .entries l => Json.mkObj [("k", "entries"), ("keys", J.mkArr (l.map (fun x => J.mkStrs x.1)))]

def classOf {α : Type} : Except RunErr α → String
  | .ok _ => "ok"
  | .error .request => "err"
  | .error .panic => "panic"

/-- the `map[string]any` chunks the edges deliver in streaming execution: per predecessor, per
    chunk of its output, `fieldMap(mappings, allowMapKeyNotFound = true)` + the run-time checkers -/
def incoming (kf : TakeFacts) (vf : ValidateFacts) (st : FTy) :
    List (Decl × List FVal) → Except RunErr (List NodeIn)
  | [] => .ok []
  | (d, chunks) :: rest =>
    let rec go : List FVal → Except RunErr (List NodeIn)
      | [] => .ok []
      | v :: vs =>
        match edgesMap kf vf true st [{ pt := d.ty, v := v, ms := d.ms }] with
        | .error e => .error e
        | .ok l => match go vs with
          | .error e => .error e
          | .ok r => .ok (.entries l :: r)
    match go chunks with
    | .error e => .error e
    | .ok a => match incoming kf vf st rest with
      | .error e => .error e
      | .ok b => .ok (a ++ b)

/-- one streaming mode: the chunks the node receives, their concatenation, and whether the stream
    twin followed by concatenation equals the value twin on the concatenated incoming chunks -/
def streamMode (kf : TakeFacts) (vf : ValidateFacts) (cf : ChainFacts) (st : FTy)
    (statics : List (Path × Taken)) (ds : List (Decl × List FVal)) : Json :=
  match incoming kf vf st ds with
  | .error e => Json.mkObj [("class", classOf (Except.error e : Except RunErr Unit))]
  | .ok inc =>
    let out := assembleStaticStream cf st statics inc
    let viaValue := chainValue cf.valueAppliesAll (nodeHandlers st statics) (concatIn inc)
    match out with
    | .error e => Json.mkObj [("class", classOf (Except.error e : Except RunErr Unit))]
    | .ok chunks =>
      Json.mkObj [("class", "ok"), ("chunks", J.mkArr (chunks.map renderIn)),
        ("concat", renderIn (concatIn chunks)),
        ("twinsAgree", Json.bool (decide (out.map concatIn = viaValue)))]

/-- case: {"family":"static","target":T,"decls":[{"pred","ty","val","maps"}],
    "statics":[{"path":[..],"ty":T,"val":V}],"inputChunks":[V..]} — the declaration whose
    predecessor is "start" delivers `inputChunks` in Collect/Transform, its `val` otherwise -/
def handleStatic (c : Json) : JE Json := do
  let st ← parseTy (← J.field c "target")
  let djs ← J.arr c "decls"
  let decls ← djs.mapM parseDecl
  let preds ← djs.mapM (fun j => J.str j "pred")
  let statics ← (J.arrD c "statics").mapM (fun j => do
    let p ← (J.arrD j "path").mapM J.asStr
    let ty ← parseTy (← J.field j "ty")
    let v ← parseVal (← J.field j "val")
    pure ((p, some (ty, v)) : Path × Taken))
  let inputChunks ← (J.arrD c "inputChunks").mapM parseVal
  let tf := Expected.C15.trie
  let kf := Expected.C15.take
  let vf := Expected.C15.validate
  let cf := Expected.C15.chain
  let groups := decls.map (fun d => d.ms.map (·.dst))
  let sgroup := statics.map (·.1)
  let free : Bool := decide (noOverlap (targets groups ++ sgroup))
  -- Workflow.compile: the AddInput declarations first, then the static paths of the node as one
  -- more call of checkAndAddMappedPath
  let okOverlap : Bool :=
    if statics.isEmpty then acceptedOverlap tf groups
    else checkMapped tf (groups ++ [sgroup]) && dupFree groups.flatten
  let ok : Bool := okOverlap && decls.all (fun d => d.ms.isEmpty || validateEdge vf d.ty st d.ms)
  let base := [("compile", Json.str (if ok then "accept" else "reject")), ("overlapFree", Json.bool free)]
  if !ok then return Json.mkObj base
  -- Invoke: every edge maps the whole predecessor output, the pre-node chain runs in value form
  let value : Except RunErr NodeIn :=
    match edgesMap kf vf false st (decls.map (fun d => { pt := d.ty, v := d.v, ms := d.ms })) with
    | .error e => .error e
    | .ok l => assembleStatic cf st statics l
  let single := (decls.map (fun d => (d, [d.v])))
  let chunked := (decls.zip preds).map (fun (d, p) => (d, if p == "start" then inputChunks else [d.v]))
  -- the chunks of the workflow input concatenate to the whole input
  let startVals := (decls.zip preds).filterMap (fun (d, p) => if p == "start" then some d.v else none)
  let chunksOK : Bool := match startVals, inputChunks with
    | [v], c :: cs => cs.foldl mergeV c == v
    | _, _ => true
  let inv := match value with
    | .ok (.val v) => Json.mkObj [("class", "ok"), ("val", renderVal v)]
    | .ok other => Json.mkObj [("class", "ok"), ("val", renderIn other)]
    | .error e => Json.mkObj [("class", classOf (Except.error e : Except RunErr Unit))]
  pure <| Json.mkObj (base ++ [("invoke", inv),
    ("single", streamMode kf vf cf st statics single),
    ("chunked", streamMode kf vf cf st statics chunked),
    ("chunksOK", Json.bool chunksOK)])

def handle (c : Json) : JE Json :=
  if J.strD c "family" "" == "static" then handleStatic c else handleMapping c

end EinoV.Oracle.C15
