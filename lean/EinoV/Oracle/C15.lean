import EinoV.Basic.JsonUtil
import EinoV.Model.C15
import EinoV.Expected.C15

namespace EinoV.Oracle.C15
open Lean EinoV EinoV.C15

/-- {"k":"str"|"int"|"any"} | {"k":"ptr"|"map","e":T} | {"k":"struct","name":s,"fields":[{"n":s,"t":T}]} -/
partial def parseTy (j : Json) : JE FTy := do
  match (← J.str j "k") with
  | "str" => pure .str
  | "int" => pure .int
  | "any" => pure .any
  | "ptr" => do pure (.ptr (← parseTy (← J.field j "e")))
  | "map" => do pure (.map (← parseTy (← J.field j "e")))
  | "struct" => do
    let fs ← (J.arrD j "fields").mapM (fun f => do
      pure ((← J.str f "n"), (← parseTy (← J.field f "t"))))
    pure (.struct (← J.str j "name") (fs.foldr (fun (n, t) acc => .cons n t acc) .nil))
  | k => throw s!"bad type kind {k}"

partial def parseVal (j : Json) : JE FVal := do
  match (← J.str j "k") with
  | "str" => pure (.str (← J.str j "s"))
  | "int" => pure (.int (← J.int j "i"))
  | "nil" => pure .nil
  | "ptr" => do pure (.ptr (← parseVal (← J.field j "v")))
  | "obj" => do
    let fs ← (J.arrD j "fs").mapM (fun f => do pure ((← J.str f "n"), (← parseVal (← J.field f "v"))))
    pure (.obj (fs.foldr (fun (n, v) acc => .cons n v acc) .nil))
  | "map" => do
    let fs ← (J.arrD j "kvs").mapM (fun f => do pure ((← J.str f "n"), (← parseVal (← J.field f "v"))))
    pure (.map (fs.foldl (fun acc (n, v) => acc.ins n v) .nil))
  | "box" => do pure (.box (← parseTy (← J.field j "t")) (← parseVal (← J.field j "v")))
  | k => throw s!"bad value kind {k}"

mutual
partial def renderTy : FTy → Json
  | .str => Json.mkObj [("k", "str")]
  | .int => Json.mkObj [("k", "int")]
  | .any => Json.mkObj [("k", "any")]
  | .ptr t => Json.mkObj [("k", "ptr"), ("e", renderTy t)]
  | .map t => Json.mkObj [("k", "map"), ("e", renderTy t)]
  | .struct n fs => Json.mkObj [("k", "struct"), ("name", n), ("fields", J.mkArr (renderFields fs))]
partial def renderFields : FFields → List Json
  | .nil => []
  | .cons n t r => Json.mkObj [("n", n), ("t", renderTy t)] :: renderFields r
end

mutual
partial def renderVal : FVal → Json
  | .str s => Json.mkObj [("k", "str"), ("s", s)]
  | .int i => Json.mkObj [("k", "int"), ("i", Json.num (JsonNumber.fromInt i))]
  | .nil => Json.mkObj [("k", "nil")]
  | .ptr v => Json.mkObj [("k", "ptr"), ("v", renderVal v)]
  | .obj fs => Json.mkObj [("k", "obj"), ("fs", J.mkArr (renderKVs fs))]
  | .map kvs => Json.mkObj [("k", "map"), ("kvs", J.mkArr (renderKVs kvs))]
  | .box t v => Json.mkObj [("k", "box"), ("t", renderTy t), ("v", renderVal v)]
partial def renderKVs : FKVs → List Json
  | .nil => []
  | .cons k v r => Json.mkObj [("n", k), ("v", renderVal v)] :: renderKVs r
end

def parseMapping (j : Json) : JE Mapping := do
  pure { src := (← (J.arrD j "from").mapM J.asStr), dst := (← (J.arrD j "to").mapM J.asStr) }

structure Decl where
  ty : FTy
  v : FVal
  ms : List Mapping

def parseDecl (j : Json) : JE Decl := do
  pure { ty := (← parseTy (← J.field j "ty")), v := (← parseVal (← J.field j "val")),
         ms := (← (J.arrD j "maps").mapM parseMapping) }

def renderRun : Except RunErr FVal → Json
  | .ok v => Json.mkObj [("class", "ok"), ("val", renderVal v)]
  | .error .request => Json.mkObj [("class", "err")]
  | .error .panic => Json.mkObj [("class", "panic")]

/-- a dependency without mappings is an ordinary edge: the value arrives as it is -/
def runWhole (st : FTy) (d : Decl) : Except RunErr FVal :=
  match store st (unstore d.ty d.v) with
  | some v => .ok v
  | none => .error .request

/-- case: {"target":T, "decls":[{"ty":T,"val":V,"maps":[{"from":[..],"to":[..]}]}]} in
    declaration order -/
def handle (c : Json) : JE Json := do
  let st ← parseTy (← J.field c "target")
  let decls ← (← J.arr c "decls").mapM parseDecl
  let tf := Expected.C15.trie
  let kf := Expected.C15.take
  let vf := Expected.C15.validate
  let groups := decls.map (fun d => d.ms.map (·.dst))
  let free : Bool := decide (noOverlap (targets groups))
  let wholeOnly := match decls with
    | [d] => d.ms.isEmpty
    | _ => false
  let ok : Bool :=
    if wholeOnly then
      match decls with
      | [d] => checkAssignable d.ty st != .mustNot
      | _ => false
    else compileOK tf vf st (decls.map (fun d => (d.ty, d.ms)))
  let run (allowMissing : Bool) : Except RunErr FVal :=
    match decls with
    | [d] => if d.ms.isEmpty then runWhole st d
             else runNode kf vf allowMissing st [{ pt := d.ty, v := d.v, ms := d.ms }]
    | _ => runNode kf vf allowMissing st (decls.map (fun d => { pt := d.ty, v := d.v, ms := d.ms }))
  -- Stream: every predecessor edge delivers its own chunk (fieldMap with allowMapKeyNotFound),
  -- each chunk is converted on its own
  let chunks : List (Except RunErr FVal) := decls.map (fun d =>
    if d.ms.isEmpty then runWhole st d
    else runNode kf vf true st [{ pt := d.ty, v := d.v, ms := d.ms }])
  let anyPanic := chunks.any (fun r => match r with | .error .panic => true | _ => false)
  let anyErr := chunks.any (fun r => match r with | .error _ => true | _ => false)
  let streamClass := if anyPanic then "panic" else if anyErr then "err" else "ok"
  let base := [("compile", Json.str (if ok then "accept" else "reject")), ("overlapFree", Json.bool free)]
  if ok then
    pure <| Json.mkObj (base ++ [("invoke", renderRun (run false)),
      ("stream", Json.mkObj [("class", streamClass)]),
      ("streamChunks", J.mkArr (if streamClass == "ok" then chunks.map renderRun else []))])
  else pure <| Json.mkObj base

end EinoV.Oracle.C15
