import EinoV.Basic.JsonUtil
import EinoV.Model.C14
import EinoV.Expected.C14

namespace EinoV.Oracle.C14
open Lean EinoV EinoV.C14

/-- null | {"t":ty,"v":payload} | {"m":[[key,val],…],"e":elemType}   ("e" absent = "any") -/
partial def parseX (j : Json) : JE XVal := do
  match j with
  | .null => pure .nil
  | _ =>
    match j.getObjVal? "m" with
    | .ok (.arr a) => do
      let kvs ← a.toList.mapM (fun p => do
        match p with
        | .arr #[.str k, v] => do pure (k, ← parseX v)
        | _ => throw "bad kv")
      pure (.map (J.strD j "e" "any") kvs)
    | _ => pure (.sc (← J.str j "t") (← J.str j "v"))

def parseKVs (j : Json) : JE KVs := do
  match (← parseX j) with
  | .map _ kvs => pure kvs
  | .nil => pure []
  | _ => throw "extra: not a map"

partial def renderX : XVal → Json
  | .nil => .null
  | .sc t v => Json.mkObj [("t", .str t), ("v", .str v)]
  | .map et kvs => Json.mkObj [("m", Json.mkObj (kvs.map (fun p => (p.1, renderX p.2)))), ("e", .str et)]

def parseTC (j : Json) : JE TC := do
  let idx : Option Int := match j.getObjVal? "idx" with
    | .ok v => match v.getInt? with | .ok i => some i | .error _ => none
    | .error _ => none
  pure { index := idx, id := J.strD j "id" "", type := J.strD j "type" "", name := J.strD j "name" "",
         args := J.strD j "args" "", extra := J.natD j "ex" 0 }

def renderTC (t : TC) : Json :=
  Json.mkObj [("idx", match t.index with | some i => (i : Json) | none => .null),
    ("id", .str t.id), ("type", .str t.type), ("name", .str t.name), ("args", .str t.args),
    ("ex", (t.extra : Json))]

def parseMeta (j : Json) : JE (Option Meta) := do
  match j with
  | .null => pure none
  | _ =>
    let usage : Option Usage ← match j.getObjVal? "usage" with
      | .ok (.arr #[p, c, t]) => do pure (some ⟨← J.asInt p, ← J.asInt c, ← J.asInt t⟩)
      | _ => pure none
    let lp : Option (List Nat) ← match j.getObjVal? "lp" with
      | .ok (.arr a) => do pure (some (← a.toList.mapM J.asNat))
      | _ => pure none
    pure (some { finish := J.strD j "finish" "", usage := usage, logprobs := lp })

def renderMeta : Option Meta → Json
  | none => .null
  | some m => Json.mkObj [("finish", .str m.finish),
      ("usage", match m.usage with
        | some u => J.mkArr [(u.prompt : Json), (u.completion : Json), (u.total : Json)]
        | none => .null),
      ("lp", match m.logprobs with | some l => J.mkNats l | none => .null)]

def parseMsg (j : Json) : JE (Option Msg) := do
  match j with
  | .null => pure none
  | _ =>
    let tcs ← (J.arrD j "tcs").mapM parseTC
    let multi ← (J.arrD j "multi").mapM J.asNat
    let rm ← parseMeta (J.fieldD j "meta" .null)
    let extra ← parseKVs (J.fieldD j "extra" .null)
    pure (some { role := J.strD j "role" "", name := J.strD j "name" "", toolCallID := J.strD j "tcid" "",
                 content := J.strD j "content" "", multi := multi, toolCalls := tcs, rmeta := rm, extra := extra })

def renderMsg : Option Msg → Json
  | none => .null
  | some m => Json.mkObj [("role", .str m.role), ("name", .str m.name), ("tcid", .str m.toolCallID),
      ("content", .str m.content), ("multi", J.mkNats m.multi), ("tcs", J.mkArr (m.toolCalls.map renderTC)),
      ("meta", renderMeta m.rmeta), ("extra", renderX (.map "any" m.extra))]

def renderRes {α} (f : α → Json) : Except Err α → Json
  | .ok v => Json.mkObj [("ok", f v)]
  | .error .fail => Json.mkObj [("err", .str "fail")]
  | .error .panic => Json.mkObj [("err", .str "panic")]
  | .error .fuel => Json.mkObj [("err", .str "fuel")]

def fuelOf (l : List KVs) : Nat := (l.map depthKVs).foldl max 0 + 2

def extrasOf (cs : List (Option Msg)) : List KVs :=
  cs.filterMap (fun c => c.map (·.extra))

/-- case: {"kind":"msgs"|"cmsgs"|"maps"|"strs"|"marr"|"anys","chunks":[…],"et":elemType?,"guard":bool?,…}
    msgs  = schema.ConcatMessages(chunks)
    cmsgs / maps / strs / anys = compose-level stream concat of *Message / map[string]<et> / string / any -/
def handle (c : Json) : JE Json := do
  let chunks ← J.arr c "chunks"
  let cfg : Cfg := { Expected.C14.cfg with
    nilAbsent := J.boolD c "guard" Expected.C14.cfg.nilAbsent
    guardKindFirst := J.boolD c "kindFirst" Expected.C14.cfg.guardKindFirst
    recurseByKind := J.boolD c "byKind" Expected.C14.cfg.recurseByKind
    nilResultGuard := J.boolD c "nilRes" Expected.C14.cfg.nilResultGuard }
  match (← J.str c "kind") with
  | "msgs" => do
    let cs ← chunks.mapM parseMsg
    pure (renderRes (fun m => renderMsg (some m)) (concatMsgPtrs cfg (fuelOf (extrasOf cs)) cs))
  | "cmsgs" => do
    let cs ← chunks.mapM parseMsg
    pure (renderRes renderMsg (concatMsgChunks cfg (fuelOf (extrasOf cs)) cs))
  | "maps" => do
    let ms ← chunks.mapM parseKVs
    let et := J.strD c "et" "any"
    pure (renderRes (fun m => renderX (.map et m)) (concatMapChunks cfg (fuelOf ms) et ms))
  | "anys" => do
    let xs ← chunks.mapM parseX
    pure (renderRes renderX (concatAnyChunks cfg xs))
  | "marr" => do
    let arrs ← chunks.mapM (fun a => do (← J.asArr a).mapM parseMsg)
    pure (renderRes (fun r => J.mkArr (r.map renderMsg)) (concatArrChunks cfg (fuelOf (extrasOf arrs.flatten)) arrs))
  | "strs" => do
    let ss ← chunks.mapM J.asStr
    pure (renderRes Json.str (concatStrChunks cfg ss))
  | k => throw s!"bad kind {k}"

end EinoV.Oracle.C14
