import EinoV.Basic.JsonUtil
import EinoV.Model.C16
import EinoV.Model.C16Keys
import EinoV.Model.C16Slices
import EinoV.Model.C16Resume
import EinoV.Expected.C16

namespace EinoV.Oracle.C16
open Lean EinoV EinoV.C16

def optKey (j : Json) (k : String) : Option Key :=
  match J.strD j k "" with
  | "" => none
  | s => some s

/-- {"k":"comp","key":s,"ty":n} | {"k":"pass","key":s} | {"k":"graph","key":s,"ch":[…]}, each with
    optional "inKey":s / "outKey":s (the node was added with WithInputKey / WithOutputKey) -/
partial def parseNode (j : Json) : JE WNode := do
  let key ← J.str j "key"
  let w : Wrap := { inKey := optKey j "inKey", outKey := optKey j "outKey" }
  match (← J.str j "k") with
  | "comp" => pure (.comp key (← J.nat j "ty") w)
  | "pass" => pure (.pass key w)
  | "graph" => do
    let ch ← (← J.arr j "ch").mapM parseNode
    pure (.graph key (ch.foldr WNodes.cons .nil) w)
  | k => throw s!"bad node kind {k}"

def parseNodes (js : List Json) : JE WNodes := do
  pure ((← js.mapM parseNode).foldr WNodes.cons .nil)

def parseParadigm : String → JE Paradigm
  | "" | "invoke" => pure .invoke
  | "stream" => pure .stream
  | "collect" => pure .collect
  | "transform" => pure .transform
  | p => throw s!"bad paradigm {p}"

def parseOpt (j : Json) : JE Opt := do
  let paths ← (← J.arr j "paths").mapM (fun p => do (← J.asArr p).mapM J.asStr)
  pure { ty := (← J.nat j "ty"), vals := (← J.natList j "vals"),
         handlers := (← J.natList j "handlers"), paths := paths }

def errName : Err → String
  | .emptyPath => "emptyPath"
  | .unknownNode => "unknownNode"
  | .subPathOfComponent => "subPath"
  | .wrongType => "wrongType"

def entryJson (e : Entry) : Json :=
  Json.mkObj [("path", J.mkStrs e.path), ("g", Json.bool e.isGraph),
              ("vals", J.mkNats e.vals), ("hs", J.mkNats e.handlers)]

def resultJson : Except RunErr (List Entry) → Json
  | .error (at_, e) => Json.mkObj [("err", Json.mkObj [("at", J.mkStrs at_), ("class", Json.str (errName e))]),
                                   ("entries", J.mkArr [])]
  | .ok es => Json.mkObj [("err", Json.null), ("entries", J.mkArr (es.map entryJson))]

def optJson (o : Opt) : Json :=
  Json.mkObj [("ty", (o.ty : Json)), ("vals", J.mkNats o.vals), ("handlers", J.mkNats o.handlers),
              ("paths", J.mkArr (o.paths.map J.mkStrs))]

/-- "ask": "" (an ordinary call) | "interrupt" (with "at": the path of the node that interrupts on
    its first execution in this call) | "resume" (the call carries the checkpoint id of the last
    "interrupt" call before it) -/
def parseAsk (j : Json) : JE Ask := do
  match J.strD j "ask" "" with
  | "" => pure .plain
  | "interrupt" => pure (.interruptAt (← (J.arrD j "at").mapM J.asStr))
  | "resume" => pure .resume
  | a => throw s!"bad ask {a}"

def parseCall (j : Json) : JE CallP := do
  pure { g := (← parseNodes (← J.arr j "g")), ixs := (← J.natList j "ixs"),
         par := (← parseParadigm (J.strD j "paradigm" "")), ask := (← parseAsk j) }

/-- {"op":"base","ty":n,"vals":[…],"handlers":[…]} | {"op":"designate","src":i,"paths":[[…]…]} -/
def parseBuildOp (j : Json) : JE (BuildOp × Option Opt) := do
  match (← J.str j "op") with
  | "base" => pure (.base, some { ty := (← J.nat j "ty"), vals := (← J.natList j "vals"),
                                  handlers := (← J.natList j "handlers"), paths := [] })
  | "designate" => do
    let paths ← (← J.arr j "paths").mapM (fun p => do (← J.asArr p).mapM J.asStr)
    pure (.designate (← J.nat j "src") paths, none)
  | k => throw s!"bad build op {k}"

/-- the Option values a construction sequence yields: attributes of the base each one derives
    from, designated paths by the slice model (`builtPaths`) -/
def builtStore (ops : List (BuildOp × Option Opt)) : List Opt :=
  let attrs := ops.foldl (fun (acc : List Opt) (x : BuildOp × Option Opt) =>
    match x with
    | (_, some a) => acc ++ [a]
    | (.designate src _, none) => acc ++ [(acc[src]?).getD default]
    | (.base, none) => acc ++ [default]) []
  let paths := builtPaths Expected.C16.facts.designateCopies goGrow (ops.map (·.1))
  (attrs.zip paths).map (fun (a, p) => { a with paths := p })

/-- how the caller's store comes about, for the slice-level run: an Option built in one step owns
    a value array with `spare` unused cells behind the values ("spare", default 0); an Option
    derived with `DesignateNode…` shares the array of the Option it derives from -/
def storeOps (c : Json) : JE (List StoreOp) := do
  match c.getObjVal? "build" with
  | .ok (.arr ops) => do
    let parsed ← ops.toList.mapM parseBuildOp
    let spares := ops.toList.map (fun j => J.natD j "spare" 0)
    let st := builtStore parsed
    pure (((parsed.zip spares).zip st).map (fun x =>
      match x with
      | (((.designate src _, _), _), o) => StoreOp.derived src o.paths
      | (((.base, _), sp), o) => StoreOp.fresh o.ty o.vals sp o.handlers o.paths))
  | _ => do
    let js ← J.arr c "store"
    let os ← js.mapM parseOpt
    pure ((js.zip os).map (fun (j, o) => StoreOp.fresh o.ty o.vals (J.natD j "spare" 0) o.handlers o.paths))

/-- case: {"store":[opt…] | "build":[op…], "calls":[{"g":[node…],"ixs":[i…],"paradigm":s,"ask":s,"at":[…]}…]}  →
    {"results":[{"err":…,"entries":[…]}…], "store":[opt…], "arrays":[[cell…]…]}
    (`arrays`: per Option of the store, the cells `[0, cap)` of its value array after the calls) -/
def handle (c : Json) : JE Json := do
  let ops ← storeOps c
  let calls ← (← J.arr c "calls").mapM parseCall
  let b := buildStore ops (VHeap.empty, [])
  let r := runCallsSW Expected.C16.facts Expected.C16.keyFacts Expected.C16.resumeFacts Expected.C16.sliceFacts
    goGrowAny none b.1 b.2 calls
  pure <| Json.mkObj [("results", J.mkArr (r.1.map resultJson)),
                      ("store", J.mkArr (r.2.1.map (fun o => optJson (o.abs r.2.2)))),
                      ("arrays", J.mkArr (b.2.map (fun o => J.mkNats (r.2.2.cells o.vh))))]

end EinoV.Oracle.C16
