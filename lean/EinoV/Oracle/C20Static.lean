/- oracle_C20, stream "static": Workflows with static values, calls through retained node handles
   after Compile, runs of every runnable made so far (Model/C20Static.lean). -/
import EinoV.Basic.JsonUtil
import EinoV.Model.C20Static
import EinoV.Expected.C20Static

namespace EinoV.Oracle.C20Static
open Lean EinoV EinoV.Build.SV

def parseMp (j : Json) : JE Mp := do
  let t ← J.str j "t"
  match J.strD j "f" "" with
  | "" => pure (.to t)
  | f => pure (.field f t)

def parseIn (j : Json) : JE SIn := do
  pure { src := (← J.str j "from"), maps := (← (J.arrD j "maps").mapM parseMp) }

structure NodeDecl where
  key : String
  ins : List SIn
  deps : List String

def parseNode (j : Json) : JE NodeDecl := do
  pure { key := (← J.str j "key"), ins := (← (J.arrD j "ins").mapM parseIn),
         deps := (← (J.arrD j "deps").mapM J.asStr) }

def parseOp (j : Json) : JE SOp := do
  match (← J.str j "op") with
  | "set" => pure (.set (← J.str j "node") (← J.str j "path") (← J.str j "val"))
  | "input" => pure (.input (← J.str j "node") (← parseIn (← J.field j "in")))
  | "compile" => pure .compile
  | "run" => pure (.run (← J.nat j "r"))
  | o => throw s!"static: unknown op {o}"

/-- the run input: `[{"k":…,"v":…}…]`, a `map[string]any` with string values -/
def parseInput (js : List Json) : JE KVs := do
  let mut acc := KVs.nil
  for j in js do
    acc := acc.set (← J.str j "k") (.str (← J.str j "v"))
  pure acc

mutual
partial def vJson : V → Json
  | .str s => .str s
  | .obj kvs => Json.mkObj (kvsJson kvs)
partial def kvsJson : KVs → List (String × Json)
  | .nil => []
  | .cons k v r => (k, vJson v) :: kvsJson r
end

def outJson : SOut → Json
  | .ok => .str "ok"
  | .compiled => .str "compiled"
  | .error => .str "error"
  | .noRunner => .str "none"
  | .ran none => .str "run-error"
  | .ran (some o) => Json.mkObj [("out", Json.mkObj (kvsJson o))]

/-- the shapes of this family: the underlying graph is well formed whatever the static values
    are (every node is triggered, its result is read, END is fed, predecessors are declared
    earlier), so that only the trie of mapped paths can make a Compile fail -/
def checkShape (nodes : List NodeDecl) (ops : List SOp) : JE Unit := do
  let keys := nodes.map (·.key)
  if keys.eraseDups.length != keys.length then throw "static: duplicate node key"
  if keys.contains "start" then throw "static: reserved node key"
  if keys.getLast? != some "end" then throw "static: END must be declared last"
  if (keys.dropLast).contains "end" then throw "static: END declared twice"
  let mut seen : List String := ["start"]
  for n in nodes do
    let srcs := n.ins.map (·.src) ++ n.deps
    if srcs.isEmpty then throw s!"static: node {n.key} has no predecessor"
    if srcs.eraseDups.length != srcs.length then throw s!"static: node {n.key} names a predecessor twice"
    for s in srcs do
      if !seen.contains s then throw s!"static: node {n.key} takes from {s}, which is not declared earlier"
    seen := seen ++ [n.key]
  for n in nodes do
    if n.key != "end" && !(nodes.any (fun m => m.ins.any (fun i => i.src == n.key))) then
      throw s!"static: nobody reads node {n.key}"
  match nodes.getLast? with
  | some e => if e.ins.isEmpty then throw "static: END has no input"
  | none => throw "static: no nodes"
  -- late inputs: from START or an earlier node that is not a predecessor yet
  let mut srcsOf : List (String × List String) := nodes.map (fun n => (n.key, n.ins.map (·.src) ++ n.deps))
  for op in ops do
    match op with
    | .input k i =>
      match srcsOf.find? (fun p => p.1 == k) with
      | none => throw s!"static: late input on unknown node {k}"
      | some (_, ss) =>
        if ss.contains i.src then throw s!"static: late input repeats a predecessor of {k}"
        let before := keys.takeWhile (· != k)
        if i.src != "start" && !before.contains i.src then throw s!"static: late input of {k} from a later node"
        srcsOf := srcsOf.map (fun p => if p.1 == k then (p.1, p.2 ++ [i.src]) else p)
    | .set k _ _ => if !keys.contains k then throw s!"static: SetStaticValue on unknown node {k}"
    | _ => pure ()

def sfactsOf (c : Json) : SFacts :=
  match c.getObjVal? "sfacts" with
  | .ok k => { copies := J.boolD k "copies" Expected.C20.sfacts.copies,
               guarded := J.boolD k "guarded" Expected.C20.sfacts.guarded }
  | .error _ => Expected.C20.sfacts

/-- case: {"stream":"static","nodes":[{key, ins:[{from, maps:[{f?,t}]}], deps:[…]}…, END last],
    "input":[{k,v}…], "ops":[set|input|compile|run…]}.  Answer: one entry per call – "ok" (a call
    without result), "compiled" | "error" (Compile), {"out":{…}} | "run-error" | "none" (a run of
    the r-th runnable). -/
def handle (c : Json) : JE Json := do
  let nodes ← (← J.arr c "nodes").mapM parseNode
  let ops ← (← J.arr c "ops").mapM parseOp
  let inp ← parseInput (← J.arr c "input")
  checkShape nodes ops
  let F := sfactsOf c
  let w0 := SW.new (nodes.map (fun n => (n.key, n.ins)))
  let (_, outs) := runOps F inp (w0, []) ops
  pure <| Json.mkObj [("out", J.mkArr (outs.map outJson)), ("static", Json.bool true)]

end EinoV.Oracle.C20Static
