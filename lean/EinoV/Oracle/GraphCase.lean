/-
  The graph case language shared by the engine properties (C01, C02, C04, C05, C06 …):
  JSON case → `GraphDef FlatMap` (node bodies interpreted), and rendering of outcomes.
  Interpreter glue only: the theorems quantify over arbitrary runners and node functions.
-/
import EinoV.Basic.JsonUtil
import EinoV.Model.FlatMap
import EinoV.Model.GraphBuild

namespace EinoV.Oracle.GraphCase
open Lean EinoV EinoV.Engine

def flatOps : ValOps FlatMap := { merge := FlatMap.merge, zero := [] }

def defaultStepSlack : Nat := 10

/-- body "tag": the node's output is {key: hex(fnv32(render input))} -/
def tagBody (key : Key) (inp : FlatMap) : FlatMap := [(key, hex32 (fnv32 (FlatMap.render inp ++ "#" ++ key)))]

def pick (table : List (List Key)) (v : FlatMap) : List Key :=
  if table.isEmpty then [] else table.getD ((fnv32 (FlatMap.render v)).toNat % table.length) []

/-- prefix-reading (stream) branches decide on the key set of the first chunk, which is the
    same for every chunk of a single-key producer (so the choice is chunking-invariant) -/
def pickKeys (table : List (List Key)) (v : FlatMap) : List Key :=
  if table.isEmpty then [] else
  table.getD ((fnv32 (v.foldl (fun s kv => s ++ kv.1 ++ ",") "")).toNat % table.length) []

/-- completion-order rules probed by the oracle (the same rule is applied at every nesting
    level): 0 = submission order, 1 = reverse, then rotations, "i-th last", "i-th first" -/
def ruleSched {V} (width rule : Nat) : Sched V := fun _ l =>
  if rule == 0 then l
  else if rule == 1 then l.reverse
  else
    let i := (rule - 2) % (width + 1)
    match (rule - 2) / (width + 1) with
    | 0 => (l.drop i) ++ (l.take i)
    | 1 => (l.eraseIdx i) ++ (l.drop i).take 1
    | _ => (l.drop i).take 1 ++ (l.eraseIdx i)

def numRules (width : Nat) : Nat := 2 + 3 * (width + 1)

mutual
partial def parseBodyR (rule : Nat) (key : Key) (j : Json) : JE (FlatMap → Except Err FlatMap) := do
  match (← J.str j "op") with
  | "tag" => pure (fun v => .ok (tagBody key v))
  | "pass" => pure (fun v => .ok v)
  | "fail" => do let id ← J.nat j "id"; pure (fun _ => .error { cls := .user id })
  | "graph" => do
      let gj ← J.field j "g"
      let g ← parseGraphR rule gj
      let r := compile defaultStepSlack g
      -- an explicit step limit below 1 is refused when the run starts ("max run steps limit
      -- must be at least 1"), reported by the harness as user error 9996
      if J.boolD gj "negMaxSteps" false && !g.dag then pure (fun _ => .error { cls := .user 9996 })
      else pure (fun v => (runS flatOps r (ruleSched 8 rule) v).result)
  | op => throw s!"bad body op {op}"

partial def parseGraphR (rule : Nat) (j : Json) : JE (GraphDef FlatMap) := do
  let mode := J.strD j "mode" "pregel"
  let nodes ← (← J.arr j "nodes").mapM (fun n => do
    let k ← J.str n "key"
    let b ← parseBodyR rule k (← J.field n "body")
    pure (k, b))
  let edges ← (J.arrD j "edges").mapM (fun e => do
    match e with
    | .arr #[.str a, .str b] => pure (a, b)
    | _ => throw "bad edge")
  let branches ← (J.arrD j "branches").mapM (fun b => do
    let from_ ← J.str b "from"
    let ends ← J.strList b "ends"
    let table ← (← J.arr b "table").mapM (fun row => do (← J.asArr row).mapM J.asStr)
    let failId := (b.getObjVal? "fail").toOption.bind (fun x => x.getNat?.toOption)
    let cond : FlatMap → Except Err (List Key) := fun v =>
      match failId with
      | some id => .error { cls := .branchUser id }
      | none => .ok (if J.boolD b "stream" false then pickKeys table v else pick table v)
    pure (from_, ({ ends := ends, cond := cond } : Branch FlatMap)))
  pure { dag := mode == "dag", eager := false, maxSteps := J.natD j "maxSteps" 0,
         nodes := nodes, edges := edges, branches := branches }
end

/-- submission-order variants (rule 0) under the original names -/
def parseGraph (j : Json) : JE (GraphDef FlatMap) := parseGraphR 0 j
def parseBody (key : Key) (j : Json) : JE (FlatMap → Except Err FlatMap) := parseBodyR 0 key j

def errClassJson : ErrClass → Json
  | .user id => Json.mkObj [("c", "user"), ("id", id)]
  | .branchUser id => Json.mkObj [("c", "branch"), ("id", id)]
  | .merge => Json.mkObj [("c", "merge")]
  | .maxSteps => Json.mkObj [("c", "maxSteps")]
  | .noTasks => Json.mkObj [("c", "noTasks")]
  | .badBranchEnd => Json.mkObj [("c", "badBranchEnd")]
  | .endSkipped => Json.mkObj [("c", "endSkipped")]
  | .fuel => Json.mkObj [("c", "MODEL-FUEL")]

def resultJson : Except Err FlatMap → Json
  | .ok v => Json.mkObj [("ok", Json.str (FlatMap.render v))]
  | .error e => Json.mkObj [("err", errClassJson e.cls), ("path", J.mkStrs e.path)]

/-- sort a step's tasks by key for canonical output -/
def sortTasks (ts : List (Key × FlatMap)) : List (Key × FlatMap) :=
  ts.foldl (fun acc t =>
    let rec ins : List (Key × FlatMap) → List (Key × FlatMap)
      | [] => [t]
      | x :: xs => if t.1 < x.1 then t :: x :: xs else x :: ins xs
    ins acc) []

def traceJson (tr : Trace FlatMap) : Json :=
  J.mkArr (tr.map fun step => J.mkArr ((sortTasks step).map fun t =>
    J.mkArr [Json.str t.1, Json.str (FlatMap.render t.2)]))

end EinoV.Oracle.GraphCase

namespace EinoV.Oracle.GraphCase
open Lean EinoV EinoV.Engine

/-- the case of the nested graph run by node `k` of case `j`, if `k` is a graph node -/
def subCaseOf (j : Json) (k : Key) : Option Json :=
  (J.arrD j "nodes").findSome? (fun n =>
    if J.strD n "key" "" == k then
      match n.getObjVal? "body" with
      | .ok b => if J.strD b "op" "" == "graph" then (b.getObjVal? "g").toOption else none
      | .error _ => none
    else none)

/-- **Every error the run of case `j` on `input` may report** (empty iff the run succeeds).
    Which failure a run reports depends on the order in which the tasks of the failing step
    complete — at every nesting level independently: the failing step's tasks are probed under
    a family of completion schedules at this level, and a failure attributed to a nested graph
    node is replaced by every failure that nested run may report on the input it received. -/
partial def errAlts (j : Json) (input : FlatMap) : JE (List Err) := do
  let g ← parseGraphR 0 j
  let r := compile defaultStepSlack g
  if J.boolD j "negMaxSteps" false && !g.dag then return [{ cls := .user 9996 }]
  let out := run flatOps r input
  match out.result with
  | .ok _ => pure []
  | .error e0 =>
    let last : List (Key × FlatMap) := out.trace.getLast?.getD []
    let rs ← (List.range (numRules 8)).mapM (fun rule => do
      let g' ← parseGraphR rule j
      let r' := compile defaultStepSlack g'
      pure (runS flatOps r' (ruleSched 8 rule) input).result)
    let errs := (e0 :: rs.filterMap (fun x => match x with | .error e => some e | .ok _ => none))
    let expanded ← errs.mapM (fun e =>
      match e.path with
      | k :: _ =>
        match subCaseOf j k, alookup k last with
        | some sg, some tin => do
            let sub ← errAlts sg tin
            if sub.isEmpty then pure [e] else pure (sub.map (·.wrapNode k))
        | _, _ => pure [e]
      | [] => pure [e])
    pure expanded.flatten.eraseDups

/-- Run the graph of case `j` on `input`; output {"result":…, "trace":[[{"k":key,"in":…,"sub":…}]]}
    where "sub" is the nested outcome of a graph node run on that task's input. -/
partial def outcomeJson (j : Json) (input : FlatMap) : JE Json := do
  let g ← parseGraphR 0 j
  let r := compile defaultStepSlack g
  if J.boolD j "negMaxSteps" false && !g.dag then
    return Json.mkObj [("result", resultJson (.error { cls := .user 9996 })), ("trace", J.mkArr []), ("alts", J.mkArr [])]
  let out := run flatOps r input
  let subOf (k : Key) : Option Json := subCaseOf j k
  let steps ← out.trace.mapM (fun step => do
    let ts ← (sortTasks step).mapM (fun t => do
      let base := [("k", Json.str t.1), ("in", Json.str (FlatMap.render t.2))]
      match subOf t.1 with
      | some sg => do
        let so ← outcomeJson sg t.2
        pure (Json.mkObj (base ++ [("sub", so)]))
      | none => pure (Json.mkObj base))
    pure (J.mkArr ts))
  -- which failure a run reports can depend on the order in which the tasks of the failing
  -- step complete (at every nesting level): every reachable result is legitimate
  let alts : List Json := (← errAlts j input).map (fun e => resultJson (.error e))
  pure (Json.mkObj [("result", resultJson out.result), ("trace", J.mkArr steps), ("alts", J.mkArr alts)])

end EinoV.Oracle.GraphCase
