/-
  Oracle for the rerun family of C02 (one compiled runnable called several times in sequence;
  reached through `Oracle/C02.lean`'s `handleKind "rerun"`).

  case: {"kind":"rerun", "w": workflow case (see Oracle/C02Workflow.lean), "scheds":[…], "inputs":[x₁,…,xₙ]}
     or {"kind":"rerun", "g": graph case, "inputs":[x₁,…,xₙ]}
  answer: {"runs":[a₁,…,aₙ],      -- aₖ: the answer of the single-run oracle on input xₖ ALONE
           "session":[result …]}  -- the results of the session model (`sessionEager` / `sessionS`
                                  --  with the expected fact, the deps-only clean-up as `recycle`,
                                  --  schedule "first" / submission order): by `runs_are_independent`
                                  --  equal to the results of a₁ … aₙ; the harness checks it.
-/
import EinoV.Basic.JsonUtil
import EinoV.Model.C02Rerun
import EinoV.Expected.C02
import EinoV.Oracle.GraphCase
import EinoV.Oracle.C02Workflow

namespace EinoV.Oracle.C02Rerun
open Lean EinoV EinoV.Engine EinoV.Oracle.GraphCase

def handle (c : Json) : JE Json := do
  let inputs ← J.strList c "inputs"
  match c.getObjVal? "w" with
  | .ok wj =>
    let w ← C02Workflow.parseWorkflow wj
    let r := compileW flatOps w
    let runs ← inputs.mapM (fun x => C02Workflow.handle ((c.setObjVal! "kind" (Json.str "workflow")).setObjVal! "input" (Json.str x)))
    let ses := sessionEager Expected.C02.runBuildsFreshChannels recycleDepsOnly flatOps r none
      (inputs.map (fun x => (C02Workflow.pickOf r "first", ([("in", x)] : FlatMap))))
    pure (Json.mkObj [("runs", J.mkArr runs), ("session", J.mkArr (ses.map (fun o => resultJson o.result)))])
  | .error _ =>
    let g ← J.field c "g"
    let gd ← parseGraph g
    let r := compile defaultStepSlack gd
    let runs ← inputs.mapM (fun x => outcomeJson g [("in", x)])
    let ses := sessionS Expected.C02.runBuildsFreshChannels recycleDepsOnly flatOps r none
      (inputs.map (fun x => ((Sched.id : Sched FlatMap), ([("in", x)] : FlatMap))))
    pure (Json.mkObj [("runs", J.mkArr runs), ("session", J.mkArr (ses.map (fun o => resultJson o.result)))])

end EinoV.Oracle.C02Rerun
