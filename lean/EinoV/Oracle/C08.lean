/-
  C08 oracle.  One case = a trace of operations with what the implementation returned:

    {"ops":[ {"k":"pipe","cap":2} | {"k":"arr","items":[..]} | {"k":"conv","r":id,"add":..,"sm":..,"sr":..,"em":..,"er":..}
           | {"k":"copy","r":id,"n":3} | {"k":"merge","rs":[ids]}
           | {"k":"send","p":id,"c":chunk,"e":err,"closed":bool} | {"k":"feed","p":id,"its":[[c,e],..]}
           | {"k":"closeSend","p":id} | {"k":"recv","r":id,"eof":bool,"c":..,"e":..} | {"k":"close","r":id} ]}

  Answer: {"ok":true,"created":[ids made by the last op],
           "readers":[[id, recvEnabled, selectBelow, kind, listed]], "writers":[[id, sendCode, drainable, drainBound, cap]]}
           (listed = for a copy: the number of items that wait for it in the shared list of its Copy cell,
            read there by a sibling and not yet by this copy; 0 for every other kind of reader)
       or {"ok":false,"at":index,"why":"mismatch:…"|"bad-op:…","allowed":[…]}.
-/
import EinoV.Basic.JsonUtil
import EinoV.Model.C08Net
import EinoV.Model.C08Late
import EinoV.Expected.C08

namespace EinoV.Oracle.C08
open Lean EinoV EinoV.C08

def fuel : Nat := 4000

def parseItemPair (j : Json) : JE Item := do
  match (← J.asArr j) with
  | [c, e] => pure ⟨← J.asNat c, ← J.asNat e⟩
  | _ => throw "item: not a pair"

def parseOp (j : Json) : JE Op := do
  match (← J.str j "k") with
  | "pipe" => pure (.pipe (J.natD j "cap" 0))
  | "arr" => do pure (.arr (← (J.arrD j "items").mapM J.asNat))
  | "conv" => pure (.conv (J.natD j "r" 0)
      ⟨J.natD j "add" 0, J.natD j "sm" 0, J.natD j "sr" 0, J.natD j "em" 0, J.natD j "er" 0⟩)
  | "copy" => pure (.copy (J.natD j "r" 0) (J.natD j "n" 0))
  | "merge" => do pure (.merge (← (J.arrD j "rs").mapM J.asNat))
  | "send" => pure (.send (J.natD j "p" 0) ⟨J.natD j "c" 0, J.natD j "e" 0⟩ (J.boolD j "closed" false))
  | "feed" => do pure (.feed (J.natD j "p" 0) (← (J.arrD j "its").mapM parseItemPair))
  | "closeSend" => pure (.closeSend (J.natD j "p" 0))
  | "recv" =>
    if J.boolD j "eof" false then pure (.recv (J.natD j "r" 0) .eof)
    else pure (.recv (J.natD j "r" 0) (.item ⟨J.natD j "c" 0, J.natD j "e" 0⟩))
  | "close" => pure (.close (J.natD j "r" 0))
  | k => throw s!"bad op kind {k}"

def resJson : Res → Json
  | .eof => Json.str "eof"
  | .item i => J.mkNats [i.chunk, i.err]

def kindCode (net : Net) (id : Nat) : Nat :=
  match net.nodes[id]? with
  | some (.pipe _) => 0
  | some (.arr _) => 1
  | some (.conv _ _) => 2
  | some (.child _ _) => 3
  | some (.merge _ _) => 4
  | _ => 9

def b2n (b : Bool) : Nat := if b then 1 else 0

/-- items that wait for copy `id` in the shared list of its cell (`EinoV.C08.listedFor`, Model/C08Late.lean) -/
def listed (net : Net) (id : Nat) : Nat :=
  match net.nodes[id]? with
  | some (.child par idx) =>
    match net.nodes[par]? with
    | some (.parent _ core) => listedFor core idx
    | _ => 0
  | _ => 0

/-- combine the answers of the candidate states conservatively -/
def combineSend (cs : List Nat) : Nat :=
  match cs with
  | [] => 0
  | c :: rest => if rest.all (· == c) then c else if cs.contains 0 then 0 else 3

def stateJson (F : Facts) (nets : List Net) (created : List Nat) : Json :=
  match nets with
  | [] => Json.mkObj [("ok", Json.bool false), ("at", (0 : Nat)), ("why", Json.str "model-error: no state")]
  | net :: _ =>
  let readers := net.readers.map fun r =>
    J.mkNats [r, b2n (nets.all fun n => !(recvAll F fuel n r).isEmpty), b2n (hasMerge fuel net r), kindCode net r, listed net r]
  let writers := net.writers.filterMap fun p =>
    match getPipe net p with
    | some x =>
      if x.sendClosed then none else
      let dbs := nets.map fun n => drainBound F fuel n p
      let drainable := dbs.all (·.isSome)
      let bound := dbs.foldl (fun m d => max m (d.getD 0)) 0
      some (J.mkNats [p, combineSend (nets.map fun n => sendCode F fuel n p), b2n drainable, bound, x.cap])
    | none => none
  Json.mkObj [("ok", Json.bool true), ("created", J.mkNats created), ("states", (nets.length : Nat)),
              ("readers", J.mkArr readers), ("writers", J.mkArr writers)]

def handle (c : Json) : JE Json := do
  let ops ← (← J.arr c "ops").mapM parseOp
  let F := Expected.C08.facts
  match runOps F fuel [{}] 0 ops with
  | .ok (nets, created) => pure (stateJson F nets created)
  | .error (i, why) =>
    -- for a recv mismatch, say what the model would have allowed
    let allowed : List Json :=
      match runOps F fuel [{}] 0 (ops.take i), ops[i]? with
      | .ok (nets, _), some (.recv r _) => (nets.flatMap fun net => recvAll F fuel net r).map fun o => resJson o.1
      | _, _ => []
    pure <| Json.mkObj [("ok", Json.bool false), ("at", (i : Nat)), ("why", Json.str why),
                        ("allowed", J.mkArr allowed.eraseDups)]

end EinoV.Oracle.C08
