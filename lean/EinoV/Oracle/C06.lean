import EinoV.Oracle.C05GraphCase
import EinoV.Oracle.C05Eager
import EinoV.Oracle.C06Fault

namespace EinoV.Oracle.C06
open Lean EinoV

/-- same case language and model run as C05 (the C06 harness compares the interrupt observables);
    kind "eager": the eager-workflow family shared with C05 (uninterrupted reference run);
    kind "fault": the graph cases under a checkpoint store that fails (Model/C06Fault.lean) -/
def handle (c : Json) : JE Json :=
  match c.getObjVal? "kind" with
  | .ok (.str "eager") => C05Eager.handle c
  | .ok (.str "fault") => C06Fault.handle c
  | _ => C05GraphCase.handle c

end EinoV.Oracle.C06
