import EinoV.Oracle.C05GraphCase

namespace EinoV.Oracle.C06
open Lean EinoV

/-- same case language and model run as C05 (the C06 harness compares the interrupt observables) -/
def handle (c : Json) : JE Json := C05GraphCase.handle c

end EinoV.Oracle.C06
