import EinoV.Oracle.C20Parse
import EinoV.Oracle.C20Decl
import EinoV.Expected.C20
import EinoV.Model.C07
import EinoV.Model.C07Types
import EinoV.Model.C07Wf

namespace EinoV.Oracle.C07
open Lean EinoV EinoV.Build EinoV.C07 EinoV.Oracle.C20Parse

def dynOf (s : String) : Nat := ((s.drop 1).toNat?).getD 0

def lookupD (l : List (String × Nat)) (k : String) : Nat :=
  match l.find? (·.1 == k) with
  | some p => p.2
  | none => 0

def runStr : RunRes → String
  | .ok => "ok"
  | .typeErr => "typeErr"
  | .panic => "panic"
  | .steps => "steps"
  | .stuck => "stuck"
  | .merge => "merge"
  | .badPick => "badPick"

def asgStr : Asg → String
  | .must => "must"
  | .may => "may"
  | .mustNot => "mustNot"

/-- query {"kind":"universe","names":[…],"impl":[…]}: the model's three tables over every
    ordered pair (a, b) of the listed types, row-major: `check` = eino's rule
    (checkAssignable a→b), `go` = Go's assignability (goAssignable menuUniv), `dyn` = does the
    assertion `v.(b)` succeed for a value of the concrete type a ("-" when a is an interface);
    and `named`: per listed type, is it a named type ("-" for interfaces). -/
def handleUniverse (c : Json) : JE Json := do
  let names ← J.strList c "names"
  let tys ← names.mapM parseTy
  let im ← parseImpl c
  let pairs := tys.flatMap fun a => tys.map fun b => (a, b)
  let dynS : Ty × Ty → String := fun p =>
    match p.1 with
    | .conc a => if dynOk im a p.2 then "y" else "n"
    | _ => "-"
  let namedS : Ty → String
    | .conc a => if (menuUniv a).named then "y" else "n"
    | _ => "-"
  pure <| Json.mkObj [
    ("check", J.mkStrs (pairs.map fun p => asgStr (checkAssignable im (some p.1) (some p.2)))),
    ("go", J.mkStrs (pairs.map fun p => if goAssignable menuUniv im p.1 p.2 then "y" else "n")),
    ("dyn", J.mkStrs (pairs.map dynS)),
    ("named", J.mkStrs (tys.map namedS))]

def wresStr : WRes → String
  | .ok => "ok"
  | .typeErr => "typeErr"
  | .panic => "panic"
  | .stuck => "stuck"
  | .endSkipped => "endSkipped"
  | .badPick => "badPick"
  | .merge => "merge"
  | .nilIn => "nilIn"
  | .steps => "steps"

/-- case {"stream":"wf", "inT", "outT", "impl", "nodes":[{key, pt | in, out, dyn, ins:[{from, kind,
    mapped}]}], "endIn":[…], "branches":[{s, t, ends, pick}], "runs":[…]}: a Workflow as its
    owner declares it.  Answer: what the first Compile says and, if it succeeds, for every
    START value the result of an Invoke and of a Stream run (with the flags "several tasks were
    in flight together" and "a node with field-mapped inputs was handed the zero value"). -/
def handleWf (c : Json) : JE Json := do
  let im ← parseImpl c
  let inT ← parseTy (← J.str c "inT")
  let outT ← parseTy (← J.str c "outT")
  let njs := J.arrD c "nodes"
  let nodes ← njs.mapM C20Decl.parseWfNode
  let endIns ← (J.arrD c "endIn").mapM C20Decl.parseIn
  let bjs := J.arrD c "branches"
  let branches ← bjs.mapM fun b => do
    pure ({ src := (← J.str b "s"), ty := (← parseTy (← J.str b "t")), ends := (← J.strList b "ends") } : WfBranch)
  let d : WfDecl := { inT, outT, stateTy := none, nodes, endIns, branches }
  let E : Env := { f := Expected.C20.facts, inCtl := Expected.C20.entryExitInControlBlock, im, ord := Ord.id }
  let co : COpts := { trigger := .unset, maxSteps := 0, getState := false }
  let (oc, wr) := wfCompile E Expected.C20.wfBranchEndsChecked d co
  let bodies : List (String × Nat) := njs.map fun j => (J.strD j "key" "", dynOf (J.strD j "dyn" "c0"))
  let picks : List String := bjs.map fun j => J.strD j "pick" ""
  let code : Code := { body := fun k _ => lookupD bodies k, pick := fun _ i _ => picks.getD i "" }
  let runsIn := (J.arrD c "runs").filterMap (fun j => match j with | .str s => some (dynOf s) | _ => none)
  let go (m : Mode) : List (WRes × Bool × Bool) :=
    match wr with
    | some w => runsIn.map fun d0 => wfRun m im w code (w.r.nodes.length + 3) d0
    | none => []
  pure <| Json.mkObj [
    ("compile", Json.str (outcomeStr oc)),
    ("kind", Json.str (kindStr oc)),
    ("invoke", J.mkStrs ((go .invoke).map fun r => wresStr r.1)),
    ("stream", J.mkStrs ((go .stream).map fun r => wresStr r.1)),
    ("parInvoke", J.mkArr ((go .invoke).map fun r => Json.bool r.2.1)),
    ("parStream", J.mkArr ((go .stream).map fun r => Json.bool r.2.1)),
    ("zmInvoke", J.mkArr ((go .invoke).map fun r => Json.bool r.2.2)),
    ("zmStream", J.mkArr ((go .stream).map fun r => Json.bool r.2.2))]

/-- case: the build case of C20 plus, per node op, "dyn" (dynamic type the lambda returns),
    per branch op "pick" (end node the condition returns), and "runs": the dynamic types of
    the START values.  Answer: outcome of every call and, if the last call is a successful
    Compile, the result class of every run of that runnable. -/
def handle (c : Json) : JE Json := do
  if J.strD c "kind" "" == "universe" then return (← handleUniverse c)
  if J.strD c "stream" "" == "wf" then return (← handleWf c)
  let cs ← parseCase c
  let f := Expected.C20.facts
  let (_, outs, rs) := run f cs.im Ord.id cs.b0 cs.ops
  let opsJ ← J.arr c "ops"
  let bodies : List (String × Nat) := opsJ.filterMap fun j =>
    if J.strD j "op" "" == "node" then some (J.strD j "key" "", dynOf (J.strD j "dyn" "c0")) else none
  let picks : List String := opsJ.filterMap fun j =>
    if J.strD j "op" "" == "branch" then some (J.strD j "pick" "") else none
  let code : Code := { body := fun k _ => lookupD bodies k, pick := fun _ i _ => picks.getD i "" }
  let runsIn := (J.arrD c "runs").filterMap (fun j => match j with | .str s => some (dynOf s) | _ => none)
  let lastOk := outs.getLast? == some Outcome.ok && (cs.ops.getLast?.map Op.isCompile) == some true
  let runs : List String :=
    match rs.getLast?, lastOk with
    | some r, true => runsIn.map fun d => runStr (runGraph cs.im r code (if r.maxSteps = 0 then r.nodes.length + 2 else r.maxSteps) d)
    | _, _ => []
  pure <| Json.mkObj [
    ("out", J.mkStrs (outs.map outcomeStr)),
    ("kinds", J.mkStrs (outs.map kindStr)),
    ("runs", J.mkStrs runs)]

end EinoV.Oracle.C07
