import EinoV.Oracle.C20Parse
import EinoV.Expected.C20
import EinoV.Model.C07
import EinoV.Model.C07Types

namespace EinoV.Oracle.C07
open Lean EinoV EinoV.Build EinoV.C07 EinoV.Oracle.C20Parse

def dynOf (s : String) : Nat := ((s.drop 1).toNat?).getD 0

def lookupD (l : List (String × Nat)) (k : String) : Nat :=
  match l.find? (·.1 == k) with
  | some p => p.2
  | none => 0

def runStr : RunRes → String
  | .ok => "ok"
  | .typeErr => "typeErr"
  | .panic => "panic"
  | .steps => "steps"
  | .stuck => "stuck"
  | .merge => "merge"
  | .badPick => "badPick"

def asgStr : Asg → String
  | .must => "must"
  | .may => "may"
  | .mustNot => "mustNot"

/-- query {"kind":"universe","names":[…],"impl":[…]}: the model's three tables over every
    ordered pair (a, b) of the listed types, row-major: `check` = eino's rule
    (checkAssignable a→b), `go` = Go's assignability (goAssignable menuUniv), `dyn` = does the
    assertion `v.(b)` succeed for a value of the concrete type a ("-" when a is an interface);
    and `named`: per listed type, is it a named type ("-" for interfaces). -/
def handleUniverse (c : Json) : JE Json := do
  let names ← J.strList c "names"
  let tys ← names.mapM parseTy
  let im ← parseImpl c
  let pairs := tys.flatMap fun a => tys.map fun b => (a, b)
  let dynS : Ty × Ty → String := fun p =>
    match p.1 with
    | .conc a => if dynOk im a p.2 then "y" else "n"
    | _ => "-"
  let namedS : Ty → String
    | .conc a => if (menuUniv a).named then "y" else "n"
    | _ => "-"
  pure <| Json.mkObj [
    ("check", J.mkStrs (pairs.map fun p => asgStr (checkAssignable im (some p.1) (some p.2)))),
    ("go", J.mkStrs (pairs.map fun p => if goAssignable menuUniv im p.1 p.2 then "y" else "n")),
    ("dyn", J.mkStrs (pairs.map dynS)),
    ("named", J.mkStrs (tys.map namedS))]

/-- case: the build case of C20 plus, per node op, "dyn" (dynamic type the lambda returns),
    per branch op "pick" (end node the condition returns), and "runs": the dynamic types of
    the START values.  Answer: outcome of every call and, if the last call is a successful
    Compile, the result class of every run of that runnable. -/
def handle (c : Json) : JE Json := do
  if J.strD c "kind" "" == "universe" then return (← handleUniverse c)
  let cs ← parseCase c
  let f := Expected.C20.facts
  let (_, outs, rs) := run f cs.im Ord.id cs.b0 cs.ops
  let opsJ ← J.arr c "ops"
  let bodies : List (String × Nat) := opsJ.filterMap fun j =>
    if J.strD j "op" "" == "node" then some (J.strD j "key" "", dynOf (J.strD j "dyn" "c0")) else none
  let picks : List String := opsJ.filterMap fun j =>
    if J.strD j "op" "" == "branch" then some (J.strD j "pick" "") else none
  let code : Code := { body := fun k _ => lookupD bodies k, pick := fun _ i _ => picks.getD i "" }
  let runsIn := (J.arrD c "runs").filterMap (fun j => match j with | .str s => some (dynOf s) | _ => none)
  let lastOk := outs.getLast? == some Outcome.ok && (cs.ops.getLast?.map Op.isCompile) == some true
  let runs : List String :=
    match rs.getLast?, lastOk with
    | some r, true => runsIn.map fun d => runStr (runGraph cs.im r code (if r.maxSteps = 0 then r.nodes.length + 2 else r.maxSteps) d)
    | _, _ => []
  pure <| Json.mkObj [
    ("out", J.mkStrs (outs.map outcomeStr)),
    ("kinds", J.mkStrs (outs.map kindStr)),
    ("runs", J.mkStrs runs)]

end EinoV.Oracle.C07
