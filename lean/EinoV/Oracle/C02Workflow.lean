import EinoV.Spec.WorkflowDefWF
/-
  Oracle for the Workflow case family of C02 (reached through `Oracle/C02.lean`'s
  `handleKind "workflow"`).

  case: {"kind":"workflow",
         "w": {"nodes":[{"key":k,"body":{"op":"tag"|"pass"|"fail","id":n},"static":"v"?}],
               "deps":[{"from":a,"to":b,"kind":"in"|"dep"|"data"}],
               "branches":[{"from":a,"ends":[…],"table":[[…]],"fail":n?}]},
         "input": "x", "scheds": ["first","last","rot1","h3","kmax","kmin", …]}

  answer: {"runs":[{"sched":s,"result":…,"batches":[[{"k":…,"in":…}]],"order":[…],
                    "abandoned":[…],"skipped":[…]} …],     -- one per requested schedule
           "alts":[result …]}                               -- the distinct results of the runs
  Interpreter glue only: the theorems quantify over arbitrary workflows, node functions and
  schedules.
-/
import EinoV.Basic.JsonUtil
import EinoV.Model.FlatMap
import EinoV.Model.C02Workflow
import EinoV.Oracle.GraphCase
import EinoV.Spec.DagWF
import EinoV.Spec.DagStatus

namespace EinoV.Oracle.C02Workflow
open Lean EinoV EinoV.Engine EinoV.Oracle.GraphCase

def parseDep (j : Json) : JE WDep := do
  let a ← J.str j "from"
  let b ← J.str j "to"
  match (← J.str j "kind") with
  | "in" => pure (WDep.input a b)
  | "dep" => pure (WDep.dependency a b)
  | "data" => pure (WDep.noDirect a b)
  | k => throw s!"bad dependency kind {k}"

def parseBodyW (key : Key) (j : Json) : JE (FlatMap → Except Err FlatMap) := do
  match (← J.str j "op") with
  | "tag" => pure (fun v => .ok (tagBody key v))
  | "pass" => pure (fun v => .ok v)
  | "fail" => do let id ← J.nat j "id"; pure (fun _ => .error { cls := .user id })
  | op => throw s!"bad body op {op}"

def parseWorkflow (j : Json) : JE (WorkflowDef FlatMap) := do
  let nodesJ ← J.arr j "nodes"
  let nodes ← nodesJ.mapM (fun n => do
    let k ← J.str n "key"
    let b ← parseBodyW k (← J.field n "body")
    pure (k, b))
  let statics := nodesJ.filterMap (fun n =>
    match n.getObjVal? "static", n.getObjVal? "key" with
    | .ok (.str s), .ok (.str k) => some (k, [("s_" ++ k, s)])
    | _, _ => none)
  let deps ← (J.arrD j "deps").mapM parseDep
  let branches ← (J.arrD j "branches").mapM (fun b => do
    let from_ ← J.str b "from"
    let ends ← J.strList b "ends"
    let table ← (← J.arr b "table").mapM (fun row => do (← J.asArr row).mapM J.asStr)
    let failId := (b.getObjVal? "fail").toOption.bind (fun x => x.getNat?.toOption)
    let cond : FlatMap → Except Err (List Key) := fun v =>
      match failId with
      | some id => .error { cls := .branchUser id }
      | none => .ok (pick table v)
    pure (from_, ({ ends := ends, cond := cond } : Branch FlatMap)))
  pure { nodes := nodes, deps := deps, branches := branches, statics := statics }

/-- index of the running task with the greatest (`max = true`) / smallest key -/
def extremeIdx (max : Bool) (l : List (Key × FlatMap)) : Nat :=
  let rec go (i best : Nat) (bk : Key) : List (Key × FlatMap) → Nat
    | [] => best
    | t :: rest =>
      if (if max then bk < t.1 else t.1 < bk) then go (i + 1) i t.1 rest else go (i + 1) best bk rest
  match l with
  | [] => 0
  | t :: rest => go 1 0 t.1 rest

/-- the completion of this task ends the run with an error (its body or one of its branch
    conditions fails) -/
def failsAtCompletion (r : Runner FlatMap) (t : Key × FlatMap) : Bool :=
  match (execOne r t).2 with
  | .error _ => true
  | .ok out =>
    match r.node? t.1 with
    | none => false
    | some n => match selectOf n out with | .error _ => true | .ok _ => false

/-- completion schedules by name -/
def pickOf (r : Runner FlatMap) (name : String) : Pick FlatMap :=
  if name == "first" then fun _ => 0
  else if name == "okfirst" then
    -- failures are collected as late as possible: the run executes the largest set of nodes
    fun l => (l.findIdx? (fun t => !failsAtCompletion r t)).getD 0
  else if name == "last" then fun l => l.length - 1
  else if name == "kmax" then extremeIdx true
  else if name == "kmin" then extremeIdx false
  else if name.startsWith "rot" then
    let k := ((name.drop 3).toString.toNat?).getD 1
    fun _ => k
  else
    fun l => (fnv32 (name ++ ":" ++ l.foldl (fun s t => s ++ t.1 ++ ",") "")).toNat

def taskJson (w : WorkflowDef FlatMap) (t : Key × FlatMap) : Json :=
  Json.mkObj [("k", Json.str t.1), ("in", Json.str (FlatMap.render (seenInput flatOps w.statics t.1 t.2)))]

def runJson (w : WorkflowDef FlatMap) (r : Runner FlatMap) (name : String) (input : FlatMap) : Json :=
  let o := runEager flatOps r (pickOf r name) input
  let sub := o.submitted.map (·.1)
  let skipped := (w.nodes.map (·.1)).filter (fun k => !sub.contains k)
  Json.mkObj [
    ("sched", Json.str name),
    ("result", resultJson o.result),
    ("batches", J.mkArr (o.batches.map fun b => J.mkArr ((sortTasks b).map (taskJson w)))),
    ("order", J.mkStrs o.completed),
    ("abandoned", J.mkStrs (o.abandoned.map (·.1))),
    ("skipped", J.mkStrs skipped)]

structure Explored where
  results : List String := []            -- compressed result JSON, distinct
  tasks : List (Key × String) := []      -- (node, rendered seen input) submitted in some schedule
  complete : Bool := true

def addNew {α} [BEq α] (l : List α) (x : α) : List α := if l.contains x then l else x :: l

/-- every completion schedule of the eager loop, depth first, with a budget of visited states
    (glue for the harness's free-running comparison: which failure a run reports, and which
    nodes it has started by then, depend on the completion order) -/
def exploreAll (w : WorkflowDef FlatMap) (r : Runner FlatMap) :
    Nat → List (Chans FlatMap × List (Key × FlatMap)) → Explored → Explored
  | _, [], acc => acc
  | 0, _ :: _, acc => { acc with complete := false }
  | budget + 1, (cm, running) :: todo, acc =>
    if running.isEmpty then
      exploreAll w r budget todo { acc with results := addNew acc.results (resultJson (.error { cls := .noTasks })).compress }
    else
      let step := (List.range running.length).foldl (fun (st : List (Chans FlatMap × List (Key × FlatMap)) × Explored) i =>
        match running[i]? with
        | none => st
        | some t =>
          let rest := running.eraseIdx i
          let addRes (res : Except Err FlatMap) : List (Chans FlatMap × List (Key × FlatMap)) × Explored :=
            (st.1, { st.2 with results := addNew st.2.results (resultJson res).compress })
          match collectOne (execOne r t) with
          | .error e => addRes (.error e)
          | .ok d =>
            match calcNext flatOps r cm [d] with
            | .error e => addRes (.error e)
            | .ok (_, .result v) => addRes (.ok v)
            | .ok (cm', .tasks ts) =>
              ((cm', rest ++ ts) :: st.1,
               { st.2 with tasks := ts.foldl (fun l t => addNew l (t.1, FlatMap.render (seenInput flatOps w.statics t.1 t.2))) st.2.tasks }))
        (todo, acc)
      exploreAll w r budget step.1 step.2

def handle (c : Json) : JE Json := do
  let w ← parseWorkflow (← J.field c "w")
  let x ← J.str c "input"
  let scheds ← J.strList c "scheds"
  let r := compileW flatOps w
  let input : FlatMap := [("in", x)]
  let runs := scheds.map (fun s => runJson w r s input)
  let probed := (runs.map (fun rj => (J.fieldD rj "result" Json.null).compress)).eraseDups
  let anyErr := runs.any (fun rj => ((J.fieldD rj "result" Json.null).getObjVal? "err").toOption.isSome)
  -- all schedules (only needed when some run fails: which failure is reported varies)
  let ex : Explored :=
    if !anyErr then { results := probed } else
    match calcNext flatOps r (initChans r) [(START, input)] with
    | .ok (cm, .tasks ts) =>
      exploreAll w r (J.natD c "explore" 20000) [(cm, ts)]
        { tasks := ts.map (fun t => (t.1, FlatMap.render (seenInput flatOps w.statics t.1 t.2))) }
    | _ => { results := probed }
  let alts := ((probed ++ ex.results).eraseDups).filterMap (fun t => (Json.parse t).toOption)
  pure (Json.mkObj [("runs", J.mkArr runs), ("alts", J.mkArr alts),
    ("altsComplete", Json.bool ex.complete),
    -- hypothesis of the run-level theorems (Props/C02.lean `workflow_at_most_once`)
    ("wf", Json.bool (Engine.DagRun.dagWFb r)),
    ("wf2", Json.bool (Engine.DagRun.dagWF2b r)),
    ("wf3", Json.bool (Engine.DagRun.dagWF3b r)),
    ("gwf", Json.bool (Engine.DagRun.workflowDefWFb flatOps w)),
    ("possible", J.mkArr (ex.tasks.map fun t => Json.mkObj [("k", Json.str t.1), ("in", Json.str t.2)]))])

end EinoV.Oracle.C02Workflow
