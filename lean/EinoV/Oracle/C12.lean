import EinoV.Basic.JsonUtil
import EinoV.Model.C12
import EinoV.Model.C12Reg
import EinoV.Expected.C12

namespace EinoV.Oracle.C12
open Lean EinoV EinoV.C12

/-- {"k":"basic","n":"int"} | {"k":"named","n":"pkg.T","u":"int"} | {"k":"struct","n":"pkg.S"}
    | {"k":"iface"} | {"k":"ptr","t":…} | {"k":"slice","t":…} | {"k":"map","key":…,"val":…} -/
partial def parseTy (j : Json) : JE GoTy := do
  match (← J.str j "k") with
  | "basic" => pure (.basic (← J.str j "n"))
  | "named" => pure (.named (← J.str j "n") (← J.str j "u"))
  | "struct" => pure (.struct (← J.str j "n"))
  | "iface" => pure .iface
  | "ptr" => do pure (.ptr (← parseTy (← J.field j "t")))
  | "slice" => do pure (.slice (← parseTy (← J.field j "t")))
  | "map" => do pure (.map (← parseTy (← J.field j "key")) (← parseTy (← J.field j "val")))
  | k => throw s!"bad type kind {k}"

mutual
/-- {"k":"basic","t":ty,"p":"json text"} | {"k":"inil"} | {"k":"nilptr","t":ty} | {"k":"ptr","a":id,"v":…}
    | {"k":"slice","t":ty,"nil":b,"vs":[…]} | {"k":"map","kt":ty,"vt":ty,"nil":b,"kvs":[[k,v]…]}
    | {"k":"struct","n":name,"fs":[[f,v]…]}
    `a` is the identity of the pointer (address and pointee type as the harness numbers them):
    the same `a` at two positions is one shared pointer.  The model works on the unfolding
    (`LVal.erase`); `a` is used for the `coherent` / `shared` answers only. -/
partial def parseVal (j : Json) : JE LVal := do
  match (← J.str j "k") with
  | "basic" => do pure (.basic (← parseTy (← J.field j "t")) (← J.str j "p"))
  | "inil" => pure .inil
  | "nilptr" => do pure (.nilptr (← parseTy (← J.field j "t")))
  | "ptr" => do pure (.ptr (J.natD j "a" 0) (← parseVal (← J.field j "v")))
  | "slice" => do
      pure (.slice (← parseTy (← J.field j "t")) (J.boolD j "nil" false) (← parseVals (J.arrD j "vs")))
  | "map" => do
      pure (.map (← parseTy (← J.field j "kt")) (← parseTy (← J.field j "vt")) (J.boolD j "nil" false)
              (← parseKVs (J.arrD j "kvs")))
  | "struct" => do pure (.struct (← J.str j "n") (← parseKVs (J.arrD j "fs")))
  | k => throw s!"bad value kind {k}"
partial def parseVals : List Json → JE LVals
  | [] => pure .nil
  | x :: xs => do pure (.cons (← parseVal x) (← parseVals xs))
partial def parseKVs : List Json → JE LKVs
  | [] => pure .nil
  | x :: xs => do
      match x with
      | .arr #[.str k, v] => pure (.cons k (← parseVal v) (← parseKVs xs))
      | _ => throw "bad kv entry"
end

/-- Go syntax of a type (what `reflect.Type.String()` prints) -/
def tyStr : GoTy → String
  | .basic k => k
  | .named n _ => n
  | .struct n => n
  | .iface => "interface {}"
  | .ptr t => "*" ++ tyStr t
  | .slice t => "[]" ++ tyStr t
  | .map k v => "map[" ++ tyStr k ++ "]" ++ tyStr v

mutual
/-- canonical, type-tagged rendering of a value (nil ≈ empty: no nil flags) -/
def renderVal : GoVal → Json
  | .basic t p => J.mkArr [.str "b", .str (tyStr t), .str p]
  | .inil => J.mkArr [.str "inil"]
  | .nilptr t => J.mkArr [.str "nilptr", .str (tyStr t)]
  | .ptr v => J.mkArr [.str "ptr", renderVal v]
  | .slice et _ vs => J.mkArr [.str "slice", .str (tyStr et), J.mkArr (renderVals vs)]
  | .map kt vt _ kvs => J.mkArr [.str "map", .str (tyStr kt), .str (tyStr vt), J.mkArr (renderKVs kvs)]
  | .struct n fs => J.mkArr [.str "struct", .str n, J.mkArr (renderKVs fs)]
def renderVals : GoVals → List Json
  | .nil => []
  | .cons v r => renderVal v :: renderVals r
def renderKVs : GoKVs → List Json
  | .nil => []
  | .cons k v r => J.mkArr [.str k, renderVal v] :: renderKVs r
end

mutual
/-- the intermediate tree as `sonic.Marshal` writes it (omitempty applied; JSONValue as text) -/
def renderIS : IS → Json
  | .absent => .null
  | .mk pn ne ty js st kpn kty vpn vty mvs spn sty svs =>
    let n (k : String) (v : Nat) : List (String × Json) := if v == 0 then [] else [(k, (v : Json))]
    let s (k : String) (v : String) : List (String × Json) := if v == "" then [] else [(k, .str v)]
    let m := renderISKVs mvs
    let l := renderISs svs
    Json.mkObj (n "PointerNum" pn ++ n "NilElemPointerNum" ne ++ s "Type" ty ++ s "JSONValue" js
      ++ s "StructType" st ++ n "MapKeyPointerNum" kpn ++ s "MapKeyType" kty
      ++ n "MapValuePointerNum" vpn ++ s "MapValueType" vty
      ++ (if m.isEmpty then [] else [("MapValues", Json.mkObj m)])
      ++ n "SliceValuePointerNum" spn ++ s "SliceValueType" sty
      ++ (if l.isEmpty then [] else [("SliceValues", J.mkArr l)]))
def renderISs : ISs → List Json
  | .nil => []
  | .cons i r => renderIS i :: renderISs r
def renderISKVs : ISKVs → List (String × Json)
  | .nil => []
  | .cons k i r => (k, renderIS i) :: renderISKVs r
end

mutual
/-- inverse of `renderIS` (for the malformed stream: the harness mutates real encoder
    output and sends the mutated tree) -/
partial def parseIS (j : Json) : JE IS := do
  match j with
  | .null => pure .absent
  | _ =>
    let mvs ← match j.getObjVal? "MapValues" with
      | .ok (.obj kvs) => parseISKVs (kvs.toList.map fun (k, v) => (k, v))
      | _ => pure .nil
    let svs ← parseISs (J.arrD j "SliceValues")
    pure (.mk (J.natD j "PointerNum" 0) (J.natD j "NilElemPointerNum" 0) (J.strD j "Type" "") (J.strD j "JSONValue" "")
      (J.strD j "StructType" "") (J.natD j "MapKeyPointerNum" 0) (J.strD j "MapKeyType" "")
      (J.natD j "MapValuePointerNum" 0) (J.strD j "MapValueType" "") mvs
      (J.natD j "SliceValuePointerNum" 0) (J.strD j "SliceValueType" "") svs)
partial def parseISs : List Json → JE ISs
  | [] => pure .nil
  | x :: xs => do pure (.cons (← parseIS x) (← parseISs xs))
partial def parseISKVs : List (String × Json) → JE ISKVs
  | [] => pure .nil
  | (k, v) :: xs => do pure (.cons k (← parseIS v) (← parseISKVs xs))
end

/-- the oracle's instance of the JSON layer: payloads are the JSON text itself; a payload
    starting with `!` stands for a value `json.Marshal` rejects (NaN, ±Inf, complex). -/
def J0 : JLayer where
  encode := fun _ p => if p.startsWith "!" then .error .json else .ok p
  decode := fun _ s => .ok s
  zero := fun t =>
    let k := match t with | .basic k => k | .named _ k => k | _ => ""
    if k == "string" then "\"\"" else if k == "bool" then "false" else "0"
  valid := fun _ p => !p.startsWith "!"

def parsePair (p : Json → JE α) (j : Json) : JE (String × α) := do
  match j with
  | .arr #[.str k, v] => pure (k, ← p v)
  | _ => throw "bad pair"

def errClass : Err → String
  | .unmodelled => "unmodelled"
  | .panic => "panic"
  | _ => "error"

def parseCtx (c : Json) : JE Ctx := do
  let userReg ← (J.arrD c "reg").mapM (parsePair parseTy)
  let kinds ← (J.arrD c "kinds").mapM (parsePair J.asStr)
  let structs ← (J.arrD c "structs").mapM (parsePair fun j => do (← J.asArr j).mapM (parsePair parseTy))
  pure { reg := Expected.C12.builtinReg (Expected.C12.registry ++ Expected.C12.composeRegistry) kinds ++ userReg
         structs := structs }

/-- the answer for one round trip of `lv` in the registry context `ctx` -/
def rtAnswer (ctx : Ctx) (lv : LVal) : Json :=
  let F := Expected.C12.facts
  let v := lv.erase
  let hdr : List (String × Json) :=
    [("ctxok", .bool ctx.ok), ("wt", .bool (v.wt ctx)), ("supported", .bool (Supported ctx J0 v)),
     ("regd", .bool (v.regd ctx)), ("coherent", .bool lv.coherent), ("shared", (lv.sharedCount : Json))]
  match marshalL ctx J0 F lv with
  | .error e => Json.mkObj (hdr ++ [("enc", Json.str (errClass e)), ("dec", Json.str "-")])
  | .ok i =>
    let hdr : List (String × Json) := hdr ++ [("enc", Json.str "ok"), ("is", renderIS i)]
    match unmarshalTop ctx J0 F i with
    | .error e => Json.mkObj (hdr ++ [("dec", Json.str (errClass e))])
    | .ok v' =>
      Json.mkObj (hdr ++ [("dec", Json.str "ok"), ("v", renderVal v'), ("ty", Json.str (tyStr v'.typeOf)),
        ("sim", Json.bool (decide (v' ≈ v))), ("sameType", Json.bool (v'.typeOf == v.typeOf))])

def outcomeStr : RegOutcome → String
  | .accepted => "accepted"
  | .emptyKey => "emptyKey"
  | .keyTaken => "keyTaken"
  | .typeTaken => "typeTaken"

/-- mode `registry`: the steps of one process, in order, run through the state machine
    `regStep` (with `Expected.C12.regFacts`) starting from eino's built-in registry plus the
    case's `reg`.
      {"op":"reg","key":k,"ty":T}   one call `GenericRegister[T](k)`
          → {"out":"accepted"|"emptyKey"|"keyTaken"|"typeTaken","samePair":b,"ctxok":b}
      {"op":"rt","v":value}         a round trip in the registry as it is now → the `rt` answer
      {"op":"wr","h":n,"v":value}   `Marshal` now, the bytes are kept under handle `n`
          → the `rt` answer (what reading them back at once gives)
      {"op":"rd","h":n}             `Unmarshal` of the bytes kept under `n`, in the registry as it
          is now → {"enc":class of the write,"dec":class,"v","ty","sim","sameType"} -/
def runSteps (ctx : Ctx) (saved : List (Nat × GoVal × Except Err IS)) : List Json → JE (List Json)
  | [] => pure []
  | s :: rest => do
    match (← J.str s "op") with
    | "reg" =>
      let op : RegOp := ⟨← J.str s "key", ← parseTy (← J.field s "ty")⟩
      let same := Reg.samePair ctx.reg op
      let (o, r') := regStep Expected.C12.regFacts ctx.reg op
      let ctx' : Ctx := { ctx with reg := r' }
      let a := Json.mkObj [("out", .str (outcomeStr o)), ("samePair", .bool same), ("ctxok", .bool ctx'.ok)]
      pure (a :: (← runSteps ctx' saved rest))
    | "rt" =>
      let lv ← parseVal (← J.field s "v")
      pure (rtAnswer ctx lv :: (← runSteps ctx saved rest))
    | "wr" =>
      let lv ← parseVal (← J.field s "v")
      let h := J.natD s "h" 0
      let e := marshalL ctx J0 Expected.C12.facts lv
      pure (rtAnswer ctx lv :: (← runSteps ctx ((h, lv.erase, e) :: saved) rest))
    | "rd" =>
      let h := J.natD s "h" 0
      let a : Json := match saved.find? (fun x => x.1 == h) with
        | none => Json.mkObj [("enc", .str "-"), ("dec", .str "-")]
        | some (_, _, .error e) => Json.mkObj [("ctxok", .bool ctx.ok), ("enc", .str (errClass e)), ("dec", .str "-")]
        | some (_, v, .ok i) =>
          match unmarshalTop ctx J0 Expected.C12.facts i with
          | .error e => Json.mkObj [("ctxok", .bool ctx.ok), ("enc", .str "ok"), ("dec", .str (errClass e))]
          | .ok v' => Json.mkObj [("ctxok", .bool ctx.ok), ("enc", .str "ok"), ("dec", .str "ok"), ("v", renderVal v'),
              ("ty", .str (tyStr v'.typeOf)), ("sim", .bool (decide (v' ≈ v))), ("sameType", .bool (v'.typeOf == v.typeOf))]
      pure (a :: (← runSteps ctx saved rest))
    | o => throw s!"bad step {o}"

/-- case: {"mode":"rt"|"dec"|"registry", "reg":…, "kinds":…, "structs":…, "v":value | "is":tree | "steps":[…]} -/
def handle (c : Json) : JE Json := do
  let ctx ← parseCtx c
  let F := Expected.C12.facts
  match J.strD c "mode" "rt" with
  | "dec" =>
    let i ← parseIS (← J.field c "is")
    match unmarshalTop ctx J0 F i with
    | .ok v' => pure <| Json.mkObj [("dec", Json.str "ok"), ("v", renderVal v'), ("ty", .str (tyStr v'.typeOf))]
    | .error e => pure <| Json.mkObj [("dec", .str (errClass e))]
  | "registry" =>
    let answers ← runSteps ctx [] (J.arrD c "steps")
    pure <| Json.mkObj [("ctxok0", .bool ctx.ok), ("steps", J.mkArr answers)]
  | _ =>
    let lv ← parseVal (← J.field c "v")
    pure (rtAnswer ctx lv)

end EinoV.Oracle.C12
