import EinoV.Oracle.C05GraphCase
import EinoV.Oracle.C05Eager

namespace EinoV.Oracle.C05
open Lean EinoV

/-- extra case families of this property, by the "kind" field of the case -/
def handleKind (kind : String) (c : Json) : JE Json :=
  match kind with
  | "eager" => C05Eager.handle c
  | _ => throw s!"unknown case kind {kind}"

/-- case: {"g": graph case (interrupt sets, state, rerun nodes), "input": "x", "maxCalls": n}
    (no "kind"), or a case of an extra family -/
def handle (c : Json) : JE Json :=
  match c.getObjVal? "kind" with
  | .ok (.str k) => handleKind k c
  | _ => C05GraphCase.handle c

end EinoV.Oracle.C05
