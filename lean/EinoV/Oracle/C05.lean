import EinoV.Oracle.C05GraphCase

namespace EinoV.Oracle.C05
open Lean EinoV

/-- case: {"g": graph case (interrupt sets, state, rerun nodes), "input": "x", "maxCalls": n} -/
def handle (c : Json) : JE Json := C05GraphCase.handle c

end EinoV.Oracle.C05
