import EinoV.Basic.JsonUtil
import EinoV.Oracle.C13

namespace EinoV.Oracle
open Lean EinoV

def dispatch (j : Json) : JE Json := do
  let p ← J.str j "p"
  let c ← J.field j "case"
  match p with
  | "C13" => C13.handle c
  | _ => throw s!"unknown property {p}"

end EinoV.Oracle
