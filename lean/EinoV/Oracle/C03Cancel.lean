import EinoV.Basic.JsonUtil
import EinoV.Model.C03Cancel

/-
  Oracle for the C03 family "cancel" (the run's context becomes done at a chosen position).

  {"kind":"cancel","nodes":[{"key","preds"}],"endPreds":[…],"input":s,"eager":b,
   "priority":[keys],"cancel":{"phase":"never|before|pre|body|post","node":key}}

  Answer (`cRun`, Model/C03Cancel.lean): the outcome (ok / cancelled / stuck), the release
  script (one line per completion: the node to release and what is in flight at that moment),
  the number of iterations of the run loop entered, what has been started / received /
  left in flight when the run returns, and the value of a run that returns one.
-/
namespace EinoV.Oracle.C03Cancel
open Lean EinoV EinoV.C03

def parseNode (j : Json) : JE GNode := do
  pure { key := (← J.str j "key"), preds := (← J.strList j "preds") }

def parseAt (j : Json) : JE CancelAt := do
  match (← J.str j "phase") with
  | "never" => pure .never
  | "before" => pure .before
  | "pre" => pure (.pre (← J.str j "node"))
  | "body" => pure (.body (← J.str j "node"))
  | "post" => pure (.post (← J.str j "node"))
  | p => throw s!"bad cancel phase {p}"

def handle (c : Json) : JE Json := do
  let nodes ← (← J.arr c "nodes").mapM parseNode
  let g : GCase := { nodes := nodes, endPreds := (← J.strList c "endPreds"), input := (← J.str c "input") }
  let cfg : CCfg := { g := g, eager := (← J.bool c "eager"), order := (← J.strList c "priority"),
                      at_ := (← parseAt (← J.field c "cancel")) }
  let r := cRun cfg
  let out := match r.out with
    | .ok => "ok"
    | .cancelled => "cancelled"
    | .stuck => "stuck"
  let result : List (Key × String) := if r.out == COut.ok then eResult g r.st else []
  pure <| Json.mkObj [
    ("out", Json.str out),
    ("steps", J.mkArr (r.steps.map fun st =>
      Json.mkObj [("release", Json.str st.release), ("inflight", J.mkStrs st.inflight)])),
    ("iters", (r.iters : Json)),
    ("started", J.mkStrs (r.st.started.filter (· != startKey))),
    ("collected", J.mkStrs (r.st.done.filter (· != startKey))),
    ("uncollected", J.mkStrs (iUncollected r.st)),
    ("result", J.mkArr (result.map fun p => J.mkStrs [p.1, p.2]))]

end EinoV.Oracle.C03Cancel
