/-
  C01 "share" case family: a program over a pool of builder objects (Model/C01Share.lean) in JSON →
  `Share.Prog` + operation sequence, run by `Share.exec` with the expected mechanism fact.
  Interpreter glue only: the theorems quantify over arbitrary stage functions and programs.

  case:   {"kind":"share","pool":[stage…],"chains":[{"stages":[sstage…]}…],"ops":[op…]}
  stage:  as in Oracle/C01Chain.lean (lambda | pass | par | br)
  sstage: {"ref":o}  pool object o | {"sub":j}  chain j (< own index) used as a node | stage
  op:     {"op":"build","chain":c} | {"op":"compile","chain":c} | {"op":"run","chain":c,"input":"x"}
  answer: {"outs":[{"k":"none"} | {"k":"compiled","accepted":b}
                   | {"k":"ran","result":R,"sem":R,"alts":[R…]} …]}   (one per op)
-/
import EinoV.Basic.JsonUtil
import EinoV.Model.C01Share
import EinoV.Oracle.C01Chain
import EinoV.Expected.C01

namespace EinoV.Oracle.C01Share
open Lean EinoV EinoV.Engine EinoV.Chain EinoV.Chain.Share EinoV.Oracle.C01Chain

def mech : Mech := { builderIntact := EinoV.Expected.C01.appendBranchLeavesBuilderIntact }

/-- glue per chain: the stages with their bodies' error alternatives (for `chainAlts`), and
    "every chain nested inside a body, and every chain used as a node, is well-formed" -/
structure GChain where
  ps : List PStage
  nestedOK : Bool

def parseSStage (pool : List (PStage × Bool)) (env : List GChain) (envR : List RChain) (j : Json) :
    JE (SStage × PStage × Bool) := do
  match j.getObjVal? "ref" with
  | .ok r => do
      let o ← J.asNat r
      match pool[o]? with
      | some (ps, ok) => pure (.shared o, ps, ok)
      | none => throw s!"dangling pool reference {o}"
  | .error _ =>
    match j.getObjVal? "sub" with
    | .ok r => do
        let k ← J.asNat r
        match env[k]?, envR[k]? with
        | some g, some rc =>
          pure (.sub k, .lambda { f := execT mech slack [] rc.stages, alts := chainAlts 0 g.ps },
                g.nestedOK && rc.accepted)
        | _, _ => throw s!"chain {k} used as a node before it is defined"
    | .error _ => do
        let (ps, ok) ← parseStage j
        pure (.own ps.stage, ps, ok)

def opJson : Json → JE (Op × String)
  | j => do
    let c ← J.nat j "chain"
    match (← J.str j "op") with
    | "build" => pure (.build c, "")
    | "compile" => pure (.compile c, "")
    | "run" => do
        let x ← J.str j "input"
        pure (.run c (.map [("in", .leaf x)]), x)
    | o => throw s!"bad op {o}"

def handle (c : Json) : JE Json := do
  let pool ← (← J.arr c "pool").mapM parseStage
  let poolStages : List Stage := pool.map (·.1.stage)
  -- chains in order; `sub j` refers to an earlier chain
  let mut chains : List (List SStage) := []
  let mut glue : List GChain := []
  let mut envR : List RChain := []
  for cj in (← J.arr c "chains") do
    let sts ← (← J.arr cj "stages").mapM (parseSStage pool glue envR)
    let ss := sts.map (·.1)
    chains := chains ++ [ss]
    glue := glue ++ [{ ps := sts.map (·.2.1), nestedOK := sts.all (·.2.2) }]
    envR := envR ++ [resolveChain mech slack [] poolStages envR ss]
  let prog : Prog := { pool := poolStages, chains := chains }
  let ops ← (← J.arr c "ops").mapM opJson
  let outs := exec mech slack prog {} (ops.map (·.1))
  let resolved := prog.resolved mech slack []
  let js := (ops.zip outs).map fun (op, out) =>
    match op.1, out with
    | .compile k, .compiled acc =>
      let nok := match glue[k]? with | some g => g.nestedOK | none => false
      Json.mkObj [("k", "compiled"), ("accepted", Json.bool (acc && nok))]
    | .run k x, .ran r =>
      let sem : Json := match resolved[k]? with
        | some rc => resultJson (rc.chain.sem x)
        | none => Json.null
      let alts : List Json := match r, glue[k]? with
        | .error _, some g => (((chainAlts 0 g.ps x).map (fun e => (resultJson (.error e)).compress)).eraseDups).filterMap
            (fun t => (Json.parse t).toOption)
        | _, _ => []
      Json.mkObj [("k", "ran"), ("result", resultJson r), ("sem", sem), ("alts", J.mkArr alts)]
    | _, _ => Json.mkObj [("k", "none")]
  pure (Json.mkObj [("outs", J.mkArr js)])

end EinoV.Oracle.C01Share
