/- oracle_C20, construction sequences in which some node carries WithInputKey / WithOutputKey:
   run on the keyed builder model (Model/C20Keys.lean). -/
import EinoV.Oracle.C20Parse
import EinoV.Model.C20Keys
import EinoV.Expected.C20

namespace EinoV.Oracle.C20Keys
open Lean EinoV EinoV.Build EinoV.Oracle.C20Parse

/-- the menu's `map[string]any` -/
def mapTy : Ty := .conc 5

def isKeyedOp (j : Json) : Bool :=
  J.strD j "op" "" == "node" && (J.boolD j "inKey" false || J.boolD j "outKey" false)

def hasKeys (c : Json) : Bool := (J.arrD c "ops").any isKeyedOp

/-- a node call with key options keeps the node's own types (`parseOp` – for C07 – replaces the
    keyed side by the map type) -/
def parseXOp (j : Json) : JE XOp := do
  if isKeyedOp j then
    let pt := J.boolD j "pt" false
    let i ← if pt then pure Ty.any else parseTy (← J.str j "in")
    let o ← if pt then pure Ty.any else parseTy (← J.str j "out")
    pure (.node { key := (← J.str j "key"), passthrough := pt, inTy := i, outTy := o,
                  pre := (← parseHandler j "pre"), post := (← parseHandler j "post"),
                  nodeKeyOpt := J.boolD j "keyOpt" false }
                (J.boolD j "inKey" false) (J.boolD j "outKey" false))
  else pure (.plain (← parseOp j))

/-- the fact values to run with: the expected ones, unless the case overrides them (replays of a
    negation witness against a tree that has the other value) -/
def kfactsOf (c : Json) : KFacts :=
  match c.getObjVal? "kfacts" with
  | .ok k => { helperNilSafe := J.boolD k "helperNilSafe" Expected.C20.kfacts.helperNilSafe,
               compileChecksOwnTypes := J.boolD k "compileChecksOwnTypes" Expected.C20.kfacts.compileChecksOwnTypes }
  | .error _ => Expected.C20.kfacts

def handleKeyed (c : Json) : JE Json := do
  let cs ← parseCase c   -- graph types, state, impl (the ops are parsed again below, with their key options)
  let ops ← (← J.arr c "ops").mapM parseXOp
  let K := kfactsOf c
  let f := Expected.C20.facts
  let x0 := XB.ofB cs.b0 mapTy
  let (xEnd, outs, rs) := runX K f cs.im Ord.id x0 ops
  let alt (g p : Bool) := (runX K { f with branchGuarded := g, branchPropagates := p } cs.im Ord.id x0 ops).2.1
  let sensitive := alt false false != outs || alt false true != outs || alt true false != outs
  let r1same := match rs with
    | [] => true
    | r :: _ => r.preNodeNow xEnd.b == r.preNode
  pure <| Json.mkObj [
    ("out", J.mkStrs (outs.map outcomeStr)),
    ("kinds", J.mkStrs (outs.map kindStr)),
    ("r1same", Json.bool r1same),
    ("sensitive", Json.bool sensitive),
    ("keyed", Json.bool true)]

end EinoV.Oracle.C20Keys
