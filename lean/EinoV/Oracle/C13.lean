import EinoV.Basic.JsonUtil
import EinoV.Model.C13
import EinoV.Expected.C13

namespace EinoV.Oracle.C13
open Lean EinoV EinoV.C13

/-- {"k":"leaf","id":n} | {"k":"wrapf","e":…} | {"k":"panic","id":n} -/
partial def parseErr (j : Json) : JE GoErr := do
  match (← J.str j "k") with
  | "leaf" => pure (.leaf (← J.nat j "id"))
  | "wrapf" => do pure (.wrapf (← parseErr (← J.field j "e")))
  | "panic" => pure (.panicE (← J.nat j "id"))
  | "interrupt" => pure .interrupt
  | k => throw s!"bad err kind {k}"

def parseLevel (j : Json) : JE Level := do
  pure { key := (← J.str j "key"), adaptors := (J.arrD j "adaptors").filterMap (fun a => a.getNat?.toOption) }

/-- case: {"levels":[…outermost first…],"err":…,"graphLevel":bool,"target":n} -/
def handle (c : Json) : JE Json := do
  let levels ← (← J.arr c "levels").mapM parseLevel
  let e ← parseErr (← J.field c "err")
  let t ← J.nat c "target"
  let hu := Expected.C13.internalErrorHasUnwrap
  let out := if J.boolD c "graphLevel" false then graphFailThrough hu levels e
             else failThrough hu levels e
  pure <| Json.mkObj [
    ("is", Json.bool (errorsIs hu out t)),
    ("path", J.mkStrs (nodePath out)),
    ("interrupt", Json.bool (isInterrupt hu out))]

end EinoV.Oracle.C13
