import EinoV.Basic.JsonUtil
import EinoV.Model.C13
import EinoV.Model.C13Fwd
import EinoV.Expected.C13

namespace EinoV.Oracle.C13
open Lean EinoV EinoV.C13

/-- {"k":"leaf","id":n} | {"k":"wrapf","e":…} | {"k":"panic","id":n} -/
partial def parseErr (j : Json) : JE GoErr := do
  match (← J.str j "k") with
  | "leaf" => pure (.leaf (← J.nat j "id"))
  | "wrapf" => do pure (.wrapf (← parseErr (← J.field j "e")))
  | "panic" => pure (.panicE (← J.nat j "id"))
  | "interrupt" => pure .interrupt
  | k => throw s!"bad err kind {k}"

def parseLevel (j : Json) : JE Level := do
  pure { key := (← J.str j "key"), adaptors := (J.arrD j "adaptors").filterMap (fun a => a.getNat?.toOption) }

/-- one event of the step model: {"k":key,"a":"use"} | {"k":key,"a":"use","panic":id} |
    {"k":key,"a":"panic","id":id} | {"k":key,"a":"fail"} (returns the case's `err`) | {"k":key,"a":"done"} -/
def parseEvent (e : GoErr) (j : Json) : JE (Key × Act) := do
  let k ← J.str j "k"
  match (← J.str j "a") with
  | "use" =>
    match (J.fieldD j "panic" Json.null).getNat? with
    | .ok i => pure (k, .useState (some i))
    | .error _ => pure (k, .useState none)
  | "panic" => pure (k, .panicBody (← J.nat j "id"))
  | "fail" => pure (k, .fail e)
  | "done" => pure (k, .done)
  | a => throw s!"bad act {a}"


/-- {"h":"wrap","key":k} | {"h":"observe"} | {"h":"rewrap"} -/
def parseHop (j : Json) : JE Hop := do
  match (← J.str j "h") with
  | "wrap" => pure (.wrap (← J.str j "key"))
  | "observe" => pure .observe
  | "rewrap" => pure .rewrap
  | h => throw s!"bad hop {h}"

/-- family obsnode: {"kind":"obsnode","hops":[…innermost first…],"err":…,"target":n} → what the
    caller finds in the returned error: errors.Is, the path field, the path the TEXT names -/
def handleObserved (c : Json) : JE Json := do
  let hops ← (← J.arr c "hops").mapM parseHop
  let e ← parseErr (← J.field c "err")
  let t ← J.nat c "target"
  let hu := Expected.C13.internalErrorHasUnwrap
  let st := travel hu Expected.C13.errorTextMemoised hops e
  pure <| Json.mkObj [
    ("is", Json.bool (errorsIs hu st.err t)),
    ("path", J.mkStrs (nodePath st.err)),
    ("textPath", J.mkStrs (textPath st)),
    ("interrupt", Json.bool (isInterrupt hu st.err))]

/-- family drainfail: {"kind":"drainfail","levels":[enclosing graphs],"drain":[{"k":key,"o":"ok"|"fail"|"interrupt","point":bool}…],
    "err":…,"target":n}: the tasks of an eager run in completion order ("fail" = the case's `err`,
    a panic included) → what the run returns -/
def handleDrain (c : Json) : JE Json := do
  let levels ← (← J.arr c "levels").mapM parseLevel
  let e ← parseErr (← J.field c "err")
  let t ← J.nat c "target"
  let hu := Expected.C13.internalErrorHasUnwrap
  let ord ← (← J.arr c "drain").mapM fun j => do
    let k ← J.str j "k"
    let o ← J.str j "o"
    let r : Option GoErr := if o == "fail" then some e else if o == "interrupt" then some .interrupt else none
    pure ((k, r), J.boolD j "point" false)
  let points := (ord.filter (·.2)).map (·.1.1)
  let res := eagerRun hu Expected.C13.drainedTaskErrorChecked (fun k => points.contains k) (ord.map (·.1))
  let mk (round : String) (out : GoErr) : Json := Json.mkObj [
      ("round", round),
      ("is", Json.bool (errorsIs hu out t)),
      ("path", J.mkStrs (nodePath out)),
      ("textPath", J.mkStrs (textPath { err := out, cache := none })),
      ("interrupt", Json.bool (isInterrupt hu out))]
  match res with
  | .failed se => pure (mk "failed" (failThrough hu levels se))
  | .interrupted => pure (mk "interrupted" (failThrough hu levels .interrupt))
  | .goesOn => pure (mk "goesOn" (.leaf 0))

/-- {"k":"canceled"} | {"k":"deadline"} | {"k":"custom","id":n} -/
def parseCtxEnd (j : Json) : JE CtxEnd := do
  match (← J.str j "k") with
  | "canceled" => pure .canceled
  | "deadline" => pure .deadline
  | "custom" => pure (.custom (← J.nat j "id"))
  | k => throw s!"bad ctx end {k}"

/-- family ctxend: {"kind":"ctxend","levels":[…],"endAt":n,"ctxEnd":…,"targets":[ids]}
    → "isT": errors.Is of the returned error against every target, "path", "interrupt" -/
def handleCtxEnd (c : Json) : JE Json := do
  let levels ← (← J.arr c "levels").mapM parseLevel
  let endAt := J.natD c "endAt" 0
  let ce ← parseCtxEnd (← J.field c "ctxEnd")
  let targets ← J.natList c "targets"
  let hu := Expected.C13.internalErrorHasUnwrap
  let out := ctxEndThrough hu Expected.C13.loopReportsCtxErr levels endAt ce
  pure <| Json.mkObj [
    ("isT", J.mkArr (targets.map fun t => Json.bool (errorsIs hu out t))),
    ("path", J.mkStrs (nodePath out)),
      ("textPath", J.mkStrs (textPath { err := out, cache := none })),
    ("interrupt", Json.bool (isInterrupt hu out))]

/-- {"k":"arr","items":[…]} | {"k":"pipe","items":[…]} | {"k":"conv","s":…,"panicOn":n?,"errOn":n?} |
    {"k":"copy","s":…} | {"k":"merge","a":…,"b":…} -/
partial def parseTree (j : Json) : JE STree := do
  let optNat (k : String) : Option Nat := (J.fieldD j k Json.null).getNat?.toOption
  match (← J.str j "k") with
  | "arr" => pure (.arr ((J.arrD j "items").filterMap fun a => a.getNat?.toOption))
  | "pipe" => pure (.pipe ((J.arrD j "items").filterMap fun a => a.getNat?.toOption))
  | "conv" => do pure (.conv (← parseTree (← J.field j "s")) (optNat "panicOn") (optNat "errOn"))
  | "copy" => do pure (.copy (← parseTree (← J.field j "s")))
  | "merge" => do pure (.merge (← parseTree (← J.field j "a")) (← parseTree (← J.field j "b")))
  | k => throw s!"bad tree kind {k}"

def sortNats (l : List Nat) : List Nat := (l.toArray.qsort (· < ·)).toList

def rtypeName : RType → String
  | .array => "array" | .stream => "stream" | .multi => "multi" | .conv => "conv" | .child => "child"

/-- family fwdtree: {"kind":"fwdtree","tree":…} → what the consumer of the reader receives
    (multisets, sorted), how it ends, whether that is independent of the interleaving (`det`),
    and which kind of forwarding goroutine caught a panic (`via`) -/
def handleFwdTree (c : Json) : JE Json := do
  let t ← parseTree (← J.field c "tree")
  let f : FwdFacts := { convRecovers := Expected.C13.convForwarderRecovers,
                        childRecovers := Expected.C13.childForwarderRecovers }
  match build f t with
  | none => pure <| Json.mkObj [("end", "crash")]
  | some r =>
    let items := r.evs.filterMap fun | .item v => some v | _ => none
    let errs := r.evs.filterMap fun | .err v => some v | _ => none
    let perrs := r.evs.filterMap fun | .perr v => some v | _ => none
    let via := if r.contained.any (·.2) then "child" else if r.contained.isEmpty then "none" else "conv"
    pure <| Json.mkObj [
      ("end", match r.panics with | none => "eof" | some _ => "caller-panic"),
      ("panicVal", match r.panics with | none => Json.null | some v => (v : Json)),
      ("ty", rtypeName r.ty),
      ("items", J.mkNats (sortNats items)),
      ("errs", J.mkNats (sortNats errs)),
      ("perrs", J.mkNats (sortNats perrs)),
      ("det", Json.bool r.det),
      ("via", via)]

/-- case: {"levels":[…outermost first…],"err":…,"graphLevel":bool,"target":n}
    optional: "events":[…], "order":[keys]: the tasks of the step in which the failing node of
    the innermost level runs, as an interleaving of their user-code sites; the step model
    (`stepResult` with the expected facts) then decides whether the step is reported at all
    ("step": "reported" | "ok" | "hang" | "crash") and which error travels outwards. -/
def handle (c : Json) : JE Json := do
  match J.strD c "kind" "" with
  | "ctxend" => handleCtxEnd c
  | "fwdtree" => handleFwdTree c
  | "obsnode" => handleObserved c
  | "drainfail" => handleDrain c
  | _ =>
  let levels ← (← J.arr c "levels").mapM parseLevel
  let e ← parseErr (← J.field c "err")
  let t ← J.nat c "target"
  let hu := Expected.C13.internalErrorHasUnwrap
  let evsJ := J.arrD c "events"
  if evsJ.isEmpty then
    let out := if J.boolD c "graphLevel" false then graphFailThrough hu levels e
               else failThrough hu levels e
    pure <| Json.mkObj [
      ("is", Json.bool (errorsIs hu out t)),
      ("path", J.mkStrs (nodePath out)),
      ("textPath", J.mkStrs (textPath { err := out, cache := none })),
      ("interrupt", Json.bool (isInterrupt hu out))]
  else
    let evs ← evsJ.mapM (parseEvent e)
    let order ← J.strList c "order"
    let f : ExecFacts := { recovers := Expected.C13.execRecovers,
                           handlerClean := Expected.C13.executorRecoverHandlerClean,
                           unlockByDefer := Expected.C13.stateLocksReleasedByDefer }
    match stepResult f hu Expected.C13.failedTaskReportedAsIs order evs with
    | .hang => pure <| Json.mkObj [("step", "hang"), ("is", Json.bool false), ("path", J.mkStrs []), ("interrupt", Json.bool false)]
    | .crash => pure <| Json.mkObj [("step", "crash"), ("is", Json.bool false), ("path", J.mkStrs []), ("interrupt", Json.bool false)]
    | .reported none => pure <| Json.mkObj [("step", "ok"), ("is", Json.bool false), ("path", J.mkStrs []), ("interrupt", Json.bool false)]
    | .reported (some se) =>
      -- `se` already carries the key of the reported task (`wrapNode`); the enclosing levels follow
      let out := failThrough hu levels.dropLast se
      pure <| Json.mkObj [
        ("step", "reported"),
        ("is", Json.bool (errorsIs hu out t)),
        ("path", J.mkStrs (nodePath out)),
      ("textPath", J.mkStrs (textPath { err := out, cache := none })),
        ("interrupt", Json.bool (isInterrupt hu out))]

end EinoV.Oracle.C13
