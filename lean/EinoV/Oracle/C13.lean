import EinoV.Basic.JsonUtil
import EinoV.Model.C13
import EinoV.Expected.C13

namespace EinoV.Oracle.C13
open Lean EinoV EinoV.C13

/-- {"k":"leaf","id":n} | {"k":"wrapf","e":…} | {"k":"panic","id":n} -/
partial def parseErr (j : Json) : JE GoErr := do
  match (← J.str j "k") with
  | "leaf" => pure (.leaf (← J.nat j "id"))
  | "wrapf" => do pure (.wrapf (← parseErr (← J.field j "e")))
  | "panic" => pure (.panicE (← J.nat j "id"))
  | "interrupt" => pure .interrupt
  | k => throw s!"bad err kind {k}"

def parseLevel (j : Json) : JE Level := do
  pure { key := (← J.str j "key"), adaptors := (J.arrD j "adaptors").filterMap (fun a => a.getNat?.toOption) }

/-- one event of the step model: {"k":key,"a":"use"} | {"k":key,"a":"use","panic":id} |
    {"k":key,"a":"panic","id":id} | {"k":key,"a":"fail"} (returns the case's `err`) | {"k":key,"a":"done"} -/
def parseEvent (e : GoErr) (j : Json) : JE (Key × Act) := do
  let k ← J.str j "k"
  match (← J.str j "a") with
  | "use" =>
    match (J.fieldD j "panic" Json.null).getNat? with
    | .ok i => pure (k, .useState (some i))
    | .error _ => pure (k, .useState none)
  | "panic" => pure (k, .panicBody (← J.nat j "id"))
  | "fail" => pure (k, .fail e)
  | "done" => pure (k, .done)
  | a => throw s!"bad act {a}"

/-- case: {"levels":[…outermost first…],"err":…,"graphLevel":bool,"target":n}
    optional: "events":[…], "order":[keys]: the tasks of the step in which the failing node of
    the innermost level runs, as an interleaving of their user-code sites; the step model
    (`stepResult` with the expected facts) then decides whether the step is reported at all
    ("step": "reported" | "ok" | "hang" | "crash") and which error travels outwards. -/
def handle (c : Json) : JE Json := do
  let levels ← (← J.arr c "levels").mapM parseLevel
  let e ← parseErr (← J.field c "err")
  let t ← J.nat c "target"
  let hu := Expected.C13.internalErrorHasUnwrap
  let evsJ := J.arrD c "events"
  if evsJ.isEmpty then
    let out := if J.boolD c "graphLevel" false then graphFailThrough hu levels e
               else failThrough hu levels e
    pure <| Json.mkObj [
      ("is", Json.bool (errorsIs hu out t)),
      ("path", J.mkStrs (nodePath out)),
      ("interrupt", Json.bool (isInterrupt hu out))]
  else
    let evs ← evsJ.mapM (parseEvent e)
    let order ← J.strList c "order"
    let f : ExecFacts := { recovers := Expected.C13.execRecovers,
                           handlerClean := Expected.C13.executorRecoverHandlerClean,
                           unlockByDefer := Expected.C13.stateLocksReleasedByDefer }
    match stepResult f hu Expected.C13.failedTaskReportedAsIs order evs with
    | .hang => pure <| Json.mkObj [("step", "hang"), ("is", Json.bool false), ("path", J.mkStrs []), ("interrupt", Json.bool false)]
    | .crash => pure <| Json.mkObj [("step", "crash"), ("is", Json.bool false), ("path", J.mkStrs []), ("interrupt", Json.bool false)]
    | .reported none => pure <| Json.mkObj [("step", "ok"), ("is", Json.bool false), ("path", J.mkStrs []), ("interrupt", Json.bool false)]
    | .reported (some se) =>
      -- `se` already carries the key of the reported task (`wrapNode`); the enclosing levels follow
      let out := failThrough hu levels.dropLast se
      pure <| Json.mkObj [
        ("step", "reported"),
        ("is", Json.bool (errorsIs hu out t)),
        ("path", J.mkStrs (nodePath out)),
        ("interrupt", Json.bool (isInterrupt hu out))]

end EinoV.Oracle.C13
