import EinoV.Oracle.GraphCase
import EinoV.Model.C04Flat
import EinoV.Model.C04Lazy
import EinoV.Model.C04Key
import EinoV.Model.C04FMap
import EinoV.Model.C04ErrItem
import EinoV.Expected.C04

namespace EinoV.Oracle.C04
open Lean EinoV EinoV.Engine EinoV.C04

/-- stream-mode values: chunk lists with an optional trailing error item (`Model/C04Lazy.lean`) -/
abbrev SV := LStream FlatMap

def co := flatChunkOps
def pref := Expected.C04.packerPref

def natives (j : Json) : Bool × Bool × Bool × Bool :=
  let s := J.strD j "native" "i"
  (s.contains 'i', s.contains 's', s.contains 'c', s.contains 't')

/-- the packed forms of a node body. `WithOutputKey k` makes the component's (string) output
    appear as {k: output}: in the model the output key replaces the node key in the result map. -/
partial def packedOf (key : Key) (n : Json) : JE (Packed FlatMap) := do
  let b ← J.field n "body"
  let (hi, hs, hc, ht) := natives n
  let pat := (J.arrD n "chunks").filterMap (fun x => x.getNat?.toOption)
  let okey := J.strD n "outKey" key
  match (← J.str b "op") with
  | "tag" => pure (pack co pref (nativeOf co (fun v => .ok [(okey, (GraphCase.tagBody key v).headD ("", "") |>.2)]) (flatChunk pat) hi hs hc ht))
  | "fail" => do
      let id ← J.nat b "id"
      pure (pack co pref (nativeOf co (fun _ => .error { cls := .user id }) (flatChunk pat) hi hs hc ht))
  | op => throw s!"packedOf: bad op {op}"

/-- `WithInputKey k`: value mode takes input[k] (error when missing); stream mode keeps, of
    every chunk, only key k and drops the chunks that lack it (`inputStreamFilter`) -/
def restrictKey (k : Key) (v : FlatMap) : Option FlatMap :=
  match v.find? (·.1 == k) with
  | some kv => some [kv]
  | none => none

/-- `"after": k` on a `fail` body: the natively streaming forms (Stream / Transform) return
    their reader and fail after `k` chunks of what the node would have produced -/
def afterOf (n : Json) : Option Nat :=
  ((n.getObjVal? "body").toOption.bind (fun b => (b.getObjVal? "after").toOption)).bind (fun x => x.getNat?.toOption)

/-- the keys a stream carries -/
def keysOf (s : SV) : List Key := (s.chunks.flatMap (·.map (·.1))).eraseDups

/-- the zero value of the case language's value universe (`flatOps.zero`: the empty map) -/
def flatZero : FlatMap := []

/-- fan-in that refuses sources sharing a key (as value mode's `mergeMap` does): used to find
    the runs whose stream-mode result depends on the arrival order of the merged chunks -/
def disjointOps : ValOps SV :=
  { merge := fun ls =>
      let ks := ls.flatMap keysOf
      if ks.eraseDups.length == ks.length then (lazyOps flatZero).merge ls else none,
    zero := (lazyOps flatZero).zero }

mutual
/-- value-mode (`i`) and stream-mode (`t`) function of a node -/
partial def nodeActs (ops : ValOps SV) (key : Key) (n : Json) : JE ((FlatMap → Except Err FlatMap) × (SV → Except Err SV)) := do
  let b ← J.field n "body"
  let inKey := (n.getObjVal? "inKey").toOption.bind (fun x => x.getStr?.toOption)
  match (← J.str b "op") with
  | "pass" =>
      match inKey with
      | none => pure (fun v => .ok v, fun s => .ok s)
      -- a pass-through node with `WithInputKey k` hands on input[k] (to successors that take
      -- that value itself, `"sIn"`; in the model the value stays wrapped under its key)
      | some ik => pure (fun v => match restrictKey ik v with
                          | some v' => .ok v'
                          | none => .error { cls := .user 9997 },
                         fun s => .ok (s.mapChunks (·.filterMap (restrictKey ik))))
  | "graph" => do
      let (gv, gs) ← parseBoth ops (← J.field b "g")
      let rv := compile GraphCase.defaultStepSlack gv
      let rs := compile GraphCase.defaultStepSlack gs
      pure (fun v => (run GraphCase.flatOps rv v).result, fun s => (run ops rs s).result)
  | op => do
      let p ← packedOf key n
      let filt : List FlatMap → List FlatMap := match inKey with
        | none => id
        | some ik => (·.filterMap (restrictKey ik))
      let vi : FlatMap → Except Err FlatMap := match inKey with
        | none => p.i
        | some ik => fun v => match restrictKey ik v with
            | some v' => p.i v'
            | none => .error { cls := .user 9997 }
      let (_, hs, _, ht) := natives n
      match op, afterOf n with
      | "fail", some k =>
        if hs || ht then do
          -- what the node streams before it breaks: the chunks of the `tag` body
          let pt ← packedOf key (n.setObjVal! "body" (Json.mkObj [("op", "tag")]))
          let id ← J.nat b "id"
          pure (vi, lazyMidFail (fun xs => pt.t (filt xs)) k { cls := .user id })
        else pure (vi, lazyNode (fun xs => p.t (filt xs)))
      | _, _ => pure (vi, lazyNode (fun xs => p.t (filt xs)))

partial def parseBoth (ops : ValOps SV) (j : Json) : JE (GraphDef FlatMap × GraphDef SV) := do
  let mode := J.strD j "mode" "pregel"
  let acts ← (← J.arr j "nodes").mapM (fun n => do
    let k ← J.str n "key"
    let a ← nodeActs ops k n
    pure (k, a))
  let edges ← (J.arrD j "edges").mapM (fun e => do
    match e with
    | .arr #[.str a, .str b] => pure (a, b)
    | _ => throw "bad edge")
  let brs ← (J.arrD j "branches").mapM (fun b => do
    let from_ ← J.str b "from"
    let ends ← J.strList b "ends"
    let table ← (← J.arr b "table").mapM (fun row => do (← J.asArr row).mapM J.asStr)
    let failId := (b.getObjVal? "fail").toOption.bind (fun x => x.getNat?.toOption)
    let condV : FlatMap → Except Err (List Key) := fun v =>
      match failId with
      | some id => .error { cls := .branchUser id }
      | none => .ok (if J.boolD b "stream" false then GraphCase.pickKeys table v else GraphCase.pick table v)
    -- stream mode: a plain condition is wrapped by collectByInvoke (concat, then the
    -- condition); a stream condition reads the first chunk only and closes its copy
    let condS : SV → Except Err (List Key) := fun s =>
      if J.boolD b "stream" false then
        match failId, s.chunks with
        | some id, _ => .error { cls := .branchUser id }
        | none, [] => .error { cls := .branchUser 9998 }
        | none, c :: _ => .ok (GraphCase.pickKeys table c)
      else lazyCond (fun cs => concat co cs >>= condV) s
    pure ((from_, ({ ends := ends, cond := condV } : Branch FlatMap)), (from_, ({ ends := ends, cond := condS } : Branch SV))))
  let mk {V} (nodes : List (Key × (V → Except Err V))) (branches : List (Key × Branch V)) : GraphDef V :=
    { dag := mode == "dag", eager := false, maxSteps := J.natD j "maxSteps" 0, nodes := nodes, edges := edges, branches := branches }
  pure (mk (acts.map fun a => (a.1, a.2.1)) (brs.map (·.1)), mk (acts.map fun a => (a.1, a.2.2)) (brs.map (·.2)))
end

def resJ (r : Except Err FlatMap) : Json := GraphCase.resultJson r

/-- case {"kind":"keyval","chunks":["absent"|"nil"|"wrong"|"good:<text>", …]} (the values found under
    the input key in the producer's chunks) → what a node with `WithInputKey` receives:
    value mode on the one-chunk producer output, stream mode on all chunks; `panics` under the
    expected (nil-safe) conversion function -/
def handleKeyVal (c : Json) : JE Json := do
  let items ← J.strList c "chunks"
  let kv : String → KVal String := fun s =>
    if s == "absent" then .absent else if s == "nil" then .nilVal else if s == "wrong" then .wrong
    else .good (s.drop 5).toString
  let kvs := items.map kv
  let strCo : ChunkOps String := { concatItems := fun l => .ok (String.join l), emptyErr := { cls := .user 9999 } }
  let resS : Except Err String → Json := fun r => match r with
    | .ok v => Json.mkObj [("ok", Json.str v)]
    | .error e => Json.mkObj [("err", Json.str (toString (repr e.cls)))]
  let value := match kvs with
    | [one] => resS (keyValue one)
    | _ => Json.null
  pure (Json.mkObj [("value", value), ("stream", resS (lazyConcat strCo (keyStream kvs))),
    ("panics", Json.bool (panicsAt true kvs))])

/-! ### family "erritem": the error value of an error item (`Model/C04ErrItem.lean`) -/

/-- the error shapes of the case language and their relation to io.EOF -/
def eofRelOf (name : String) : EOFRel :=
  if name == "is-eof" then .identical
  else if ["wrap-eof", "url-eof", "deep-eof", "join-eof", "is-method-eof"].contains name then .reaches
  else .unrelated

def strCo : ChunkOps String := { concatItems := fun l => .ok (String.join l), emptyErr := { cls := .user 9999 } }

/-- case {"kind":"erritem","shape":"alone"|"then"|"pass"|"fanin","chunks":[…],"at":k?,"err":name,
    "producer":natives,"consumer":natives}: a producer that sends `chunks` with an error item of the
    named shape in front of chunk `at` (none: a healthy stream), drained by whatever follows.
    → per paradigm {"ok": text} | {"err": class}. Every paradigm drains the producer's stream with an
    identity comparison (the framework's loop by the fact, the callers' loops by construction). -/
def handleErrItem (c : Json) : JE Json := do
  let chunks ← J.strList c "chunks"
  let at_ := (c.getObjVal? "at").toOption.bind (fun x => x.getNat?.toOption)
  let rel := eofRelOf (J.strD c "err" "leaf")
  let items : List (Item String) := match at_ with
    | none => chunks.map .chunk
    | some k => (chunks.take k).map .chunk ++ [.fail rel { cls := .user 7 }] ++ (chunks.drop k).map .chunk
  let (_, hs, _, ht) := natives (Json.mkObj [("native", Json.str (J.strD c "producer" "s"))])
  -- a producer without a natively streaming form fails at call time (whatever the error value is)
  let s : LStream String :=
    if hs || ht then view true items
    else match at_ with
      | none => .ofList [String.join chunks]
      | some _ => { chunks := [], err := some { cls := .user 7 } }
  let shape := J.strD c "shape" "alone"
  let fin : String → String := fun v =>
    if shape == "then" then v ++ "|c" else if shape == "fanin" then "kp=" ++ v ++ ";kq=healthy;" else v
  let r : Except Err String := (lazyConcat strCo s).map fin
  let rj : Json := match r with
    | .ok v => Json.mkObj [("ok", Json.str v)]
    | .error e => Json.mkObj [("err", Json.str (toString (repr e.cls)))]
  pure (Json.mkObj [("invoke", rj), ("stream", rj), ("collect", rj), ("transform", rj)])

/-! ### family "fmap": map chunks through field mappings (`Model/C04FMap.lean`) -/

def fvalOf (s : String) : FVal :=
  if s == "nil" then .nilV else if s == "wrong" then .wrong else if s == "absent" then .absent
  else .good (s.drop 5).toString

def fvalStr : FVal → String
  | .absent => "absent"
  | .nilV => "nil"
  | .wrong => "wrong"
  | .good s => "good:" ++ s

def fchunkOf (j : Json) : JE FChunk := do
  (← J.asArr j).mapM (fun kv => do
    match kv with
    | .arr #[.str k, .str v] => pure (k, fvalOf v)
    | _ => throw "fmap: bad chunk entry")

def fmKeys (cs : List FChunk) : List Key := (cs.flatMap (·.map (·.1))).eraseDups

/-- chunk operations of `map[string]any` values, for the packer model -/
def fmCo : ChunkOps FChunk := { concatItems := fun l => concatCols l (fmKeys l), emptyErr := errEmptyStream }

def fmResJ : Except Err FChunk → Json
  | .ok t => Json.mkObj [("ok", Json.mkObj (t.map fun kv => (kv.1, Json.str (fvalStr kv.2))))]
  | .error e => Json.mkObj [("err", Json.str (toString (repr e.cls)))]

structure FmSource where
  isStart : Bool
  packed : Packed FChunk
  chunks : List FChunk
  maps : List FMapping

/-- case {"kind":"fmap","target":"mapstr"|"struct"|"mapany"|"mapslice","sources":[{"key","native","chunks":[[[k,v],…],…],
    "maps":[{"src","dst"},…]},…]}: a Workflow whose sink (a node, or END) takes fields of its sources'
    `map[string]any` outputs; the four calls' results as {dst: value} or an error -/
def handleFMap (c : Json) : JE Json := do
  let target := J.strD c "target" "mapstr"
  let checked := target != "mapany"
  let nilable := target == "mapslice"
  let srcs ← (← J.arr c "sources").mapM (fun sj => do
    let cs ← (← J.arr sj "chunks").mapM fchunkOf
    let ms ← (← J.arr sj "maps").mapM (fun mj => do
      pure ({ src := ← J.str mj "src", dst := ← J.str mj "dst", checked := checked, nilable := nilable } : FMapping))
    let (hi, hs, hc, ht) := natives sj
    let f : FChunk → Except Err FChunk := fun _ => concat fmCo cs
    let p := pack fmCo pref (nativeOf fmCo f (fun _ => cs) hi hs hc ht)
    pure ({ isStart := (J.strD sj "key" "") == "start", packed := p, chunks := cs, maps := ms } : FmSource))
  -- value mode: every source's chunks are concatenated (a node's Invoke form, the caller's whole input)
  let invoke := fmInvokeAll (srcs.map fun s => { ms := s.maps, cs := s.chunks, keys := fmKeys s.chunks })
  -- what a source hands to its edge in a stream paradigm: a node runs its Transform form; START hands
  -- on the caller's stream (Stream: the one-chunk stream of the whole value)
  let delivered (s : FmSource) (split : Bool) : Except Err (List FChunk) :=
    if s.isStart then (if split then .ok s.chunks else (concat fmCo s.chunks).map ([·]))
    else s.packed.t [[]]
  let streamed (split : Bool) : Except Err FChunk := do
    let es ← srcs.mapM (fun s => do
      let chs ← delivered s split
      pure ({ ms := s.maps, cs := chs, keys := fmKeys chs } : FEdge))
    fmStreamAll true es
  pure (Json.mkObj [("invoke", fmResJ invoke), ("stream", fmResJ (streamed false)),
    ("collect", fmResJ (streamed true)), ("transform", fmResJ (streamed true))])

/-- case: {"g": graph, "input": "text", "inChunks": [sizes]} →
    {"invoke": Invoke(x), "stream": concat Stream(x), "collect": Collect(xs), "transform": concat Transform(xs),
     "orderDep": some fan-in of the stream-mode run merges streams that share a key (the
     concatenation then depends on the arrival order of their chunks)} -/
def handle (c : Json) : JE Json := do
  if J.strD c "kind" "" == "keyval" then return (← handleKeyVal c)
  if J.strD c "kind" "" == "fmap" then return (← handleFMap c)
  if J.strD c "kind" "" == "erritem" then return (← handleErrItem c)
  let (gv, gs) ← parseBoth (lazyOps flatZero) (← J.field c "g")
  let (_, gd) ← parseBoth disjointOps (← J.field c "g")
  let x ← J.str c "input"
  let pat := (J.arrD c "inChunks").filterMap (fun v => v.getNat?.toOption)
  let rv := compile GraphCase.defaultStepSlack gv
  let rs := compile GraphCase.defaultStepSlack gs
  let xv : FlatMap := [("in", x)]
  let xs : SV := .ofList (flatChunk pat xv)
  let inv := (run GraphCase.flatOps rv xv).result
  let str := (run (lazyOps flatZero) rs (.ofList [xv])).result >>= lazyConcat co
  let tra := (run (lazyOps flatZero) rs xs).result >>= lazyConcat co
  let rd := compile GraphCase.defaultStepSlack gd
  let isMerge : Except Err SV → Bool := fun r => match r with
    | .error e => e.cls == .merge
    | .ok _ => false
  let orderDep := isMerge (run disjointOps rd (.ofList [xv])).result || isMerge (run disjointOps rd xs).result
  pure (Json.mkObj [("invoke", resJ inv), ("stream", resJ str), ("collect", resJ tra), ("transform", resJ tra),
    ("orderDep", Json.mkObj [("flag", Json.bool orderDep)])])

end EinoV.Oracle.C04
