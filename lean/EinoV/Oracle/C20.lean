import EinoV.Oracle.C20Parse
import EinoV.Expected.C20
import EinoV.Oracle.C20Decl
import EinoV.Oracle.C20Keys
import EinoV.Oracle.C20Static

namespace EinoV.Oracle.C20
open Lean EinoV EinoV.Build EinoV.Oracle.C20Parse

/-- case: {"inT","outT","state","cmp","impl","ops":[…]}.  Answer: outcome of every call
    (`ok|fresh|stored|compiled`), error kinds (informational), whether the first runner's
    pre-node handler list is still what it was when compiled, and whether the outcomes depend
    on the two addBranch facts that belong to C07 (such cases are compared by C07 only). -/
def handle (c : Json) : JE Json := do
  if J.strD c "stream" "" == "decl" then return (← C20Decl.handle c)
  if J.strD c "stream" "" == "static" then return (← C20Static.handle c)
  if C20Keys.hasKeys c then return (← C20Keys.handleKeyed c)
  let cs ← parseCase c
  let f := Expected.C20.facts
  let (bEnd, outs, rs) := run f cs.im Ord.id cs.b0 cs.ops
  let alt (g p : Bool) := (run { f with branchGuarded := g, branchPropagates := p } cs.im Ord.id cs.b0 cs.ops).2.1
  let sensitive := alt false false != outs || alt false true != outs || alt true false != outs
  let r1same := match rs with
    | [] => true
    | r :: _ => r.preNodeNow bEnd == r.preNode
  pure <| Json.mkObj [
    ("out", J.mkStrs (outs.map outcomeStr)),
    ("kinds", J.mkStrs (outs.map kindStr)),
    ("r1same", Json.bool r1same),
    ("sensitive", Json.bool sensitive)]

end EinoV.Oracle.C20
