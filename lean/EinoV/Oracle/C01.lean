import EinoV.Oracle.GraphCase
import EinoV.Oracle.C01Chain
import EinoV.Oracle.C01Share

namespace EinoV.Oracle.C01
open Lean EinoV

/-- extra case families of this property, by the "kind" field of the case
    (extended in this file by the families' owners) -/
def handleKind (kind : String) (c : Json) : JE Json :=
  match kind with
  | "chain" => C01Chain.handle c
  | "share" => C01Share.handle c
  | _ => throw s!"unknown case kind {kind}"

/-- case: {"g": graph case, "input": "x"}  (no "kind"), or a case of an extra family -/
def handle (c : Json) : JE Json := do
  match c.getObjVal? "kind" with
  | .ok (.str k) => handleKind k c
  | _ =>
    let g ← J.field c "g"
    let x ← J.str c "input"
    GraphCase.outcomeJson g [("in", x)]

end EinoV.Oracle.C01
