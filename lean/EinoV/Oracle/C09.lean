import EinoV.Basic.JsonUtil
import EinoV.Model.C09
import EinoV.Expected.C09

namespace EinoV.Oracle.C09
open Lean EinoV EinoV.C09

def parseNode (j : Json) : JE NodeSpec := do
  pure { tag := (← J.str j "tag"), inc := J.boolD j "inc" false, useOpt := J.boolD j "useOpt" false }

def parseLayer (j : Json) : JE Layer := do
  pure { branch := J.boolD j "branch" false, nodes := (← (← J.arr j "nodes").mapM parseNode) }

def parseCall (j : Json) : JE (String × String) := do
  pure ((← J.str j "in"), J.strD j "opt" "")

/-- case: {"layers":[{"branch":b,"nodes":[{"tag":..,"inc":b,"useOpt":b}]}],
           "calls":[{"in":..,"opt":..}], "sched":[run indices]}
    answer: {"interleaved":[result per call after `sched`], "alone":[result per call alone],
             "complete":bool (every call got at least |layers| steps in `sched`)}
    The model runs with the Expected facts (all slots per run). -/
def handle (c : Json) : JE Json := do
  let layers ← (← J.arr c "layers").mapM parseLayer
  let calls ← (← J.arr c "calls").mapM parseCall
  let sched ← J.natList c "sched"
  let inter := runInterleaved Expected.C09.alloc layers calls sched
  let al := calls.map fun (i, o) => runAlone layers i o
  let complete := (List.range calls.length).all fun i => layers.length ≤ sched.count i
  pure <| Json.mkObj [
    ("interleaved", J.mkStrs inter),
    ("alone", J.mkStrs al),
    ("complete", Json.bool complete)]

end EinoV.Oracle.C09
