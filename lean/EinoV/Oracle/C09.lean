import EinoV.Basic.JsonUtil
import EinoV.Model.C09
import EinoV.Model.C09Opt
import EinoV.Model.C09Err
import EinoV.Model.C09Cb
import EinoV.Model.C09Flight
import EinoV.Expected.C09

namespace EinoV.Oracle.C09
open Lean EinoV EinoV.C09

def parseNode (j : Json) : JE NodeSpec := do
  pure { tag := (← J.str j "tag"), inc := J.boolD j "inc" false, useOpt := J.boolD j "useOpt" false }

def parseLayer (j : Json) : JE Layer := do
  pure { branch := J.boolD j "branch" false, nodes := (← (← J.arr j "nodes").mapM parseNode) }

def parseCall (j : Json) : JE (String × String) := do
  pure ((← J.str j "in"), J.strD j "opt" "")

/-- case: {"layers":[{"branch":b,"nodes":[{"tag":..,"inc":b,"useOpt":b}]}],
           "calls":[{"in":..,"opt":..}], "sched":[run indices]}
    answer: {"interleaved":[result per call after `sched`], "alone":[result per call alone],
             "complete":bool (every call got at least |layers| steps in `sched`)}
    The model runs with the Expected facts (all slots per run). -/
def handleLayered (c : Json) : JE Json := do
  let layers ← (← J.arr c "layers").mapM parseLayer
  let calls ← (← J.arr c "calls").mapM parseCall
  let sched ← J.natList c "sched"
  let inter := runInterleaved Expected.C09.alloc layers calls sched
  let al := calls.map fun (i, o) => runAlone layers i o
  let complete := (List.range calls.length).all fun i => layers.length ≤ sched.count i
  pure <| Json.mkObj [
    ("interleaved", J.mkStrs inter),
    ("alone", J.mkStrs al),
    ("complete", Json.bool complete)]

/-! ### family "optshare": call options under Go slice semantics (Model/C09Opt.lean) -/

open EinoV.C10 (Hd Slice Heap) in
structure RawGroup where
  shared : Nat
  desig : Bool
  target : List String
  opts : List Nat
  spare : Nat

def parseGroup (j : Json) : JE RawGroup := do
  pure { shared := J.natD j "shared" 0, desig := J.boolD j "desig" false,
         target := (← J.strList j "target"), opts := (← J.natList j "opts"), spare := J.natD j "spare" 0 }

def arrayOf (g : RawGroup) : List EinoV.C10.Hd :=
  g.opts.map (fun n => (⟨n, none⟩ : EinoV.C10.Hd)) ++ List.replicate g.spare default

def sliceOf (arr : Nat) (g : RawGroup) : EinoV.C10.Slice :=
  ⟨arr, 0, g.opts.length, g.opts.length + g.spare⟩

/-- the groups of one call: a shared group is a window into the array of the shared Option
    value; an own group gets an array of its own, appended to the heap -/
def buildCall (shared : List RawGroup) :
    List RawGroup → EinoV.C10.Heap → List Opt.Group → EinoV.C10.Heap × List Opt.Group
  | [], h, acc => (h, acc.reverse)
  | g :: rest, h, acc =>
    if g.shared > 0 then
      match shared[g.shared - 1]? with
      | some sg => buildCall shared rest h (⟨sg.desig, sg.target, sliceOf (g.shared - 1) sg⟩ :: acc)
      | none => buildCall shared rest h acc
    else
      buildCall shared rest (h ++ [arrayOf g]) (⟨g.desig, g.target, sliceOf h.length g⟩ :: acc)

def buildCalls (shared : List RawGroup) :
    List (List RawGroup) → EinoV.C10.Heap → List (List Opt.Group) → EinoV.C10.Heap × List (List Opt.Group)
  | [], h, acc => (h, acc.reverse)
  | c :: rest, h, acc =>
    let r := buildCall shared c h []
    buildCalls shared rest r.1 (r.2 :: acc)

def tags (hs : List EinoV.C10.Hd) : String :=
  Tools.joinWith "," (hs.map fun h => "o" ++ toString h.id)

def renderNodes (inp : String) (nodes : List Opt.Path) (seen : List (Option (List EinoV.C10.Hd))) : String :=
  (nodes.zip seen).foldl (fun acc (p, s) =>
    acc ++ "|" ++ p.getLastD "" ++ "=" ++ (match s with | some hs => tags hs | none => "?")) inp

/-- case: {"family":"optshare","nodes":[[path]],"shared":[group],"calls":[{"in":..,"groups":[group]}],
           "sched":[thread indices; thread = call * |nodes| + node]}
    group: {"shared":k (0 = own),"desig":b,"target":[path],"opts":[ids],"spare":n}
    answer: alone = the specification `visible`; interleaved = what the slice-level extraction
    machine (with the Expected fact `extractOptionCopies`) lets every node read under `sched`. -/
def handleOptShare (c : Json) : JE Json := do
  let nodes ← (← J.arr c "nodes").mapM fun j => do (← J.asArr j).mapM J.asStr
  let shared ← (← J.arr c "shared").mapM parseGroup
  let rawCalls ← (← J.arr c "calls").mapM fun j => do
    pure ((← J.str j "in"), (← (← J.arr j "groups").mapM parseGroup))
  let sched ← J.natList c "sched"
  let h0s : EinoV.C10.Heap := shared.map arrayOf
  let (h0, calls) := buildCalls shared (rawCalls.map (·.2)) h0s []
  let threads : List (Nat × Opt.Path) :=
    (List.range calls.length).flatMap fun i => nodes.map fun p => (i, p)
  let seen := Opt.seenAll Expected.C09.extractOptionCopies h0 (Opt.progOf calls threads) sched
  let k := nodes.length
  let al := (rawCalls.zip calls).map fun ((inp, _), gs) =>
    renderNodes inp nodes (nodes.map fun p => some (Opt.visible h0 gs p))
  let inter := (List.range calls.length).map fun i =>
    renderNodes ((rawCalls[i]?.map (·.1)).getD "") nodes ((seen.drop (i * k)).take k)
  pure <| Json.mkObj [
    ("interleaved", J.mkStrs inter),
    ("alone", J.mkStrs al),
    ("complete", Json.bool (seen.all (·.isSome)))]

/-! ### family "cbshare": callback handlers of concurrent runs (Model/C09Cb.lean) -/

def hdTags (hs : List EinoV.C10.Hd) : String :=
  Tools.joinWith "," (hs.map fun h => "h" ++ toString h.id)

/-- one unit of one run: start callbacks run the handlers last to first, end callbacks first to last -/
def renderUnit (p : Opt.Path) (s : Option (List EinoV.C10.Hd)) : String :=
  p.getLastD "top" ++ "=" ++
    (match s with
     | some hs => "S:" ++ hdTags hs.reverse ++ "/E:" ++ hdTags hs
     | none => "?")

def renderUnits (sites : List Opt.Path) (seen : List (Option (List EinoV.C10.Hd))) : String :=
  Tools.joinWith "|" ((sites.zip seen).map fun (p, s) => renderUnit p s)

/-- case: {"family":"cbshare","sites":[[path]] ([] = the called graph),"shared":[group],"parents":[group],
           "calls":[{"parent":k (0 = context without manager, k>0 = parents[k-1]),"groups":[group]}],
           "sched":[thread indices; thread = call * |sites| + site]}
    group as in "optshare" (`opts` = handler ids).
    answer per call: for every unit the handler list in force, rendered as the order of the start and
    of the end callbacks; alone = the specification `Cb.inForce`, interleaved = what the slice-level
    machine (with the Expected facts) lets every unit read under `sched`. -/
def handleCbShare (c : Json) : JE Json := do
  let sites ← (← J.arr c "sites").mapM fun j => do (← J.asArr j).mapM J.asStr
  let shared ← (← J.arr c "shared").mapM parseGroup
  let parents ← (← J.arr c "parents").mapM parseGroup
  let rawCalls ← (← J.arr c "calls").mapM fun j => do
    pure (J.natD j "parent" 0, (← (← J.arr j "groups").mapM parseGroup))
  let sched ← J.natList c "sched"
  let h0s : EinoV.C10.Heap := shared.map arrayOf ++ parents.map arrayOf
  let (h0, groups) := buildCalls shared (rawCalls.map (·.2)) h0s []
  let inhOf : Nat → EinoV.C10.Slice := fun k =>
    if k = 0 then EinoV.C10.Slice.nil
    else match parents[k - 1]? with
      | some pg => sliceOf (shared.length + (k - 1)) pg
      | none => EinoV.C10.Slice.nil
  let calls : List Cb.Call := (rawCalls.zip groups).map fun ((k, _), gs) => ⟨inhOf k, gs⟩
  let threads : List (Nat × Opt.Path) :=
    (List.range calls.length).flatMap fun i => sites.map fun p => (i, p)
  let seen := Cb.seenAll Expected.C09.cbFacts h0 (Cb.progOf calls threads) sched
  let k := sites.length
  let al := calls.map fun cl => renderUnits sites (sites.map fun p => some (Cb.inForce h0 cl.inh cl.gs p))
  let inter := (List.range calls.length).map fun i => renderUnits sites ((seen.drop (i * k)).take k)
  pure <| Json.mkObj [
    ("interleaved", J.mkStrs inter),
    ("alone", J.mkStrs al),
    ("complete", Json.bool (seen.all (·.isSome)))]

/-! ### family "inflight": many runs held in flight at once (Model/C09Flight.lean) -/

def spanDone (st : Flight.St) (base span : Nat) : Bool :=
  (List.range span).all fun d => st.get (base + d) == .done

def flightInter (st : Flight.St) : List Flight.Run → Nat → List String
  | [], _ => []
  | r :: rest, base =>
    (if spanDone st base r.span then Flight.runOut r else "?") :: flightInter st rest (base + r.span)

/-- case: {"family":"inflight","runs":[{"tok":..,"calls":k,"inner":m}],"sched":[call indices]}
    call indices: run after run, every outer call followed by its m inner calls.
    answer per run: alone = what the run returns (`Flight.runOut`); interleaved = the same once every
    call of the run has returned in the machine run under `sched` with the Expected fact
    (`shared` = some process-wide synchronisation object is used on the run path), "?" otherwise;
    complete = every call of every run has returned. -/
def handleInFlight (c : Json) : JE Json := do
  if (J.strD c "hold" "") != "" then
    -- variant hold-at: run 0 is parked inside user code of its own; {"hold":where,"toks":[..],"sched":[run indices]}
    let toks ← J.strList c "toks"
    let sched ← J.natList c "sched"
    let n := toks.length
    let st := Hold.exec Expected.C09.lockOnCompiledObject n 0 sched Hold.St.init
    let al := toks.map fun t => t ++ "|a|b#1"
    let inter := (toks.zipIdx).map fun (t, i) => if 2 ≤ st.pc i then t ++ "|a|b#1" else "?"
    return Json.mkObj [
      ("interleaved", J.mkStrs inter),
      ("alone", J.mkStrs al),
      ("complete", Json.bool ((List.range n).all fun i => 2 ≤ st.pc i))]
  let runs ← (← J.arr c "runs").mapM fun j => do
    pure ({ tok := (← J.str j "tok"), calls := J.natD j "calls" 1, inner := J.natD j "inner" 0 } : Flight.Run)
  let sched ← J.natList c "sched"
  let cs := Flight.build runs
  if !Flight.wfb cs then throw "inflight: the generated call array is not well formed"
  let st := Flight.exec Expected.C09.sharedSyncOnRunPath 0 cs sched (Flight.St.init cs.size)
  pure <| Json.mkObj [
    ("interleaved", J.mkStrs (flightInter st runs 0)),
    ("alone", J.mkStrs (runs.map Flight.runOut)),
    ("complete", Json.bool (Flight.allDone cs st))]

/-! ### family "branchmix": the successor list of a branching node (Opt machine on node keys) -/

def idsOf (hs : List EinoV.C10.Hd) : String := Tools.joinWith "," (hs.map fun h => toString h.id)

/-- case: {"family":"branchmix","direct":[ids of the direct successors],"spare":n (spare capacity of the
           compiled runner's writeTo slice),"calls":[{"sel":[id selected by branch 0, by branch 1, …]}],
           "sched":[thread = call index]}
    The successor list of a run is collected like an option list (`Opt.collect`): with the Expected fact
    `branchSuccessorsFresh` into a slice made by the run (branch selections, then the direct successors
    appended to it); without it the runner's own writeTo slice would be the first group taken as it is.
    answer per call: the successor ids (comma separated, in collection order). -/
def handleBranchMix (c : Json) : JE Json := do
  let direct ← J.natList c "direct"
  let spare := J.natD c "spare" 0
  let sels ← (← J.arr c "calls").mapM fun j => J.natList j "sel"
  let sched ← J.natList c "sched"
  let wt : RawGroup := { shared := 0, desig := false, target := [], opts := direct, spare := spare }
  -- heap: array 0 = writeTo of the compiled runner; then one array per (call, branch) = what the condition returned
  let rec mk (rest : List (List Nat)) (h : EinoV.C10.Heap) (acc : List (List EinoV.C10.Slice)) :
      EinoV.C10.Heap × List (List EinoV.C10.Slice) :=
    match rest with
    | [] => (h, acc.reverse)
    | sel :: more =>
      let r := sel.foldl (fun (st : EinoV.C10.Heap × List EinoV.C10.Slice) id =>
        (st.1 ++ [[(⟨id, none⟩ : EinoV.C10.Hd)]], st.2 ++ [(⟨st.1.length, 0, 1, 1⟩ : EinoV.C10.Slice)])) (h, [])
      let gs := if Expected.C09.branchSuccessorsFresh then r.2 ++ [sliceOf 0 wt] else sliceOf 0 wt :: r.2
      mk more r.1 (gs :: acc)
  let (h0, prog) := mk sels [arrayOf wt] []
  let seen := Opt.seenAll Expected.C09.branchSuccessorsFresh h0 prog sched
  let al := prog.map fun gs => idsOf ((gs.map h0.read).flatten)
  let inter := seen.map fun s => match s with | some hs => idsOf hs | none => "?"
  pure <| Json.mkObj [
    ("interleaved", J.mkStrs inter),
    ("alone", J.mkStrs al),
    ("complete", Json.bool (seen.all (·.isSome)))]

/-! ### family "toollist": a ToolsNode run with a `WithToolList` call option -/

def parseTool (j : Json) : JE (String × String) := do pure ((← J.str j "name"), (← J.str j "mark"))
def parseTCall (j : Json) : JE (String × String) := do pure ((← J.str j "name"), (← J.str j "arg"))

def renderRun (o : Option String) : String := o.getD "!error"

/-- case: {"family":"toollist","lists":[[{"name","mark"}]],"dflt":[…],
           "runs":[{"hasList":b,"list":idx,"calls":[{"name","arg"}]}],"sched":[run indices]}
    answer per run: the outputs of its tool calls executed by the tools of ITS list (alone), and
    by the conversion the node-level machine hands it under `sched` (interleaved; memo = the
    Expected fact `toolsNodeRunPathWrites ≠ []`). -/
def handleToolList (c : Json) : JE Json := do
  let lists ← (← J.arr c "lists").mapM fun j => do (← J.asArr j).mapM parseTool
  let dflt ← (← J.arr c "dflt").mapM parseTool
  let runs ← (← J.arr c "runs").mapM fun j => do
    pure (J.boolD j "hasList" false, J.natD j "list" 0, (← (← J.arr j "calls").mapM parseTCall))
  let sched ← J.natList c "sched"
  let listOf : Nat → Nat := fun k => match runs[k]? with | some (_, l, _) => l | none => 0
  let memo := !Expected.C09.toolsNodeRunPathWrites.isEmpty
  let st := Tools.exec memo listOf sched Tools.St.init
  let al := runs.map fun (has, l, calls) =>
    renderRun (if has then (lists[l]?).bind (fun tl => Tools.runOut tl calls) else Tools.runOut dflt calls)
  let inter := (List.range runs.length).map fun k =>
    match runs[k]? with
    | none => "?"
    | some (has, _, calls) =>
      if has then
        match (st.rs k).tuple with
        | none => "?"
        | some l => renderRun ((lists[l]?).bind (fun tl => Tools.runOut tl calls))
      else renderRun (Tools.runOut dflt calls)
  let complete := (List.range runs.length).all fun k =>
    match runs[k]? with
    | some (true, _, _) => (st.rs k).tuple.isSome
    | _ => true
  pure <| Json.mkObj [
    ("interleaved", J.mkStrs inter),
    ("alone", J.mkStrs al),
    ("complete", Json.bool complete)]

/-! ### family "errpath": runs that fail (Model/C09Err.lean) -/

def parseSite (s : String) : Err.Site :=
  match s with
  | "loop" => .loop
  | "branch" => .branch
  | "merge" => .merge
  | _ => .none

def parseDir (s : String) : Err.Dir :=
  if s = "site" then .site
  else if s.startsWith "f" then
    match (s.drop 1).toNat? with
    | some l => .fail l
    | none => .ok
  else .ok

def parseObj (j : Json) : JE Err.Obj := do
  let levels ← (← J.arr j "levels").mapM fun l => do
    pure ({ key := J.strD l "key" "", pre := J.natD l "pre" 0, post := J.natD l "post" 0 } : Err.Level)
  pure { levels := levels, site := parseSite (J.strD j "site" "none") }

/-- case: {"family":"errpath","objs":[{"levels":[{"key","pre","post"}],"site":"none|loop|branch|merge"}],
           "calls":[{"obj":idx,"tok":..,"dir":"ok|site|f<l>"}],"reps":n,"sched":[run indices; run = call * reps + wave]}
    answer: alone[call] = the specification `runSpec` rendered; interleaved[run] = for a failing run
    what the error object it returned reads after the error-object machine ran `sched` (with the
    Expected fact `runErrorsFresh`; the initial heap holds the package-level object a shared
    "exceeds max steps" error would be), for a successful run its value. -/
def handleErrPath (c : Json) : JE Json := do
  let objs ← (← J.arr c "objs").mapM parseObj
  let calls ← (← J.arr c "calls").mapM fun j => do
    pure (J.natD j "obj" 0, (← J.str j "tok"), parseDir (J.strD j "dir" "ok"))
  let reps := max 1 (J.natD c "reps" 1)
  let sched ← J.natList c "sched"
  let objOf : Nat → Err.Obj := fun k => objs.getD k ⟨[], .none⟩
  let al := calls.map fun (k, tok, d) => Err.render (Err.runSpec (objOf k) tok d)
  let runs := calls.flatMap fun x => List.replicate reps x
  let progs := runs.map fun (k, _, d) => Err.progOf (objOf k) d
  let st := Err.exec Expected.C09.runErrorsFresh progs sched (Err.St.init Err.sharedHeap)
  let inter := (List.range runs.length).map fun t =>
    match runs[t]? with
    | none => "?"
    | some (k, tok, d) =>
      match Err.progOf (objOf k) d with
      | none => Err.render (Err.runSpec (objOf k) tok d)
      | some _ =>
        match Err.read st t with
        | some cell => Err.renderErr cell.tag cell.cause cell.path
        | none => "?"
  let complete := (List.range runs.length).all fun t => Err.done progs st t
  pure <| Json.mkObj [
    ("interleaved", J.mkStrs inter),
    ("alone", J.mkStrs al),
    ("complete", Json.bool complete)]

def handle (c : Json) : JE Json :=
  match J.strD c "family" "" with
  | "errpath" => handleErrPath c
  | "optshare" => handleOptShare c
  | "cbshare" => handleCbShare c
  | "inflight" => handleInFlight c
  | "branchmix" => handleBranchMix c
  | "toollist" => handleToolList c
  | _ => handleLayered c

end EinoV.Oracle.C09
