import EinoV.Basic.JsonUtil
import EinoV.Model.C17
import EinoV.Model.C17Late
import EinoV.Model.C17Utils
import EinoV.Model.C17Readers
import EinoV.Expected.C17

/-
  Oracle for C17.  Case language (shared with harness/props/c17.go):

  {"assistant":bool,
   "tools":[{"name":s,"kind":"inv|str|both|none","tag":s,"diverge":bool}],
   "handler":bool,
   "calls":[{"id":s,"name":s,"args":s,"fault":"none|err|panic","fid":n,"cuts":[n..],"empty":bool,
             "late":bool,"hold":n,"onDone":"fail|stop|ignore"}],
   "sigma":[n..], "mode":"invoke|stream", "host":"standalone|graph|graphConcat", "sched":[n..],
   "prod":[n..], "cancelAfter":n?}

  Family `utils` (Model/C17Utils.lean): a tool of kind "uinv" / "ustr" ("req":"val|ptr|map")
  is built by the constructors of components/tool/utils over the request {a string, n int,
  u string}; the arguments of a call naming it are a JSON object with any of these fields.
  Its function answers {"r":"<tag>|a=<a>|n=<n>|u=<u>"} from the decoded request ("ustr": that
  text as two chunks {"r":"<first half>"}{"r":"<second half>"}), and fails with the error of
  the call when a = "boom".  "prior" = the calls of an earlier message sent through the same
  node; "overlap" = all calls of the message are inside their tools before the first returns.

  Family `readers` (Model/C17Readers.lean): "readers":k = the node's stream has k consumers
  (copies of it, or — hosts "graphBranch" / "graphFan" — a non-stream branch condition and
  the node it selects / two non-stream successors), each concatenating what it received; the
  answer lists every reader's concatenation ("readers").

  Family `late` (Model/C17Late.lean): a call with "late" has its streamable form send only
  the first `hold` chunks before StreamableRun returns and the others afterwards, one per
  step of the production script `prod`, looking at its context before each (`onDone`: what
  it does on finding it done); `cancelAfter` = the caller cancels after that many steps of
  the script (absent: never).  Only the streamed form is affected.

  A tool's behaviour on an argument string is looked up by the call carrying that argument
  (argument strings are unique per call position: they start with the position):
  fault none → output  tag ++ "(" ++ args ++ ")"   (the streamable form: that string cut
  at `cuts`, remainder last; `empty` → no chunk at all; `diverge` → prefixed with "S");
  fault err → error `fid`; fault panic → panic `fid`.
  The unknown-tool handler answers  "H:" ++ name ++ "(" ++ args ++ ")".
-/
namespace EinoV.Oracle.C17
open Lean EinoV EinoV.C17

structure CallSpec where
  call : Call
  fault : String
  fid : Nat
  cuts : List Nat
  empty : Bool
  pace : Option Pace

def cutList (cs : List Char) : List Nat → List (List Char)
  | [] => [cs]
  | k :: ks => cs.take k :: cutList (cs.drop k) ks

def chunksOf (s : String) (sp : CallSpec) : List String :=
  if sp.empty then [] else (cutList s.toList sp.cuts).map String.ofList

def specFor (specs : List CallSpec) (args : String) : Option CallSpec :=
  specs.find? (fun sp => sp.call.args == args)

def invFn (specs : List CallSpec) (outp : String → String) : String → Out String := fun a =>
  match specFor specs a with
  | none => .ok (outp a)
  | some sp =>
    if sp.fault == "err" then .err (.user sp.fid)
    else if sp.fault == "panic" then .panic sp.fid
    else .ok (outp a)

def strFn (specs : List CallSpec) (outp : String → String) : String → Out (List String) := fun a =>
  match specFor specs a with
  | none => .ok [outp a]
  | some sp =>
    if sp.fault == "err" then .err (.user sp.fid)
    else if sp.fault == "panic" then .panic sp.fid
    else .ok (chunksOf (outp a) sp)

/-- the fields a JSON argument string carries (anything else: none) -/
def parseArgs (s : String) : Args :=
  match Json.parse s with
  | .error _ => ⟨none, none, none⟩
  | .ok j =>
    let str (k : String) : Option String := match j.getObjVal? k with
      | .ok (.str v) => some v
      | _ => none
    let nat (k : String) : Option Nat := match j.getObjVal? k with
      | .ok v => v.getNat?.toOption
      | _ => none
    ⟨str "a", nat "n", str "u"⟩

def utilsText (tag : String) (r : Req) : String :=
  tag ++ "|a=" ++ r.a ++ "|n=" ++ toString r.n ++ "|u=" ++ r.u

def utilsJson (t : String) : String := "{\"r\":\"" ++ t ++ "\"}"

/-- the user's function of a utils-built tool; `fidOf r` = the error id of the (first) call
    whose arguments decode to `r` -/
def mkUTool (specs : List CallSpec) (kind req tag : String) : UTool :=
  let fidOf (r : Req) : Nat :=
    match specs.find? (fun sp => decodeFresh (parseArgs sp.call.args) == r) with
    | some sp => sp.fid
    | none => 0
  let rk : ReqKind := if req == "ptr" then .ptr else if req == "map" then .map else .val
  let inv : Req → Out String := fun r =>
    if r.a == "boom" then .err (.user (fidOf r)) else .ok (utilsJson (utilsText tag r))
  let str : Req → Out (List String) := fun r =>
    if r.a == "boom" then .err (.user (fidOf r)) else
      let cs := (utilsText tag r).toList
      let h := cs.length / 2
      .ok [utilsJson (String.ofList (cs.take h)), utilsJson (String.ofList (cs.drop h))]
  ⟨rk, if kind == "uinv" then some inv else none, if kind == "ustr" then some str else none⟩

def mkTool (specs : List CallSpec) (j : Json) : JE (String × MixedTool) := do
  let name ← J.str j "name"
  let kind ← J.str j "kind"
  let tag ← J.str j "tag"
  if kind == "uinv" || kind == "ustr" then
    return (name, .inr (mkUTool specs kind (J.strD j "req" "val") tag))
  let diverge := J.boolD j "diverge" false
  let outI := fun a => tag ++ "(" ++ a ++ ")"
  let outS := fun a => (if diverge then "S" else "") ++ tag ++ "(" ++ a ++ ")"
  let inv := if kind == "inv" || kind == "both" then some (invFn specs outI) else none
  let str := if kind == "str" || kind == "both" then some (strFn specs outS) else none
  pure (name, .inl ⟨inv, str⟩)

def onDoneOf (s : String) : OnDone :=
  if s == "stop" then .stop else if s == "ignore" then .ignore else .fail

def parseCall (j : Json) : JE CallSpec := do
  pure { pace := if J.boolD j "late" false
                 then some ⟨J.natD j "hold" 0, onDoneOf (J.strD j "onDone" "fail")⟩ else none,
         call := ⟨← J.str j "id", ← J.str j "name", ← J.str j "args"⟩,
         fault := J.strD j "fault" "none", fid := J.natD j "fid" 0,
         cuts := (J.arrD j "cuts").filterMap (fun a => a.getNat?.toOption),
         empty := J.boolD j "empty" false }

def terrJson : ToolErr → Json
  | .user id => Json.mkObj [("k", "user"), ("id", (id : Nat))]
  | .panicked p => Json.mkObj [("k", "panic"), ("id", (p : Nat))]
  | .emptyStream => Json.mkObj [("k", "empty")]

def errJson : Err → Json
  | .notAssistant => Json.mkObj [("k", "prerun"), ("why", "notAssistant")]
  | .noToolCalls => Json.mkObj [("k", "prerun"), ("why", "noToolCalls")]
  | .unknownTool n => Json.mkObj [("k", "prerun"), ("why", "unknownTool"), ("name", n)]
  | .tool i e => Json.mkObj [("k", "tool"), ("i", (i : Nat)), ("e", terrJson e)]
  | .stale i => Json.mkObj [("k", "stale"), ("i", (i : Nat))]
  | .nodePanic p => Json.mkObj [("k", "nodePanic"), ("id", (p : Nat))]
  | .notRunnable n => Json.mkObj [("k", "notRunnable"), ("name", n)]

def msgJson : Option Msg → Json
  | none => Json.null
  | some m => Json.mkObj [("id", m.id), ("content", m.content)]

def resJson {α : Type} (okFields : α → List (String × Json)) : Res α → Json
  | .ok a => Json.mkObj ([("class", Json.str "ok")] ++ okFields a)
  | .err e => Json.mkObj [("class", "err"), ("err", errJson e)]
  | .panicEscapes p => Json.mkObj [("class", "panic"), ("id", (p : Nat))]
  | .crash => Json.mkObj [("class", "crash")]

def cerrJson : CErr → Json
  | .emptyStream => "emptyStream"
  | .lengthMismatch => "lengthMismatch"
  | .idMismatch => "idMismatch"

def handle (c : Json) : JE Json := do
  let F := Expected.C17.facts
  let specs ← (← J.arr c "calls").mapM parseCall
  let priorSpecs ← (J.arrD c "prior").mapM parseCall
  let sigma0 := (J.arrD c "sigma").filterMap (fun a => a.getNat?.toOption)
  let mixed ← (← J.arr c "tools").mapM (mkTool specs)
  -- the decode order of the overlapping calls is not observable; with the shipped facts the
  -- result does not depend on it (Props/C17.lean utils_history_irrelevant)
  let tools := mixedTools Expected.C17.ufacts parseArgs (priorSpecs.map (·.call)) (specs.map (·.call)) sigma0 mixed
  let handler : Option Handler :=
    if J.boolD c "handler" false then
      some (fun name => invFn specs (fun a => "H:" ++ name ++ "(" ++ a ++ ")"))
    else none
  let assistant := J.boolD c "assistant" true
  let calls := specs.map (·.call)
  let sigma := (J.arrD c "sigma").filterMap (fun a => a.getNat?.toOption)
  let sched := (J.arrD c "sched").filterMap (fun a => a.getNat?.toOption)
  let mode := J.strD c "mode" "invoke"
  let inG := J.strD c "host" "standalone" != "standalone"
  let wrap {α : Type} (r : Res α) : Res α := if inG then inGraph F r else r
  match newToolNode tools with
  | .error e => pure (Json.mkObj [("class", "newnode-err"), ("err", errJson e)])
  | .ok () =>
  let ran := match genTasks F tools handler assistant calls with
    | .ok ts => ts.length
    | .error _ => 0
  let seen := fun (i : Nat) => i
  let paces := fun (i : Nat) => (specs[i]?).bind (·.pace)
  let prod := (J.arrD c "prod").filterMap (fun a => a.getNat?.toOption)
  let cancel : Option Nat := match c.getObjVal? "cancelAfter" with
    | .ok v => v.getNat?.toOption
    | .error _ => none
  let body :=
    if mode == "stream" then
      let r := wrap (streamL F Expected.C17.ctxFacts tools handler assistant calls seen sigma paces prod cancel)
      resJson (fun dl =>
        let srcs := dl.map chunksOfItems
        let ctxErrs := (dl.zipIdx.filter fun (its, _) => endsInCtxErr its).map (·.2)
        let perSrc := srcs.zipIdx.map fun (src, i) => J.mkArr (src.map fun ma => msgJson (ma[i]?).join)
        let merged := mergeBy sched srcs
        let coll := match collect merged with
          | .ok l => Json.mkObj [("ok", J.mkArr (l.map msgJson))]
          | .error e => Json.mkObj [("err", cerrJson e)]
        let collJson : Except CErr (List (Option Msg)) → Json
          | .ok l => Json.mkObj [("ok", J.mkArr (l.map msgJson))]
          | .error e => Json.mkObj [("err", cerrJson e)]
        let readers := (readK Expected.C17.concatFacts (J.natD c "readers" 1) merged).1
        [("sources", J.mkArr perSrc), ("ctxErrs", J.mkNats ctxErrs), ("collected", coll),
         ("readers", J.mkArr (readers.map collJson)),
         ("nchunks", (merged.length : Nat))]) r
    else
      let r := wrap (invoke F tools handler assistant calls seen sigma)
      resJson (fun msgs => [("msgs", J.mkArr (msgs.map (fun m => msgJson (some m))))]) r
  pure (body.setObjVal! "ran" (ran : Nat))

end EinoV.Oracle.C17
