import EinoV.Basic.JsonUtil
import EinoV.Model.C11
import EinoV.Model.C11Paths
import EinoV.Model.C11Late
import EinoV.Model.C11Loop
import EinoV.Expected.C11

/-
  C11 oracle.  Case kinds

  {"k":"run", "init":{"ctr":[..],"seq":n},
   "tasks":[{"in":"x","ops":[opspec…],"cut":[i…]}…], -- one pipeline per node, program order;
                                                    --   cut: positions of the value chain to report
   "order":[tid…],                                  -- commit order of the state operations
                                                    --   as logged by the implementation
   "resume":{"mod":{"c":i,"d":n}|null,"order":[tid…]} | absent,
   "micro":seed | absent}                           -- also run the micro-step machine under
                                                    --   a pseudo-random interleaving
  opspec: {"o":"stamp","w":"pre|post|spre|spost|proc|gs","tag":"p"}   state op: v ++ "|" ++ tag ++ seq ; seq += 1
          {"o":"inc","w":…,"c":i,"d":n,"rep":k}                        state op: ctr[i] += d   (k times)
          {"o":"tag","t":"x"}                                          local: v ++ "|" ++ x
          {"o":"const","v":"…"}                                        local: result of an opaque body (sub-graph)

  → {"conforms":b, "ctr":[..], "seq":n, "vals":[[v0,v1,…]…], "remaining":[n…],
     "atInt":{"ctr","seq"}|null, "micro":{"done":b,"ctr":[..],"seq":n}|null}

  {"k":"alloc","tree":{"s":bool,"subs":[…]},"runs":k}
  → {"runs":[[addr|null …pre-order…]…]}

  {"k":"chain","ctrs":n,"in":"x",
   "levels":[{"s":bool,"par":i|-1,"depth":d}…],          -- graph levels, pre-order (parents first)
   "prog":[{"l":lvl,"g":gid,"op":opspec}…],              -- the state operations / local steps of a
                                                         --   sequential nest of graphs, execution order
   "cuts":[{"p":pos,"active":[lvl…],"inst":[run instance per active level],"mod":D|null,
            "subs":[{"g":gid,"l":lvl,"r":inst,"pre":opspec|null}…]}…]}   -- interrupt before prog[p]; the levels active
                                                         --   there (outermost first); resumed with the
                                                         --   modifier ctr[0] += D*(depth+1), or without;
                                                         --   subs: the graph nodes restored as interrupted
                                                         --   nested graphs (checkpoint SkipPreHandler entry)
  prog entries may carry "r": the run instance of level l they belong to (a nested graph inside a cycle
  is run once per iteration: a new instance gets a freshly generated state); a pre-handler entry
  ("w":"pre") of a node restored at the last cut of its level's instance is a LATER execution of that
  node: it runs iff `skipsPre Expected.skipPrePerTask true k` is false; at the cut itself the restored
  execution runs its pre-handler iff `skipsPre … 0` is false (Model/C11Loop.lean)
  → {"out":v,"err":null|"no-state","cells":[{"ctr","seq","order"}…],"vis":[cell|null…],
     "touched":[[cell…]…],"atCut":[[{"l","ctr","seq","order"}…]…]}
  (`resumePath` / `visible` with the Expected resume facts decide which cell a level works on
   after each resume)

  {"k":"paths","ctrs":n,"in":"x",
   "levels":[{"s":bool,"par":i|null,"key":"node key in the parent graph"}…],   -- pre-order
   "prog":[{"l","g","op"} | {"f":"fork"} | {"f":"sib"} | {"f":"endsib","key":k} | {"f":"join"}…],
                                                         -- a nest with parallel sibling graphs, flattened
                                                         --   depth-first: fork saves the value handed to every
                                                         --   sibling, join renders the siblings' results
   "rounds":[{"cuts":[{"p":pos,"l":lvl}…],               -- one interrupt: the graphs `l` that interrupted
                                                         --   themselves, each before prog[p]
              "mod":[d per level]|null}…]}               -- resumed with the modifier "ctr[0] += d_l when
                                                         --   called with the path of level l", or without
  → {"out","err","cells","vis","paths":[[key…] per level],
     "rounds":[{"calls":[{"l","path"}…],"at":[{"l","ctr","seq","order"}…]}…]}
  (`nestLevels` / `modCalls` / `resumeNest` of Model/C11Paths.lean with the Expected resume facts:
   which paths the caller's modifier is called with, and what every level works on afterwards)

  {"k":"late","init":{"ctr","seq"},"tasks":[{"in","ops"}…],          -- one thread per node pipeline + one per closure
   "srcs":[{"t":tid,"lo":i,"hi":j,"ft":t0,"fk":k0}…],                -- operations lo..hi-1 of thread t are called with the
                                                                     --   context handed to operation k0 of thread t0
   "holder":tid,"late":tid,"micro":seed}
  → {"exclusive":b,"tried":b,"done":b,"agree":b,"ctr":[..],"seq":n}
  (`runK` with the Expected context facts under `lateGuard`: a forced schedule — everybody but holder and
   closure runs to the end, the holder stops inside a user function, the closure takes three micro-steps,
   then everybody finishes — and a pseudo-random one; `exclusive`: never two threads inside)

  {"k":"locks","top":bool,"restored":r,"init":{"ctr","seq"},"tasks":[{"in","ops"}…],"micro":seed}
  → {"locks":[mutex id per task],"done":b,"ctr":[..],"seq":n}
  (`runL` with `resumeLockOf` of the Expected facts under a pseudo-random interleaving)
-/
namespace EinoV.Oracle.C11
open Lean EinoV EinoV.C11

structure St where
  ctr : List Nat
  seq : Nat

abbrev V := String

def parseW (s : String) : JE Wrapper :=
  match s with
  | "pre" => pure .pre
  | "post" => pure .post
  | "spre" => pure .streamPre
  | "spost" => pure .streamPost
  | "proc" => pure .process
  | "gs" => pure .getState
  | _ => throw s!"bad wrapper {s}"

def stampOp (w : Wrapper) (tag : String) : Op St V :=
  .st w (fun s v => ({ s with seq := s.seq + 1 }, v ++ "|" ++ tag ++ toString s.seq))

def incOp (w : Wrapper) (c d : Nat) : Op St V :=
  .st w (fun s v => ({ s with ctr := s.ctr.modify c (· + d) }, v))

def parseOp (j : Json) : JE (List (Op St V)) := do
  match (← J.str j "o") with
  | "stamp" => pure [stampOp (← parseW (← J.str j "w")) (← J.str j "tag")]
  | "inc" =>
    let w ← parseW (J.strD j "w" "proc")
    pure (List.replicate (J.natD j "rep" 1) (incOp w (← J.nat j "c") (← J.nat j "d")))
  | "tag" => do let t ← J.str j "t"; pure [.loc (fun v => v ++ "|" ++ t)]
  | "const" => do let v ← J.str j "v"; pure [.loc (fun _ => v)]
  | o => throw s!"bad op {o}"

def parseTask (j : Json) : JE (List (Op St V) × V) := do
  let ops ← (← J.arr j "ops").mapM parseOp
  pure (ops.flatten, ← J.str j "in")

def parseSt (j : Json) : JE St := do
  pure { ctr := ← J.natList j "ctr", seq := ← J.nat j "seq" }

def stJson (s : St) : Json := Json.mkObj [("ctr", J.mkNats s.ctr), ("seq", (s.seq : Json))]

/-- run the pending local operations of thread `t` (they commute with every other thread) -/
def flushLoc : Nat → Core St V → Nat → Core St V
  | 0, c, _ => c
  | fuel + 1, c, t =>
    match nextOp c t with
    | some (.loc _) => flushLoc fuel (astep c t) t
    | _ => c

/-- the implementation logged a state operation of thread `t`: the model must have one
    enabled there -/
def commitSt (c : Core St V) (t : Nat) : Core St V × Bool :=
  let c1 := flushLoc ((pending c t).length) c t
  match nextOp c1 t with
  | some (.st _ _) => (astep c1 t, true)
  | _ => (c1, false)

def follow (order : List Nat) (c : Core St V) : Core St V × Bool :=
  let r := order.foldl (fun (acc : Core St V × Bool) t =>
    let r := commitSt acc.1 t
    (r.1, acc.2 && r.2)) (c, true)
  let n := r.1.threads.length
  ((List.range n).foldl (fun c t => flushLoc ((pending c t).length) c t) r.1, r.2)

/-- pseudo-random micro-step schedule followed by round-robin sweeps -/
def lcg (x : Nat) : Nat := (x * 6364136223846793005 + 1442695040888963407) % 18446744073709551616

def randSched : Nat → Nat → Nat → List Nat
  | 0, _, _ => []
  | k + 1, x, n => let x' := lcg x; ((x' / 8589934592) % n) :: randSched k x' n

/-- round-robin sweeps (every thread gets one micro-step per sweep) until all pipelines are
    finished; the schedule executed is the concatenation of the sweeps -/
def sweeps : Nat → Nat → Sys St V → Sys St V
  | 0, _, sys => sys
  | fuel + 1, n, sys =>
    if allDone sys.core && sys.holder.isNone then sys
    else
      -- threads that can still move: something left to run, or the mutex still to release
      let live := (List.range n).filter fun t =>
        !(pending sys.core t).isEmpty || sys.holder == some t
      sweeps fuel n (run Expected.C11.locks.of noGuard live sys)

def microRun (seed : Nat) (s0 : St) (ths : List (List (Op St V) × V)) : Sys St V :=
  let n := ths.length
  let ops := (ths.map (·.1.length)).foldl (· + ·) 0
  let sys := run Expected.C11.locks.of noGuard (randSched (3 * ops) seed (max n 1)) (init s0 ths)
  sweeps (4 * ops + 4) n sys

/-- per task: the value chain input, after op 1, after op 2, … restricted to the positions
    the harness asks for (`cut`, e.g. after the pre-handler, after the body, at the end) -/
def valsOf (c : Core St V) (inputs : List V) (cuts : List (List Nat)) (logs : List (Ev St V)) : Json :=
  J.mkArr ((List.range c.threads.length).map fun t =>
    let chain := inputs.getD t "" :: (evsOf t logs).map (·.vout)
    match cuts[t]? with
    | some (cut@(_ :: _)) => J.mkStrs (cut.map fun i => chain.getD i "<not-reached>")
    | _ => J.mkStrs chain)

def handleRun (c : Json) : JE Json := do
  let s0 ← parseSt (← J.field c "init")
  let ths ← (← J.arr c "tasks").mapM parseTask
  let order ← J.natList c "order"
  let c0 : Core St V := ⟨s0, ths, []⟩
  let (c1, ok1) := follow order c0
  let inputs := ths.map (·.2)
  let cuts := (J.arrD c "tasks").map fun tj =>
    (J.arrD tj "cut").filterMap fun x => x.getNat?.toOption
  -- the micro-step run knows no interrupt: the (commuting) modifier is applied at its end
  let microJ (modifier : Option (St → St)) : Json :=
    match (J.fieldD c "micro" Json.null).getNat? with
    | .ok seed =>
      let m := microRun seed s0 ths
      let fin := match modifier with | some f => f m.core.shared | none => m.core.shared
      Json.mkObj [("done", Json.bool (allDone m.core)), ("ctr", J.mkNats fin.ctr),
                  ("seq", (fin.seq : Json))]
    | .error _ => Json.null
  match J.fieldD c "resume" Json.null with
  | .null =>
    pure <| Json.mkObj [
      ("conforms", Json.bool ok1), ("ctr", J.mkNats c1.shared.ctr), ("seq", (c1.shared.seq : Json)),
      ("vals", valsOf c1 inputs cuts c1.log), ("remaining", J.mkNats (c1.threads.map (·.1.length))),
      ("atInt", Json.null), ("micro", microJ none)]
  | r =>
    let modifier : Option (St → St) ←
      match J.fieldD r "mod" Json.null with
      | .null => pure none
      | m => do
        let ci ← J.nat m "c"
        let d ← J.nat m "d"
        pure (some (fun (s : St) => { s with ctr := s.ctr.modify ci (· + d) }))
    let order2 ← J.natList r "order"
    let cp := interruptCP Expected.C11.cpSavesState (some c1.shared)
    match resumeCore Expected.C11.cpRestoredBeforeTasks modifier cp c1.threads with
    | none => throw "resume: no state in the resumed context"
    | some c2 =>
      let (c3, ok2) := follow order2 c2
      pure <| Json.mkObj [
        ("conforms", Json.bool (ok1 && ok2)), ("ctr", J.mkNats c3.shared.ctr),
        ("seq", (c3.shared.seq : Json)),
        ("vals", valsOf c3 inputs cuts (c1.log ++ c3.log)),
        ("remaining", J.mkNats (c3.threads.map (·.1.length))),
        ("atInt", stJson c1.shared), ("micro", microJ modifier)]

mutual
partial def parseTree (j : Json) : JE GTree := do
  let s := J.boolD j "s" false
  pure (.mk (if s then some 0 else none) (← parseTrees (J.arrD j "subs")))
partial def parseTrees : List Json → JE GTrees
  | [] => pure .nil
  | j :: js => do pure (.cons (← parseTree j) (← parseTrees js))
end

def handleAlloc (c : Json) : JE Json := do
  let g ← parseTree (← J.field c "tree")
  let k ← J.nat c "runs"
  let runs := runMany Expected.C11.genPerRun g k 0
  pure <| Json.mkObj [("runs", J.mkArr (runs.map fun l =>
    J.mkArr (l.map fun | some a => (a : Json) | none => Json.null)))]

/-! ### resume family: a sequential nest of graph levels, interrupted and resumed -/

structure StL where
  ctr : List Nat
  seq : Nat
  order : List Nat

def stLJson (s : StL) : Json :=
  Json.mkObj [("ctr", J.mkNats s.ctr), ("seq", (s.seq : Json)), ("order", J.mkNats s.order)]

structure Lvl where
  stateful : Bool
  par : Option Nat
  depth : Nat

structure ChainSt where
  cells : List StL
  vis : List (Option Nat)
  v : String
  err : Option String
  touched : List (List Nat)

def visOf (levels : List Lvl) (seenAt : Nat → Option (Seen StL)) : List (Option Nat) :=
  (List.range levels.length).foldl (fun (acc : List (Option Nat)) i =>
    let inh : Option Nat :=
      match (levels[i]?).bind (·.par) with
      | some p => acc.getD p none
      | none => none
    let own : Option Nat :=
      match seenAt i with
      | some (.own _) => some i
      | some .inherited => inh
      | none => if (levels[i]?.map (·.stateful)).getD false then some i else inh
    acc ++ [own]) []

def touch (t : List (List Nat)) (l c : Nat) : List (List Nat) :=
  t.modify l (fun cs => if cs.contains c then cs else cs ++ [c])

/-- one state operation of level `l`, `upd` acting on the cell that level sees -/
def onCell (st : ChainSt) (l : Nat) (upd : StL → String → StL × String) : ChainSt :=
  match st.err with
  | some _ => st
  | none =>
    match st.vis.getD l none with
    | none => { st with err := some "no-state" }
    | some c =>
      match st.cells[c]? with
      | none => { st with err := some "no-state" }
      | some cell =>
        let r := upd cell st.v
        { st with cells := st.cells.set c r.1, v := r.2, touched := touch st.touched l c }

def repeatN {α : Type} (f : α → α) : Nat → α → α
  | 0, a => a
  | n + 1, a => repeatN f n (f a)

def chainOp (st : ChainSt) (l g : Nat) (j : Json) : JE ChainSt := do
  match (← J.str j "o") with
  | "tag" => do let t ← J.str j "t"; pure (if st.err.isSome then st else { st with v := st.v ++ "|" ++ t })
  | "const" => do let t := J.strD j "v" ""; pure (if st.err.isSome then st else { st with v := t })
  | "enter" => pure st   -- a nested graph starts a run (its entry's "r" is the new run instance)
  | "stamp" => do
    let tag ← J.str j "tag"
    pure <| onCell st l fun s v =>
      ({ s with seq := s.seq + 1, order := s.order ++ [g] }, v ++ "|" ++ tag ++ toString s.seq)
  | "inc" => do
    let c ← J.nat j "c"
    let d ← J.nat j "d"
    pure <| repeatN (fun st => onCell st l fun s v =>
      ({ s with ctr := s.ctr.modify c (· + d), order := s.order ++ [g] }, v)) (J.natD j "rep" 1) st
  | o => throw s!"bad chain op {o}"

def handleChain (c : Json) : JE Json := do
  let ctrs ← J.nat c "ctrs"
  let levels ← (← J.arr c "levels").mapM fun lj => do
    let par := match (J.fieldD lj "par" Json.null).getNat? with | .ok n => some n | .error _ => none
    pure (⟨J.boolD lj "s" false, par, J.natD lj "depth" 0⟩ : Lvl)
  let prog ← J.arr c "prog"
  let cuts ← (← J.arr c "cuts").mapM fun cj => do
    let modD := match (J.fieldD cj "mod" Json.null).getNat? with | .ok n => some n | .error _ => none
    let inst := (J.arrD cj "inst").map fun x => (x.getNat?.toOption).getD 0
    pure ((← J.nat cj "p"), (← J.natList cj "active"), modD, J.arrD cj "subs", inst)
  let fresh : StL := ⟨List.replicate ctrs 0, 0, []⟩
  let n := levels.length
  let mut st : ChainSt :=
    { cells := List.replicate n fresh, vis := visOf levels (fun _ => none), v := ← J.str c "in",
      err := none, touched := List.replicate n [] }
  let mut atCut : List Json := []
  let mut pos := 0
  -- levels whose resume decided what they see (sticky for the rest of the run)
  let mut decided : List (Nat × Seen StL) := []
  -- the run instance of every level; the nodes restored as interrupted nested graphs at the last
  -- cut of their level's instance: (gid, level, instance, executions seen since)
  let mut curRun : List Nat := List.replicate n 0
  let mut marks : List (Nat × Nat × Nat × Nat) := []
  for pj in prog ++ [Json.null] do
    for (p, active, modD, subs, inst) in cuts do
      if p == pos then
        -- an active level that has just been entered anew (no operation of the new run yet)
        for (l, r) in active.zip inst do
          if curRun.getD l 0 != r then
            curRun := curRun.set l r
            marks := marks.filter fun m => m.2.1 != l
            decided := decided.filter (·.1 != l)
            let dec := decided
            st := { st with cells := st.cells.set l fresh,
                            vis := visOf levels (fun i => (dec.find? (·.1 == i)).map (·.2)) }
        -- interrupt here: checkpoint every active level, then resume
        let lv : List (Option (StL → StL) × Option StL) := active.map fun l =>
          let depth := (levels[l]?.map (·.depth)).getD 0
          let m : Option (StL → StL) := modD.map fun d => fun (s : StL) =>
            { s with ctr := s.ctr.modify 0 (· + d * (depth + 1)) }
          -- what the level's context carries, and what its interrupt handler saves of it
          let declares := (levels[l]?.map (·.stateful)).getD false
          let ctxState : Option StL := (st.vis.getD l none).bind fun c => st.cells[c]?
          (m, saveAt Expected.C11.cpSavesOwnStateOnly declares ctxState)
        atCut := atCut ++ [J.mkArr ((active.zip lv).filterMap fun (l, x) =>
          x.2.map fun s => Json.mkObj [("l", (l : Json)), ("ctr", J.mkNats s.ctr),
            ("seq", (s.seq : Json)), ("order", J.mkNats s.order)])]
        let seen := resumePath Expected.C11.topResume Expected.C11.subResume lv
        for (l, sn) in active.zip seen do
          decided := (decided.filter (·.1 != l)) ++ [(l, sn)]
          match sn with
          | .own s => st := { st with cells := st.cells.set l s }
          | .inherited => pure ()
        let dec := decided
        st := { st with vis := visOf levels (fun i => (dec.find? (·.1 == i)).map (·.2)) }
        -- the resumed levels get the skip marks of their new checkpoints
        marks := marks.filter fun m => !active.contains m.2.1
        for sj in subs do
          let g ← J.nat sj "g"
          let l ← J.nat sj "l"
          marks := marks ++ [(g, l, J.natD sj "r" 0, 0)]
          -- the restored execution itself: its pre-handler ran before the interrupt
          if !skipsPre Expected.C11.skipPrePerTask true 0 then
            match J.fieldD sj "pre" Json.null with
            | .null => pure ()
            | pre => st ← chainOp st l g pre
    if pj != Json.null then
      let l ← J.nat pj "l"
      let g ← J.nat pj "g"
      let r := J.natD pj "r" 0
      if curRun.getD l 0 != r then
        -- a new run of level l (a cycle of an enclosing level came back to it): a graph that
        -- declares state gets a freshly generated one, nothing of the old run's resume applies
        curRun := curRun.set l r
        marks := marks.filter fun m => m.2.1 != l
        decided := decided.filter (·.1 != l)
        let dec := decided
        st := { st with cells := st.cells.set l fresh,
                        vis := visOf levels (fun i => (dec.find? (·.1 == i)).map (·.2)) }
      let op ← J.field pj "op"
      let isPre := J.strD op "o" "" == "stamp" && J.strD op "w" "" == "pre"
      let mut skip := false
      if isPre then
        match marks.find? (fun m => m.1 == g && m.2.2.1 == r) with
        | some m =>
          let k := m.2.2.2 + 1
          marks := marks.map fun x => if x.1 == g && x.2.2.1 == r then (x.1, x.2.1, x.2.2.1, k) else x
          skip := skipsPre Expected.C11.skipPrePerTask true k
        | none => pure ()
      if !skip then
        st ← chainOp st l g op
    pos := pos + 1
  pure <| Json.mkObj [
    ("out", Json.str st.v),
    ("err", match st.err with | some e => Json.str e | none => Json.null),
    ("cells", J.mkArr (st.cells.map stLJson)),
    ("vis", J.mkArr (st.vis.map fun | some a => (a : Json) | none => Json.null)),
    ("touched", J.mkArr (st.touched.map J.mkNats)),
    ("atCut", J.mkArr atCut)]

/-! ### resume family: nests with parallel sibling graphs — node paths and the modifier -/

structure PLvl where
  stateful : Bool
  par : Option Nat
  key : String

/-- ancestors-or-self of level `l`, innermost first -/
def ancestorsOf (levels : List PLvl) : Nat → Nat → List Nat
  | 0, _ => []
  | fuel + 1, l =>
    l :: match (levels[l]?).bind (·.par) with
         | some p => ancestorsOf levels fuel p
         | none => []

/-- the nest of the levels in `active` below level `parent`, with what each of them saved -/
def buildSubs (levels : List PLvl) (active : List Nat) (saved : Nat → Option StL) :
    Nat → Nat → LTrees StL
  | 0, _ => .nil
  | fuel + 1, parent =>
    let kids := (List.range levels.length).filter fun i =>
      active.contains i && ((levels[i]?).bind (·.par)) == some parent
    kids.foldr (fun i acc =>
      .cons (.mk ((levels[i]?.map (·.key)).getD "") (saved i)
        (buildSubs levels active saved fuel i)) acc) .nil

def insertKV (kv : String × String) : List (String × String) → List (String × String)
  | [] => [kv]
  | x :: xs => if kv.1 < x.1 then kv :: x :: xs else x :: insertKV kv xs

def renderKVs (kvs : List (String × String)) : String :=
  (kvs.foldr insertKV []).foldl (fun acc kv => acc ++ kv.1 ++ "=" ++ kv.2 ++ ";") ""

def stLEq (a b : StL) : Bool := a.ctr == b.ctr && a.seq == b.seq && a.order == b.order

def seenEq : Seen StL → Seen StL → Bool
  | .own a, .own b => stLEq a b
  | .inherited, .inherited => true
  | _, _ => false

def handlePaths (c : Json) : JE Json := do
  let ctrs ← J.nat c "ctrs"
  let levels ← (← J.arr c "levels").mapM fun lj => do
    let par := match (J.fieldD lj "par" Json.null).getNat? with | .ok n => some n | .error _ => none
    pure (⟨J.boolD lj "s" false, par, J.strD lj "key" ""⟩ : PLvl)
  let n := levels.length
  let chainLevels : List Lvl := levels.map fun l => ⟨l.stateful, l.par, 0⟩
  let allIdx := List.range n
  -- the node path of every level: the whole nest, top-level graph = level 0
  let pathOf : List (List String) :=
    (nestLevels (none : Option StL) (buildSubs levels allIdx (fun _ => none) (n + 1) 0)).map (·.1)
  if pathOf.length != n then throw "paths: the levels are not a tree in pre-order"
  let prog ← J.arr c "prog"
  -- rounds: per round the cuts (pos, level) and the per-level deltas of the modifier
  let rounds ← (← J.arr c "rounds").mapM fun rj => do
    let cuts ← (← J.arr rj "cuts").mapM fun cj => do pure ((← J.nat cj "p"), (← J.nat cj "l"))
    let modD : Option (List Nat) :=
      match J.fieldD rj "mod" Json.null with
      | .null => none
      | _ => some ((J.arrD rj "mod").map fun x => (x.getNat?.toOption).getD 0)
    -- per active level: the position at which it is checkpointed and restored
    let active := allIdx.filter fun l => cuts.any fun (_, leaf) => (ancestorsOf levels (n + 1) leaf).contains l
    let posOf := fun (l : Nat) =>
      (cuts.filter fun (_, leaf) => (ancestorsOf levels (n + 1) leaf).contains l).foldl
        (fun acc (p, _) => match acc with | none => some p | some q => some (min p q)) (none : Option Nat)
    -- the caller's modifier, dispatching on the path
    let m : Option (List String → StL → StL) := modD.map fun ds => fun q s =>
      match (pathOf.zip ds).find? (fun x => x.1 == q) with
      | some (_, d) => { s with ctr := s.ctr.modify 0 (· + d) }
      | none => s
    pure (active, posOf, m)
  let fresh : StL := ⟨List.replicate ctrs 0, 0, []⟩
  let mut st : ChainSt :=
    { cells := List.replicate n fresh, vis := visOf chainLevels (fun _ => none), v := ← J.str c "in",
      err := none, touched := List.replicate n [] }
  let mut stack : List (String × List (String × String)) := []
  let mut decided : List (Nat × Seen StL) := []
  -- per round: what each active level saved / was resumed with (filled at its position)
  let mut savedR : List (List (Nat × Option StL)) := rounds.map fun _ => []
  let mut seenR : List (List (Nat × Seen StL)) := rounds.map fun _ => []
  let mut pos := 0
  for pj in prog ++ [Json.null] do
    let mut ri := 0
    for (active, posOf, m) in rounds do
      for l in active do
        if posOf l == some pos then
          let declares := (levels[l]?.map (·.stateful)).getD false
          let ctxState : Option StL := (st.vis.getD l none).bind fun cc => st.cells[cc]?
          let sv := saveAt Expected.C11.cpSavesOwnStateOnly declares ctxState
          let f := if l == 0 then Expected.C11.topResume else Expected.C11.subResume
          let q := pathOf.getD l []
          let sn := resumeLevel f (m.map (· q)) sv
          savedR := savedR.modify ri (· ++ [(l, sv)])
          seenR := seenR.modify ri (· ++ [(l, sn)])
          decided := (decided.filter (·.1 != l)) ++ [(l, sn)]
          match sn with
          | .own s => st := { st with cells := st.cells.set l s }
          | .inherited => pure ()
          let dec := decided
          st := { st with vis := visOf chainLevels (fun i => (dec.find? (·.1 == i)).map (·.2)) }
      ri := ri + 1
    if pj != Json.null then
      match (J.fieldD pj "f" Json.null).getStr? with
      | .ok "fork" => stack := (st.v, []) :: stack
      | .ok "sib" =>
        match stack with
        | (v, _) :: _ => st := { st with v := v }
        | [] => throw "paths: sib outside fork"
      | .ok "endsib" =>
        match stack with
        | (v, outs) :: rest => stack := (v, outs ++ [(J.strD pj "key" "", st.v)]) :: rest
        | [] => throw "paths: endsib outside fork"
      | .ok "join" =>
        match stack with
        | (_, outs) :: rest =>
          stack := rest
          st := { st with v := renderKVs outs }
        | [] => throw "paths: join outside fork"
      | _ => st ← chainOp st (← J.nat pj "l") (← J.nat pj "g") (← J.field pj "op")
    pos := pos + 1
  -- the whole nest of every round at once: the modifier calls and what every level sees
  let mut roundsJ : List Json := []
  let mut ri := 0
  for (active, _, m) in rounds do
    let sv := savedR.getD ri []
    let savedOf := fun (l : Nat) => ((sv.find? (·.1 == l)).map (·.2)).getD none
    if !active.contains 0 then throw "paths: the top-level graph is not active at an interrupt"
    let subs := buildSubs levels active savedOf (n + 1) 0
    let lv := nestLevels (savedOf 0) subs
    let levelOfPath := fun (q : List String) => ((allIdx.zip pathOf).find? (fun x => x.2 == q)).map (·.1)
    let calls := modCalls lv
    let nest := resumeNest Expected.C11.topResume Expected.C11.subResume m (savedOf 0) subs
    -- the level-by-level run above must have used exactly `resumeNest`
    for (q, sn) in nest do
      match levelOfPath q with
      | none => throw "paths: resumeNest produced an unknown path"
      | some l =>
        match (seenR.getD ri []).find? (·.1 == l) with
        | some (_, sn') => if !seenEq sn sn' then throw s!"paths: level {l}: per-level and whole-nest resume differ"
        | none => throw s!"paths: level {l} of the nest was not resumed in the run"
    if nest.length != active.length then throw "paths: nest and active levels differ"
    roundsJ := roundsJ ++ [Json.mkObj [
      ("calls", J.mkArr (calls.map fun (q, _) =>
        Json.mkObj [("l", match levelOfPath q with | some l => (l : Json) | none => Json.null),
                    ("path", J.mkStrs q)])),
      ("at", J.mkArr (sv.filterMap fun (l, o) => o.map fun s =>
        Json.mkObj [("l", (l : Json)), ("ctr", J.mkNats s.ctr), ("seq", (s.seq : Json)),
                    ("order", J.mkNats s.order)]))]]
    ri := ri + 1
  pure <| Json.mkObj [
    ("out", Json.str st.v),
    ("err", match st.err with | some e => Json.str e | none => Json.null),
    ("cells", J.mkArr (st.cells.map stLJson)),
    ("vis", J.mkArr (st.vis.map fun | some a => (a : Json) | none => Json.null)),
    ("paths", J.mkArr (pathOf.map J.mkStrs)),
    ("rounds", J.mkArr roundsJ)]

/-! ### resume family: restored and later-created tasks, which mutex -/

def noGuardL : SysL St V → Nat → Bool := fun _ _ => true

def sweepsL (lockOf : Nat → Nat) : Nat → Nat → SysL St V → SysL St V
  | 0, _, sys => sys
  | fuel + 1, n, sys =>
    let live := (List.range n).filter fun t =>
      !(pending sys.core t).isEmpty || (match sys.phase t with | .idle => false | _ => true)
    if live.isEmpty then sys
    else sweepsL lockOf fuel n (runL lockOf Expected.C11.locks.of noGuardL live sys)

def handleLocks (c : Json) : JE Json := do
  let s0 ← parseSt (← J.field c "init")
  let ths ← (← J.arr c "tasks").mapM parseTask
  let f := if J.boolD c "top" true then Expected.C11.topResume else Expected.C11.subResume
  let lockOf := resumeLockOf f.oneHolder (← J.nat c "restored")
  let n := ths.length
  let ops := (ths.map (·.1.length)).foldl (· + ·) 0
  let seed := J.natD c "micro" 1
  let sys := runL lockOf Expected.C11.locks.of noGuardL (randSched (3 * ops) seed (max n 1)) (initL s0 ths)
  let fin := sweepsL lockOf (4 * ops + 4) n sys
  pure <| Json.mkObj [
    ("locks", J.mkNats ((List.range n).map lockOf)),
    ("done", Json.bool (allDone fin.core)),
    ("ctr", J.mkNats fin.core.shared.ctr), ("seq", (fin.core.shared.seq : Json))]

/-! ### late family: `ProcessState` through a captured handler context -/

/-- run a schedule of `runK` (Expected lock table, `lateGuard`), remembering whether two
    threads were ever inside at once -/
def runKTrack (cf : CtxFacts) (srcs : Nat → Nat → CtxSrc) (n : Nat) (sched : List Nat)
    (acc : Sys St V × Bool) : Sys St V × Bool :=
  sched.foldl (fun acc t =>
    let s' := gstepK cf srcs Expected.C11.locks.of (lateGuard srcs) acc.1 t
    (s', acc.2 && decide (insideCount s' n ≤ 1))) acc

/-- round-robin sweeps over the threads not in `skip` until none of them can move -/
def sweepsK (cf : CtxFacts) (srcs : Nat → Nat → CtxSrc) (skip : List Nat) :
    Nat → Nat → Sys St V × Bool → Sys St V × Bool
  | 0, _, acc => acc
  | fuel + 1, n, acc =>
    let live := (List.range n).filter fun t =>
      !skip.contains t && (!(pending acc.1.core t).isEmpty || inside acc.1 t)
    if live.isEmpty then acc else sweepsK cf srcs skip fuel n (runKTrack cf srcs n live acc)

/-- step thread `h` until it has read the state inside a user function -/
def untilLoaded (cf : CtxFacts) (srcs : Nat → Nat → CtxSrc) (n h : Nat) :
    Nat → Sys St V × Bool → Sys St V × Bool
  | 0, acc => acc
  | fuel + 1, acc =>
    match acc.1.phase h with
    | .loaded _ => acc
    | _ => untilLoaded cf srcs n h fuel (runKTrack cf srcs n [h] acc)

def handleLate (c : Json) : JE Json := do
  let s0 ← parseSt (← J.field c "init")
  let ths ← (← J.arr c "tasks").mapM parseTask
  let n := ths.length
  let spans ← (← J.arr c "srcs").mapM fun sj => do
    pure ((← J.nat sj "t"), (← J.nat sj "lo"), (← J.nat sj "hi"), (← J.nat sj "ft"), (← J.nat sj "fk"))
  let srcs : Nat → Nat → CtxSrc := fun t k =>
    match spans.find? (fun x => x.1 == t && x.2.1 ≤ k && k < x.2.2.1) with
    | some x => .handed x.2.2.2.1 x.2.2.2.2
    | none => .own
  let holder ← J.nat c "holder"
  let late ← J.nat c "late"
  let cf := Expected.C11.ctxFacts
  let ops := (ths.map (·.1.length)).foldl (· + ·) 0
  let fuel := 4 * ops + 4
  let a0 : Sys St V × Bool := (init s0 ths, true)
  -- forced: the others finish, the holder stops inside, the closure tries, everybody finishes
  let a1 := sweepsK cf srcs [holder, late] fuel n a0
  let a2 := untilLoaded cf srcs n holder fuel a1
  let held := match a2.1.phase holder with | .loaded _ => true | _ => false
  let tried := held && !(pending a2.1.core late).isEmpty && lateGuard srcs a2.1 late
  let a3 := runKTrack cf srcs n [late, late, late] a2
  let a4 := sweepsK cf srcs [] fuel n a3
  -- pseudo-random
  let b1 := runKTrack cf srcs n (randSched (3 * ops) (J.natD c "micro" 1) (max n 1)) a0
  let b2 := sweepsK cf srcs [] fuel n b1
  let fin := a4.1.core.shared
  pure <| Json.mkObj [
    ("exclusive", Json.bool (a4.2 && b2.2)), ("tried", Json.bool tried),
    ("done", Json.bool (allDone a4.1.core && allDone b2.1.core)),
    ("agree", Json.bool (fin.ctr == b2.1.core.shared.ctr && fin.seq == b2.1.core.shared.seq)),
    ("ctr", J.mkNats fin.ctr), ("seq", (fin.seq : Json))]

def handle (c : Json) : JE Json := do
  match (← J.str c "k") with
  | "late" => handleLate c
  | "run" => handleRun c
  | "alloc" => handleAlloc c
  | "chain" => handleChain c
  | "locks" => handleLocks c
  | "paths" => handlePaths c
  | k => throw s!"bad case kind {k}"

end EinoV.Oracle.C11
