import EinoV.Model.C08
namespace EinoV.C08
end EinoV.C08
