/-
  C08 — helper lemmas: the invariants of the four transition systems of EinoV/Model/C08.lean
  and their preservation by every step (so they hold after every event list).
-/
import EinoV.Model.C08

set_option linter.unusedSimpArgs false
set_option linter.unusedVariables false

namespace EinoV.C08

/-! ## Pipe -/

structure PInv (ph : Pipe × PHist) : Prop where
  fifo : ph.2.accepted = ph.2.recvd ++ ph.1.buf
  eofClosed : ph.2.eof = true → ph.1.sendClosed = true ∧ ph.1.buf = []
  noItemAfterEof : ph.2.itemAfterEof = false
  noLate : ph.2.lateAccept = false

theorem PInv.init (cap : Nat) : PInv (Pipe.new cap, {}) := by
  constructor <;> simp [Pipe.new]

theorem PInv.step {ph ph' : Pipe × PHist} {e : PEv} (h : PInv ph)
    (hs : Pipe.stepH ph e = some ph') : PInv ph' := by
  obtain ⟨p, hi⟩ := ph
  obtain ⟨h1, h2, h3, h4⟩ := h
  simp only at h1 h2 h3 h4
  cases e with
  | send i =>
    simp only [Pipe.stepH, Pipe.send] at hs
    by_cases hsc : p.sendClosed = true <;> by_cases hrc : p.recvClosed = true <;>
      by_cases hl : p.buf.length < p.cap <;> simp [hsc, hrc, hl] at hs <;> subst hs <;>
      constructor <;> simp_all
  | handoff i =>
    simp only [Pipe.stepH, Pipe.handoff] at hs
    split at hs
    · rename_i p' heq
      split at heq <;> simp at heq
      subst heq
      simp at hs; subst hs
      rename_i hc
      simp at hc
      constructor <;> simp_all
    · simp at hs
  | recv =>
    simp only [Pipe.stepH, Pipe.recv] at hs
    cases hb : p.buf with
    | nil =>
      by_cases hsc : p.sendClosed = true <;> simp [hb, hsc] at hs
      subst hs
      constructor <;> simp_all
    | cons x rest =>
      simp [hb] at hs
      subst hs
      constructor <;> simp_all
  | closeSend =>
    simp only [Pipe.stepH, Pipe.closeSend] at hs
    by_cases hsc : p.sendClosed = true <;> simp [hsc] at hs
    subst hs
    constructor <;> simp_all
  | closeRecv =>
    simp only [Pipe.stepH, Pipe.closeRecv] at hs
    by_cases hsc : p.recvClosed = true <;> simp [hsc] at hs
    subst hs
    constructor <;> simp_all

theorem PInv.run {ph ph' : Pipe × PHist} {evs : List PEv} (h : PInv ph)
    (hr : Pipe.runH ph evs = some ph') : PInv ph' := by
  induction evs generalizing ph with
  | nil => simp [Pipe.runH] at hr; subst hr; exact h
  | cons e es ih =>
    simp only [Pipe.runH] at hr
    cases hs : Pipe.stepH ph e with
    | none => simp [hs] at hr
    | some ph1 => simp [hs] at hr; exact ih (h.step hs) hr

/-! ## Convert -/

theorem convRecv_spec (g : Nat → ConvOut) (l : List Item) :
    match convRecv g l with
    | (.eof, rest) => l.filterMap (convItem g) = [] ∧ rest = []
    | (.item y, rest) => l.filterMap (convItem g) = y :: rest.filterMap (convItem g) := by
  induction l with
  | nil => simp [convRecv]
  | cons x xs ih =>
    unfold convRecv
    cases hx : convItem g x with
    | some y => simp [hx]
    | none =>
      simp only [hx]
      rw [List.filterMap_cons_none hx]
      exact ih

theorem convDrain_eq (g : Nat → ConvOut) (l : List Item) :
    convDrain g l = l.filterMap (convItem g) := by
  fun_induction convDrain g l with
  | case1 l rest h =>
    have := convRecv_spec g l
    rw [h] at this
    exact this.1.symm
  | case2 l y rest h hlt ih =>
    have := convRecv_spec g l
    rw [h] at this
    simp only at this
    rw [this, ih]

/-! ## Copy -/

@[simp] theorem itemsOf_nil (i : Nat) : itemsOf i [] = [] := rfl
@[simp] theorem eofOf_nil (i : Nat) : eofOf i [] = false := rfl

theorem itemsOf_append (i j : Nat) (r : Res) (outs : List (Nat × Res)) :
    itemsOf i (outs ++ [(j, r)]) = itemsOf i outs ++ (if j = i then r.item?.toList else []) := by
  unfold itemsOf
  rw [List.filterMap_append]
  congr 1
  by_cases h : j = i <;> simp [h]
  cases r <;> simp [Res.item?]

theorem eofOf_append (i j : Nat) (r : Res) (outs : List (Nat × Res)) :
    eofOf i (outs ++ [(j, r)]) = (eofOf i outs || (decide (j = i) && r.isEof)) := by
  unfold eofOf
  simp [List.any_append]

theorem count_none_lt {l : List (Option Nat)} {i k : Nat} (h : l[i]? = some (some k)) :
    l.count none < l.length := by
  induction l generalizing i with
  | nil => simp at h
  | cons x xs ih =>
    cases i with
    | zero => simp at h; subst h; simp; exact Nat.lt_succ_of_le (List.count_le_length)
    | succ i =>
      simp at h
      have := ih h
      cases x <;> simp [List.count_cons] <;> omega

theorem count_none_set {l : List (Option Nat)} {i k : Nat} (h : l[i]? = some (some k)) :
    (l.set i none).count none = l.count none + 1 := by
  induction l generalizing i with
  | nil => simp at h
  | cons x xs ih =>
    cases i with
    | zero => simp at h; subst h; simp [List.count_cons]
    | succ i =>
      simp at h
      have := ih h
      cases x <;> simp [List.count_cons, this]

theorem count_none_eq_length {l : List (Option Nat)} :
    l.count none = l.length ↔ ∀ i, i < l.length → l[i]? = some none := by
  induction l with
  | nil => simp
  | cons x xs ih =>
    constructor
    · intro h i hi
      cases x with
      | none =>
        simp [List.count_cons] at h
        cases i with
        | zero => simp
        | succ i => simp; exact ih.1 h i (by simpa using hi)
      | some v =>
        simp [List.count_cons] at h
        have := @List.count_le_length _ _ (none : Option Nat) xs
        omega
    · intro h
      have h0 := h 0 (by simp)
      simp at h0; subst h0
      simp [List.count_cons]
      apply ih.2
      intro i hi
      have := h (i+1) (by simpa using hi)
      simpa using this


theorem count_none_set_some {l : List (Option Nat)} {i k k' : Nat} (h : l[i]? = some (some k)) :
    (l.set i (some k')).count none = l.count none := by
  induction l generalizing i with
  | nil => simp at h
  | cons x xs ih =>
    cases i with
    | zero => simp at h; subst h; simp [List.count_cons]
    | succ i =>
      simp at h
      have := ih h
      cases x <;> simp [List.count_cons, this]

variable {σ : Type}

def goodCopy : CopyFacts := ⟨true, true, true⟩

structure CInv (n : Nat) (y : CopySys σ) : Prop where
  len : y.core.cursors.length = n
  pulledLog : y.pulled.filterMap Res.item? = y.core.log
  eofMem : y.core.eofSeen = true ↔ Res.eof ∈ y.pulled
  cur : ∀ i k, y.core.cursors[i]? = some (some k) →
    k ≤ y.core.log.length ∧ itemsOf i y.outs = y.core.log.take k
  closedPre : ∀ i, y.core.cursors[i]? = some none → itemsOf i y.outs <+: y.core.log
  outRange : ∀ i, y.core.cursors[i]? = none → itemsOf i y.outs = [] ∧ eofOf i y.outs = false
  eofAll : ∀ i, eofOf i y.outs = true → y.core.eofSeen = true ∧ itemsOf i y.outs = y.core.log
  cnt : y.core.closedNum = y.core.cursors.count none
  srcC : y.core.srcClosed = if y.core.closedNum = n then 1 else 0

theorem CInv.init (n : Nat) (hn : 0 < n) (s : σ) : CInv n (CopySys.init n s) where
  len := by simp [CopySys.init, CopyCore.new]
  pulledLog := by simp [CopySys.init, CopyCore.new]
  eofMem := by simp [CopySys.init, CopyCore.new]
  cur := by
    intro i k h
    simp [CopySys.init, CopyCore.new, List.getElem?_replicate] at h
    simp [CopySys.init, CopyCore.new]; omega
  closedPre := by
    intro i h; simp [CopySys.init, CopyCore.new, List.getElem?_replicate] at h
  outRange := by intro i _; simp [CopySys.init]
  eofAll := by intro i h; simp [CopySys.init] at h
  cnt := by
    simp only [CopySys.init, CopyCore.new]
    rw [List.count_replicate]; simp
  srcC := by
    simp only [CopySys.init, CopyCore.new]
    have : ¬ (0 = n) := by omega
    simp [this]

theorem CInv.step {n : Nat} (hn : 0 < n) (S : Src σ) {y y' : CopySys σ} {e : CEv σ}
    (h : CInv n y) (hs : y.step goodCopy S e = some y') : CInv n y' := by
  obtain ⟨hlen, hpl, hem, hcur, hcp, hor, hea, hcnt, hsc⟩ := h
  cases e with
  | env g =>
    simp [CopySys.step] at hs; subst hs
    exact ⟨hlen, hpl, hem, hcur, hcp, hor, hea, hcnt, hsc⟩
  | close i =>
    simp only [CopySys.step, CopyCore.close, goodCopy] at hs
    cases hci : y.core.cursors[i]? with
    | none =>
      simp [hci] at hs; subst hs
      exact ⟨hlen, hpl, hem, hcur, hcp, hor, hea, hcnt, hsc⟩
    | some o =>
      cases o with
      | none =>
        simp [hci] at hs; subst hs
        exact ⟨hlen, hpl, hem, hcur, hcp, hor, hea, hcnt, hsc⟩
      | some k =>
        simp [hci] at hs; subst hs
        have hlt := count_none_lt hci
        have hset := count_none_set hci
        have hi : i < y.core.cursors.length := by
          rcases List.getElem?_eq_some_iff.mp hci with ⟨h, _⟩; exact h
        refine ⟨by simpa using hlen, hpl, hem, ?_, ?_, ?_, hea, ?_, ?_⟩
        · intro j kj hj
          by_cases hji : j = i
          · subst hji; simp [List.getElem?_set, hi] at hj
          · rw [List.getElem?_set_ne (Ne.symm hji)] at hj; exact hcur j kj hj
        · intro j hj
          by_cases hji : j = i
          · subst hji
            have := hcur j k hci
            rw [this.2]; exact List.take_prefix _ _
          · simp only [] at hj
            rw [List.getElem?_set_ne (Ne.symm hji)] at hj; exact hcp j hj
        · intro j hj
          by_cases hji : j = i
          · subst hji; simp [List.getElem?_set, hi] at hj
          · simp only [] at hj
            rw [List.getElem?_set_ne (Ne.symm hji)] at hj; exact hor j hj
        · simp [hset, hcnt]
        · simp only []
          rw [hcnt] at hsc ⊢
          rw [hlen] at hlt ⊢
          have h0 : y.core.srcClosed = 0 := by rw [hsc]; simp; omega
          simp [h0]
  | recv i =>
    simp only [CopySys.step, CopyCore.peekLocal, goodCopy] at hs
    cases hci : y.core.cursors[i]? with
    | none => simp [hci] at hs
    | some o =>
      cases o with
      | none => simp [hci] at hs
      | some k =>
        have hi : i < y.core.cursors.length := by
          rcases List.getElem?_eq_some_iff.mp hci with ⟨h, _⟩; exact h
        obtain ⟨hk, hik⟩ := hcur i k hci
        simp only [hci] at hs
        cases hlk : y.core.log[k]? with
        | some it =>
          simp [hlk] at hs; subst hs
          have hklt : k < y.core.log.length := by
            rcases List.getElem?_eq_some_iff.mp hlk with ⟨h, _⟩; exact h
          have hget : y.core.log[k] = it := by
            rcases List.getElem?_eq_some_iff.mp hlk with ⟨_, h⟩; exact h
          refine ⟨by simpa using hlen, hpl, hem, ?_, ?_, ?_, ?_, ?_, hsc⟩
          · intro j kj hj
            by_cases hji : j = i
            · subst hji
              simp [List.getElem?_set, hi] at hj; subst hj
              refine ⟨hklt, ?_⟩
              simp only [itemsOf_append, hik]
              simp [Res.item?]
              rw [← hget, List.take_succ_eq_append_getElem hklt]
            · simp only [] at hj
              rw [List.getElem?_set_ne (Ne.symm hji)] at hj
              simp only [itemsOf_append]; simp [Ne.symm hji]; exact hcur j kj hj
          · intro j hj
            by_cases hji : j = i
            · subst hji; simp [List.getElem?_set, hi] at hj
            · simp only [] at hj
              rw [List.getElem?_set_ne (Ne.symm hji)] at hj
              simp only [itemsOf_append]; simp [Ne.symm hji]; exact hcp j hj
          · intro j hj
            by_cases hji : j = i
            · subst hji; simp [List.getElem?_set, hi] at hj
            · simp only [] at hj
              rw [List.getElem?_set_ne (Ne.symm hji)] at hj
              simp only [itemsOf_append, eofOf_append]; simp [Ne.symm hji, Res.isEof]; exact hor j hj
          · intro j hj
            simp only [eofOf_append] at hj
            simp [Res.isEof] at hj
            have := hea j hj
            by_cases hji : j = i
            · subst hji
              -- child j already saw EOF: its cursor is at the end of the log, contradiction
              rw [hik] at this
              have h2 := congrArg List.length this.2
              simp at h2; omega
            · simp only [itemsOf_append]; simp [Ne.symm hji]; exact this
          · simp only []
            rw [hcnt, count_none_set_some hci]
        | none =>
          have hkeq : k = y.core.log.length := by
            have := List.getElem?_eq_none_iff.mp hlk
            omega
          by_cases hes : y.core.eofSeen = true
          · simp [hlk, hes] at hs; subst hs
            refine ⟨hlen, hpl, hem, ?_, ?_, ?_, ?_, hcnt, hsc⟩
            · intro j kj hj
              simp only [itemsOf_append]
              by_cases hji : j = i
              · subst hji; simp [Res.item?]; exact hcur j kj hj
              · simp [Ne.symm hji]; exact hcur j kj hj
            · intro j hj
              simp only [itemsOf_append]
              by_cases hji : j = i
              · subst hji; simp [Res.item?]; exact hcp j hj
              · simp [Ne.symm hji]; exact hcp j hj
            · intro j hj
              have hji : j ≠ i := by intro h; subst h; simp [hci] at hj
              simp only [itemsOf_append, eofOf_append]; simp [Ne.symm hji]; exact hor j hj
            · intro j hj
              simp only [eofOf_append] at hj
              simp only [itemsOf_append]
              by_cases hji : j = i
              · subst hji
                simp [Res.item?]
                refine ⟨hes, ?_⟩
                rw [hik, hkeq]; simp
              · simp [Ne.symm hji] at hj ⊢
                exact hea j hj
          · simp [hlk, hes] at hs
            cases hsr : S.recv y.src with
            | none => simp [hsr] at hs
            | some rs =>
              obtain ⟨r, s'⟩ := rs
              simp [hsr] at hs; subst hs
              have noEof : ∀ j, eofOf j y.outs = false := by
                intro j
                cases hj : eofOf j y.outs with
                | false => rfl
                | true => exact absurd (hea j hj).1 hes
              cases r with
              | eof =>
                simp only [CopyCore.fill]
                refine ⟨hlen, ?_, ?_, ?_, ?_, ?_, ?_, hcnt, hsc⟩
                · simp [List.filterMap_append, Res.item?, hpl]
                · simp
                · intro j kj hj
                  simp only [itemsOf_append]
                  by_cases hji : j = i
                  · subst hji; simp [Res.item?]; exact hcur j kj hj
                  · simp [Ne.symm hji]; exact hcur j kj hj
                · intro j hj
                  simp only [itemsOf_append]
                  by_cases hji : j = i
                  · subst hji; simp [Res.item?]; exact hcp j hj
                  · simp [Ne.symm hji]; exact hcp j hj
                · intro j hj
                  have hji : j ≠ i := by intro h; subst h; simp [hci] at hj
                  simp only [itemsOf_append, eofOf_append]; simp [Ne.symm hji]; exact hor j hj
                · intro j hj
                  simp only [eofOf_append] at hj
                  simp only [itemsOf_append]
                  by_cases hji : j = i
                  · subst hji
                    simp [Res.item?]
                    rw [hik, hkeq]; simp
                  · simp [Ne.symm hji, noEof j] at hj
              | item it =>
                simp only [CopyCore.fill]
                have htk : List.take k y.core.log = y.core.log := by rw [hkeq]; simp
                refine ⟨by simpa using hlen, ?_, ?_, ?_, ?_, ?_, ?_, ?_, hsc⟩
                · simp [List.filterMap_append, Res.item?, hpl, htk]
                · simp only []
                  rw [hem]; simp
                · intro j kj hj
                  simp only [] at hj ⊢
                  rw [htk]
                  by_cases hji : j = i
                  · subst hji
                    simp [List.getElem?_set, hi] at hj; subst hj
                    simp only [itemsOf_append, hik, htk]
                    simp [Res.item?, hkeq]
                    rw [List.take_of_length_le (by simp)]
                  · rw [List.getElem?_set_ne (Ne.symm hji)] at hj
                    obtain ⟨h1, h2⟩ := hcur j kj hj
                    simp only [itemsOf_append]; simp [Ne.symm hji]
                    refine ⟨by omega, ?_⟩
                    rw [h2, List.take_append_of_le_length h1]
                · intro j hj
                  simp only [] at hj ⊢
                  rw [htk]
                  by_cases hji : j = i
                  · subst hji; simp [List.getElem?_set, hi] at hj
                  · rw [List.getElem?_set_ne (Ne.symm hji)] at hj
                    simp only [itemsOf_append]; simp [Ne.symm hji]
                    exact (hcp j hj).trans (List.prefix_append _ _)
                · intro j hj
                  simp only [] at hj
                  by_cases hji : j = i
                  · subst hji; simp [List.getElem?_set, hi] at hj
                  · rw [List.getElem?_set_ne (Ne.symm hji)] at hj
                    simp only [itemsOf_append, eofOf_append]; simp [Ne.symm hji, Res.isEof]; exact hor j hj
                · intro j hj
                  simp only [eofOf_append] at hj
                  simp [Res.isEof, noEof j] at hj
                · simp only []
                  rw [hcnt, count_none_set_some hci]

theorem CInv.run {n : Nat} (hn : 0 < n) (S : Src σ) {y y' : CopySys σ} {evs : List (CEv σ)}
    (h : CInv n y) (hr : y.run goodCopy S evs = some y') : CInv n y' := by
  induction evs generalizing y with
  | nil => simp [CopySys.run] at hr; subst hr; exact h
  | cons e es ih =>
    simp only [CopySys.run] at hr
    cases hs : y.step goodCopy S e with
    | none => simp [hs] at hr
    | some y1 => simp [hs] at hr; exact ih (h.step hn S hs) hr

/-! ## Copy over a list source -/

def CEv.isEnv {σ : Type} : CEv σ → Bool
  | .env _ => true
  | _ => false

/-- list source, no environment interference: what was pulled plus what is left is the list -/
structure LInv (l : List Item) (y : CopySys (List Item)) : Prop where
  split : y.pulled.filterMap Res.item? ++ y.src = l
  done : Res.eof ∈ y.pulled → y.src = []

theorem LInv.step {l : List Item} {f : CopyFacts} {y y' : CopySys (List Item)} {e : CEv (List Item)}
    (h : LInv l y) (he : e.isEnv = false) (hs : y.step f listSrc e = some y') : LInv l y' := by
  obtain ⟨h1, h2⟩ := h
  cases e with
  | env g => simp [CEv.isEnv] at he
  | close i =>
    simp only [CopySys.step] at hs
    simp at hs; subst hs
    constructor
    · simp only []; split <;> simpa [listSrc] using h1
    · intro hm; simp only []; split <;> simpa [listSrc] using h2 hm
  | recv i =>
    simp only [CopySys.step] at hs
    split at hs
    · simp at hs
    · simp at hs; subst hs; exact ⟨h1, h2⟩
    · cases hsrc : y.src with
      | nil =>
        simp [listSrc, hsrc] at hs; subst hs
        constructor
        · have e1 : List.filterMap Res.item? [Res.eof] = [] := rfl
          simp only [List.filterMap_append, e1, List.append_nil]; simpa [hsrc] using h1
        · intro _; rfl
      | cons x rest =>
        simp [listSrc, hsrc] at hs; subst hs
        constructor
        · have e1 : List.filterMap Res.item? [Res.item x] = [x] := rfl
          simp only [List.filterMap_append, e1, List.append_assoc, List.singleton_append]; simpa [hsrc] using h1
        · intro hm
          simp at hm
          have := h2 hm
          simp [hsrc] at this

theorem LInv.run {l : List Item} {f : CopyFacts} {y y' : CopySys (List Item)} {evs : List (CEv (List Item))}
    (h : LInv l y) (he : ∀ e ∈ evs, e.isEnv = false) (hr : y.run f listSrc evs = some y') : LInv l y' := by
  induction evs generalizing y with
  | nil => simp [CopySys.run] at hr; subst hr; exact h
  | cons e es ih =>
    simp only [CopySys.run] at hr
    cases hs : y.step f listSrc e with
    | none => simp [hs] at hr
    | some y1 =>
      simp [hs] at hr
      exact ih (h.step (he e (by simp)) hs) (fun e' he' => he e' (by simp [he'])) hr

/-! ## Merge -/

theorem ofSrc_append (k j : Nat) (x : Item) (l : List (Nat × Item)) :
    ofSrc k (l ++ [(j, x)]) = ofSrc k l ++ (if j = k then [x] else []) := by
  unfold ofSrc
  rw [List.filterMap_append]
  by_cases h : j = k <;> simp [h]

theorem selCases_ok {tbl : List (List (Nat × Nat))} {maxSel : Nat} (h : tblOK tbl maxSel = true) (n : Nat) :
    selCases tbl maxSel n = (List.range n).map fun j => (j, j) := by
  unfold selCases
  split
  · rfl
  · rename_i hn
    unfold tblOK at h
    simp only [Bool.and_eq_true, List.all_eq_true] at h
    have := h.2 n (by simp; omega)
    simp at this
    simp [this]

theorem selCases_get {tbl : List (List (Nat × Nat))} {maxSel : Nat} (h : tblOK tbl maxSel = true)
    {n c a b : Nat} (hc : (selCases tbl maxSel n)[c]? = some (a, b)) : a = c ∧ b = c ∧ c < n := by
  rw [selCases_ok h] at hc
  simp [List.getElem?_map] at hc
  obtain ⟨h1, rfl⟩ := hc
  rcases List.getElem?_eq_some_iff.mp h1 with ⟨hlt, hget⟩
  simp at hlt hget
  omega


structure MInv (m : MergeSt) : Prop where
  fifo : ∀ k p, m.srcs[k]? = some p → ofSrc k m.acc = ofSrc k m.outs ++ p.buf
  dropped : ∀ k p, m.srcs[k]? = some p → k ∉ m.chosen → p.sendClosed = true ∧ p.buf = []
  eofEmpty : m.eofOut = true → m.chosen = []

theorem MInv.init (caps : List Nat) : MInv (MergeSt.init caps) where
  fifo := by
    intro k p h
    simp [MergeSt.init, List.getElem?_map] at h
    rcases h with ⟨c, _, rfl⟩
    simp [MergeSt.init, ofSrc, Pipe.new]
  dropped := by
    intro k p h hk
    simp [MergeSt.init, List.getElem?_map] at h hk
    rcases h with ⟨c, hc, rfl⟩
    rcases List.getElem?_eq_some_iff.mp hc with ⟨hlt, _⟩
    omega
  eofEmpty := by simp [MergeSt.init]

theorem getElem?_set_pipe {l : List Pipe} {i k : Nat} {p q : Pipe} (h : (l.set i p)[k]? = some q) :
    (k = i ∧ q = p ∧ i < l.length) ∨ (k ≠ i ∧ l[k]? = some q) := by
  rw [List.getElem?_set] at h
  split at h
  · rename_i hik
    split at h
    · simp at h; left; exact ⟨hik.symm, h.symm, by assumption⟩
    · simp at h
  · rename_i hik; right; exact ⟨fun e => hik e.symm, h⟩

theorem MInv.step {tbl : List (List (Nat × Nat))} {maxSel : Nat} (ht : tblOK tbl maxSel = true)
    {m m' : MergeSt} {e : MEv} (h : MInv m) (hs : m.step tbl maxSel e = some m') : MInv m' := by
  obtain ⟨hf, hd, he⟩ := h
  cases e with
  | eof =>
    simp only [MergeSt.step] at hs
    split at hs
    · simp at hs; subst hs
      rename_i hc
      exact ⟨hf, hd, fun _ => by simpa using hc⟩
    · simp at hs
  | closeSend k =>
    simp only [MergeSt.step] at hs
    cases hk : m.srcs[k]? with
    | none => simp [hk] at hs
    | some p =>
      simp [hk, Pipe.closeSend] at hs
      obtain ⟨q0, ⟨hsc, rfl⟩, rfl⟩ := hs
      refine ⟨?_, ?_, he⟩
      · intro j q hj
        rcases getElem?_set_pipe hj with ⟨rfl, rfl, _⟩ | ⟨_, hj'⟩
        · exact hf _ p hk
        · exact hf _ _ hj'
      · intro j q hj hjc
        rcases getElem?_set_pipe hj with ⟨rfl, rfl, _⟩ | ⟨_, hj'⟩
        · have := hd _ p hk hjc; simp_all
        · exact hd _ _ hj' hjc
  | send k i =>
    simp only [MergeSt.step] at hs
    cases hk : m.srcs[k]? with
    | none => simp [hk] at hs
    | some p =>
      simp only [hk, Pipe.send] at hs
      by_cases hsc : p.sendClosed = true
      · simp [hsc] at hs
      · by_cases hrc : p.recvClosed = true
        · simp [hsc, hrc] at hs; subst hs
          refine ⟨?_, ?_, he⟩
          · intro j q hj
            rcases getElem?_set_pipe hj with ⟨rfl, rfl, _⟩ | ⟨_, hj'⟩
            · exact hf _ _ hk
            · exact hf _ _ hj'
          · intro j q hj hjc
            rcases getElem?_set_pipe hj with ⟨rfl, rfl, _⟩ | ⟨_, hj'⟩
            · exact hd _ _ hk hjc
            · exact hd _ _ hj' hjc
        · by_cases hl : p.buf.length < p.cap
          · simp [hsc, hrc, hl] at hs; subst hs
            refine ⟨?_, ?_, he⟩
            · intro j q hj
              simp only [ofSrc_append]
              rcases getElem?_set_pipe hj with ⟨rfl, rfl, _⟩ | ⟨hne, hj'⟩
              · simp [hf _ _ hk]
              · simp [Ne.symm hne]; exact hf _ _ hj'
            · intro j q hj hjc
              rcases getElem?_set_pipe hj with ⟨rfl, rfl, _⟩ | ⟨_, hj'⟩
              · have := hd _ _ hk hjc; simp_all
              · exact hd _ _ hj' hjc
          · simp [hsc, hrc, hl] at hs
  | handoff k i c =>
    simp only [MergeSt.step] at hs
    cases hc : (selCases tbl maxSel m.chosen.length)[c]? with
    | none => simp [hc] at hs
    | some ab =>
      obtain ⟨a, b⟩ := ab
      simp only [hc] at hs
      split at hs
      · rename_i hch
        cases hk : m.srcs[k]? with
        | none => simp [hk] at hs
        | some p =>
          simp only [hk, Pipe.handoff] at hs
          split at hs
          · simp at hs
          · rename_i x p' hx
            split at hx
            · simp at hx
            · rename_i hcond
              simp at hcond
              simp at hs; subst hs
              refine ⟨?_, hd, he⟩
              intro j q hj
              simp only [ofSrc_append]
              by_cases hjk : k = j
              · subst hjk
                rw [hk] at hj; simp at hj; subst hj
                have := hf _ _ hk
                simp [this, hcond.2]
              · simp [hjk]; exact hf _ _ hj
      · simp at hs
  | sel c =>
    simp only [MergeSt.step] at hs
    cases hc : (selCases tbl maxSel m.chosen.length)[c]? with
    | none => simp [hc] at hs
    | some ab =>
      obtain ⟨a, b⟩ := ab
      obtain ⟨ha, hb2, hcn⟩ := selCases_get ht hc
      rw [ha, hb2] at hc
      simp only [hc] at hs
      cases hch : m.chosen[c]? with
      | none => simp [hch] at hs
      | some sa =>
        simp only [hch] at hs
        have hmem : sa ∈ m.chosen := List.mem_of_getElem? hch
        cases hk : m.srcs[sa]? with
        | none => simp [hk] at hs
        | some p =>
          simp only [hk, Pipe.recv] at hs
          cases hb : p.buf with
          | nil =>
            by_cases hsc : p.sendClosed = true
            · simp [hb, hsc] at hs; subst hs
              refine ⟨hf, ?_, ?_⟩
              · intro j q hj hjc
                simp only [] at hj hjc
                by_cases hjs : j = sa
                · subst hjs; rw [hk] at hj; simp at hj; subst hj; exact ⟨hsc, hb⟩
                · exact hd j q hj (fun hm => hjc ((List.mem_erase_of_ne hjs).mpr hm))
              · intro h
                have := he h
                simp [this] at hmem
            · simp [hb, hsc] at hs
          | cons x rest =>
            simp [hb] at hs; subst hs
            refine ⟨?_, ?_, he⟩
            · intro j q hj
              simp only [ofSrc_append]
              rcases getElem?_set_pipe hj with ⟨rfl, rfl, _⟩ | ⟨hne, hj'⟩
              · have := hf _ p hk
                simp [this, hb]
              · simp [Ne.symm hne]; exact hf _ _ hj'
            · intro j q hj hjc
              rcases getElem?_set_pipe hj with ⟨rfl, rfl, _⟩ | ⟨_, hj'⟩
              · exact absurd hmem hjc
              · exact hd _ _ hj' hjc

theorem MInv.run {tbl : List (List (Nat × Nat))} {maxSel : Nat} (ht : tblOK tbl maxSel = true)
    {m m' : MergeSt} {evs : List MEv} (h : MInv m) (hr : m.run tbl maxSel evs = some m') : MInv m' := by
  induction evs generalizing m with
  | nil => simp [MergeSt.run] at hr; subst hr; exact h
  | cons e es ih =>
    simp only [MergeSt.run] at hr
    cases hs : m.step tbl maxSel e with
    | none => simp [hs] at hr
    | some m1 => simp [hs] at hr; exact ih (h.step ht hs) hr

end EinoV.C08
