import EinoV.Proofs.C01Refine
import EinoV.Proofs.C02Workflow
namespace EinoV.Engine
open EinoV.Spec

/-- `mapM` in `Except` over a permuted list: success is preserved, the results are permuted -/
theorem mapM_perm {α β ε} (f : α → Except ε β) {l l' : List α} (hp : l.Perm l') :
    ∀ ys, l.mapM f = .ok ys → ∃ ys', l'.mapM f = .ok ys' ∧ ys.Perm ys' := by
  induction hp with
  | nil => intro ys h; exact ⟨ys, h, List.Perm.refl _⟩
  | cons a _ ih =>
    intro ys h
    simp only [List.mapM_cons, bind, Except.bind] at h ⊢
    cases ha : f a with
    | error e => simp [ha] at h
    | ok b =>
      simp only [ha] at h ⊢
      rename_i l1 l2 _
      cases ht : List.mapM f l1 with
      | error e => simp [ht] at h
      | ok bs =>
        simp only [ht, pure, Except.pure, Except.ok.injEq] at h
        subst h
        obtain ⟨ys', h1, h2⟩ := ih bs ht
        exact ⟨b :: ys', by simp [h1, pure, Except.pure], h2.cons b⟩
  | swap a b l0 =>
    intro ys h
    simp only [List.mapM_cons, bind, Except.bind] at h ⊢
    cases hb : f b with
    | error e => simp [hb] at h
    | ok b' =>
      simp only [hb] at h ⊢
      cases ha : f a with
      | error e => simp [ha] at h
      | ok a' =>
        simp only [ha] at h ⊢
        cases ht : List.mapM f l0 with
        | error e => simp [ht] at h
        | ok bs =>
          simp only [ht, pure, Except.pure, Except.ok.injEq] at h
          subst h
          exact ⟨a' :: b' :: bs, rfl, List.Perm.swap _ _ _⟩
  | trans _ _ ih1 ih2 =>
    intro ys h
    obtain ⟨ys1, h1, p1⟩ := ih1 ys h
    obtain ⟨ys2, h2, p2⟩ := ih2 ys1 h1
    exact ⟨ys2, h2, p1.trans p2⟩

/-- one superstep does not depend on the order in which the finished tasks are listed
    (when merging does not depend on the order of its arguments) -/
theorem Spec.next_perm {V} (ops : ValOps V) (hm : MergePerm ops) (r : Runner V) (done done' : List (Done V))
    (hp : done.Perm done') (nx : Next V) (h : Spec.next ops r done = .ok nx) :
    Spec.next ops r done' = .ok nx := by
  unfold Spec.next at h ⊢
  cases hs : done.mapM (sentOf r) with
  | error e => simp [hs, bind, Except.bind] at h
  | ok sent =>
    obtain ⟨sent', hs', hps⟩ := mapM_perm (sentOf r) hp sent hs
    simp only [hs, hs', bind, Except.bind] at h ⊢
    have hin : ∀ t, collect ops ((inbox r sent' t).map (·.2)) = collect ops ((inbox r sent t).map (·.2)) := by
      intro t
      apply collect_perm ops hm
      apply List.Perm.map
      unfold inbox
      exact (hps.filterMap _).symm
    have hgot : (keys r).map (fun t => (t, collect ops ((inbox r sent' t).map (·.2)))) =
        (keys r).map (fun t => (t, collect ops ((inbox r sent t).map (·.2)))) := by
      apply List.map_congr_left
      intro t _
      rw [hin t]
    rw [hgot]
    exact h

theorem runTasks_perm {V} (r : Runner V) (sched sched' : Sched V) (hf : sched.Fair) (hf' : sched'.Fair)
    (step step' : Nat) (ts : List (Key × V)) (done : List (Done V)) (h : runTasks r sched step ts = .ok done) :
    ∃ done', runTasks r sched' step' ts = .ok done' ∧ done.Perm done' := by
  unfold runTasks at h ⊢
  have hp : (sched step (ts.map (execOne r))).Perm (sched' step' (ts.map (execOne r))) :=
    (hf step _).trans (hf' step' _).symm
  exact mapM_perm collectOne hp done h

/-- **the superstep run does not depend on the completion schedule** (successful runs) -/
theorem Spec.loop_sched {V} (ops : ValOps V) (hm : MergePerm ops) (r : Runner V) (sched sched' : Sched V)
    (hf : sched.Fair) (hf' : sched'.Fair) :
    ∀ (fuel : Nat) (tasks : List (Key × V)) (tr : Trace V) (v : V),
      (Spec.loop ops r sched fuel tasks tr).result = .ok v →
      Spec.loop ops r sched' fuel tasks tr = Spec.loop ops r sched fuel tasks tr := by
  intro fuel
  induction fuel with
  | zero => intro tasks tr v h; simp [Spec.loop] at h
  | succ n ih =>
    intro tasks tr v h
    unfold Spec.loop at h ⊢
    simp only at h ⊢
    cases hr : runTasks r sched tr.length tasks with
    | error e => simp [hr] at h
    | ok done =>
      obtain ⟨done', hr', hp⟩ := runTasks_perm r sched sched' hf hf' tr.length tr.length tasks done hr
      simp only [hr, hr'] at h ⊢
      have hemp : done'.isEmpty = done.isEmpty := by
        cases done with
        | nil => have := hp.symm.eq_nil; subst this; rfl
        | cons a t =>
          cases done' with
          | nil => have := hp.eq_nil; cases this
          | cons b u => rfl
      rw [hemp]
      by_cases he : done.isEmpty = true
      · simp [he] at h
      · simp only [he, Bool.false_eq_true, ↓reduceIte] at h ⊢
        cases hn : Spec.next ops r done with
        | error e => simp [hn] at h
        | ok nx =>
          rw [Spec.next_perm ops hm r done done' hp nx hn]
          simp only [hn] at h ⊢
          cases nx with
          | result w => rfl
          | tasks ts => exact ih ts (tasks :: tr) v h

theorem Spec.run_sched {V} (ops : ValOps V) (hm : MergePerm ops) (r : Runner V) (sched sched' : Sched V)
    (hf : sched.Fair) (hf' : sched'.Fair) (x v : V) (h : (Spec.run ops r sched x).result = .ok v) :
    Spec.run ops r sched' x = Spec.run ops r sched x := by
  unfold Spec.run at h ⊢
  cases hn : Spec.next ops r [(START, x)] with
  | error e => rfl
  | ok nx =>
    simp only [hn] at h ⊢
    cases nx with
    | result w => rfl
    | tasks ts => exact Spec.loop_sched ops hm r sched sched' hf hf' _ ts [] v h

/-- **engine level.** For an any-predecessor runner with distinct keys and an order-insensitive
    merge: a run that succeeds under one fair completion schedule is *the same run* — same
    result, same per-step trace with the same inputs — under every other fair schedule. -/
theorem pregel_run_sched_independent {V} (ops : ValOps V) (hm : MergePerm ops) (r : Runner V) (h : r.dag = false)
    (hk : (keys r).Nodup) (sched sched' : Sched V) (hf : sched.Fair) (hf' : sched'.Fair) (x v : V)
    (hok : (runS ops r sched x).result = .ok v) : runS ops r sched' x = runS ops r sched x := by
  rw [run_pregel ops r h hk sched hf x] at hok ⊢
  rw [run_pregel ops r h hk sched' hf' x]
  exact Spec.run_sched ops hm r sched sched' hf hf' x v hok

end EinoV.Engine
