/-
  C02, Workflows: completeness for the eager loop (`ereach_complete`, `runEager_complete`): in every
  state the loop passes through, under any completion order, a node enabled by the completions
  processed so far has been submitted.  The round lemmas of C02Complete (which do not depend on
  the schedule) applied to one completion at a time; the soundness invariant is kept for the
  outputs of everything submitted, the completeness invariant for the processed completions
  (`Boundary` with two histories).
-/
import EinoV.Proofs.C02Complete

namespace EinoV.Engine
namespace DagRun

/-! ### the eager loop: states it passes through -/

theorem mem_histOf_reverse {V} (r : Runner V) (x : V) (bs : List (List (Key × V))) (d : Done V) :
    d ∈ histOf r x bs.reverse ↔ d = (START, x) ∨ ∃ t, t ∈ bs.flatten ∧ outOf r t = some d := by
  simp only [histOf, List.mem_cons, List.mem_filterMap, List.mem_flatten, List.mem_reverse]

theorem histC_sub {V} (r : Runner V) (x : V) (bs : List (List (Key × V))) (comp : List Key) :
    ∀ d, d ∈ histC r x bs comp → d ∈ histOf r x bs.reverse := by
  intro d hd
  rw [mem_histOf_reverse]
  simp only [histC, List.mem_cons, List.mem_filterMap, List.mem_filter] at hd
  rcases hd with h | ⟨t, ⟨ht, _⟩, ho⟩
  · exact Or.inl h
  · exact Or.inr ⟨t, ht, ho⟩

structure ECInv {V} (ops : ValOps V) (r : Runner V) (x : V) (cm : Chans V) (running : List (Key × V))
    (bs : List (List (Key × V))) (comp : List Key) : Prop where
  e : EInv r cm running bs comp
  k : EKInv ops r x cm running bs
  rq : ∀ p, skOf cm p = 1 → RP (fun n => (keysOfTr bs).count n) cm p
  rc : ∀ p, (∃ o, (p, o) ∈ histC r x bs comp) → RP (fun n => (keysOfTr bs).count n) cm p
  untr : ∀ n c, (n, c) ∈ cm → c.triggered = false
  call : ∀ t, t ∈ running → (r.call? t.1).isSome = true
  cok : ∀ k, k ∈ comp → ∃ u, u ∈ bs.flatten ∧ u.1 = k ∧ (outOf r u).isSome = true

theorem einv_static {V} (r : Runner V) (wf : DagWF r) (cm : Chans V) (running : List (Key × V))
    (bs : List (List (Key × V))) (comp : List Key) (h : EInv r cm running bs comp) :
    ∀ n, (keysOfTr bs).count n + skOf cm n ≤ 1 := by
  obtain ⟨rank, hrank⟩ := wf.acyclic
  have hk : akeys cm = akeys (initChans r) := by rw [← shapes_keys cm, h.sh, shapes_keys]
  exact static_bound cm rank (by rw [h.sh]; exact hrank) (by rw [hk]; exact wf.startFresh) h.j
    (by intro p; have := h.bal p; omega)
    (by rw [h.sh]; exact h.pos)

/-- at every state of the eager loop: a node enabled by the processed completions has been submitted -/
theorem ecinv_complete {V} (ops : ValOps V) (r : Runner V) (wf : DagWF r) (wf2 : DagWF2 r) (x : V)
    (cm : Chans V) (running : List (Key × V)) (bs : List (List (Key × V))) (comp : List Key)
    (h : ECInv ops r x cm running bs comp) :
    ∀ n, Enabled r (histC r x bs comp) n → n ∈ keysOfTr bs := by
  have hkeys : akeys cm = akeys (initChans r) := by rw [← shapes_keys cm, h.e.sh, shapes_keys]
  have hstart : START ∉ akeys cm := by rw [hkeys]; exact wf.startFresh
  have hcnt := einv_bound r wf cm running bs comp h.e
  have hF0 : (keysOfTr bs).count START = 0 := by
    by_cases h0 : 0 < (keysOfTr bs).count START
    · obtain ⟨cs, ds, hmm, _⟩ := h.e.pos START h0
      have := mem_akeys_of_mem START (cs, ds) _ hmm
      rw [shapes_keys] at this
      exact absurd this wf.startFresh
    · omega
  have hb : Boundary r (histC r x bs comp) (histOf r x bs.reverse) (fun n => (keysOfTr bs).count n) cm := by
    refine ⟨histC_sub r x bs comp, h.k.k, h.e.sh, einv_static r wf cm running bs comp h.e, ?_, h.untr, ?_, ?_, ?_⟩
    · intro p hp
      rcases hp with hp | hp
      · exact h.rc p hp
      · exact h.rq p hp
    · intro p o hm
      rw [mem_histOf_reverse] at hm
      rcases hm with hm | ⟨t, ht, ho⟩
      · left; exact (Prod.mk.inj hm).1
      · right
        have hkk := outOf_key r t (p, o) ho
        simp only at hkk
        have : p ∈ keysOfTr bs := by
          simp only [keysOfTr, List.mem_map]
          exact ⟨t, ht, hkk.symm⟩
        exact List.count_pos_iff.mpr this
    · intro p o o' hm hm'
      rw [mem_histOf_reverse] at hm hm'
      rcases hm with hm | ⟨t, ht, ho⟩
      · rcases hm' with hm' | ⟨t', ht', ho'⟩
        · rw [(Prod.mk.inj hm).2, (Prod.mk.inj hm').2]
        · exfalso
          have hkk := outOf_key r t' (p, o') ho'
          simp only at hkk
          have : START ∈ keysOfTr bs := by
            simp only [keysOfTr, List.mem_map]
            exact ⟨t', ht', by rw [← hkk, (Prod.mk.inj hm).1]⟩
          have := List.count_pos_iff.mpr this
          omega
      · rcases hm' with hm' | ⟨t', ht', ho'⟩
        · exfalso
          have hkk := outOf_key r t (p, o) ho
          simp only at hkk
          have : START ∈ keysOfTr bs := by
            simp only [keysOfTr, List.mem_map]
            exact ⟨t, ht, by rw [← hkk, (Prod.mk.inj hm').1]⟩
          have := List.count_pos_iff.mpr this
          omega
        · have k1 := outOf_key r t (p, o) ho
          have k2 := outOf_key r t' (p, o') ho'
          simp only at k1 k2
          have : t = t' := unique_by_key bs.flatten p (by simpa [keysOfTr, akeys] using hcnt p) t t' ht ht' k1.symm k2.symm
          subst this
          rw [ho] at ho'
          exact (Prod.mk.inj (Option.some.inj ho')).2
    · intro n hn hne
      have hmem : n ∈ keysOfTr bs := List.count_pos_iff.mp hn
      simp only [keysOfTr, List.mem_map] at hmem
      obtain ⟨t, ht, rfl⟩ := hmem
      have hj := justTr_all ops r x bs.reverse h.k.just t.1 t.2 (by
        simp only [List.mem_flatten, List.mem_reverse]
        simpa [List.mem_flatten] using ht)
      exact hj.2.1 hne
  intro n hen
  have := complete_at wf.dag hb hstart (fun n hne => by rw [hkeys]; exact wf2.p4 n hne) n hen
  exact List.count_pos_iff.mp this

theorem ECInv_init {V} (ops : ValOps V) (r : Runner V) (wf : DagWF r) (wf2 : DagWF2 r) (x : V)
    (cm : Chans V) (ts : List (Key × V))
    (hc : calcNext ops r (initChans r) [(START, x)] = .ok (cm, .tasks ts)) : ECInv ops r x cm ts [ts] [] := by
  obtain ⟨rank, hrank⟩ := wf.acyclic
  have hl := start_LInv ops r wf x cm ts hc
  have he : EInv r cm ts [ts] [] := by
    refine ⟨?_, hl.sh, hl.pos, ?_⟩
    · have e2 : (fun p => ([] : List Key).count p + if p = START then 1 else 0) =
          (fun p => (keysOfTr ([] : Trace V)).count p + if p = START then 1 else 0) := by
        funext p; simp [keysOfTr]
      rw [e2]; exact hl.j
    · intro p; simp [keysOfTr, akeys]
  obtain ⟨j1, j2, j3⟩ := calcNext_K (H := histOf r x []) ops r wf.dag wf.succ wf.startKey rank hrank
    (initChans r) cm [(START, x)] _ (init_K r wf.dag wf.nodup _) rfl
    (by intro t ht; simp only [List.mem_singleton] at ht; subst ht; simp [histOf]) hc
  have hj : ∀ n v, (n, v) ∈ ts → Justified ops r (histOf r x []) n v := by
    rcases j3 with ⟨v, hv, _⟩ | ⟨ts', hts, hj⟩
    · cases hv
    · cases hts; exact hj
  have hk : EKInv ops r x cm ts [ts] := by
    refine ⟨?_, j2, ?_, ?_⟩
    · exact K_mono j1 (histOf_mono r x ts [])
    · exact ⟨hj, trivial⟩
    · intro t ht; simpa using ht
  have hJ0 := init_J r wf.dag wf.nodup
  obtain ⟨r1, r2, r3⟩ := round_R (F := fun _ => 0) ops r wf.dag wf.succ wf2.pc wf2.pd
    wf.startFresh wf.startKey (initChans r) cm [(START, x)] ts (fun _ => False)
    wf.nodup hJ0.sk rfl
    (fun p hp => by rw [skOf_init r wf.dag p] at hp; cases hp)
    (fun p hp => hp.elim)
    (by
      intro t ht
      simp only [List.mem_singleton] at ht
      subst ht
      simp [Runner.call?])
    hc
  have eF : (fun n => 0 + (akeys ts).count n) = (fun n => (keysOfTr ([ts] : Trace V)).count n) := by
    funext n; simp [keysOfTr, akeys]
  rw [eF] at r1
  refine ⟨he, hk, fun p hp => r1 p (Or.inr (Or.inr hp)), ?_, r2, ?_, fun k hk' => by simp at hk'⟩
  · intro p ⟨o, ho⟩
    apply r1 p
    right; left
    simp only [histC, List.mem_cons, List.mem_filterMap, List.mem_filter] at ho
    rcases ho with ho | ⟨u, ⟨_, hcu⟩, _⟩
    · simp [(Prod.mk.inj ho).1]
    · simp at hcu
  · intro t ht
    obtain ⟨a, b⟩ := r3 t ht
    exact call_of_key r t.1 a b

theorem ECInv_step {V} (ops : ValOps V) (r : Runner V) (wf : DagWF r) (wf2 : DagWF2 r) (pick : Pick V) (x : V)
    (cm cm' : Chans V) (running ts : List (Key × V)) (bs : List (List (Key × V))) (comp : List Key)
    (t : Key × V) (d : Done V)
    (h : ECInv ops r x cm running bs comp)
    (hp : running[pick running % running.length]? = some t)
    (hce : collectOne (execOne r t) = .ok d)
    (hc : calcNext ops r cm [d] = .ok (cm', .tasks ts)) :
    ECInv ops r x cm' (running.eraseIdx (pick running % running.length) ++ ts) (bs ++ [ts]) (comp ++ [t.1]) := by
  obtain ⟨rank, hrank⟩ := wf.acyclic
  have hd := collect_exec_key r t d hce
  have htr : t ∈ running := List.mem_of_getElem? hp
  have hout : outOf r t = some d := by simp [outOf, hce]
  -- counting invariant
  have he' : EInv r cm' (running.eraseIdx (pick running % running.length) ++ ts) (bs ++ [ts]) (comp ++ [t.1]) := by
    obtain ⟨ready, j1, j2, j3, j4⟩ := calcNext_J ops r wf.dag wf.succ wf.startKey cm cm' [d] _ h.e.j h.e.sh hc
    have hready : ready = ts := by
      rcases j4 with ⟨v, hv⟩ | hv
      · cases hv
      · cases hv; rfl
    subst hready
    refine ⟨?_, j2, ?_, ?_⟩
    · have e1 : (fun n => (keysOfTr (bs ++ [ready])).count n) =
          (fun n => (keysOfTr bs).count n + (akeys ready).count n) := by
        funext n; rw [keysOfTr_append_single, List.count_append]
      have e2 : (fun p => (comp ++ [t.1]).count p + if p = START then 1 else 0) =
          (fun p => (comp.count p + if p = START then 1 else 0) + (([d] : List (Done V)).map (·.1)).count p) := by
        funext p
        rw [List.count_append]
        simp only [List.map_cons, List.map_nil, hd]; omega
      rw [e1, e2]; exact j1
    · intro n hn
      rw [keysOfTr_append_single, List.count_append] at hn
      by_cases h0 : 0 < (akeys ready).count n
      · exact j3 n (List.count_pos_iff.mp h0)
      · exact h.e.pos n (by omega)
    · intro p
      have b := h.e.bal p
      have c := count_eraseIdx running _ t hp p
      rw [keysOfTr_append_single, List.count_append, List.count_append]
      have : akeys (running.eraseIdx (pick running % running.length) ++ ready) =
          akeys (running.eraseIdx (pick running % running.length)) ++ akeys ready := by simp [akeys]
      rw [this, List.count_append]
      omega
  -- history invariant
  have hdH : d ∈ histOf r x bs.reverse := by
    rw [mem_histOf_reverse]
    exact Or.inr ⟨t, h.k.run t htr, hout⟩
  have hk' : EKInv ops r x cm' (running.eraseIdx (pick running % running.length) ++ ts) (bs ++ [ts]) := by
    obtain ⟨j1, j2, j3⟩ := calcNext_K ops r wf.dag wf.succ wf.startKey rank hrank cm cm' [d] _ h.k.k h.k.sh
      (by intro t' ht'; simp only [List.mem_singleton] at ht'; subst ht'; exact hdH) hc
    have hj : ∀ n v, (n, v) ∈ ts → Justified ops r (histOf r x bs.reverse) n v := by
      rcases j3 with ⟨v, hv, _⟩ | ⟨ts', hts, hj⟩
      · cases hv
      · cases hts; exact hj
    have hrev : (bs ++ [ts]).reverse = ts :: bs.reverse := by simp
    refine ⟨?_, j2, ?_, ?_⟩
    · rw [hrev]; exact K_mono j1 (histOf_mono r x ts bs.reverse)
    · rw [hrev]; exact ⟨hj, h.k.just⟩
    · intro t' ht'
      simp only [List.flatten_append, List.flatten_cons, List.flatten_nil, List.append_nil, List.mem_append]
      rcases List.mem_append.mp ht' with h1 | h1
      · exact Or.inl (h.k.run t' (mem_eraseIdx_sub _ _ t' h1))
      · exact Or.inr h1
  -- the reports
  obtain ⟨r1, r2, r3⟩ := round_R (F := fun n => (keysOfTr bs).count n) ops r wf.dag wf.succ wf2.pc wf2.pd
    wf.startFresh wf.startKey cm cm' [d] ts (fun p => ∃ o, (p, o) ∈ histC r x bs comp)
    h.k.k.nd h.k.k.sk h.e.sh h.rq h.rc
    (by
      intro t' ht'
      simp only [List.mem_singleton] at ht'
      subst ht'
      rw [hd]; exact h.call t htr)
    hc
  have eF : (fun n => (keysOfTr bs).count n + (akeys ts).count n) = (fun n => (keysOfTr (bs ++ [ts])).count n) := by
    funext n; rw [keysOfTr_append_single, List.count_append]
  rw [eF] at r1
  refine ⟨he', hk', fun p hp' => r1 p (Or.inr (Or.inr hp')), ?_, r2, ?_, ?_⟩
  · intro p ⟨o, ho⟩
    apply r1 p
    simp only [histC, List.mem_cons, List.mem_filterMap, List.mem_filter] at ho
    rcases ho with ho | ⟨u, ⟨hu, hcu⟩, hou⟩
    · left
      exact ⟨o, by simp [histC, ho]⟩
    · have hku := outOf_key r u (p, o) hou
      simp only at hku
      have hmem : u.1 ∈ comp ++ [t.1] := List.contains_iff_mem.mp hcu
      rcases List.mem_append.mp hmem with hm | hm
      · left
        obtain ⟨u', hu', hk', ho'⟩ := h.cok u.1 hm
        obtain ⟨d', hd'⟩ := Option.isSome_iff_exists.mp ho'
        have hkd := outOf_key r u' d' hd'
        refine ⟨d'.2, ?_⟩
        simp only [histC, List.mem_cons, List.mem_filterMap, List.mem_filter]
        refine Or.inr ⟨u', ⟨hu', ?_⟩, ?_⟩
        · rw [hk']; exact List.contains_iff_mem.mpr hm
        · rw [hd']
          congr 1
          ext <;> simp [hkd, hk', hku]
      · right; left
        simp only [List.mem_singleton] at hm
        simp only [List.map_cons, List.map_nil, List.mem_singleton]
        rw [hku, hm, hd]
  · intro t' ht'
    rcases List.mem_append.mp ht' with h1 | h1
    · exact h.call t' (mem_eraseIdx_sub _ _ t' h1)
    · obtain ⟨a, b⟩ := r3 t' h1
      exact call_of_key r t'.1 a b
  · intro k hk'
    rcases List.mem_append.mp hk' with h1 | h1
    · obtain ⟨u, hu, e1, e2⟩ := h.cok k h1
      exact ⟨u, by simp [hu], e1, e2⟩
    · simp only [List.mem_singleton] at h1
      subst h1
      refine ⟨t, ?_, rfl, by simp [hout]⟩
      have := h.k.run t htr
      simp [this]

/-- **eager completeness.** In every state the eager (Workflow) loop passes through, under any
    completion order: every node that is enabled by the completions processed so far has been
    submitted. -/
theorem ereach_complete {V} (ops : ValOps V) (r : Runner V) (wf : DagWF r) (wf2 : DagWF2 r) (pick : Pick V) (x : V)
    (cm : Chans V) (running : List (Key × V)) (bs : List (List (Key × V))) (comp : List Key)
    (h : EReach ops r pick x cm running bs comp) :
    ∀ n, Enabled r (histC r x bs comp) n → n ∈ keysOfTr bs := by
  have : ECInv ops r x cm running bs comp := by
    induction h with
    | init cm ts hc => exact ECInv_init ops r wf wf2 x cm ts hc
    | step cm cm' running ts bs comp t d _ hp hce hn ih =>
      exact ECInv_step ops r wf wf2 pick x cm cm' running ts bs comp t d ih hp hce hn
  exact ecinv_complete ops r wf wf2 x cm running bs comp this

/-- the outcome of the eager loop reports the batches and completions of a state it passed through
    (the last completion may not have been processed: the run stopped there) -/
theorem eagerLoop_final {V} (ops : ValOps V) (r : Runner V) (pick : Pick V) (x : V) :
    ∀ (fuel : Nat) (cm : Chans V) (running : List (Key × V)) (bs : List (List (Key × V))) (comp : List Key),
      EReach ops r pick x cm running bs comp →
      ∃ cm' running' comp', EReach ops r pick x cm' running' (eagerLoop ops r pick fuel cm running bs comp).batches comp' ∧
        ((eagerLoop ops r pick fuel cm running bs comp).completed = comp' ∨
         ∃ k, (eagerLoop ops r pick fuel cm running bs comp).completed = comp' ++ [k]) := by
  intro fuel
  induction fuel with
  | zero => intro cm running bs comp h; exact ⟨cm, running, comp, h, Or.inl rfl⟩
  | succ f ih =>
    intro cm running bs comp h
    unfold eagerLoop
    cases hp : running[pick running % running.length]? with
    | none => exact ⟨cm, running, comp, h, Or.inl rfl⟩
    | some t =>
      simp only
      cases hce : collectOne (execOne r t) with
      | error e => exact ⟨cm, running, comp, h, Or.inr ⟨t.1, rfl⟩⟩
      | ok d =>
        simp only
        cases hc : calcNext ops r cm [d] with
        | error e => exact ⟨cm, running, comp, h, Or.inr ⟨t.1, rfl⟩⟩
        | ok res =>
          obtain ⟨cm', nx⟩ := res
          cases nx with
          | result v => exact ⟨cm, running, comp, h, Or.inr ⟨t.1, rfl⟩⟩
          | tasks ts =>
            simp only
            exact ih _ _ _ _ (EReach.step cm cm' running ts bs comp t d h hp hce hc)

/-- **eager completeness, on the outcome.** When the eager run stops — with a result, an error or
    nothing left to run — every node enabled by the completions it had processed (all collected
    tasks, except possibly the last one, at which it stopped) is among the submitted tasks. -/
theorem runEager_complete {V} (ops : ValOps V) (r : Runner V) (wf : DagWF r) (wf2 : DagWF2 r) (pick : Pick V) (x : V) :
    ∃ comp', ((runEager ops r pick x).completed = comp' ∨ ∃ k, (runEager ops r pick x).completed = comp' ++ [k]) ∧
      ((runEager ops r pick x).batches = [] ∨
       ∀ n, Enabled r (histC r x (runEager ops r pick x).batches comp') n →
         n ∈ (runEager ops r pick x).submitted.map (·.1)) := by
  unfold runEager
  cases hc : calcNext ops r (initChans r) [(START, x)] with
  | error e => exact ⟨[], Or.inl rfl, Or.inl rfl⟩
  | ok res =>
    obtain ⟨cm, nx⟩ := res
    cases nx with
    | result v => exact ⟨[], Or.inl rfl, Or.inl rfl⟩
    | tasks ts =>
      simp only
      obtain ⟨cm', running', comp', hreach, hcomp⟩ :=
        eagerLoop_final ops r pick x r.eagerFuel cm ts [ts] [] (EReach.init cm ts hc)
      refine ⟨comp', hcomp, Or.inr (fun n hen => ?_)⟩
      have := ereach_complete ops r wf wf2 pick x _ _ _ _ hreach n hen
      simpa [EOutcome.submitted, keysOfTr] using this

end DagRun
end EinoV.Engine
