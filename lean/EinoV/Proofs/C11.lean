/-
  C11 — helper lemmas: the micro-step machine refines the atomic machine when every
  operation locks; invariants of the atomic machine (serial replay, program order,
  value hand-over, conservation of operations); allocation lemmas.
-/
import EinoV.Model.C11

namespace EinoV.C11
variable {S V : Type}

/-! ## one atomic step, described once -/

def mkEv (t : Nat) (o : Op S V) (v : V) (snap : S) : Ev S V :=
  ⟨t, o, v, match o with | .st _ f => (f snap v).2 | .loc g => g v⟩

@[simp] theorem mkEv_tid (t : Nat) (o : Op S V) (v : V) (snap : S) : (mkEv t o v snap).tid = t := rfl
@[simp] theorem mkEv_op (t : Nat) (o : Op S V) (v : V) (snap : S) : (mkEv t o v snap).op = o := rfl
@[simp] theorem mkEv_vin (t : Nat) (o : Op S V) (v : V) (snap : S) : (mkEv t o v snap).vin = v := rfl

theorem mkEv_ret (t : Nat) (o : Op S V) (v : V) (snap : S) :
    (mkEv t o v snap).vout = retOf snap (mkEv t o v snap) := by
  cases o <;> rfl

theorem commitWith_cases (c : Core S V) (t : Nat) (snap : S) :
    (commitWith c t snap = c ∧ nextOp c t = none) ∨
    ∃ o rest v, c.threads[t]? = some (o :: rest, v) ∧
      commitWith c t snap =
        ⟨(match o with | .st _ _ => applyEv snap (mkEv t o v snap) | .loc _ => c.shared),
         c.threads.set t (rest, (mkEv t o v snap).vout), c.log ++ [mkEv t o v snap]⟩ := by
  unfold commitWith nextOp
  split
  · next w f rest v h => exact .inr ⟨_, _, _, h, rfl⟩
  · next g rest v h => exact .inr ⟨_, _, _, h, rfl⟩
  · next h1 h2 =>
    left
    refine ⟨rfl, ?_⟩
    split
    · next o rest v h =>
      cases o with
      | st w f => exact absurd h (h1 w f rest v)
      | loc g => exact absurd h (h2 g rest v)
    · rfl

theorem nextOp_some {c : Core S V} {t : Nat} {o : Op S V} (h : nextOp c t = some o) :
    ∃ rest v, c.threads[t]? = some (o :: rest, v) := by
  unfold nextOp at h
  split at h
  · next o' rest v h' => cases h; exact ⟨rest, v, h'⟩
  · cases h

/-! ## refinement: micro-steps → atomic steps -/

/-- every operation still to be executed goes through a wrapper that locks -/
def AllLocked (locks : Wrapper → Bool) (c : Core S V) : Prop :=
  ∀ (t : Nat) (prog : List (Op S V)) (v : V), c.threads[t]? = some (prog, v) →
    ∀ (w : Wrapper) (f : S → V → S × V), Op.st w f ∈ prog → locks w = true

structure Inv (sys : Sys S V) : Prop where
  /-- a thread in the middle of a state operation holds the mutex -/
  holds : ∀ i, sys.phase i ≠ .idle → sys.holder = some i
  /-- what a lock holder has read is still the current state -/
  fresh : ∀ i snap, sys.phase i = .loaded snap → snap = sys.core.shared

theorem inv_init (s0 : S) (ths : List (List (Op S V) × V)) : Inv (init s0 ths) :=
  ⟨fun _ h => absurd rfl h, fun _ _ h => by simp [init] at h⟩

theorem allLocked_commitWith {locks : Wrapper → Bool} {c : Core S V} (h : AllLocked locks c)
    (t : Nat) (snap : S) : AllLocked locks (commitWith c t snap) := by
  rcases commitWith_cases c t snap with ⟨he, _⟩ | ⟨o, rest, v, ht, he⟩
  · rw [he]; exact h
  · rw [he]
    intro i prog v' hi w f hm
    simp only [List.getElem?_set] at hi
    split at hi
    · split at hi
      · cases hi
        next heq _ =>
          subst heq
          exact h _ _ _ ht w f (List.mem_cons_of_mem _ hm)
      · cases hi
    · exact h i prog v' hi w f hm

/-- One micro-step either leaves the core alone or is exactly one atomic step of the same
    thread; the invariant is kept. -/
theorem step_sim {locks : Wrapper → Bool} {sys : Sys S V} (hl : AllLocked locks sys.core)
    (hi : Inv sys) (t : Nat) :
    Inv (step locks sys t) ∧
    ((step locks sys t).core = sys.core ∨ (step locks sys t).core = astep sys.core t) := by
  unfold step
  split
  · -- stored → unlock
    next hp =>
    have hh := hi.holds t (by rw [hp]; intro h; cases h)
    refine ⟨⟨?_, ?_⟩, .inl rfl⟩
    · intro i hne
      simp only [Sys.setPhase] at hne
      split at hne
      · exact absurd rfl hne
      · next hit =>
        have := hi.holds i hne
        rw [hh] at this; cases this; exact absurd rfl hit
    · intro i snap hs
      simp only [Sys.setPhase] at hs
      split at hs
      · cases hs
      · exact hi.fresh i snap hs
  · -- locked → load
    next hp =>
    have hh := hi.holds t (by rw [hp]; intro h; cases h)
    refine ⟨⟨?_, ?_⟩, .inl rfl⟩
    · intro i hne
      simp only [Sys.setPhase] at hne
      split at hne
      · next hit => subst hit; exact hh
      · exact hi.holds i hne
    · intro i snap hs
      simp only [Sys.setPhase] at hs
      split at hs
      · cases hs; rfl
      · exact hi.fresh i snap hs
  · -- loaded → store
    next snap hp =>
    have hh := hi.holds t (by rw [hp]; intro h; cases h)
    have hsnap := hi.fresh t snap hp
    split
    · next w f hn =>
      obtain ⟨rest, v, hth⟩ := nextOp_some hn
      have hw : locks w = true := hl t _ _ hth w f (List.mem_cons_self ..)
      refine ⟨⟨?_, ?_⟩, .inr (by simp only [astep, hsnap])⟩
      · intro i hne
        simp only [Sys.setPhase] at hne
        split at hne
        · next hit => subst hit; exact hh
        · exact hi.holds i hne
      · intro i snap' hs
        simp only [Sys.setPhase, hw] at hs
        split at hs
        · cases hs
        · next hit =>
          have h1 := hi.holds i (by rw [hs]; intro h; cases h)
          rw [hh] at h1; cases h1; exact absurd rfl hit
    · exact ⟨hi, .inl rfl⟩
  · -- idle
    next hp =>
    split
    · exact ⟨hi, .inl rfl⟩
    · exact ⟨⟨hi.holds, fun i snap hs => by
        have h1 := hi.holds i (by rw [hs]; intro h; cases h)
        have h2 := hi.fresh i snap hs
        -- a local step of an idle thread while `i` holds the lock: shared is untouched
        rcases commitWith_cases sys.core t sys.core.shared with ⟨he, _⟩ | ⟨o, rest, v, hth, he⟩
        · simp only [astep, he]; exact h2
        · next g hn =>
          obtain ⟨rest', v', hth'⟩ := nextOp_some hn
          rw [hth] at hth'; cases hth'
          simp only [astep, he]; exact h2⟩, .inr rfl⟩
    · next w f hn =>
      obtain ⟨rest, v, hth⟩ := nextOp_some hn
      have hw : locks w = true := hl t _ _ hth w f (List.mem_cons_self ..)
      simp only [hw, if_true]
      split
      · next hnone =>
        refine ⟨⟨?_, ?_⟩, .inl rfl⟩
        · intro i hne
          simp only [Sys.setPhase] at hne
          split at hne
          · next hit => subst hit; rfl
          · have := hi.holds i hne; rw [hnone] at this; cases this
        · intro i snap hs
          simp only [Sys.setPhase] at hs
          split at hs
          · cases hs
          · exact hi.fresh i snap hs
      · exact ⟨hi, .inl rfl⟩

theorem gstep_sim {locks : Wrapper → Bool} (guard : Sys S V → Nat → Bool) {sys : Sys S V}
    (hl : AllLocked locks sys.core) (hi : Inv sys) (t : Nat) :
    Inv (gstep locks guard sys t) ∧ AllLocked locks (gstep locks guard sys t).core ∧
    ((gstep locks guard sys t).core = sys.core ∨
     (gstep locks guard sys t).core = astep sys.core t) := by
  unfold gstep
  split
  · have h := step_sim hl hi t
    refine ⟨h.1, ?_, h.2⟩
    rcases h.2 with h2 | h2
    · rw [h2]; exact hl
    · rw [h2]; exact allLocked_commitWith hl t _
  · exact ⟨hi, hl, .inl rfl⟩

/-- **Linearisation.** Whatever the schedule of micro-steps and the scheduling restriction,
    the core reached is the one the atomic machine reaches for some order of whole
    operations; the mutual-exclusion invariant holds all along. -/
theorem run_refines {locks : Wrapper → Bool} (guard : Sys S V → Nat → Bool) (sched : List Nat) :
    ∀ (sys : Sys S V), AllLocked locks sys.core → Inv sys →
      Inv (run locks guard sched sys) ∧
      ∃ order, (run locks guard sched sys).core = arun order sys.core := by
  induction sched with
  | nil => intro sys _ hi; exact ⟨hi, [], rfl⟩
  | cons t sched ih =>
    intro sys hl hi
    obtain ⟨hi', hl', hc⟩ := gstep_sim guard hl hi t
    obtain ⟨hinv, order, ho⟩ := ih _ hl' hi'
    simp only [run, List.foldl_cons] at ho hinv ⊢
    refine ⟨hinv, ?_⟩
    rcases hc with hc | hc
    · exact ⟨order, by rw [ho, hc]⟩
    · exact ⟨t :: order, by rw [ho, hc]; rfl⟩

/-- threads that never go through the `GetState` pointer -/
def NoGetState (ths : List (List (Op S V) × V)) : Prop :=
  ∀ th ∈ ths, ∀ (w : Wrapper) (f : S → V → S × V), Op.st w f ∈ th.1 → w ≠ .getState

theorem allLocked_of_noGetState {l : LockFacts}
    (hl : ∀ w, w ≠ Wrapper.getState → l.of w = true) {ths : List (List (Op S V) × V)}
    (h : NoGetState ths) (s0 : S) (lg : List (Ev S V)) : AllLocked l.of (⟨s0, ths, lg⟩ : Core S V) := by
  intro t prog v ht w f hm
  exact hl w (h (prog, v) (List.mem_of_getElem? ht) w f hm)

/-! ## invariants of the atomic machine -/

theorem astep_cases (c : Core S V) (t : Nat) :
    (astep c t = c) ∨
    ∃ o rest v, c.threads[t]? = some (o :: rest, v) ∧
      astep c t =
        ⟨applyEv c.shared (mkEv t o v c.shared),
         c.threads.set t (rest, (mkEv t o v c.shared).vout), c.log ++ [mkEv t o v c.shared]⟩ := by
  rcases commitWith_cases c t c.shared with ⟨h, _⟩ | ⟨o, rest, v, hth, he⟩
  · exact .inl h
  · refine .inr ⟨o, rest, v, hth, ?_⟩
    unfold astep; rw [he]
    cases o <;> rfl

theorem pending_set_self {c : Core S V} {t : Nat} {p : List (Op S V)} {v v' : V} {rest : List (Op S V)}
    (h : c.threads[t]? = some (p, v)) (sh : S) (lg : List (Ev S V)) :
    pending (⟨sh, c.threads.set t (rest, v'), lg⟩ : Core S V) t = rest := by
  have hlt : t < c.threads.length := by
    rcases Nat.lt_or_ge t c.threads.length with h' | h'
    · exact h'
    · rw [List.getElem?_eq_none h'] at h; cases h
  simp [pending, hlt]

theorem pending_set_other {c : Core S V} {t u : Nat} (hne : u ≠ t) (x : List (Op S V) × V)
    (sh : S) (lg : List (Ev S V)) :
    pending (⟨sh, c.threads.set u x, lg⟩ : Core S V) t = pending c t := by
  simp [pending, hne]

/-- What a run of the atomic machine appends to the log, with everything the property
    needs to know about it. -/
structure RunFacts (c c' : Core S V) (new : List (Ev S V)) : Prop where
  log_eq : c'.log = c.log ++ new
  /-- the final state is the serial replay of the appended operations -/
  shared_eq : c'.shared = replay c.shared new
  /-- each operation returned what its function returns at its place in that serial order -/
  returns : Returns c.shared new
  /-- program order: what thread `t` committed, followed by what it still has to do, is
      the program it had -/
  order : ∀ t, (evsOf t new).map (·.op) ++ pending c' t = pending c t
  /-- value hand-over along each pipeline -/
  flow : ∀ t p v, c.threads[t]? = some (p, v) →
      ∃ p' v', c'.threads[t]? = some (p', v') ∧ Chained v (evsOf t new) v'
  /-- no operation lost or invented -/
  conserve : (new.map (·.op) ++ remaining c').Perm (remaining c)
  len : c'.threads.length = c.threads.length

theorem remaining_set_perm (l : List (List (Op S V) × V)) (t : Nat) (o : Op S V)
    (rest : List (Op S V)) (v v' : V) (h : l[t]? = some (o :: rest, v)) :
    (o :: ((l.set t (rest, v')).map (·.1)).flatten).Perm ((l.map (·.1)).flatten) := by
  induction l generalizing t with
  | nil => simp at h
  | cons x xs ih =>
    cases t with
    | zero =>
      simp only [List.getElem?_cons_zero, Option.some.injEq] at h
      subst h
      simp
    | succ t =>
      simp only [List.getElem?_cons_succ] at h
      have := ih t h
      simp only [List.set_cons_succ, List.map_cons, List.flatten_cons]
      exact (List.perm_middle (l₁ := x.1) (a := o)).symm.trans (List.Perm.append_left x.1 this)

theorem chained_snoc {v0 v : V} {evs : List (Ev S V)} (h : Chained v0 evs v) (e : Ev S V)
    (he : e.vin = v) : Chained v0 (evs ++ [e]) e.vout := by
  induction evs generalizing v0 with
  | nil => simp only [Chained] at h; subst h; exact ⟨he, rfl⟩
  | cons x xs ih => exact ⟨h.1, ih h.2⟩

theorem arun_facts (order : List Nat) :
    ∀ c : Core S V, ∃ new, RunFacts c (arun order c) new := by
  induction order with
  | nil =>
    intro c
    refine ⟨[], ⟨by simp [arun], rfl, trivial, by simp [evsOf, arun], ?_, by simp [arun], rfl⟩⟩
    intro t p v h; exact ⟨p, v, h, rfl⟩
  | cons u order ih =>
    intro c
    have hrun : arun (u :: order) c = arun order (astep c u) := rfl
    obtain ⟨new, hf⟩ := ih (astep c u)
    rcases astep_cases c u with he | ⟨o, rest, v, hth, he⟩
    · rw [hrun]; rw [he] at hf ⊢; exact ⟨new, hf⟩
    · refine ⟨mkEv u o v c.shared :: new, ?_⟩
      rw [hrun]
      have hlt : u < c.threads.length := by
        rcases Nat.lt_or_ge u c.threads.length with h' | h'
        · exact h'
        · rw [List.getElem?_eq_none h'] at hth; cases hth
      constructor
      · rw [hf.log_eq, he]; simp
      · rw [hf.shared_eq, he]; rfl
      · exact ⟨mkEv_ret .., by have := hf.returns; rw [he] at this; exact this⟩
      · intro t
        have h1 := hf.order t
        by_cases htu : u = t
        · subst htu
          have hps : pending (astep c u) u = rest := by rw [he]; exact pending_set_self hth _ _
          have hp : pending c u = o :: rest := by simp [pending, hth]
          rw [hps] at h1
          simp only [evsOf, List.filter_cons, mkEv_tid, beq_self_eq_true, if_true, List.map_cons,
            mkEv_op, List.cons_append, hp]
          simp only [evsOf] at h1
          rw [h1]
        · have hps : pending (astep c u) t = pending c t := by
            rw [he]; exact pending_set_other htu _ _ _
          rw [hps] at h1
          have hb : ((mkEv u o v c.shared).tid == t) = false := by simp [htu]
          simp only [evsOf, List.filter_cons, hb] at h1 ⊢
          exact h1
      · intro t p v0 hpt
        by_cases htu : u = t
        · subst htu
          rw [hth] at hpt; cases hpt
          have hset : (astep c u).threads[u]? = some (rest, (mkEv u o v c.shared).vout) := by
            rw [he]; simp [hlt]
          obtain ⟨p', v', hp', hch⟩ := hf.flow u _ _ hset
          refine ⟨p', v', hp', ?_⟩
          simp only [evsOf, List.filter_cons, mkEv_tid, beq_self_eq_true, if_true]
          exact ⟨rfl, hch⟩
        · have hset : (astep c u).threads[t]? = some (p, v0) := by
            rw [he]; simp [htu, hpt]
          obtain ⟨p', v', hp', hch⟩ := hf.flow t _ _ hset
          refine ⟨p', v', hp', ?_⟩
          have hb : ((mkEv u o v c.shared).tid == t) = false := by simp [htu]
          simp only [evsOf, List.filter_cons, hb] at hch ⊢
          exact hch
      · have h1 := hf.conserve
        have h2 := remaining_set_perm c.threads u o rest v (mkEv u o v c.shared).vout hth
        simp only [List.map_cons, mkEv_op, List.cons_append]
        refine (List.Perm.cons o h1).trans ?_
        rw [he]; exact h2
      · rw [hf.len, he]; simp

/-! ## commutative updates: the exact value -/

theorem replay_eq_foldl (g : Op S V → S → S) (evs : List (Ev S V)) (s0 : S)
    (hg : ∀ e ∈ evs, ∀ s, applyEv s e = g e.op s) :
    replay s0 evs = (evs.map (·.op)).foldl (fun s o => g o s) s0 := by
  induction evs generalizing s0 with
  | nil => rfl
  | cons e es ih =>
    simp only [replay, List.foldl_cons, List.map_cons]
    rw [hg e (List.mem_cons_self ..) s0]
    exact ih _ (fun e' he' => hg e' (List.mem_cons_of_mem _ he'))

theorem allDone_remaining {c : Core S V} (h : allDone c = true) : remaining c = [] := by
  unfold allDone at h; unfold remaining
  rw [List.all_eq_true] at h
  apply List.flatten_eq_nil_iff.mpr
  intro l hl
  rw [List.mem_map] at hl
  obtain ⟨th, hth, rfl⟩ := hl
  have := h th hth
  simpa [List.isEmpty_iff] using this

/-! ## allocation -/

mutual
theorem allocated_bounds (g : GTree) (next : Nat) :
    next ≤ (allocated g next).2 ∧ ∀ a ∈ (allocated g next).1, next ≤ a ∧ a < (allocated g next).2 := by
  cases g with
  | mk static subs =>
    cases static with
    | none => simpa [allocated] using allocateds_bounds subs next
    | some s =>
      have h := allocateds_bounds subs (next + 1)
      simp only [allocated]
      refine ⟨by omega, ?_⟩
      intro a ha
      simp only [List.mem_cons] at ha
      rcases ha with rfl | ha
      · omega
      · have := h.2 a ha; omega
theorem allocateds_bounds (gs : GTrees) (next : Nat) :
    next ≤ (allocateds gs next).2 ∧ ∀ a ∈ (allocateds gs next).1, next ≤ a ∧ a < (allocateds gs next).2 := by
  cases gs with
  | nil => simp [allocateds]
  | cons g gs =>
    have h1 := allocated_bounds g next
    have h2 := allocateds_bounds gs (allocated g next).2
    simp only [allocateds]
    refine ⟨by omega, ?_⟩
    intro a ha
    simp only [List.mem_append] at ha
    rcases ha with ha | ha
    · have := h1.2 a ha; omega
    · have := h2.2 a ha; omega
end

mutual
theorem allocated_nodup (g : GTree) (next : Nat) : (allocated g next).1.Nodup := by
  cases g with
  | mk static subs =>
    cases static with
    | none => simpa [allocated] using allocateds_nodup subs next
    | some s =>
      simp only [allocated, List.nodup_cons]
      refine ⟨?_, allocateds_nodup subs (next + 1)⟩
      intro hmem
      have := (allocateds_bounds subs (next + 1)).2 next hmem
      omega
theorem allocateds_nodup (gs : GTrees) (next : Nat) : (allocateds gs next).1.Nodup := by
  cases gs with
  | nil => simp [allocateds]
  | cons g gs =>
    simp only [allocateds]
    rw [List.nodup_append]
    refine ⟨allocated_nodup g next, allocateds_nodup gs _, ?_⟩
    intro a ha b hb hab
    subst hab
    have h1 := (allocated_bounds g next).2 a ha
    have h2 := (allocateds_bounds gs (allocated g next).2).2 a hb
    omega
end

/- with per-run allocation: the allocator moves as `allocated` says, and every address a
    graph of the run sees is either the incoming context's or one allocated by this run -/
mutual
theorem runTree_spec (g : GTree) (ctx : Option Nat) (next : Nat) :
    (runTree true g ctx next).2 = (allocated g next).2 ∧
    ∀ x ∈ (runTree true g ctx next).1, x = ctx ∨ ∃ a, x = some a ∧ a ∈ (allocated g next).1 := by
  cases g with
  | mk static subs =>
    cases static with
    | none =>
      have h := runTrees_spec subs ctx next
      simp only [runTree, allocated]
      refine ⟨h.1, ?_⟩
      intro x hx
      simp only [List.mem_cons] at hx
      rcases hx with rfl | hx
      · exact .inl rfl
      · exact h.2 x hx
    | some s =>
      have h := runTrees_spec subs (some next) (next + 1)
      simp only [runTree, allocated, if_true]
      refine ⟨h.1, ?_⟩
      intro x hx
      simp only [List.mem_cons] at hx
      rcases hx with rfl | hx
      · exact .inr ⟨next, rfl, List.mem_cons_self ..⟩
      · rcases h.2 x hx with rfl | ⟨a, rfl, ha⟩
        · exact .inr ⟨next, rfl, List.mem_cons_self ..⟩
        · exact .inr ⟨a, rfl, List.mem_cons_of_mem _ ha⟩
theorem runTrees_spec (gs : GTrees) (ctx : Option Nat) (next : Nat) :
    (runTrees true gs ctx next).2 = (allocateds gs next).2 ∧
    ∀ x ∈ (runTrees true gs ctx next).1, x = ctx ∨ ∃ a, x = some a ∧ a ∈ (allocateds gs next).1 := by
  cases gs with
  | nil => simp [runTrees, allocateds]
  | cons g gs =>
    have h1 := runTree_spec g ctx next
    have h2 := runTrees_spec gs ctx (runTree true g ctx next).2
    simp only [runTrees, allocateds]
    rw [h1.1] at h2
    refine ⟨by rw [h1.1]; exact h2.1, ?_⟩
    intro x hx
    simp only [List.mem_append] at hx
    rcases hx with hx | hx
    · rcases h1.2 x hx with h | ⟨a, rfl, ha⟩
      · exact .inl h
      · exact .inr ⟨a, rfl, List.mem_append_left _ ha⟩
    · rw [h1.1] at hx
      rcases h2.2 x hx with h | ⟨a, rfl, ha⟩
      · exact .inl h
      · exact .inr ⟨a, rfl, List.mem_append_right _ ha⟩
end

/-! ## several runs of one compiled graph -/

theorem runTree_range (g : GTree) (next : Nat) :
    next ≤ (runTree true g none next).2 ∧
    ∀ a, some a ∈ (runTree true g none next).1 → next ≤ a ∧ a < (runTree true g none next).2 := by
  have hs := runTree_spec g none next
  have hb := allocated_bounds g next
  rw [hs.1]
  refine ⟨hb.1, ?_⟩
  intro a ha
  rcases hs.2 _ ha with h | ⟨a', h, ha'⟩
  · cases h
  · cases h; exact hb.2 a ha'

theorem runMany_lower (g : GTree) (k : Nat) :
    ∀ next, ∀ l ∈ runMany true g k next, ∀ a, some a ∈ l → next ≤ a := by
  induction k with
  | zero => intro next l hl; simp [runMany] at hl
  | succ k ih =>
    intro next l hl a ha
    simp only [runMany, List.mem_cons] at hl
    rcases hl with rfl | hl
    · exact ((runTree_range g next).2 a ha).1
    · have := ih _ l hl a ha
      have := (runTree_range g next).1
      omega

theorem runMany_pairwise (g : GTree) (k : Nat) :
    ∀ next, (runMany true g k next).Pairwise (fun l₁ l₂ => ∀ a, some a ∈ l₁ → some a ∉ l₂) := by
  induction k with
  | zero => intro next; simp [runMany]
  | succ k ih =>
    intro next
    simp only [runMany, List.pairwise_cons]
    refine ⟨?_, ih _⟩
    intro l hl a ha ha'
    have h1 := ((runTree_range g next).2 a ha).2
    have h2 := runMany_lower g k _ l hl a ha'
    omega

/-! ## one mutex among many: the many-mutex machine with a constant `lockOf` is the
    one-mutex machine -/

theorem embed_setPhase (k : Nat) (sys : Sys S V) (t : Nat) (p : Phase S) :
    (embed k sys).setPhase t p = embed k (sys.setPhase t p) := rfl

theorem stepL_const (k : Nat) (locks : Wrapper → Bool) (sys : Sys S V) (t : Nat) :
    stepL (fun _ => k) locks (embed k sys) t = embed k (step locks sys t) := by
  have hset : ∀ (s : Sys S V) (h : Option Nat),
      (embed k s).setHolder k h = embed k { s with holder := h } := by
    intro s h
    simp only [embed, SysL.setHolder]
    congr 1
    funext m
    by_cases hm : m = k <;> simp [hm]
  unfold stepL step
  show (match sys.phase t with
    | .stored => _
    | .locked => _
    | .loaded snap => _
    | .idle => _) = _
  cases hp : sys.phase t with
  | stored => simp only [embed_setPhase, hset]
  | locked => rfl
  | loaded snap =>
    simp only [embed]
    cases hn : nextOp sys.core t with
    | none => rfl
    | some o => cases o <;> rfl
  | idle =>
    simp only
    cases hn : nextOp sys.core t with
    | none => simp only [embed, hn]
    | some o =>
      cases o with
      | loc g => simp only [embed, hn]
      | st w f =>
        have he : nextOp (embed k sys).core t = some (Op.st w f) := hn
        simp only [he]
        by_cases hw : locks w = true
        · simp only [hw, if_true]
          have hh : (embed k sys).holder k = sys.holder := by simp [embed]
          rw [hh]
          cases hholder : sys.holder with
          | none => simp only [embed_setPhase, hset]
          | some x => rfl
        · simp only [hw]; rfl

theorem runL_const (k : Nat) (locks : Wrapper → Bool) (guardL : SysL S V → Nat → Bool)
    (sched : List Nat) :
    ∀ sys : Sys S V,
      runL (fun _ => k) locks guardL sched (embed k sys) =
        embed k (run locks (fun s t => guardL (embed k s) t) sched sys) := by
  induction sched with
  | nil => intro sys; rfl
  | cons t sched ih =>
    intro sys
    simp only [runL, run, List.foldl_cons]
    have h1 : gstepL (fun _ => k) locks guardL (embed k sys) t =
        embed k (gstep locks (fun s t => guardL (embed k s) t) sys t) := by
      unfold gstepL gstep
      by_cases hg : guardL (embed k sys) t = true
      · simp only [hg, if_true]; exact stepL_const k locks sys t
      · simp only [hg]; rfl
    rw [h1]
    exact ih _

theorem initL_eq_embed (k : Nat) (s0 : S) (ths : List (List (Op S V) × V)) :
    initL s0 ths = embed k (init s0 ths) := by
  simp only [initL, embed, init]
  congr 1
  funext m
  by_cases hm : m = k <;> simp [hm]

theorem resumeLockOf_one (restored : Nat) : resumeLockOf true restored = fun _ => 0 := by
  funext t; simp [resumeLockOf]

/-! ## resume level by level -/

theorem resumeLevel_own {f : ResumeFacts} (hs : f.saves = true) (hr : f.restoresFirst = true)
    (ha : f.setAlways = true) (m : Option (S → S)) (s : S) :
    resumeLevel f m (some s) = .own (applyMod m s) := by
  simp [resumeLevel, interruptCP, hs, hr, ha]

theorem resumeLevel_none (f : ResumeFacts) (m : Option (S → S)) :
    resumeLevel f m (none : Option S) = .inherited := by
  unfold resumeLevel interruptCP
  cases f.saves <;> rfl

theorem visible_own : ∀ (l : List (Seen S)) (ctx : Option S) (i : Nat) (s : S),
    l[i]? = some (.own s) → (visible ctx l)[i]? = some (some s) := by
  intro l
  induction l with
  | nil => intro ctx i s h; simp at h
  | cons x xs ih =>
    intro ctx i s h
    cases i with
    | zero =>
      simp only [List.getElem?_cons_zero, Option.some.injEq] at h
      subst h; simp [visible]
    | succ i =>
      simp only [List.getElem?_cons_succ] at h
      cases x with
      | own s' => simp only [visible, List.getElem?_cons_succ]; exact ih _ i s h
      | inherited => simp only [visible, List.getElem?_cons_succ]; exact ih _ i s h

/-- the head of `visible` is the context for an inheriting level -/
theorem visible_length : ∀ (l : List (Seen S)) (ctx : Option S), (visible ctx l).length = l.length := by
  intro l
  induction l with
  | nil => intro ctx; rfl
  | cons x xs ih => intro ctx; cases x <;> simp [visible, ih]

theorem visible_inherited : ∀ (l : List (Seen S)) (ctx : Option S) (i : Nat),
    l[i + 1]? = some .inherited → (visible ctx l)[i + 1]? = (visible ctx l)[i]? := by
  intro l
  induction l with
  | nil => intro ctx i h; simp at h
  | cons x xs ih =>
    intro ctx i h
    simp only [List.getElem?_cons_succ] at h
    cases i with
    | zero =>
      cases xs with
      | nil => simp at h
      | cons y ys =>
        simp only [List.getElem?_cons_zero, Option.some.injEq] at h
        subst h
        cases x <;> simp [visible]
    | succ i =>
      cases x with
      | own s' => simp only [visible, List.getElem?_cons_succ]; exact ih _ i h
      | inherited => simp only [visible, List.getElem?_cons_succ]; exact ih _ i h

theorem resumePath_get (top sub : ResumeFacts) (lv : List (Option (S → S) × Option S)) (i : Nat)
    (m : Option (S → S)) (a : Option S) (h : lv[i]? = some (m, a)) :
    (resumePath top sub lv)[i]? = some (resumeLevel (if i = 0 then top else sub) m a) := by
  cases lv with
  | nil => simp at h
  | cons x rest =>
    cases i with
    | zero =>
      simp only [List.getElem?_cons_zero, Option.some.injEq] at h
      subst h; simp [resumePath]
    | succ i =>
      simp only [List.getElem?_cons_succ] at h
      obtain ⟨m0, a0⟩ := x
      simp [resumePath, h]

end EinoV.C11
