/-
  C04 — helper lemmas (no property statements here).
-/
import EinoV.Model.C04

namespace EinoV.C04
open EinoV.Engine

theorem concat_single {V} (co : ChunkOps V) (v : V) : concat co [v] = .ok v := rfl

theorem bind_ok {ε α β} (a : α) (f : α → Except ε β) : (Except.ok a >>= f) = f a := rfl
theorem bind_assoc' {ε α β γ} (x : Except ε α) (f : α → Except ε β) (g : β → Except ε γ) :
    (x >>= f >>= g) = (x >>= fun a => f a >>= g) := by cases x <;> rfl
theorem bind_pure' {ε α} (x : Except ε α) : (x >>= fun a => pure a) = x := by cases x <;> rfl


end EinoV.C04
