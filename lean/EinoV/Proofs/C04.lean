/-
  C04 — helper lemmas (no property statements here).
-/
import EinoV.Model.C04
import EinoV.Expected.C04
import EinoV.Proofs.EngineHom

namespace EinoV.C04
open EinoV.Engine

theorem concat_single {V} (co : ChunkOps V) (v : V) : concat co [v] = .ok v := rfl

theorem bind_ok {ε α β} (a : α) (f : α → Except ε β) : (Except.ok a >>= f) = f a := rfl
theorem bind_assoc' {ε α β γ} (x : Except ε α) (f : α → Except ε β) (g : β → Except ε γ) :
    (x >>= f >>= g) = (x >>= fun a => f a >>= g) := by cases x <;> rfl
theorem bind_pure' {ε α} (x : Except ε α) : (x >>= fun a => pure a) = x := by cases x <;> rfl


theorem packer_agree_expected {V} (co : ChunkOps V) (f : V → Except Err V) (chunk : V → List V)
    (hchunk : ∀ v, concat co (chunk v) = .ok v)
    (hasI hasS hasC hasT : Bool) (hne : (hasI || hasS || hasC || hasT) = true) :
    let p := pack co Expected.C04.packerPref (nativeOf co f chunk hasI hasS hasC hasT)
    (∀ x, p.i x = f x) ∧ (∀ x, (p.s x >>= concat co) = f x) ∧
    (∀ xs, p.c xs = (concat co xs >>= f)) ∧ (∀ xs, (p.t xs >>= concat co) = (concat co xs >>= f)) := by
  have e1 : ∀ (x : Except Err V), (x >>= fun a => concat co (chunk a)) = x := by
    intro x; cases x <;> simp [bind, Except.bind, hchunk]
  have e2 : ∀ (x : Except Err V), (x >>= fun a => concat co [a]) = x := by
    intro x; cases x <;> simp [bind, Except.bind, concat]
  have e3 : ∀ {β} (x : V) (g : V → Except Err β), (Except.ok x >>= g) = g x := fun _ _ => rfl
  have e4 : ∀ {β} (y : Except Err V) (g : V → Except Err β) (k : β → Except Err V),
      (y >>= fun a => g a >>= k) = (y >>= g >>= k) := by
    intro β y g k; cases y <;> rfl
  have e5 : ∀ (x : Except Err V), (x >>= fun a => Except.ok a) = x := by
    intro x; cases x <;> rfl
  cases hasI <;> cases hasS <;> cases hasC <;> cases hasT <;> simp at hne <;>
    simp [pack, nativeOf, pickSource, Native.has, Expected.C04.packerPref, deriveI, deriveS, deriveC, deriveT,
      concat_single, e1, e2, e3, e5] <;>
    (try constructor) <;> intros <;> (try rw [e4, e1]) <;> (try rw [e4, e2]) <;> (try simp [e5])


/-- total concatenation: the concatenation of a chunk list, `d` where `concat` fails -/
def concatD {V} (co : ChunkOps V) (d : V) (l : List V) : V :=
  match concat co l with
  | .ok v => v
  | .error _ => d

theorem concat_eq_concatD {V} (co : ChunkOps V) (d : V)
    (hct : ∀ l, l ≠ [] → ∃ v, concat co l = .ok v) (l : List V) (hl : l ≠ []) :
    concat co l = .ok (concatD co d l) := by
  obtain ⟨v, hv⟩ := hct l hl
  simp [concatD, hv]

theorem packed_t_nonempty {V} (co : ChunkOps V) (f : V → Except Err V) (chunk : V → List V)
    (hne : ∀ v, chunk v ≠ []) (hasI hasS hasC hasT : Bool) (hany : (hasI || hasS || hasC || hasT) = true)
    (a a' : List V)
    (h : (pack co Expected.C04.packerPref (nativeOf co f chunk hasI hasS hasC hasT)).t a = .ok a') : a' ≠ [] := by
  cases hasI <;> cases hasS <;> cases hasC <;> cases hasT <;> simp at hany <;>
    simp only [pack, nativeOf, pickSource, Native.has, Expected.C04.packerPref, deriveT, Option.isSome,
      Bool.false_eq_true, ↓reduceIte] at h <;>
    (cases hc : concat co a with
     | error e => simp [hc, bind, Except.bind] at h
     | ok x =>
       cases hf : f x with
       | error e => simp [hc, hf, bind, Except.bind] at h
       | ok o => simp [hc, hf, bind, Except.bind, pure, Except.pure] at h; subst h; first | exact hne o | simp)

theorem map_eq_bind_concat {V} (co : ChunkOps V) (d : V)
    (hct : ∀ l, l ≠ [] → ∃ v, concat co l = .ok v)
    (x : Except Err (List V)) (hx : ∀ a', x = .ok a' → a' ≠ []) :
    x.map (concatD co d) = (x >>= concat co) := by
  cases x with
  | error e => rfl
  | ok a' =>
    simp only [Except.map, bind, Except.bind]
    rw [concat_eq_concatD co d hct a' (hx a' rfl)]

/-- a packed component is a node of the stream-mode runner that corresponds, along
    concatenation, to the same component in the value-mode runner -/
theorem packed_component_commutes {V} (co : ChunkOps V) (d : V)
    (hct : ∀ l, l ≠ [] → ∃ v, concat co l = .ok v)
    (f : V → Except Err V) (chunk : V → List V)
    (hchunk : ∀ v, concat co (chunk v) = .ok v) (hne : ∀ v, chunk v ≠ [])
    (hasI hasS hasC hasT : Bool) (hany : (hasI || hasS || hasC || hasT) = true) (a : List V) (ha : a ≠ []) :
    let p := pack co Expected.C04.packerPref (nativeOf co f chunk hasI hasS hasC hasT)
    p.i (concatD co d a) = (p.t a).map (concatD co d) := by
  intro p
  have key := packer_agree_expected co f chunk hchunk hasI hasS hasC hasT hany
  obtain ⟨k1, _, _, k4⟩ := key
  rw [map_eq_bind_concat co d hct _ (fun a' h' => packed_t_nonempty co f chunk hne hasI hasS hasC hasT hany a a' h')]
  rw [k4 a, k1, concat_eq_concatD co d hct a ha]
  rfl

end EinoV.C04
