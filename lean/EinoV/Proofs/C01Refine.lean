/-
  C01 — refinement of the engine's bookkeeping (write maps keyed by target/sender, the
  data-predecessor filter, channel report/get/clear) to the superstep specification
  EinoV/Spec/Superstep.lean.  Helper lemmas and the refinement theorems `calcNext_pregel`,
  `loop_pregel`, `run_pregel` (re-stated as property theorems in EinoV/Props/C01.lean).
-/
import EinoV.Model.Engine
import EinoV.Spec.Superstep
import EinoV.Proofs.Assoc

namespace EinoV.Engine
open EinoV.Spec

/-! ### pregel: skips are no-ops -/

theorem skipOne_pregel {V} (cm : Chans V) (k f : Key) : skipOne false cm k f = (cm, false) := by
  simp [skipOne]

theorem skipStep_pregel {V} (f : Key) (acc : Chans V × List Key) (s : Key) :
    skipStep false f acc s = acc := by
  simp [skipStep, skipOne]

theorem foldl_skipStep_pregel {V} (f : Key) (l : List Key) (acc : Chans V × List Key) :
    l.foldl (skipStep false f) acc = acc := by
  induction l generalizing acc with
  | nil => rfl
  | cons a t ih => simp [List.foldl_cons, skipStep_pregel, ih]

theorem reportBranch_pregel {V} (r : Runner V) (h : r.dag = false) (cm : Chans V) (f : Key) (sk : List Key) :
    reportBranch r cm f sk = .ok cm := by
  unfold reportBranch
  simp only [h, foldl_skipStep_pregel]
  cases (r.nodes.length + 2) * (r.nodes.length + 2) <;> simp [propagateSkips]

theorem calcBranch_pregel {V} (r : Runner V) (h : r.dag = false) (cm : Chans V) (n : Node V) (out : V) :
    calcBranch r cm n out = (selectOf n out).map (fun sel => (cm, sel)) := by
  unfold calcBranch
  cases hs : selectOf n out with
  | error e => rfl
  | ok sel => simp [reportBranch_pregel r h, Except.map, bind, Except.bind, pure, Except.pure]


/-! ### resolve, in pregel mode, is: compute what every finished task sends, then fold the writes -/

def writesStep {V} (ws : List (Key × List (Key × V))) (s : Sent V) : List (Key × List (Key × V)) :=
  s.2.2.foldl (fun ws k => addWrite ws k s.1 s.2.1) ws

theorem resolveStep_pregel {V} (r : Runner V) (h : r.dag = false) (acc : Resolved V) (t : Done V) :
    (resolveStep r acc t).map (fun x => (x.cm, x.writes))
      = (sentOf r t).map (fun s => (acc.cm, writesStep acc.writes s)) := by
  unfold resolveStep sentOf
  cases hc : r.call? t.1 with
  | none => simp [Except.map, pure, Except.pure, writesStep]
  | some n =>
    simp only [calcBranch_pregel r h]
    cases hs : selectOf n t.2 with
    | error e => simp [Except.map, bind, Except.bind]
    | ok sel => simp [Except.map, bind, Except.bind, pure, Except.pure, writesStep]

theorem foldlM_resolve_pregel {V} (r : Runner V) (h : r.dag = false) (done : List (Done V)) (acc : Resolved V) :
    (done.foldlM (resolveStep r) acc).map (fun x => (x.cm, x.writes))
      = (done.mapM (sentOf r)).map (fun sent => (acc.cm, sent.foldl writesStep acc.writes)) := by
  induction done generalizing acc with
  | nil => simp [Except.map, pure, Except.pure]
  | cons t rest ih =>
    simp only [List.foldlM_cons, List.mapM_cons]
    have h1 := resolveStep_pregel r h acc t
    cases hr : resolveStep r acc t with
    | error e =>
      cases hs : sentOf r t with
      | error e' => simp [hr, hs, Except.map] at h1; simp [Except.map, bind, Except.bind, h1]
      | ok s => simp [hr, hs, Except.map] at h1
    | ok acc' =>
      cases hs : sentOf r t with
      | error e' => simp [hr, hs, Except.map] at h1
      | ok s =>
        simp only [hr, hs, Except.map, Except.ok.injEq, Prod.mk.injEq] at h1
        have := ih acc'
        simp only [bind, Except.bind] at this ⊢
        rw [this, h1.1, h1.2]
        cases List.mapM (sentOf r) rest <;> simp [Except.map, pure, Except.pure]


/-! ### what a target finds in the writes map -/

def gl {V} (t : Key) (ws : List (Key × List (Key × V))) : List (Key × V) := (alookup t ws).getD []

theorem aset_aset_same {α} (k : Key) (v : α) (l : List (Key × α)) : aset k v (aset k v l) = aset k v l :=
  aset_idem k v _ (alookup_aset_same k v l)

theorem gl_addWrite {V} (ws : List (Key × List (Key × V))) (to from_ t : Key) (v : V) :
    gl t (addWrite ws to from_ v) = if t = to then aset from_ v (gl t ws) else gl t ws := by
  unfold gl addWrite
  by_cases h : t = to
  · subst h; simp [alookup_aset_same]
  · simp [alookup_aset_other _ _ _ _ h, h]

/-- one sender: every target gets (from, v) set in its list -/
theorem gl_targets_fold {V} (from_ : Key) (v : V) (tg : List Key) (ws : List (Key × List (Key × V))) (t : Key) :
    gl t (tg.foldl (fun ws k => addWrite ws k from_ v) ws)
      = if tg.contains t then aset from_ v (gl t ws) else gl t ws := by
  induction tg generalizing ws with
  | nil => simp
  | cons k rest ih =>
    simp only [List.foldl_cons]
    rw [ih, gl_addWrite]
    by_cases h1 : t = k
    · subst h1
      simp [aset_aset_same]
    · have : (k == t) = false := by simpa using fun e => h1 e.symm
      simp [h1, this, List.contains_cons]

def sendersTo {V} (sent : List (Sent V)) (t : Key) : List (Key × V) :=
  sent.filterMap (fun s => if s.2.2.contains t then some (s.1, s.2.1) else none)

theorem akeys_sendersTo_sub {V} (sent : List (Sent V)) (t k : Key) (h : k ∈ akeys (sendersTo sent t)) :
    k ∈ sent.map (·.1) := by
  unfold sendersTo akeys at h
  simp only [List.mem_map, List.mem_filterMap] at h ⊢
  obtain ⟨p, ⟨s, hs, hp⟩, rfl⟩ := h
  refine ⟨s, hs, ?_⟩
  split at hp <;> simp at hp
  rw [← hp]

/-- folding the writes of senders with distinct keys: each target's list grows by exactly
    the senders that target it, in order -/
theorem gl_writes_fold {V} (sent : List (Sent V)) (ws : List (Key × List (Key × V))) (t : Key)
    (hnd : (sent.map (·.1)).Nodup) (hdis : ∀ k ∈ sent.map (·.1), k ∉ akeys (gl t ws)) :
    gl t (sent.foldl writesStep ws) = gl t ws ++ sendersTo sent t := by
  induction sent generalizing ws with
  | nil => simp [sendersTo]
  | cons s rest ih =>
    simp only [List.foldl_cons]
    simp only [List.map_cons, List.nodup_cons] at hnd
    have hstep : gl t (writesStep ws s) = if s.2.2.contains t then gl t ws ++ [(s.1, s.2.1)] else gl t ws := by
      unfold writesStep
      rw [gl_targets_fold]
      split
      · rw [aset_append_new]; exact hdis s.1 (by simp)
      · rfl
    rw [ih (writesStep ws s) hnd.2]
    · rw [hstep]
      unfold sendersTo
      simp only [List.filterMap_cons]
      split <;> simp
    · intro k hk
      rw [hstep]
      have hk' := hdis k (by simp [hk])
      split
      · simp only [akeys, List.map_append, List.map_cons, List.map_nil, List.mem_append, List.mem_singleton, not_or]
        refine ⟨by simpa [akeys] using hk', ?_⟩
        intro e; subst e; exact hnd.1 hk
      · exact hk'


/-! ### the writes map has distinct targets -/

theorem nodup_keys_addWrite {V} (ws : List (Key × List (Key × V))) (to from_ : Key) (v : V)
    (h : (akeys ws).Nodup) : (akeys (addWrite ws to from_ v)).Nodup := nodup_akeys_aset _ _ _ h

theorem nodup_keys_writesStep {V} (ws : List (Key × List (Key × V))) (s : Sent V)
    (h : (akeys ws).Nodup) : (akeys (writesStep ws s)).Nodup := by
  unfold writesStep
  generalize s.2.2 = tg
  induction tg generalizing ws with
  | nil => exact h
  | cons k rest ih => exact ih _ (nodup_keys_addWrite ws k s.1 s.2.1 h)

theorem nodup_keys_writes {V} (sent : List (Sent V)) (ws : List (Key × List (Key × V)))
    (h : (akeys ws).Nodup) : (akeys (sent.foldl writesStep ws)).Nodup := by
  induction sent generalizing ws with
  | nil => exact h
  | cons s rest ih => exact ih _ (nodup_keys_writesStep ws s h)

/-! ### channel manager updates, channel by channel -/

theorem modChan_id {V} (cm : Chans V) (k : Key) : modChan cm k (fun c => c) = cm := by
  unfold modChan
  induction cm with
  | nil => rfl
  | cons p t ih => simp [ih]

theorem gl_cons {V} (t : Key) (w : Key × List (Key × V)) (rest : List (Key × List (Key × V))) :
    gl t (w :: rest) = if (w.1 == t) = true then w.2 else gl t rest := by
  obtain ⟨k, l⟩ := w
  unfold gl
  by_cases h : (k == t) = true <;> simp [alookup, h]

theorem reportValues_nil {V} (dag : Bool) (c : Chan V) : c.reportValues dag [] = c := by
  unfold Chan.reportValues; split <;> (try split) <;> rfl

/-- `updateValues` with distinct targets updates every channel independently -/
theorem updateValues_map {V} (r : Runner V) (writes : List (Key × List (Key × V))) (cm : Chans V)
    (hnd : (akeys writes).Nodup) :
    updateValues r cm writes = cm.map (fun p =>
      (p.1, p.2.reportValues r.dag ((gl p.1 writes).filter (fun kv => (lookupList p.1 r.dataPreds).contains kv.1)))) := by
  unfold updateValues
  induction writes generalizing cm with
  | nil =>
    simp only [List.foldl_nil, gl, alookup, Option.getD_none, List.filter_nil, reportValues_nil]
    simp
  | cons w rest ih =>
    simp only [List.foldl_cons]
    simp only [akeys, List.map_cons, List.nodup_cons] at hnd
    rw [ih _ (by simpa [akeys] using hnd.2)]
    unfold modChan
    rw [List.map_map]
    apply List.map_congr_left
    intro p hp
    simp only [Function.comp]
    by_cases hk : p.1 = w.1
    · have hk' : (p.1 == w.1) = true := by simpa using hk
      have hk'' : (w.1 == p.1) = true := by simpa using hk.symm
      have hnone : gl p.1 rest = [] := by
        unfold gl; rw [alookup_none_of_not_mem]; rfl
        rw [hk]; simpa [akeys] using hnd.1
      simp only [hk', ↓reduceIte, gl_cons, hk'', hnone, List.filter_nil, reportValues_nil]
      simp [hk]
    · have hk' : (p.1 == w.1) = false := by simpa using hk
      have hk'' : (w.1 == p.1) = false := by simpa using fun e => hk e.symm
      simp only [hk', Bool.false_eq_true, ↓reduceIte, gl_cons, hk'']

theorem updateDeps_pregel {V} (r : Runner V) (h : r.dag = false) (cm : Chans V) (deps : List (Key × List Key)) :
    updateDeps r cm deps = cm := by
  unfold updateDeps
  induction deps generalizing cm with
  | nil => rfl
  | cons d rest ih =>
    simp only [List.foldl_cons]
    have : modChan cm d.1 (fun c => c.reportDeps r.dag (d.2.filter (lookupList d.1 r.ctrlPreds).contains)) = cm := by
      have e : (fun (c : Chan V) => c.reportDeps r.dag (d.2.filter (lookupList d.1 r.ctrlPreds).contains)) = fun c => c := by
        funext c; simp [Chan.reportDeps, h]
      rw [e, modChan_id]
    rw [this]; exact ih cm

/-- `getFromReadyChannels`, channel by channel -/
theorem getReady_map {V} (ops : ValOps V) (dag : Bool) (cm : Chans V) :
    getReady ops dag cm =
      (cm.map (fun p => (p.1, (p.2.get ops dag).1)),
       cm.filterMap (fun p => match (p.2.get ops dag).2 with | .ready v => some (p.1, v) | _ => none),
       cm.any (fun p => match (p.2.get ops dag).2 with | .mergeErr => true | _ => false)) := by
  induction cm with
  | nil => rfl
  | cons p t ih =>
    obtain ⟨k, c⟩ := p
    simp only [getReady, ih]
    cases hg : (c.get ops dag).2 <;> simp [hg]


/-! ### a pregel channel that starts empty holds exactly what was reported -/

theorem foldl_aset_values {V} (ins : List (Key × V)) (c : Chan V) :
    (ins.foldl (fun c (kv : Key × V) => { c with values := aset kv.1 kv.2 c.values }) c)
      = { c with values := ins.foldl (fun vs (kv : Key × V) => aset kv.1 kv.2 vs) c.values } := by
  induction ins generalizing c with
  | nil => rfl
  | cons kv rest ih => simp [List.foldl_cons, ih]

theorem foldl_aset_nodup {V} (ins acc : List (Key × V))
    (hnd : (akeys ins).Nodup) (hdis : ∀ k ∈ akeys ins, k ∉ akeys acc) :
    ins.foldl (fun vs (kv : Key × V) => aset kv.1 kv.2 vs) acc = acc ++ ins := by
  induction ins generalizing acc with
  | nil => simp
  | cons kv rest ih =>
    simp only [akeys, List.map_cons, List.nodup_cons] at hnd
    simp only [List.foldl_cons]
    rw [aset_append_new _ _ _ (hdis kv.1 (by simp [akeys]))]
    rw [ih _ (by simpa [akeys] using hnd.2)]
    · simp
    · intro k hk
      simp only [akeys, List.map_append, List.map_cons, List.map_nil, List.mem_append, List.mem_singleton, not_or]
      refine ⟨by simpa [akeys] using hdis k (by simp [akeys] at hk ⊢; exact Or.inr hk), ?_⟩
      intro e; subst e; exact hnd.1 (by simpa [akeys] using hk)

theorem reportValues_pregel_empty {V} (c : Chan V) (ins : List (Key × V))
    (hc : c.values = []) (hnd : (akeys ins).Nodup) :
    (c.reportValues false ins).values = ins := by
  unfold Chan.reportValues
  simp only [Bool.false_eq_true, ↓reduceIte, foldl_aset_values, hc]
  rw [foldl_aset_nodup ins [] hnd (by simp [akeys])]
  simp

theorem get_pregel {V} (ops : ValOps V) (c : Chan V) :
    (c.get ops false).2 = collect ops (c.values.map (·.2)) ∧ ((c.get ops false).1).values = [] := by
  unfold Chan.get
  simp only [Bool.false_eq_true, ↓reduceIte]
  by_cases h : c.values.isEmpty = true
  · have : c.values = [] := by simpa using h
    simp [h, this, collect]
  · simp [h]


/-! ### one step: `calcNext` on empty pregel channels is `Spec.next` -/

structure ChansOK {V} (r : Runner V) (cm : Chans V) : Prop where
  keys : akeys cm = Spec.keys r
  empty : ∀ p ∈ cm, p.2.values = []

theorem sentOf_key {V} (r : Runner V) (d : Done V) (s : Sent V) (h : sentOf r d = .ok s) : s.1 = d.1 := by
  unfold sentOf at h
  cases hc : r.call? d.1 with
  | none => simp [hc, pure, Except.pure] at h; rw [← h]
  | some n =>
    simp only [hc] at h
    cases hs : selectOf n d.2 with
    | error e => simp [hs, bind, Except.bind] at h
    | ok sel => simp [hs, bind, Except.bind, pure, Except.pure] at h; rw [← h]

theorem mapM_sentOf_keys {V} (r : Runner V) (done : List (Done V)) (sent : List (Sent V))
    (h : done.mapM (sentOf r) = .ok sent) : sent.map (·.1) = done.map (·.1) := by
  induction done generalizing sent with
  | nil => simp [pure, Except.pure] at h; subst h; rfl
  | cons d rest ih =>
    simp only [List.mapM_cons, bind, Except.bind] at h
    cases hs : sentOf r d with
    | error e => simp [hs] at h
    | ok s =>
      simp only [hs] at h
      cases hr : List.mapM (sentOf r) rest with
      | error e => simp [hr] at h
      | ok ss =>
        simp only [hr, pure, Except.pure, Except.ok.injEq] at h
        subst h
        simp [sentOf_key r d s hs, ih ss hr]

theorem sendersTo_cons {V} (s : Sent V) (rest : List (Sent V)) (t : Key) :
    sendersTo (s :: rest) t = if s.2.2.contains t then (s.1, s.2.1) :: sendersTo rest t else sendersTo rest t := by
  unfold sendersTo
  by_cases h : s.2.2.contains t = true
  · rw [List.filterMap_cons_some (b := (s.1, s.2.1)) (by simp only [h, ↓reduceIte])]; simp only [h, ↓reduceIte]
  · rw [List.filterMap_cons_none (by simp only [h, Bool.false_eq_true, ↓reduceIte])]; simp only [h, Bool.false_eq_true, ↓reduceIte]

theorem inbox_cons {V} (r : Runner V) (s : Sent V) (rest : List (Sent V)) (t : Key) :
    inbox r (s :: rest) t =
      if (s.2.2.contains t && (lookupList t r.dataPreds).contains s.1) = true
      then (s.1, s.2.1) :: inbox r rest t else inbox r rest t := by
  unfold inbox
  by_cases h : (s.2.2.contains t && (lookupList t r.dataPreds).contains s.1) = true
  · rw [List.filterMap_cons_some (b := (s.1, s.2.1)) (by simp only [h, ↓reduceIte])]; simp only [h, ↓reduceIte]
  · rw [List.filterMap_cons_none (by simp only [h, Bool.false_eq_true, ↓reduceIte])]; simp only [h, Bool.false_eq_true, ↓reduceIte]

theorem nodup_akeys_sendersTo {V} (sent : List (Sent V)) (t : Key) (h : (sent.map (·.1)).Nodup) :
    (akeys (sendersTo sent t)).Nodup := by
  induction sent with
  | nil => simp [sendersTo, akeys]
  | cons s rest ih =>
    simp only [List.map_cons, List.nodup_cons] at h
    rw [sendersTo_cons]
    split
    · simp only [akeys, List.map_cons, List.nodup_cons]
      refine ⟨?_, by simpa [akeys] using ih h.2⟩
      intro hm
      exact h.1 (akeys_sendersTo_sub rest t s.1 (by simpa [akeys] using hm))
    · exact ih h.2

theorem inbox_eq {V} (r : Runner V) (sent : List (Sent V)) (t : Key) :
    (sendersTo sent t).filter (fun kv => (lookupList t r.dataPreds).contains kv.1) = inbox r sent t := by
  induction sent with
  | nil => rfl
  | cons s rest ih =>
    rw [sendersTo_cons, inbox_cons]
    by_cases h1 : s.2.2.contains t = true <;> by_cases h2 : (lookupList t r.dataPreds).contains s.1 = true <;>
      simp only [h1, h2, ↓reduceIte, Bool.and_self, Bool.and_false, Bool.false_and, Bool.false_eq_true,
        List.filter_cons, ih]

theorem nodup_filter_keys {V} (l : List (Key × V)) (f : Key × V → Bool) (h : (akeys l).Nodup) :
    (akeys (l.filter f)).Nodup := by
  unfold akeys at *
  exact (List.Sublist.map _ List.filter_sublist).nodup h


theorem resolve_pregel_ok {V} (r : Runner V) (h : r.dag = false) (cm : Chans V) (done : List (Done V))
    (sent : List (Sent V)) (hs : done.mapM (sentOf r) = .ok sent) :
    ∃ res, resolve r cm done = .ok res ∧ res.cm = cm ∧ res.writes = sent.foldl writesStep [] := by
  have := foldlM_resolve_pregel r h done { cm := cm, writes := [], deps := [] }
  rw [hs] at this
  unfold resolve
  cases hr : done.foldlM (resolveStep r) { cm := cm, writes := [], deps := [] } with
  | error e => simp [hr, Except.map] at this
  | ok res =>
    simp only [hr, Except.map, Except.ok.injEq, Prod.mk.injEq] at this
    exact ⟨res, rfl, this.1, this.2⟩

theorem resolve_pregel_err {V} (r : Runner V) (h : r.dag = false) (cm : Chans V) (done : List (Done V))
    (e : Err) (hs : done.mapM (sentOf r) = .error e) : resolve r cm done = .error e := by
  have := foldlM_resolve_pregel r h done { cm := cm, writes := [], deps := [] }
  rw [hs] at this
  unfold resolve
  cases hr : done.foldlM (resolveStep r) { cm := cm, writes := [], deps := [] } with
  | error e' => simp [hr, Except.map] at this; rw [this]
  | ok res => simp [hr, Except.map] at this

/-- the channel contents after the writes of a step, for a channel that was empty -/
theorem chan_after_writes {V} (r : Runner V) (sent : List (Sent V)) (hnd : (sent.map (·.1)).Nodup)
    (p : Key × Chan V) (hp : p.2.values = []) :
    (p.2.reportValues false
      ((gl p.1 (sent.foldl writesStep [])).filter (fun kv => (lookupList p.1 r.dataPreds).contains kv.1))).values
      = inbox r sent p.1 := by
  have hg : gl p.1 (sent.foldl writesStep []) = sendersTo sent p.1 := by
    have := gl_writes_fold sent [] p.1 hnd (by simp [gl, alookup, akeys])
    simpa [gl, alookup] using this
  rw [hg, inbox_eq]
  apply reportValues_pregel_empty _ _ hp
  rw [← inbox_eq]
  exact nodup_filter_keys _ _ (nodup_akeys_sendersTo sent p.1 hnd)


theorem filterMap_congr' {α β} (l : List α) (f g : α → Option β) (h : ∀ x ∈ l, f x = g x) :
    l.filterMap f = l.filterMap g := by
  induction l with
  | nil => rfl
  | cons a t ih =>
    have ha := h a (by simp)
    have ht := ih (fun x hx => h x (by simp [hx]))
    cases hf : f a with
    | none => rw [List.filterMap_cons_none hf, List.filterMap_cons_none (ha ▸ hf), ht]
    | some b => rw [List.filterMap_cons_some hf, List.filterMap_cons_some (ha ▸ hf), ht]

theorem any_congr' {α} (l : List α) (f g : α → Bool) (h : ∀ x ∈ l, f x = g x) : l.any f = l.any g := by
  induction l with
  | nil => rfl
  | cons a t ih => simp [List.any_cons, h a (by simp), ih (fun x hx => h x (by simp [hx]))]

/-- **one step.** On empty pregel channels `calcNext` computes exactly `Spec.next`, and leaves
    the channels empty again. -/
theorem calcNext_pregel {V} (ops : ValOps V) (r : Runner V) (h : r.dag = false) (cm : Chans V)
    (hok : ChansOK r cm) (done : List (Done V)) (hnd : (done.map (·.1)).Nodup) :
    (calcNext ops r cm done).map (·.2) = Spec.next ops r done ∧
    ∀ cm' nx, calcNext ops r cm done = .ok (cm', nx) → ChansOK r cm' := by
  unfold calcNext Spec.next
  cases hs : done.mapM (sentOf r) with
  | error e =>
    rw [resolve_pregel_err r h cm done e hs]
    exact ⟨rfl, by intro cm' nx hc; simp [bind, Except.bind] at hc⟩
  | ok sent =>
    obtain ⟨res, hres, hcm, hw⟩ := resolve_pregel_ok r h cm done sent hs
    have hsnd : (sent.map (·.1)).Nodup := by rw [mapM_sentOf_keys r done sent hs]; exact hnd
    rw [hres]
    simp only [bind, Except.bind, hcm, hw]
    rw [updateValues_map r _ cm (nodup_keys_writes sent [] (by simp [akeys])), updateDeps_pregel r h, getReady_map]
    simp only [h]
    -- per channel: what it holds after the writes is the spec inbox, and `get` collects it
    have hget : ∀ p ∈ cm,
        (((p.1, p.2.reportValues false ((gl p.1 (sent.foldl writesStep [])).filter
            (fun kv => (lookupList p.1 r.dataPreds).contains kv.1))) : Key × Chan V).2.get ops false).2
          = collect ops ((inbox r sent p.1).map (·.2)) := by
      intro p hp
      rw [(get_pregel ops _).1, chan_after_writes r sent hsnd p (hok.empty p hp)]
    have hready : (cm.map (fun p => ((p.1, p.2.reportValues false ((gl p.1 (sent.foldl writesStep [])).filter
            (fun kv => (lookupList p.1 r.dataPreds).contains kv.1))) : Key × Chan V))).filterMap
          (fun p => match (p.2.get ops false).2 with | .ready v => some (p.1, v) | _ => none)
        = ((keys r).map (fun t => (t, collect ops ((inbox r sent t).map (·.2))))).filterMap
          (fun g => match g.2 with | .ready v => some (g.1, v) | _ => none) := by
      rw [← hok.keys, akeys, List.filterMap_map, List.map_map, List.filterMap_map]
      apply filterMap_congr'
      intro p hp
      simp only [Function.comp]
      rw [hget p hp]
    have hbad : (cm.map (fun p => ((p.1, p.2.reportValues false ((gl p.1 (sent.foldl writesStep [])).filter
            (fun kv => (lookupList p.1 r.dataPreds).contains kv.1))) : Key × Chan V))).any
          (fun p => match (p.2.get ops false).2 with | .mergeErr => true | _ => false)
        = ((keys r).map (fun t => (t, collect ops ((inbox r sent t).map (·.2))))).any
          (fun g => match g.2 with | .mergeErr => true | _ => false) := by
      rw [← hok.keys, akeys, List.any_map, List.map_map, List.any_map]
      apply any_congr'
      intro p hp
      simp only [Function.comp]
      rw [hget p hp]
    rw [hready, hbad]
    generalize ((keys r).map (fun t => (t, collect ops ((inbox r sent t).map (·.2))))).any
          (fun g => match g.2 with | .mergeErr => true | _ => false) = bad
    generalize ((keys r).map (fun t => (t, collect ops ((inbox r sent t).map (·.2))))).filterMap
          (fun g => match g.2 with | .ready v => some (g.1, v) | _ => none) = ready
    generalize hcm2 : (cm.map (fun p => ((p.1, p.2.reportValues false ((gl p.1 (sent.foldl writesStep [])).filter
            (fun kv => (lookupList p.1 r.dataPreds).contains kv.1))) : Key × Chan V))).map
            (fun p => (p.1, (p.2.get ops false).1)) = cm2
    have hok2 : ChansOK r cm2 := by
      subst hcm2
      constructor
      · rw [← hok.keys]; simp [akeys, List.map_map]
      · intro p hp
        simp only [List.mem_map] at hp
        obtain ⟨q, ⟨q0, _, rfl⟩, rfl⟩ := hp
        exact (get_pregel ops _).2
    cases bad with
    | true => exact ⟨rfl, by intro cm' nx hc; simp [throw, throwThe, MonadExceptOf.throw] at hc⟩
    | false =>
      simp only [Bool.false_eq_true, ↓reduceIte]
      cases he : alookup END ready with
      | some v =>
        refine ⟨rfl, ?_⟩
        intro cm' nx hc
        simp [pure, Except.pure] at hc
        rw [← hc.1]; exact hok2
      | none =>
        refine ⟨rfl, ?_⟩
        intro cm' nx hc
        simp [pure, Except.pure] at hc
        rw [← hc.1]; exact hok2


/-! ### the loop -/

/-- a schedule only reorders the finished tasks -/
def Sched.Fair {V} (sched : Sched V) : Prop := ∀ n l, (sched n l).Perm l

theorem mapM_collectOne_keys {V} (l : List (Key × Except Err V)) (d : List (Done V))
    (h : l.mapM collectOne = .ok d) : d.map (·.1) = l.map (·.1) := by
  induction l generalizing d with
  | nil => simp [pure, Except.pure] at h; subst h; rfl
  | cons a t ih =>
    simp only [List.mapM_cons, bind, Except.bind] at h
    cases ha : collectOne a with
    | error e => simp [ha] at h
    | ok x =>
      simp only [ha] at h
      cases ht : List.mapM collectOne t with
      | error e => simp [ht] at h
      | ok d' =>
        simp only [ht, pure, Except.pure, Except.ok.injEq] at h
        subst h
        have hx : x.1 = a.1 := by
          unfold collectOne at ha
          cases h2 : a.2 with
          | ok o => simp [h2] at ha; rw [← ha]
          | error e => simp [h2] at ha
        simp [ih d' ht, hx]

theorem runTasks_keys {V} (r : Runner V) (sched : Sched V) (hf : sched.Fair) (step : Nat)
    (ts : List (Key × V)) (done : List (Done V)) (h : runTasks r sched step ts = .ok done) :
    (done.map (·.1)).Perm (ts.map (·.1)) := by
  unfold runTasks at h
  rw [mapM_collectOne_keys _ _ h]
  have hk : (ts.map (execOne r)).map (·.1) = ts.map (·.1) := by
    rw [List.map_map]
    apply List.map_congr_left
    intro t _
    simp only [Function.comp, execOne]
    cases r.node? t.1 <;> rfl
  rw [← hk]
  exact (hf step _).map (·.1)

theorem next_tasks_keys {V} (ops : ValOps V) (r : Runner V) (done : List (Done V)) (ts : List (Key × V))
    (h : Spec.next ops r done = .ok (.tasks ts)) : (ts.map (·.1)).Sublist (keys r) := by
  unfold Spec.next at h
  cases hs : done.mapM (sentOf r) with
  | error e => simp [hs, bind, Except.bind] at h
  | ok sent =>
    simp only [hs, bind, Except.bind] at h
    split at h
    · simp [throw, throwThe, MonadExceptOf.throw] at h
    · split at h
      · simp [pure, Except.pure] at h
      · simp only [pure, Except.pure, Except.ok.injEq, Next.tasks.injEq] at h
        subst h
        generalize keys r = ks
        induction ks with
        | nil => simp
        | cons k rest ih =>
          simp only [List.map_cons]
          cases hc : collect ops ((inbox r sent k).map (·.2)) with
          | ready v =>
            rw [List.filterMap_cons_some (b := (k, v)) (by simp [hc])]
            simpa using ih
          | notReady =>
            rw [List.filterMap_cons_none (by simp [hc])]
            exact List.Sublist.cons _ ih
          | mergeErr =>
            rw [List.filterMap_cons_none (by simp [hc])]
            exact List.Sublist.cons _ ih

/-- **the loop.** From empty channels the engine loop is the spec loop. -/
theorem loop_pregel {V} (ops : ValOps V) (r : Runner V) (h : r.dag = false) (hk : (keys r).Nodup)
    (sched : Sched V) (hf : sched.Fair) :
    ∀ (fuel : Nat) (cm : Chans V) (tasks : List (Key × V)) (tr : Trace V),
      ChansOK r cm → (tasks.map (·.1)).Nodup →
      loop ops r sched fuel cm tasks tr = Spec.loop ops r sched fuel tasks tr := by
  intro fuel
  induction fuel with
  | zero => intro cm tasks tr _ _; simp [loop, Spec.loop, h]
  | succ n ih =>
    intro cm tasks tr hok hnd
    unfold loop Spec.loop
    simp only
    cases hr : runTasks r sched tr.length tasks with
    | error e => rfl
    | ok done =>
      simp only
      by_cases he : done.isEmpty = true
      · simp [he]
      · simp only [he, Bool.false_eq_true, ↓reduceIte]
        have hdn : (done.map (·.1)).Nodup := (runTasks_keys r sched hf _ _ _ hr).nodup_iff.mpr hnd
        obtain ⟨h1, h2⟩ := calcNext_pregel ops r h cm hok done hdn
        cases hc : calcNext ops r cm done with
        | error e =>
          rw [hc] at h1
          simp only [Except.map] at h1
          rw [← h1]
        | ok res =>
          obtain ⟨cm', nx⟩ := res
          rw [hc] at h1
          simp only [Except.map] at h1
          rw [← h1]
          cases nx with
          | result v => rfl
          | tasks ts =>
            simp only
            apply ih cm' ts _ (h2 cm' _ hc)
            exact (next_tasks_keys ops r done ts h1.symm).nodup hk


theorem initChans_ok {V} (r : Runner V) (h : r.dag = false) : ChansOK r (initChans r) := by
  constructor
  · simp [initChans, keys, akeys, List.map_map, Function.comp]
  · intro p hp
    simp only [initChans, List.mem_append, List.mem_map, List.mem_singleton] at hp
    rcases hp with ⟨n, _, rfl⟩ | rfl <;> simp [Chan.init, h]

/-- **the run.** For every runner in any-predecessor mode whose keys are distinct, every
    node function, input and fair completion schedule, the engine's run *is* the superstep
    specification's run: same result or error, same per-step trace. -/
theorem run_pregel {V} (ops : ValOps V) (r : Runner V) (h : r.dag = false) (hk : (keys r).Nodup)
    (sched : Sched V) (hf : sched.Fair) (x : V) :
    runS ops r sched x = Spec.run ops r sched x := by
  unfold runS Spec.run
  obtain ⟨h1, h2⟩ := calcNext_pregel ops r h (initChans r) (initChans_ok r h) [(START, x)] (by simp)
  cases hc : calcNext ops r (initChans r) [(START, x)] with
  | error e =>
    rw [hc] at h1; simp only [Except.map] at h1; rw [← h1]
  | ok res =>
    obtain ⟨cm', nx⟩ := res
    rw [hc] at h1; simp only [Except.map] at h1; rw [← h1]
    cases nx with
    | result v => rfl
    | tasks ts =>
      simp only
      have : r.fuel = r.maxSteps := by simp [Runner.fuel, h]
      rw [this]
      exact loop_pregel ops r h hk sched hf r.maxSteps cm' ts [] (h2 cm' _ hc)
        ((next_tasks_keys ops r _ ts h1.symm).nodup hk)

end EinoV.Engine
