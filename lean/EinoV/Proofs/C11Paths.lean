/-
  C11 — helper lemmas for the node-path model (Model/C11Paths.lean): shape and distinctness
  of the paths of a nest of graph levels, the modifier calls, the Go-slice model of
  `setNodeKey`.
-/
import EinoV.Model.C11Paths

namespace EinoV.C11
variable {S : Type}

/-! ## shape of the paths -/

mutual
/-- every path of the levels of `t` (under a graph with path `p`) starts with `p`, then `t`'s key -/
theorem LTree.levels_shape (t : LTree S) (p : List String) :
    ∀ x ∈ LTree.levels t p, ∃ rest, x.1 = p ++ LTree.key t :: rest := by
  cases t with
  | mk key saved subs =>
    intro x hx
    simp only [LTree.levels, List.mem_cons] at hx
    rcases hx with hx | hx
    · exact ⟨[], by simp [hx, childPath, LTree.key]⟩
    · obtain ⟨k, rest, _, h⟩ := LTrees.levels_shape subs (childPath p key) x hx
      exact ⟨k :: rest, by simp [h, childPath, LTree.key]⟩
theorem LTrees.levels_shape (ts : LTrees S) (p : List String) :
    ∀ x ∈ LTrees.levels ts p, ∃ k rest, k ∈ LTrees.keys ts ∧ x.1 = p ++ k :: rest := by
  cases ts with
  | nil => intro x hx; simp [LTrees.levels] at hx
  | cons t ts =>
    intro x hx
    simp only [LTrees.levels, List.mem_append] at hx
    rcases hx with hx | hx
    · obtain ⟨rest, h⟩ := LTree.levels_shape t p x hx
      exact ⟨LTree.key t, rest, by simp [LTrees.keys], h⟩
    · obtain ⟨k, rest, hk, h⟩ := LTrees.levels_shape ts p x hx
      exact ⟨k, rest, by simp [LTrees.keys, hk], h⟩
end

/-! ## distinctness -/

mutual
theorem LTree.paths_nodup (t : LTree S) (p : List String) (h : LTree.WF t) :
    ((LTree.levels t p).map (·.1)).Nodup := by
  cases t with
  | mk key saved subs =>
    simp only [LTree.WF] at h
    simp only [LTree.levels, List.map_cons, List.nodup_cons]
    refine ⟨?_, LTrees.paths_nodup subs (childPath p key) h.2 h.1⟩
    intro hmem
    obtain ⟨x, hx, hxe⟩ := List.mem_map.mp hmem
    obtain ⟨k, rest, _, hs⟩ := LTrees.levels_shape subs (childPath p key) x hx
    have : (childPath p key).length = (childPath p key ++ k :: rest).length := by
      rw [← hs, hxe]
    simp at this
theorem LTrees.paths_nodup (ts : LTrees S) (p : List String) (h : LTrees.WF ts)
    (hk : (LTrees.keys ts).Nodup) : ((LTrees.levels ts p).map (·.1)).Nodup := by
  cases ts with
  | nil => simp [LTrees.levels]
  | cons t ts =>
    simp only [LTrees.WF] at h
    simp only [LTrees.keys, List.nodup_cons] at hk
    simp only [LTrees.levels, List.map_append]
    rw [List.nodup_append]
    refine ⟨LTree.paths_nodup t p h.1, LTrees.paths_nodup ts p h.2 hk.2, ?_⟩
    intro a ha b hb hab
    subst hab
    obtain ⟨x, hx, hxe⟩ := List.mem_map.mp ha
    obtain ⟨y, hy, hye⟩ := List.mem_map.mp hb
    obtain ⟨r1, h1⟩ := LTree.levels_shape t p x hx
    obtain ⟨k, r2, hkm, h2⟩ := LTrees.levels_shape ts p y hy
    rw [hxe] at h1
    rw [hye, h1] at h2
    have := List.append_cancel_left h2
    simp only [List.cons.injEq] at this
    exact hk.1 (this.1 ▸ hkm)
end

/-- the top-level graph's empty path is no nested level's path -/
theorem LTrees.nil_not_path (ts : LTrees S) :
    ([] : List String) ∉ (LTrees.levels ts []).map (·.1) := by
  intro hmem
  obtain ⟨x, hx, hxe⟩ := List.mem_map.mp hmem
  obtain ⟨k, rest, _, hs⟩ := LTrees.levels_shape ts [] x hx
  rw [hxe] at hs
  simp at hs

theorem nestLevels_nodup (saved : Option S) (subs : LTrees S)
    (h : LTrees.WF subs) (hk : (LTrees.keys subs).Nodup) :
    ((nestLevels saved subs).map (·.1)).Nodup := by
  simp only [nestLevels, List.map_cons, List.nodup_cons]
  exact ⟨LTrees.nil_not_path subs, LTrees.paths_nodup subs [] h hk⟩

/-! ## modifier calls -/

theorem mem_modCalls (lv : List (List String × Option S)) (q : List String) (s : S) :
    (q, s) ∈ modCalls lv ↔ (q, some s) ∈ lv := by
  simp only [modCalls, List.mem_filterMap]
  constructor
  · rintro ⟨⟨q', o⟩, hm, he⟩
    cases o with
    | none => simp at he
    | some s' =>
      simp only [Option.map_some, Option.some.injEq, Prod.mk.injEq] at he
      obtain ⟨rfl, rfl⟩ := he
      exact hm
  · intro hm
    exact ⟨(q, some s), hm, by simp⟩

theorem modCalls_paths_sublist (lv : List (List String × Option S)) :
    ((modCalls lv).map (·.1)).Sublist (lv.map (·.1)) := by
  induction lv with
  | nil => simp [modCalls]
  | cons x rest ih =>
    obtain ⟨q, o⟩ := x
    cases o with
    | none =>
      simp only [modCalls, List.filterMap_cons, Option.map_none, List.map_cons]
      exact List.Sublist.cons _ ih
    | some s =>
      simp only [modCalls, List.filterMap_cons, Option.map_some, List.map_cons]
      exact List.Sublist.cons_cons _ ih

theorem modCalls_length (lv : List (List String × Option S)) :
    (modCalls lv).length = (lv.filter (·.2.isSome)).length := by
  induction lv with
  | nil => simp [modCalls]
  | cons x rest ih =>
    obtain ⟨q, o⟩ := x
    cases o with
    | none => simpa [modCalls] using ih
    | some s => simpa [modCalls] using ih

/-! ## the Go-slice model -/

theorem goAlloc_read (h : GoHeap) (xs : List String) (cap : Nat) :
    (goAlloc h xs cap).2.read (goAlloc h xs cap).1 = xs := by
  simp [goAlloc, GoSlice.read]

theorem goAlloc_keeps (h : GoHeap) (xs : List String) (cap : Nat) (s : GoSlice)
    (hs : s.arr < h.length) : s.read (goAlloc h xs cap).1 = s.read h := by
  simp [goAlloc, GoSlice.read, List.getElem?_append_left hs]

end EinoV.C11
