/- Helper lemmas for C20: no call on a keyed builder panics (Model/C20Keys.lean), given that
   `forMapInput` / `forMapOutput` accept a nil helper and `compile` checks the own types. -/
import EinoV.Model.C20Keys
import EinoV.Proofs.C20
import EinoV.Proofs.C20Infer

namespace EinoV.Build

/-- the start node of the work-list entry at hand can hand out a helper: it has an own output
    type, or a key option (then the nil helper is accepted) -/
def XB.outHelper (x : XB) (s : Key) : Prop := (x.b.nodeOut s).isSome = true ∨ x.keyed s = true

theorem XB.setTy_keyed (x : XB) (k : Key) (t : Ty) (s : Key) : (x.setTy k t).keyed s = x.keyed s := rfl

theorem nodeOut_setTy_isSome (b : Builder) (k : Key) (t : Ty) (s : Key) (h : (b.nodeOut s).isSome = true) :
    ((b.setTy k t).nodeOut s).isSome = true := by
  rcases (setTy_cases b k t s).2 with e | ⟨_, e⟩
  · rw [e]; exact h
  · rw [e]; rfl

theorem XB.outHelper_setTy {x : XB} {s : Key} (h : x.outHelper s) (k : Key) (t : Ty) : (x.setTy k t).outHelper s := by
  rcases h with h | h
  · exact Or.inl (nodeOut_setTy_isSome x.b k t s h)
  · exact Or.inr h

/-- what `x.nodeOut s` shows is backed by a helper -/
theorem XB.outHelper_of_shown (x : XB) (s : Key) (h : (x.nodeOut s).isSome = true) : x.outHelper s := by
  unfold XB.nodeOut at h
  split at h
  · rename_i hk; exact Or.inr (by unfold XB.keyed; rw [hk]; simp)
  · exact Or.inl h

theorem XB.helperNilOut_false (K : KFacts) (hK : K.helperNilSafe = true) (x : XB) (s : Key) (h : x.outHelper s) :
    x.helperNilOut K s = false := by
  unfold XB.helperNilOut
  rcases h with h | h
  · cases hn : x.b.nodeOut s <;> simp_all
  · simp [hK, h]

theorem XB.helperNilIn_false (K : KFacts) (hK : K.helperNilSafe = true) (x : XB) (e : Key) (t : Ty)
    (h : x.nodeIn e = some t) : x.helperNilIn K e = false := by
  unfold XB.helperNilIn
  unfold XB.nodeIn at h
  split at h
  · rename_i hk
    have : x.keyed e = true := by unfold XB.keyed; rw [hk]; rfl
    simp [hK, this]
  · simp [h]

theorem procEntriesX_no_panic (K : KFacts) (hK : K.helperNilSafe = true) (im : Impl) (s : Key) (sTy : Option Ty) :
    ∀ (l : List PEdge) (x : XB) (kept : List PEdge) (ch : Bool),
      (sTy.isSome = true → x.outHelper s) → procEntriesX K im s sTy l x kept ch ≠ .error .panic
  | [], x, kept, ch, _ => by simp [procEntriesX]
  | pe :: rest, x, kept, ch, hs => by
    unfold procEntriesX
    split
    · exact procEntriesX_no_panic K hK im s _ rest x _ _ hs
    · rw [XB.helperNilOut_false K hK x s (hs rfl)]
      simp only [Bool.false_eq_true, ↓reduceIte]
      exact procEntriesX_no_panic K hK im s _ rest _ _ _ (fun h => XB.outHelper_setTy (hs h) _ _)
    · rename_i et he
      rw [XB.helperNilIn_false K hK x pe.dst et he]
      simp only [Bool.false_eq_true, ↓reduceIte]
      exact procEntriesX_no_panic K hK im s _ rest _ _ _ (fun h => by simp at h)
    · rename_i st et he
      split
      · exact procEntriesX_no_panic K hK im s _ rest _ _ _ (fun h => hs h)
      · split
        · simp
        · rw [XB.helperNilIn_false K hK x pe.dst et he]
          simp only [Bool.false_eq_true, ↓reduceIte]
          exact procEntriesX_no_panic K hK im s _ rest _ _ _ (fun h => hs h)
        · exact procEntriesX_no_panic K hK im s _ rest x _ _ hs

theorem updRoundX_no_panic (K : KFacts) (hK : K.helperNilSafe = true) (im : Impl) :
    ∀ (ks : List Key) (x : XB) (ch : Bool), updRoundX K im ks x ch ≠ .error .panic
  | [], x, ch => by simp [updRoundX]
  | s :: ks, x, ch => by
    unfold updRoundX
    split
    · rename_i e he
      intro h
      simp only [Except.error.injEq] at h
      subst h
      exact procEntriesX_no_panic K hK im s _ _ x [] false (XB.outHelper_of_shown x s) he
    · exact updRoundX_no_panic K hK im ks _ _

theorem updLoopX_no_panic (K : KFacts) (hK : K.helperNilSafe = true) (im : Impl) (ord : Ord) :
    ∀ (fuel : Nat) (x : XB), updLoopX K im ord fuel x ≠ .error .panic
  | 0, x => by simp [updLoopX]
  | fuel + 1, x => by
    unfold updLoopX
    split
    · rename_i e he
      intro h
      simp only [Except.error.injEq] at h
      subst h
      exact updRoundX_no_panic K hK im _ x false he
    · split
      · exact updLoopX_no_panic K hK im ord fuel _
      · simp

theorem updateX_no_panic (K : KFacts) (hK : K.helperNilSafe = true) (im : Impl) (ord : Ord) (x : XB) :
    updateX K im ord x ≠ .error .panic := updLoopX_no_panic K hK im ord _ x

theorem addEdgeBodyX_no_panic (K : KFacts) (hK : K.helperNilSafe = true) (im : Impl) (ord : Ord) (x : XB)
    (s e : Key) (nc nd : Bool) (m : Option Nat) : addEdgeBodyX K im ord x s e nc nd m ≠ .error .panic := by
  unfold addEdgeBodyX
  simp only
  split
  · simp
  · split
    · simp
    · split
      · simp
      · split
        · simp
        · split
          · rename_i k h1
            intro h
            simp only [Except.error.injEq] at h
            subst h
            repeat' split at h1
            all_goals simp at h1
          · split
            · simp
            · split
              · simp
              · split
                · rename_i k hu
                  intro h
                  simp only [Except.error.injEq] at h
                  subst h
                  exact updateX_no_panic K hK im ord _ hu
                · simp

theorem branchEndsX_no_panic (K : KFacts) (hK : K.helperNilSafe = true) (im : Impl) (ord : Ord) (s : Key) :
    ∀ (es : List Key) (x : XB), branchEndsX K im ord s es x ≠ .error .panic
  | [], x => by simp [branchEndsX]
  | e :: es, x => by
    unfold branchEndsX
    split
    · simp
    · split
      · rename_i k hu
        intro h
        simp only [Except.error.injEq] at h
        subst h
        exact updateX_no_panic K hK im ord _ hu
      · exact branchEndsX_no_panic K hK im ord s es _

theorem addBranchBodyX_no_panic (K : KFacts) (hK : K.helperNilSafe = true) (f : Facts) (im : Impl) (ord : Ord)
    (x : XB) (s : Key) (t : Ty) (ends : List Key) (sk : Bool) :
    addBranchBodyX K f im ord x s t ends sk ≠ .error .panic := by
  unfold addBranchBodyX
  simp only
  split
  · simp
  · split
    · simp
    · split
      · simp
      · split
        · simp
        · split
          · rename_i k h3
            intro h
            simp only [Except.error.injEq] at h
            subst h
            split at h3
            · exact updateX_no_panic K hK im ord _ h3
            · simp at h3
          · split
            · rename_i k h4
              intro h
              simp only [Except.error.injEq] at h
              subst h
              split at h4
              · simp at h4
              · exact branchEndsX_no_panic K hK im ord s _ _ h4
            · simp

theorem guardedX_no_panic (g : Guards) (x : XB) (body : Except Fail XB) (h : body ≠ .error .panic) :
    (guardedX g x body).2 ≠ .panic := by
  unfold guardedX
  split
  · simp
  · split
    · simp
    · split
      · simp
      · simp
      · exact absurd rfl h

/-- a node whose own type is unknown: `hasUntyped` of the builder -/
theorem keyedUntyped_hasUntyped (x : XB) (h : x.keyedUntyped = true) : x.b.hasUntyped = true := by
  simp only [XB.keyedUntyped, Builder.hasUntyped, List.any_eq_true] at h ⊢
  rcases h with ⟨n, hn, hk⟩
  exact ⟨n, hn, by simp only [Bool.and_eq_true] at hk; exact hk.2⟩

theorem plainUntyped_hasUntyped (x : XB) (h : x.plainUntyped = true) : x.b.hasUntyped = true := by
  simp only [XB.plainUntyped, Builder.hasUntyped, List.any_eq_true] at h ⊢
  rcases h with ⟨n, hn, hk⟩
  exact ⟨n, hn, by simp only [Bool.and_eq_true] at hk; exact hk.2⟩

/-- with the own-type check, a Compile that gets past the checks has every own type -/
theorem compilePreX_own_typed (K : KFacts) (hK : K.compileChecksOwnTypes = true) (f : Facts) (x : XB) (o : COpts)
    (h : compilePreX K f x o = none) : x.b.hasUntyped = false := by
  unfold compilePreX at h
  simp only [hK, Bool.true_and] at h
  repeat' split at h
  all_goals first | (simp at h; done) | simp_all

theorem mutatePre_hasUntyped (f : Facts) (b : Builder) : (mutatePre f b).hasUntyped = b.hasUntyped := by
  unfold mutatePre; split <;> rfl

theorem compileX_no_panic (K : KFacts) (hK : K.compileChecksOwnTypes = true) (f : Facts) (ord : Ord) (x : XB) (o : COpts) :
    (compileX K f ord x o).2.1 ≠ .panic := by
  unfold compileX
  split
  · simp
  · split
    · simp
    · rename_i hp
      have ht := compilePreX_own_typed K hK f x o hp
      simp only
      split
      · rename_i oc hpost
        unfold compilePostX at hpost
        have hk : ({ x with b := mutatePre f x.b } : XB).keyedUntyped = false := by
          cases hh : ({ x with b := mutatePre f x.b } : XB).keyedUntyped
          · rfl
          · have := keyedUntyped_hasUntyped _ hh
            simp only [mutatePre_hasUntyped, ht] at this
            exact absurd this (by simp)
        have hpl : ({ x with b := mutatePre f x.b } : XB).plainUntyped = false := by
          cases hh : ({ x with b := mutatePre f x.b } : XB).plainUntyped
          · rfl
          · have := plainUntyped_hasUntyped _ hh
            simp only [mutatePre_hasUntyped, ht] at this
            exact absurd this (by simp)
        simp only [hk, hpl, Bool.and_false, Bool.false_eq_true, ↓reduceIte] at hpost
        repeat' split at hpost
        all_goals simp_all
        all_goals (subst_vars; simp)
      · simp

/-- **no call on a keyed builder panics** -/
theorem stepX_no_panic (K : KFacts) (hK1 : K.helperNilSafe = true) (hK2 : K.compileChecksOwnTypes = true)
    (f : Facts) (im : Impl) (ord : Ord) (x : XB) (xo : XOp) : (stepX K f im ord x xo).2.1 ≠ .panic := by
  have hnode : ∀ n ik ok, (addNodeX f x n ik ok).2 ≠ .panic := by
    intro n ik ok
    unfold addNodeX
    apply guardedX_no_panic
    split <;> simp
  cases xo with
  | node n ik ok => simpa [stepX] using hnode n ik ok
  | plain op =>
    cases op with
    | node n => simpa [stepX] using hnode n false false
    | edge s e nc nd m =>
      simp only [stepX, addEdgeX]
      split
      · simp
      · split
        · simp
        · split
          · simp
          · exact guardedX_no_panic _ x _ (addEdgeBodyX_no_panic K hK1 im ord x s e nc nd m)
    | branch s t ends sk =>
      simp only [stepX, addBranchX]
      exact guardedX_no_panic _ x _ (addBranchBodyX_no_panic K hK1 f im ord x s t ends sk)
    | compile o => simpa [stepX] using compileX_no_panic K hK2 f ord x o

/-- a keyed node without own type makes Compile answer with an error, and changes nothing -/
theorem compileX_rejects_keyedUntyped (K : KFacts) (hK : K.compileChecksOwnTypes = true) (f : Facts) (ord : Ord)
    (x : XB) (o : COpts) (h : x.keyedUntyped = true) :
    ∃ k, compileX K f ord x o = (x, .fresh k, none) ∨ compileX K f ord x o = (x, .stored k, none) := by
  unfold compileX
  split
  · rename_i k _; exact ⟨k, Or.inr rfl⟩
  · split
    · rename_i k _; exact ⟨k, Or.inl rfl⟩
    · rename_i hp
      have := compilePreX_own_typed K hK f x o hp
      rw [keyedUntyped_hasUntyped x h] at this
      exact absurd this (by simp)

end EinoV.Build
