import EinoV.Proofs.C02LockStep

namespace EinoV.Engine
namespace DagRun

/-! ### what is known before the ready channels are handed out -/

/-- the state after resolving the completed tasks and the two update passes of a round -/
structure PreG {V} (r : Runner V) (x : V) (tasks : List (Key × V)) (tr : Trace V) (cm2 : Chans V) : Prop where
  k : K r (histOf r x (tasks :: tr)) cm2
  sh : shapes cm2 = shapes (initChans r)
  j : J (fun n => (keysOfTr (tasks :: tr)).count n)
        (fun p => (keysOfTr (tasks :: tr)).count p + if p = START then 1 else 0) [] [] cm2
  pb : PreB r (histOf r x (tasks :: tr)) (histOf r x (tasks :: tr)) (fun n => (keysOfTr (tasks :: tr)).count n) cm2
  rv : ∀ p o n, (p, o) ∈ histOf r x (tasks :: tr) → RoutesD r p o n →
        RV (fun n => (keysOfTr (tasks :: tr)).count n) cm2 n p
  f0 : (keysOfTr (tasks :: tr)).count START = 0

theorem preG_of_resolve {V} (ops : ValOps V) (r : Runner V) (wf : DagWF r) (wf2 : DagWF2 r) (sched : Sched V)
    (hf : sched.Fair) (x : V) (cm : Chans V) (tasks : List (Key × V)) (tr : Trace V) (done : List (Done V))
    (res : Resolved V) (h : XInv ops r x cm tasks tr) (hr : runTasks r sched tr.length tasks = .ok done)
    (h1 : resolve r cm done = .ok res) :
    PreG r x tasks tr (updateDeps r (updateValues r res.cm res.writes) res.deps) := by
  obtain ⟨rank, hrank⟩ := wf.acyclic
  have hd := wf.dag
  have hperm := runTasks_keys r sched hf _ _ _ hr
  have hK' : K r (histOf r x (tasks :: tr)) cm := K_mono h.c.k.k (histOf_mono r x tasks tr)
  have hdone : ∀ t, t ∈ done → t ∈ histOf r x (tasks :: tr) := by
    intro d hd'
    obtain ⟨t, ht, ho⟩ := runTasks_mem r sched hf _ _ _ hr d hd'
    simp only [histOf, List.mem_cons, List.flatten_cons, List.filterMap_append, List.mem_append,
      List.mem_filterMap]
    exact Or.inr (Or.inl ⟨t, ht, ho⟩)
  have hH : ∀ p o, (p, o) ∈ histOf r x (tasks :: tr) → (p, o) ∈ histOf r x tr ∨ (p, o) ∈ done := by
    intro p o hm
    simp only [histOf, List.mem_cons, List.flatten_cons, List.filterMap_append, List.mem_append,
      List.mem_filterMap] at hm
    rcases hm with hm | ⟨t, ht, ho⟩ | hm
    · left; simp [histOf, hm]
    · right; exact runTasks_all r sched hf _ _ _ hr t ht (p, o) ho
    · left
      simp only [histOf, List.mem_cons, List.mem_filterMap]
      exact Or.inr hm
  have hcall : ∀ t, t ∈ done → (r.call? t.1).isSome = true := by
    intro t ht
    have : t.1 ∈ tasks.map (·.1) := hperm.subset (List.mem_map.mpr ⟨t, ht, rfl⟩)
    obtain ⟨t', ht', e⟩ := List.mem_map.mp this
    rw [← e]; exact h.c.call t' ht'
  -- K
  obtain ⟨hrk, _⟩ := resolve_K r hd wf.succ wf.startKey done hdone { cm := cm, writes := [], deps := [] } res
    ⟨hK', h.c.l.sh, fun _ _ hm => by simp at hm, fun _ _ hm => by simp at hm⟩ h1
  obtain ⟨u1, u2, _⟩ := updateValues_K r hd res.writes hrk.ws res.cm hrk.k hrk.sh
  obtain ⟨v1, v2, _⟩ := updateDeps_K r hd res.deps hrk.ds _ u1 u2
  -- J
  have hb : J (fun n => (keysOfTr (tasks :: tr)).count n)
      (fun p => ((keysOfTr tr).count p + if p = START then 1 else 0) + (done.map (·.1)).count p) (done.map (·.1)) [] cm :=
    J_bump h.c.l.j (fun p => Nat.le_add_right _ _) (fun p hp => by
      have := List.count_pos_iff.mpr hp
      omega)
  have hrj := resolve_J r hd wf.succ wf.startKey done (fun t ht => List.mem_map.mpr ⟨t, ht, rfl⟩)
    { cm := cm, writes := [], deps := [] } res
    ⟨hb, h.c.l.sh, fun _ _ hm => by simp at hm, fun _ _ hm => by simp at hm⟩ h1
  obtain ⟨ju1, ju2⟩ := updateValues_J r hd res.writes hrj.ws res.cm hrj.j hrj.sh
  obtain ⟨jv1, _⟩ := updateDeps_J r hd res.deps hrj.ds _ ju1 ju2
  have jv1' := J_drop_fr (fr' := []) jv1 (fun p hp => by simp at hp)
  have e2 : (fun p => ((keysOfTr tr).count p + if p = START then 1 else 0) + (done.map (·.1)).count p) =
      (fun p => (keysOfTr (tasks :: tr)).count p + if p = START then 1 else 0) := by
    funext p
    rw [keysOfTr_cons tasks, List.count_append, hperm.count_eq]
    simp only [akeys]; omega
  rw [e2] at jv1'
  -- reports and values
  obtain ⟨m, sh2, q2, t2⟩ := reports_after_updates (F := fun n => (keysOfTr (tasks :: tr)).count n) r hd wf.succ
    wf2.pc wf2.pd wf.startFresh wf.startKey cm done res hK'.nd hK'.sk h.c.l.sh h.c.rq hcall h1
  have vnew := values_after_updates (F := fun n => (keysOfTr (tasks :: tr)).count n) r hd wf.succ
    wf2.pc wf2.pd wf.startFresh wf.startKey cm done res hK'.nd hK'.sk h.c.l.sh h.c.rq hcall h1
  have hkeys2 : akeys (updateDeps r (updateValues r res.cm res.writes) res.deps) = akeys (initChans r) := by
    rw [← shapes_keys, sh2, shapes_keys]
  have hstart2 : START ∉ akeys (updateDeps r (updateValues r res.cm res.writes) res.deps) := by
    rw [hkeys2]; exact wf.startFresh
  have hbound := static_bound _ rank (by rw [sh2]; exact hrank) hstart2 jv1'
    (by intro p; omega) (by rw [sh2]; exact h.c.l.pos)
  have hF0s : (keysOfTr (tasks :: tr)).count START = 0 := by
    by_cases h0 : 0 < (keysOfTr (tasks :: tr)).count START
    · obtain ⟨cs, ds, hmm, _⟩ := h.c.l.pos START h0
      have := mem_akeys_of_mem START (cs, ds) _ hmm
      rw [shapes_keys] at this
      exact absurd this wf.startFresh
    · omega
  refine ⟨v1, v2, jv1', ⟨fun _ hm => hm, v1, v2, hbound, ?_, ?_, hist_functional r wf x cm tasks tr h.c.l, ?_⟩, ?_, hF0s⟩
  · intro p hp
    rcases hp with ⟨o, ho⟩ | hp
    · rcases hH p o ho with h' | h'
      · exact (h.c.rc p ⟨o, h'⟩).mono m
      · exact t2 (p, o) h'
    · exact q2 p hp
  · intro p o hm
    simp only [histOf, List.mem_cons, List.mem_filterMap] at hm
    rcases hm with hm | ⟨t, ht, ho⟩
    · left; exact (Prod.mk.inj hm).1
    · right
      have hkk := outOf_key r t (p, o) ho
      simp only at hkk
      have : p ∈ keysOfTr (tasks :: tr) := by
        simp only [keysOfTr, List.mem_map]
        exact ⟨t, ht, hkk.symm⟩
      exact List.count_pos_iff.mpr this
  · intro n hn hne
    have hmem : n ∈ keysOfTr (tasks :: tr) := List.count_pos_iff.mp hn
    simp only [keysOfTr, List.mem_map] at hmem
    obtain ⟨t, ht, rfl⟩ := hmem
    exact (justTr_all ops r x (tasks :: tr) h.c.k.just t.1 t.2 ht).2.1 hne
  · intro p o n hm hr'
    rcases hH p o hm with h' | h'
    · exact (h.rv p o n h' hr').mono m
    · exact vnew (p, o) h' n hr'

/-- a triggered channel of the pre-hand-out state: its node has not been started, the specification
    calls it enabled, and its stored values are exactly the routed ones -/
theorem triggered_facts {V} (r : Runner V) (wf : DagWF r) (wf3 : DagWF3 r) (x : V) (tasks : List (Key × V))
    (tr : Trace V) (cm2 : Chans V) (g : PreG r x tasks tr cm2) (n : Key) (c : Chan V) (hc : (n, c) ∈ cm2)
    (ht : c.triggered = true) :
    (keysOfTr (tasks :: tr)).count n = 0 ∧ Enabled r (histOf r x (tasks :: tr)) n ∧
    (akeys c.values).Nodup ∧
    (∀ p w, (p, w) ∈ c.values ↔ ((p, w) ∈ histOf r x (tasks :: tr) ∧ RoutesD r p w n)) := by
  obtain ⟨rank, hrank⟩ := wf.acyclic
  have hd := wf.dag
  obtain ⟨t0, tne, t1, t2⟩ := triggered_unpack c ht
  have ckeys := chan_ctrl_keys r hd cm2 g.sh g.k.nd n c hc
  have dkeys := chan_data_keys r hd cm2 g.sh n c hc
  have hshm := shapes_mem cm2 n c hc
  rw [g.sh] at hshm
  have hkeys2 : akeys cm2 = akeys (initChans r) := by rw [← shapes_keys, g.sh, shapes_keys]
  have hstart2 : START ∉ akeys cm2 := by rw [hkeys2]; exact wf.startFresh
  have hcne : c.ctrl ≠ [] := by
    intro hcnil
    have hd0 := wf3.hasCtrl n _ _ hshm (by rw [hcnil]; rfl)
    have hdnil : c.data = [] := by
      cases hdd : c.data with
      | nil => rfl
      | cons a b => rw [hdd] at hd0; simp [akeys] at hd0
    exact tne ⟨hcnil, hdnil⟩
  have budget : ∀ p, ((keysOfTr (tasks :: tr)).count p + if p = START then 1 else 0) + skOf cm2 p ≤ 1 := by
    intro p
    by_cases hp : p = START
    · subst hp
      have : skOf cm2 START = 0 := by unfold skOf; rw [alookup_none_of_not_mem _ _ hstart2]
      rw [g.f0, this]; simp
    · have := g.pb.bound p
      simp only [hp, ↓reduceIte]; omega
  -- not started
  have hF0 : (keysOfTr (tasks :: tr)).count n = 0 := by
    cases hcc : c.ctrl with
    | nil => exact absurd hcc hcne
    | cons a rest =>
      have hm : (a.1, a.2) ∈ c.ctrl := by rw [hcc]; simp
      have hj := g.j.ctrl n c hc a.1 a.2 hm
      have hp1 := t1 a.1 a.2 hm
      have hb := budget a.1
      simp only [effC, wlInd, List.not_mem_nil, ↓reduceIte] at hj
      omega
  have hne : lookupList n r.ctrlPreds ≠ [] := by
    intro hnil
    cases hcc : c.ctrl with
    | nil => exact hcne hcc
    | cons a b =>
      have := (ckeys a.1).mpr (by rw [hcc]; simp [akeys])
      rw [hnil] at this; simp at this
  have t1w : ∀ p, (p, Dep.waiting) ∉ c.ctrl := fun p hm => by have := t1 p _ hm; simp [pendC] at this
  have ctrlRes : ∀ p, p ∈ lookupList n r.ctrlPreds →
      (∃ o, (p, o) ∈ histOf r x (tasks :: tr)) ∨ SkippedS r (histOf r x (tasks :: tr)) p := by
    intro p hp
    obtain ⟨d, hdm⟩ := exists_of_mem_akeys _ _ ((ckeys p).mp hp)
    cases d with
    | waiting => exact absurd hdm (t1w p)
    | ready =>
      obtain ⟨o, ho, _⟩ := g.k.rdy n c hc p hdm
      exact Or.inl ⟨o, ho⟩
    | skipped =>
      rcases g.k.skp n c hc p hdm with h' | ⟨o, ho, _⟩
      · exact Or.inr (skOf_skippedS hd _ g.k g.sh wf3.hasCtrl rank hrank p h')
      · exact Or.inl ⟨o, ho⟩
  have dataRes : ∀ p, p ∈ lookupList n r.dataPreds →
      (∃ o, (p, o) ∈ histOf r x (tasks :: tr)) ∨ SkippedS r (histOf r x (tasks :: tr)) p := by
    intro p hp
    obtain ⟨b, hb⟩ := exists_of_mem_akeys _ _ ((dkeys p).mp hp)
    have hbt : b = true := by
      have := t2 p b hb
      cases b <;> simp_all [pendD]
    subst hbt
    rcases g.k.dat n c hc p hb with h' | h'
    · exact Or.inl h'
    · exact Or.inr (skOf_skippedS hd _ g.k g.sh wf3.hasCtrl rank hrank p h')
  -- some control entry is `ready`: otherwise the channel would be flagged skipped
  have routed : ∃ p, p ∈ lookupList n r.ctrlPreds ∧ ∃ o, (p, o) ∈ histOf r x (tasks :: tr) ∧ RoutesC r p o n := by
    apply Classical.byContradiction
    intro hno
    have hall : ∀ p d, (p, d) ∈ c.ctrl → d = Dep.skipped := by
      intro p d hm
      cases d with
      | waiting => exact absurd hm (t1w p)
      | skipped => rfl
      | ready =>
        exfalso
        obtain ⟨o, ho, hr'⟩ := g.k.rdy n c hc p hm
        exact hno ⟨p, (ckeys p).mpr (mem_akeys_of_mem p _ _ hm), o, ho, hr'⟩
    have := g.k.flag n c hc hcne hall
    rw [t0] at this; cases this
  refine ⟨hF0, ⟨hne, ctrlRes, routed, dataRes⟩, g.k.vnd n c hc, fun p w => ⟨fun hw => g.k.val n c hc p w hw, fun ⟨hm, hr'⟩ => ?_⟩⟩
  rcases g.rv p w n hm hr' c hc with h' | h' | h'
  · have h'' : 1 ≤ (keysOfTr (tasks :: tr)).count n := h'
    omega
  · rw [t0] at h'; cases h'
  · obtain ⟨w', hw'⟩ := exists_of_mem_akeys _ _ h'
    have := (g.k.val n c hc p w' hw').1
    rw [g.pb.fn p w w' hm this]
    exact hw'

/-! ### how a scheduling round can fail -/

theorem getReady_bad_src {V} (ops : ValOps V) (cm : Chans V) (h : (getReady ops true cm).2.2 = true) :
    ∃ n c, (n, c) ∈ cm ∧ (c.get ops true).2 = .mergeErr := by
  induction cm with
  | nil => simp [getReady] at h
  | cons q t ih =>
    obtain ⟨k, c⟩ := q
    simp only [getReady] at h
    cases hg : (c.get ops true).2 with
    | notReady =>
      simp only [hg] at h
      obtain ⟨n, c', hm, hh⟩ := ih h
      exact ⟨n, c', List.mem_cons_of_mem _ hm, hh⟩
    | ready w =>
      simp only [hg] at h
      obtain ⟨n, c', hm, hh⟩ := ih h
      exact ⟨n, c', List.mem_cons_of_mem _ hm, hh⟩
    | mergeErr => exact ⟨k, c, by simp, hg⟩

theorem getReady_ok_nomerge {V} (ops : ValOps V) (cm : Chans V) (h : (getReady ops true cm).2.2 = false) :
    ∀ n c, (n, c) ∈ cm → (c.get ops true).2 ≠ .mergeErr := by
  induction cm with
  | nil => intro n c hm; simp at hm
  | cons q t ih =>
    obtain ⟨k, c0⟩ := q
    intro n c hm
    simp only [getReady] at h
    cases hg : (c0.get ops true).2 with
    | notReady =>
      simp only [hg] at h
      rcases List.mem_cons.mp hm with e | hm
      · cases e; rw [hg]; simp
      · exact ih h n c hm
    | ready w =>
      simp only [hg] at h
      rcases List.mem_cons.mp hm with e | hm
      · cases e; rw [hg]; simp
      · exact ih h n c hm
    | mergeErr => simp [hg] at h

theorem get_mergeErr {V} (ops : ValOps V) (c : Chan V) (h : (c.get ops true).2 = .mergeErr) :
    c.triggered = true ∧ collect ops (c.values.map (·.2)) = .mergeErr := by
  unfold Chan.get at h
  simp only [↓reduceIte] at h
  by_cases ht : c.triggered = true
  · simp only [ht, ↓reduceIte] at h
    by_cases hv : c.values.isEmpty = true
    · simp [hv] at h
    · simp only [hv, Bool.false_eq_true, ↓reduceIte] at h
      exact ⟨ht, h⟩
  · simp [ht] at h

theorem get_not_mergeErr {V} (ops : ValOps V) (c : Chan V) (ht : c.triggered = true)
    (h : (c.get ops true).2 ≠ .mergeErr) : collect ops (c.values.map (·.2)) ≠ .mergeErr := by
  unfold Chan.get at h
  simp only [↓reduceIte, ht] at h
  by_cases hv : c.values.isEmpty = true
  · have : c.values = [] := by simpa [List.isEmpty_iff] using hv
    rw [this]; simp [collect]
  · simpa [hv] using h

/-- every completed task's branches were evaluated without an error when `resolve` succeeds -/
theorem resolve_ok_select {V} (r : Runner V) (done : List (Done V)) (acc acc' : Resolved V)
    (h : done.foldlM (resolveStep r) acc = .ok acc') :
    ∀ d, d ∈ done → ∀ nd, r.call? d.1 = some nd → ∃ sel, selectOf nd d.2 = .ok sel := by
  induction done generalizing acc with
  | nil => intro d hd; simp at hd
  | cons t rest ih =>
    simp only [List.foldlM_cons, bind, Except.bind] at h
    cases h1 : resolveStep r acc t with
    | error e => simp [h1] at h
    | ok acc1 =>
      simp only [h1] at h
      intro d hd nd hnd
      rcases List.mem_cons.mp hd with rfl | hd
      · unfold resolveStep at h1
        simp only [hnd, bind, Except.bind] at h1
        unfold calcBranch at h1
        simp only [bind, Except.bind] at h1
        cases hs : selectOf nd d.2 with
        | error e => simp [hs] at h1
        | ok sel => exact ⟨sel, rfl⟩
      · exact ih acc1 h d hd nd hnd

/-- a failing `resolve`: the first task whose step fails, after a successful prefix -/
theorem resolve_err_split {V} (r : Runner V) (done : List (Done V)) (acc : Resolved V) (e : Err)
    (h : done.foldlM (resolveStep r) acc = .error e) :
    ∃ pre d post acc1, done = pre ++ d :: post ∧ pre.foldlM (resolveStep r) acc = .ok acc1 ∧
      resolveStep r acc1 d = .error e := by
  induction done generalizing acc with
  | nil => simp [pure, Except.pure] at h
  | cons t rest ih =>
    simp only [List.foldlM_cons, bind, Except.bind] at h
    cases h1 : resolveStep r acc t with
    | error e' =>
      simp only [h1] at h
      cases h
      exact ⟨[], t, rest, acc, rfl, rfl, h1⟩
    | ok acc1 =>
      simp only [h1] at h
      obtain ⟨pre, d, post, acc2, e1, e2, e3⟩ := ih acc1 h
      refine ⟨t :: pre, d, post, acc2, by rw [e1]; rfl, ?_, e3⟩
      simp only [List.foldlM_cons, bind, Except.bind, h1]
      exact e2

/-! ### a failing skip propagation: some non-node channel (END) has been flagged skipped -/

theorem propagate_err_flag {V} {r : Runner V} {H : List (Done V)} (hd : r.dag = true) (hs : SuccOK r) :
    ∀ (fuel : Nat) (cm : Chans V) (wl : List Key) (e : Err), K r H cm →
      (∀ s, s ∈ wl → skOf cm s = 1) →
      shapes cm = shapes (initChans r) → propagateSkips r fuel cm wl = .error e →
      ∃ cm'' k, K r H cm'' ∧ shapes cm'' = shapes (initChans r) ∧ skOf cm'' k = 1 ∧ r.node? k = none := by
  intro fuel
  induction fuel with
  | zero => intro cm wl e _ _ _ h; simp [propagateSkips] at h
  | succ f ih =>
    intro cm wl e hK hw hsh h
    cases wl with
    | nil => simp [propagateSkips] at h
    | cons k rest =>
      simp only [propagateSkips] at h
      cases hn : r.node? k with
      | none => exact ⟨cm, k, hK, hsh, hw k (by simp), hn⟩
      | some n =>
        simp only [hn, hd] at h
        obtain ⟨hmem, hkey⟩ := node?_some r k n hn
        have hp := hs n (Or.inl hmem)
        rw [hkey] at hp
        obtain ⟨j1, j2, j3, j4⟩ := skipFold_K (r := r) (H := H) k n.successors (cm, []) hK (by simp)
          (Or.inl (hw k (by simp)))
          (fun cm' h => predOK_use hp cm' (by rw [h]; exact hsh))
        exact ih _ _ e j1
          (by
            intro s hs'
            rcases List.mem_append.mp hs' with h1 | h1
            · exact j2 s (hw s (List.mem_cons_of_mem _ h1))
            · exact j3 s h1)
          (by rw [j4]; exact hsh) h

theorem reportBranch_err_flag {V} {r : Runner V} {H : List (Done V)} (hd : r.dag = true) (hs : SuccOK r)
    (cm : Chans V) (from_ : Key) (ss : List Key) (e : Err)
    (hp : PredOK (shapes (initChans r)) from_ ss)
    (hm : ∀ s, s ∈ ss → ∃ o, (from_, o) ∈ H ∧ Deselects r from_ o s)
    (hK : K r H cm) (hsh : shapes cm = shapes (initChans r))
    (h : reportBranch r cm from_ ss = .error e) :
    ∃ cm'' k, K r H cm'' ∧ shapes cm'' = shapes (initChans r) ∧ skOf cm'' k = 1 ∧ r.node? k = none := by
  unfold reportBranch at h
  simp only [hd] at h
  obtain ⟨j1, j2, j3, j4⟩ := skipFold_K (r := r) (H := H) from_ ss (cm, []) hK (by simp) (Or.inr hm)
    (fun cm' h => predOK_use hp cm' (by rw [h]; exact hsh))
  exact propagate_err_flag hd hs _ _ _ e j1 j3 (by rw [j4]; exact hsh) h

theorem node?_none_not_key {V} (r : Runner V) (k : Key) (h : r.node? k = none) :
    k ∉ r.nodes.map (·.key) := by
  unfold Runner.node? at h
  intro hm
  obtain ⟨n, hn, hk⟩ := List.mem_map.mp hm
  have := List.find?_eq_none.mp h n hn
  simp [hk] at this

/-- a flagged key that is not a node is END -/
theorem flagged_nonnode_is_END {V} (r : Runner V) (cm : Chans V) (hsh : shapes cm = shapes (initChans r))
    (k : Key) (hf : skOf cm k = 1) (hn : r.node? k = none) : k = END := by
  have hk := skOf_one_mem cm k hf
  rw [← shapes_keys cm, hsh, shapes_keys] at hk
  simp only [initChans, akeys, List.map_append, List.map_map, List.mem_append, List.map_cons, List.map_nil,
    List.mem_singleton] at hk
  rcases hk with hk | hk
  · exact absurd (by simpa [Function.comp] using hk) (node?_none_not_key r k hn)
  · exact hk

/-- **how `resolve` can fail**: a branch condition of a completed task fails, or END ends up skipped -/
theorem resolve_err_cases {V} {H : List (Done V)} (r : Runner V) (hd : r.dag = true) (hs : SuccOK r)
    (hk : r.start.key = START) (hHC : HasCtrl r) (rank : Key → Nat)
    (hrank : ∀ n cs ds, (n, cs, ds) ∈ shapes (initChans r) → ∀ p, p ∈ cs ∨ p ∈ ds → rank p < rank n)
    (done : List (Done V)) (hdone : ∀ t, t ∈ done → t ∈ H) (cm : Chans V) (hK : K r H cm)
    (hsh : shapes cm = shapes (initChans r)) (e : Err) (h : resolve r cm done = .error e) :
    (∃ d nd e', d ∈ done ∧ r.call? d.1 = some nd ∧ selectOf nd d.2 = .error e') ∨ SkippedS r H END := by
  unfold resolve at h
  obtain ⟨pre, d, post, acc1, e1, e2, e3⟩ := resolve_err_split r done _ e h
  have hpre : ∀ t, t ∈ pre → t ∈ H := fun t ht => hdone t (by rw [e1]; simp [ht])
  have hdH : d ∈ H := hdone d (by rw [e1]; simp)
  obtain ⟨hrk, _⟩ := resolve_K r hd hs hk pre hpre { cm := cm, writes := [], deps := [] } acc1
    ⟨hK, hsh, fun _ _ hm => by simp at hm, fun _ _ hm => by simp at hm⟩ e2
  unfold resolveStep at e3
  cases hc : r.call? d.1 with
  | none => simp [hc, pure, Except.pure] at e3
  | some n =>
    simp only [hc, bind, Except.bind] at e3
    obtain ⟨hn, hkey⟩ := call?_some r hk d.1 n hc
    cases h1 : selectOf n d.2 with
    | error e' => exact Or.inl ⟨d, n, e', by rw [e1]; simp, hc, h1⟩
    | ok selected =>
      right
      unfold calcBranch at e3
      simp only [h1, bind, Except.bind] at e3
      cases h2 : reportBranch r acc1.cm n.key (skippedOf n selected) with
      | ok cm1 => simp [h2, pure, Except.pure] at e3
      | error e'' =>
        obtain ⟨cm'', k, k1, k2, k3, k4⟩ := reportBranch_err_flag (r := r) (H := H) hd hs acc1.cm n.key
          (skippedOf n selected) e''
          (fun s hs' => hs n hn s (skippedOf_sub n selected s hs'))
          (fun s hs' => ⟨d.2, by rw [hkey]; exact hdH, n, selected, by rw [hkey]; exact hc, h1, hs'⟩)
          hrk.k hrk.sh h2
        have := flagged_nonnode_is_END r cm'' k2 k k3 k4
        subst this
        exact skOf_skippedS hd cm'' k1 k2 hHC rank hrank END k3

/-! ### one round of one run, in specification terms -/

/-- what makes a scheduling round fail, in specification terms: a branch condition of a task that
    just completed fails; END is skipped; or a node that is enabled and not yet started has
    (exactly routed) inputs that do not merge -/
def RoundFails {V} (ops : ValOps V) (r : Runner V) (H : List (Done V)) (started : List Key)
    (done : List (Done V)) : Prop :=
  (∃ d nd e', d ∈ done ∧ r.call? d.1 = some nd ∧ selectOf nd d.2 = .error e') ∨
  SkippedS r H END ∨
  (∃ n vals, n ∉ started ∧ Enabled r H n ∧ (akeys vals).Nodup ∧
     (∀ p w, (p, w) ∈ vals ↔ ((p, w) ∈ H ∧ RoutesD r p w n)) ∧
     collect ops (vals.map (·.2)) = .mergeErr)

theorem hdone_of_run {V} (r : Runner V) (sched : Sched V) (hf : sched.Fair) (x : V) (tasks : List (Key × V))
    (tr : Trace V) (done : List (Done V)) (hr : runTasks r sched tr.length tasks = .ok done) :
    ∀ t, t ∈ done → t ∈ histOf r x (tasks :: tr) := by
  intro d hd'
  obtain ⟨t, ht, ho⟩ := runTasks_mem r sched hf _ _ _ hr d hd'
  simp only [histOf, List.mem_cons, List.flatten_cons, List.filterMap_append, List.mem_append,
    List.mem_filterMap]
  exact Or.inr (Or.inl ⟨t, ht, ho⟩)

/-- **a failing round fails for a specification-level reason** -/
theorem round_err {V} (ops : ValOps V) (r : Runner V) (wf : DagWF r) (wf2 : DagWF2 r) (wf3 : DagWF3 r)
    (sched : Sched V) (hf : sched.Fair) (x : V) (cm : Chans V) (tasks : List (Key × V)) (tr : Trace V)
    (done : List (Done V)) (e : Err) (h : XInv ops r x cm tasks tr)
    (hr : runTasks r sched tr.length tasks = .ok done) (hc : calcNext ops r cm done = .error e) :
    RoundFails ops r (histOf r x (tasks :: tr)) (keysOfTr (tasks :: tr)) done := by
  obtain ⟨rank, hrank⟩ := wf.acyclic
  have hK' : K r (histOf r x (tasks :: tr)) cm := K_mono h.c.k.k (histOf_mono r x tasks tr)
  have hdone := hdone_of_run r sched hf x tasks tr done hr
  unfold calcNext at hc
  cases h1 : resolve r cm done with
  | error e' =>
    rcases resolve_err_cases r wf.dag wf.succ wf.startKey wf3.hasCtrl rank hrank done hdone cm hK' h.c.l.sh e' h1 with h' | h'
    · exact Or.inl h'
    · exact Or.inr (Or.inl h')
  | ok res =>
    right; right
    simp only [h1, bind, Except.bind] at hc
    rw [wf.dag] at hc
    have g := preG_of_resolve ops r wf wf2 sched hf x cm tasks tr done res h hr h1
    generalize hg : getReady ops true (updateDeps r (updateValues r res.cm res.writes) res.deps) = gr at hc
    obtain ⟨cm3, ready, bad⟩ := gr
    simp only at hc
    have hbad : bad = true := by
      cases bad with
      | true => rfl
      | false =>
        simp only [Bool.false_eq_true, ↓reduceIte] at hc
        cases ha : alookup END ready <;> simp [ha, pure, Except.pure] at hc
    have hb2 : (getReady ops true (updateDeps r (updateValues r res.cm res.writes) res.deps)).2.2 = true := by
      rw [hg]; exact hbad
    obtain ⟨n, c, hm, hge⟩ := getReady_bad_src ops _ hb2
    obtain ⟨ht, hcol⟩ := get_mergeErr ops c hge
    obtain ⟨f1, f2, f3, f4⟩ := triggered_facts r wf wf3 x tasks tr _ g n c hm ht
    refine ⟨n, c.values, ?_, f2, f3, f4, hcol⟩
    intro hin
    have := List.count_pos_iff.mpr hin
    omega

/-- **a round that does not fail has no specification-level reason to** (the two that can be read
    off the round itself; "END is skipped" is excluded by the run returning a value later) -/
theorem round_ok {V} (ops : ValOps V) (r : Runner V) (wf : DagWF r) (wf2 : DagWF2 r) (wf3 : DagWF3 r)
    (sched : Sched V) (hf : sched.Fair) (x : V) (cm cm' : Chans V) (tasks : List (Key × V)) (tr : Trace V)
    (done : List (Done V)) (nx : Next V) (h : XInv ops r x cm tasks tr)
    (hr : runTasks r sched tr.length tasks = .ok done) (hc : calcNext ops r cm done = .ok (cm', nx)) :
    (∀ d, d ∈ done → ∀ nd, r.call? d.1 = some nd → ∃ sel, selectOf nd d.2 = .ok sel) ∧
    (∀ n, n ∉ keysOfTr (tasks :: tr) → Enabled r (histOf r x (tasks :: tr)) n →
      ∃ vals : List (Key × V), (akeys vals).Nodup ∧
        (∀ p w, (p, w) ∈ vals ↔ ((p, w) ∈ histOf r x (tasks :: tr) ∧ RoutesD r p w n)) ∧
        collect ops (vals.map (·.2)) ≠ .mergeErr) := by
  unfold calcNext at hc
  cases h1 : resolve r cm done with
  | error e' => simp [h1, bind, Except.bind] at hc
  | ok res =>
    simp only [h1, bind, Except.bind] at hc
    rw [wf.dag] at hc
    refine ⟨resolve_ok_select r done _ res h1, ?_⟩
    have g := preG_of_resolve ops r wf wf2 sched hf x cm tasks tr done res h hr h1
    generalize hg : getReady ops true (updateDeps r (updateValues r res.cm res.writes) res.deps) = gr at hc
    obtain ⟨cm3, ready, bad⟩ := gr
    simp only at hc
    have hbad : bad = false := by
      cases bad with
      | false => rfl
      | true => simp [throw, throwThe, MonadExceptOf.throw] at hc
    have hb2 : (getReady ops true (updateDeps r (updateValues r res.cm res.writes) res.deps)).2.2 = false := by
      rw [hg]; exact hbad
    intro n hn hen
    have hkeys2 : akeys (updateDeps r (updateValues r res.cm res.writes) res.deps) = akeys (initChans r) := by
      rw [← shapes_keys, g.sh, shapes_keys]
    have hF0 : (keysOfTr (tasks :: tr)).count n = 0 := List.count_eq_zero_of_not_mem hn
    obtain ⟨c, hm, ht⟩ := triggered_of_enabled wf.dag g.pb (by rw [hkeys2]; exact wf.startFresh)
      (fun n hne => by rw [hkeys2]; exact wf2.p4 n hne) n hen hF0
    obtain ⟨_, _, f3, f4⟩ := triggered_facts r wf wf3 x tasks tr _ g n c hm ht
    exact ⟨c.values, f3, f4, get_not_mergeErr ops c ht (getReady_ok_nomerge ops _ hb2 n c hm)⟩

/-- a node that has the start facts is not skipped (in a grounded history) -/
theorem facts_not_skipped {V} (ops : ValOps V) (hm : MergePerm ops) (r : Runner V) (x : V) (rank : Key → Nat)
    (hrank : ∀ n p, (p ∈ lookupList n r.ctrlPreds ∨ p ∈ lookupList n r.dataPreds) → rank p < rank n)
    (hstartC : lookupList START r.ctrlPreds = [])
    (H : List (Done V)) (g : Grounded ops r x H) (n : Key) (v : V) (f : StartFacts ops r H n v) :
    ¬ SkippedS r H n := by
  intro hs
  cases hs with
  | intro _ hne hpre =>
    obtain ⟨q, hq, oq, hoq, hr⟩ := f.routed hne
    have ag := grounded_agree ops hm r x rank hrank hstartC H H g g
    by_cases hdz : ∃ o'', (q, o'') ∈ H ∧ Deselects r q o'' n
    · obtain ⟨o'', ho'', hd⟩ := hdz
      have := (ag q).1 oq o'' hoq ho''
      subst this
      exact routes_deselects_excl r q oq n hr hd
    · exact (ag q).2.1 oq hoq (hpre q hq hdz)

/-! ### success does not depend on the schedule -/

theorem finv_grounded {V} (ops : ValOps V) (r : Runner V) (wf : DagWF r) (x : V) (cm : Chans V)
    (tasks : List (Key × V)) (tr : Trace V) (h : FInv ops r x cm tasks tr) :
    Grounded ops r x (histOf r x (tasks :: tr)) := by
  obtain ⟨b1, b2⟩ := finv_runfacts ops r wf x cm tasks tr h
  exact grounded_of_run ops r x (tasks :: tr) h.facts b1 b2 h.nodes

/-- once END is skipped, the run cannot return a value any more -/
theorem loop_end_skipped_fails {V} (ops : ValOps V) (hm : MergePerm ops) (r : Runner V) (wf : DagWF r)
    (wf2 : DagWF2 r) (wf3 : DagWF3 r) (sched : Sched V) (hf : sched.Fair) (x : V) :
    ∀ (fuel : Nat) (cm : Chans V) (tasks : List (Key × V)) (tr : Trace V), FInv ops r x cm tasks tr →
      SkippedS r (histOf r x (tasks :: tr)) END → ∀ v, (loop ops r sched fuel cm tasks tr).result ≠ .ok v := by
  obtain ⟨rank, _, hrank⟩ := wf3.acyclicAll
  intro fuel
  induction fuel with
  | zero => intro cm tasks tr _ _ v h; simp [loop] at h
  | succ f ih =>
    intro cm tasks tr h hsk v
    unfold loop
    simp only
    cases hr : runTasks r sched tr.length tasks with
    | error e => simp
    | ok done =>
      simp only
      by_cases he : done.isEmpty = true
      · simp [he]
      · simp only [he, Bool.false_eq_true, ↓reduceIte]
        cases hc : calcNext ops r cm done with
        | error e => simp
        | ok res =>
          obtain ⟨cm', nx⟩ := res
          obtain ⟨s1, s2⟩ := FInv_step ops r wf wf2 wf3 sched hf x cm cm' tasks tr done nx h hr hc
          cases nx with
          | result w =>
            simp only
            intro _
            exact facts_not_skipped ops hm r x rank hrank wf3.startNoPreds _
              (finv_grounded ops r wf x cm tasks tr h) END w (s2 w rfl) hsk
          | tasks ts =>
            simp only
            exact ih cm' ts (tasks :: tr) (s1 ts rfl) (hsk.mono (histOf_mono r x ts (tasks :: tr))) v

/-- two traces with the same tasks at every step -/
inductive SameSteps {V} : Trace V → Trace V → Prop
  | nil : SameSteps [] []
  | cons {a b : List (Key × V)} {la lb : Trace V} (hab : ∀ t, t ∈ a ↔ t ∈ b) (rest : SameSteps la lb) :
      SameSteps (a :: la) (b :: lb)

theorem SameSteps.length_eq {V} {LA LB : Trace V} (h : SameSteps LA LB) : LA.length = LB.length := by
  induction h with
  | nil => rfl
  | cons _ _ ih => simp [ih]

theorem sameSteps_flatten {V} (LA LB : Trace V) (h : SameSteps LA LB) : ∀ t, t ∈ LA.flatten ↔ t ∈ LB.flatten := by
  induction h with
  | nil => intro t; simp
  | cons hab _ ih =>
    intro t
    simp only [List.flatten_cons, List.mem_append, hab t, ih t]

theorem sameSteps_hist {V} (r : Runner V) (x : V) (LA LB : Trace V) (h : SameSteps LA LB) :
    ∀ d, d ∈ histOf r x LA ↔ d ∈ histOf r x LB := by
  intro d
  rw [histOf_mem, histOf_mem]
  constructor
  · rintro (h' | ⟨t, ht, ho⟩)
    · exact Or.inl h'
    · exact Or.inr ⟨t, (sameSteps_flatten LA LB h t).mp ht, ho⟩
  · rintro (h' | ⟨t, ht, ho⟩)
    · exact Or.inl h'
    · exact Or.inr ⟨t, (sameSteps_flatten LA LB h t).mpr ht, ho⟩

theorem sameSteps_keys {V} (LA LB : Trace V) (h : SameSteps LA LB) : ∀ n, n ∈ keysOfTr LA ↔ n ∈ keysOfTr LB := by
  intro n
  simp only [keysOfTr, List.mem_map]
  constructor
  · rintro ⟨t, ht, e⟩; exact ⟨t, (sameSteps_flatten LA LB h t).mp ht, e⟩
  · rintro ⟨t, ht, e⟩; exact ⟨t, (sameSteps_flatten LA LB h t).mpr ht, e⟩

theorem sameSteps_symm {V} (LA LB : Trace V) (h : SameSteps LA LB) : SameSteps LB LA := by
  induction h with
  | nil => exact SameSteps.nil
  | cons hab _ ih => exact SameSteps.cons (fun t => (hab t).symm) ih

theorem mapM_collect_ok_of_all {V} (l : List (Key × Except Err V))
    (h : ∀ e, e ∈ l → ∃ d, collectOne e = .ok d) : ∃ ds, l.mapM collectOne = .ok ds := by
  induction l with
  | nil => exact ⟨[], rfl⟩
  | cons a t ih =>
    obtain ⟨d, hd⟩ := h a (by simp)
    obtain ⟨ds, hds⟩ := ih (fun e he => h e (List.mem_cons_of_mem _ he))
    exact ⟨d :: ds, by simp [List.mapM_cons, bind, Except.bind, hd, hds, pure, Except.pure]⟩

theorem runTasks_ok_of_all {V} (r : Runner V) (sched : Sched V) (hf : sched.Fair) (step : Nat)
    (ts : List (Key × V)) (h : ∀ t, t ∈ ts → (outOf r t).isSome = true) :
    ∃ done, runTasks r sched step ts = .ok done := by
  unfold runTasks
  apply mapM_collect_ok_of_all
  intro e he
  have : e ∈ ts.map (execOne r) := (hf step _).subset he
  obtain ⟨t, ht, rfl⟩ := List.mem_map.mp this
  have := h t ht
  unfold outOf at this
  cases hc : collectOne (execOne r t) with
  | ok d => exact ⟨d, rfl⟩
  | error e' => simp [hc] at this

theorem reverse_getElem_last {α} (a : α) (l : List α) : (a :: l).reverse[l.length]? = some a := by
  rw [List.reverse_cons]
  have e : l.length = l.reverse.length := by simp
  rw [e, List.getElem?_append_right (Nat.le_refl _)]
  simp

/-- the tasks of the next step agree, for two states whose traces agree step by step -/
theorem next_tasks_agree {V} (ops : ValOps V) (hm : MergePerm ops) (r : Runner V) (wf : DagWF r) (wf3 : DagWF3 r)
    (x : V) (cmA cmB : Chans V) (tsA tsB : List (Key × V)) (LA LB : Trace V)
    (hA : FInv ops r x cmA tsA LA) (hB : FInv ops r x cmB tsB LB) (hlen : LA.length = LB.length)
    (rel : SameSteps LA LB) : ∀ t, t ∈ tsA ↔ t ∈ tsB := by
  obtain ⟨rank, _, hrank⟩ := wf3.acyclicAll
  obtain ⟨a1, a2⟩ := finv_runfacts ops r wf x cmA tsA LA hA
  obtain ⟨b1, b2⟩ := finv_runfacts ops r wf x cmB tsB LB hB
  have key := steps_agree ops hm r x rank hrank wf3.startNoPreds (tsA :: LA).reverse (tsB :: LB).reverse
    (by rw [List.reverse_reverse]; exact hA.facts) (by rw [List.reverse_reverse]; exact hB.facts)
    (by rw [List.reverse_reverse]; exact hA.xi.c.comp) (by rw [List.reverse_reverse]; exact hB.xi.c.comp)
    (by rw [List.reverse_reverse]; exact a1) (by rw [List.reverse_reverse]; exact b1)
    (by rw [List.reverse_reverse]; exact a2) (by rw [List.reverse_reverse]; exact b2)
    (by rw [List.reverse_reverse]; exact hA.nodes) (by rw [List.reverse_reverse]; exact hB.nodes)
  exact key LA.length tsA tsB (reverse_getElem_last tsA LA) (by rw [hlen]; exact reverse_getElem_last tsB LB)

/-- **success transfers**: from two states whose traces agree step by step, if the loop under one
    schedule returns a value, the loop under the other schedule returns a value -/
theorem loop_ok_transfers {V} (ops : ValOps V) (hm : MergePerm ops) (r : Runner V) (wf : DagWF r)
    (wf2 : DagWF2 r) (wf3 : DagWF3 r) (sA sB : Sched V) (hfA : sA.Fair) (hfB : sB.Fair) (x : V) :
    ∀ (fuel : Nat) (cmA cmB : Chans V) (tasksA tasksB : List (Key × V)) (trA trB : Trace V) (v : V),
      FInv ops r x cmA tasksA trA → FInv ops r x cmB tasksB trB → SameSteps (tasksA :: trA) (tasksB :: trB) →
      (∀ t, t ∈ (tasksA :: trA).flatten → t.1 ≠ END) → (∀ t, t ∈ (tasksB :: trB).flatten → t.1 ≠ END) →
      (loop ops r sA fuel cmA tasksA trA).result = .ok v →
      ∃ w, (loop ops r sB fuel cmB tasksB trB).result = .ok w := by
  intro fuel
  induction fuel with
  | zero => intro cmA cmB tasksA tasksB trA trB v _ _ _ _ _ h; simp [loop] at h
  | succ f ih =>
    intro cmA cmB tasksA tasksB trA trB v hA hB rel neA neB hres
    have hlenT : trA.length = trB.length := by
      have := rel.length_eq; simpa using this
    have relT : ∀ t, t ∈ tasksA ↔ t ∈ tasksB := by cases rel with | cons hab _ => exact hab
    have hH := sameSteps_hist r x _ _ rel
    have hKeys := sameSteps_keys _ _ rel
    unfold loop at hres ⊢
    simp only at hres ⊢
    cases hrA : runTasks r sA trA.length tasksA with
    | error e => simp [hrA] at hres
    | ok doneA =>
      simp only [hrA] at hres
      by_cases heA : doneA.isEmpty = true
      · simp [heA] at hres
      · simp only [heA, Bool.false_eq_true, ↓reduceIte] at hres
        cases hcA : calcNext ops r cmA doneA with
        | error e => simp [hcA] at hres
        | ok resA =>
          obtain ⟨cmA', nxA⟩ := resA
          simp only [hcA] at hres
          -- B executes its tasks
          obtain ⟨doneB, hrB⟩ := runTasks_ok_of_all r sB hfB trB.length tasksB (fun t ht =>
            runTasks_ok_all r sA hfA _ _ _ hrA t ((relT t).mpr ht))
          simp only [hrB]
          have heB : ¬ doneB.isEmpty = true := by
            intro he
            have hnil : doneB = [] := by simpa [List.isEmpty_iff] using he
            have hpA := (runTasks_keys r sA hfA _ _ _ hrA).length_eq
            have hpB := (runTasks_keys r sB hfB _ _ _ hrB).length_eq
            simp only [List.length_map] at hpA hpB
            rw [hnil] at hpB
            have : tasksB = [] := List.eq_nil_of_length_eq_zero (by simpa using hpB.symm)
            have hAnil : tasksA = [] := by
              cases htA : tasksA with
              | nil => rfl
              | cons a t =>
                have := (relT a).mp (by rw [htA]; simp)
                rw [‹tasksB = []›] at this; simp at this
            rw [hAnil] at hpA
            have : doneA = [] := List.eq_nil_of_length_eq_zero (by simpa using hpA)
            exact heA (by simp [this])
          simp only [heB, Bool.false_eq_true, ↓reduceIte]
          obtain ⟨sA1, sA2⟩ := FInv_step ops r wf wf2 wf3 sA hfA x cmA cmA' tasksA trA doneA nxA hA hrA hcA
          obtain ⟨okSel, okMerge⟩ := round_ok ops r wf wf2 wf3 sA hfA x cmA cmA' tasksA trA doneA nxA hA.xi hrA hcA
          cases hcB : calcNext ops r cmB doneB with
          | error e =>
            exfalso
            rcases round_err ops r wf wf2 wf3 sB hfB x cmB tasksB trB doneB e hB.xi hrB hcB with
              ⟨d, nd, e', hd, hcall, hsel⟩ | hsk | ⟨n, vals, hns, hen, hnd, hex, hcol⟩
            · -- the same completion is resolved in A
              obtain ⟨t, ht, ho⟩ := runTasks_mem r sB hfB _ _ _ hrB d hd
              have hdA : d ∈ doneA := runTasks_all r sA hfA _ _ _ hrA t ((relT t).mpr ht) d ho
              obtain ⟨sel, hs⟩ := okSel d hdA nd hcall
              rw [hs] at hsel; cases hsel
            · -- END is skipped: A cannot return a value
              have hskA : SkippedS r (histOf r x (tasksA :: trA)) END := hsk.mono (fun d hd => (hH d).mpr hd)
              cases nxA with
              | result w =>
                obtain ⟨rank, _, hrank⟩ := wf3.acyclicAll
                exact facts_not_skipped ops hm r x rank hrank wf3.startNoPreds _
                  (finv_grounded ops r wf x cmA tasksA trA hA) END w (sA2 w rfl) hskA
              | tasks ts =>
                simp only at hres
                exact loop_end_skipped_fails ops hm r wf wf2 wf3 sA hfA x f cmA' ts (tasksA :: trA) (sA1 ts rfl)
                  (hskA.mono (histOf_mono r x ts (tasksA :: trA))) v hres
            · -- the same node is enabled in A, on the same values
              have hnsA : n ∉ keysOfTr (tasksA :: trA) := fun h => hns ((hKeys n).mp h)
              obtain ⟨valsA, ndA, exA, colA⟩ := okMerge n hnsA (hen.mono (fun d hd => (hH d).mpr hd))
              have hperm : valsA.Perm vals :=
                perm_of_same_members valsA vals (nodup_of_nodup_keys _ ndA) (nodup_of_nodup_keys _ hnd)
                  (fun a => by
                    rw [show a = (a.1, a.2) from rfl, exA a.1 a.2, hex a.1 a.2]
                    constructor
                    · rintro ⟨h1, h2⟩; exact ⟨(hH _).mp h1, h2⟩
                    · rintro ⟨h1, h2⟩; exact ⟨(hH _).mpr h1, h2⟩)
              have := collect_perm ops hm _ _ (hperm.map (·.2))
              rw [this] at colA
              exact colA hcol
          | ok resB =>
            obtain ⟨cmB', nxB⟩ := resB
            obtain ⟨sB1, sB2⟩ := FInv_step ops r wf wf2 wf3 sB hfB x cmB cmB' tasksB trB doneB nxB hB hrB hcB
            cases nxB with
            | result w => exact ⟨w, rfl⟩
            | tasks tsB =>
              simp only
              have hBn := sB1 tsB rfl
              have neB' : ∀ t, t ∈ (tsB :: tasksB :: trB).flatten → t.1 ≠ END := by
                intro t ht
                simp only [List.flatten_cons, List.mem_append] at ht
                rcases ht with h | h
                · exact calcNext_tasks_no_end ops r cmB cmB' doneB tsB hcB t h
                · exact neB t (by simp only [List.flatten_cons, List.mem_append]; exact h)
              cases nxA with
              | result w =>
                -- END is enabled by what A had completed; B would have started it
                exfalso
                have hen : Enabled r (histOf r x (tasksB :: trB)) END :=
                  (enabled_of_facts ops r _ END w (sA2 w rfl)).mono (fun d hd => (hH d).mp hd)
                have := hBn.xi.c.comp.1 END hen
                simp only [keysOfTr, List.mem_map] at this
                obtain ⟨t, ht, he⟩ := this
                exact neB' t ht he
              | tasks tsA =>
                simp only at hres
                have hAn := sA1 tsA rfl
                have neA' : ∀ t, t ∈ (tsA :: tasksA :: trA).flatten → t.1 ≠ END := by
                  intro t ht
                  simp only [List.flatten_cons, List.mem_append] at ht
                  rcases ht with h | h
                  · exact calcNext_tasks_no_end ops r cmA cmA' doneA tsA hcA t h
                  · exact neA t (by simp only [List.flatten_cons, List.mem_append]; exact h)
                have hnew := next_tasks_agree ops hm r wf wf3 x cmA' cmB' tsA tsB (tasksA :: trA) (tasksB :: trB)
                  hAn hBn rel.length_eq rel
                exact ih cmA' cmB' tsA tsB (tasksA :: trA) (tasksB :: trB) v hAn hBn
                  (SameSteps.cons hnew rel) neA' neB' hres

/-- **success and value of a run do not depend on the schedule** -/
theorem run_success_sched_independent {V} (ops : ValOps V) (hm : MergePerm ops) (r : Runner V)
    (wf : DagWF r) (wf2 : DagWF2 r) (wf3 : DagWF3 r) (sA sB : Sched V) (hfA : sA.Fair) (hfB : sB.Fair) (x v : V)
    (hA : (runS ops r sA x).result = .ok v) : (runS ops r sB x).result = .ok v := by
  have key : ∃ w, (runS ops r sB x).result = .ok w := by
    unfold runS at hA ⊢
    cases hc : calcNext ops r (initChans r) [(START, x)] with
    | error e => simp [hc] at hA
    | ok res =>
      obtain ⟨cm, nx⟩ := res
      cases nx with
      | result w => exact ⟨w, rfl⟩
      | tasks ts =>
        simp only [hc] at hA ⊢
        obtain ⟨s1, _⟩ := FInv_start ops r wf wf2 wf3 x cm (.tasks ts) hc
        have h0 := s1 ts rfl
        have ne : ∀ t, t ∈ ([ts] : Trace V).flatten → t.1 ≠ END := by
          intro t ht
          simp only [List.flatten_cons, List.flatten_nil, List.append_nil] at ht
          exact calcNext_tasks_no_end ops r _ cm _ ts hc t ht
        exact loop_ok_transfers ops hm r wf wf2 wf3 sA sB hfA hfB x r.fuel cm cm ts ts [] [] v h0 h0
          (SameSteps.cons (fun _ => Iff.rfl) SameSteps.nil) ne ne hA
  obtain ⟨w, hw⟩ := key
  rw [hw]
  congr 1
  exact (run_result_sched_independent ops hm r wf wf2 wf3 sA sB hfA hfB x v w hA hw).symm

end DagRun
end EinoV.Engine
