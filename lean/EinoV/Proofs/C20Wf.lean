/- Helper lemmas for the declaration layer of C20 (Model/C20Wf.lean): the tie of `addEdgeBodyK`
   to the builder model, what keeps `startNodes` / `endNodes` empty, compile with sub-graphs. -/
import EinoV.Model.C20Wf
import EinoV.Proofs.C20

namespace EinoV.Build

/-! ### the entry / exit bookkeeping in its source position -/

theorem mapOk_id (x : Except ErrKind Builder) : mapOk (fun b => b) x = x := by
  cases x <;> rfl

theorem addEdgeBodyK_true (im : Impl) (ord : Ord) (b : Builder) (s e : Key) (nc nd : Bool)
    (m : Option Nat) : addEdgeBodyK true im ord b s e nc nd m = addEdgeBody im ord b s e nc nd m := by
  simp only [addEdgeBodyK, addEdgeBody, ↓reduceIte, mapOk_id, Builder.noteEnds]
  rfl

theorem addEdgeK_true (f : Facts) (im : Impl) (ord : Ord) (b : Builder) (s e : Key) (nc nd : Bool)
    (m : Option Nat) : addEdgeK f true im ord b s e nc nd m = addEdge f im ord b s e nc nd m := by
  unfold addEdgeK addEdge
  rw [addEdgeBodyK_true] <;> rfl

theorem stepK_true (E : Env) (h : E.inCtl = true) (b : Builder) (op : Op) :
    stepK E b op = step E.f E.im E.ord b op := by
  cases op <;> simp [stepK, step, h, addEdgeK_true]

theorem runK_true (E : Env) (h : E.inCtl = true) (b : Builder) (ops : List Op) :
    runK E b ops = (run E.f E.im E.ord b ops).1 := by
  induction ops generalizing b with
  | nil => rfl
  | cons op ops ih => simp [runK, run, stepK_true E h, ih]

theorem compileN_nil (f : Facts) (ord : Ord) (b : Builder) (o : COpts) :
    compileN f ord b o [] = compile f ord b o := by
  unfold compileN compile
  simp only [List.find?_nil] <;> rfl

/-! ### what the type-inference work list leaves alone -/

/-- the cells only Add* calls themselves write -/
def Builder.ends (b : Builder) := (b.startNodes, b.endNodes, b.buildError, b.compiled, b.cmp)

/-- the compiled flag and the kind of graph -/
abbrev Builder.flags (b : Builder) := (b.compiled, b.cmp)

theorem setTy_ends (b : Builder) (k : Key) (t : Ty) : (b.setTy k t).ends = b.ends := rfl

theorem procEntries_ends (im : Impl) (s : Key) (sTy : Option Ty) (l : List PEdge) :
    ∀ (b : Builder) (kept : List PEdge) (ch : Bool) (r : Builder × List PEdge × Bool),
      procEntries im s sTy l b kept ch = .ok r → r.1.ends = b.ends := by
  induction l with
  | nil => intro b kept ch r h; simp [procEntries] at h; rw [← h]
  | cons pe rest ih =>
    intro b kept ch r h
    unfold procEntries at h
    split at h
    · exact ih _ _ _ _ h
    · rw [ih _ _ _ _ h]; rfl
    · rw [ih _ _ _ _ h]; rfl
    · split at h
      · rw [ih _ _ _ _ h]; rfl
      · split at h
        · simp at h
        · rw [ih _ _ _ _ h]; rfl
        · exact ih _ _ _ _ h

theorem updRound_ends (im : Impl) (ks : List Key) :
    ∀ (b : Builder) (ch : Bool) (r : Builder × Bool), updRound im ks b ch = .ok r → r.1.ends = b.ends := by
  induction ks with
  | nil => intro b ch r h; simp [updRound] at h; rw [← h]
  | cons s ks ih =>
    intro b ch r h
    unfold updRound at h
    split at h
    · simp at h
    · rename_i b' kept ch' hp
      rw [ih _ _ _ h]
      exact procEntries_ends im s _ _ b [] false _ hp

theorem updLoop_ends (im : Impl) (ord : Ord) (fuel : Nat) :
    ∀ (b b' : Builder), updLoop im ord fuel b = .ok b' → b'.ends = b.ends := by
  induction fuel with
  | zero => intro b b' h; simp [updLoop] at h; rw [← h]
  | succ n ih =>
    intro b b' h
    unfold updLoop at h
    split at h
    · simp at h
    · rename_i b1 ch hr
      have h1 := updRound_ends im _ b false _ hr
      split at h
      · rw [ih _ _ h]; exact h1
      · simp at h; rw [← h]; exact h1

theorem update_ends (im : Impl) (ord : Ord) (b b' : Builder) (h : update im ord b = .ok b') :
    b'.ends = b.ends := updLoop_ends im ord _ b b' h

theorem ends_startNodes {b b' : Builder} (h : b'.ends = b.ends) : b'.startNodes = b.startNodes := by
  simp only [Builder.ends, Prod.mk.injEq] at h; exact h.1
theorem ends_endNodes {b b' : Builder} (h : b'.ends = b.ends) : b'.endNodes = b.endNodes := by
  simp only [Builder.ends, Prod.mk.injEq] at h; exact h.2.1

theorem ends_compiled {b b' : Builder} (h : b'.ends = b.ends) : b'.flags = b.flags := by
  simp only [Builder.ends, Prod.mk.injEq] at h; simp [Builder.flags, h.2.2.2.1, h.2.2.2.2]

/-! ### calls that create no entry / no exit edge -/

/-- the call records an entry edge if it succeeds -/
def Op.entry : Op → Bool
  | .edge s _ nc _ _ => s == START && !nc
  | .branch s _ _ skip => s == START && !skip
  | _ => false

/-- the call records an exit edge if it succeeds -/
def Op.exit : Op → Bool
  | .edge _ e nc _ _ => e == END && !nc
  | .branch _ _ ends skip => ends.contains END && !skip
  | _ => false

theorem guarded_keeps {α : Type} (g : Guards) (b : Builder) (body : Except ErrKind Builder)
    (proj : Builder → α) (hbody : ∀ b', body = .ok b' → proj b' = proj b)
    (herr : ∀ k, proj { b with buildError := some k } = proj b) :
    proj (guarded g b body).1 = proj b := by
  unfold guarded
  split
  · rfl
  · split
    · rfl
    · cases body with
      | ok b' => exact hbody b' rfl
      | error k =>
        simp only
        split
        · exact herr k
        · rfl

theorem addNode_startNodes (f : Facts) (b : Builder) (n : NodeSpec) :
    (addNode f b n).1.startNodes = b.startNodes ∧ (addNode f b n).1.endNodes = b.endNodes := by
  unfold addNode
  constructor
  · apply guarded_keeps _ _ _ (·.startNodes)
    · intro b' hb; split at hb <;> simp at hb; rw [← hb]
    · intro k; rfl
  · apply guarded_keeps _ _ _ (·.endNodes)
    · intro b' hb; split at hb <;> simp at hb; rw [← hb]
    · intro k; rfl

theorem addEdgeBody_keeps (im : Impl) (ord : Ord) (b b' : Builder) (s e : Key) (nc nd : Bool) (m : Option Nat)
    (h : addEdgeBody im ord b s e nc nd m = .ok b') :
    ((s == START && !nc) = false → b'.startNodes = b.startNodes) ∧
    ((e == END && !nc) = false → b'.endNodes = b.endNodes) ∧ b'.flags = b.flags := by
  unfold addEdgeBody at h
  split at h; · simp at h
  split at h; · simp at h
  split at h; · simp at h
  split at h; · simp at h
  simp only at h
  split at h
  · simp at h
  · rename_i b1 hr1
    have hb1 : ((s == START && !nc) = false → b1.startNodes = b.startNodes) ∧
        ((e == END && !nc) = false → b1.endNodes = b.endNodes) ∧ b1.flags = b.flags := by
      cases nc
      · simp only [Bool.false_eq_true, ↓reduceIte] at hr1
        split at hr1
        · simp at hr1
        · simp only [Except.ok.injEq] at hr1
          subst hr1
          refine ⟨fun hs => ?_, fun he => ?_, rfl⟩
          · have : ¬ s = START := by simpa using hs
            simp [this]
          · have : ¬ e = END := by simpa using he
            simp [this]
      · simp only [↓reduceIte, Except.ok.injEq] at hr1
        subst hr1
        exact ⟨fun _ => rfl, fun _ => rfl, rfl⟩
    split at h
    · simp only [Except.ok.injEq] at h; subst h; exact hb1
    · split at h
      · simp at h
      · split at h
        · simp at h
        · rename_i b2 hu
          simp only [Except.ok.injEq] at h
          subst h
          have hx := update_ends im ord _ _ hu
          have h1 := ends_startNodes hx
          have h2 := ends_endNodes hx
          have h3 := ends_compiled hx
          simp only [Builder.addToValidate] at h1 h2 h3
          exact ⟨fun hs => by show b2.startNodes = _; rw [h1]; exact hb1.1 hs,
                 fun he => by show b2.endNodes = _; rw [h2]; exact hb1.2.1 he,
                 by show b2.flags = _; rw [h3]; exact hb1.2.2⟩

theorem addEdge_keeps (f : Facts) (im : Impl) (ord : Ord) (b : Builder) (s e : Key) (nc nd : Bool) (m : Option Nat) :
    ((s == START && !nc) = false → (addEdge f im ord b s e nc nd m).1.startNodes = b.startNodes) ∧
    ((e == END && !nc) = false → (addEdge f im ord b s e nc nd m).1.endNodes = b.endNodes) ∧
    (addEdge f im ord b s e nc nd m).1.flags = b.flags := by
  unfold addEdge
  split
  · exact ⟨fun _ => rfl, fun _ => rfl, rfl⟩
  · split
    · exact ⟨fun _ => rfl, fun _ => rfl, rfl⟩
    · split
      · exact ⟨fun _ => rfl, fun _ => rfl, rfl⟩
      · refine ⟨?_, ?_, ?_⟩
        · intro hs
          apply guarded_keeps _ _ _ (·.startNodes)
          · intro b' hb; exact (addEdgeBody_keeps im ord b b' s e nc nd m hb).1 hs
          · intro k; rfl
        · intro he
          apply guarded_keeps _ _ _ (·.endNodes)
          · intro b' hb; exact (addEdgeBody_keeps im ord b b' s e nc nd m hb).2.1 he
          · intro k; rfl
        · apply guarded_keeps _ _ _ (·.flags)
          · intro b' hb; exact (addEdgeBody_keeps im ord b b' s e nc nd m hb).2.2
          · intro k; rfl

theorem branchEnds_keeps (im : Impl) (ord : Ord) (s : Key) (ends : List Key) :
    ∀ (b b' : Builder), branchEnds im ord s ends b = .ok b' →
      (s ≠ START → b'.startNodes = b.startNodes) ∧ (END ∉ ends → b'.endNodes = b.endNodes) ∧
      b'.flags = b.flags := by
  induction ends with
  | nil => intro b b' h; simp [branchEnds] at h; rw [← h]; exact ⟨fun _ => rfl, fun _ => rfl, rfl⟩
  | cons e es ih =>
    intro b b' h
    unfold branchEnds at h
    split at h
    · simp at h
    · split at h
      · simp at h
      · rename_i b1 hu
        have hx := update_ends im ord _ _ hu
        have h1 := ends_startNodes hx
        have h2 := ends_endNodes hx
        have h3 := ends_compiled hx
        simp only [Builder.addToValidate] at h1 h2 h3
        have := ih _ _ h
        refine ⟨fun hs => ?_, fun he => ?_, ?_⟩
        · rw [this.1 hs]; simp [hs, h1]
        · have he1 : ¬ e = END := fun hh => he (by simp [hh])
          have he2 : END ∉ es := fun hh => he (by simp [hh])
          rw [this.2.1 he2]; simp [he1, h2]
        · rw [this.2.2]; exact h3

theorem addBranchBody_keeps (f : Facts) (im : Impl) (ord : Ord) (b b' : Builder) (s : Key) (t : Ty)
    (ends : List Key) (sk : Bool) (hv : ord.Valid) (h : addBranchBody f im ord b s t ends sk = .ok b') :
    ((s == START && !sk) = false → b'.startNodes = b.startNodes) ∧
    ((ends.contains END && !sk) = false → b'.endNodes = b.endNodes) ∧ b'.flags = b.flags := by
  unfold addBranchBody at h
  split at h; · simp at h
  split at h; · simp at h
  split at h; · simp at h
  simp only at h
  split at h; · simp at h
  rename_i r hr
  -- the state before the end-node loop has the old entry / exit lists
  have key : ∀ (b2 b3 : Builder), b2.ends = b.ends →
      ((if f.branchPropagates = true then update im ord b2 else .ok b2) = .ok b3) → b3.ends = b.ends := by
    intro b2 b3 h2 h3
    split at h3
    · rw [update_ends im ord _ _ h3]; exact h2
    · cases h3; exact h2
  split at h
  · simp at h
  · rename_i b3 h3
    have hb3 := key _ b3 (by split <;> rfl) h3
    split at h
    · simp at h
    · rename_i b4 h4
      cases h
      cases sk
      · simp only [Bool.false_eq_true, ↓reduceIte] at h4
        have hk := branchEnds_keeps im ord s _ _ _ h4
        refine ⟨fun hs => ?_, fun he => ?_, ?_⟩
        · have : s ≠ START := by simpa using hs
          show b4.startNodes = b.startNodes
          rw [hk.1 this]; exact ends_startNodes hb3
        · have : END ∉ ends := by simpa using he
          have : END ∉ ord.ends b3 ends := fun hh => this ((hv.ends b3 ends).mem_iff.mp hh)
          show b4.endNodes = b.endNodes
          rw [hk.2.1 this]; exact ends_endNodes hb3
        · show b4.flags = b.flags
          rw [hk.2.2]; exact ends_compiled hb3
      · simp only [↓reduceIte, Except.ok.injEq] at h4
        subst h4
        exact ⟨fun _ => ends_startNodes hb3, fun _ => ends_endNodes hb3, ends_compiled hb3⟩

theorem addBranch_keeps (f : Facts) (im : Impl) (ord : Ord) (hv : ord.Valid) (b : Builder) (s : Key) (t : Ty)
    (ends : List Key) (sk : Bool) :
    ((s == START && !sk) = false → (addBranch f im ord b s t ends sk).1.startNodes = b.startNodes) ∧
    ((ends.contains END && !sk) = false → (addBranch f im ord b s t ends sk).1.endNodes = b.endNodes) ∧
    (addBranch f im ord b s t ends sk).1.flags = b.flags := by
  unfold addBranch
  refine ⟨?_, ?_, ?_⟩
  · intro hs
    apply guarded_keeps _ _ _ (·.startNodes)
    · intro b' hb; exact (addBranchBody_keeps f im ord b b' s t ends sk hv hb).1 hs
    · intro k; rfl
  · intro he
    apply guarded_keeps _ _ _ (·.endNodes)
    · intro b' hb; exact (addBranchBody_keeps f im ord b b' s t ends sk hv hb).2.1 he
    · intro k; rfl
  · apply guarded_keeps _ _ _ (·.flags)
    · intro b' hb; exact (addBranchBody_keeps f im ord b b' s t ends sk hv hb).2.2
    · intro k; rfl

theorem addNode_compiled (f : Facts) (b : Builder) (n : NodeSpec) : (addNode f b n).1.flags = b.flags := by
  unfold addNode
  apply guarded_keeps _ _ _ (·.flags)
  · intro b' hb; split at hb <;> simp at hb; rw [← hb]
  · intro k; rfl

theorem compile_keeps (f : Facts) (ord : Ord) (b : Builder) (o : COpts) :
    (compile f ord b o).1.startNodes = b.startNodes ∧ (compile f ord b o).1.endNodes = b.endNodes := by
  unfold compile
  repeat' split
  all_goals (simp only [mutatePre, Builder.setCompiled]; repeat' split)
  all_goals first | exact ⟨rfl, rfl⟩ | simp

/-- a call that is not an entry edge leaves `startNodes` alone; likewise for exits -/
theorem step_keeps (f : Facts) (im : Impl) (ord : Ord) (hv : ord.Valid) (b : Builder) (op : Op) :
    (op.entry = false → (step f im ord b op).1.startNodes = b.startNodes) ∧
    (op.exit = false → (step f im ord b op).1.endNodes = b.endNodes) ∧
    (op.isCompile = false → (step f im ord b op).1.flags = b.flags) := by
  cases op with
  | node n => exact ⟨fun _ => (addNode_startNodes f b n).1, fun _ => (addNode_startNodes f b n).2,
                     fun _ => addNode_compiled f b n⟩
  | edge s e nc nd m =>
    have := addEdge_keeps f im ord b s e nc nd m
    exact ⟨fun h => this.1 (by simpa [Op.entry] using h), fun h => this.2.1 (by simpa [Op.exit] using h),
           fun _ => this.2.2⟩
  | branch s t ends sk =>
    have := addBranch_keeps f im ord hv b s t ends sk
    exact ⟨fun h => this.1 (by simpa [Op.entry] using h), fun h => this.2.1 (by simpa [Op.exit] using h),
           fun _ => this.2.2⟩
  | compile o => exact ⟨fun _ => (compile_keeps f ord b o).1, fun _ => (compile_keeps f ord b o).2,
                        fun h => by simp [Op.isCompile] at h⟩

theorem runK_keeps (E : Env) (hc : E.inCtl = true) (hv : E.ord.Valid) (ops : List Op) :
    ∀ b : Builder,
    ((∀ op ∈ ops, op.entry = false) → (runK E b ops).startNodes = b.startNodes) ∧
    ((∀ op ∈ ops, op.exit = false) → (runK E b ops).endNodes = b.endNodes) := by
  induction ops with
  | nil => intro b; exact ⟨fun _ => rfl, fun _ => rfl⟩
  | cons op ops ih =>
    intro b
    simp only [runK, stepK_true E hc]
    have h1 := step_keeps E.f E.im E.ord hv b op
    have h2 := ih (step E.f E.im E.ord b op).1
    refine ⟨fun h => ?_, fun h => ?_⟩
    · rw [h2.1 (fun o ho => h o (by simp [ho])), h1.1 (h op (by simp))]
    · rw [h2.2 (fun o ho => h o (by simp [ho])), h1.2.1 (h op (by simp))]

/-! ### compile with sub-graph nodes -/

theorem compilePost_ne_ok' (b : Builder) (ord : Ord) (o : COpts) (oc : Outcome)
    (h : compilePost b ord o = some oc) : oc.isOk = false := by
  unfold compilePost at h
  repeat' split at h
  all_goals simp_all
  all_goals (subst_vars; rfl)

/-- without an entry edge, or without an exit edge, Compile is never accepted -/
theorem compileN_no_ends (f : Facts) (ord : Ord) (b : Builder) (o : COpts) (kids : List Outcome)
    (h : b.startNodes = [] ∨ b.endNodes = []) : (compileN f ord b o kids).2.1.isOk = false := by
  unfold compileN
  split
  · rfl
  · have : ∃ k, compilePre f b o = some k := by
      unfold compilePre
      repeat' split
      all_goals first | exact ⟨_, rfl⟩ | (rcases h with h | h <;> simp_all)
    rcases this with ⟨k, hk⟩
    simp [hk, Outcome.isOk]

theorem asChild_isOk (oc : Outcome) : oc.asChild.isOk = oc.isOk := by
  cases oc <;> rfl

/-- a sub-graph that does not compile makes its parent's Compile fail -/
theorem compileN_kid_fails (f : Facts) (ord : Ord) (b : Builder) (o : COpts) (kids : List Outcome)
    (kid : Outcome) (hk : kid ∈ kids) (hf : kid.isOk = false) : (compileN f ord b o kids).2.1.isOk = false := by
  unfold compileN
  split
  · rfl
  · split
    · rfl
    · split
      · rename_i oc hfind
        have := List.find?_some hfind
        simp only [asChild_isOk]
        simpa using this
      · rename_i hfind
        have := List.find?_eq_none.mp hfind kid hk
        simp [hf] at this

/-- Go visits the sub-graph nodes in map order: whether Compile is accepted does not depend on it -/
theorem compileN_perm (f : Facts) (ord : Ord) (b : Builder) (o : COpts) (kids kids' : List Outcome)
    (hp : kids.Perm kids') : (compileN f ord b o kids).2.1.isOk = (compileN f ord b o kids').2.1.isOk := by
  by_cases hall : ∀ k ∈ kids, k.isOk = true
  · have hall' : ∀ k ∈ kids', k.isOk = true := fun k hk => hall k (hp.mem_iff.mpr hk)
    have e1 : kids.find? (fun oc => !oc.isOk) = none := by
      apply List.find?_eq_none.mpr; intro k hk; simp [hall k hk]
    have e2 : kids'.find? (fun oc => !oc.isOk) = none := by
      apply List.find?_eq_none.mpr; intro k hk; simp [hall' k hk]
    unfold compileN
    simp only [e1, e2]
  · have : ∃ k ∈ kids, k.isOk = false := by
      simp only [Classical.not_forall] at hall
      rcases hall with ⟨k, hk, hne⟩
      exact ⟨k, hk, by simpa using hne⟩
    rcases this with ⟨k, hk, hf⟩
    rw [compileN_kid_fails f ord b o kids k hk hf,
        compileN_kid_fails f ord b o kids' k (hp.mem_iff.mp hk) hf]

/-- a step limit on a graph that runs in all-predecessor mode – a Workflow always does – and a
    trigger mode on a Workflow or Chain are never accepted -/
theorem compileN_bad_options (f : Facts) (ord : Ord) (b : Builder) (o : COpts) (kids : List Outcome)
    (h : (isDag b o = true ∧ o.maxSteps > 0) ∨ ((b.cmp = .chain ∨ b.cmp = .workflow) ∧ o.trigger ≠ .unset)) :
    (compileN f ord b o kids).2.1.isOk = false := by
  unfold compileN
  split
  · rfl
  · split
    · rfl
    · rename_i hpre
      split
      · rename_i oc hfind
        have := List.find?_some hfind
        simp only [asChild_isOk]; simpa using this
      · rcases h with ⟨hd, hm⟩ | ⟨hcmp, ht⟩
        · have : ∃ oc, compilePost (mutatePre f b) ord o = some oc := by
            have hd' : isDag (mutatePre f b) o = true := by
              unfold mutatePre; split <;> simpa [isDag] using hd
            unfold compilePost
            repeat' split
            all_goals first | exact ⟨_, rfl⟩ | simp_all
          rcases this with ⟨oc, hoc⟩
          simp only [hoc]
          exact compilePost_ne_ok' _ _ _ _ hoc
        · exfalso
          unfold compilePre at hpre
          rcases hcmp with hcmp | hcmp <;> simp [hcmp, ht] at hpre

/-! ### declarations -/

def DOps.all (p : Op → Bool) : DOps → Bool
  | .nil => true
  | .op o rest => p o && DOps.all p rest
  | .sub _ _ _ rest => DOps.all p rest

/-- `AddGraphNode(key, child, WithGraphCompileOptions(co))` is one of the declaring calls -/
def DOps.hasSub (key : Key) (child : Decl) (co : COpts) : DOps → Prop
  | .nil => False
  | .op _ rest => DOps.hasSub key child co rest
  | .sub k c o rest => (k = key ∧ c = child ∧ o = co) ∨ DOps.hasSub key child co rest

theorem build_keeps (E : Env) (hc : E.inCtl = true) (hv : E.ord.Valid) :
    ∀ (ops : DOps) (b : Builder),
    (ops.all (fun o => !o.entry) = true → (DOps.build E ops b).1.startNodes = b.startNodes) ∧
    (ops.all (fun o => !o.exit) = true → (DOps.build E ops b).1.endNodes = b.endNodes) ∧
    (ops.all (fun o => !o.isCompile) = true → (DOps.build E ops b).1.flags = b.flags)
  | .nil, b => by simp [DOps.build]
  | .op o rest, b => by
    have h1 := step_keeps E.f E.im E.ord hv b o
    have h2 := build_keeps E hc hv rest (stepK E b o).1
    simp only [DOps.build, DOps.all, Bool.and_eq_true, Bool.not_eq_eq_eq_not, Bool.not_true]
    rw [stepK_true E hc] at h2 ⊢
    refine ⟨fun h => ?_, fun h => ?_, fun h => ?_⟩
    · rw [h2.1 h.2, h1.1 h.1]
    · rw [h2.2.1 h.2, h1.2.1 h.1]
    · rw [h2.2.2 h.2, h1.2.2 h.1]
  | .sub key child co rest, b => by
    have h2 := build_keeps E hc hv rest (addNode E.f b (subSpec key child.inT child.outT)).1
    have h1 := addNode_startNodes E.f b (subSpec key child.inT child.outT)
    have h3 := addNode_compiled E.f b (subSpec key child.inT child.outT)
    simp only [DOps.build, DOps.all]
    refine ⟨fun h => ?_, fun h => ?_, fun h => ?_⟩
    · rw [h2.1 h, h1.1]
    · rw [h2.2.1 h, h1.2]
    · rw [h2.2.2 h, h3]

theorem stepK_stored (E : Env) (hf : E.f.Guarded) (hc : E.inCtl = true) (b : Builder) (k : ErrKind)
    (h : b.buildError = some k) (op : Op) : (stepK E b op).1 = b := by
  rw [stepK_true E hc, step_stored E.f hf E.im E.ord b k h op]

theorem addNode_stored (f : Facts) (hf : f.Guarded) (b : Builder) (k : ErrKind) (h : b.buildError = some k)
    (n : NodeSpec) : addNode f b n = (b, .stored k) := by
  have hg : f.nodeG.checkErr = true := by rw [hf.node]; rfl
  unfold addNode; rw [guarded_stored _ hg b k h]

theorem build_err_sticks (E : Env) (hf : E.f.Guarded) (hc : E.inCtl = true) :
    ∀ (ops : DOps) (b : Builder) (k : ErrKind), b.buildError = some k → (DOps.build E ops b).1 = b
  | .nil, b, k, _ => rfl
  | .op o rest, b, k, h => by
    simp only [DOps.build, stepK_stored E hf hc b k h o]
    exact build_err_sticks E hf hc rest b k h
  | .sub key child co rest, b, k, h => by
    simp only [DOps.build, addNode_stored E.f hf b k h]
    exact build_err_sticks E hf hc rest b k h

/-- a declared sub-graph node either went into the list of graphs to compile, or its AddGraphNode
    failed and the error is kept -/
theorem build_sub (E : Env) (hf : E.f.Guarded) (hc : E.inCtl = true) (hv : E.ord.Valid)
    (key : Key) (child : Decl) (co : COpts) :
    ∀ (ops : DOps) (b : Builder), ops.all (fun o => !o.isCompile) = true → b.compiled = false →
      DOps.hasSub key child co ops →
      (DOps.build E ops b).1.buildError ≠ none ∨ Decl.first E child co ∈ (DOps.build E ops b).2
  | .nil, b, _, _, h => absurd h (by simp [DOps.hasSub])
  | .op o rest, b, ha, hcmp, hs => by
    simp only [DOps.all, Bool.and_eq_true, Bool.not_eq_eq_eq_not, Bool.not_true] at ha
    simp only [DOps.hasSub] at hs
    simp only [DOps.build]
    have h1 := (step_keeps E.f E.im E.ord hv b o).2.2 ha.1
    rw [← stepK_true E hc] at h1
    have h1' : (stepK E b o).1.compiled = b.compiled := congrArg Prod.fst h1
    exact build_sub E hf hc hv key child co rest _ (by simpa using ha.2) (by rw [h1']; exact hcmp) hs
  | .sub k c o rest, b, ha, hcmp, hs => by
    simp only [DOps.all] at ha
    simp only [DOps.build]
    have h3 : (addNode E.f b (subSpec k c.inT c.outT)).1.compiled = b.compiled :=
      congrArg Prod.fst (addNode_compiled E.f b (subSpec k c.inT c.outT))
    rcases hs with ⟨rfl, rfl, rfl⟩ | hs
    · -- this very node
      cases hr : (addNode E.f b (subSpec k c.inT c.outT)).2 with
      | ok => right; simp [Outcome.isOk]
      | fresh kk =>
        left
        have hst : E.f.nodeG.storeErr = true := by rw [hf.node]; rfl
        have := guarded_fresh_stores E.f.nodeG hst b _ kk (by unfold addNode at hr; exact hr)
        have hb : (addNode E.f b (subSpec k c.inT c.outT)).1.buildError = some kk := by
          unfold addNode; exact this
        rw [build_err_sticks E hf hc rest _ kk hb, hb]; simp
      | stored kk =>
        left
        have hb : b.buildError ≠ none := by
          intro hn
          unfold addNode guarded at hr
          simp only [hn, ite_self] at hr
          split at hr
          · simp at hr
          · split at hr <;> simp at hr
        cases hbe : b.buildError with
        | none => exact absurd hbe hb
        | some k0 =>
          rw [addNode_stored E.f hf b k0 hbe, build_err_sticks E hf hc rest b k0 hbe, hbe]; simp
      | compiled =>
        exfalso
        unfold addNode guarded at hr
        split at hr
        · simp at hr
        · simp only [hcmp, Bool.and_false, Bool.false_eq_true, ↓reduceIte] at hr
          split at hr <;> simp at hr
      | panic =>
        exfalso
        unfold addNode guarded at hr
        split at hr
        · simp at hr
        · split at hr
          · simp at hr
          · split at hr <;> simp at hr
    · rcases build_sub E hf hc hv key child co rest _ ha (by rw [h3]; exact hcmp) hs with h | h
      · left; exact h
      · right
        split
        · simp [h]
        · exact h

theorem compileN_keeps (f : Facts) (ord : Ord) (b : Builder) (o : COpts) (kids : List Outcome) :
    (compileN f ord b o kids).1.startNodes = b.startNodes ∧ (compileN f ord b o kids).1.endNodes = b.endNodes := by
  unfold compileN
  repeat' split
  all_goals (simp only [mutatePre, Builder.setCompiled]; repeat' split)
  all_goals first | exact ⟨rfl, rfl⟩ | simp

/-- one Compile of a declared graph that has no entry edge (or no exit edge) and gets none from
    the calls this Compile replays: refused, and the lists stay empty -/
theorem attempt_no_ends (E : Env) (hc : E.inCtl = true) (hv : E.ord.Valid) (b : Builder) (calls : List Op)
    (guard : Option Outcome) (o : COpts) (kids : List Outcome)
    (hg : ∀ oc, guard = some oc → oc.isOk = false)
    (h : (b.startNodes = [] ∧ ∀ op ∈ calls, op.entry = false) ∨ (b.endNodes = [] ∧ ∀ op ∈ calls, op.exit = false)) :
    (attempt E b calls guard o kids).2.isOk = false ∧
    (b.startNodes = [] → (∀ op ∈ calls, op.entry = false) → (attempt E b calls guard o kids).1.startNodes = []) ∧
    (b.endNodes = [] → (∀ op ∈ calls, op.exit = false) → (attempt E b calls guard o kids).1.endNodes = []) := by
  unfold attempt
  split
  · exact ⟨rfl, fun h _ => h, fun h _ => h⟩
  · split
    · rename_i oc; exact ⟨hg oc rfl, fun h _ => h, fun h _ => h⟩
    · have hk := runK_keeps E hc hv calls b
      have hcn := compileN_keeps E.f E.ord (runK E b calls) o kids
      refine ⟨?_, fun h0 hc0 => ?_, fun h0 hc0 => ?_⟩
      · apply compileN_no_ends
        rcases h with ⟨h0, hc0⟩ | ⟨h0, hc0⟩
        · left; rw [hk.1 hc0]; exact h0
        · right; rw [hk.2 hc0]; exact h0
      · show (compileN E.f E.ord (runK E b calls) o kids).1.startNodes = []
        rw [hcn.1, hk.1 hc0]; exact h0
      · show (compileN E.f E.ord (runK E b calls) o kids).1.endNodes = []
        rw [hcn.2, hk.2 hc0]; exact h0

theorem compilesFrom_no_entry (E : Env) (hc : E.inCtl = true) (hv : E.ord.Valid) (re : List Op)
    (guard : Option Outcome) (kids : List Outcome) (hg : ∀ oc, guard = some oc → oc.isOk = false)
    (hre : ∀ op ∈ re, op.entry = false) (cos : List COpts) :
    ∀ (b : Builder) (pending : List Op), b.startNodes = [] → (∀ op ∈ pending, op.entry = false) →
      ∀ r ∈ compilesFrom E re guard kids b pending cos, r.1.isOk = false := by
  induction cos with
  | nil => intro b p _ _ r hr; simp [compilesFrom] at hr
  | cons co rest ih =>
    intro b pending hb hp r hr
    have hcalls : ∀ op ∈ re ++ pending, op.entry = false := by
      intro op hop; rcases List.mem_append.mp hop with h | h
      · exact hre op h
      · exact hp op h
    have ha := attempt_no_ends E hc hv b (re ++ pending) guard co kids hg (Or.inl ⟨hb, hcalls⟩)
    simp only [compilesFrom, List.mem_cons] at hr
    rcases hr with rfl | hr
    · exact ha.1
    · refine ih _ _ (ha.2.1 hb hcalls) ?_ r hr
      intro op hop; split at hop
      · simp at hop
      · exact hp op hop

theorem compilesFrom_no_exit (E : Env) (hc : E.inCtl = true) (hv : E.ord.Valid) (re : List Op)
    (guard : Option Outcome) (kids : List Outcome) (hg : ∀ oc, guard = some oc → oc.isOk = false)
    (hre : ∀ op ∈ re, op.exit = false) (cos : List COpts) :
    ∀ (b : Builder) (pending : List Op), b.endNodes = [] → (∀ op ∈ pending, op.exit = false) →
      ∀ r ∈ compilesFrom E re guard kids b pending cos, r.1.isOk = false := by
  induction cos with
  | nil => intro b p _ _ r hr; simp [compilesFrom] at hr
  | cons co rest ih =>
    intro b pending hb hp r hr
    have hcalls : ∀ op ∈ re ++ pending, op.exit = false := by
      intro op hop; rcases List.mem_append.mp hop with h | h
      · exact hre op h
      · exact hp op h
    have ha := attempt_no_ends E hc hv b (re ++ pending) guard co kids hg (Or.inr ⟨hb, hcalls⟩)
    simp only [compilesFrom, List.mem_cons] at hr
    rcases hr with rfl | hr
    · exact ha.1
    · refine ih _ _ (ha.2.2 hb hcalls) ?_ r hr
      intro op hop; split at hop
      · simp at hop
      · exact hp op hop

theorem runK_flags (E : Env) (hc : E.inCtl = true) (hv : E.ord.Valid) (ops : List Op) :
    ∀ b : Builder, (∀ op ∈ ops, op.isCompile = false) → (runK E b ops).flags = b.flags := by
  induction ops with
  | nil => intro b _; rfl
  | cons op ops ih =>
    intro b h
    simp only [runK, stepK_true E hc]
    rw [ih _ (fun o ho => h o (by simp [ho])), (step_keeps E.f E.im E.ord hv b op).2.2 (h op (by simp))]

/-- a Workflow never accepts a step limit or a trigger mode -/
theorem attempt_bad_options (E : Env) (hc : E.inCtl = true) (hv : E.ord.Valid) (b : Builder) (calls : List Op)
    (guard : Option Outcome) (o : COpts) (kids : List Outcome)
    (hg : ∀ oc, guard = some oc → oc.isOk = false) (hw : b.cmp = .workflow)
    (hcalls : ∀ op ∈ calls, op.isCompile = false) (ho : o.maxSteps > 0 ∨ o.trigger ≠ .unset) :
    (attempt E b calls guard o kids).2.isOk = false := by
  unfold attempt
  split
  · rfl
  · split
    · rename_i oc; exact hg oc rfl
    · have hfl : (runK E b calls).cmp = .workflow := by
        have := congrArg Prod.snd (runK_flags E hc hv calls b hcalls)
        simp only at this; rw [this]; exact hw
      apply compileN_bad_options
      rcases ho with ho | ho
      · left; exact ⟨by simp [isDag, hfl], ho⟩
      · right; exact ⟨Or.inr hfl, ho⟩

/-! ### the Workflow API -/

theorem wfNodeOps_all (p : Op → Bool) (hp : ∀ n, p (.node n) = true) (ns : List WfNode) :
    (wfNodeOps ns).all p = true := by
  induction ns with
  | nil => rfl
  | cons n ns ih =>
    unfold wfNodeOps
    split <;> simp [DOps.all, hp, ih]

theorem wf_guard_not_ok (chk : Bool) (d : WfDecl) : ∀ oc, d.guard chk = some oc → oc.isOk = false := by
  intro oc h
  unfold WfDecl.guard at h
  split at h
  · simp only [Option.some.injEq] at h; rw [← h]; split <;> rfl
  · simp at h

theorem wf_branchOps_entry (d : WfDecl) : ∀ op ∈ d.branchOps, op.entry = false ∧ op.exit = false := by
  intro op hop
  simp only [WfDecl.branchOps, List.mem_map] at hop
  rcases hop with ⟨br, _, rfl⟩
  simp [Op.entry, Op.exit]

theorem wf_inputOps_entry (d : WfDecl)
    (h : ∀ n ∈ d.nodes, ∀ i ∈ n.ins, i.src = START → i.kind = .indirect)
    (hE : ∀ i ∈ d.endIns, i.src = START → i.kind = .indirect) :
    ∀ op ∈ d.inputOps, op.entry = false := by
  intro op hop
  simp only [WfDecl.inputOps, List.mem_append, List.mem_flatMap, List.mem_map] at hop
  rcases hop with ⟨n, hn, i, hi, rfl⟩ | ⟨i, hi, rfl⟩
  · simp only [WfIn.op, Op.entry, Bool.and_eq_false_imp, beq_iff_eq]
    intro hs; simp [h n hn i hi hs]
  · simp only [WfIn.op, Op.entry, Bool.and_eq_false_imp, beq_iff_eq]
    intro hs; simp [hE i hi hs]

theorem wf_inputOps_exit (d : WfDecl) (h : ∀ n ∈ d.nodes, n.key ≠ END)
    (hE : ∀ i ∈ d.endIns, i.kind = .indirect) : ∀ op ∈ d.inputOps, op.exit = false := by
  intro op hop
  simp only [WfDecl.inputOps, List.mem_append, List.mem_flatMap, List.mem_map] at hop
  rcases hop with ⟨n, hn, i, hi, rfl⟩ | ⟨i, hi, rfl⟩
  · simp [WfIn.op, Op.exit, h n hn]
  · simp [WfIn.op, Op.exit, hE i hi]

theorem wf_calls_noCompile (d : WfDecl) : ∀ op ∈ d.branchOps ++ d.inputOps, op.isCompile = false := by
  intro op hop
  simp only [WfDecl.inputOps, WfDecl.branchOps, List.mem_append, List.mem_flatMap, List.mem_map] at hop
  rcases hop with ⟨br, _, rfl⟩ | ⟨n, _, i, _, rfl⟩ | ⟨i, _, rfl⟩ <;> simp [WfIn.op, Op.isCompile]

/-! ### the order in which `Workflow.compile` replays the recorded inputs -/

theorem map_range_getD {α : Type} (l : List α) (d : α) :
    (List.range l.length).map (fun i => (l[i]?).getD d) = l := by
  apply List.ext_getElem
  · simp
  · intro i h1 h2
    simp at h1
    simp [h1]

theorem inputOpsBy_declared (d : WfDecl) :
    d.inputOpsBy (List.range (d.nodes.length + 1)) = d.inputOps := by
  have hl : d.groups.length = d.nodes.length + 1 := by simp [WfDecl.groups]
  unfold WfDecl.inputOpsBy
  rw [← hl, List.flatMap_def, map_range_getD]
  simp [WfDecl.groups, WfDecl.inputOps, List.flatMap_def]

theorem lowerBy_declared (chk : Bool) (d : WfDecl) :
    d.lowerBy chk (List.range (d.nodes.length + 1)) = d.lower chk := by
  simp [WfDecl.lowerBy, WfDecl.lower, inputOpsBy_declared]

end EinoV.Build
