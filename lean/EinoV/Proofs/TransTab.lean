import EinoV.Gen.TransTab
import EinoV.Proofs.GoLoop
import EinoV.Proofs.TransDag
import EinoV.Proofs.Assoc
import EinoV.Model.GraphBuild
import EinoV.Proofs.TransStep
import EinoV.Proofs.TransMgrInit
namespace EinoV.TransTab
open EinoV.GoSem EinoV.Engine EinoV.Gen.TransMgr EinoV.Gen.TransTab EinoV.TransMgr
open EinoV.TransStep (ListRel)
variable {V : Type} [Inhabited V]
set_option linter.unusedSectionVars false
set_option linter.unusedSimpArgs false

theorem ite_yield {β : Type} (c : Prop) [Decidable c] (a b : β) :
    (if c then ForInStep.yield a else ForInStep.yield b) = ForInStep.yield (if c then a else b) := by
  split <;> rfl

theorem ite_yield_id {β : Type} (c : Prop) [Decidable c] (a b : β) :
    (if c then (ForInStep.yield a : Id (ForInStep β)) else (ForInStep.yield b : Id (ForInStep β))) = (ForInStep.yield (if c then a else b) : Id (ForInStep β)) := by
  split <;> rfl

theorem ite_pair {α β : Type} (c : Prop) [Decidable c] (a1 a2 : α) (b1 b2 : β) :
    (if c then (a1, b1) else (a2, b2)) = (if c then a1 else a2, if c then b1 else b2) := by
  split <;> rfl

/-- `if _, ok := m[e]; !ok { m[e] = []string{s} } else { m[e] = append(m[e], s) }` is the model's `addPred` -/
theorem pred_step (m : GoMap (List String)) (e s : String) :
    (if (!m.has e) = true then m.set e [s] else m.set e (m.getD' e [] ++ [s])) = addPred m e s := by
  unfold addPred GoMap.set GoMap.getD' GoMap.has
  cases h : alookup e m <;> simp

theorem foldl_pair {α β γ : Type} (f : α → γ → α) (g : β → γ → β) (l : List γ) (a : α) (b : β) :
    l.foldl (fun (s : α × β) x => (f s.1 x, g s.2 x)) (a, b) = (l.foldl f a, l.foldl g b) := by
  induction l generalizing a b with
  | nil => rfl
  | cons x l ih => simp [ih]

theorem goLoop_yield' {α β : Type} (g : β → α → β) (l : List α) (b : β) :
    goLoop (fun a s => ForInStep.yield (g s a)) l b = l.foldl g b :=
  goLoop_fold id _ g (fun a b => ⟨g b a, rfl, rfl⟩) l b



/-- the body of the end-node loop of the branch part, as it is generated -/
def endsBody (start : String) (nd : Bool) (x : String × Bool) (__s : GoMap (List String) × GoMap (List String)) :
    ForInStep (GoMap (List String) × GoMap (List String)) :=
  if (!__s.snd.has x.fst) = true then
    if (!nd) = true then
      if (!__s.fst.has x.fst) = true then
        ForInStep.yield (__s.fst.set x.fst [start], __s.snd.set x.fst [start])
      else
        ForInStep.yield (__s.fst.set x.fst (__s.fst.getD' x.fst [] ++ [start]), __s.snd.set x.fst [start])
    else ForInStep.yield (__s.fst, __s.snd.set x.fst [start])
  else
    if (!nd) = true then
      if (!__s.fst.has x.fst) = true then
        ForInStep.yield (__s.fst.set x.fst [start], __s.snd.set x.fst (__s.snd.getD' x.fst [] ++ [start]))
      else
        ForInStep.yield (__s.fst.set x.fst (__s.fst.getD' x.fst [] ++ [start]),
          __s.snd.set x.fst (__s.snd.getD' x.fst [] ++ [start]))
    else ForInStep.yield (__s.fst, __s.snd.set x.fst (__s.snd.getD' x.fst [] ++ [start]))

theorem endsBody_eq (start : String) (nd : Bool) (x : String × Bool) (d c : GoMap (List String)) :
    endsBody start nd x (d, c) = ForInStep.yield (if nd then d else addPred d x.1 start, addPred c x.1 start) := by
  have h1 := pred_step d x.1 start
  have h2 := pred_step c x.1 start
  unfold endsBody
  cases nd <;> by_cases hc : c.has x.1 = true <;> by_cases hd : d.has x.1 = true <;>
    simp only [hc, hd, Bool.not_true, Bool.not_false, Bool.false_eq_true, if_true, if_false] at h1 h2 ⊢ <;>
    simp only [h1, h2]

/-- the end-node loop of the branch part: both tables, the data table only when the branch carries data -/
theorem ends_loop (start : String) (nd : Bool) (ends : GoMap Bool) : ∀ (d c : GoMap (List String)),
    goLoop (endsBody start nd) ends (d, c)
    = (if nd then d else (akeys ends).foldl (fun m e => addPred m e start) d,
       (akeys ends).foldl (fun m e => addPred m e start) c) := by
  induction ends with
  | nil => intro d c; cases nd <;> rfl
  | cons p ends ih =>
    intro d c
    simp only [goLoop, endsBody_eq, ih, akeys, List.map_cons, List.foldl_cons]
    cases nd <;> rfl

theorem endsBody_fold (start : String) (nd : Bool) :
    (fun (x : String × Bool) (__s : GoMap (List String) × GoMap (List String)) =>
        if (!__s.snd.has x.fst) = true then
          if (!nd) = true then
            if (!__s.fst.has x.fst) = true then
              ForInStep.yield (__s.fst.set x.fst [start], __s.snd.set x.fst [start])
            else
              ForInStep.yield (__s.fst.set x.fst (__s.fst.getD' x.fst [] ++ [start]), __s.snd.set x.fst [start])
          else ForInStep.yield (__s.fst, __s.snd.set x.fst [start])
        else
          if (!nd) = true then
            if (!__s.fst.has x.fst) = true then
              ForInStep.yield (__s.fst.set x.fst [start], __s.snd.set x.fst (__s.snd.getD' x.fst [] ++ [start]))
            else
              ForInStep.yield (__s.fst.set x.fst (__s.fst.getD' x.fst [] ++ [start]),
                __s.snd.set x.fst (__s.snd.getD' x.fst [] ++ [start]))
          else ForInStep.yield (__s.fst, __s.snd.set x.fst (__s.snd.getD' x.fst [] ++ [start])))
      = endsBody start nd := rfl


theorem edge_loop (start : String) (ends : List String) : ∀ (m : GoMap (List String)),
    goLoop (fun (e : String) (__s : GoMap (List String)) =>
        if (!__s.has e) = true then ForInStep.yield (__s.set e [start])
        else ForInStep.yield (__s.set e (__s.getD' e [] ++ [start]))) ends m
    = ends.foldl (fun m e => addPred m e start) m := by
  induction ends with
  | nil => intro m; rfl
  | cons e ends ih =>
    intro m
    have h := pred_step m e start
    simp only [goLoop, List.foldl_cons]
    by_cases hm : m.has e = true <;>
      simp only [hm, Bool.not_true, Bool.not_false, Bool.false_eq_true, if_true, if_false] at h ⊢ <;>
      rw [h, ih]

/-- the edges of a Go edge map `start ↦ ends`, in stored order -/
def flatEdges (m : GoMap (List String)) : List (Key × Key) := m.flatMap (fun p => p.2.map (fun e => (p.1, e)))

/-- the branches of a Go branch map `start ↦ branches`, in stored order -/
def flatBranches (m : GoMap (List (GraphBranch V))) : List (Key × GraphBranch V) :=
  m.flatMap (fun p => p.2.map (fun b => (p.1, b)))

theorem foldl_flatEdges (m : GoMap (List String)) (t : GoMap (List String)) :
    m.foldl (fun s a => a.2.foldl (fun m e => addPred m e a.1) s) t
      = (flatEdges m).foldl (fun m e => addPred m e.2 e.1) t := by
  unfold flatEdges
  induction m generalizing t with
  | nil => rfl
  | cons p m ih => simp only [List.foldl_cons, List.flatMap_cons, List.foldl_append, List.foldl_map, ih]

theorem foldl_flatBranches {σ : Type} (f : σ → Key → GraphBranch V → σ) (m : GoMap (List (GraphBranch V))) (t : σ) :
    m.foldl (fun s a => a.2.foldl (fun s b => f s a.1 b) s) t
      = (flatBranches m).foldl (fun s b => f s b.1 b.2) t := by
  unfold flatBranches
  induction m generalizing t with
  | nil => rfl
  | cons p m ih => simp only [List.foldl_cons, List.flatMap_cons, List.foldl_append, List.foldl_map, ih]

/-- **the predecessor fragment of `graph.compile`** computes, from the Go maps in their stored order, the
    folds of the model's `compile` over the flattened edge / branch lists -/
theorem compile_predecessors_spec (ext : Ext V) (mext : MgrExt V) (g : graph V) :
    graph_compile_predecessors ext mext g =
      ((flatBranches g.branches).foldl (fun m b =>
          if b.2.noDataFlow then m else (akeys b.2.endNodes).foldl (fun m e => addPred m e b.1) m)
        ((flatEdges g.dataEdges).foldl (fun m e => addPred m e.2 e.1) []),
       (flatBranches g.branches).foldl (fun m b => (akeys b.2.endNodes).foldl (fun m e => addPred m e b.1) m)
        ((flatEdges g.controlEdges).foldl (fun m e => addPred m e.2 e.1) [])) := by
  unfold graph_compile_predecessors
  simp only [forIn_id, Id.run, bind, pure, endsBody_fold, ends_loop, goLoop_yield', edge_loop]
  rw [foldl_flatEdges, foldl_flatEdges]
  generalize (flatEdges g.dataEdges).foldl (fun m e => addPred m e.2 e.1) [] = d0
  generalize (flatEdges g.controlEdges).foldl (fun m e => addPred m e.2 e.1) [] = c0
  have key : ∀ (l : List (Key × GraphBranch V)) (d c : GoMap (List String)),
      l.foldl (fun (s : GoMap (List String) × GoMap (List String)) b =>
        ((if b.2.noDataFlow = true then s.1 else (akeys b.2.endNodes).foldl (fun m e => addPred m e b.1) s.1),
         (akeys b.2.endNodes).foldl (fun m e => addPred m e b.1) s.2)) (d, c)
      = (l.foldl (fun m b => if b.2.noDataFlow then m else (akeys b.2.endNodes).foldl (fun m e => addPred m e b.1) m) d,
         l.foldl (fun m b => (akeys b.2.endNodes).foldl (fun m e => addPred m e b.1) m) c) := by
    intro l
    induction l with
    | nil => intro d c; rfl
    | cons b l ih => intro d c; simp only [List.foldl_cons, ih]
  have := foldl_flatBranches (V := V) (fun (s : GoMap (List String) × GoMap (List String)) k b =>
      ((if b.noDataFlow = true then s.1 else (akeys b.endNodes).foldl (fun m e => addPred m e k) s.1),
       (akeys b.endNodes).foldl (fun m e => addPred m e k) s.2)) g.branches (d0, c0)
  rw [← key, ← this]
/-- a translated `(start, *GraphBranch)` and the model's `(from, Branch)`: same source, the end nodes in the
    map's stored order, the data-flow flag -/
def BrTabRel (p : Key × GraphBranch V) (q : Key × Branch V) : Prop :=
  p.1 = q.1 ∧ q.2.ends = akeys p.2.endNodes ∧ q.2.noData = p.2.noDataFlow

theorem foldl_listRel {α β σ : Type} (R : α → β → Prop) (f : σ → α → σ) (g : σ → β → σ)
    (h : ∀ s a b, R a b → f s a = g s b) (l : List α) (l' : List β) (hr : ListRel R l l') (s : σ) :
    l.foldl f s = l'.foldl g s := by
  induction hr generalizing s with
  | nil => rfl
  | cons hab _ ih => simp only [List.foldl_cons, h _ _ _ hab, ih]

/-- **the fragment computes the model's predecessor tables**: for a graph definition whose edge list is the
    flattened control-edge map and the flattened data-edge map (AddEdge records both) and whose branch list
    is the flattened branch map — each in the stored order of the Go maps — the translated statements of
    `graph.compile` return exactly `dataPreds` and `ctrlPreds` of the model's `compile` -/
theorem compile_predecessors_model (ext : Ext V) (mext : MgrExt V) (slack : Nat) (gd : GraphDef V) (g : graph V)
    (hce : flatEdges g.controlEdges = gd.edges) (hde : flatEdges g.dataEdges = gd.edges)
    (hbr : ListRel BrTabRel (flatBranches g.branches) gd.branches) :
    graph_compile_predecessors ext mext g = ((compile slack gd).dataPreds, (compile slack gd).ctrlPreds) := by
  rw [compile_predecessors_spec, hce, hde]
  unfold compile
  simp only
  congr 1
  · exact foldl_listRel BrTabRel _ _ (by
      intro s a b hab
      obtain ⟨h1, h2, h3⟩ := hab
      simp only [h1, h2, h3]) _ _ hbr _
  · exact foldl_listRel BrTabRel _ _ (by
      intro s a b hab
      obtain ⟨h1, h2, h3⟩ := hab
      simp only [h1, h2]) _ _ hbr _

/-! ### `getSuccessors` -/

theorem goCopy_make (src : List String) : goCopy (goMake (src.length : Int) "") src = src := by
  simp [goCopy, goMake]

theorem getSuccessors_spec (ext : Ext V) (mext : MgrExt V) (c : chanCall V) :
    getSuccessors ext mext c = .ret (c.writeTo ++ c.controls ++ c.writeToBranches.flatMap (fun b => akeys b.endNodes)) := by
  unfold getSuccessors
  have hlt : ¬ ((c.writeTo.length : Int) < 0) := by omega
  simp only [forIn_id, Id.run, bind, pure, hlt, decide_false, Bool.false_eq_true, if_false, goCopy_make, goLoop_yield']
  congr 1
  generalize c.writeTo ++ c.controls = acc
  induction c.writeToBranches generalizing acc with
  | nil => simp
  | cons b bs ih =>
    simp only [List.foldl_cons, List.flatMap_cons, ih]
    have : ∀ (l : GoMap Bool) (a : List String), l.foldl (fun s (x : String × Bool) => s ++ [x.1]) a = a ++ akeys l := by
      intro l; induction l with
      | nil => intro a; simp [akeys]
      | cons p l ihl => intro a; simp [akeys, ihl] at *
    rw [this]; simp

/-! ### the channel builders: the initial channel state is the model's `Chan.init` -/

theorem eq_map_const {α : Type} (v : α) (m : List (Key × α)) (hv : ∀ p ∈ m, p.2 = v) :
    m = (akeys m).map (fun k => (k, v)) := by
  induction m with
  | nil => rfl
  | cons p m ih =>
    simp only [akeys, List.map_cons] at ih ⊢
    rw [← ih (fun q hq => hv q (List.mem_cons_of_mem _ hq))]
    have h := hv p List.mem_cons_self
    obtain ⟨a, b⟩ := p
    simp only at h
    rw [h]

theorem foldl_aset_const {α : Type} (v : α) (l : List Key) : ∀ (m : List (Key × α)), (akeys m).Nodup →
    (∀ p ∈ m, p.2 = v) →
    l.foldl (fun m k => aset k v m) m = ((akeys m ++ l).eraseDups).map (fun k => (k, v)) := by
  induction l with
  | nil =>
    intro m hn hv
    rw [List.foldl_nil, List.append_nil, TransStep.eraseDups_of_nodup _ hn]
    exact eq_map_const v m hv
  | cons k l ih =>
    intro m hn hv
    have hk := akeys_aset k v m
    have hn' : (akeys (aset k v m)).Nodup := nodup_akeys_aset k v m hn
    have hv' : ∀ p ∈ aset k v m, p.2 = v := by
      intro p hp
      rcases TransStep.mem_aset k v m p hp with h | h
      · exact hv p h
      · rw [h]
    rw [List.foldl_cons, ih _ hn' hv', hk]
    congr 1
    split
    · rename_i hin
      rw [List.eraseDups_append, List.eraseDups_append]
      congr 2
      simp [List.removeAll, hin]
    · simp

theorem dagChannelBuilder_spec (ext : Ext V) (mext : MgrExt V) (cp dp : List String) :
    dagChannelBuilder ext mext cp dp = ofChanR true (Chan.init true cp dp) := by
  unfold dagChannelBuilder ofChanR Chan.init TransDag.ofChan
  simp only [forIn_id, Id.run, bind, pure, goLoop_yield', if_true]
  have h1 := foldl_aset_const Dep.waiting cp [] (by simp [akeys]) (by simp)
  have h2 := foldl_aset_const false dp [] (by simp [akeys]) (by simp)
  simp only [akeys, List.map_nil, List.nil_append] at h1 h2
  simp only [GoMap.set, h1, h2]

theorem pregelChannelBuilder_spec (ext : Ext V) (mext : MgrExt V) (cp dp : List String) :
    pregelChannelBuilder ext mext cp dp = ofChanR false (Chan.init false cp dp) := by
  unfold pregelChannelBuilder ofChanR Chan.init
  simp [Id.run, pure]

/-- the builder compile stores for a runner of kind `dag` (nil stands for the pregel builder) -/
def builderOK (dag : Bool) (b : chanBuilder) : Prop :=
  (dag = true → b = .of_dagChannelBuilder) ∧ (dag = false → b ≠ .of_dagChannelBuilder)

theorem builder_call (ext : Ext V) (mext : MgrExt V) (dag : Bool) (b : chanBuilder) (h : builderOK dag b)
    (cp dp : List String) :
    chanBuilder_call ext mext (if (b == chanBuilder.nil) = true then chanBuilder.of_pregelChannelBuilder else b) cp dp
      = some (ofChanR dag (Chan.init dag cp dp)) := by
  cases dag with
  | true => rw [h.1 rfl]; simp [chanBuilder_call, dagChannelBuilder_spec]
  | false =>
    have := h.2 rfl
    cases b with
    | nil => simp [chanBuilder_call, pregelChannelBuilder_spec]
    | of_dagChannelBuilder => exact absurd rfl this
    | of_pregelChannelBuilder => simp [chanBuilder_call, pregelChannelBuilder_spec]

/-! ### `initChannelManager` builds the manager `initMgr` -/

abbrev IO (V : Type) := Option (GoOutcome (channelManager V))

theorem chs_loop (F : Key → channel V) (body : String × chanCall V → IO V × GoMap (channel V) → ForInStep (IO V × GoMap (channel V)))
    (hbody : ∀ x acc, body x (none, acc) = ForInStep.yield (none, acc.set x.1 (F x.1))) :
    ∀ (l : GoMap (chanCall V)) acc, goLoop body l (none, acc) = (none, (akeys l).foldl (fun m k => m.set k (F k)) acc) := by
  intro l
  induction l with
  | nil => intro acc; rfl
  | cons p l ih => intro acc; simp only [goLoop, hbody, ih, akeys, List.map_cons, List.foldl_cons]

theorem set_inner_loop (k : String) (vs : List String) : ∀ (s0 : GoMap Unit) (acc : GoMap (GoMap Unit)),
    goLoop (fun (v : String) (__s : IO V × GoMap (GoMap Unit)) =>
        if (!__s.snd.has k) = true then ForInStep.done (some GoOutcome.panic, __s.snd)
        else ForInStep.yield (none, __s.snd.set k ((__s.snd.getD' k []).set v ())))
      vs (none, acc.set k s0) = (none, acc.set k (vs.foldl (fun m v => m.set v ()) s0)) := by
  induction vs with
  | nil => intro s0 acc; rfl
  | cons v vs ih =>
    intro s0 acc
    have hh : (acc.set k s0).has k = true := by simp [GoMap.has, GoMap.set, alookup_aset_same]
    have hg : (acc.set k s0).getD' k [] = s0 := by simp [GoMap.getD', GoMap.set, alookup_aset_same]
    have hs : (acc.set k s0).set k (s0.set v ()) = acc.set k (s0.set v ()) := by
      simp [GoMap.set, TransStep.aset_aset]
    simp only [goLoop, hh, Bool.not_true, Bool.false_eq_true, if_false, hg, hs, List.foldl_cons]
    exact ih _ _

theorem sets_loop (body : String × List String → IO V × GoMap (GoMap Unit) → ForInStep (IO V × GoMap (GoMap Unit)))
    (hbody : ∀ x acc, body x (none, acc) = ForInStep.yield (none, acc.set x.1 (mkSet x.2))) :
    ∀ (l : GoMap (List String)) acc, goLoop body l (none, acc) = (none, l.foldl (fun m p => m.set p.1 (mkSet p.2)) acc) := by
  intro l
  induction l with
  | nil => intro acc; rfl
  | cons p l ih => intro acc; simp only [goLoop, hbody, ih, List.foldl_cons]

theorem foldl_set_fresh {α β : Type} (f : Key × α → β) (l : List (Key × α)) : ∀ (acc : GoMap β),
    (akeys l).Nodup → (∀ k ∈ akeys l, k ∉ akeys acc) →
    l.foldl (fun m p => m.set p.1 (f p)) acc = acc ++ l.map (fun p => (p.1, f p)) := by
  induction l with
  | nil => intro acc _ _; simp
  | cons p l ih =>
    intro acc hn hd
    simp only [akeys, List.map_cons, List.nodup_cons, List.mem_cons, forall_eq_or_imp] at hn hd
    have e : acc.set p.1 (f p) = acc ++ [(p.1, f p)] := aset_append_new p.1 (f p) acc hd.1
    rw [List.foldl_cons, e, ih _ hn.2 (by
      intro k hk
      simp only [akeys, List.map_append, List.map_cons, List.map_nil, List.mem_append, List.mem_singleton, not_or]
      exact ⟨hd.2 k hk, fun e' => hn.1 (e' ▸ hk)⟩)]
    simp

/-- the translated runner's tables are the model runner's (what `graph.compile` stores; the stored order of
    the Go maps is the model's list order) -/
structure TabRel (gr : runner V) (r : Runner V) : Prop where
  keys : akeys gr.chanSubscribeTo = r.nodes.map (·.key)
  succ : gr.successors = r.nodes.map (fun n => (n.key, n.successors))
  data : gr.dataPredecessors = r.dataPreds
  ctrl : gr.controlPredecessors = r.ctrlPreds
  builder : builderOK r.dag gr.chanBuilder

theorem foldl_set_keys {β : Type} (F : Key → β) (ks : List Key) (acc : GoMap β)
    (hn : ks.Nodup) (hd : ∀ k ∈ ks, k ∉ akeys acc) :
    ks.foldl (fun m k => m.set k (F k)) acc = acc ++ ks.map (fun k => (k, F k)) := by
  have := foldl_set_fresh (fun (p : Key × Unit) => F p.1) (ks.map (fun k => (k, ()))) acc
    (by simpa [akeys, List.map_map, Function.comp_def] using hn)
    (by simpa [akeys, List.map_map, Function.comp_def] using hd)
  simpa [List.foldl_map, List.map_map, Function.comp_def] using this

/-- **`initChannelManager` builds the manager `initMgr r s`**: for a translated runner whose tables are the
    model runner's (`TabRel`), with distinct node keys different from END and one entry per key in the
    predecessor tables (they are Go maps), the translated function does not panic and returns exactly the
    manager the theorems of phases 2 and 4 are stated for — the channels are built by the translated
    `dagChannelBuilder` / `pregelChannelBuilder`, not by a model -/
theorem initChannelManager_is_initMgr (ext : Ext V) (mext : MgrExt V) (gr : runner V) (r : Runner V) (s : Bool)
    (h : TabRel gr r) (hnd : (akeys (initChans r)).Nodup)
    (hdk : (akeys r.dataPreds).Nodup) (hck : (akeys r.ctrlPreds).Nodup) :
    runner_initChannelManager ext mext gr s = .ret (initMgr r s) := by
  unfold runner_initChannelManager
  simp only [forIn_id, Id.run, bind, pure]
  have hcall := builder_call ext mext r.dag gr.chanBuilder h.builder
  have hkeys : akeys (initChans r) = r.nodes.map (·.key) ++ [END] := by
    simp [initChans, akeys, List.map_map, Function.comp_def]
  rw [hkeys] at hnd
  have hnk : (r.nodes.map (·.key)).Nodup := (List.nodup_append.mp hnd).1
  have hend : END ∉ r.nodes.map (·.key) := by
    intro hin
    exact (List.nodup_append.mp hnd).2.2 END hin END (by simp) rfl
  by_cases hb : (gr.chanBuilder == chanBuilder.nil) = true
  all_goals
    simp only [hb, if_true, if_false, Bool.false_eq_true] at hcall ⊢
    generalize hb1 : (fun (x : String × chanCall V) (__s : IO V × GoMap (channel V)) => _) = body1
    have l1 := chs_loop (fun k => ofChanR r.dag (Chan.init r.dag (gr.controlPredecessors.getD' k [])
        (gr.dataPredecessors.getD' k []))) body1
      (by intro x acc; rw [← hb1]; simp only [hcall]) gr.chanSubscribeTo []
    rw [l1]
    simp only [hcall]
    generalize hb2 : (fun (x : String × List String) (__s : IO V × GoMap (GoMap Unit)) => _) = body2
    have l2 := sets_loop (V := V) body2
      (by intro x acc; rw [← hb2]; simp only [set_inner_loop]; rfl)
    rw [l2 gr.dataPredecessors [], l2 gr.controlPredecessors []]
    simp only
    congr 1
    unfold initMgr
    rw [h.keys, foldl_set_keys _ _ [] hnk (by simp [akeys]), h.data, h.ctrl, h.succ,
      foldl_set_fresh (fun p => mkSet p.2) r.dataPreds [] hdk (by simp [akeys]),
      foldl_set_fresh (fun p => mkSet p.2) r.ctrlPreds [] hck (by simp [akeys])]
    have hE : const_END = END := rfl
    have hfresh : END ∉ akeys (([] : GoMap (channel V)) ++ (r.nodes.map (·.key)).map (fun k => (k,
        ofChanR r.dag (Chan.init r.dag (GoMap.getD' r.ctrlPreds k []) (GoMap.getD' r.dataPreds k []))))) := by
      simpa [akeys, List.map_map, Function.comp_def] using hend
    rw [hE, GoMap.set, aset_append_new _ _ _ hfresh]
    simp [initChans, List.map_map, Function.comp_def, lookupList, GoMap.getD']

/-- the hypotheses of phases 2 and 4 hold for the manager the SOURCE builds: `initChannelManager` (translated)
    returns a manager satisfying `MgrInv` and `CallsClosed` whose channels are the model's `initChans` -/
theorem init_hypotheses_from_source (ext : Ext V) (mext : MgrExt V) (gr : runner V) (r : Runner V) (s : Bool)
    (h : TabRel gr r) (hnd : (akeys (initChans r)).Nodup)
    (hdk : (akeys r.dataPreds).Nodup) (hck : (akeys r.ctrlPreds).Nodup)
    (hc : RunnerClosed r) (hs : ∀ k ∈ r.start.successors, k ∈ akeys (initChans r)) :
    ∃ c, runner_initChannelManager ext mext gr s = .ret c ∧ c.isStream = s ∧
      TransStep.MgrInv r c ∧ TransStep.CallsClosed r c ∧ toChans c.channels = initChans r := by
  refine ⟨initMgr r s, initChannelManager_is_initMgr ext mext gr r s h hnd hdk hck, rfl, ?_⟩
  exact TransStep.step_hypotheses_hold r s hnd hc hs

/-- the tables the model's `compile` builds have one entry per key (they can be stored in Go maps) -/
theorem addPred_nodup (m : List (Key × List Key)) (t f : Key) (h : (akeys m).Nodup) : (akeys (addPred m t f)).Nodup :=
  nodup_akeys_aset _ _ _ h

theorem compile_tables_nodup (slack : Nat) (g : GraphDef V) :
    (akeys (compile slack g).dataPreds).Nodup ∧ (akeys (compile slack g).ctrlPreds).Nodup := by
  have e : ∀ (l : List (Key × Key)) m, (akeys m).Nodup → (akeys (l.foldl (fun m e => addPred m e.2 e.1) m)).Nodup := by
    intro l; induction l with
    | nil => intro m h; exact h
    | cons x l ih => intro m h; exact ih _ (addPred_nodup m _ _ h)
  have i : ∀ (ends : List Key) (k : Key) m, (akeys m).Nodup → (akeys (ends.foldl (fun m e => addPred m e k) m)).Nodup := by
    intro l k; induction l with
    | nil => intro m h; exact h
    | cons x l ih => intro m h; exact ih _ (addPred_nodup m _ _ h)
  have b1 : ∀ (l : List (Key × Branch V)) m, (akeys m).Nodup →
      (akeys (l.foldl (fun m b => if b.2.noData then m else b.2.ends.foldl (fun m e => addPred m e b.1) m) m)).Nodup := by
    intro l; induction l with
    | nil => intro m h; exact h
    | cons x l ih =>
      intro m h
      simp only [List.foldl_cons]
      split
      · exact ih _ h
      · exact ih _ (i _ _ _ h)
  have b2 : ∀ (l : List (Key × Branch V)) m, (akeys m).Nodup →
      (akeys (l.foldl (fun m b => b.2.ends.foldl (fun m e => addPred m e b.1) m) m)).Nodup := by
    intro l; induction l with
    | nil => intro m h; exact h
    | cons x l ih => intro m h; exact ih _ (i _ _ _ h)
  unfold compile
  exact ⟨b1 _ _ (e _ _ (by simp [akeys])), b2 _ _ (e _ _ (by simp [akeys]))⟩

/-- `getSuccessors` of a translated `chanCall` is the model's `Node.successors` -/
theorem getSuccessors_is_successors (ext : Ext V) (mext : MgrExt V) (c : chanCall V) (n : Node V)
    (hw : c.writeTo = n.writeTo) (hc : c.controls = n.controls)
    (hb : c.writeToBranches.map (fun b => akeys b.endNodes) = n.branches.map (·.ends)) :
    getSuccessors ext mext c = .ret n.successors := by
  rw [getSuccessors_spec, hw, hc]
  unfold Node.successors
  congr 2
  have : ∀ (l : List (List Key)), l.flatMap id = l.flatten := fun l => by simp [List.flatMap]
  calc c.writeToBranches.flatMap (fun b => akeys b.endNodes)
      = (c.writeToBranches.map (fun b => akeys b.endNodes)).flatten := by simp [List.flatMap]
    _ = (n.branches.map (·.ends)).flatten := by rw [hb]
    _ = n.branches.flatMap (·.ends) := by simp [List.flatMap]

theorem dagChannelBuilder_wf (ext : Ext V) (mext : MgrExt V) (cp dp : List String) :
    ChWF (dagChannelBuilder ext mext cp dp) := by
  rw [dagChannelBuilder_spec]
  show TransDag.WF (TransDag.ofChan (Chan.init true cp dp))
  unfold TransDag.WF TransDag.KeysNodup TransDag.ofChan Chan.init
  simp only [if_true, List.map_map, Function.comp_def, List.map_id']
  exact ⟨TransDag.nodup_eraseDups' cp, TransDag.nodup_eraseDups' dp⟩

/-! ### the successors loop of `graph.compile` (fragment) -/

/-- `getSuccessors` as a function (it never panics) -/
def succOf (c : chanCall V) : List String :=
  c.writeTo ++ c.controls ++ c.writeToBranches.flatMap (fun b => akeys b.endNodes)

theorem getD'_of_mem {α} (m : GoMap α) (hn : (akeys m).Nodup) (p : Key × α) (hp : p ∈ m) (z : α) :
    m.getD' p.1 z = p.2 := by
  induction m with
  | nil => simp at hp
  | cons q m ih =>
    simp only [akeys, List.map_cons, List.nodup_cons] at hn
    simp only [GoMap.getD', alookup]
    rcases List.mem_cons.mp hp with h | h
    · subst h; simp
    · have hne : ¬ (q.1 == p.1) = true := by
        intro e
        have : q.1 = p.1 := by simpa using e
        exact hn.1 (this ▸ List.mem_map_of_mem h)
      simp only [hne, Bool.false_eq_true, if_false]
      exact ih hn.2 h

abbrev SO (V : Type) := Option (GoOutcome (GoMap (List String)))

theorem succ_loop (tab : GoMap (chanCall V))
    (body : String × chanCall V → SO V × GoMap (List String) → ForInStep (SO V × GoMap (List String)))
    (hbody : ∀ x ∈ tab, ∀ acc, body x (none, acc) = ForInStep.yield (none, acc.set x.1 (succOf x.2))) :
    ∀ (l : GoMap (chanCall V)), (∀ x ∈ l, x ∈ tab) → ∀ acc,
      goLoop body l (none, acc) = (none, l.foldl (fun m p => m.set p.1 (succOf p.2)) acc) := by
  intro l
  induction l with
  | nil => intro _ acc; rfl
  | cons p l ih =>
    intro hl acc
    simp only [goLoop, hbody p (hl p List.mem_cons_self), List.foldl_cons]
    exact ih (fun x hx => hl x (List.mem_cons_of_mem _ hx)) _

/-- **the successors fragment of `graph.compile`**: one entry per registered node, in the stored order of
    `chanSubscribeTo`, holding `getSuccessors` of its `chanCall` -/
theorem compile_successors_spec (ext : Ext V) (mext : MgrExt V) (g : graph V) (r : runner V)
    (hn : (akeys r.chanSubscribeTo).Nodup) :
    graph_compile_successors ext mext g r = .ret (r.chanSubscribeTo.map (fun p => (p.1, succOf p.2))) := by
  unfold graph_compile_successors
  simp only [forIn_id, Id.run, bind, pure]
  generalize hb : (fun (x : String × chanCall V) (__s : SO V × GoMap (List String)) => _) = body
  have l := succ_loop r.chanSubscribeTo body (by
    intro x hx acc
    rw [← hb]
    simp only [getD'_of_mem r.chanSubscribeTo hn x hx, getSuccessors_spec]
    rfl) r.chanSubscribeTo (fun x hx => hx) []
  rw [l]
  simp only [foldl_set_fresh (fun p => succOf p.2) r.chanSubscribeTo [] hn (by simp [akeys]), List.nil_append]

/-- with every `chanCall` related to the model's node of the same key, the successors table is the one
    `TabRel` asks for -/
theorem compile_successors_model (ext : Ext V) (mext : MgrExt V) (g : graph V) (r : runner V) (nodes : List (Node V))
    (hn : (akeys r.chanSubscribeTo).Nodup)
    (hrel : ListRel (fun (p : Key × chanCall V) (n : Node V) => p.1 = n.key ∧ p.2.writeTo = n.writeTo ∧
      p.2.controls = n.controls ∧ p.2.writeToBranches.map (fun b => akeys b.endNodes) = n.branches.map (·.ends))
      r.chanSubscribeTo nodes) :
    graph_compile_successors ext mext g r = .ret (nodes.map (fun n => (n.key, n.successors))) := by
  rw [compile_successors_spec ext mext g r hn]
  congr 1
  clear hn
  generalize r.chanSubscribeTo = tab at hrel
  induction hrel with
  | nil => rfl
  | @cons p n ps ns h _ ih =>
    obtain ⟨h1, h2, h3, h4⟩ := h
    simp only [List.map_cons, ih]
    congr 1
    have := getSuccessors_is_successors ext mext p.2 n h2 h3 h4
    rw [getSuccessors_spec] at this
    have e : succOf p.2 = n.successors := by
      unfold succOf; injection this
    rw [h1, e]

end EinoV.TransTab
