/-
  C08 — helper lemmas for the merged reader above `maxSelectNum` live sources (Model/C08Wide.lean).
-/
import EinoV.Model.C08Wide

set_option linter.unusedSimpArgs false
set_option linter.unusedVariables false

namespace EinoV.C08

/-- the two descriptions of "live" agree -/
structure WInv (n maxSel : Nat) (w : WideSt) : Prop where
  len : w.armed.length = n
  nodup : w.chosen.Nodup
  lt : ∀ s ∈ w.chosen, s < n
  liveArmed : ∀ s ∈ w.chosen, w.armed[s]? = some true
  armedLive : w.chosen.length > maxSel → ∀ s, w.armed[s]? = some true → s ∈ w.chosen

theorem WInv.init (n maxSel : Nat) : WInv n maxSel (WideSt.init n) where
  len := by simp [WideSt.init]
  nodup := by simp [WideSt.init, List.nodup_range]
  lt := by intro s hs; simpa [WideSt.init] using hs
  liveArmed := by
    intro s hs
    have : s < n := by simpa [WideSt.init] using hs
    simp [WideSt.init, List.getElem?_replicate, this]
  armedLive := by
    intro _ s hs
    simp [WideSt.init, List.getElem?_replicate] at hs
    simpa [WideSt.init] using hs

theorem WInv.polled_iff {n maxSel : Nat} {w : WideSt} (h : WInv n maxSel w) (s : Nat) :
    s ∈ w.polled maxSel ↔ s ∈ w.chosen := by
  unfold WideSt.polled
  by_cases hl : w.chosen.length > maxSel
  · simp only [hl, if_true, List.mem_filter, List.mem_range, beq_iff_eq]
    constructor
    · intro hs; exact h.armedLive hl s hs.2
    · intro hs
      refine ⟨?_, h.liveArmed s hs⟩
      rw [h.len]; exact h.lt s hs
  · simp [hl]

theorem WInv.step {n maxSel : Nat} {w w' : WideSt} {s : Nat} (h : WInv n maxSel w)
    (hs : w.noticeEnd ⟨true⟩ maxSel s = some w') :
    WInv n maxSel w' ∧ s ∈ w.chosen ∧ ∀ t, t ∈ w'.chosen ↔ t ≠ s ∧ t ∈ w.chosen := by
  unfold WideSt.noticeEnd at hs
  have hmem : s ∈ w.chosen := by
    by_cases hc : (w.polled maxSel).contains s = true
    · exact (h.polled_iff s).mp (by simpa using hc)
    · simp [hc] at hs
      exact absurd (by simpa using hs.1) hc
  have hpc : (w.polled maxSel).contains s = true := by simpa using (h.polled_iff s).mpr hmem
  have hch : ∀ t, t ∈ w.chosen.erase s ↔ t ≠ s ∧ t ∈ w.chosen := fun t => h.nodup.mem_erase_iff
  simp only [hpc, Bool.not_true, Bool.false_eq_true, if_false] at hs
  by_cases hl : w.chosen.length > maxSel
  · simp only [hl, if_true, Option.some.injEq] at hs
    subst hs
    refine ⟨⟨?_, ?_, ?_, ?_, ?_⟩, hmem, hch⟩
    · simpa using h.len
    · exact h.nodup.erase s
    · intro t ht; exact h.lt t ((hch t).mp ht).2
    · intro t ht
      have := (hch t).mp ht
      simp only [if_true]
      rw [List.getElem?_set_ne (Ne.symm this.1)]
      exact h.liveArmed t this.2
    · intro _ t ht
      simp only [if_true] at ht
      have hne : t ≠ s := by
        intro e; subst e
        rw [List.getElem?_set] at ht
        split at ht <;> simp_all
      rw [List.getElem?_set_ne (Ne.symm hne)] at ht
      exact (hch t).mpr ⟨hne, h.armedLive hl t ht⟩
  · simp only [hl, if_false, Option.some.injEq] at hs
    subst hs
    refine ⟨⟨h.len, h.nodup.erase s, ?_, ?_, ?_⟩, hmem, hch⟩
    · intro t ht; exact h.lt t ((hch t).mp ht).2
    · intro t ht; exact h.liveArmed t ((hch t).mp ht).2
    · intro hgt
      have : (w.chosen.erase s).length ≤ w.chosen.length := List.length_erase_le
      simp only [] at hgt
      omega

theorem WInv.run {n maxSel : Nat} : ∀ (ends : List Nat) {w w' : WideSt}, WInv n maxSel w →
    w.run ⟨true⟩ maxSel ends = some w' →
    WInv n maxSel w' ∧ ends.Nodup ∧ (∀ s ∈ ends, s ∈ w.chosen) ∧ ∀ t, t ∈ w'.chosen ↔ t ∈ w.chosen ∧ t ∉ ends
  | [], w, w', h, hr => by
    simp [WideSt.run] at hr; subst hr; exact ⟨h, List.nodup_nil, by simp, by simp⟩
  | s :: rest, w, w', h, hr => by
    simp only [WideSt.run] at hr
    cases hs : w.noticeEnd ⟨true⟩ maxSel s with
    | none => simp [hs] at hr
    | some w1 =>
      simp only [hs] at hr
      obtain ⟨h1, hm, hc⟩ := h.step hs
      obtain ⟨h2, hnd, hsub, hc2⟩ := WInv.run rest h1 hr
      refine ⟨h2, ?_, ?_, ?_⟩
      · refine List.nodup_cons.mpr ⟨?_, hnd⟩
        intro hin
        exact ((hc s).mp (hsub s hin)).1 rfl
      · intro t ht
        rcases List.mem_cons.mp ht with e | e
        · subst e; exact hm
        · exact ((hc t).mp (hsub t e)).2
      · intro t
        rw [hc2 t, hc t]
        simp only [List.mem_cons, not_or]
        constructor
        · rintro ⟨⟨a, b⟩, c⟩; exact ⟨b, a, c⟩
        · rintro ⟨b, a, c⟩; exact ⟨⟨a, b⟩, c⟩

/-- every order of distinct sources is a run: noticing the end of a live source is always enabled -/
theorem WInv.run_enabled {n maxSel : Nat} : ∀ (ends : List Nat) {w : WideSt}, WInv n maxSel w →
    ends.Nodup → (∀ s ∈ ends, s ∈ w.chosen) → ∃ w', w.run ⟨true⟩ maxSel ends = some w'
  | [], w, _, _, _ => ⟨w, rfl⟩
  | s :: rest, w, h, hnd, hsub => by
    have hm : s ∈ w.chosen := hsub s (by simp)
    have hpc : (w.polled maxSel).contains s = true := by simpa using (h.polled_iff s).mpr hm
    have hsome : ∃ w1, w.noticeEnd ⟨true⟩ maxSel s = some w1 := by
      unfold WideSt.noticeEnd
      simp only [hpc, Bool.not_true, Bool.false_eq_true, if_false]
      split <;> exact ⟨_, rfl⟩
    obtain ⟨w1, hs⟩ := hsome
    obtain ⟨h1, _, hc⟩ := h.step hs
    have hnd' := List.nodup_cons.mp hnd
    obtain ⟨w', hr⟩ := WInv.run_enabled rest h1 hnd'.2 (fun t ht =>
      (hc t).mpr ⟨fun e => hnd'.1 (e ▸ ht), hsub t (by simp [ht])⟩)
    exact ⟨w', by simp [WideSt.run, hs, hr]⟩

end EinoV.C08
