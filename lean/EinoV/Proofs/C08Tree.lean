/-
  C08 — whole-network proofs (every network the constructors can build, every schedule).

  Basic / Build / Ops1-3 / Sched : shape of networks, `Inv` kept by every operation
  Close / RecvBasic / Sound      : `closeAll`, the relational `Recv`, `recvAll` refines `Recv`
  Cell / DenBase / RecvDen       : one `Recv` step against the specified sequence `Den`
  Delivery / Unfold / Oracle     : `delivery_core`, `den_unfold`, oracle traces are schedules
  Claim / Release0-2             : claims, `release` (closing a released node restores `CloseInv`)
  ClosePres1-2 / CloseBuild1-4   : `CloseInv` kept by every operation
  ClosePropagate / Progress      : `close_succeeds`, `all_closed`, `recv_enabled`
  Prefix                         : `den_exists`, `delivery_general`, `delivery_prefix`
-/
import EinoV.Proofs.C08Tree.Delivery
import EinoV.Proofs.C08Tree.Unfold
import EinoV.Proofs.C08Tree.Oracle
import EinoV.Proofs.C08Tree.ClosePropagate
import EinoV.Proofs.C08Tree.Progress
import EinoV.Proofs.C08Tree.Prefix
