/-
  C17, family `utils` — helper lemmas (Model/C17Utils.lean).
-/
import EinoV.Model.C17Utils
import EinoV.Proofs.C17

namespace EinoV.C17

/-- the shipped shape: the object the arguments are decoded into is made inside the call -/
def UFacts.Good (UF : UFacts) : Prop := UF.freshPerCall = true

theorem seenReq_fresh {UF : UFacts} (h : UF.Good) (k : ReqKind) (hist : List Args) (x : Args) :
    seenReq UF k hist x = decodeFresh x := by
  unfold seenReq
  rw [h]
  simp

theorem toTool_fresh {UF : UFacts} (h : UF.Good) (parse : String → Args) (hist : List Args)
    (t : UTool) : t.toTool UF parse hist = t.pure parse := by
  unfold UTool.toTool UTool.pure
  simp only [seenReq_fresh h]

/-- with a fresh object per call the tool list does not depend on what was decoded before:
    earlier messages, the other calls of the message, the order in which they decode -/
theorem mixedTools_fresh {UF : UFacts} (h : UF.Good) (parse : String → Args)
    (prior calls : List Call) (δ : List Nat) (mixed : List (String × MixedTool)) :
    mixedTools UF parse prior calls δ mixed = pureTools parse mixed := by
  unfold mixedTools pureTools
  apply List.map_congr_left
  intro p _
  cases p.2 with
  | inl t => rfl
  | inr u => simp only [toTool_fresh h]

/-- `tuple.indexes[name]` on the configured list -/
def lookupM (mixed : List (String × MixedTool)) (name : String) : Option MixedTool :=
  (mixed.reverse.find? (fun p => p.1 == name)).map (·.2)

def MixedTool.pure (parse : String → Args) : MixedTool → Tool
  | .inl t => t
  | .inr u => u.pure parse

theorem lookup_pureTools (parse : String → Args) (mixed : List (String × MixedTool)) (name : String) :
    lookup (pureTools parse mixed) name = (lookupM mixed name).map (MixedTool.pure parse) := by
  unfold lookup lookupM pureTools
  rw [← List.map_reverse, List.find?_map]
  cases h : List.find? ((fun p : String × Tool => p.1 == name) ∘
      fun p : String × MixedTool => (p.1, match p.2 with | .inl t => t | .inr u => u.pure parse))
      mixed.reverse with
  | none =>
    have : List.find? (fun p : String × MixedTool => p.1 == name) mixed.reverse = none := by
      rw [List.find?_eq_none] at h ⊢
      exact h
    simp [this]
  | some p =>
    have : List.find? (fun p : String × MixedTool => p.1 == name) mixed.reverse = some p := h
    simp only [this, Option.map_some]
    cases hp : p.2 <;> simp [MixedTool.pure]

theorem answerI_utils_inv {parse : String → Args} {mixed : List (String × MixedTool)}
    {handler : Option Handler} {c : Call} {t : UTool} {f : Req → Out String}
    (hl : lookupM mixed c.name = some (.inr t)) (hf : t.inv = some f) :
    answerI (pureTools parse mixed) handler c = some (f (decodeFresh (parse c.args))) := by
  unfold answerI resolve
  rw [lookup_pureTools, hl]
  simp [MixedTool.pure, UTool.pure, packInvoke, hf]

theorem answerS_utils_str {parse : String → Args} {mixed : List (String × MixedTool)}
    {handler : Option Handler} {c : Call} {t : UTool} {g : Req → Out (List String)}
    (hl : lookupM mixed c.name = some (.inr t)) (hg : t.str = some g) :
    answerS (pureTools parse mixed) handler c = some (g (decodeFresh (parse c.args))) := by
  unfold answerS resolve
  rw [lookup_pureTools, hl]
  simp [MixedTool.pure, UTool.pure, packStream, hg]

theorem pick_utils {parse : String → Args} {mixed : List (String × MixedTool)}
    {handler : Option Handler} {c : Call} {t : UTool}
    (hl : lookupM mixed c.name = some (.inr t)) :
    pick (pureTools parse mixed) handler c = t.pure parse := by
  unfold pick resolve
  rw [lookup_pureTools, hl]
  simp [MixedTool.pure]

end EinoV.C17
