/-
  C12 — helper lemmas for the serialisation round trip (property statements are in
  EinoV/Props/C12.lean).  Core Lean only.
-/
import EinoV.Model.C12

namespace EinoV.C12

/-! ### small facts -/

theorem bind_ok {ε α β : Type} {x : Except ε α} {f : α → Except ε β} {b : β} :
    (x >>= f) = .ok b ↔ ∃ a, x = .ok a ∧ f a = .ok b := by
  cases x <;> simp [bind, Except.bind]

theorem ptrN_ptr (n : Nat) (t : GoTy) : ptrN n (.ptr t) = .ptr (ptrN n t) := by
  induction n generalizing t with
  | zero => rfl
  | succ n ih => simp only [ptrN]; exact ih (.ptr t)

theorem ptrN_depth_strip (t : GoTy) : ptrN t.depth t.strip = t := by
  induction t with
  | ptr t ih => simp only [GoTy.depth, GoTy.strip, ptrN, ptrN_ptr, ih]
  | _ => rfl

theorem typeOf_wrap (n : Nat) (v : GoVal) : (wrap n v).typeOf = ptrN n v.typeOf := by
  induction n generalizing v with
  | zero => rfl
  | succ n ih => simp only [wrap, ptrN]; exact ih (.ptr v)

theorem norm_wrap (n : Nat) (v : GoVal) : (wrap n v).norm = wrap n v.norm := by
  induction n generalizing v with
  | zero => rfl
  | succ n ih => simp only [wrap]; rw [ih]; simp only [GoVal.norm]

theorem wrap_inj {n : Nat} {a b : GoVal} (h : wrap n a = wrap n b) : a = b := by
  induction n generalizing a b with
  | zero => exact h
  | succ n ih => simp only [wrap] at h; have := ih h; cases this; rfl

theorem isINil_eq_true {v : GoVal} (h : v.isINil = true) : v = .inil := by
  cases v <;> simp [GoVal.isINil] at h; rfl

theorem wt_not_inil {ctx : Ctx} {v : GoVal} (h : v.wt ctx = true) : v.isINil = false := by
  cases v <;> simp [GoVal.isINil, GoVal.wt] at h ⊢

/-! ### registry -/

theorem keyOfE_ok {ctx : Ctx} {t : GoTy} {k : Name} : keyOfE ctx t = .ok k ↔ keyOf ctx t = some k := by
  unfold keyOfE; split <;> simp_all

theorem tyOfKeyE_of {ctx : Ctx} {k : Name} {t : GoTy} (h : tyOfKey ctx k = some t) : tyOfKeyE ctx k = .ok t := by
  unfold tyOfKeyE; rw [h]

/-- in a well-formed registry `m[rm[t]] = t`, and the key is not empty -/
theorem reg_inv {ctx : Ctx} (hc : ctx.ok = true) {t : GoTy} {k : Name} (h : keyOf ctx t = some k) :
    tyOfKey ctx k = some t ∧ k ≠ "" := by
  unfold keyOf at h
  cases hf : ctx.reg.find? (fun e => e.2 == t) with
  | none => simp [hf] at h
  | some e =>
    simp only [hf, Option.map_some, Option.some.injEq] at h
    have hmem := List.mem_of_find?_eq_some hf
    have hp := List.find?_some hf
    simp only [beq_iff_eq] at hp
    unfold Ctx.ok at hc
    simp only [Bool.and_eq_true, List.all_eq_true] at hc
    have := hc.1 e hmem
    simp only [bne_iff_ne, ne_eq, beq_iff_eq] at this
    subst h; subst hp
    exact ⟨this.1.2, this.1.1⟩

theorem decl_nodup {ctx : Ctx} (hc : ctx.ok = true) {n : Name} {decl : List (Name × GoTy)}
    (h : declOf ctx n = some decl) : (decl.map (·.1)).Nodup := by
  unfold declOf at h
  cases hf : ctx.structs.find? (fun e => e.1 == n) with
  | none => simp [hf] at h
  | some e =>
    simp only [hf, Option.map_some, Option.some.injEq] at h
    have hmem := List.mem_of_find?_eq_some hf
    unfold Ctx.ok at hc
    simp only [Bool.and_eq_true, List.all_eq_true, decide_eq_true_eq] at hc
    subst h
    exact hc.2 e hmem

/-! ### Lemma B: the encoder is total on encodable values -/

mutual
theorem encP_total (ctx : Ctx) (J : JLayer) (F : Facts) (hJ : J.OK) :
    ∀ (v : GoVal) (k : Nat), v.encodable ctx J = true → ∃ is, encP ctx J F k v = .ok is
  | .inil, _, _ => ⟨_, rfl⟩
  | .basic t p, k, h => by
    simp only [GoVal.encodable, Bool.and_eq_true, Option.isSome_iff_exists] at h
    obtain ⟨⟨key, hk⟩, hv⟩ := h
    obtain ⟨s, hs⟩ := hJ.total t p hv
    simp [encP, keyOfE, hk, hs, bind, Except.bind, pure, Except.pure]
  | .nilptr t, k, h => by
    simp only [GoVal.encodable, Option.isSome_iff_exists] at h
    obtain ⟨key, hk⟩ := h
    simp [encP, keyOfE, hk, bind, Except.bind, pure, Except.pure]
  | .ptr v, k, h => by
    simp only [GoVal.encodable, Bool.and_eq_true, Bool.not_eq_true'] at h
    obtain ⟨is, his⟩ := encP_total ctx J F hJ v (k + 1) h.2
    exact ⟨is, by simp [encP, h.1, his]⟩
  | .slice et _ vs, k, h => by
    simp only [GoVal.encodable, Bool.and_eq_true, Option.isSome_iff_exists] at h
    obtain ⟨⟨key, hk⟩, hv⟩ := h
    obtain ⟨xs, hxs⟩ := encVals_total ctx J F hJ vs hv
    simp [encP, keyOfE, hk, hxs, bind, Except.bind, pure, Except.pure]
  | .map kt vt _ kvs, k, h => by
    simp only [GoVal.encodable, Bool.and_eq_true, Option.isSome_iff_exists] at h
    obtain ⟨⟨⟨hl, ⟨kk, hkk⟩⟩, ⟨vk, hvk⟩⟩, hv⟩ := h
    obtain ⟨xs, hxs⟩ := encMapKVs_total ctx J F hJ kt kvs hv
    simp [encP, keyOfE, hl, hkk, hvk, hxs, bind, Except.bind, pure, Except.pure]
  | .struct n fs, k, h => by
    simp only [GoVal.encodable, Bool.and_eq_true, Option.isSome_iff_exists] at h
    obtain ⟨⟨key, hk⟩, hv⟩ := h
    obtain ⟨xs, hxs⟩ := encFields_total ctx J F hJ fs hv
    simp [encP, keyOfE, hk, hxs, bind, Except.bind, pure, Except.pure]
theorem encVals_total (ctx : Ctx) (J : JLayer) (F : Facts) (hJ : J.OK) :
    ∀ (vs : GoVals), vs.encodable ctx J = true → ∃ xs, encVals ctx J F vs = .ok xs
  | .nil, _ => ⟨_, rfl⟩
  | .cons v r, h => by
    simp only [GoVals.encodable, Bool.and_eq_true] at h
    obtain ⟨i, hi⟩ := encP_total ctx J F hJ v 0 h.1
    obtain ⟨xs, hxs⟩ := encVals_total ctx J F hJ r h.2
    simp [encVals, hi, hxs, bind, Except.bind, pure, Except.pure]
theorem encMapKVs_total (ctx : Ctx) (J : JLayer) (F : Facts) (hJ : J.OK) (kt : GoTy) :
    ∀ (kvs : GoKVs), kvs.encodableMap ctx J kt = true → ∃ xs, encMapKVs ctx J F kt kvs = .ok xs
  | .nil, _ => ⟨_, rfl⟩
  | .cons k v r, h => by
    simp only [GoKVs.encodableMap, Bool.and_eq_true] at h
    obtain ⟨i, hi⟩ := encP_total ctx J F hJ v 0 h.1.2
    obtain ⟨s, hs⟩ := hJ.total kt k h.1.1
    obtain ⟨xs, hxs⟩ := encMapKVs_total ctx J F hJ kt r h.2
    simp [encMapKVs, hi, hs, hxs, bind, Except.bind, pure, Except.pure]
theorem encFields_total (ctx : Ctx) (J : JLayer) (F : Facts) (hJ : J.OK) :
    ∀ (fs : GoKVs), fs.encodableFields ctx J = true → ∃ xs, encFields ctx J F fs = .ok xs
  | .nil, _ => ⟨_, rfl⟩
  | .cons f v r, h => by
    simp only [GoKVs.encodableFields, Bool.and_eq_true] at h
    obtain ⟨i, hi⟩ := encP_total ctx J F hJ v 0 h.1
    obtain ⟨xs, hxs⟩ := encFields_total ctx J F hJ r h.2
    simp [encFields, hi, hxs, bind, Except.bind, pure, Except.pure]
end

/-! ### relating decoded children to the values that were encoded -/

/-- the facts of the repaired tree: every decode branch honours PointerNum, nil pointers
    inside a chain are recorded -/
def Fall : Facts := ⟨true, true, true, true, true⟩
@[simp] theorem Fall_ptrBasic : Fall.ptrBasic = true := rfl
@[simp] theorem Fall_ptrStruct : Fall.ptrStruct = true := rfl
@[simp] theorem Fall_ptrMap : Fall.ptrMap = true := rfl
@[simp] theorem Fall_ptrSlice : Fall.ptrSlice = true := rfl
@[simp] theorem Fall_nilChain : Fall.nilChain = true := rfl

/-- decoded child `a` versus original `b` -/
def R (a b : GoVal) : Prop := a.norm = b.norm ∧ a.typeOf = b.typeOf ∧ a.isINil = b.isINil

def RelVals : GoVals → GoVals → Prop
  | .nil, .nil => True
  | .cons a r, .cons b s => R a b ∧ RelVals r s
  | _, _ => False

/-- same keys -/
def RelKVs : GoKVs → GoKVs → Prop
  | .nil, .nil => True
  | .cons ka a r, .cons kb b s => ka = kb ∧ R a b ∧ RelKVs r s
  | _, _ => False

/-- keys are the JSON strings of the original keys -/
def RelMap (J : JLayer) (kt : GoTy) : GoKVs → GoKVs → Prop
  | .nil, .nil => True
  | .cons ka a r, .cons kb b s => J.encode kt kb = .ok ka ∧ R a b ∧ RelMap J kt r s
  | _, _ => False

/-- the element condition used by `fit` / `fitDecl` -/
def fitsAt (ctx : Ctx) (t : GoTy) (v : GoVal) : Bool :=
  if v.isINil then t == .iface else v.wt ctx && (t == .iface || v.typeOf == t)

def GoVals.allWT (ctx : Ctx) : GoVals → Bool
  | .nil => true
  | .cons v r => (v.isINil || v.wt ctx) && r.allWT ctx
def GoKVs.allWT (ctx : Ctx) : GoKVs → Bool
  | .nil => true
  | .cons _ v r => (v.isINil || v.wt ctx) && r.allWT ctx

theorem fitsAt_allWT {ctx : Ctx} {t : GoTy} {v : GoVal} (h : fitsAt ctx t v = true) :
    (v.isINil || v.wt ctx) = true := by
  unfold fitsAt at h
  cases hv : v.isINil <;> simp_all

theorem fit_allWT {ctx : Ctx} {et : GoTy} : ∀ {vs : GoVals}, vs.fit ctx et = true → vs.allWT ctx = true
  | .nil, _ => rfl
  | .cons v r, h => by
    simp only [GoVals.fit, Bool.and_eq_true] at h
    simp only [GoVals.allWT, Bool.and_eq_true]
    exact ⟨fitsAt_allWT (t := et) h.1, fit_allWT h.2⟩

theorem fitKVs_allWT {ctx : Ctx} {vt : GoTy} : ∀ {kvs : GoKVs}, kvs.fit ctx vt = true → kvs.allWT ctx = true
  | .nil, _ => rfl
  | .cons _ v r, h => by
    simp only [GoKVs.fit, Bool.and_eq_true] at h
    simp only [GoKVs.allWT, Bool.and_eq_true]
    exact ⟨fitsAt_allWT (t := vt) h.1, fitKVs_allWT h.2⟩

theorem fitDecl_allWT {ctx : Ctx} : ∀ {decl : List (Name × GoTy)} {fs : GoKVs}, fs.fitDecl ctx decl = true → fs.allWT ctx = true
  | [], .nil, _ => rfl
  | (_, t) :: ds, .cons _ v r, h => by
    simp only [GoKVs.fitDecl, Bool.and_eq_true] at h
    simp only [GoKVs.allWT, Bool.and_eq_true]
    exact ⟨fitsAt_allWT (t := t) h.1.2, fitDecl_allWT h.2⟩
  | [], .cons _ _ _, h => by simp [GoKVs.fitDecl] at h
  | _ :: _, .nil, h => by simp [GoKVs.fitDecl] at h

/-- `field.Set` / `SetMapIndex` / `Append` of a decoded child that corresponds to an
    original element fitting the static type: no panic, the element (≈) is stored. -/
theorem place_ok (ctx : Ctx) (J : JLayer) {t : GoTy} {a b : GoVal} (hr : R a b) (hf : fitsAt ctx t b = true) :
    ∃ v', place J t a = .ok v' ∧ v'.norm = b.norm := by
  obtain ⟨hn, ht, hi⟩ := hr
  unfold fitsAt at hf
  unfold place
  cases hb : b.isINil with
  | true =>
    simp only [hb, ↓reduceIte, beq_iff_eq] at hf
    have hb' := isINil_eq_true hb
    have ha' : a = .inil := isINil_eq_true (hi.trans hb)
    subst hf; subst hb'; subst ha'
    exact ⟨.inil, by simp [GoVal.isINil, zeroOf], rfl⟩
  | false =>
    simp only [hb, Bool.false_eq_true, ↓reduceIte, Bool.and_eq_true, Bool.or_eq_true, beq_iff_eq] at hf
    simp only [hi, hb, Bool.false_eq_true, ↓reduceIte, ht]
    rcases hf.2 with h | h
    · simp [h, hn]
    · simp [h, hn]

theorem placeVals_ok (ctx : Ctx) (J : JLayer) (et : GoTy) :
    ∀ (as bs : GoVals), RelVals as bs → bs.fit ctx et = true →
      ∃ vs', placeVals J et as = .ok vs' ∧ vs'.norm = bs.norm
  | .nil, .nil, _, _ => ⟨.nil, rfl, rfl⟩
  | .cons a r, .cons b s, hr, hf => by
    simp only [RelVals] at hr
    simp only [GoVals.fit, Bool.and_eq_true] at hf
    obtain ⟨v', hv', hn⟩ := place_ok ctx J (t := et) hr.1 hf.1
    obtain ⟨vs', hvs', hns⟩ := placeVals_ok ctx J et r s hr.2 hf.2
    exact ⟨.cons v' vs', by simp [placeVals, hv', hvs', bind, Except.bind, pure, Except.pure],
      by simp [GoVals.norm, hn, hns]⟩
  | .nil, .cons _ _, hr, _ => by simp [RelVals] at hr
  | .cons _ _, .nil, hr, _ => by simp [RelVals] at hr

theorem placeKVs_ok (ctx : Ctx) (J : JLayer) (hJ : J.OK) (kt vt : GoTy) :
    ∀ (as bs : GoKVs), RelMap J kt as bs → bs.fit ctx vt = true →
      ∃ kvs', placeKVs J kt vt as = .ok kvs' ∧ kvs'.norm = bs.norm
  | .nil, .nil, _, _ => ⟨.nil, rfl, rfl⟩
  | .cons ka a r, .cons kb b s, hr, hf => by
    simp only [RelMap] at hr
    simp only [GoKVs.fit, Bool.and_eq_true] at hf
    obtain ⟨v', hv', hn⟩ := place_ok ctx J (t := vt) hr.2.1 hf.1
    obtain ⟨vs', hvs', hns⟩ := placeKVs_ok ctx J hJ kt vt r s hr.2.2 hf.2
    have hk := (hJ.rt kt kb ka hr.1).2
    exact ⟨.cons kb v' vs', by simp [placeKVs, hk, hv', hvs', bind, Except.bind, pure, Except.pure],
      by simp [GoKVs.norm, hn, hns]⟩
  | .nil, .cons _ _ _, hr, _ => by simp [RelMap] at hr
  | .cons _ _ _, .nil, hr, _ => by simp [RelMap] at hr

/-! ### struct assembly -/

theorem buildFields_ok (ctx : Ctx) (J : JLayer) (whole : GoKVs) :
    ∀ (decl : List (Name × GoTy)) (as bs : GoKVs), RelKVs as bs → bs.fitDecl ctx decl = true →
      (decl.map (·.1)).Nodup → (∀ f, f ∈ decl.map (·.1) → lookupKV f whole = lookupKV f as) →
      ∃ fs', buildFields J whole decl = .ok fs' ∧ fs'.norm = bs.norm
  | [], .nil, .nil, _, _, _, _ => ⟨.nil, rfl, rfl⟩
  | (f, t) :: ds, .cons ka a r, .cons kb b s, hr, hf, hnd, hl => by
    simp only [RelKVs] at hr
    simp only [GoKVs.fitDecl, Bool.and_eq_true, beq_iff_eq] at hf
    obtain ⟨hka, hrab, hrs⟩ := hr
    obtain ⟨⟨hkb, hfit⟩, hfd⟩ := hf
    subst hka; subst hkb
    simp only [List.map_cons, List.nodup_cons] at hnd
    have hlook : lookupKV ka whole = some a := by
      rw [hl ka (by simp)]; simp [lookupKV]
    obtain ⟨v', hv', hn⟩ := place_ok ctx J (t := t) hrab hfit
    have hl' : ∀ g, g ∈ ds.map (·.1) → lookupKV g whole = lookupKV g r := by
      intro g hg
      rw [hl g (by simp [hg])]
      have hne : ka ≠ g := fun h => hnd.1 (h ▸ hg)
      simp [lookupKV, hne]
    obtain ⟨fs', hfs', hns⟩ := buildFields_ok ctx J whole ds r s hrs hfd hnd.2 hl'
    exact ⟨.cons ka v' fs', by simp [buildFields, hlook, hv', hfs', bind, Except.bind, pure, Except.pure],
      by simp [GoKVs.norm, hn, hns]⟩
  | [], .cons _ _ _, .nil, hr, _, _, _ => by simp [RelKVs] at hr
  | [], .nil, .cons _ _ _, hr, _, _, _ => by simp [RelKVs] at hr
  | [], .cons _ _ _, .cons _ _ _, _, hf, _, _ => by simp [GoKVs.fitDecl] at hf
  | _ :: _, .nil, .nil, _, hf, _, _ => by simp [GoKVs.fitDecl] at hf
  | _ :: _, .cons _ _ _, .nil, hr, _, _, _ => by simp [RelKVs] at hr
  | _ :: _, .nil, .cons _ _ _, hr, _, _, _ => by simp [RelKVs] at hr

theorem allDeclared_ok (ctx : Ctx) (whole : List (Name × GoTy)) :
    ∀ (decl : List (Name × GoTy)) (as bs : GoKVs), (∀ d, d ∈ decl → d ∈ whole) → RelKVs as bs →
      bs.fitDecl ctx decl = true → allDeclared whole as = true
  | [], .nil, .nil, _, _, _ => rfl
  | (f, t) :: ds, .cons ka a r, .cons kb b s, hsub, hr, hf => by
    simp only [RelKVs] at hr
    simp only [GoKVs.fitDecl, Bool.and_eq_true, beq_iff_eq] at hf
    obtain ⟨hka, _, hrs⟩ := hr
    obtain ⟨⟨hkb, _⟩, hfd⟩ := hf
    subst hka; subst hkb
    simp only [allDeclared, Bool.and_eq_true, List.any_eq_true, beq_iff_eq]
    exact ⟨⟨(ka, t), hsub _ (by simp), rfl⟩,
      allDeclared_ok ctx whole ds r s (fun d hd => hsub d (by simp [hd])) hrs hfd⟩
  | [], .cons _ _ _, .nil, _, hr, _ => by simp [RelKVs] at hr
  | [], .nil, .cons _ _ _, _, hr, _ => by simp [RelKVs] at hr
  | [], .cons _ _ _, .cons _ _ _, _, _, hf => by simp [GoKVs.fitDecl] at hf
  | _ :: _, .nil, .nil, _, _, hf => by simp [GoKVs.fitDecl] at hf
  | _ :: _, .cons _ _ _, .nil, _, hr, _ => by simp [RelKVs] at hr
  | _ :: _, .nil, .cons _ _ _, _, hr, _ => by simp [RelKVs] at hr

/-! ### Lemma A: whatever the encoder accepts, the decoder reads back (≈, same type) -/

theorem R_refl_inil : R .inil .inil := ⟨rfl, rfl, rfl⟩

theorem ok_inj {ε α : Type} {a b : α} (h : (Except.ok a : Except ε α) = .ok b) : a = b := by cases h; rfl

mutual
theorem encP_dec (ctx : Ctx) (J : JLayer) (hc : ctx.ok = true) (hJ : J.OK) :
    ∀ (v : GoVal) (k : Nat) (is : IS), v.wt ctx = true → encP ctx J Fall k v = .ok is →
      ∃ v', dec ctx J Fall is = .ok (wrap k v') ∧ R v' v
  | .inil, _, _, hw, _ => by simp [GoVal.wt] at hw
  | .basic t p, k, is, hw, he => by
    simp only [GoVal.wt] at hw
    simp only [encP, bind_ok, keyOfE_ok, pure, Except.pure] at he
    obtain ⟨key, hk, js, hjs, his⟩ := he
    have his := ok_inj his
    subst his
    obtain ⟨hty, hne⟩ := reg_inv hc hk
    obtain ⟨hnull, hdec⟩ := hJ.rt t p js hjs
    refine ⟨.basic t p, ?_, rfl, rfl, rfl⟩
    simp [IS.basicN, dec, hne, decBasic, tyOfKeyE_of hty, hnull, hw, hdec, bind, Except.bind, pure, Except.pure]
  | .nilptr t, k, is, _, he => by
    simp only [encP, bind_ok, keyOfE_ok, pure, Except.pure] at he
    obtain ⟨key, hk, his⟩ := he
    have his := ok_inj his
    subst his
    obtain ⟨hty, hne⟩ := reg_inv hc hk
    refine ⟨.nilptr t, ?_, rfl, rfl, rfl⟩
    simp [IS.basicN, dec, hne, decBasic, tyOfKeyE_of hty, ptrN_depth_strip, bind, Except.bind, pure, Except.pure]
  | .ptr v, k, is, hw, he => by
    simp only [GoVal.wt] at hw
    have hni := wt_not_inil hw
    simp only [encP, hni, Bool.false_eq_true, ↓reduceIte] at he
    obtain ⟨v', hd, hn, ht, hi⟩ := encP_dec ctx J hc hJ v (k + 1) is hw he
    refine ⟨.ptr v', by simpa [wrap] using hd, ?_, ?_, rfl⟩
    · simp [GoVal.norm, hn]
    · simp [GoVal.typeOf, ht]
  | .slice et n vs, k, is, hw, he => by
    simp only [GoVal.wt] at hw
    simp only [encP, bind_ok, keyOfE_ok, pure, Except.pure] at he
    obtain ⟨key, hk, xs, hxs, his⟩ := he
    have his := ok_inj his
    subst his
    obtain ⟨hty, hne⟩ := reg_inv hc hk
    obtain ⟨as, hdv, hrel⟩ := encVals_dec ctx J hc hJ vs xs (fit_allWT hw) hxs
    obtain ⟨vs', hpl, hnorm⟩ := placeVals_ok ctx J et as vs hrel hw
    refine ⟨.slice et vs'.isEmpty vs', ?_, ?_, rfl, rfl⟩
    · simp [IS.sliceN, dec, hdv, assembleSlice, tyOfKeyE_of hty, ptrN_depth_strip, hpl, bind, Except.bind, pure, Except.pure]
    · simp [GoVal.norm, hnorm]
  | .map kt vt n kvs, k, is, hw, he => by
    simp only [GoVal.wt, Bool.and_eq_true] at hw
    simp only [encP, hw.1, Bool.not_true, Bool.false_eq_true, ↓reduceIte, bind_ok, keyOfE_ok, pure, Except.pure] at he
    obtain ⟨kk, hkk, vk, hvk, xs, hxs, his⟩ := he
    have his := ok_inj his
    subst his
    obtain ⟨hkty, hkne⟩ := reg_inv hc hkk
    obtain ⟨hvty, _⟩ := reg_inv hc hvk
    obtain ⟨as, hdv, hrel⟩ := encMapKVs_dec ctx J hc hJ kt kvs xs (fitKVs_allWT hw.2) hxs
    obtain ⟨kvs', hpl, hnorm⟩ := placeKVs_ok ctx J hJ kt vt as kvs hrel hw.2
    refine ⟨.map kt vt false kvs', ?_, ?_, rfl, rfl⟩
    · simp [IS.mapN, dec, hkne, hdv, assembleMap, tyOfKeyE_of hkty, tyOfKeyE_of hvty, ptrN_depth_strip, hw.1, hpl,
        bind, Except.bind, pure, Except.pure]
    · simp [GoVal.norm, hnorm]
  | .struct n fs, k, is, hw, he => by
    simp only [GoVal.wt] at hw
    cases hd : declOf ctx n with
    | none => simp [hd] at hw
    | some decl =>
      simp only [hd] at hw
      simp only [encP, bind_ok, keyOfE_ok, pure, Except.pure] at he
      obtain ⟨key, hk, xs, hxs, his⟩ := he
      have his := ok_inj his
      subst his
      obtain ⟨hty, hne⟩ := reg_inv hc hk
      obtain ⟨as, hdv, hrel⟩ := encFields_dec ctx J hc hJ fs xs (fitDecl_allWT hw) hxs
      have hall := allDeclared_ok ctx decl decl as fs (fun _ h => h) hrel hw
      obtain ⟨fs', hb, hnorm⟩ := buildFields_ok ctx J as decl as fs hrel hw (decl_nodup hc hd) (fun _ _ => rfl)
      refine ⟨.struct n fs', ?_, ?_, rfl, rfl⟩
      · simp [IS.structN, dec, hne, hdv, assembleStruct, tyOfKeyE_of hty, hd, hall, hb, bind, Except.bind, pure, Except.pure]
      · simp [GoVal.norm, hnorm]
theorem encVals_dec (ctx : Ctx) (J : JLayer) (hc : ctx.ok = true) (hJ : J.OK) :
    ∀ (vs : GoVals) (iss : ISs), vs.allWT ctx = true → encVals ctx J Fall vs = .ok iss →
      ∃ as, decVals ctx J Fall iss = .ok as ∧ RelVals as vs
  | .nil, iss, _, he => by
    simp only [encVals] at he; have := ok_inj he; subst this
    exact ⟨.nil, rfl, trivial⟩
  | .cons v r, iss, hw, he => by
    simp only [GoVals.allWT, Bool.and_eq_true, Bool.or_eq_true] at hw
    simp only [encVals, bind_ok, pure, Except.pure] at he
    obtain ⟨i, hi, xs, hxs, his⟩ := he
    have his := ok_inj his
    subst his
    obtain ⟨as, hdv, hrel⟩ := encVals_dec ctx J hc hJ r xs hw.2 hxs
    rcases hw.1 with hnil | hwt
    · have := isINil_eq_true hnil; subst this
      simp only [encP] at hi; have := ok_inj hi; subst this
      exact ⟨.cons .inil as, by simp [decVals, dec, hdv, bind, Except.bind, pure, Except.pure], R_refl_inil, hrel⟩
    · obtain ⟨v', hd, hr⟩ := encP_dec ctx J hc hJ v 0 i hwt hi
      exact ⟨.cons v' as, by simp [decVals, hd, wrap, hdv, bind, Except.bind, pure, Except.pure], hr, hrel⟩
theorem encMapKVs_dec (ctx : Ctx) (J : JLayer) (hc : ctx.ok = true) (hJ : J.OK) (kt : GoTy) :
    ∀ (kvs : GoKVs) (iss : ISKVs), kvs.allWT ctx = true → encMapKVs ctx J Fall kt kvs = .ok iss →
      ∃ as, decKVs ctx J Fall iss = .ok as ∧ RelMap J kt as kvs
  | .nil, iss, _, he => by
    simp only [encMapKVs] at he; have := ok_inj he; subst this
    exact ⟨.nil, rfl, trivial⟩
  | .cons kb v r, iss, hw, he => by
    simp only [GoKVs.allWT, Bool.and_eq_true, Bool.or_eq_true] at hw
    simp only [encMapKVs, bind_ok, pure, Except.pure] at he
    obtain ⟨i, hi, ks, hks, xs, hxs, his⟩ := he
    have his := ok_inj his
    subst his
    obtain ⟨as, hdv, hrel⟩ := encMapKVs_dec ctx J hc hJ kt r xs hw.2 hxs
    rcases hw.1 with hnil | hwt
    · have := isINil_eq_true hnil; subst this
      simp only [encP] at hi; have := ok_inj hi; subst this
      exact ⟨.cons ks .inil as, by simp [decKVs, dec, hdv, bind, Except.bind, pure, Except.pure], hks, R_refl_inil, hrel⟩
    · obtain ⟨v', hd, hr⟩ := encP_dec ctx J hc hJ v 0 i hwt hi
      exact ⟨.cons ks v' as, by simp [decKVs, hd, wrap, hdv, bind, Except.bind, pure, Except.pure], hks, hr, hrel⟩
theorem encFields_dec (ctx : Ctx) (J : JLayer) (hc : ctx.ok = true) (hJ : J.OK) :
    ∀ (fs : GoKVs) (iss : ISKVs), fs.allWT ctx = true → encFields ctx J Fall fs = .ok iss →
      ∃ as, decKVs ctx J Fall iss = .ok as ∧ RelKVs as fs
  | .nil, iss, _, he => by
    simp only [encFields] at he; have := ok_inj he; subst this
    exact ⟨.nil, rfl, trivial⟩
  | .cons f v r, iss, hw, he => by
    simp only [GoKVs.allWT, Bool.and_eq_true, Bool.or_eq_true] at hw
    simp only [encFields, bind_ok, pure, Except.pure] at he
    obtain ⟨i, hi, xs, hxs, his⟩ := he
    have his := ok_inj his
    subst his
    obtain ⟨as, hdv, hrel⟩ := encFields_dec ctx J hc hJ r xs hw.2 hxs
    rcases hw.1 with hnil | hwt
    · have := isINil_eq_true hnil; subst this
      simp only [encP] at hi; have := ok_inj hi; subst this
      exact ⟨.cons f .inil as, by simp [decKVs, dec, hdv, bind, Except.bind, pure, Except.pure], rfl, R_refl_inil, hrel⟩
    · obtain ⟨v', hd, hr⟩ := encP_dec ctx J hc hJ v 0 i hwt hi
      exact ⟨.cons f v' as, by simp [decKVs, hd, wrap, hdv, bind, Except.bind, pure, Except.pure], rfl, hr, hrel⟩
end

/-- the encoder never answers "no value" (nil `*internalStruct`) for an actual value -/
theorem encP_not_absent (ctx : Ctx) (J : JLayer) (F : Facts) :
    ∀ (v : GoVal) (k : Nat) (is : IS), v.isINil = false → encP ctx J F k v = .ok is → is ≠ .absent
  | .inil, _, _, h, _ => by simp [GoVal.isINil] at h
  | .basic t p, k, is, _, he => by
    simp only [encP, bind_ok, pure, Except.pure] at he
    obtain ⟨_, _, _, _, his⟩ := he
    have := ok_inj his; subst this; simp [IS.basicN]
  | .nilptr t, k, is, _, he => by
    simp only [encP, bind_ok, pure, Except.pure] at he
    obtain ⟨_, _, his⟩ := he
    have := ok_inj his; subst this; simp [IS.basicN]
  | .ptr v, k, is, _, he => by
    simp only [encP] at he
    cases hv : v.isINil with
    | true => simp [hv] at he
    | false =>
      simp only [hv, Bool.false_eq_true, ↓reduceIte] at he
      exact encP_not_absent ctx J F v (k + 1) is hv he
  | .slice et n vs, k, is, _, he => by
    simp only [encP, bind_ok, pure, Except.pure] at he
    obtain ⟨_, _, _, _, his⟩ := he
    have := ok_inj his; subst this; simp [IS.sliceN]
  | .map kt vt n kvs, k, is, _, he => by
    simp only [encP] at he
    cases hl : kt.keyable with
    | false => simp [hl, bind, Except.bind, throw, throwThe, MonadExceptOf.throw] at he
    | true =>
      simp only [hl, Bool.not_true, Bool.false_eq_true, ↓reduceIte, bind_ok, pure, Except.pure] at he
      obtain ⟨_, _, _, _, _, _, his⟩ := he
      have := ok_inj his; subst this; simp [IS.mapN]
  | .struct n fs, k, is, _, he => by
    simp only [encP, bind_ok, pure, Except.pure] at he
    obtain ⟨_, _, _, _, his⟩ := he
    have := ok_inj his; subst this; simp [IS.structN]

theorem unmarshalTop_of_ne {ctx : Ctx} {J : JLayer} {F : Facts} {is : IS} (h : is ≠ .absent) :
    unmarshalTop ctx J F is = dec ctx J F is := by
  cases is with
  | absent => exact absurd rfl h
  | mk => rfl

/-! ### the encoder accepts only values all of whose types are registered -/

mutual
theorem encP_regd (ctx : Ctx) (J : JLayer) (F : Facts) :
    ∀ (v : GoVal) (k : Nat) (is : IS), encP ctx J F k v = .ok is → v.regd ctx = true
  | .inil, _, _, _ => rfl
  | .basic t p, k, is, he => by
    simp only [encP, bind_ok, keyOfE_ok, pure, Except.pure] at he
    obtain ⟨key, hk, _⟩ := he
    simp [GoVal.regd, hk]
  | .nilptr t, k, is, he => by
    simp only [encP, bind_ok, keyOfE_ok, pure, Except.pure] at he
    obtain ⟨key, hk, _⟩ := he
    simp [GoVal.regd, hk]
  | .ptr v, k, is, he => by
    simp only [encP] at he
    cases hv : v.isINil with
    | true => simp [hv] at he
    | false =>
      simp only [hv, Bool.false_eq_true, ↓reduceIte] at he
      simpa [GoVal.regd] using encP_regd ctx J F v (k + 1) is he
  | .slice et n vs, k, is, he => by
    simp only [encP, bind_ok, keyOfE_ok, pure, Except.pure] at he
    obtain ⟨key, hk, xs, hxs, _⟩ := he
    simp [GoVal.regd, hk, encVals_regd ctx J F vs xs hxs]
  | .map kt vt n kvs, k, is, he => by
    simp only [encP] at he
    cases hl : kt.keyable with
    | false => simp [hl, bind, Except.bind, throw, throwThe, MonadExceptOf.throw] at he
    | true =>
      simp only [hl, Bool.not_true, Bool.false_eq_true, ↓reduceIte, bind_ok, keyOfE_ok, pure, Except.pure] at he
      obtain ⟨kk, hkk, vk, hvk, xs, hxs, _⟩ := he
      simp [GoVal.regd, hkk, hvk, encMapKVs_regd ctx J F kt kvs xs hxs]
  | .struct n fs, k, is, he => by
    simp only [encP, bind_ok, keyOfE_ok, pure, Except.pure] at he
    obtain ⟨key, hk, xs, hxs, _⟩ := he
    simp [GoVal.regd, hk, encFields_regd ctx J F fs xs hxs]
theorem encVals_regd (ctx : Ctx) (J : JLayer) (F : Facts) :
    ∀ (vs : GoVals) (iss : ISs), encVals ctx J F vs = .ok iss → vs.regd ctx = true
  | .nil, _, _ => rfl
  | .cons v r, iss, he => by
    simp only [encVals, bind_ok, pure, Except.pure] at he
    obtain ⟨i, hi, xs, hxs, _⟩ := he
    simp [GoVals.regd, encP_regd ctx J F v 0 i hi, encVals_regd ctx J F r xs hxs]
theorem encMapKVs_regd (ctx : Ctx) (J : JLayer) (F : Facts) (kt : GoTy) :
    ∀ (kvs : GoKVs) (iss : ISKVs), encMapKVs ctx J F kt kvs = .ok iss → kvs.regd ctx = true
  | .nil, _, _ => rfl
  | .cons kb v r, iss, he => by
    simp only [encMapKVs, bind_ok, pure, Except.pure] at he
    obtain ⟨i, hi, ks, _, xs, hxs, _⟩ := he
    simp [GoKVs.regd, encP_regd ctx J F v 0 i hi, encMapKVs_regd ctx J F kt r xs hxs]
theorem encFields_regd (ctx : Ctx) (J : JLayer) (F : Facts) :
    ∀ (fs : GoKVs) (iss : ISKVs), encFields ctx J F fs = .ok iss → fs.regd ctx = true
  | .nil, _, _ => rfl
  | .cons f v r, iss, he => by
    simp only [encFields, bind_ok, pure, Except.pure] at he
    obtain ⟨i, hi, xs, hxs, _⟩ := he
    simp [GoKVs.regd, encP_regd ctx J F v 0 i hi, encFields_regd ctx J F r xs hxs]
end

/-- "no value" (nil `*internalStruct`) is written for the nil interface only -/
theorem encP_absent_inil (ctx : Ctx) (J : JLayer) (F : Facts) (v : GoVal) (k : Nat)
    (h : encP ctx J F k v = .ok .absent) : v = .inil := by
  cases hv : v.isINil with
  | true => exact isINil_eq_true hv
  | false => exact absurd rfl (encP_not_absent ctx J F v k .absent hv h)

end EinoV.C12
