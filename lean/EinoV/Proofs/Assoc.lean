/-
  Lemmas about the association lists that stand for Go maps in the engine model.
-/
import EinoV.Model.Engine

namespace EinoV.Engine

theorem alookup_aset_same {α} (k : Key) (v : α) (l : List (Key × α)) :
    alookup k (aset k v l) = some v := by
  induction l with
  | nil => simp [aset, alookup]
  | cons p t ih =>
    obtain ⟨k', v'⟩ := p
    by_cases h : (k' == k) = true
    · simp [aset, alookup, h]
    · simp [aset, alookup, h, ih]

theorem alookup_aset_other {α} (k k' : Key) (v : α) (l : List (Key × α)) (h : k' ≠ k) :
    alookup k' (aset k v l) = alookup k' l := by
  induction l with
  | nil =>
    have : (k == k') = false := by simpa using fun e => h e.symm
    simp [aset, alookup, this]
  | cons p t ih =>
    obtain ⟨k₁, v₁⟩ := p
    by_cases h1 : (k₁ == k) = true
    · have e : k₁ = k := by simpa using h1
      have : (k == k') = false := by simpa using fun e' => h e'.symm
      subst e
      simp [aset, alookup, this]
    · simp only [aset, h1, Bool.false_eq_true, ↓reduceIte, alookup]
      by_cases h2 : (k₁ == k') = true
      · simp [h2]
      · simp [h2, ih]

theorem alookup_none_of_not_mem {α} (k : Key) (l : List (Key × α)) (h : k ∉ akeys l) :
    alookup k l = none := by
  induction l with
  | nil => rfl
  | cons p t ih =>
    obtain ⟨k', v'⟩ := p
    simp only [akeys, List.map_cons, List.mem_cons, not_or] at h
    have : (k' == k) = false := by simpa using fun e => h.1 e.symm
    simp only [alookup, this, Bool.false_eq_true, ↓reduceIte]
    exact ih (by simpa [akeys] using h.2)

theorem aset_append_new {α} (k : Key) (v : α) (l : List (Key × α)) (h : k ∉ akeys l) :
    aset k v l = l ++ [(k, v)] := by
  induction l with
  | nil => rfl
  | cons p t ih =>
    obtain ⟨k', v'⟩ := p
    simp only [akeys, List.map_cons, List.mem_cons, not_or] at h
    have : (k' == k) = false := by simpa using fun e => h.1 e.symm
    simp only [aset, this, Bool.false_eq_true, ↓reduceIte, List.cons_append, List.cons.injEq, true_and]
    exact ih (by simpa [akeys] using h.2)

theorem aset_idem {α} (k : Key) (v : α) (l : List (Key × α)) (h : alookup k l = some v) :
    aset k v l = l := by
  induction l with
  | nil => simp [alookup] at h
  | cons p t ih =>
    obtain ⟨k', v'⟩ := p
    by_cases h1 : (k' == k) = true
    · have e : k' = k := by simpa using h1
      simp only [alookup, h1, ↓reduceIte, Option.some.injEq] at h
      simp [aset, h1, e, h]
    · simp only [alookup, h1, Bool.false_eq_true, ↓reduceIte] at h
      simp [aset, h1, ih h]

theorem akeys_aset {α} (k : Key) (v : α) (l : List (Key × α)) :
    akeys (aset k v l) = if k ∈ akeys l then akeys l else akeys l ++ [k] := by
  induction l with
  | nil => simp [aset, akeys]
  | cons p t ih =>
    obtain ⟨k', v'⟩ := p
    by_cases h1 : (k' == k) = true
    · have e : k' = k := by simpa using h1
      simp [aset, h1, akeys, e]
    · have ne : k' ≠ k := by simpa using h1
      simp only [aset, h1, Bool.false_eq_true, ↓reduceIte]
      simp only [akeys, List.map_cons, List.mem_cons] at ih ⊢
      rw [ih]
      have : ¬ (k = k') := fun e => ne e.symm
      by_cases hm : k ∈ List.map (fun x => x.1) t
      · simp [hm]
      · simp [hm, this]

theorem nodup_akeys_aset {α} (k : Key) (v : α) (l : List (Key × α)) (h : (akeys l).Nodup) :
    (akeys (aset k v l)).Nodup := by
  rw [akeys_aset]
  split
  · exact h
  · rename_i hk
    exact List.nodup_append.mpr ⟨h, by simp, by
      intro a ha b hb
      simp at hb; subst hb
      exact fun e => hk (e ▸ ha)⟩

end EinoV.Engine
