/-
  C14 — the final sort of `concatToolCalls` (Model/C14.lean: `tcLess`, `sortStable`,
  `finalSort`, `concatTCGo`).

  Main results, for lists of every length:
  * `sortStable_perm`, `sortStable_sorted`, `sortStable_filter_none` — the stable sort returns a
    sorted permutation in which the calls without an index keep their arrival order;
  * `sortStable_merged` — on `merged` = (calls without an index) ++ (one call per index in ANY
    order) the stable sort returns `TCState.out`;
  * `concatTCGo_eq` — hence the code-level function equals the specification-level `concatTC`
    for every iteration order of the Go map.
-/
import EinoV.Model.C14
import EinoV.Proofs.C14

namespace EinoV.C14

/-! ### the comparator is a strict weak order -/

theorem tcLess_none_right (y n : TC) (hn : n.index = none) : tcLess y n = false := by
  unfold tcLess; rw [hn]; cases y.index <;> rfl

theorem tcLess_asymm (a b : TC) (h : tcLess a b = true) : tcLess b a = false := by
  unfold tcLess at *
  cases ha : a.index <;> cases hb : b.index <;> simp_all
  omega

/-- "not less" is transitive -/
theorem tcLess_negtrans (a y x : TC) (h1 : tcLess a y = false) (h2 : tcLess y x = false) :
    tcLess a x = false := by
  unfold tcLess at *
  cases ha : a.index <;> cases hy : y.index <;> cases hx : x.index <;> simp_all
  omega

theorem tcLess_some (a b : TC) (i j : Int) (ha : a.index = some i) (hb : b.index = some j) :
    tcLess a b = decide (i < j) := by
  unfold tcLess; rw [ha, hb]

/-! ### the stable insertion sort -/

theorem insStable_none (n : TC) (hn : n.index = none) (l : List TC) : insStable n l = n :: l := by
  cases l with
  | nil => rfl
  | cons y ys => simp [insStable, tcLess_none_right y n hn]

theorem insStable_perm (x : TC) (l : List TC) : (insStable x l).Perm (x :: l) := by
  induction l with
  | nil => exact List.Perm.refl _
  | cons y ys ih =>
    unfold insStable
    split
    · exact (List.Perm.cons y ih).trans (List.Perm.swap x y ys)
    · exact List.Perm.refl _

theorem sortStable_cons (x : TC) (xs : List TC) : sortStable (x :: xs) = insStable x (sortStable xs) := rfl

theorem sortStable_perm (xs : List TC) : (sortStable xs).Perm xs := by
  induction xs with
  | nil => exact List.Perm.refl _
  | cons x xs ih =>
    rw [sortStable_cons]
    exact (insStable_perm x _).trans (List.Perm.cons x ih)

theorem insStable_sorted (x : TC) (l : List TC) (h : l.Pairwise (fun a b => tcLess b a = false)) :
    (insStable x l).Pairwise (fun a b => tcLess b a = false) := by
  induction l with
  | nil => simp [insStable]
  | cons y ys ih =>
    rw [List.pairwise_cons] at h
    unfold insStable
    split
    · rename_i hlt
      rw [List.pairwise_cons]
      refine ⟨?_, ih h.2⟩
      intro a ha
      rcases ((insStable_perm x ys).mem_iff.mp ha) with _ | ⟨_, ha'⟩
      · exact tcLess_asymm y x hlt
      · exact h.1 a ha'
    · rename_i hnlt
      have hyx : tcLess y x = false := by simpa using hnlt
      rw [List.pairwise_cons]
      refine ⟨?_, List.pairwise_cons.mpr h⟩
      intro a ha
      rcases List.mem_cons.mp ha with rfl | ha'
      · exact hyx
      · exact tcLess_negtrans a y x (h.1 a ha') hyx

theorem sortStable_sorted (xs : List TC) : (sortStable xs).Pairwise (fun a b => tcLess b a = false) := by
  induction xs with
  | nil => simp [sortStable]
  | cons x xs ih => rw [sortStable_cons]; exact insStable_sorted x _ ih

theorem insStable_filter_none (x : TC) (l : List TC) :
    (insStable x l).filter (fun c => c.index.isNone) = (x :: l).filter (fun c => c.index.isNone) := by
  cases hx : x.index with
  | none => rw [insStable_none x hx]
  | some i =>
    induction l with
    | nil => rfl
    | cons y ys ih =>
      unfold insStable
      split
      · rw [List.filter_cons, ih]
        simp [List.filter_cons, hx]
      · rfl

/-- the calls without an index come out of the stable sort in the order they went in -/
theorem sortStable_filter_none (xs : List TC) :
    (sortStable xs).filter (fun c => c.index.isNone) = xs.filter (fun c => c.index.isNone) := by
  induction xs with
  | nil => rfl
  | cons x xs ih =>
    rw [sortStable_cons, insStable_filter_none, List.filter_cons, List.filter_cons, ih]

theorem sortStable_nils_append (ns xs : List TC) (hn : ∀ c ∈ ns, c.index = none) :
    sortStable (ns ++ xs) = ns ++ sortStable xs := by
  induction ns with
  | nil => rfl
  | cons n ns ih =>
    rw [List.cons_append, sortStable_cons, ih (fun c hc => hn c (by simp [hc])),
      insStable_none n (hn n (by simp))]
    rfl

/-! ### one call per index, in any order -/

theorem key_inj (gs : List (Int × TC)) (h : gs.Pairwise (fun p q => p.1 < q.1)) :
    ∀ p ∈ gs, ∀ q ∈ gs, p.1 = q.1 → p = q := by
  induction gs with
  | nil => intro p hp; cases hp
  | cons g rest ih =>
    rw [List.pairwise_cons] at h
    intro p hp q hq hk
    simp only [List.mem_cons] at hp hq
    rcases hp with rfl | hp <;> rcases hq with rfl | hq
    · rfl
    · have := h.1 q hq; omega
    · have := h.1 p hp; omega
    · exact ih h.2 p hp q hq hk

theorem groups_sorted (gs : List (Int × TC)) (hi : GInv gs) :
    (gs.map (·.2)).Pairwise (fun a b => tcLess b a = false) := by
  rw [List.pairwise_map]
  refine List.Pairwise.imp_of_mem ?_ (gsorted_pairwise gs hi.1)
  intro p q hp hq hlt
  rw [tcLess_some q.2 p.2 q.1 p.1 (hi.2 q hq) (hi.2 p hp)]
  simp only [decide_eq_false_iff_not]
  omega

/-- the stable sort of the groups taken in any order is the ascending list of groups -/
theorem sortStable_groups (gs gs' : List (Int × TC)) (hi : GInv gs) (hp : gs'.Perm gs) :
    sortStable (gs'.map (·.2)) = gs.map (·.2) := by
  have hperm : (sortStable (gs'.map (·.2))).Perm (gs.map (·.2)) :=
    (sortStable_perm _).trans (hp.map _)
  refine List.Perm.eq_of_pairwise (le := fun a b => tcLess b a = false) ?_ (sortStable_sorted _) (groups_sorted gs hi) hperm
  intro a b ha hb hab hba
  have ha' : a ∈ gs.map (·.2) := hperm.mem_iff.mp ha
  obtain ⟨p, hp', rfl⟩ := List.mem_map.mp ha'
  obtain ⟨q, hq', rfl⟩ := List.mem_map.mp hb
  rw [tcLess_some q.2 p.2 q.1 p.1 (hi.2 q hq') (hi.2 p hp')] at hab
  rw [tcLess_some p.2 q.2 p.1 q.1 (hi.2 p hp') (hi.2 q hq')] at hba
  simp only [decide_eq_false_iff_not] at hab hba
  have hk : p.1 = q.1 := by omega
  rw [key_inj gs (gsorted_pairwise gs hi.1) p hp' q hq' hk]

/-- `merged` = the calls without an index in arrival order, then the groups in any order: the
    stable sort returns exactly `TCState.out`. -/
theorem sortStable_merged (s : TCState) (hi : SInv s) (gs' : List (Int × TC)) (hp : gs'.Perm s.groups) :
    sortStable (s.nils ++ gs'.map (·.2)) = s.out := by
  rw [sortStable_nils_append _ _ hi.1, sortStable_groups s.groups gs' hi.2 hp]
  rfl

/-- with a stable final sort the code-level function is the specification-level one, for
    every iteration order of the map of index groups -/
theorem concatTCGo_eq (cfg : Cfg) (hst : cfg.tcSortStable = true)
    (ord : List (Int × TC) → List (Int × TC)) (hord : ∀ l, (ord l).Perm l) (cs : List TC) :
    concatTCGo cfg ord cs = concatTC cfg cs := by
  unfold concatTCGo concatTC
  cases hx : cs.foldlM (stepTC cfg) ⟨[], []⟩ with
  | error e => rfl
  | ok s =>
    have hi := foldlM_stepTC_inv cfg cs _ _ sinv_init hx
    simp only [bind, Except.bind, pure, Except.pure, finalSort, hst, if_true]
    rw [sortStable_merged s hi _ (hord _)]

end EinoV.C14
