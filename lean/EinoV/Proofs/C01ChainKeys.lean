/-
  The node keys chain.go generates (`node_i`, `node_i_parallel_j`, `node_i_branch_key`) are
  pairwise distinct and differ from START / END — so the "no duplicate node key" conjunct of
  `Chain.WF` follows from the structural conditions (`stagesOK`).
-/
import EinoV.Model.C01Chain

namespace EinoV.Chain
open EinoV.Engine

def pfx : List Char := ['n', 'o', 'd', 'e', '_']

theorem toList_nodeKey (i : Nat) : (nodeKey i).toList = pfx ++ Nat.toDigits 10 i := by
  simp [nodeKey, String.toList_append, pfx]

theorem toList_parKey (i j : Nat) :
    (parKey i j).toList = pfx ++ Nat.toDigits 10 i ++ '_' :: ("parallel_".toList ++ Nat.toDigits 10 j) := by
  simp [parKey, nodeKey, String.toList_append, pfx]

theorem toList_brKey (i : Nat) (k : String) :
    (brKey i k).toList = pfx ++ Nat.toDigits 10 i ++ '_' :: ("branch_".toList ++ k.toList) := by
  simp [brKey, nodeKey, String.toList_append, pfx]

/-- the stage number written in a key: the characters after "node_" up to the next '_' -/
def keyIdx (k : Key) : List Char := (k.toList.drop 5).takeWhile (fun c => c != '_')

theorem takeWhile_all (l : List Char) (h : '_' ∉ l) : l.takeWhile (fun c => c != '_') = l := by
  induction l with
  | nil => rfl
  | cons a t ih =>
    simp only [List.mem_cons, not_or] at h
    have : (a != '_') = true := by simpa using fun e => h.1 e.symm
    simp [this, ih h.2]

theorem takeWhile_stop (l r : List Char) (h : '_' ∉ l) :
    (l ++ '_' :: r).takeWhile (fun c => c != '_') = l := by
  induction l with
  | nil => simp
  | cons a t ih =>
    simp only [List.mem_cons, not_or] at h
    have : (a != '_') = true := by simpa using fun e => h.1 e.symm
    simp [this, ih h.2]

theorem keyIdx_nodeKey (i : Nat) : keyIdx (nodeKey i) = Nat.toDigits 10 i := by
  simp only [keyIdx, toList_nodeKey, pfx]
  exact takeWhile_all _ Nat.underscore_not_in_toDigits

theorem keyIdx_parKey (i j : Nat) : keyIdx (parKey i j) = Nat.toDigits 10 i := by
  simp only [keyIdx, toList_parKey, pfx, List.append_assoc]
  exact takeWhile_stop _ _ Nat.underscore_not_in_toDigits

theorem keyIdx_brKey (i : Nat) (k : String) : keyIdx (brKey i k) = Nat.toDigits 10 i := by
  simp only [keyIdx, toList_brKey, pfx, List.append_assoc]
  exact takeWhile_stop _ _ Nat.underscore_not_in_toDigits

theorem toDigits_inj (a b : Nat) (h : Nat.toDigits 10 a = Nat.toDigits 10 b) : a = b := by
  have ha := @Nat.ofDigitChars_ten_toDigits a
  have hb := @Nat.ofDigitChars_ten_toDigits b
  rw [h] at ha
  exact ha.symm.trans hb

theorem repr_inj' (a b : Nat) (h : toString a = toString b) : a = b := by
  apply toDigits_inj
  have := congrArg String.toList h
  simpa using this

theorem parKey_inj (i j j' : Nat) (h : parKey i j = parKey i j') : j = j' := by
  unfold parKey at h
  exact repr_inj' j j' ((String.append_right_inj _).mp h)

theorem brKey_inj (i : Nat) (k k' : String) (h : brKey i k = brKey i k') : k = k' := by
  unfold brKey at h
  exact (String.append_right_inj _).mp h

theorem parNodes_keys (i : Nat) (subs : List (String × Fn)) (j : Nat) :
    ∀ k ∈ (parNodes i j subs).map (·.1), ∃ j', j ≤ j' ∧ k = parKey i j' := by
  induction subs generalizing j with
  | nil => intro k hk; simp [parNodes] at hk
  | cons kf t ih =>
    obtain ⟨k0, f⟩ := kf
    intro k hk
    simp only [parNodes, List.map_cons, List.mem_cons] at hk
    rcases hk with rfl | hk
    · exact ⟨j, Nat.le_refl _, rfl⟩
    · obtain ⟨j', h1, h2⟩ := ih (j + 1) k hk
      exact ⟨j', by omega, h2⟩

theorem parNodes_nodup (i : Nat) (subs : List (String × Fn)) (j : Nat) :
    ((parNodes i j subs).map (·.1)).Nodup := by
  induction subs generalizing j with
  | nil => simp [parNodes]
  | cons kf t ih =>
    obtain ⟨k0, f⟩ := kf
    simp only [parNodes, List.map_cons, List.nodup_cons]
    refine ⟨?_, ih (j + 1)⟩
    intro hm
    obtain ⟨j', h1, h2⟩ := parNodes_keys i t (j + 1) _ hm
    have := parKey_inj i j j' h2
    omega

theorem brKeys_nodup (i : Nat) (subs : List (String × Fn)) (h : (subs.map (·.1)).Nodup) :
    (subs.map (fun kf => brKey i kf.1)).Nodup := by
  induction subs with
  | nil => simp
  | cons kf t ih =>
    simp only [List.map_cons, List.nodup_cons] at h ⊢
    refine ⟨?_, ih h.2⟩
    intro hm
    obtain ⟨x, hx, he⟩ := List.mem_map.mp hm
    have := brKey_inj i _ _ he
    exact h.1 (this ▸ List.mem_map.mpr ⟨x, hx, rfl⟩)

/-- what every key of stage `i` looks like -/
theorem stageKeys_shape (i : Nat) (st : Stage) :
    ∀ k ∈ stageKeys i st, keyIdx k = Nat.toDigits 10 i ∧ k.toList.head? = some 'n' := by
  intro k hk
  cases st with
  | lambda f =>
    simp only [stageKeys, stageNodes, List.map_cons, List.map_nil, List.mem_singleton] at hk
    subst hk; exact ⟨keyIdx_nodeKey i, by simp [toList_nodeKey, pfx]⟩
  | passthrough =>
    simp only [stageKeys, stageNodes, List.map_cons, List.map_nil, List.mem_singleton] at hk
    subst hk; exact ⟨keyIdx_nodeKey i, by simp [toList_nodeKey, pfx]⟩
  | parallel subs =>
    obtain ⟨j, _, rfl⟩ := parNodes_keys i subs 0 k hk
    exact ⟨keyIdx_parKey i j, by simp [toList_parKey, pfx]⟩
  | branch cond subs =>
    simp only [stageKeys, stageNodes, List.map_map, List.mem_map, Function.comp] at hk
    obtain ⟨kf, _, rfl⟩ := hk
    exact ⟨keyIdx_brKey i kf.1, by simp [toList_brKey, pfx]⟩

theorem stageKeys_nodup (pm : Bool) (i : Nat) (st : Stage) (rest : Chain)
    (h : stagesOK pm (st :: rest) = true) : (stageKeys i st).Nodup := by
  cases st with
  | lambda f => simp [stageKeys, stageNodes]
  | passthrough => simp [stageKeys, stageNodes]
  | parallel subs => exact parNodes_nodup i subs 0
  | branch cond subs =>
    simp only [stagesOK, Bool.and_eq_true, distinctKeys] at h
    have hn : (subs.map (·.1)).Nodup := by
      have := h.1.2.2
      clear h
      induction subs with
      | nil => simp
      | cons a t ih =>
        simp only [List.map_cons, nodupB, Bool.and_eq_true, Bool.not_eq_true'] at this
        simp only [List.map_cons, List.nodup_cons]
        exact ⟨by simpa using this.1, ih this.2⟩
    have e : stageKeys i (.branch cond subs) = subs.map (fun kf => brKey i kf.1) := by
      simp [stageKeys, stageNodes, List.map_map, Function.comp]
    rw [e]; exact brKeys_nodup i subs hn

theorem lowerFrom_keys_shape : ∀ (c : Chain) (i : Nat) (pre : List Key),
    ∀ k ∈ (lowerFrom i pre c).nodes.map (·.1),
      (∃ j, i ≤ j ∧ keyIdx k = Nat.toDigits 10 j) ∧ k.toList.head? = some 'n' := by
  intro c
  induction c with
  | nil => intro i pre k hk; simp [lowerFrom] at hk
  | cons st rest ih =>
    intro i pre k hk
    simp only [lowerFrom, List.map_append, List.mem_append] at hk
    rcases hk with hk | hk
    · have := stageKeys_shape i st k hk
      exact ⟨⟨i, Nat.le_refl _, this.1⟩, this.2⟩
    · obtain ⟨⟨j, h1, h2⟩, h3⟩ := ih (i + 1) (stageKeys i st) k hk
      exact ⟨⟨j, by omega, h2⟩, h3⟩

theorem lowerFrom_keys_nodup : ∀ (c : Chain) (i : Nat) (pre : List Key) (pm : Bool),
    stagesOK pm c = true → ((lowerFrom i pre c).nodes.map (·.1)).Nodup := by
  intro c
  induction c with
  | nil => intros; simp [lowerFrom]
  | cons st rest ih =>
    intro i pre pm hok
    have hok' : stagesOK st.multi rest = true := by
      simp only [stagesOK, Bool.and_eq_true] at hok; exact hok.2
    simp only [lowerFrom, List.map_append]
    rw [List.nodup_append]
    refine ⟨stageKeys_nodup pm i st rest hok, ih (i + 1) (stageKeys i st) st.multi hok', ?_⟩
    intro a ha b hb e
    subst e
    have h1 := (stageKeys_shape i st a ha).1
    obtain ⟨⟨j, hj, h2⟩, _⟩ := lowerFrom_keys_shape rest (i + 1) (stageKeys i st) a hb
    have := toDigits_inj i j (h1.symm.trans h2)
    omega

/-- **the generated node keys never collide**: for every chain that passes the Append*
    checks, the keys are pairwise distinct and none is START or END -/
theorem lowerKeys_nodup (c : Chain) (h : stagesOK false c = true) :
    (START :: (lowerKeys c ++ [END])).Nodup := by
  have hn := lowerFrom_keys_nodup c 0 [START] false h
  have hshape := lowerFrom_keys_shape c 0 [START]
  have hS : START ∉ lowerKeys c := fun hm => by
    have := (hshape START hm).2
    simp [START] at this
  have hE : END ∉ lowerKeys c := fun hm => by
    have := (hshape END hm).2
    simp [END] at this
  simp only [List.nodup_cons, List.mem_append, List.mem_singleton, not_or]
  refine ⟨⟨hS, by decide⟩, ?_⟩
  rw [List.nodup_append]
  exact ⟨hn, by simp, fun a ha b hb e => by
    have : b = END := by simpa using hb
    exact hE (this ▸ e ▸ ha)⟩

/-- `Chain.WF` from the structural conditions alone -/
theorem wf_of_stagesOK (c : Chain) (hne : c ≠ []) (h : stagesOK false c = true) : c.WF :=
  ⟨hne, h, lowerKeys_nodup c h⟩

end EinoV.Chain
