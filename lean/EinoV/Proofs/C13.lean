/-
  C13 — helper lemmas about the error-wrapping model (no property statements here; those
  are in EinoV/Props/C13.lean).
-/
import EinoV.Model.C13

namespace EinoV.C13


theorem errorsIs_of_asInternal {x : GoErr} {g np sp o} (h : asInternal x = some (g, np, sp, o))
    (t : Nat) : errorsIs true x t = errorsIs true o t := by
  induction x with
  | leaf i => simp [asInternal] at h
  | wrapf e ih => simp only [asInternal] at h; simpa [errorsIs] using ih h
  | internal g' np' sp' o' _ =>
    simp only [asInternal, Option.some.injEq, Prod.mk.injEq] at h
    obtain ⟨_, _, _, rfl⟩ := h
    simp [errorsIs]
  | panicE i => simp [asInternal] at h
  | interrupt => simp [asInternal] at h

theorem isInterrupt_of_asInternal {x : GoErr} {g np sp o} (h : asInternal x = some (g, np, sp, o)) :
    isInterrupt true x = isInterrupt true o := by
  induction x with
  | leaf i => simp [asInternal] at h
  | wrapf e ih => simp only [asInternal] at h; simpa [isInterrupt] using ih h
  | internal g' np' sp' o' _ =>
    simp only [asInternal, Option.some.injEq, Prod.mk.injEq] at h
    obtain ⟨_, _, _, rfl⟩ := h
    simp [isInterrupt]
  | panicE i => simp [asInternal] at h
  | interrupt => simp [asInternal] at h

theorem errorsIs_wrapNode (k : Key) (x : GoErr) (t : Nat) :
    errorsIs true (wrapNode true k x) t = errorsIs true x t := by
  unfold wrapNode
  split
  · rfl
  · split
    · rename_i h; simp [errorsIs, errorsIs_of_asInternal h]
    · simp [errorsIs]

theorem errorsIs_wrapStream (a : Nat) (x : GoErr) (t : Nat) :
    errorsIs true (wrapStream true a x) t = errorsIs true x t := by
  unfold wrapStream
  split
  · rfl
  · split
    · rename_i h; simp [errorsIs, errorsIs_of_asInternal h]
    · simp [errorsIs]

theorem isInterrupt_wrapNode (k : Key) (x : GoErr) :
    isInterrupt true (wrapNode true k x) = isInterrupt true x := by
  unfold wrapNode
  split
  · rfl
  · split
    · rename_i h; simp [isInterrupt, isInterrupt_of_asInternal h]
    · simp [isInterrupt]

theorem isInterrupt_wrapStream (a : Nat) (x : GoErr) :
    isInterrupt true (wrapStream true a x) = isInterrupt true x := by
  unfold wrapStream
  split
  · rfl
  · split
    · rename_i h; simp [isInterrupt, isInterrupt_of_asInternal h]
    · simp [isInterrupt]

theorem nodePath_wrapNode (k : Key) (x : GoErr) (h : isInterrupt true x = false) :
    nodePath (wrapNode true k x) = k :: nodePath x := by
  unfold wrapNode nodePath
  simp only [h, Bool.false_eq_true, ↓reduceIte]
  cases hx : asInternal x with
  | none => simp [asInternal]
  | some p => obtain ⟨g, np, sp, o⟩ := p; simp [asInternal]

theorem nodePath_wrapStream (a : Nat) (x : GoErr) :
    nodePath (wrapStream true a x) = nodePath x := by
  unfold wrapStream
  split
  · rfl
  · unfold nodePath
    cases hx : asInternal x with
    | none => simp [asInternal]
    | some p => obtain ⟨g, np, sp, o⟩ := p; simp [asInternal]

theorem adaptors_fold (as : List Nat) (x : GoErr) (t : Nat) :
    errorsIs true (as.foldr (fun a acc => wrapStream true a acc) x) t = errorsIs true x t
    ∧ isInterrupt true (as.foldr (fun a acc => wrapStream true a acc) x) = isInterrupt true x
    ∧ nodePath (as.foldr (fun a acc => wrapStream true a acc) x) = nodePath x := by
  induction as with
  | nil => simp
  | cons a as ih =>
    obtain ⟨h1, h2, h3⟩ := ih
    simp only [List.foldr_cons]
    refine ⟨?_, ?_, ?_⟩
    · rw [errorsIs_wrapStream, h1]
    · rw [isInterrupt_wrapStream, h2]
    · rw [nodePath_wrapStream, h3]

theorem userErr_not_interrupt {e : GoErr} (h : userErr e = true) : isInterrupt true e = false := by
  induction e with
  | leaf i => rfl
  | wrapf e ih => simp only [userErr] at h; simpa [isInterrupt] using ih h
  | internal => simp [userErr] at h
  | panicE i => rfl
  | interrupt => simp [userErr] at h

theorem userErr_no_internal {e : GoErr} (h : userErr e = true) : asInternal e = none := by
  induction e with
  | leaf i => rfl
  | wrapf e ih => simp only [userErr] at h; simpa [asInternal] using ih h
  | internal => simp [userErr] at h
  | panicE i => rfl
  | interrupt => simp [userErr] at h

theorem failThrough_all (levels : List Level) (x : GoErr) (t : Nat) :
    errorsIs true (failThrough true levels x) t = errorsIs true x t
    ∧ isInterrupt true (failThrough true levels x) = isInterrupt true x
    ∧ (isInterrupt true x = false →
        nodePath (failThrough true levels x) = levels.map (·.key) ++ nodePath x) := by
  induction levels with
  | nil => simp [failThrough]
  | cons l ls ih =>
    obtain ⟨h1, h2, h3⟩ := ih
    obtain ⟨a1, a2, a3⟩ := adaptors_fold l.adaptors (failThrough true ls x) t
    simp only [failThrough]
    refine ⟨?_, ?_, ?_⟩
    · rw [errorsIs_wrapNode, a1, h1]
    · rw [isInterrupt_wrapNode, a2, h2]
    · intro hx
      rw [nodePath_wrapNode _ _ (by rw [a2, h2, hx]), a3, h3 hx]
      simp


/-! ### the step model: panics at any site, the state lock -/

/-- neither blocked nor escaped -/
def TState.good : TState → Prop
  | .running => True
  | .finished _ => True
  | .blocked => False
  | .escaped => False

/-- the events from an arbitrary state (`runEvents` starts from `StepSt.init`) -/
def runFrom (f : ExecFacts) (st : StepSt) (evs : List (Key × Act)) : StepSt := evs.foldl (stepEv f) st

theorem runEvents_eq (f : ExecFacts) (evs : List (Key × Act)) : runEvents f evs = runFrom f .init evs := rfl

theorem runFrom_append (f : ExecFacts) (st : StepSt) (a b : List (Key × Act)) :
    runFrom f st (a ++ b) = runFrom f (runFrom f st a) b := by
  simp [runFrom, List.foldl_append]

theorem set_tasks_same (st : StepSt) (k : Key) (v : TState) : (st.set k v).tasks k = v := by
  simp [StepSt.set]

theorem set_tasks_other (st : StepSt) {k k' : Key} (v : TState) (h : k' ≠ k) :
    (st.set k v).tasks k' = st.tasks k' := by
  simp [StepSt.set, h]

/-- a task that was handed back keeps its result, whatever happens afterwards (any facts) -/
theorem stepEv_finished_stable (f : ExecFacts) (st : StepSt) (ev : Key × Act) (k : Key) (r : Option GoErr)
    (h : st.tasks k = .finished r) : (stepEv f st ev).tasks k = .finished r := by
  obtain ⟨k0, a⟩ := ev
  unfold stepEv
  cases hk : st.tasks k0 with
  | running =>
    have hne : k ≠ k0 := by intro he; rw [he, hk] at h; cases h
    cases a with
    | useState p =>
      cases p with
      | none => by_cases hl : st.leaked = true <;> simp [hl, StepSt.set, hne, h]
      | some i => by_cases hl : st.leaked = true <;> simp [hl, StepSt.set, hne, h]
    | panicBody i => simp [StepSt.set, hne, h]
    | fail e => simp [StepSt.set, hne, h]
    | done => simp [StepSt.set, hne, h]
  | finished r' => simpa using h
  | blocked => simpa using h
  | escaped => simpa using h

theorem runFrom_finished_stable (f : ExecFacts) (evs : List (Key × Act)) (st : StepSt) (k : Key) (r : Option GoErr)
    (h : st.tasks k = .finished r) : (runFrom f st evs).tasks k = .finished r := by
  induction evs generalizing st with
  | nil => simpa [runFrom] using h
  | cons ev rest ih =>
    have := ih (stepEv f st ev) (stepEv_finished_stable f st ev k r h)
    simpa [runFrom] using this

/-- with the three facts `true`: the lock is never left behind, no task blocks, no panic escapes -/
theorem stepEv_good (st : StepSt) (ev : Key × Act) (h1 : st.leaked = false) (h2 : ∀ k, (st.tasks k).good) :
    (stepEv ⟨true, true, true⟩ st ev).leaked = false ∧ ∀ k, ((stepEv ⟨true, true, true⟩ st ev).tasks k).good := by
  obtain ⟨k0, a⟩ := ev
  unfold stepEv
  cases hk : st.tasks k0 with
  | running =>
    cases a with
    | useState p =>
      cases p with
      | none => simp [h1]; exact h2
      | some i =>
        simp only [h1, Bool.false_eq_true, if_false, Bool.not_true]
        refine ⟨by simp, fun k => ?_⟩
        by_cases hkk : k = k0
        · subst hkk; simp [StepSt.set, afterPanic, TState.good]
        · simpa [StepSt.set, hkk] using h2 k
    | panicBody i =>
      refine ⟨by simpa [StepSt.set] using h1, fun k => ?_⟩
      by_cases hkk : k = k0
      · subst hkk; simp [StepSt.set, afterPanic, TState.good]
      · simpa [StepSt.set, hkk] using h2 k
    | fail e =>
      refine ⟨by simpa [StepSt.set] using h1, fun k => ?_⟩
      by_cases hkk : k = k0
      · subst hkk; simp [StepSt.set, TState.good]
      · simpa [StepSt.set, hkk] using h2 k
    | done =>
      refine ⟨by simpa [StepSt.set] using h1, fun k => ?_⟩
      by_cases hkk : k = k0
      · subst hkk; simp [StepSt.set, TState.good]
      · simpa [StepSt.set, hkk] using h2 k
  | finished r' => exact ⟨h1, h2⟩
  | blocked => exact ⟨h1, h2⟩
  | escaped => exact ⟨h1, h2⟩

theorem runFrom_good (evs : List (Key × Act)) (st : StepSt) (h1 : st.leaked = false) (h2 : ∀ k, (st.tasks k).good) :
    (runFrom ⟨true, true, true⟩ st evs).leaked = false ∧ ∀ k, ((runFrom ⟨true, true, true⟩ st evs).tasks k).good := by
  induction evs generalizing st with
  | nil => exact ⟨h1, h2⟩
  | cons ev rest ih =>
    obtain ⟨g1, g2⟩ := stepEv_good st ev h1 h2
    simpa [runFrom] using ih (stepEv ⟨true, true, true⟩ st ev) g1 g2

theorem runEvents_good (evs : List (Key × Act)) :
    (runEvents ⟨true, true, true⟩ evs).leaked = false ∧ ∀ k, ((runEvents ⟨true, true, true⟩ evs).tasks k).good :=
  runFrom_good evs .init rfl (fun _ => trivial)

/-- a running task that panics (inside a critical section on the state, or anywhere else in
    its body) is handed back with the panic as its error -/
theorem stepEv_panic (st : StepSt) (k : Key) (a : Act) (i : Nat) (hl : st.leaked = false)
    (hr : st.tasks k = .running) (ha : a = .useState (some i) ∨ a = .panicBody i) :
    (stepEv ⟨true, true, true⟩ st (k, a)).tasks k = .finished (some (.panicE i)) := by
  rcases ha with rfl | rfl <;> simp [stepEv, hr, hl, StepSt.set, afterPanic]

/-- with good task states the step result is `reported` -/
theorem stepResult_reported_of_good (f : ExecFacts) (hu asIs : Bool) (order : List Key) (evs : List (Key × Act))
    (h : ∀ k, ((runEvents f evs).tasks k).good) :
    stepResult f hu asIs order evs = .reported (reportStep hu asIs (finishedOf (runEvents f evs) order)) := by
  unfold stepResult
  have hb : (order.any fun k => (runEvents f evs).tasks k == .blocked) = false := by
    rw [List.any_eq_false]; intro k _ hk
    have := h k; simp only [beq_iff_eq] at hk; rw [hk] at this; exact this
  have he : (order.any fun k => (runEvents f evs).tasks k == .escaped) = false := by
    rw [List.any_eq_false]; intro k _ hk
    have := h k; simp only [beq_iff_eq] at hk; rw [hk] at this; exact this
  simp [hb, he]


end EinoV.C13
