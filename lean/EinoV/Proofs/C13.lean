/-
  C13 — helper lemmas about the error-wrapping model (no property statements here; those
  are in EinoV/Props/C13.lean).
-/
import EinoV.Model.C13

namespace EinoV.C13


theorem errorsIs_of_asInternal {x : GoErr} {g np sp o} (h : asInternal x = some (g, np, sp, o))
    (t : Nat) : errorsIs true x t = errorsIs true o t := by
  induction x with
  | leaf i => simp [asInternal] at h
  | wrapf e ih => simp only [asInternal] at h; simpa [errorsIs] using ih h
  | internal g' np' sp' o' _ =>
    simp only [asInternal, Option.some.injEq, Prod.mk.injEq] at h
    obtain ⟨_, _, _, rfl⟩ := h
    simp [errorsIs]
  | panicE i => simp [asInternal] at h
  | interrupt => simp [asInternal] at h

theorem isInterrupt_of_asInternal {x : GoErr} {g np sp o} (h : asInternal x = some (g, np, sp, o)) :
    isInterrupt true x = isInterrupt true o := by
  induction x with
  | leaf i => simp [asInternal] at h
  | wrapf e ih => simp only [asInternal] at h; simpa [isInterrupt] using ih h
  | internal g' np' sp' o' _ =>
    simp only [asInternal, Option.some.injEq, Prod.mk.injEq] at h
    obtain ⟨_, _, _, rfl⟩ := h
    simp [isInterrupt]
  | panicE i => simp [asInternal] at h
  | interrupt => simp [asInternal] at h

theorem errorsIs_wrapNode (k : Key) (x : GoErr) (t : Nat) :
    errorsIs true (wrapNode true k x) t = errorsIs true x t := by
  unfold wrapNode
  split
  · rfl
  · split
    · rename_i h; simp [errorsIs, errorsIs_of_asInternal h]
    · simp [errorsIs]

theorem errorsIs_wrapStream (a : Nat) (x : GoErr) (t : Nat) :
    errorsIs true (wrapStream true a x) t = errorsIs true x t := by
  unfold wrapStream
  split
  · rfl
  · split
    · rename_i h; simp [errorsIs, errorsIs_of_asInternal h]
    · simp [errorsIs]

theorem isInterrupt_wrapNode (k : Key) (x : GoErr) :
    isInterrupt true (wrapNode true k x) = isInterrupt true x := by
  unfold wrapNode
  split
  · rfl
  · split
    · rename_i h; simp [isInterrupt, isInterrupt_of_asInternal h]
    · simp [isInterrupt]

theorem isInterrupt_wrapStream (a : Nat) (x : GoErr) :
    isInterrupt true (wrapStream true a x) = isInterrupt true x := by
  unfold wrapStream
  split
  · rfl
  · split
    · rename_i h; simp [isInterrupt, isInterrupt_of_asInternal h]
    · simp [isInterrupt]

theorem nodePath_wrapNode (k : Key) (x : GoErr) (h : isInterrupt true x = false) :
    nodePath (wrapNode true k x) = k :: nodePath x := by
  unfold wrapNode nodePath
  simp only [h, Bool.false_eq_true, ↓reduceIte]
  cases hx : asInternal x with
  | none => simp [asInternal]
  | some p => obtain ⟨g, np, sp, o⟩ := p; simp [asInternal]

theorem nodePath_wrapStream (a : Nat) (x : GoErr) :
    nodePath (wrapStream true a x) = nodePath x := by
  unfold wrapStream
  split
  · rfl
  · unfold nodePath
    cases hx : asInternal x with
    | none => simp [asInternal]
    | some p => obtain ⟨g, np, sp, o⟩ := p; simp [asInternal]

theorem adaptors_fold (as : List Nat) (x : GoErr) (t : Nat) :
    errorsIs true (as.foldr (fun a acc => wrapStream true a acc) x) t = errorsIs true x t
    ∧ isInterrupt true (as.foldr (fun a acc => wrapStream true a acc) x) = isInterrupt true x
    ∧ nodePath (as.foldr (fun a acc => wrapStream true a acc) x) = nodePath x := by
  induction as with
  | nil => simp
  | cons a as ih =>
    obtain ⟨h1, h2, h3⟩ := ih
    simp only [List.foldr_cons]
    refine ⟨?_, ?_, ?_⟩
    · rw [errorsIs_wrapStream, h1]
    · rw [isInterrupt_wrapStream, h2]
    · rw [nodePath_wrapStream, h3]

theorem userErr_not_interrupt {e : GoErr} (h : userErr e = true) : isInterrupt true e = false := by
  induction e with
  | leaf i => rfl
  | wrapf e ih => simp only [userErr] at h; simpa [isInterrupt] using ih h
  | internal => simp [userErr] at h
  | panicE i => rfl
  | interrupt => simp [userErr] at h

theorem userErr_no_internal {e : GoErr} (h : userErr e = true) : asInternal e = none := by
  induction e with
  | leaf i => rfl
  | wrapf e ih => simp only [userErr] at h; simpa [asInternal] using ih h
  | internal => simp [userErr] at h
  | panicE i => rfl
  | interrupt => simp [userErr] at h

theorem failThrough_all (levels : List Level) (x : GoErr) (t : Nat) :
    errorsIs true (failThrough true levels x) t = errorsIs true x t
    ∧ isInterrupt true (failThrough true levels x) = isInterrupt true x
    ∧ (isInterrupt true x = false →
        nodePath (failThrough true levels x) = levels.map (·.key) ++ nodePath x) := by
  induction levels with
  | nil => simp [failThrough]
  | cons l ls ih =>
    obtain ⟨h1, h2, h3⟩ := ih
    obtain ⟨a1, a2, a3⟩ := adaptors_fold l.adaptors (failThrough true ls x) t
    simp only [failThrough]
    refine ⟨?_, ?_, ?_⟩
    · rw [errorsIs_wrapNode, a1, h1]
    · rw [isInterrupt_wrapNode, a2, h2]
    · intro hx
      rw [nodePath_wrapNode _ _ (by rw [a2, h2, hx]), a3, h3 hx]
      simp


end EinoV.C13
