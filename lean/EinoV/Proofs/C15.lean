/-
  C15 — lemmas about assignment along target paths: assignments on prefix-unrelated paths
  commute, an assignment reads back, and it leaves every unrelated path untouched.
-/
import EinoV.Model.C15
import EinoV.Expected.C15
import EinoV.Proofs.C15Trie

set_option linter.unusedSimpArgs false

namespace EinoV.C15

/-! ### Option helpers -/

theorem Option.bind_comm' {α β γ : Type} (x : Option α) (y : Option β) (f : α → β → Option γ) :
    (x.bind fun a => y.bind fun b => f a b) = (y.bind fun b => x.bind fun a => f a b) := by
  cases x <;> cases y <;> rfl

/-! ### string order -/

theorem str_lt_asymm {a b : String} (h : a < b) : ¬ b < a := String.lt_asymm h

theorem str_lt_of_not_lt_ne {a b : String} (h1 : ¬ a < b) (h2 : a ≠ b) : b < a := by
  have hle : b ≤ a := String.not_lt.mp h1
  rcases Decidable.em (b < a) with h | h
  · exact h
  · exact absurd (String.le_antisymm (String.not_lt.mp h) hle) h2

/-! ### sorted association lists -/

namespace FKVs

theorem lookup_ins_same : ∀ (kvs : FKVs) (s : String) (v : FVal), (kvs.ins s v).lookup s = some v
  | .nil, s, v => by simp [ins, lookup]
  | .cons k w r, s, v => by
    have ih := lookup_ins_same r s v
    simp only [ins]
    split
    · simp [lookup]
    · split
      · simp [lookup]
      · next h1 h2 => simp [lookup, h2, ih]

theorem lookup_ins_other : ∀ (kvs : FKVs) {s s' : String} (v : FVal), s' ≠ s →
    (kvs.ins s v).lookup s' = kvs.lookup s'
  | .nil, s, s', v, h => by simp [ins, lookup, h]
  | .cons k w r, s, s', v, h => by
    have ih := lookup_ins_other r v h
    simp only [ins]
    split
    · simp [lookup, h]
    · split
      · next h1 h2 => subst h2; simp [lookup, h]
      · next h1 h2 =>
        simp only [lookup]
        split
        · rfl
        · exact ih

theorem ins_ins_same : ∀ (kvs : FKVs) (s : String) (v w : FVal), (kvs.ins s v).ins s w = kvs.ins s w
  | .nil, s, v, w => by simp [ins, String.lt_irrefl]
  | .cons k u r, s, v, w => by
    have ih := ins_ins_same r s v w
    simp only [ins]
    split
    · next h => simp [ins, String.lt_irrefl]
    · split
      · next h1 h2 => simp [ins, String.lt_irrefl]
      · next h1 h2 => simp [ins, h1, h2, ih]

theorem ins_comm : ∀ (kvs : FKVs) {s s' : String} (v w : FVal), s ≠ s' →
    (kvs.ins s v).ins s' w = (kvs.ins s' w).ins s v
  | .nil, s, s', v, w, h => by
    simp only [ins]
    by_cases h1 : s' < s
    · have h2 : ¬ s < s' := str_lt_asymm h1
      simp [h1, h2, h, Ne.symm h]
    · have h2 : s < s' := str_lt_of_not_lt_ne h1 (Ne.symm h)
      simp [h1, h2, h, Ne.symm h]
  | .cons k u r, s, s', v, w, h => by
    have ih := ins_comm r v w h
    have hne : s' ≠ s := Ne.symm h
    by_cases a1 : s < k
    · by_cases b1 : s' < k
      · -- both before k
        by_cases c : s' < s
        · have c' : ¬ s < s' := str_lt_asymm c
          simp [ins, a1, b1, c, c', h, hne]
        · have c' : s < s' := str_lt_of_not_lt_ne c hne
          simp [ins, a1, b1, c, c', h, hne]
      · by_cases b2 : s' = k
        · subst b2
          have c : ¬ s' < s := str_lt_asymm a1
          simp [ins, a1, c, String.lt_irrefl, hne]
        · have b3 : k < s' := str_lt_of_not_lt_ne b1 b2
          have c : s < s' := String.lt_trans a1 b3
          have c' : ¬ s' < s := str_lt_asymm c
          simp [ins, a1, b1, b2, c', hne]
    · by_cases a2 : s = k
      · subst a2
        by_cases b1 : s' < s
        · have c : ¬ s < s' := str_lt_asymm b1
          simp [ins, b1, c, String.lt_irrefl, h]
        · have b3 : s < s' := str_lt_of_not_lt_ne b1 hne
          simp [ins, b1, hne, String.lt_irrefl]
      · have a3 : k < s := str_lt_of_not_lt_ne a1 a2
        by_cases b1 : s' < k
        · have c : s' < s := String.lt_trans b1 a3
          have c' : ¬ s < s' := str_lt_asymm c
          simp [ins, a1, a2, b1, c', h]
        · by_cases b2 : s' = k
          · subst b2
            simp [ins, a1, a2, String.lt_irrefl]
          · simp [ins, a1, a2, b1, b2, ih]

end FKVs

/-! ### positional struct access -/

@[simp] theorem FKVs.headD_cons (k : String) (v : FVal) (r : FKVs) (d : FVal) : (FKVs.cons k v r).headD d = v := rfl
@[simp] theorem FKVs.tail_cons (k : String) (v : FVal) (r : FKVs) : (FKVs.cons k v r).tail = r := rfl

theorem fieldUpd_comm (f g : FTy → FVal → Option FVal) : ∀ (fs : FFields) (kvs : FKVs) {s s' : Seg}, s ≠ s' →
    (fieldUpd f fs kvs s).bind (fun k => fieldUpd g fs k s') =
    (fieldUpd g fs kvs s').bind (fun k => fieldUpd f fs k s)
  | .nil, kvs, s, s', h => by simp [fieldUpd]
  | .cons n t r, kvs, s, s', h => by
    have ih := fun k => fieldUpd_comm f g r k h
    by_cases h1 : s = n
    · subst h1
      have h2 : ¬ s' = s := Ne.symm h
      simp only [fieldUpd, if_true, h2, if_false]
      cases hf : f t (kvs.headD (zero t)) <;>
        cases hg : fieldUpd g r kvs.tail s' <;>
        simp [fieldUpd, hf, hg, h2]
    · by_cases h2 : s' = n
      · subst h2
        simp only [fieldUpd, if_true, h1, if_false]
        cases hf : fieldUpd f r kvs.tail s <;>
          cases hg : g t (kvs.headD (zero t)) <;>
          simp [fieldUpd, hf, hg, h1]
      · simp only [fieldUpd, h1, h2, if_false]
        have := ih kvs.tail
        cases hf : fieldUpd f r kvs.tail s with
        | none =>
          simp only [hf, Option.bind_none] at this
          cases hg : fieldUpd g r kvs.tail s' with
          | none => simp
          | some k2 =>
            simp only [hg, Option.bind_some] at this
            simp [fieldUpd, h1, ← this]
        | some k1 =>
          simp only [hf, Option.bind_some] at this
          cases hg : fieldUpd g r kvs.tail s' with
          | none =>
            simp only [hg, Option.bind_none] at this
            simp [fieldUpd, h2, this]
          | some k2 =>
            simp only [hg, Option.bind_some] at this
            simp only [Option.map_some, Option.bind_some, fieldUpd, h1, h2, if_false, FKVs.headD_cons, FKVs.tail_cons, this]

theorem fieldUpd_same (f g : FTy → FVal → Option FVal) : ∀ (fs : FFields) (kvs : FKVs) (s : Seg),
    (fieldUpd f fs kvs s).bind (fun k => fieldUpd g fs k s) =
    fieldUpd (fun t v => (f t v).bind (g t)) fs kvs s
  | .nil, kvs, s => by simp [fieldUpd]
  | .cons n t r, kvs, s => by
    have ih := fun k => fieldUpd_same f g r k s
    by_cases h1 : s = n
    · subst h1
      simp only [fieldUpd, if_true]
      cases hf : f t (kvs.headD (zero t)) <;> simp [fieldUpd, hf]
    · simp only [fieldUpd, h1, if_false]
      rw [← ih]
      cases hf : fieldUpd f r kvs.tail s <;> simp [fieldUpd, hf, h1]

theorem fieldUpd_congr {f g : FTy → FVal → Option FVal} (h : ∀ t v, f t v = g t v) (fs : FFields) (kvs : FKVs)
    (s : Seg) : fieldUpd f fs kvs s = fieldUpd g fs kvs s := by
  have : f = g := by funext t v; exact h t v
  rw [this]

/-- what an update does to the field it rewrites -/
theorem fieldUpd_get_same (f : FTy → FVal → Option FVal) : ∀ (fs : FFields) (kvs k' : FKVs) (s : Seg),
    fieldUpd f fs kvs s = some k' →
    ∃ ft cur v', fieldGet fs kvs s = some (ft, cur) ∧ f ft cur = some v' ∧ fieldGet fs k' s = some (ft, v')
  | .nil, kvs, k', s, h => by simp [fieldUpd] at h
  | .cons n t r, kvs, k', s, h => by
    by_cases h1 : s = n
    · subst h1
      simp only [fieldUpd, if_true] at h
      cases hf : f t (kvs.headD (zero t)) with
      | none => simp [hf] at h
      | some v' =>
        simp only [hf, Option.map_some, Option.some.injEq] at h
        subst h
        exact ⟨t, _, v', by simp [fieldGet], hf, by simp [fieldGet]⟩
    · simp only [fieldUpd, h1, if_false] at h
      cases hf : fieldUpd f r kvs.tail s with
      | none => simp [hf] at h
      | some tl' =>
        simp only [hf, Option.map_some, Option.some.injEq] at h
        subst h
        obtain ⟨ft, cur, v', h2, h3, h4⟩ := fieldUpd_get_same f r _ tl' s hf
        exact ⟨ft, cur, v', by simp [fieldGet, h1, h2], h3, by simp [fieldGet, h1, h4]⟩

/-- ... and to the others -/
theorem fieldUpd_get_other (f : FTy → FVal → Option FVal) : ∀ (fs : FFields) (kvs k' : FKVs) {s s' : Seg},
    s' ≠ s → fieldUpd f fs kvs s = some k' → fieldGet fs k' s' = fieldGet fs kvs s'
  | .nil, kvs, k', s, s', _, h => by simp [fieldUpd] at h
  | .cons n t r, kvs, k', s, s', hne, h => by
    by_cases h1 : s = n
    · subst h1
      simp only [fieldUpd, if_true] at h
      cases hf : f t (kvs.headD (zero t)) with
      | none => simp [hf] at h
      | some v' =>
        simp only [hf, Option.map_some, Option.some.injEq] at h
        subst h
        simp [fieldGet, hne]
    · simp only [fieldUpd, h1, if_false] at h
      cases hf : fieldUpd f r kvs.tail s with
      | none => simp [hf] at h
      | some tl' =>
        simp only [hf, Option.map_some, Option.some.injEq] at h
        subst h
        have ih := fieldUpd_get_other f r _ tl' hne hf
        simp only [fieldGet]
        split
        · rfl
        · exact ih

theorem fieldUpd_isSome (f : FTy → FVal → Option FVal) (P : FTy → Bool)
    (hf : ∀ t v, (f t v).isSome = P t) : ∀ (fs : FFields) (kvs : FKVs) (s : Seg),
    (fieldUpd f fs kvs s).isSome = (match fieldTy fs s with | some ft => P ft | none => false)
  | .nil, kvs, s => by simp [fieldUpd, fieldTy]
  | .cons n t r, kvs, s => by
    by_cases h1 : s = n
    · subst h1
      simp [fieldUpd, fieldTy, hf]
    · simp only [fieldUpd, fieldTy, h1, if_false, Option.isSome_map]
      exact fieldUpd_isSome f P hf r _ s

theorem fieldGet_ty : ∀ (fs : FFields) (kvs : FKVs) (s : Seg),
    (fieldGet fs kvs s).map (·.1) = fieldTy fs s
  | .nil, kvs, s => by simp [fieldGet, fieldTy]
  | .cons n t r, kvs, s => by
    by_cases h1 : s = n
    · subst h1; simp [fieldGet, fieldTy]
    · simp only [fieldGet, fieldTy, h1, if_false]
      exact fieldGet_ty r _ s

/-! ### the two navigation modes -/

theorem mapOf_remap {t : FTy} {d : FVal} {e : FTy} {kvs : FKVs} (h : mapOf t d = some (e, kvs)) (kvs' : FKVs) :
    mapOf t (remap t kvs') = some (e, kvs') := by
  cases t <;> simp [mapOf] at h
  · obtain ⟨rfl, _⟩ := h; simp [mapOf, remap]
  · obtain ⟨rfl, _⟩ := h; simp [mapOf, remap]

theorem mapOf_ty {t : FTy} {d : FVal} {e : FTy} {kvs : FKVs} (h : mapOf t d = some (e, kvs)) (d' : FVal) :
    ∃ kvs', mapOf t d' = some (e, kvs') := by
  cases t <;> simp [mapOf] at h <;> simp [mapOf, h.1]

theorem mapOf_none {t : FTy} {d : FVal} (h : mapOf t d = none) (d' : FVal) : mapOf t d' = none := by
  cases t <;> simp [mapOf] at h <;> simp [mapOf]

theorem structOf_mapOf {t : FTy} {fs : FFields} (h : structOf t = some fs) (d : FVal) : mapOf t d = none := by
  cases t <;> simp [structOf] at h <;> simp [mapOf]

theorem derefRec_rewrap {t : FTy} {fs : FFields} (h : structOf t = some fs) (kvs : FKVs) :
    derefRec t fs (rewrap t kvs) = kvs := by
  cases t with
  | struct n fs' => simp [rewrap, derefRec]
  | ptr t' => simp [rewrap, derefRec]
  | _ => simp [structOf] at h

/-- unfolding of `assign` on a non-empty path -/
theorem assign_cons (t : FTy) (d : FVal) (s : Seg) (r : Path) (a : Taken) :
    assign t d (s :: r) a =
      (match mapOf t d with
       | some (e, kvs) =>
         (assign e ((kvs.lookup s).getD (newInstance e)) r a).map (fun v' => remap t (kvs.ins s v'))
       | none =>
         match structOf t with
         | some fs => (fieldUpd (fun ft fv => assign ft fv r a) fs (derefRec t fs d) s).map (rewrap t)
         | none => none) := by
  rw [assign]
  cases mapOf t d with
  | none => cases structOf t <;> rfl
  | some ek => rfl

theorem getT_cons (t : FTy) (d : FVal) (s : Seg) (r : Path) :
    getT t d (s :: r) =
      (match mapOf t d with
       | some (e, kvs) => getT e ((kvs.lookup s).getD (newInstance e)) r
       | none =>
         match structOf t with
         | some fs =>
           match fieldGet fs (derefRec t fs d) s with
           | some (ft, fv) => getT ft fv r
           | none => none
         | none => none) := by
  rw [getT]
  cases mapOf t d with
  | none => cases structOf t <;> rfl
  | some ek => rfl

/-! ### commutation -/

theorem assign_comm : ∀ (p q : Path) (t : FTy) (d : FVal) (a b : Taken), ¬ prefixRel p q →
    (assign t d p a).bind (fun d' => assign t d' q b) = (assign t d q b).bind (fun d' => assign t d' p a) := by
  intro p
  induction p with
  | nil => intro q t d a b h; exact absurd (prefixRel_nil_left q) h
  | cons s r ih =>
    intro q t d a b h
    cases q with
    | nil => exact absurd prefixRel_cons_nil h
    | cons s' r' =>
      have hrel : ¬ (s = s' ∧ prefixRel r r') := fun hh => h (prefixRel_cons_iff.mpr hh)
      rw [assign_cons t d s r a, assign_cons t d s' r' b]
      cases hm : mapOf t d with
      | some ek =>
        obtain ⟨e, kvs⟩ := ek
        simp only []
        by_cases hs : s = s'
        · subst hs
          have hr : ¬ prefixRel r r' := fun hh => hrel ⟨rfl, hh⟩
          have key := ih r' e ((kvs.lookup s).getD (newInstance e)) a b hr
          cases h1 : assign e ((kvs.lookup s).getD (newInstance e)) r a with
          | none =>
            simp only [h1, Option.bind_none, Option.map_none] at key ⊢
            cases h2 : assign e ((kvs.lookup s).getD (newInstance e)) r' b with
            | none => simp
            | some w =>
              simp only [h2, Option.bind_some] at key
              simp [assign_cons, mapOf_remap hm, FKVs.lookup_ins_same, ← key]
          | some v =>
            simp only [h1, Option.bind_some, Option.map_some] at key ⊢
            rw [assign_cons, mapOf_remap hm]
            simp only [FKVs.lookup_ins_same, Option.getD_some, FKVs.ins_ins_same]
            cases h2 : assign e ((kvs.lookup s).getD (newInstance e)) r' b with
            | none =>
              simp only [h2, Option.bind_none] at key
              simp [key]
            | some w =>
              simp only [h2, Option.bind_some] at key
              simp only [Option.map_some, Option.bind_some]
              rw [assign_cons, mapOf_remap hm]
              simp only [FKVs.lookup_ins_same, Option.getD_some, FKVs.ins_ins_same, key]
        · have hs' : s' ≠ s := Ne.symm hs
          cases h1 : assign e ((kvs.lookup s).getD (newInstance e)) r a with
          | none =>
            simp only [Option.map_none, Option.bind_none]
            cases h2 : assign e ((kvs.lookup s').getD (newInstance e)) r' b with
            | none => simp
            | some w =>
              simp [assign_cons, mapOf_remap hm, FKVs.lookup_ins_other _ _ hs, h1]
          | some v =>
            simp only [Option.map_some, Option.bind_some]
            rw [assign_cons, mapOf_remap hm]
            simp only [FKVs.lookup_ins_other _ _ hs']
            cases h2 : assign e ((kvs.lookup s').getD (newInstance e)) r' b with
            | none => simp
            | some w =>
              simp only [Option.map_some, Option.bind_some]
              rw [assign_cons, mapOf_remap hm]
              simp only [FKVs.lookup_ins_other _ _ hs, h1, Option.map_some, FKVs.ins_comm kvs v w hs]
      | none =>
        simp only []
        cases hst : structOf t with
        | none => simp
        | some fs =>
          simp only []
          have hmn : ∀ d', mapOf t d' = none := fun d' => mapOf_none hm d'
          have step : ∀ (F : FTy → FVal → Option FVal) (G : FTy → FVal → Option FVal) (x : Seg) (y : Seg)
              (ry : Path) (c : Taken), (∀ ft fv, G ft fv = assign ft fv ry c) →
              ((fieldUpd F fs (derefRec t fs d) x).map (rewrap t)).bind (fun d' => assign t d' (y :: ry) c) =
              (fieldUpd F fs (derefRec t fs d) x).bind (fun k => (fieldUpd G fs k y).map (rewrap t)) := by
            intro F G x y ry c hG
            cases hx : fieldUpd F fs (derefRec t fs d) x with
            | none => simp
            | some k =>
              simp only [Option.map_some, Option.bind_some]
              rw [assign_cons, hmn, hst]
              simp only [derefRec_rewrap hst]
              rw [fieldUpd_congr (fun ft fv => (hG ft fv).symm)]
          rw [step _ (fun ft fv => assign ft fv r' b) s s' r' b (fun _ _ => rfl),
              step _ (fun ft fv => assign ft fv r a) s' s r a (fun _ _ => rfl)]
          by_cases hs : s = s'
          · subst hs
            have hr : ¬ prefixRel r r' := fun hh => hrel ⟨rfl, hh⟩
            have e1 : ∀ (F G : FTy → FVal → Option FVal),
                (fieldUpd F fs (derefRec t fs d) s).bind (fun k => (fieldUpd G fs k s).map (rewrap t)) =
                (fieldUpd (fun t v => (F t v).bind (G t)) fs (derefRec t fs d) s).map (rewrap t) := by
              intro F G
              rw [← fieldUpd_same]
              cases fieldUpd F fs (derefRec t fs d) s <;> simp
            rw [e1, e1]
            congr 1
            exact fieldUpd_congr (fun ft fv => ih r' ft fv a b hr) fs _ s
          · have e2 : ∀ (F G : FTy → FVal → Option FVal) (x y : Seg),
                (fieldUpd F fs (derefRec t fs d) x).bind (fun k => (fieldUpd G fs k y).map (rewrap t)) =
                ((fieldUpd F fs (derefRec t fs d) x).bind (fun k => fieldUpd G fs k y)).map (rewrap t) := by
              intro F G x y
              cases fieldUpd F fs (derefRec t fs d) x <;> simp
            rw [e2, e2, fieldUpd_comm _ _ fs _ hs]

/-! ### read-back and frame -/

theorem slotTy_cons (t : FTy) (s : Seg) (r : Path) (d : FVal) :
    slotTy t (s :: r) =
      (match mapOf t d with
       | some (e, _) => slotTy e r
       | none => match structOf t with
         | some fs => match fieldTy fs s with
           | some ft => slotTy ft r
           | none => none
         | none => none) := by
  cases t with
  | str => simp [slotTy, mapOf, structOf]
  | int => simp [slotTy, mapOf, structOf]
  | opq k n => simp [slotTy, mapOf, structOf]
  | iface n is => simp [slotTy, mapOf, structOf]
  | any => simp [slotTy, mapOf]
  | map e => simp [slotTy, mapOf]
  | struct n fs =>
    simp only [slotTy, mapOf, structOf]
    cases fieldTy fs s <;> rfl
  | ptr t' =>
    cases t' with
    | struct n fs =>
      simp only [slotTy, mapOf, structOf]
      cases fieldTy fs s <;> rfl
    | _ => simp [slotTy, mapOf, structOf]

/-- what was assigned is what is read back -/
theorem assign_getT_same : ∀ (p : Path) (t : FTy) (d d' : FVal) (a : Taken), assign t d p a = some d' →
    ∃ st w, slotTy t p = some st ∧ store st a = some w ∧ getT t d' p = some (st, w) := by
  intro p
  induction p with
  | nil =>
    intro t d d' a h
    simp only [assign] at h
    exact ⟨t, d', by simp [slotTy], h, by simp [getT]⟩
  | cons s r ih =>
    intro t d d' a h
    rw [assign_cons] at h
    rw [slotTy_cons t s r d]
    cases hm : mapOf t d with
    | some ek =>
      obtain ⟨e, kvs⟩ := ek
      simp only [hm] at h ⊢
      cases h1 : assign e ((kvs.lookup s).getD (newInstance e)) r a with
      | none => simp [h1] at h
      | some v =>
        simp only [h1, Option.map_some, Option.some.injEq] at h
        subst h
        obtain ⟨st, w, h2, h3, h4⟩ := ih e _ v a h1
        refine ⟨st, w, h2, h3, ?_⟩
        rw [getT_cons, mapOf_remap hm]
        simp only [FKVs.lookup_ins_same, Option.getD_some, h4]
    | none =>
      simp only [hm] at h ⊢
      cases hst : structOf t with
      | none => simp [hst] at h
      | some fs =>
        simp only [hst] at h ⊢
        cases h1 : fieldUpd (fun ft fv => assign ft fv r a) fs (derefRec t fs d) s with
        | none => simp [h1] at h
        | some k' =>
          simp only [h1, Option.map_some, Option.some.injEq] at h
          subst h
          obtain ⟨ft, cur, v', g1, g2, g3⟩ := fieldUpd_get_same _ fs _ k' s h1
          obtain ⟨st, w, h2, h3, h4⟩ := ih ft cur v' a g2
          have hty : fieldTy fs s = some ft := by
            have := fieldGet_ty fs (derefRec t fs d) s
            rw [g1] at this
            simpa using this.symm
          refine ⟨st, w, by simp [hty, h2], h3, ?_⟩
          rw [getT_cons, mapOf_none hm, hst]
          simp only [derefRec_rewrap hst, g3, h4]

/-- an assignment leaves every prefix-unrelated path as it was -/
theorem assign_getT_other : ∀ (p q : Path) (t : FTy) (d d' : FVal) (a : Taken), ¬ prefixRel p q →
    assign t d p a = some d' → getT t d' q = getT t d q := by
  intro p
  induction p with
  | nil => intro q t d d' a h; exact absurd (prefixRel_nil_left q) h
  | cons s r ih =>
    intro q t d d' a hrel h
    cases q with
    | nil => exact absurd prefixRel_cons_nil hrel
    | cons s' r' =>
      have hrel' : ¬ (s = s' ∧ prefixRel r r') := fun hh => hrel (prefixRel_cons_iff.mpr hh)
      rw [assign_cons] at h
      rw [getT_cons t d', getT_cons t d]
      cases hm : mapOf t d with
      | some ek =>
        obtain ⟨e, kvs⟩ := ek
        simp only [hm] at h ⊢
        cases h1 : assign e ((kvs.lookup s).getD (newInstance e)) r a with
        | none => simp [h1] at h
        | some v =>
          simp only [h1, Option.map_some, Option.some.injEq] at h
          subst h
          rw [mapOf_remap hm]
          simp only []
          by_cases hs : s = s'
          · subst hs
            simp only [FKVs.lookup_ins_same, Option.getD_some]
            exact ih r' e _ v a (fun hh => hrel' ⟨rfl, hh⟩) h1
          · simp only [FKVs.lookup_ins_other _ _ (Ne.symm hs)]
      | none =>
        simp only [hm] at h ⊢
        rw [mapOf_none hm]
        cases hst : structOf t with
        | none => simp [hst] at h
        | some fs =>
          simp only [hst] at h ⊢
          cases h1 : fieldUpd (fun ft fv => assign ft fv r a) fs (derefRec t fs d) s with
          | none => simp [h1] at h
          | some k' =>
            simp only [h1, Option.map_some, Option.some.injEq] at h
            subst h
            simp only [derefRec_rewrap hst]
            by_cases hs : s = s'
            · subst hs
              obtain ⟨ft, cur, v', g1, g2, g3⟩ := fieldUpd_get_same _ fs _ k' s h1
              simp only [g1, g3]
              exact ih r' ft cur v' a (fun hh => hrel' ⟨rfl, hh⟩) g2
            · rw [fieldUpd_get_other _ fs _ k' (Ne.symm hs) h1]

/-! ### success does not depend on the destination value -/

theorem assign_isSome : ∀ (p : Path) (t : FTy) (d : FVal) (a : Taken),
    (assign t d p a).isSome = (match slotTy t p with | some st => (store st a).isSome | none => false) := by
  intro p
  induction p with
  | nil => intro t d a; simp [assign, slotTy]
  | cons s r ih =>
    intro t d a
    rw [assign_cons, slotTy_cons t s r d]
    cases hm : mapOf t d with
    | some ek =>
      obtain ⟨e, kvs⟩ := ek
      simp only [Option.isSome_map]
      exact ih e _ a
    | none =>
      simp only []
      cases hst : structOf t with
      | none => simp
      | some fs =>
        simp only [Option.isSome_map]
        rw [fieldUpd_isSome _ (fun ft => match slotTy ft r with | some st => (store st a).isSome | none => false)
          (fun ft fv => ih ft fv a)]
        cases fieldTy fs s <;> rfl

theorem assign_isSome_indep (p : Path) (t : FTy) (d d₂ : FVal) (a : Taken) :
    (assign t d p a).isSome = (assign t d₂ p a).isSome := by
  rw [assign_isSome, assign_isSome]

/-! ### any iteration order -/

theorem convertFrom_perm (t : FTy) {l l' : List (Path × Taken)} (hp : l.Perm l') :
    l.Pairwise (fun x y => ¬ prefixRel x.1 y.1) → ∀ d, convertFrom t d l = convertFrom t d l' := by
  induction hp with
  | nil => intro _ _; rfl
  | cons x _ ih =>
    intro hpw d
    obtain ⟨p, a⟩ := x
    simp only [convertFrom]
    cases assign t d p a with
    | none => rfl
    | some d' => exact ih (List.pairwise_cons.mp hpw).2 d'
  | swap x y l =>
    intro hpw d
    obtain ⟨p, a⟩ := x
    obtain ⟨q, b⟩ := y
    have hne : ¬ prefixRel q p := by
      have := (List.pairwise_cons.mp hpw).1 (p, a) (by simp)
      exact this
    simp only [convertFrom]
    have := assign_comm q p t d b a hne
    cases h1 : assign t d q b with
    | none =>
      simp only [h1, Option.bind_none] at this ⊢
      cases h2 : assign t d p a with
      | none => rfl
      | some d2 =>
        simp only [h2, Option.bind_some] at this
        simp [← this]
    | some d1 =>
      simp only [h1, Option.bind_some] at this ⊢
      cases h2 : assign t d p a with
      | none =>
        simp only [h2, Option.bind_none] at this
        simp [this]
      | some d2 =>
        simp only [h2, Option.bind_some] at this
        simp only [Option.bind_some]
        cases h3 : assign t d1 p a with
        | none => rw [h3] at this; simp [← this]
        | some d3 => rw [h3] at this; simp [← this]
  | trans h1 _ ih1 ih2 =>
    intro hpw d
    have hpw2 := (h1.pairwise_iff (fun {x y} (h : ¬ prefixRel x.1 y.1) => fun hh => h (prefixRel_symm hh))).mp hpw
    rw [ih1 hpw d, ih2 hpw2 d]

/-- one run over a list of pairwise unrelated targets: every entry reads back, everything
    unrelated is as it was before -/
theorem convertFrom_spec (t : FTy) : ∀ (l : List (Path × Taken)) (d v : FVal),
    l.Pairwise (fun x y => ¬ prefixRel x.1 y.1) → convertFrom t d l = some v →
    (∀ x ∈ l, ∃ st w, slotTy t x.1 = some st ∧ store st x.2 = some w ∧ getT t v x.1 = some (st, w)) ∧
    (∀ q, (∀ x ∈ l, ¬ prefixRel x.1 q) → getT t v q = getT t d q) := by
  intro l
  induction l with
  | nil =>
    intro d v _ h
    simp only [convertFrom, Option.some.injEq] at h
    subst h
    exact ⟨fun x hx => by simp at hx, fun _ _ => rfl⟩
  | cons x rest ih =>
    intro d v hpw h
    obtain ⟨p, a⟩ := x
    obtain ⟨hx, hrest⟩ := List.pairwise_cons.mp hpw
    simp only [convertFrom] at h
    cases h1 : assign t d p a with
    | none => simp [h1] at h
    | some d1 =>
      simp only [h1, Option.bind_some] at h
      obtain ⟨ihA, ihB⟩ := ih d1 v hrest h
      refine ⟨fun y hy => ?_, fun q hq => ?_⟩
      · rcases List.mem_cons.mp hy with rfl | hy
        · obtain ⟨st, w, g1, g2, g3⟩ := assign_getT_same p t d d1 a h1
          refine ⟨st, w, g1, g2, ?_⟩
          have : getT t v p = getT t d1 p := ihB p (fun z hz hh => hx z hz (prefixRel_symm hh))
          rw [this, g3]
        · exact ihA y hy
      · have e1 : getT t v q = getT t d1 q := ihB q (fun z hz => hq z (List.mem_cons_of_mem _ hz))
        rw [e1]
        exact assign_getT_other p q t d d1 a (hq (p, a) (by simp)) h1

theorem convertFrom_isSome (t : FTy) : ∀ (l : List (Path × Taken)) (d : FVal),
    (∀ x ∈ l, ∀ d', (assign t d' x.1 x.2).isSome) → (convertFrom t d l).isSome := by
  intro l
  induction l with
  | nil => intro d _; rfl
  | cons x rest ih =>
    intro d h
    obtain ⟨p, a⟩ := x
    simp only [convertFrom]
    have h1 := h (p, a) (by simp) d
    cases h2 : assign t d p a with
    | none => simp [h2] at h1
    | some d1 => exact ih d1 (fun y hy => h y (List.mem_cons_of_mem _ hy))

/-! ### extraction never panics (with the guards) -/

theorem takeStep_no_panic (a : Taken) (via : Bool) (s : Seg) :
    takeStep Expected.C15.take a via s ≠ .error .panic := by
  unfold takeStep Expected.C15.take
  split <;> try (simp; done)
  all_goals (split <;> simp)

theorem takeFrom_no_panic : ∀ (p : Path) (a : Taken) (via : Bool),
    takeFrom Expected.C15.take a via p ≠ .error .panic := by
  intro p
  induction p with
  | nil => intro a via; simp [takeFrom]
  | cons s r ih =>
    intro a via
    simp only [takeFrom]
    have := takeStep_no_panic a via s
    cases h : takeStep Expected.C15.take a via s with
    | error e =>
      cases e <;> simp_all
    | ok sv =>
      obtain ⟨st, v⟩ := sv
      exact ih _ _

theorem take_no_panic (t : FTy) (v : FVal) (p : Path) : take Expected.C15.take t v p ≠ .error .panic :=
  takeFrom_no_panic p _ _

/-! ### statically validated and run-time checked mappings can always be assigned -/

theorem slotTy_any : ∀ (r : Path), slotTy .any r = some .any
  | [] => rfl
  | _ :: r => by simp [slotTy, slotTy_any r]

theorem store_any (a : Taken) : (store .any a).isSome := by
  cases a with
  | none => simp [store, nilable]
  | some x => obtain ⟨ty, v⟩ := x; simp [store, assignable]

/-- the static check and the slot typing agree, except below a non-empty interface (where the
    check reports an intermediate interface and there is no slot) -/
theorem extractTy_slotTy : ∀ (p : Path) (t x : FTy) (i : Bool),
    extractTy true t p = some (x, i) → (i = true → x = .any) → slotTy t p = some x := by
  intro p
  induction p with
  | nil => intro t x i h _; simp [extractTy] at h; simp [slotTy, h.1]
  | cons s r ih =>
    intro t x i h hi
    cases t with
    | map e => simp only [extractTy] at h; simp only [slotTy]; exact ih e x i h hi
    | any =>
      simp only [extractTy, structOf, isIface] at h
      have hx : x = .any := by
        by_cases hr : r.isEmpty = true
        · simp [hr] at h; exact h.1.symm
        · simp [hr] at h; exact h.1.symm
      subst hx
      exact slotTy_any _
    | iface n is =>
      simp only [extractTy, structOf, isIface] at h
      have hx : x = .iface n is ∧ i = true := by
        by_cases hr : r.isEmpty = true
        · simp [hr] at h; exact ⟨h.1.symm, h.2⟩
        · simp [hr] at h; exact ⟨h.1.symm, h.2⟩
      have := hi hx.2
      rw [hx.1] at this
      cases this
    | struct n fs =>
      simp only [extractTy, structOf] at h
      simp only [slotTy, structOf]
      cases hf : fieldTy fs s with
      | none => simp [hf] at h
      | some ft => simp only [hf] at h ⊢; exact ih ft x i h hi
    | ptr t' =>
      cases t' with
      | struct n fs =>
        simp only [extractTy, structOf] at h
        simp only [slotTy, structOf]
        cases hf : fieldTy fs s with
        | none => simp [hf] at h
        | some ft => simp only [hf] at h ⊢; exact ih ft x i h hi
      | _ =>
        simp only [extractTy, structOf, isIface] at h
        by_cases hr : r.isEmpty = true <;> simp [hr] at h
    | str =>
      simp only [extractTy, structOf, isIface] at h
      by_cases hr : r.isEmpty = true <;> simp [hr] at h
    | int =>
      simp only [extractTy, structOf, isIface] at h
      by_cases hr : r.isEmpty = true <;> simp [hr] at h
    | opq k n =>
      simp only [extractTy, structOf, isIface] at h
      by_cases hr : r.isEmpty = true <;> simp [hr] at h

theorem takeStep_ok (f : TakeFacts) (ty : FTy) (val : FVal) (via : Bool) (s : Seg) (st : FTy) (v : FVal)
    (h : takeStep f (some (ty, val)) via s = .ok (st, v)) :
    (∃ kvs, ty = .map st ∧ val = .map kvs ∧ kvs.lookup s = some v) ∨
    (∃ n fs kvs, ty = .struct n fs ∧ val = .obj kvs ∧ fieldGet fs kvs s = some (st, v)) ∨
    (∃ n fs kvs, ty = .ptr (.struct n fs) ∧ val = .ptr (.obj kvs) ∧ fieldGet fs kvs s = some (st, v)) := by
  unfold takeStep at h
  split at h
  · rename_i heq; simp at heq
  · rename_i e kvs heq
    simp only [Option.some.injEq, Prod.mk.injEq] at heq
    obtain ⟨rfl, rfl⟩ := heq
    split at h
    · rename_i x hx; simp only [Except.ok.injEq, Prod.mk.injEq] at h; obtain ⟨rfl, rfl⟩ := h; exact Or.inl ⟨kvs, rfl, rfl, hx⟩
    · simp at h
  · simp at h
  · rename_i n fs kvs heq
    simp only [Option.some.injEq, Prod.mk.injEq] at heq
    obtain ⟨rfl, rfl⟩ := heq
    split at h
    · rename_i x hx; simp only [Except.ok.injEq] at h; subst h; exact Or.inr (Or.inl ⟨n, fs, kvs, rfl, rfl, hx⟩)
    · split at h <;> simp at h
  · rename_i n fs kvs heq
    simp only [Option.some.injEq, Prod.mk.injEq] at heq
    obtain ⟨rfl, rfl⟩ := heq
    split at h
    · rename_i x hx; simp only [Except.ok.injEq] at h; subst h; exact Or.inr (Or.inr ⟨n, fs, kvs, rfl, rfl, hx⟩)
    · split at h <;> simp at h
  · split at h <;> simp at h
  · split at h
    · simp at h
    · split at h <;> simp at h

theorem takeFrom_cons_ok {f : TakeFacts} {a b : Taken} {via : Bool} {s : Seg} {r : Path}
    (h : takeFrom f a via (s :: r) = .ok b) :
    ∃ st v, takeStep f a via s = .ok (st, v) ∧ takeFrom f (unstore st v) (isIface st) r = .ok b := by
  simp only [takeFrom] at h
  cases hs : takeStep f a via s with
  | error e => simp [hs] at h
  | ok sv => obtain ⟨st, v⟩ := sv; simp only [hs] at h; exact ⟨st, v, rfl, h⟩

theorem unstore_not_iface {t : FTy} (h : isIface t = false) (v : FVal) : unstore t v = some (t, v) := by
  simp [unstore, h]

/-- a segment applied to an interface type is never reported as "no intermediate interface" with a
    slot type other than `any` -/
theorem extractTy_iface_cons {t pf : FTy} {s : Seg} {r : Path} (ht : isIface t = true)
    (h : extractTy true t (s :: r) = some (pf, false)) : pf = .any := by
  cases t with
  | any =>
    simp only [extractTy, structOf, isIface] at h
    by_cases hr : r.isEmpty = true
    · simp [hr] at h; exact h.symm
    · simp [hr] at h
  | iface n is =>
    simp only [extractTy, structOf, isIface] at h
    by_cases hr : r.isEmpty = true <;> simp [hr] at h
  | _ => simp [isIface] at ht

/-- one step of the static check along one step of the extraction, below a type that is not an
    interface -/
theorem extractTy_step {f : TakeFacts} {t : FTy} {v : FVal} {via : Bool} {s : Seg} {r : Path} {st : FTy} {x : FVal}
    (hstep : takeStep f (some (t, v)) via s = .ok (st, x)) :
    extractTy true t (s :: r) = extractTy true st r := by
  rcases takeStep_ok f t v via s st x hstep with ⟨kvs, rfl, rfl, hl⟩ | ⟨n, fs, kvs, rfl, rfl, hg⟩ | ⟨n, fs, kvs, rfl, rfl, hg⟩
  · simp only [extractTy]
  · have hty := fieldGet_ty fs kvs s
    simp only [hg, Option.map_some] at hty
    simp only [extractTy, structOf, ← hty]
  · have hty := fieldGet_ty fs kvs s
    simp only [hg, Option.map_some] at hty
    simp only [extractTy, structOf, ← hty]

/-- on a path that never crosses an interface the taken value carries the static type -/
theorem takeFrom_tag (f : TakeFacts) : ∀ (p : Path) (t pf : FTy) (v : FVal) (via : Bool) (a : Taken),
    extractTy true t p = some (pf, false) → isIface pf = false →
    takeFrom f (unstore t v) via p = .ok a → ∃ w, a = some (pf, w) := by
  intro p
  induction p with
  | nil =>
    intro t pf v via a h hne ht
    simp only [extractTy, Option.some.injEq, Prod.mk.injEq, and_true] at h
    subst h
    simp only [takeFrom, unstore_not_iface hne, Except.ok.injEq] at ht
    exact ⟨v, ht.symm⟩
  | cons s r ih =>
    intro t pf v via a h hne ht
    obtain ⟨st, x, hstep, hrest⟩ := takeFrom_cons_ok ht
    by_cases hta : isIface t = true
    · have := extractTy_iface_cons hta h
      subst this
      simp [isIface] at hne
    · have hta' : isIface t = false := by simpa using hta
      rw [unstore_not_iface hta'] at hstep
      rw [extractTy_step hstep] at h
      exact ih st pf x _ a h hne hrest

/-- whatever is found at the end of a path that never crosses an interface can be stored in a slot
    of the path's static type (for an interface-typed end: the dynamic type implements it) -/
theorem takeFrom_storable (f : TakeFacts) : ∀ (p : Path) (t pf : FTy) (v : FVal) (via : Bool) (a : Taken),
    extractTy true t p = some (pf, false) →
    takeFrom f (unstore t v) via p = .ok a → (store pf a).isSome := by
  intro p
  induction p with
  | nil =>
    intro t pf v via a h ht
    simp only [extractTy, Option.some.injEq, Prod.mk.injEq, and_true] at h
    subst h
    simp only [takeFrom, Except.ok.injEq] at ht
    subst ht
    cases t with
    | any =>
      simp only [unstore, isIface, if_true]
      cases v <;> simp [store, nilable, assignable, fits]
    | iface n is =>
      simp only [unstore, isIface, if_true]
      cases v with
      | box ty x =>
        simp only []
        by_cases hf : fits ty (.iface n is) = true
        · simp only [hf, if_true, store]
          simp only [fits] at hf
          simp [assignable, hf]
        · simp [hf, store, nilable]
      | _ => simp [store, nilable]
    | _ => simp [unstore, isIface, store, assignable]
  | cons s r ih =>
    intro t pf v via a h ht
    obtain ⟨st, x, hstep, hrest⟩ := takeFrom_cons_ok ht
    by_cases hta : isIface t = true
    · have := extractTy_iface_cons hta h
      subst this
      exact store_any a
    · have hta' : isIface t = false := by simpa using hta
      rw [unstore_not_iface hta'] at hstep
      rw [extractTy_step hstep] at h
      exact ih st pf x _ a h hrest

theorem extractTyF_expected : extractTyF Expected.C15.validate = extractTy true := rfl

/-- the static check of a path that goes on below a slot it reached without crossing an interface
    is the static check of the continuation on the slot's type -/
theorem extractTy_append : ∀ (p : Path) (t x : FTy) (q : Path),
    extractTy true t p = some (x, false) → x ≠ .any → extractTy true t (p ++ q) = extractTy true x q := by
  intro p
  induction p with
  | nil =>
    intro t x q h _
    simp only [extractTy, Option.some.injEq, Prod.mk.injEq, and_true] at h
    subst h; rfl
  | cons s r ih =>
    intro t x q h hx
    by_cases hta : isIface t = true
    · exact absurd (extractTy_iface_cons hta h) hx
    · cases t with
      | map e => simp only [extractTy, List.cons_append] at h ⊢; exact ih e x q h hx
      | struct n fs =>
        simp only [extractTy, structOf, List.cons_append] at h ⊢
        cases hf : fieldTy fs s with
        | none => simp [hf] at h
        | some ft => simp only [hf] at h ⊢; exact ih ft x q h hx
      | ptr t' =>
        cases t' with
        | struct n fs =>
          simp only [extractTy, structOf, List.cons_append] at h ⊢
          cases hf : fieldTy fs s with
          | none => simp [hf] at h
          | some ft => simp only [hf] at h ⊢; exact ih ft x q h hx
        | _ =>
          simp only [extractTy, structOf, isIface] at h
          by_cases hr : r.isEmpty = true <;> simp [hr] at h
      | any => simp [isIface] at hta
      | iface n is => simp [isIface] at hta
      | _ =>
        simp only [extractTy, structOf, isIface] at h
        by_cases hr : r.isEmpty = true <;> simp [hr] at h

/-- with both facts `true` the fact-indexed static check is the one the theorems are about -/
theorem extractTyG_eq (rt : Bool) : ∀ (p : Path) (t : FTy), extractTyG rt true true t p = extractTy rt t p := by
  intro p
  induction p with
  | nil => intro t; simp [extractTyG, extractTy]
  | cons s r ih =>
    intro t
    cases t with
    | map e => simp only [extractTyG, extractTy]; exact ih e
    | _ =>
      simp only [extractTyG, extractTy, if_true]
      split
      · split <;> simp_all
      · rfl

theorem assign_of_validated (f : TakeFacts) (pt st : FTy) (v : FVal) (m : Mapping) (chk : Option (FTy × Bool))
    (a : Taken) (hv : validateOne Expected.C15.validate pt st m = some chk)
    (ht : take f pt v m.src = .ok a) (hc : runtimeCheck chk a = true) (d : FVal) :
    (assign st d m.dst a).isSome := by
  simp only [validateOne, extractTyF_expected] at hv
  cases hp : extractTy true pt m.src with
  | none => simp [hp] at hv
  | some pfi =>
    obtain ⟨pf, pI⟩ := pfi
    cases hs : extractTy true st m.dst with
    | none => simp [hp, hs] at hv
    | some sfi =>
      obtain ⟨sf, sI⟩ := sfi
      simp only [hp, hs] at hv
      have hslot : slotTy st m.dst = some sf := by
        refine extractTy_slotTy _ _ _ _ hs (fun hsI => ?_)
        subst hsI
        by_cases hsf : sf = .any
        · exact hsf
        · simp [hsf] at hv
      rw [assign_isSome, hslot]
      simp only []
      -- a value that passed a run-time checker against `sf` can be stored
      have hchk : ∀ strict, runtimeCheck (some (sf, strict)) a = true → (store sf a).isSome := by
        intro strict hc'
        cases a with
        | none => simp only [runtimeCheck] at hc'; simp [store, hc']
        | some x => obtain ⟨ty, w⟩ := x; simp only [runtimeCheck] at hc'; simp [store, hc']
      by_cases hsI : sI = true
      · simp only [hsI, if_true] at hv
        by_cases hsf : sf = .any
        · subst hsf; exact store_any a
        · simp [hsf] at hv
      · simp only [hsI, if_false, Bool.false_eq_true] at hv
        by_cases hpI : pI = true
        · simp only [hpI, if_true, Option.some.injEq] at hv
          subst hv
          exact hchk _ hc
        · simp only [hpI, if_false, Bool.false_eq_true] at hv
          have hpI' : pI = false := by simpa using hpI
          subst hpI'
          simp only [checkAssignable] at hv
          by_cases h1 : sf = pf
          · subst h1
            exact takeFrom_storable f m.src pt sf v false a hp ht
          · by_cases h2 : sf = .any
            · subst h2; exact store_any a
            · by_cases h4 : implements pf sf = true
              · -- a concrete source type that implements the target interface
                have hpi : isIface pf = false := by
                  cases sf <;> simp [implements] at h4
                  exact h4.1
                obtain ⟨w, hw⟩ := takeFrom_tag f m.src pt pf v false a hp hpi ht
                subst hw
                simp [store, assignable, h4]
              · by_cases h3 : pf = .any
                · subst h3
                  simp only [h1, h2, h4, if_false, if_true, Option.some.injEq, Bool.false_eq_true] at hv
                  subst hv
                  exact hchk _ hc
                · by_cases h5 : isIface pf = true ∧ implements sf pf = true
                  · simp only [h1, h2, h3, h4, h5.1, h5.2, if_false, if_true, Option.some.injEq, Bool.false_eq_true] at hv
                    subst hv
                    exact hchk _ hc
                  · simp only [h1, h2, h3, h4, if_false, Bool.false_eq_true] at hv
                    by_cases h6 : isIface pf = true
                    · have h7 : implements sf pf = false := by
                        cases h8 : implements sf pf
                        · rfl
                        · exact absurd ⟨h6, h8⟩ h5
                      simp [h6, h7] at hv
                    · simp [h6] at hv

theorem fieldMapE_ok (f : TakeFacts) (allow : Bool) (pt : FTy) (v : FVal) : ∀ (ms : List Mapping)
    (l : List (Mapping × Taken)), fieldMapE f allow pt v ms = .ok l →
    ∀ x ∈ l, x.1 ∈ ms ∧ take f pt v x.1.src = .ok x.2 := by
  intro ms
  induction ms with
  | nil => intro l h; simp [fieldMapE] at h; subst h; simp
  | cons m rest ih =>
    intro l h x hx
    simp only [fieldMapE] at h
    cases ht : take f pt v m.src with
    | error e =>
      cases e with
      | keyMissing =>
        simp only [ht] at h
        cases allow with
        | true =>
          simp only [if_true] at h
          have := ih l h x hx
          exact ⟨List.mem_cons_of_mem _ this.1, this.2⟩
        | false => simp at h
      | bad => simp [ht] at h
      | panic => simp [ht] at h
    | ok a =>
      simp only [ht] at h
      cases hr : fieldMapE f allow pt v rest with
      | error e => simp [hr] at h
      | ok l' =>
        simp only [hr, Except.ok.injEq] at h
        subst h
        rcases List.mem_cons.mp hx with rfl | hx
        · exact ⟨by simp, ht⟩
        · have := ih l' hr x hx
          exact ⟨List.mem_cons_of_mem _ this.1, this.2⟩

theorem fieldMapE_no_panic (allow : Bool) (pt : FTy) (v : FVal) : ∀ (ms : List Mapping),
    fieldMapE Expected.C15.take allow pt v ms ≠ .error .panic := by
  intro ms
  induction ms with
  | nil => simp [fieldMapE]
  | cons m rest ih =>
    simp only [fieldMapE]
    have hnp := take_no_panic pt v m.src
    cases ht : take Expected.C15.take pt v m.src with
    | error e =>
      cases e with
      | keyMissing =>
        cases allow with
        | true => simpa using ih
        | false => simp
      | bad => simp
      | panic => exact absurd ht hnp
    | ok a =>
      simp only []
      cases hr : fieldMapE Expected.C15.take allow pt v rest with
      | error e => simp only [ne_eq, Except.error.injEq]; intro he; subst he; exact ih hr
      | ok l' => simp

/-- with its nil guard no run-time checker panics -/
theorem checkPanics_guarded (vf : ValidateFacts) (hg : vf.ifaceCheckerGuardsNil = true)
    (chk : Option (FTy × Bool)) (a : Taken) : checkPanics vf chk a = false := by
  unfold checkPanics
  split <;> simp [hg]

theorem checkPanicE_guarded (vf : ValidateFacts) (hg : vf.ifaceCheckerGuardsNil = true)
    (pt st : FTy) (ms : List Mapping) (l : List (Mapping × Taken)) : checkPanicE vf pt st ms l = false := by
  unfold checkPanicE
  rw [List.any_eq_false]
  intro x _
  obtain ⟨m, a⟩ := x
  simp [checkPanics_guarded vf hg]

theorem checkPanicE_expected (pt st : FTy) (ms : List Mapping) (l : List (Mapping × Taken)) :
    checkPanicE Expected.C15.validate pt st ms l = false :=
  checkPanicE_guarded _ rfl pt st ms l

/-- every entry the edge handlers deliver can be assigned, whatever the destination holds -/
theorem edgesMap_ok (allow : Bool) (st : FTy) : ∀ (es : List Edge) (l : List (Path × Taken)),
    (∀ e ∈ es, ∀ m ∈ e.ms, (validateOne Expected.C15.validate e.pt st m).isSome) →
    edgesMap Expected.C15.take Expected.C15.validate allow st es = .ok l →
    ∀ x ∈ l, ∀ d, (assign st d x.1 x.2).isSome := by
  intro es
  induction es with
  | nil => intro l _ h; simp [edgesMap] at h; subst h; simp
  | cons e rest ih =>
    intro l hval h x hx d
    simp only [edgesMap, checkPanicE_expected, Bool.false_eq_true, if_false] at h
    cases hf : fieldMapE Expected.C15.take allow e.pt e.v e.ms with
    | error err => simp [hf] at h
    | ok le =>
      simp only [hf] at h
      by_cases hc : checkE Expected.C15.validate e.pt st e.ms le = true
      · simp only [hc, if_true] at h
        cases hr : edgesMap Expected.C15.take Expected.C15.validate allow st rest with
        | error err => simp [hr] at h
        | ok l' =>
          simp only [hr, Except.ok.injEq] at h
          subst h
          rcases List.mem_append.mp hx with hx | hx
          · obtain ⟨y, hy, rfl⟩ := List.mem_map.mp hx
            obtain ⟨m, a⟩ := y
            have hm := fieldMapE_ok _ _ _ _ _ _ hf (m, a) hy
            have hvm := hval e (by simp) m hm.1
            cases hv : validateOne Expected.C15.validate e.pt st m with
            | none => simp [hv] at hvm
            | some chk =>
              have hrc : runtimeCheck chk a = true := by
                have := List.all_eq_true.mp hc (m, a) hy
                simp only [checkerOf, hv, Option.getD_some] at this
                cases chk with
                | none => simp [runtimeCheck]
                | some c => obtain ⟨ty, strict⟩ := c; simpa [Expected.C15.validate] using this
              exact assign_of_validated _ e.pt st e.v m chk a hv hm.2 hrc d
          · exact ih l' (fun e' he' => hval e' (List.mem_cons_of_mem _ he')) hr x hx d
      · simp [hc] at h

theorem edgesMap_no_panic (allow : Bool) (st : FTy) : ∀ (es : List Edge),
    edgesMap Expected.C15.take Expected.C15.validate allow st es ≠ .error .panic := by
  intro es
  induction es with
  | nil => simp [edgesMap]
  | cons e rest ih =>
    simp only [edgesMap, checkPanicE_expected, Bool.false_eq_true, if_false]
    have hnp := fieldMapE_no_panic allow e.pt e.v e.ms
    cases hf : fieldMapE Expected.C15.take allow e.pt e.v e.ms with
    | error err => simp only [ne_eq, Except.error.injEq]; intro he; subst he; exact hnp hf
    | ok le =>
      simp only []
      by_cases hc : checkE Expected.C15.validate e.pt st e.ms le = true
      · simp only [hc, if_true]
        cases hr : edgesMap Expected.C15.take Expected.C15.validate allow st rest with
        | error err => simp only [ne_eq, Except.error.injEq]; intro he; subst he; exact ih hr
        | ok l' => simp
      · simp [hc]

end EinoV.C15
