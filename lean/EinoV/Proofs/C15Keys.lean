/-
  C15 — "everything else zero-valued" for maps: an assignment creates no map key other than the
  ones on its own target path; a fresh instance has no keys at all.
-/
import EinoV.Model.C15
import EinoV.Proofs.C15

namespace EinoV.C15

theorem FKVs.mem_keys_ins : ∀ (kvs : FKVs) (s : String) (v : FVal) (k : String),
    k ∈ (kvs.ins s v).toList.map (·.1) → k = s ∨ k ∈ kvs.toList.map (·.1)
  | .nil, s, v, k, h => by simp [FKVs.ins, FKVs.toList] at h; exact Or.inl h
  | .cons k0 w r, s, v, k, h => by
    simp only [FKVs.ins] at h
    split at h
    · simp only [FKVs.toList, List.map_cons, List.mem_cons] at h ⊢
      rcases h with h | h | h
      · exact Or.inl h
      · exact Or.inr (Or.inl h)
      · exact Or.inr (Or.inr h)
    · split at h
      · simp only [FKVs.toList, List.map_cons, List.mem_cons] at h ⊢
        rcases h with h | h
        · exact Or.inl h
        · exact Or.inr (Or.inr h)
      · simp only [FKVs.toList, List.map_cons, List.mem_cons] at h ⊢
        rcases h with h | h
        · exact Or.inr (Or.inl h)
        · rcases FKVs.mem_keys_ins r s v k h with h | h
          · exact Or.inl h
          · exact Or.inr (Or.inr h)

/-- the keys found at `c` after an assignment to `p` (with `c` not at or below `p`) were there
    before, or lie on `p` -/
theorem assign_keys : ∀ (p c : Path) (t : FTy) (d d' : FVal) (a : Taken) (ks' : List String) (k : String),
    assign t d p a = some d' → ¬ p <+: c → keysAt t d' c = some ks' → k ∈ ks' →
    (∃ ks, keysAt t d c = some ks ∧ k ∈ ks) ∨ (c ++ [k]) <+: p := by
  intro p
  induction p with
  | nil => intro c t d d' a ks' k _ hp; exact absurd List.nil_prefix hp
  | cons s r ih =>
    intro c t d d' a ks' k h hp hk hmem
    cases c with
    | nil =>
      -- the container is the root
      rw [assign_cons] at h
      simp only [keysAt, getT] at hk ⊢
      cases hm : mapOf t d with
      | some ek =>
        obtain ⟨e, kvs⟩ := ek
        simp only [hm] at h
        cases h1 : assign e ((kvs.lookup s).getD (newInstance e)) r a with
        | none => simp [h1] at h
        | some v =>
          simp only [h1, Option.map_some, Option.some.injEq] at h
          subst h
          simp only [mapOf_remap hm, Option.some.injEq] at hk
          subst hk
          rcases FKVs.mem_keys_ins kvs s v k hmem with hh | hh
          · subst hh; exact Or.inr (by simp)
          · exact Or.inl ⟨_, rfl, hh⟩
      | none =>
        simp only [hm] at h
        cases hst : structOf t with
        | none => simp [hst] at h
        | some fs =>
          simp only [hst] at h
          cases h1 : fieldUpd (fun ft fv => assign ft fv r a) fs (derefRec t fs d) s with
          | none => simp [h1] at h
          | some k' =>
            simp only [h1, Option.map_some, Option.some.injEq] at h
            subst h
            simp [mapOf_none hm] at hk
    | cons s' c' =>
      by_cases hs : s' = s
      · subst hs
        have hp' : ¬ r <+: c' := fun hh => hp (by simpa using hh)
        rw [assign_cons] at h
        simp only [keysAt] at hk ⊢
        rw [getT_cons] at hk
        rw [getT_cons t d]
        cases hm : mapOf t d with
        | some ek =>
          obtain ⟨e, kvs⟩ := ek
          simp only [hm] at h ⊢
          cases h1 : assign e ((kvs.lookup s').getD (newInstance e)) r a with
          | none => simp [h1] at h
          | some v =>
            simp only [h1, Option.map_some, Option.some.injEq] at h
            subst h
            simp only [mapOf_remap hm, FKVs.lookup_ins_same, Option.getD_some] at hk
            have := ih c' e _ v a ks' k h1 hp' (by simpa [keysAt] using hk) hmem
            rcases this with ⟨ks, h2, h3⟩ | h2
            · exact Or.inl ⟨ks, by simpa [keysAt] using h2, h3⟩
            · exact Or.inr (by simpa using h2)
        | none =>
          simp only [hm] at h ⊢
          rw [mapOf_none hm] at hk
          cases hst : structOf t with
          | none => simp [hst] at h
          | some fs =>
            simp only [hst] at h hk ⊢
            cases h1 : fieldUpd (fun ft fv => assign ft fv r a) fs (derefRec t fs d) s' with
            | none => simp [h1] at h
            | some k' =>
              simp only [h1, Option.map_some, Option.some.injEq] at h
              subst h
              simp only [derefRec_rewrap hst] at hk
              obtain ⟨ft, cur, v', g1, g2, g3⟩ := fieldUpd_get_same _ fs _ k' s' h1
              simp only [g3] at hk
              simp only [g1]
              have := ih c' ft cur v' a ks' k g2 hp' (by simpa [keysAt] using hk) hmem
              rcases this with ⟨ks, h2, h3⟩ | h2
              · exact Or.inl ⟨ks, by simpa [keysAt] using h2, h3⟩
              · exact Or.inr (by simpa using h2)
      · -- c branches off p at its first segment: nothing below c changed
        have hrel : ¬ prefixRel (s :: r) (s' :: c') := by
          intro hh; exact hs (prefixRel_cons_iff.mp hh).1.symm
        have := assign_getT_other (s :: r) (s' :: c') t d d' a hrel h
        simp only [keysAt, this] at hk
        exact Or.inl ⟨ks', by simpa [keysAt] using hk, hmem⟩

/-! ### a fresh instance has no keys -/

/-- `v` is a value `convertTo` starts from or instantiates on the way -/
def Fresh (t : FTy) (v : FVal) : Prop := v = zero t ∨ v = newInstance t

theorem fieldGet_zeroFields : ∀ (fs : FFields) (s : Seg) (ft : FTy) (fv : FVal),
    fieldGet fs (zeroFields fs) s = some (ft, fv) → fv = zero ft
  | .nil, s, ft, fv, h => by simp [fieldGet] at h
  | .cons n t r, s, ft, fv, h => by
    simp only [zeroFields, fieldGet, FKVs.headD_cons, FKVs.tail_cons] at h
    split at h
    · simp only [Option.some.injEq, Prod.mk.injEq] at h
      obtain ⟨rfl, rfl⟩ := h; rfl
    · exact fieldGet_zeroFields r s ft fv h

theorem newInstance_struct (n : String) (fs : FFields) : newInstance (.struct n fs) = zero (.struct n fs) := rfl

theorem derefRec_fresh {t : FTy} {fs : FFields} (hst : structOf t = some fs) {d : FVal} (hf : Fresh t d) :
    derefRec t fs d = zeroFields fs := by
  cases t with
  | struct n fs' =>
    simp only [structOf, Option.some.injEq] at hst; subst hst
    rcases hf with rfl | rfl <;> simp [derefRec, zero, newInstance]
  | ptr t' =>
    cases t' with
    | struct n fs' =>
      simp only [structOf, Option.some.injEq] at hst; subst hst
      rcases hf with rfl | rfl <;> simp [derefRec, zero, newInstance]
    | _ => simp [structOf] at hst
  | _ => simp [structOf] at hst

theorem mapOf_fresh {t : FTy} {d : FVal} (hf : Fresh t d) {e : FTy} {kvs : FKVs}
    (hm : mapOf t d = some (e, kvs)) : kvs = .nil := by
  cases t with
  | any =>
    rcases hf with rfl | rfl <;> simp [mapOf, zero, newInstance] at hm <;> exact hm.2.symm
  | map e' =>
    rcases hf with rfl | rfl <;> simp [mapOf, zero, newInstance] at hm <;> exact hm.2.symm
  | _ => simp [mapOf] at hm

theorem getT_fresh : ∀ (c : Path) (t : FTy) (d : FVal) (ct : FTy) (cv : FVal),
    Fresh t d → getT t d c = some (ct, cv) → Fresh ct cv := by
  intro c
  induction c with
  | nil =>
    intro t d ct cv hf h
    simp only [getT, Option.some.injEq, Prod.mk.injEq] at h
    obtain ⟨rfl, rfl⟩ := h; exact hf
  | cons s r ih =>
    intro t d ct cv hf h
    rw [getT_cons] at h
    cases hm : mapOf t d with
    | some ek =>
      obtain ⟨e, kvs⟩ := ek
      simp only [hm] at h
      have := mapOf_fresh hf hm
      subst this
      simp only [FKVs.lookup, Option.getD_none] at h
      exact ih e _ ct cv (Or.inr rfl) h
    | none =>
      simp only [hm] at h
      cases hst : structOf t with
      | none => simp [hst] at h
      | some fs =>
        simp only [hst, derefRec_fresh hst hf] at h
        cases hg : fieldGet fs (zeroFields fs) s with
        | none => simp [hg] at h
        | some ftv =>
          obtain ⟨ft, fv⟩ := ftv
          simp only [hg] at h
          have := fieldGet_zeroFields fs s ft fv hg
          subst this
          exact ih ft _ ct cv (Or.inl rfl) h

theorem keysAt_newInstance (t : FTy) (c : Path) (ks : List String) :
    keysAt t (newInstance t) c = some ks → ks = [] := by
  intro h
  simp only [keysAt] at h
  cases hg : getT t (newInstance t) c with
  | none => simp [hg] at h
  | some x =>
    obtain ⟨ct, cv⟩ := x
    simp only [hg] at h
    have hf := getT_fresh c t _ ct cv (Or.inr rfl) hg
    cases hm : mapOf ct cv with
    | none => simp [hm] at h
    | some ek =>
      obtain ⟨e, kvs⟩ := ek
      simp only [hm, Option.some.injEq] at h
      have := mapOf_fresh hf hm
      subst this
      simp [FKVs.toList] at h
      exact h

/-- after a whole run: a key found at `c` (not at or below a target) lies on one of the targets -/
theorem convertFrom_keys (t : FTy) : ∀ (l : List (Path × Taken)) (d v : FVal) (c : Path) (ks' : List String)
    (k : String), convertFrom t d l = some v → (∀ x ∈ l, ¬ x.1 <+: c) → keysAt t v c = some ks' → k ∈ ks' →
    (∃ ks, keysAt t d c = some ks ∧ k ∈ ks) ∨ ∃ x ∈ l, (c ++ [k]) <+: x.1 := by
  intro l
  induction l with
  | nil =>
    intro d v c ks' k h _ hk hmem
    simp only [convertFrom, Option.some.injEq] at h
    subst h
    exact Or.inl ⟨ks', hk, hmem⟩
  | cons x rest ih =>
    intro d v c ks' k h hnb hk hmem
    obtain ⟨p, a⟩ := x
    simp only [convertFrom] at h
    cases h1 : assign t d p a with
    | none => simp [h1] at h
    | some d1 =>
      simp only [h1, Option.bind_some] at h
      rcases ih d1 v c ks' k h (fun y hy => hnb y (List.mem_cons_of_mem _ hy)) hk hmem with ⟨ks1, g1, g2⟩ | ⟨y, hy, g⟩
      · rcases assign_keys p c t d d1 a ks1 k h1 (hnb (p, a) (by simp)) g1 g2 with g3 | g3
        · exact Or.inl g3
        · exact Or.inr ⟨(p, a), by simp, g3⟩
      · exact Or.inr ⟨y, List.mem_cons_of_mem _ hy, g⟩

end EinoV.C15
