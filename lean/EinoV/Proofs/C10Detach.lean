/-
  C10 — helper lemmas about contexts user code derives inside a node
  (Model/C10Detach.lean): which handlers can be in the list of a unit below a detached context.
-/
import EinoV.Model.C10
import EinoV.Model.C10Detach
import EinoV.Proofs.C10
import EinoV.Proofs.C10Runs
import EinoV.Proofs.C10Builtin

namespace EinoV.C10

/-- Below a context made with `InitCallbacks(ctx, info, s...)` — through any chain of
    `AppendHandlers` / `ReuseHandlers` steps (inner graphs, inner nodes, tool calls, further
    `ReuseHandlers` by hand) — a unit's handler list contains only the handlers of `s` and
    handlers designated (attached) at one of those steps.  Nothing of what the context passed to
    `InitCallbacks` carried survives. -/
theorem spec_below_init {P : Prog} {i : Nat} {d : UnitDecl} {s : Slice}
    (hd : P.units[i]? = some d) (hk : d.kind = .init s) {j : Nat} (hb : Below P i j) :
    ∀ h ∈ spec P j, h ∈ P.arrays.read s ∨
      ∃ k dk, Below P i k ∧ k ≠ i ∧ P.units[k]? = some dk ∧ dk.kind = .append ∧ h ∈ dk.desig := by
  induction hb with
  | self =>
    intro h hh
    rw [spec_init hd hk] at hh
    exact Or.inl hh
  | @step j p dj hdj hni hp hlt hbp ih =>
    intro h hh
    have hji : j ≠ i := by
      intro heq
      subst heq
      rw [hd] at hdj
      injection hdj with hdj
      subst hdj
      exact hni s hk
    cases hkj : dj.kind with
    | init s' => exact absurd hkj (hni s')
    | append =>
      rw [spec_append_some hdj hkj hp hlt, List.mem_append] at hh
      rcases hh with hh | hh
      · exact ih h hh
      · exact Or.inr ⟨j, dj, Below.step hdj hni hp hlt hbp, hji, hdj, hkj, hh⟩
    | reuse =>
      rw [spec_reuse_some hdj hkj hp hlt] at hh
      exact ih h hh

/-! ## the units user code adds come after the run's own units and leave them as they are -/

/-- the accumulated unit list extends `base` -/
def Ext (base : List UnitDecl) (acc : DAcc) : Prop := ∃ ext, acc.units = base ++ ext

theorem ext_append {base : List UnitDecl} {acc : DAcc} (h : Ext base acc) (arrays : Heap) (l : List UnitDecl) :
    Ext base ⟨arrays, acc.units ++ l⟩ := by
  obtain ⟨ext, he⟩ := h
  exact ⟨ext ++ l, by simp [he]⟩

theorem ext_dOpUnit {base : List UnitDecl} {acc : DAcc} (h : Ext base acc) (parent : Nat) (info : String)
    (prog : List Timing) (op : DOp) : Ext base (dOpUnit acc parent info prog op) := by
  cases op <;> exact ext_append h _ _

theorem ext_dOps {base : List UnitDecl} (key : String) (j : Nat) (inner : DInner) :
    ∀ (ops : List DOp) (acc : DAcc) (parent k : Nat), Ext base acc → Ext base (dOps key j inner acc parent k ops).1 := by
  intro ops
  induction ops with
  | nil => intro acc parent k h; exact h
  | cons op rest ih =>
    intro acc parent k h
    simp only [dOps]
    exact ih _ _ _ (ext_dOpUnit h _ _ _ _)

theorem ext_dWork {base : List UnitDecl} (cf : CFacts) (key : String) (nodeIdx : Nat) {acc : DAcc} (h : Ext base acc)
    (j : Nat) (w : DWork) : Ext base (dWork cf key nodeIdx acc j w) := by
  have h1 := ext_dOps (base := base) key j w.inner w.ops acc nodeIdx 0 h
  unfold dWork
  cases hw : w.inner with
  | fire f => simpa [hw] using h1
  | graph opts sf =>
    simp only [hw] at h1 ⊢
    exact ext_append h1 _ _

theorem ext_foldl {α : Type} {base : List UnitDecl} (f : DAcc → α → DAcc) (hf : ∀ a x, Ext base a → Ext base (f a x)) :
    ∀ (l : List α) (acc : DAcc), Ext base acc → Ext base (l.foldl f acc) := by
  intro l
  induction l with
  | nil => intro acc h; exact h
  | cons x xs ih => intro acc h; exact ih _ (hf _ _ h)

theorem ext_dNodeWork {base : List UnitDecl} (cf : CFacts) {acc : DAcc} (h : Ext base acc) (nodeIdx : Nat) (n : DNode) :
    Ext base (dNodeWork cf acc nodeIdx n) := by
  unfold dNodeWork
  exact ext_foldl _ (fun a jw ha => ext_dWork cf n.key nodeIdx ha jw.1 jw.2) _ _ h

/-- the program of a run with detached work = the program of the compose run itself, followed by
    the units user code adds -/
theorem detProg_units (cf : CFacts) (globals : List Hd) (userInit : Option (List Hd × Nat)) (opts : List Opt) (sh : DShape) :
    ∃ ext, (detProg cf globals userInit opts sh).units =
      (progOf cf { globals := globals, userInit := userInit, opts := opts, units := dBaseUnits sh }).units ++ ext := by
  unfold detProg
  exact ext_foldl _ (fun a kn ha => ext_dNodeWork cf ha _ kn.2) _ _ ⟨[], by simp⟩

/-- a unit of the compose run itself fires the same program whatever work the nodes detach -/
theorem unitProg_detProg (cf : CFacts) (globals : List Hd) (userInit : Option (List Hd × Nat)) (opts : List Opt) (sh : DShape)
    (k : Nat) (u : UnitSpec) (hu : (dBaseUnits sh)[k]? = some u) :
    unitProg (detProg cf globals userInit opts sh) (k + (if userInit.isSome then 1 else 0)) = kindProg cf u.kind := by
  obtain ⟨ext, he⟩ := detProg_units cf globals userInit opts sh
  let c : Case := { globals := globals, userInit := userInit, opts := opts, units := dBaseUnits sh }
  have h1 := unitProg_progOf cf c k u hu
  have hlen : (progOf cf c).units.length = c.units.length + shiftOf c := by
    unfold progOf shiftOf
    cases userInit <;> simp [c]
  have hk : k < c.units.length := (List.getElem?_eq_some_iff.mp hu).1
  have hlt : k + shiftOf c < (progOf cf c).units.length := by omega
  have hs : shiftOf c = (if userInit.isSome then 1 else 0) := rfl
  rw [← hs]
  unfold unitProg at h1 ⊢
  rw [he, List.getElem?_append_left hlt]
  exact h1

end EinoV.C10
