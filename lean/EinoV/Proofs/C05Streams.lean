/-
  C05 / C06, stream paradigms: lemmas about Model/C05Streams.lean — the checkpoint round trip of a
  stream (`concatS` / `restoreS`), the value universe extended by the stream without chunks
  (`emptyV`, `mergeE`), histories with a runner per call (`histLoop`).
-/
import EinoV.Model.C05Streams

namespace EinoV.Interrupt.Streams
open EinoV EinoV.Engine EinoV.Interrupt

variable {V S X : Type}

/-! ### the checkpoint round trip of a stream -/

/-- with `nil` stored for a stream without chunks, the round trip gives a stream without chunks
    exactly for a stream without chunks -/
theorem roundTrip_nil_iff (ops : ValOps V) (s cs : Chunks V) (h : roundTrip true ops s = some cs) :
    cs = [] ↔ s = [] := by
  match s, h with
  | [], h => simp [roundTrip, concatS, restoreS] at h; simp [← h]
  | [v], h => simp [roundTrip, concatS, restoreS] at h; simp [← h]
  | v :: w :: rest, h =>
    simp only [roundTrip, concatS] at h
    cases hm : ops.merge (v :: w :: rest) with
    | none => simp [hm] at h
    | some m => simp [hm, restoreS] at h; simp [← h]

/-- … and what is observed of the stream (no chunk / the chunks merged) survives it -/
theorem roundTrip_abs (ops : ValOps V) (e : V) (s cs : Chunks V) (h : roundTrip true ops s = some cs) :
    absS ops e cs = absS ops e s := by
  match s, h with
  | [], h => simp [roundTrip, concatS, restoreS] at h; simp [← h]
  | [v], h => simp [roundTrip, concatS, restoreS] at h; simp [← h]
  | v :: w :: rest, h =>
    simp only [roundTrip, concatS] at h
    cases hm : ops.merge (v :: w :: rest) with
    | none => simp [hm] at h
    | some m => simp [hm, restoreS] at h; simp [← h, absS, hm]

/-- the round trip fails exactly when the chunks cannot be merged (then what is observed of the
    stream is undefined as well): nothing else is lost -/
theorem roundTrip_none_iff (ops : ValOps V) (e : V) (b : Bool) (s : Chunks V) :
    roundTrip b ops s = none ↔ absS ops e s = none := by
  match s with
  | [] => simp [roundTrip, concatS, absS]
  | [v] => simp [roundTrip, concatS, absS]
  | v :: w :: rest =>
    simp only [roundTrip, concatS, absS]
    cases ops.merge (v :: w :: rest) <;> simp

/-- with the typed zero value stored instead, a stream without chunks comes back as a stream with
    one zero chunk -/
theorem roundTrip_zero (ops : ValOps V) : roundTrip false ops ([] : Chunks V) = some [ops.zero] := rfl

/-- a second round trip changes nothing any more (a restored stream has at most one chunk) -/
theorem roundTrip_idem (ops : ValOps V) (s cs : Chunks V) (h : roundTrip true ops s = some cs) :
    roundTrip true ops cs = some cs := by
  match s, h with
  | [], h => simp [roundTrip, concatS, restoreS] at h; subst h; simp [roundTrip, concatS, restoreS]
  | [v], h => simp [roundTrip, concatS, restoreS] at h; subst h; simp [roundTrip, concatS, restoreS]
  | v :: w :: rest, h =>
    simp only [roundTrip, concatS] at h
    cases hm : ops.merge (v :: w :: rest) with
    | none => simp [hm] at h
    | some m => simp [hm, restoreS] at h; subst h; simp [roundTrip, concatS, restoreS]

/-! ### the extended value universe -/

theorem isE_emptyV : isE emptyV = true := by decide

/-- on values of the old universe `mergeE` is `FlatMap.merge`: the extension is conservative -/
theorem mergeE_of_no_empty (vs : List FlatMap) (h : ∀ v ∈ vs, isE v = false) : mergeE vs = FlatMap.merge vs := by
  have hf : vs.filter (fun v => !isE v) = vs := by
    apply List.filter_eq_self.mpr
    intro v hv
    simp [h v hv]
  cases vs with
  | nil => simp [mergeE]
  | cons a t => simp only [mergeE, hf]; simp

/-- a fan-in of streams without chunks only is a stream without chunks -/
theorem mergeE_all_empty (vs : List FlatMap) (hne : vs ≠ []) (h : ∀ v ∈ vs, isE v = true) : mergeE vs = some emptyV := by
  have hf : vs.filter (fun v => !isE v) = [] := by
    apply List.filter_eq_nil_iff.mpr
    intro v hv
    simp [h v hv]
  cases vs with
  | nil => exact absurd rfl hne
  | cons a t => simp only [mergeE, hf]; simp

/-- a stream without chunks contributes nothing to a fan-in with a stream that has chunks -/
theorem mergeE_cons_empty (vs : List FlatMap) (h : ∃ v ∈ vs, isE v = false) : mergeE (emptyV :: vs) = mergeE vs := by
  obtain ⟨w, hw, hwe⟩ := h
  have hf : (emptyV :: vs).filter (fun v => !isE v) = vs.filter (fun v => !isE v) := by
    simp [isE_emptyV]
  have hne : (vs.filter (fun v => !isE v)).isEmpty = false := by
    cases hfl : vs.filter (fun v => !isE v) with
    | nil =>
      have := List.filter_eq_nil_iff.mp hfl w hw
      simp [hwe] at this
    | cons a t => rfl
  simp only [mergeE, hf, hne]
  simp

/-! ### histories -/

/-- a history all of whose calls run the same runner (all calls in one mode) is `resumeLoop`, the
    history the resume-equivalence theorems speak about -/
theorem histLoop_const (ops : ValOps V) (cfg : Cfg) (r : IRunner V S X) (sched : ISched V S X) (n i : Nat)
    (inp : V ⊕ Checkpoint V S X) :
    histLoop ops cfg (fun _ => r) sched n i inp = resumeLoop ops cfg r sched n inp := by
  induction n generalizing i inp with
  | zero => rfl
  | succ n ih =>
    simp only [histLoop, resumeLoop]
    generalize runI ops cfg r sched false true inp = o
    cases ho : o.res <;> simp [ih]

/-- more generally: only the runners of the calls that are made matter -/
theorem histLoop_congr (ops : ValOps V) (cfg : Cfg) (rOf rOf' : Nat → IRunner V S X) (sched : ISched V S X) (n i : Nat)
    (inp : V ⊕ Checkpoint V S X) (h : ∀ j, i ≤ j → j < i + n → rOf j = rOf' j) :
    histLoop ops cfg rOf sched n i inp = histLoop ops cfg rOf' sched n i inp := by
  induction n generalizing i inp with
  | zero => rfl
  | succ n ih =>
    have h0 : rOf i = rOf' i := h i (Nat.le_refl _) (by omega)
    simp only [histLoop, h0]
    generalize runI ops cfg (rOf' i) sched false true inp = o
    cases ho : o.res with
    | interrupted cp info =>
      simp only
      rw [ih]
      intro j h1 h2
      exact h j (by omega) (by omega)
    | done v => rfl
    | failed e => rfl

end EinoV.Interrupt.Streams
