/-
  C05 — nested graphs of every depth: `call_sim` (Proofs/C05Nested.lean) lifted through the depth-indexed
  family `NR d` by induction on `d`, and the history of calls of a caller that keeps resuming.
-/
import EinoV.Proofs.C05Nested
import EinoV.Proofs.C05NestedEngine

namespace EinoV.Interrupt
open EinoV.Engine

variable {V S X : Type}

/-! ### the compiled level and its node table -/

theorem NNode.toI_key {C : Type} (ops : ValOps V) (cfg : Cfg) (cd : SubCodec V S X) (toC : C → IRunner V S X)
    (n : NNode V S X C) : (n.toI ops cfg cd toC).key = n.key := rfl

theorem find?_map_key {α β : Type} (f : α → β) (ka : α → Key) (kb : β → Key) (hk : ∀ a, kb (f a) = ka a) (k : Key) :
    ∀ (l : List α), (l.map f).find? (fun b => kb b == k) = (l.find? (fun a => ka a == k)).map f := by
  intro l
  induction l with
  | nil => rfl
  | cons a rest ih =>
    simp only [List.map_cons, List.find?_cons, hk]
    split
    · rfl
    · exact ih

theorem NLevel.inode?_toIWith {C : Type} (ops : ValOps V) (cfg : Cfg) (cd : SubCodec V S X) (toC : C → IRunner V S X)
    (l : NLevel V S X C) (k : Key) :
    (l.toIWith ops cfg cd toC).inode? k = (l.node? k).map (NNode.toI ops cfg cd toC) :=
  find?_map_key (NNode.toI ops cfg cd toC) (·.key) (·.key) (fun _ => rfl) k l.nodes

/-- a node with its graph body replaced by the reference -/
def NNode.plainWith {C : Type} (pc : C → C) (n : NNode V S X C) : NNode V S X C :=
  { n with body := match n.body with
      | .fn f => .fn f
      | .graph c sc => .graph (pc c) sc }

theorem NLevel.node?_plainWith {C : Type} (pc : C → C) (l : NLevel V S X C) (k : Key) :
    (l.plainWith pc).node? k = (l.node? k).map (NNode.plainWith pc) :=
  find?_map_key (NNode.plainWith pc) (·.key) (·.key) (fun _ => rfl) k l.nodes

theorem bodySim_refl (XOK : X → Prop) (clog : List (Ev V S X) → Log V) (wt : V → S → Option X → Nat)
    (b : V → S → Option X → BodyOut V S X) : BodySim XOK clog wt b b :=
  fun _ _ _ _ _ _ h => Or.inl ⟨h, List.Perm.refl _⟩

theorem fnBody_noSR (f : V → S → Except Err V × S) (v : V) (s : S) (x : Option X) :
    ((fnBody f v s x : BodyOut V S X).res).isSR = false := by
  unfold fnBody
  split <;> rfl

/-! ### one level over children that simulate their references -/

section level
variable {C : Type} (ops : ValOps V) (cfg : Cfg) (cd : SubCodec V S X)
  (toC : C → IRunner V S X) (pc : C → C)
  (isFnC : C → Key → Bool) (xokC : C → Key → X → Prop) (clogC : C → Key → List (Ev V S X) → Log V)
  (wtC : C → Key → V → S → Option X → Nat)

/-- acceptable nested checkpoints of the graph nodes of a level -/
def NLevel.xokWith (l : NLevel V S X C) (k : Key) (p : X) : Prop :=
  match l.child? k with
  | some c => LsOK (toC c) (xokC c) (restore cfg (toC c) (cd.cp p))
  | none => True

/-- what the block of a nested run contributes to the log -/
def NLevel.clogWith (l : NLevel V S X C) (k : Key) (e : List (Ev V S X)) : Log V :=
  match l.child? k with
  | some c => pfxLog k (levelLog (isFnC c) (clogC c) e)
  | none => []

/-- the work of the reference body of a node: the work of the nested reference call for a graph node -/
def NLevel.wtWith (l : NLevel V S X C) (k : Key) (v : V) (_s : S) (x : Option X) : Nat :=
  match l.node? k with
  | some n =>
    (match n.body with
     | .graph c sc => callWt ops cfg (wtC c) (toC (pc c)) sc (subInp cd v x)
     | .fn _ => 0)
  | none => 0

theorem NLevel.levelRel (hcd : ∀ cp info, cd.cp (cd.pack cp info) = cp) (l : NLevel V S X C)
    (hch : ∀ n ∈ l.nodes, ∀ c sc, n.body = .graph c sc →
      CallSim ops cfg (isFnC c) (xokC c) (clogC c) (wtC c) (toC c) (toC (pc c)) sc) :
    LevelRel l.isFn (l.xokWith cfg cd toC xokC) (l.clogWith isFnC clogC) (l.wtWith ops cfg cd toC pc wtC)
      (l.toIWith ops cfg cd toC) ((l.plainWith pc).toIWith ops cfg cd toC) := by
  have hnode : ∀ k, ((l.plainWith pc).toIWith ops cfg cd toC).inode? k =
      (l.node? k).map (fun n => (NNode.plainWith pc n).toI ops cfg cd toC) := by
    intro k
    rw [NLevel.inode?_toIWith, NLevel.node?_plainWith, Option.map_map]
    rfl
  refine ⟨⟨rfl, rfl, ?_, ?_⟩, rfl, rfl, ?_, ?_, ?_⟩
  · intro k
    rw [hnode, NLevel.inode?_toIWith]
    cases l.node? k <;> rfl
  · intro k
    rw [hnode, NLevel.inode?_toIWith]
    cases l.node? k <;> rfl
  · intro k
    unfold NLevel.clogWith
    split <;> simp [levelLog, pfxLog]
  · intro k
    rw [hnode, NLevel.inode?_toIWith]
    cases hn : l.node? k with
    | none => left; exact ⟨rfl, rfl⟩
    | some n =>
      right
      refine ⟨_, _, rfl, rfl, ?_⟩
      have hmem : n ∈ l.nodes := List.mem_of_find?_eq_some hn
      cases hb : n.body with
      | fn f =>
        have h1 : (n.toI ops cfg cd toC).body = fnBody f := by simp [NNode.toI, hb]
        have h2 : ((NNode.plainWith pc n).toI ops cfg cd toC).body = fnBody f := by
          simp [NNode.toI, NNode.plainWith, hb]
        rw [h1, h2]
        exact bodySim_refl _ _ _ _
      | graph c sc =>
        have h1 : (n.toI ops cfg cd toC).body = subBody ops cfg cd (toC c) sc := by simp [NNode.toI, hb]
        have h2 : ((NNode.plainWith pc n).toI ops cfg cd toC).body = subBody ops cfg cd (toC (pc c)) sc := by
          simp [NNode.toI, NNode.plainWith, hb]
        have hc : l.child? k = some c := by simp [NLevel.child?, hn, hb]
        have hx : l.xokWith cfg cd toC xokC k = fun p => LsOK (toC c) (xokC c) (restore cfg (toC c) (cd.cp p)) := by
          funext p; simp [NLevel.xokWith, hc]
        have hl : l.clogWith isFnC clogC k = fun e => pfxLog k (levelLog (isFnC c) (clogC c) e) := by
          funext e; simp [NLevel.clogWith, hc]
        have hw : l.wtWith ops cfg cd toC pc wtC k =
            fun v _ x => callWt ops cfg (wtC c) (toC (pc c)) sc (subInp cd v x) := by
          funext v s' x; simp [NLevel.wtWith, hn, hb]
        rw [h1, h2, hx, hl, hw]
        exact subBody_sim ops cfg cd hcd (isFnC c) (xokC c) (clogC c) (wtC c) (toC c) (toC (pc c)) sc k
          (hch n hmem c sc hb)
  · intro k n hfn hn v s x
    rw [NLevel.inode?_toIWith] at hn
    unfold NLevel.isFn at hfn
    cases hnode' : l.node? k with
    | none => rw [hnode'] at hfn; cases hfn
    | some n' =>
      rw [hnode'] at hfn hn
      simp only [Option.map_some, Option.some.injEq] at hn
      subst hn
      cases hb : n'.body with
      | graph c sc => simp [hb] at hfn
      | fn f =>
        have h1 : (n'.toI ops cfg cd toC).body = fnBody f := by simp [NNode.toI, hb]
        rw [h1]
        exact fnBody_noSR f v s x

end level

/-! ### every depth -/

section depth
variable (ops : ValOps V) (cfg : Cfg) (cd : SubCodec V S X)

def NLevel.hypWith {C : Type} (hypC : C → ISched V S X → Prop) (l : NLevel V S X C) : Prop :=
  ∀ n ∈ l.nodes, ∀ c sc, n.body = .graph c sc → hypC c sc

/-- the hypotheses of every level of a nested graph: `LevelHyp` of the level under its completion order,
    and the same for every graph node under the completion order it is run with -/
def NR.Hyp : (d : Nat) → NR V S X d → ISched V S X → Prop
  | 0, l, sched => LevelHyp ops (NR.toI ops cfg cd 0 l) sched
  | d + 1, l, sched => LevelHyp ops (NR.toI ops cfg cd (d + 1) l) sched ∧ NLevel.hypWith (NR.Hyp d) l

def NR.isFn : (d : Nat) → NR V S X d → Key → Bool
  | 0, l => NLevel.isFn l
  | _ + 1, l => NLevel.isFn l

/-- acceptable nested checkpoints, at every depth: a nested checkpoint stored under a graph node
    restores to an acceptable loop state of that node's runner -/
def NR.xok : (d : Nat) → NR V S X d → Key → X → Prop
  | 0, l => NLevel.xokWith cfg cd (fun e : Empty => nomatch e) (fun e => nomatch e) l
  | d + 1, l => NLevel.xokWith cfg cd (NR.toI ops cfg cd d) (NR.xok d) l

def NR.clog : (d : Nat) → NR V S X d → Key → List (Ev V S X) → Log V
  | 0, l => NLevel.clogWith (fun e : Empty => nomatch e) (fun e => nomatch e) l
  | d + 1, l => NLevel.clogWith (NR.isFn d) (NR.clog d) l

/-- the work of the uninterrupted reference, at every depth -/
def NR.wt : (d : Nat) → NR V S X d → Key → V → S → Option X → Nat
  | 0, l => NLevel.wtWith ops cfg cd (fun e : Empty => nomatch e) (fun e => e) (fun e => nomatch e) l
  | d + 1, l => NLevel.wtWith ops cfg cd (NR.toI ops cfg cd d) (NR.deepPlain d) (NR.wt d) l

/-- the work of the uninterrupted reference call: a bound on the number of interrupts the run takes -/
def NR.work (d : Nat) (nr : NR V S X d) (sched : ISched V S X) (inp : V ⊕ Checkpoint V S X) : Nat :=
  callWt ops cfg (NR.wt ops cfg cd d nr) (NR.toI ops cfg cd d (NR.deepPlain d nr)) sched inp

theorem NR.leafLog_zero (nr : NLevel V S X Empty) (evs : List (Ev V S X)) :
    NR.leafLog (V := V) (S := S) (X := X) 0 nr evs = levelLog nr.isFn (fun _ _ => []) evs := rfl

theorem NR.leafLog_succ (d : Nat) (nr : NLevel V S X (NR V S X d)) (evs : List (Ev V S X)) :
    NR.leafLog (d + 1) nr evs =
      levelLog nr.isFn (fun k e => match nr.child? k with
        | some c => pfxLog k (NR.leafLog d c e)
        | none => []) evs := rfl

theorem NR.clog_zero (nr : NLevel V S X Empty) :
    NR.clog (V := V) (S := S) (X := X) 0 nr = NLevel.clogWith (fun e : Empty => nomatch e) (fun e => nomatch e) nr := rfl

theorem NR.clog_succ (d : Nat) (nr : NLevel V S X (NR V S X d)) :
    NR.clog (d + 1) nr = NLevel.clogWith (NR.isFn d) (NR.clog d) nr := rfl

theorem NR.leafLog_eq : ∀ (d : Nat) (nr : NR V S X d) (evs : List (Ev V S X)),
    NR.leafLog d nr evs = levelLog (NR.isFn d nr) (NR.clog d nr) evs := by
  intro d
  induction d with
  | zero =>
    intro nr evs
    revert nr
    show ∀ (nr : NLevel V S X Empty), NR.leafLog 0 nr evs = levelLog nr.isFn (NR.clog 0 nr) evs
    intro nr
    have : (fun (_ : Key) (_ : List (Ev V S X)) => ([] : Log V)) = NR.clog 0 nr := by
      funext k e
      rw [NR.clog_zero]
      unfold NLevel.clogWith
      cases hc : nr.child? k with
      | none => rfl
      | some c => exact nomatch c
    rw [NR.leafLog_zero, this]
  | succ d ih =>
    intro nr evs
    revert nr
    show ∀ (nr : NLevel V S X (NR V S X d)), NR.leafLog (d + 1) nr evs = levelLog nr.isFn (NR.clog (d + 1) nr) evs
    intro nr
    have : (fun (k : Key) (e : List (Ev V S X)) => match nr.child? k with
        | some c => pfxLog k (NR.leafLog d c e)
        | none => ([] : Log V)) = NR.clog (d + 1) nr := by
      funext k e
      rw [NR.clog_succ]
      unfold NLevel.clogWith
      cases nr.child? k <;> simp [ih]
    rw [NR.leafLog_succ, this]

/-- **call_sim at every nesting depth.** -/
theorem NR.call_sim (hcd : ∀ cp info, cd.cp (cd.pack cp info) = cp) (hcfg : cfg.fwdStale = false) :
    ∀ (d : Nat) (nr : NR V S X d) (sched : ISched V S X), NR.Hyp ops cfg cd d nr sched →
    ∀ (isSub hasID s0 h0 : Bool) (v : V) (inp : V ⊕ Checkpoint V S X),
      InpOK cfg (NR.toI ops cfg cd d nr) (NR.xok ops cfg cd d nr) inp →
      (runI ops cfg (NR.toI ops cfg cd d (NR.deepPlain d nr)) sched s0 h0 inp).res = .done v →
      SimOut ops cfg (NR.isFn d nr) (NR.xok ops cfg cd d nr) (NR.clog d nr) (NR.wt ops cfg cd d nr)
        (NR.toI ops cfg cd d nr) (NR.toI ops cfg cd d (NR.deepPlain d nr)) sched s0 h0 v
        (levelLog (NR.isFn d nr) (NR.clog d nr)
          (runI ops cfg (NR.toI ops cfg cd d (NR.deepPlain d nr)) sched s0 h0 inp).evs)
        (NR.work ops cfg cd d nr sched inp)
        (runI ops cfg (NR.toI ops cfg cd d nr) sched isSub hasID inp) := by
  intro d
  induction d with
  | zero =>
    intro nr sched hyp isSub hasID s0 h0 v inp hinp href
    have hrel := NLevel.levelRel ops cfg cd (fun e : Empty => nomatch e) (fun e => e)
      (fun e => nomatch e) (fun e => nomatch e) (fun e => nomatch e) (fun e => nomatch e) hcd nr (fun _ _ c => nomatch c)
    exact EinoV.Interrupt.call_sim hrel hyp cfg hcfg isSub hasID s0 h0 v inp hinp href
  | succ d ih =>
    intro nr sched hyp isSub hasID s0 h0 v inp hinp href
    have hrel := NLevel.levelRel ops cfg cd (NR.toI ops cfg cd d) (NR.deepPlain d)
      (NR.isFn d) (NR.xok ops cfg cd d) (NR.clog d) (NR.wt ops cfg cd d) hcd nr
      (fun n hn c sc hb inp' hinp' v' href' => ih c sc (hyp.2 n hn c sc hb) true false true false v' inp' hinp' href')
    exact EinoV.Interrupt.call_sim hrel hyp.1 cfg hcfg isSub hasID s0 h0 v inp hinp href

end depth

/-! ### the caller that keeps resuming -/

theorem resumeLoop_eq_chain (ops : ValOps V) (cfg : Cfg) (r : IRunner V S X) (sched : ISched V S X) :
    ∀ (n : Nat) (inp : V ⊕ Checkpoint V S X), resumeLoop ops cfg r sched n inp = chain ops cfg r sched false true n inp := by
  intro n
  induction n with
  | zero => intro inp; rfl
  | succ n ih =>
    intro inp
    simp only [resumeLoop, chain]
    split <;> simp_all

theorem allEvs_cons (o : Out V S X) (rest : List (Out V S X)) : allEvs (o :: rest) = o.evs ++ allEvs rest := by
  simp [allEvs]

/-- **the history of calls.**  If the reference returns `v`, a history of calls (each resumed from the
    checkpoint the previous one returned) that ends with something else than an interrupt ends with
    `v`, and the executions logged over the whole history are those the reference logs. -/
theorem chain_sim {isFn : Key → Bool} {XOK : Key → X → Prop} {clog : Key → List (Ev V S X) → Log V}
    {wt : Key → V → S → Option X → Nat}
    {r r₀ : IRunner V S X} {ops : ValOps V} {sched : ISched V S X} (cfg : Cfg) (isSub hasID s0 h0 : Bool)
    (hcall : ∀ (v : V) (inp : V ⊕ Checkpoint V S X), InpOK cfg r XOK inp →
      (runI ops cfg r₀ sched s0 h0 inp).res = .done v →
      SimOut ops cfg isFn XOK clog wt r r₀ sched s0 h0 v (levelLog isFn clog (runI ops cfg r₀ sched s0 h0 inp).evs)
        (callWt ops cfg wt r₀ sched inp) (runI ops cfg r sched isSub hasID inp)) (v : V) :
    ∀ (calls : Nat) (inp : V ⊕ Checkpoint V S X), InpOK cfg r XOK inp →
      (runI ops cfg r₀ sched s0 h0 inp).res = .done v →
      ∀ res, Out.finalOf (chain ops cfg r sched isSub hasID calls inp) = some res → res.final? ≠ none →
        res = .done v ∧
        (levelLog isFn clog (runI ops cfg r₀ sched s0 h0 inp).evs).Perm
          (levelLog isFn clog (allEvs (chain ops cfg r sched isSub hasID calls inp))) := by
  intro calls
  induction calls with
  | zero => intro inp _ _ res h; simp [chain, Out.finalOf] at h
  | succ n ih =>
    intro inp hinp href res hfin hne
    have hsim := hcall v inp hinp href
    unfold SimOut at hsim
    simp only [chain] at hfin ⊢
    cases hr : (runI ops cfg r sched isSub hasID inp).res with
    | failed e => rw [hr] at hsim; exact absurd hsim id
    | done v' =>
      rw [hr] at hsim
      simp only [hr, Out.finalOf, Option.some.injEq] at hfin ⊢
      subst hfin
      refine ⟨by rw [hsim.1], ?_⟩
      simpa [allEvs] using hsim.2
    | interrupted cp' info =>
      rw [hr] at hsim
      obtain ⟨hok, href', hlog, _⟩ := hsim
      simp only [hr] at hfin ⊢
      cases hrest : chain ops cfg r sched isSub hasID n (.inr cp') with
      | nil =>
        rw [hrest] at hfin
        simp only [Out.finalOf, Option.some.injEq] at hfin
        rw [← hfin, hr] at hne
        exact absurd rfl hne
      | cons a b =>
        rw [hrest] at hfin
        have hfin' : Out.finalOf (chain ops cfg r sched isSub hasID n (.inr cp')) = some res := by
          rw [hrest]; exact hfin
        obtain ⟨i1, i2⟩ := ih (.inr cp') hok href' res hfin' hne
        refine ⟨i1, ?_⟩
        rw [← hrest, allEvs_cons, levelLog_append]
        exact hlog.trans (List.Perm.append_left _ i2)

/-- **the history completes.**  The work of the reference bounds the number of interrupts: a caller
    that allows more calls than that gets a history that does not end in an interrupt. -/
theorem chain_terminates {isFn : Key → Bool} {XOK : Key → X → Prop} {clog : Key → List (Ev V S X) → Log V}
    {wt : Key → V → S → Option X → Nat}
    {r r₀ : IRunner V S X} {ops : ValOps V} {sched : ISched V S X} (cfg : Cfg) (isSub hasID s0 h0 : Bool)
    (hcall : ∀ (v : V) (inp : V ⊕ Checkpoint V S X), InpOK cfg r XOK inp →
      (runI ops cfg r₀ sched s0 h0 inp).res = .done v →
      SimOut ops cfg isFn XOK clog wt r r₀ sched s0 h0 v (levelLog isFn clog (runI ops cfg r₀ sched s0 h0 inp).evs)
        (callWt ops cfg wt r₀ sched inp) (runI ops cfg r sched isSub hasID inp)) (v : V) :
    ∀ (calls : Nat) (inp : V ⊕ Checkpoint V S X), InpOK cfg r XOK inp →
      (runI ops cfg r₀ sched s0 h0 inp).res = .done v → callWt ops cfg wt r₀ sched inp < calls →
      ∃ res, Out.finalOf (chain ops cfg r sched isSub hasID calls inp) = some res ∧ res.final? ≠ none := by
  intro calls
  induction calls with
  | zero => intro inp _ _ h; omega
  | succ n ih =>
    intro inp hinp href hw
    have hsim := hcall v inp hinp href
    unfold SimOut at hsim
    simp only [chain]
    cases hr : (runI ops cfg r sched isSub hasID inp).res with
    | failed e => rw [hr] at hsim; exact absurd hsim id
    | done v' => exact ⟨.done v', by simp [Out.finalOf, hr], by simp [Res.final?]⟩
    | interrupted cp' info =>
      rw [hr] at hsim
      obtain ⟨hok, href', _, hlt⟩ := hsim
      obtain ⟨res, h1, h2⟩ := ih (.inr cp') hok href' (by omega)
      refine ⟨res, ?_, h2⟩
      simp only
      cases hrest : chain ops cfg r sched isSub hasID n (.inr cp') with
      | nil => rw [hrest] at h1; simp [Out.finalOf] at h1
      | cons a b => rw [hrest] at h1; exact h1

theorem NR.plain_deepPlain (ops : ValOps V) (cfg : Cfg) (cd : SubCodec V S X) : ∀ (d : Nat) (nr : NR V S X d),
    (NR.toI ops cfg cd d (NR.deepPlain d nr)).plain = NR.toI ops cfg cd d (NR.deepPlain d nr) := by
  intro d
  cases d <;> intro nr <;> rfl

/-- **nested resume equivalence** in the terms of `resumeUntilDone` / `run₀` / `NR.leafLog` -/
theorem NR.resume_equiv (ops : ValOps V) (cfg : Cfg) (cd : SubCodec V S X)
    (hcd : ∀ cp info, cd.cp (cd.pack cp info) = cp) (hcfg : cfg.fwdStale = false)
    (d : Nat) (nr : NR V S X d) (sched : ISched V S X) (hyp : NR.Hyp ops cfg cd d nr sched)
    (calls : Nat) (x v : V)
    (href : (run₀ ops cfg (NR.toI ops cfg cd d (NR.deepPlain d nr)) sched x).res = .done v)
    (res : Res V S X)
    (hfin : Out.finalOf (resumeUntilDone ops cfg (NR.toI ops cfg cd d nr) sched calls x) = some res)
    (hne : res.final? ≠ none) :
    res = .done v ∧
    (NR.leafLog d nr (run₀ ops cfg (NR.toI ops cfg cd d (NR.deepPlain d nr)) sched x).evs).Perm
      (NR.leafLog d nr (allEvs (resumeUntilDone ops cfg (NR.toI ops cfg cd d nr) sched calls x))) := by
  unfold run₀ at href ⊢
  rw [NR.plain_deepPlain] at href ⊢
  unfold resumeUntilDone at hfin ⊢
  rw [resumeLoop_eq_chain] at hfin ⊢
  rw [NR.leafLog_eq, NR.leafLog_eq]
  exact chain_sim cfg false true false false
    (fun v' inp hinp href' => NR.call_sim ops cfg cd hcd hcfg d nr sched hyp false true false false v' inp hinp href')
    v calls (.inl x) trivial href res hfin hne

/-- the history completes within `NR.work … (.inl x) + 1` calls -/
theorem NR.resume_terminates (ops : ValOps V) (cfg : Cfg) (cd : SubCodec V S X)
    (hcd : ∀ cp info, cd.cp (cd.pack cp info) = cp) (hcfg : cfg.fwdStale = false)
    (d : Nat) (nr : NR V S X d) (sched : ISched V S X) (hyp : NR.Hyp ops cfg cd d nr sched)
    (calls : Nat) (x v : V)
    (href : (run₀ ops cfg (NR.toI ops cfg cd d (NR.deepPlain d nr)) sched x).res = .done v)
    (hc : NR.work ops cfg cd d nr sched (.inl x) < calls) :
    ∃ res, Out.finalOf (resumeUntilDone ops cfg (NR.toI ops cfg cd d nr) sched calls x) = some res ∧
      res.final? ≠ none := by
  unfold run₀ at href
  rw [NR.plain_deepPlain] at href
  unfold resumeUntilDone
  rw [resumeLoop_eq_chain]
  exact chain_terminates cfg false true false false
    (fun v' inp hinp href' => NR.call_sim ops cfg cd hcd hcfg d nr sched hyp false true false false v' inp hinp href')
    v calls (.inl x) trivial href hc

/-! ### where the split rule comes from -/

/-- **fold then get = get after all**: folding the first part of the finished tasks into the channels
    (resolve, updateValues, updateDependencies, no `get`) and reporting the rest to
    `calculateNextTasks` later gives what `calculateNextTasks` gives on all of them at once -/
def FoldThenGet (ops : ValOps V) (base : Runner V) : Prop :=
  ∀ (cm : Chans V) (D1 D2 : List (Done V)) (cm' : Chans V) (nx : Next V), ModeInv base cm →
    calcNext ops base cm (D1 ++ D2) = .ok (cm', nx) →
    ∃ cm2, foldFin base cm D1 = .ok cm2 ∧ calcNext ops base cm2 D2 = .ok (cm', nx)

/-- a successful `calculateNextTasks` does not depend on the order in which the finished tasks are listed -/
def CalcNextPerm (ops : ValOps V) (base : Runner V) : Prop :=
  ∀ (cm : Chans V) (D D' : List (Done V)) (cm' : Chans V) (nx : Next V), D.Perm D' → (D.map (·.1)).Nodup →
    calcNext ops base cm D = .ok (cm', nx) → calcNext ops base cm D' = .ok (cm', nx)

/-- the post-handler of one completed task -/
def postStep (r : IRunner V S X) (d : Done V) (st : S) : Done V × S :=
  match (r.inode? d.1).bind (·.post) with
  | none => (d, st)
  | some h => ((d.1, (h d.2 st).1), (h d.2 st).2)

/-- the post-handlers of two different nodes commute: same outputs, same final state in either order -/
def PostsCommute (r : IRunner V S X) : Prop :=
  ∀ (d1 d2 : Done V) (st : S), d1.1 ≠ d2.1 →
    (postStep r d2 (postStep r d1 st).2).2 = (postStep r d1 (postStep r d2 st).2).2 ∧
    (postStep r d1 (postStep r d2 st).2).1 = (postStep r d1 st).1 ∧
    (postStep r d2 (postStep r d1 st).2).1 = (postStep r d2 st).1

theorem postDones_cons (r : IRunner V S X) (d : Done V) (rest : List (Done V)) (st : S) :
    postDones r (d :: rest) st =
      ((postStep r d st).1 :: (postDones r rest (postStep r d st).2).1, (postDones r rest (postStep r d st).2).2) := by
  simp only [postDones, postStep]
  cases (r.inode? d.1).bind (·.post) <;> rfl

theorem postsCommute_of_noPost (r : IRunner V S X) (h : ∀ k, (r.inode? k).bind (·.post) = none) : PostsCommute r := by
  intro d1 d2 st _
  simp [postStep, h]

theorem postDones_perm (r : IRunner V S X) (hc : PostsCommute r) {C C' : List (Done V)} (hp : C.Perm C') :
    (C.map (·.1)).Nodup → ∀ st, (postDones r C st).2 = (postDones r C' st).2 ∧
      (postDones r C st).1.Perm (postDones r C' st).1 := by
  induction hp with
  | nil => intro _ st; exact ⟨rfl, List.Perm.refl _⟩
  | cons d _ ih =>
    intro hnd st
    simp only [List.map_cons, List.nodup_cons] at hnd
    obtain ⟨i1, i2⟩ := ih hnd.2 (postStep r d st).2
    simp only [postDones_cons]
    exact ⟨i1, i2.cons _⟩
  | swap a b l =>
    intro hnd st
    simp only [List.map_cons, List.nodup_cons, List.mem_cons, not_or] at hnd
    have hne : b.1 ≠ a.1 := hnd.1.1
    obtain ⟨c1, c2, c3⟩ := hc b a st hne
    simp only [postDones_cons]
    rw [c1, c2, c3]
    exact ⟨rfl, List.Perm.swap _ _ _⟩
  | trans h1 _ ih1 ih2 =>
    intro hnd st
    obtain ⟨a1, a2⟩ := ih1 hnd st
    obtain ⟨b1, b2⟩ := ih2 ((h1.map _).nodup_iff.1 hnd) st
    exact ⟨a1.trans b1, a2.trans b2⟩

/-- the split rule from its two ingredients -/
theorem splitOK_of (ops : ValOps V) (r : IRunner V S X) (hf : FoldThenGet ops r.base) (hp : CalcNextPerm ops r.base)
    (hc : PostsCommute r) : SplitOK ops r := by
  intro cm st A B C res hperm hnd hinv hnx
  obtain ⟨s1, s2⟩ := postDones_perm r hc hperm hnd st
  unfold nextOf at hnx ⊢
  cases hcn : calcNext ops r.base cm (postDones r C st).1 with
  | error e => rw [hcn] at hnx; cases hnx
  | ok q =>
    obtain ⟨cm', nx⟩ := q
    rw [hcn] at hnx
    simp only [Except.ok.injEq] at hnx
    subst hnx
    have hnd' : ((postDones r C st).1.map (·.1)).Nodup := by rw [postDones_fst_keys]; exact hnd
    have h2 := hp cm _ _ cm' nx s2 hnd' hcn
    rw [postDones_append] at h2 s1
    simp only at h2 s1
    obtain ⟨cm2, hfold, hnext⟩ := hf cm _ _ cm' nx hinv h2
    exact ⟨cm2, hfold, by rw [hnext, s1]⟩

/-- **any-predecessor mode.**  With a merge that does not depend on the order of its arguments and
    post-handlers that commute, the split rule holds for every topology (cycles, branches, fan-in). -/
theorem pregel_splitOK (ops : ValOps V) (hm : MergePerm ops) (r : IRunner V S X) (hdag : r.base.dag = false)
    (hc : PostsCommute r) : SplitOK ops r :=
  splitOK_of ops r
    (fun cm D1 D2 cm' nx _ h => pregel_fold_then_get ops r.base hdag cm D1 D2 cm' nx h)
    (fun cm D D' cm' nx hp hnd h => pregel_calcNext_perm ops hm r.base hdag cm D D' hp hnd cm' nx h) hc

/-- the hypotheses of a level in any-predecessor mode, from what can be read off the graph -/
theorem levelHyp_pregel (ops : ValOps V) (hm : MergePerm ops) (r : IRunner V S X) (sched : ISched V S X)
    (hdag : r.base.dag = false) (hnd : (akeys (initChans r.base)).Nodup) (hperm : ∀ l, (sched l).Perm l)
    (hc : PostsCommute r) : LevelHyp ops r sched :=
  ⟨hnd, fun h => by rw [hdag] at h; exact absurd h (by decide), hperm, pregel_splitOK ops hm r hdag hc⟩

/-- a level without post-handlers -/
theorem NLevel.noPost {C : Type} (ops : ValOps V) (cfg : Cfg) (cd : SubCodec V S X) (toC : C → IRunner V S X)
    (l : NLevel V S X C) (h : ∀ n ∈ l.nodes, n.post = none) :
    PostsCommute (l.toIWith ops cfg cd toC) := by
  apply postsCommute_of_noPost
  intro k
  rw [NLevel.inode?_toIWith]
  cases hn : l.node? k with
  | none => rfl
  | some n => exact h n (List.mem_of_find?_eq_some hn)

/-- what can be read off an any-predecessor level: trigger mode, distinct channel keys, a completion
    order that is a permutation, commuting post-handlers -/
def PregelLevel (r : IRunner V S X) (sched : ISched V S X) : Prop :=
  r.base.dag = false ∧ (akeys (initChans r.base)).Nodup ∧ (∀ l, (sched l).Perm l) ∧ PostsCommute r

/-- every level of the nested graph is an any-predecessor level -/
def NR.PregelHyp (ops : ValOps V) (cfg : Cfg) (cd : SubCodec V S X) : (d : Nat) → NR V S X d → ISched V S X → Prop
  | 0, l, sched => PregelLevel (NR.toI ops cfg cd 0 l) sched
  | d + 1, l, sched => PregelLevel (NR.toI ops cfg cd (d + 1) l) sched ∧ NLevel.hypWith (NR.PregelHyp ops cfg cd d) l

theorem NR.hyp_of_pregel (ops : ValOps V) (hm : MergePerm ops) (cfg : Cfg) (cd : SubCodec V S X) :
    ∀ (d : Nat) (nr : NR V S X d) (sched : ISched V S X), NR.PregelHyp ops cfg cd d nr sched → NR.Hyp ops cfg cd d nr sched := by
  intro d
  induction d with
  | zero =>
    intro nr sched h
    exact levelHyp_pregel ops hm _ sched h.1 h.2.1 h.2.2.1 h.2.2.2
  | succ d ih =>
    intro nr sched h
    exact ⟨levelHyp_pregel ops hm _ sched h.1.1 h.1.2.1 h.1.2.2.1 h.1.2.2.2,
      fun n hn c sc hb => ih c sc (h.2 n hn c sc hb)⟩

end EinoV.Interrupt
