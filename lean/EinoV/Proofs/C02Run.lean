/-
  C02, run level: in all-predecessor mode every node of a well-formed acyclic runner is started
  at most once (`run_at_most_once`), for every wiring, node function, branch outcome, input and
  fair completion schedule.

  Proof: a counting invariant `J` over the channel manager — every predecessor entry that has
  been reported and not yet consumed by a start of the node is paid for by a completion of the
  predecessor or by the predecessor having turned skipped — preserved by every operation of
  `calcNext` (skip propagation with its work list, updateValues, updateDependencies,
  getFromReadyChannels), plus a static induction along the acyclic predecessor order
  (`static_bound`): starts(n) + skipped(n) ≤ 1.
-/
import EinoV.Model.Engine
import EinoV.Spec.DagWF
import EinoV.Proofs.Assoc
import EinoV.Proofs.C01Refine

namespace EinoV.Engine
namespace DagRun

/-! ### association-list facts -/

theorem mem_aset {α} (k : Key) (v : α) (l : List (Key × α)) (p : Key) (d : α)
    (h : (p, d) ∈ aset k v l) : (p = k ∧ d = v) ∨ (p, d) ∈ l := by
  induction l with
  | nil => simp [aset] at h; exact Or.inl h
  | cons q t ih =>
    obtain ⟨k', v'⟩ := q
    by_cases h1 : (k' == k) = true
    · simp only [aset, h1, ↓reduceIte, List.mem_cons, Prod.mk.injEq] at h
      rcases h with h | h
      · exact Or.inl h
      · exact Or.inr (List.mem_cons_of_mem _ h)
    · simp only [aset, h1, Bool.false_eq_true, ↓reduceIte, List.mem_cons, Prod.mk.injEq] at h
      rcases h with h | h
      · exact Or.inr (by simp [h])
      · rcases ih h with h | h
        · exact Or.inl h
        · exact Or.inr (List.mem_cons_of_mem _ h)

theorem mem_aset_self {α} (k : Key) (v : α) (l : List (Key × α)) : (k, v) ∈ aset k v l := by
  induction l with
  | nil => simp [aset]
  | cons q t ih =>
    obtain ⟨k', v'⟩ := q
    by_cases h1 : (k' == k) = true
    · simp [aset, h1]
    · simp only [aset, h1, Bool.false_eq_true, ↓reduceIte, List.mem_cons]
      exact Or.inr ih

theorem alookup_isSome_iff {α} (k : Key) (l : List (Key × α)) :
    (alookup k l).isSome = true ↔ k ∈ akeys l := by
  induction l with
  | nil => simp [alookup, akeys]
  | cons q t ih =>
    obtain ⟨k', v'⟩ := q
    by_cases h1 : (k' == k) = true
    · have e : k' = k := by simpa using h1
      simp [alookup, h1, akeys, e]
    · have ne : k' ≠ k := by simpa using h1
      simp only [alookup, h1, Bool.false_eq_true, ↓reduceIte, ih]
      simp only [akeys, List.map_cons, List.mem_cons]
      constructor
      · exact Or.inr
      · rintro (h | h)
        · exact absurd h.symm ne
        · exact h

theorem mem_of_alookup {α} (k : Key) (v : α) (l : List (Key × α)) (h : alookup k l = some v) :
    (k, v) ∈ l := by
  induction l with
  | nil => simp [alookup] at h
  | cons q t ih =>
    obtain ⟨k', v'⟩ := q
    by_cases h1 : (k' == k) = true
    · have e : k' = k := by simpa using h1
      simp only [alookup, h1, ↓reduceIte, Option.some.injEq] at h
      simp [e, h]
    · simp only [alookup, h1, Bool.false_eq_true, ↓reduceIte] at h
      exact List.mem_cons_of_mem _ (ih h)

theorem akeys_aset_of_mem {α} (k : Key) (v : α) (l : List (Key × α)) (h : k ∈ akeys l) :
    akeys (aset k v l) = akeys l := by
  rw [akeys_aset]; simp [h]

theorem mem_akeys_of_mem {α} (p : Key) (d : α) (l : List (Key × α)) (h : (p, d) ∈ l) : p ∈ akeys l := by
  simp only [akeys, List.mem_map]; exact ⟨(p, d), h, rfl⟩

theorem exists_of_mem_akeys {α} (p : Key) (l : List (Key × α)) (h : p ∈ akeys l) : ∃ d, (p, d) ∈ l := by
  simp only [akeys, List.mem_map] at h
  obtain ⟨⟨q, d⟩, hm, rfl⟩ := h
  exact ⟨d, hm⟩

/-! ### what a channel looks like to the counting argument -/

def pendC : Dep → Nat
  | .waiting => 0
  | _ => 1

def pendD : Bool → Nat
  | true => 1
  | false => 0

/-- skip bookkeeping is consistent: a skipped channel has every control entry skipped, and some
    entry that was reported (unless it has no entries at all) -/
structure SkOK {V} (c : Chan V) : Prop where
  all : c.skipped = true → ∀ p d, (p, d) ∈ c.ctrl → d = Dep.skipped
  wit : c.skipped = true → c.ctrl = [] → ∃ p, (p, true) ∈ c.data

/-! ### the channel operations (all-predecessor mode) -/

def depsF {V} (c : Chan V) (k : Key) : Chan V :=
  if (alookup k c.ctrl).isSome then { c with ctrl := aset k Dep.ready c.ctrl } else c

theorem reportDeps_eq {V} (c : Chan V) (deps : List Key) :
    c.reportDeps true deps = if c.skipped then c else deps.foldl depsF c := rfl

theorem depsF_fold {V} (deps : List Key) (c : Chan V) :
    shapeOf (deps.foldl depsF c) = shapeOf c ∧ (deps.foldl depsF c).skipped = c.skipped ∧
    (deps.foldl depsF c).data = c.data ∧
    (∀ p d, (p, d) ∈ (deps.foldl depsF c).ctrl → (p, d) ∈ c.ctrl ∨ (p ∈ deps ∧ p ∈ akeys c.ctrl)) := by
  induction deps generalizing c with
  | nil => exact ⟨rfl, rfl, rfl, fun p d h => Or.inl h⟩
  | cons k t ih =>
    simp only [List.foldl_cons]
    obtain ⟨i1, i2, i3, i4⟩ := ih (depsF c k)
    unfold depsF at i1 i2 i3 i4 ⊢
    split at i1
    · rename_i hs
      have hk := (alookup_isSome_iff _ _).mp hs
      simp only [hs, ↓reduceIte] at i2 i3 i4 ⊢
      refine ⟨?_, i2, i3, fun p d h => ?_⟩
      · rw [i1]; simp only [shapeOf]; rw [akeys_aset_of_mem _ _ _ hk]
      · rcases i4 p d h with h | ⟨h1, h2⟩
        · rcases mem_aset _ _ _ _ _ h with ⟨rfl, _⟩ | h
          · exact Or.inr ⟨by simp, hk⟩
          · exact Or.inl h
        · refine Or.inr ⟨by simp [h1], ?_⟩
          simpa [akeys_aset_of_mem _ _ _ hk] using h2
    · rename_i hs
      simp only [hs, Bool.false_eq_true, ↓reduceIte] at i2 i3 i4 ⊢
      refine ⟨i1, i2, i3, fun p d h => ?_⟩
      rcases i4 p d h with h | ⟨h1, h2⟩
      · exact Or.inl h
      · exact Or.inr ⟨by simp [h1], h2⟩

def valsF {V} (c : Chan V) (kv : Key × V) : Chan V :=
  if (alookup kv.1 c.data).isSome then
    { c with data := aset kv.1 true c.data, values := aset kv.1 kv.2 c.values }
  else c

theorem reportValues_eq {V} (c : Chan V) (ins : List (Key × V)) :
    c.reportValues true ins = if c.skipped then c else ins.foldl valsF c := rfl

theorem valsF_fold {V} (ins : List (Key × V)) (c : Chan V) :
    shapeOf (ins.foldl valsF c) = shapeOf c ∧ (ins.foldl valsF c).skipped = c.skipped ∧
    (ins.foldl valsF c).ctrl = c.ctrl ∧
    (∀ p d, (p, d) ∈ (ins.foldl valsF c).data → (p, d) ∈ c.data ∨ (p ∈ akeys ins ∧ p ∈ akeys c.data)) := by
  induction ins generalizing c with
  | nil => exact ⟨rfl, rfl, rfl, fun p d h => Or.inl h⟩
  | cons k t ih =>
    simp only [List.foldl_cons]
    obtain ⟨i1, i2, i3, i4⟩ := ih (valsF c k)
    unfold valsF at i1 i2 i3 i4 ⊢
    split at i1
    · rename_i hs
      have hk := (alookup_isSome_iff _ _).mp hs
      simp only [hs, ↓reduceIte] at i2 i3 i4 ⊢
      refine ⟨?_, i2, i3, fun p d h => ?_⟩
      · rw [i1]; simp only [shapeOf]; rw [akeys_aset_of_mem _ _ _ hk]
      · rcases i4 p d h with h | ⟨h1, h2⟩
        · rcases mem_aset _ _ _ _ _ h with ⟨rfl, _⟩ | h
          · exact Or.inr ⟨by simp [akeys], hk⟩
          · exact Or.inl h
        · refine Or.inr ⟨by simp only [akeys, List.map_cons, List.mem_cons]; exact Or.inr h1, ?_⟩
          simpa [akeys_aset_of_mem _ _ _ hk] using h2
    · rename_i hs
      simp only [hs, Bool.false_eq_true, ↓reduceIte] at i2 i3 i4 ⊢
      refine ⟨i1, i2, i3, fun p d h => ?_⟩
      rcases i4 p d h with h | ⟨h1, h2⟩
      · exact Or.inl h
      · exact Or.inr ⟨by simp only [akeys, List.map_cons, List.mem_cons]; exact Or.inr h1, h2⟩

/-! #### reportSkip of one key -/

theorem reportSkip_one {V} (c : Chan V) (k : Key) :
    let res := c.reportSkip true [k]
    shapeOf res.1 = shapeOf c ∧ res.2 = res.1.skipped ∧
    (∀ p d, (p, d) ∈ res.1.ctrl → (p, d) ∈ c.ctrl ∨ (p = k ∧ d = Dep.skipped ∧ k ∈ akeys c.ctrl)) ∧
    (∀ p d, (p, d) ∈ res.1.data → (p, d) ∈ c.data ∨ (p = k ∧ d = true ∧ k ∈ akeys c.data)) ∧
    (k ∈ akeys c.data → (k, true) ∈ res.1.data) ∧
    (res.1.skipped = true ↔ ∀ p d, (p, d) ∈ res.1.ctrl → d = Dep.skipped) ∧
    ((∀ p d, (p, d) ∈ c.ctrl → d = Dep.skipped) → ∀ p d, (p, d) ∈ res.1.ctrl → d = Dep.skipped) := by
  simp only [Chan.reportSkip, ↓reduceIte, List.foldl_cons, List.foldl_nil]
  have hall : ∀ (l : List (Key × Dep)), (l.all (fun p => p.2 == Dep.skipped) = true ↔ ∀ p d, (p, d) ∈ l → d = Dep.skipped) := by
    intro l
    simp only [List.all_eq_true, beq_iff_eq]
    constructor
    · intro h p d hm; exact h (p, d) hm
    · intro h x hm; exact h x.1 x.2 hm
  by_cases hc : (alookup k c.ctrl).isSome = true
  · have hkc := (alookup_isSome_iff _ _).mp hc
    by_cases hd : (alookup k c.data).isSome = true
    · have hkd := (alookup_isSome_iff _ _).mp hd
      simp only [hc, hd, ↓reduceIte]
      refine ⟨?_, trivial, ?_, ?_, fun _ => mem_aset_self _ _ _, hall _, ?_⟩
      · simp only [shapeOf]; rw [akeys_aset_of_mem _ _ _ hkc, akeys_aset_of_mem _ _ _ hkd]
      · intro p d h
        rcases mem_aset _ _ _ _ _ h with ⟨rfl, rfl⟩ | h
        · exact Or.inr ⟨rfl, rfl, hkc⟩
        · exact Or.inl h
      · intro p d h
        rcases mem_aset _ _ _ _ _ h with ⟨rfl, rfl⟩ | h
        · exact Or.inr ⟨rfl, rfl, hkd⟩
        · exact Or.inl h
      · intro ho p d h
        rcases mem_aset _ _ _ _ _ h with ⟨rfl, rfl⟩ | h
        · rfl
        · exact ho p d h
    · simp only [hc, hd, ↓reduceIte, Bool.false_eq_true]
      have hnd : k ∉ akeys c.data := fun h => hd ((alookup_isSome_iff _ _).mpr h)
      refine ⟨?_, trivial, ?_, fun p d h => Or.inl h, fun h => absurd h hnd, hall _, ?_⟩
      · simp only [shapeOf]; rw [akeys_aset_of_mem _ _ _ hkc]
      · intro p d h
        rcases mem_aset _ _ _ _ _ h with ⟨rfl, rfl⟩ | h
        · exact Or.inr ⟨rfl, rfl, hkc⟩
        · exact Or.inl h
      · intro ho p d h
        rcases mem_aset _ _ _ _ _ h with ⟨rfl, rfl⟩ | h
        · rfl
        · exact ho p d h
  · by_cases hd : (alookup k c.data).isSome = true
    · have hkd := (alookup_isSome_iff _ _).mp hd
      simp only [hc, hd, ↓reduceIte, Bool.false_eq_true]
      refine ⟨?_, trivial, fun p d h => Or.inl h, ?_, fun _ => mem_aset_self _ _ _, hall _, fun ho => ho⟩
      · simp only [shapeOf]; rw [akeys_aset_of_mem _ _ _ hkd]
      · intro p d h
        rcases mem_aset _ _ _ _ _ h with ⟨rfl, rfl⟩ | h
        · exact Or.inr ⟨rfl, rfl, hkd⟩
        · exact Or.inl h
    · simp only [hc, hd, ↓reduceIte, Bool.false_eq_true]
      have hnd : k ∉ akeys c.data := fun h => hd ((alookup_isSome_iff _ _).mpr h)
      exact ⟨rfl, trivial, fun p d h => Or.inl h, fun p d h => Or.inl h, fun h => absurd h hnd, hall _, fun ho => ho⟩

/-- the skip bookkeeping stays consistent under `reportSkip [k]` when `k` is a predecessor -/
theorem reportSkip_skOK {V} (c : Chan V) (k : Key) (h : SkOK c)
    (hk : k ∈ akeys c.ctrl ∨ k ∈ akeys c.data) :
    SkOK (c.reportSkip true [k]).1 ∧ (c.skipped = true → (c.reportSkip true [k]).1.skipped = true) := by
  obtain ⟨hs, _, h1, _, h3, h4, h5⟩ := reportSkip_one c k
  refine ⟨⟨fun hsk => h4.mp hsk, fun _ hnil => ?_⟩, fun hsk => h4.mpr (h5 (h.all hsk))⟩
  have hkc : akeys c.ctrl = [] := by
    have := congrArg Prod.fst hs
    simp only [shapeOf] at this
    rw [← this, hnil]; rfl
  rcases hk with hk | hk
  · rw [hkc] at hk; simp at hk
  · exact ⟨k, h3 hk⟩

theorem reset_facts {V} (c : Chan V) :
    shapeOf c.reset = shapeOf c ∧ c.reset.skipped = c.skipped ∧
    (∀ p d, (p, d) ∈ c.reset.ctrl → d = Dep.waiting) ∧ (∀ p b, (p, b) ∈ c.reset.data → b = false) := by
  refine ⟨?_, rfl, ?_, ?_⟩
  · simp [shapeOf, Chan.reset, akeys, List.map_map, Function.comp]
  · intro p d h
    simp only [Chan.reset, List.mem_map, Prod.mk.injEq] at h
    obtain ⟨_, _, _, rfl⟩ := h; rfl
  · intro p d h
    simp only [Chan.reset, List.mem_map, Prod.mk.injEq] at h
    obtain ⟨_, _, _, rfl⟩ := h; rfl

/-! ### the channel manager -/

theorem mem_modChan {V} (cm : Chans V) (k : Key) (f : Chan V → Chan V) (n : Key) (c' : Chan V) :
    (n, c') ∈ modChan cm k f ↔ ∃ c, (n, c) ∈ cm ∧ c' = if (n == k) = true then f c else c := by
  simp only [modChan, List.mem_map]
  constructor
  · rintro ⟨⟨n0, c0⟩, hm, he⟩
    by_cases hk : (n0 == k) = true
    · simp only [hk, ↓reduceIte, Prod.mk.injEq] at he
      obtain ⟨rfl, rfl⟩ := he
      exact ⟨c0, hm, by simp [hk]⟩
    · simp only [hk, Bool.false_eq_true, ↓reduceIte, Prod.mk.injEq] at he
      obtain ⟨rfl, rfl⟩ := he
      exact ⟨c0, hm, by simp [hk]⟩
  · rintro ⟨c, hm, rfl⟩
    refine ⟨(n, c), hm, ?_⟩
    by_cases hk : (n == k) = true <;> simp [hk]

theorem akeys_modChan {V} (cm : Chans V) (k : Key) (f : Chan V → Chan V) :
    akeys (modChan cm k f) = akeys cm := by
  simp only [akeys, modChan, List.map_map]
  apply List.map_congr_left
  intro p _
  simp only [Function.comp]
  split <;> rfl

theorem alookup_modChan {V} (cm : Chans V) (k : Key) (f : Chan V → Chan V) (p : Key) :
    alookup p (modChan cm k f) = if (p == k) = true then (alookup p cm).map f else alookup p cm := by
  induction cm with
  | nil => simp [modChan, alookup]
  | cons q t ih =>
    obtain ⟨n0, c0⟩ := q
    simp only [modChan, List.map_cons] at ih ⊢
    by_cases h0 : (n0 == k) = true
    · have e0 : n0 = k := by simpa using h0
      simp only [h0, ↓reduceIte, alookup]
      by_cases h1 : (n0 == p) = true
      · have e1 : n0 = p := by simpa using h1
        have : (p == k) = true := by simp [← e1, e0]
        simp [h1, this]
      · simp only [h1, Bool.false_eq_true, ↓reduceIte]
        exact ih
    · simp only [h0, Bool.false_eq_true, ↓reduceIte, alookup]
      by_cases h1 : (n0 == p) = true
      · have e1 : n0 = p := by simpa using h1
        have : (p == k) = false := by rw [← e1]; simpa using h0
        simp [h1, this]
      · simp only [h1, Bool.false_eq_true, ↓reduceIte]
        exact ih

theorem alookup_of_mem_nodup {α} (l : List (Key × α)) (h : (akeys l).Nodup) (k : Key) (v : α)
    (hm : (k, v) ∈ l) : alookup k l = some v := by
  induction l with
  | nil => simp at hm
  | cons q t ih =>
    obtain ⟨k', v'⟩ := q
    simp only [akeys, List.map_cons, List.nodup_cons] at h
    simp only [List.mem_cons, Prod.mk.injEq] at hm
    rcases hm with ⟨rfl, rfl⟩ | hm
    · simp [alookup]
    · have : k' ≠ k := fun e => h.1 (e ▸ mem_akeys_of_mem k v t hm)
      have hb : (k' == k) = false := by simpa using this
      simp only [alookup, hb, Bool.false_eq_true, ↓reduceIte]
      exact ih h.2 hm

/-- 1 when channel `p` exists and is skipped -/
def skOf {V} (cm : Chans V) (p : Key) : Nat :=
  match alookup p cm with
  | some c => if c.skipped then 1 else 0
  | none => 0

theorem skOf_le_one {V} (cm : Chans V) (p : Key) : skOf cm p ≤ 1 := by
  unfold skOf; split
  · split <;> omega
  · omega

def wlInd (wl : List Key) (p : Key) : Nat := if p ∈ wl then 1 else 0

def effC (fr : List Key) (p : Key) (d : Dep) : Nat := if p ∈ fr then 1 else pendC d
def effD (fr : List Key) (p : Key) (b : Bool) : Nat := if p ∈ fr then 1 else pendD b

/-- **the counting invariant.** `F n`: how often node `n` has been started; `Cp p`: how often
    `p` has completed (including the completions being resolved right now).  A predecessor
    entry that has been reported and not yet consumed by a start of `n` is paid for by a
    completion of `p` or by `p` having been skipped.  `fr`: predecessors that may report now
    (their completion is already counted in `Cp`); `wl`: skipped channels whose skip has not
    been passed on yet. -/
structure J {V} (F Cp : Key → Nat) (fr wl : List Key) (cm : Chans V) : Prop where
  ctrl : ∀ n c, (n, c) ∈ cm → ∀ p d, (p, d) ∈ c.ctrl → F n + effC fr p d + wlInd wl p ≤ Cp p + skOf cm p
  data : ∀ n c, (n, c) ∈ cm → ∀ p b, (p, b) ∈ c.data → F n + effD fr p b + wlInd wl p ≤ Cp p + skOf cm p
  sk : ∀ n c, (n, c) ∈ cm → SkOK c
  nd : (akeys cm).Nodup
  wlnd : wl.Nodup
  wlsk : ∀ s, s ∈ wl → skOf cm s = 1

theorem shapes_modChan {V} (cm : Chans V) (k : Key) (f : Chan V → Chan V)
    (h : ∀ c, (k, c) ∈ cm → shapeOf (f c) = shapeOf c) : shapes (modChan cm k f) = shapes cm := by
  simp only [shapes, modChan, List.map_map]
  apply List.map_congr_left
  intro p hp
  simp only [Function.comp]
  split
  · rename_i hk
    have e : p.1 = k := by simpa using hk
    have : (k, p.2) ∈ cm := by rw [← e]; exact hp
    simp [h p.2 this]
  · rfl

/-- updating one channel: new entries are old ones or reports of keys in `fr` -/
theorem J_update {V} {F Cp : Key → Nat} {fr wl : List Key} {cm : Chans V} (hJ : J F Cp fr wl cm)
    (k : Key) (f : Chan V → Chan V)
    (h1 : ∀ c0, (k, c0) ∈ cm → ∀ p d, (p, d) ∈ (f c0).ctrl → (p, d) ∈ c0.ctrl ∨ (p ∈ fr ∧ p ∈ akeys c0.ctrl))
    (h2 : ∀ c0, (k, c0) ∈ cm → ∀ p d, (p, d) ∈ (f c0).data → (p, d) ∈ c0.data ∨ (p ∈ fr ∧ p ∈ akeys c0.data))
    (h3 : ∀ c0, (k, c0) ∈ cm → SkOK (f c0))
    (h4 : ∀ c0, (k, c0) ∈ cm → c0.skipped = true → (f c0).skipped = true)
    (psh : Bool)
    (h5 : psh = true ↔ ∃ c0, (k, c0) ∈ cm ∧ (f c0).skipped = true ∧ c0.skipped = false) :
    J F Cp fr (if psh then wl ++ [k] else wl) (modChan cm k f) := by
  have hsk : ∀ p, skOf (modChan cm k f) p =
      if (p == k) = true then (match alookup p cm with | some c => if (f c).skipped then 1 else 0 | none => 0)
      else skOf cm p := by
    intro p
    unfold skOf
    rw [alookup_modChan]
    by_cases hk : (p == k) = true
    · simp only [hk, ↓reduceIte]
      cases alookup p cm <;> rfl
    · simp [hk]
  have hkwl : psh = true → k ∉ wl := by
    intro hp hm
    obtain ⟨c0, hm0, _, hf⟩ := h5.mp hp
    have := hJ.wlsk k hm
    unfold skOf at this
    rw [alookup_of_mem_nodup cm hJ.nd k c0 hm0] at this
    simp [hf] at this
  -- the slack of every budget is preserved
  have slack : ∀ p x, x + wlInd wl p ≤ Cp p + skOf cm p →
      x + wlInd (if psh then wl ++ [k] else wl) p ≤ Cp p + skOf (modChan cm k f) p := by
    intro p x hx
    rw [hsk]
    by_cases hk : (p == k) = true
    · have e : p = k := by simpa using hk
      subst e
      simp only [hk, ↓reduceIte]
      by_cases hp : psh = true
      · obtain ⟨c0, hm0, ht, hf⟩ := h5.mp hp
        have hl := alookup_of_mem_nodup cm hJ.nd p c0 hm0
        have h0 : skOf cm p = 0 := by unfold skOf; rw [hl]; simp [hf]
        have hw : wlInd wl p = 0 := by unfold wlInd; simp [hkwl hp]
        simp only [hp, ↓reduceIte, hl, ht]
        unfold wlInd; simp only [List.mem_append, List.mem_singleton, or_true, ↓reduceIte]
        omega
      · simp only [hp, Bool.false_eq_true, ↓reduceIte]
        cases hl : alookup p cm with
        | none => unfold skOf at hx; rw [hl] at hx; simpa using hx
        | some c0 =>
          have hm0 := mem_of_alookup _ _ _ hl
          unfold skOf at hx; rw [hl] at hx
          simp only
          by_cases hs : c0.skipped = true
          · simp only [hs, ↓reduceIte] at hx
            simp only [h4 c0 hm0 hs, ↓reduceIte]; exact hx
          · simp only [hs, Bool.false_eq_true, ↓reduceIte] at hx
            split <;> omega
    · have ne : p ≠ k := by simpa using hk
      simp only [hk, Bool.false_eq_true, ↓reduceIte]
      have : wlInd (if psh then wl ++ [k] else wl) p = wlInd wl p := by
        unfold wlInd
        split <;> simp [ne]
      rw [this]; exact hx
  refine ⟨?_, ?_, ?_, ?_, ?_, ?_⟩
  · intro n c' hm p d hp
    obtain ⟨c, hc, rfl⟩ := (mem_modChan _ _ _ _ _).mp hm
    by_cases hk : (n == k) = true
    · have e : n = k := by simpa using hk
      subst e
      simp only [hk, ↓reduceIte] at hp
      apply slack
      rcases h1 c hc p d hp with h | ⟨hf, hmem⟩
      · exact hJ.ctrl n c hc p d h
      · obtain ⟨d0, hd0⟩ := exists_of_mem_akeys _ _ hmem
        have := hJ.ctrl n c hc p d0 hd0
        simp only [effC, hf, ↓reduceIte] at this ⊢
        exact this
    · simp only [hk, Bool.false_eq_true, ↓reduceIte] at hp
      exact slack _ _ (hJ.ctrl n c hc p d hp)
  · intro n c' hm p d hp
    obtain ⟨c, hc, rfl⟩ := (mem_modChan _ _ _ _ _).mp hm
    by_cases hk : (n == k) = true
    · have e : n = k := by simpa using hk
      subst e
      simp only [hk, ↓reduceIte] at hp
      apply slack
      rcases h2 c hc p d hp with h | ⟨hf, hmem⟩
      · exact hJ.data n c hc p d h
      · obtain ⟨d0, hd0⟩ := exists_of_mem_akeys _ _ hmem
        have := hJ.data n c hc p d0 hd0
        simp only [effD, hf, ↓reduceIte] at this ⊢
        exact this
    · simp only [hk, Bool.false_eq_true, ↓reduceIte] at hp
      exact slack _ _ (hJ.data n c hc p d hp)
  · intro n c' hm
    obtain ⟨c, hc, rfl⟩ := (mem_modChan _ _ _ _ _).mp hm
    by_cases hk : (n == k) = true
    · have e : n = k := by simpa using hk
      subst e
      simp only [hk, ↓reduceIte]
      exact h3 c hc
    · simp only [hk, Bool.false_eq_true, ↓reduceIte]
      exact hJ.sk n c hc
  · rw [akeys_modChan]; exact hJ.nd
  · by_cases hp : psh = true
    · simp only [hp, ↓reduceIte]
      exact List.nodup_append.mpr ⟨hJ.wlnd, by simp, by
        intro a ha b hb
        simp at hb; subst hb
        exact fun e => hkwl hp (e ▸ ha)⟩
    · simp only [hp, Bool.false_eq_true, ↓reduceIte]; exact hJ.wlnd
  · intro s hs
    have h1' : skOf (modChan cm k f) s ≤ 1 := skOf_le_one _ _
    have hle : wlInd wl s ≤ skOf cm s := by
      unfold wlInd
      split
      · rename_i hsw; rw [hJ.wlsk s hsw]; exact Nat.le_refl 1
      · omega
    have := slack s (Cp s + skOf cm s - wlInd wl s) (by omega)
    have hw : wlInd (if psh then wl ++ [k] else wl) s = 1 := by unfold wlInd; simp [hs]
    omega

theorem pendC_le_one (d : Dep) : pendC d ≤ 1 := by cases d <;> simp [pendC]
theorem pendD_le_one (b : Bool) : pendD b ≤ 1 := by cases b <;> simp [pendD]

theorem J_drop_fr {V} {F Cp : Key → Nat} {fr fr' wl : List Key} {cm : Chans V} (hJ : J F Cp fr wl cm)
    (h : ∀ p, p ∈ fr' → p ∈ fr) : J F Cp fr' wl cm := by
  refine ⟨fun n c hm p d hp => ?_, fun n c hm p d hp => ?_, hJ.sk, hJ.nd, hJ.wlnd, hJ.wlsk⟩
  · have := hJ.ctrl n c hm p d hp
    have hle : effC fr' p d ≤ effC fr p d := by
      unfold effC
      by_cases h1 : p ∈ fr'
      · simp [h1, h p h1]
      · simp only [h1, ↓reduceIte]; split
        · exact pendC_le_one d
        · exact Nat.le_refl _
    omega
  · have := hJ.data n c hm p d hp
    have hle : effD fr' p d ≤ effD fr p d := by
      unfold effD
      by_cases h1 : p ∈ fr'
      · simp [h1, h p h1]
      · simp only [h1, ↓reduceIte]; split
        · exact pendD_le_one d
        · exact Nat.le_refl _
    omega

theorem J_drop_wl {V} {F Cp : Key → Nat} {fr wl : List Key} {cm : Chans V} (hJ : J F Cp fr wl cm) :
    J F Cp fr [] cm := by
  refine ⟨fun n c hm p d hp => ?_, fun n c hm p d hp => ?_, hJ.sk, hJ.nd, List.nodup_nil, by simp⟩
  · have := hJ.ctrl n c hm p d hp
    simp only [wlInd, List.not_mem_nil, ↓reduceIte]; omega
  · have := hJ.data n c hm p d hp
    simp only [wlInd, List.not_mem_nil, ↓reduceIte]; omega

/-- a popped work-list entry may now report -/
theorem J_pop {V} {F Cp : Key → Nat} {fr rest : List Key} {k : Key} {cm : Chans V}
    (hJ : J F Cp fr (k :: rest) cm) : J F Cp (k :: fr) rest cm := by
  have hnd := hJ.wlnd
  simp only [List.nodup_cons] at hnd
  refine ⟨fun n c hm p d hp => ?_, fun n c hm p d hp => ?_, hJ.sk, hJ.nd, hnd.2,
    fun s hs => hJ.wlsk s (List.mem_cons_of_mem _ hs)⟩
  · have := hJ.ctrl n c hm p d hp
    unfold effC wlInd at *
    by_cases e : p = k
    · subst e
      simp only [List.mem_cons, true_or, ↓reduceIte, hnd.1] at this ⊢
      split at this <;> omega
    · simp only [List.mem_cons, e, false_or] at this ⊢
      exact this
  · have := hJ.data n c hm p d hp
    unfold effD wlInd at *
    by_cases e : p = k
    · subst e
      simp only [List.mem_cons, true_or, ↓reduceIte, hnd.1] at this ⊢
      split at this <;> omega
    · simp only [List.mem_cons, e, false_or] at this ⊢
      exact this

/-- the completions being resolved are counted: their nodes may report -/
theorem J_bump {V} {F Cp Cp' : Key → Nat} {dk : List Key} {cm : Chans V} (hJ : J F Cp [] [] cm)
    (h1 : ∀ p, Cp p ≤ Cp' p) (h2 : ∀ p, p ∈ dk → Cp p + 1 ≤ Cp' p) : J F Cp' dk [] cm := by
  refine ⟨fun n c hm p d hp => ?_, fun n c hm p d hp => ?_, hJ.sk, hJ.nd, List.nodup_nil, by simp⟩
  · have := hJ.ctrl n c hm p d hp
    have := h1 p
    unfold effC wlInd at *
    simp only [List.not_mem_nil, ↓reduceIte] at *
    by_cases e : p ∈ dk
    · have := h2 p e; simp only [e, ↓reduceIte]; omega
    · simp only [e, ↓reduceIte]; omega
  · have := hJ.data n c hm p d hp
    have := h1 p
    unfold effD wlInd at *
    simp only [List.not_mem_nil, ↓reduceIte] at *
    by_cases e : p ∈ dk
    · have := h2 p e; simp only [e, ↓reduceIte]; omega
    · simp only [e, ↓reduceIte]; omega

/-! ### skip propagation -/

theorem skipOne_J {V} {F Cp : Key → Nat} {fr rest acc : List Key} {cm : Chans V}
    (hJ : J F Cp fr (rest ++ acc) cm) (s from_ : Key) (hf : from_ ∈ fr)
    (hwf : ∀ c, (s, c) ∈ cm → from_ ∈ akeys c.ctrl ∨ from_ ∈ akeys c.data) :
    J F Cp fr (rest ++ (if (skipOne true cm s from_).2 then acc ++ [s] else acc)) (skipOne true cm s from_).1 ∧
    shapes (skipOne true cm s from_).1 = shapes cm := by
  unfold skipOne
  simp only [Bool.not_true, Bool.false_eq_true, ↓reduceIte]
  cases hl : alookup s cm with
  | none => simpa using hJ
  | some c0 =>
    simp only
    have hm0 := mem_of_alookup _ _ _ hl
    have uniq : ∀ c, (s, c) ∈ cm → c = c0 := by
      intro c hc
      have := alookup_of_mem_nodup cm hJ.nd s c hc
      rw [hl] at this; exact (Option.some.inj this).symm
    obtain ⟨hs, hr2, e1, e2, _, _, _⟩ := reportSkip_one c0 from_
    obtain ⟨k1, k2⟩ := reportSkip_skOK c0 from_ (hJ.sk s c0 hm0) (hwf c0 hm0)
    have := J_update hJ s (fun _ => (c0.reportSkip true [from_]).1)
      (fun c hc p d hp => by
        rw [uniq c hc]
        rcases e1 p d hp with h | ⟨rfl, _, h⟩
        · exact Or.inl h
        · exact Or.inr ⟨hf, h⟩)
      (fun c hc p d hp => by
        rw [uniq c hc]
        rcases e2 p d hp with h | ⟨rfl, _, h⟩
        · exact Or.inl h
        · exact Or.inr ⟨hf, h⟩)
      (fun c _ => k1)
      (fun c hc h => k2 (by rw [← uniq c hc]; exact h))
      ((c0.reportSkip true [from_]).2 && !c0.skipped)
      (by
        constructor
        · intro h
          simp only [Bool.and_eq_true, Bool.not_eq_eq_eq_not, Bool.not_true] at h
          exact ⟨c0, hm0, by rw [← hr2]; exact h.1, h.2⟩
        · rintro ⟨c, hc, h1, h2⟩
          rw [uniq c hc] at h2
          simp only [Bool.and_eq_true, Bool.not_eq_eq_eq_not, Bool.not_true]
          exact ⟨by rw [hr2]; exact h1, h2⟩)
    refine ⟨?_, shapes_modChan _ _ _ (fun c hc => by rw [uniq c hc]; exact hs)⟩
    by_cases hp : ((c0.reportSkip true [from_]).2 && !c0.skipped) = true
    · simp only [hp, ↓reduceIte] at this ⊢
      rw [← List.append_assoc]; exact this
    · simp only [hp, Bool.false_eq_true, ↓reduceIte] at this ⊢
      exact this

theorem skipFold_J {V} {F Cp : Key → Nat} {fr rest : List Key} (from_ : Key) (hf : from_ ∈ fr)
    (ss : List Key) (acc : Chans V × List Key)
    (hJ : J F Cp fr (rest ++ acc.2) acc.1)
    (hwf : ∀ cm' : Chans V, shapes cm' = shapes acc.1 → ∀ s ∈ ss, ∀ c, (s, c) ∈ cm' → from_ ∈ akeys c.ctrl ∨ from_ ∈ akeys c.data) :
    J F Cp fr (rest ++ (ss.foldl (skipStep true from_) acc).2) (ss.foldl (skipStep true from_) acc).1 ∧
    shapes (ss.foldl (skipStep true from_) acc).1 = shapes acc.1 := by
  induction ss generalizing acc with
  | nil => exact ⟨hJ, rfl⟩
  | cons s t ih =>
    simp only [List.foldl_cons]
    obtain ⟨j1, j2⟩ := skipOne_J hJ s from_ hf (hwf acc.1 rfl s (by simp))
    have := ih (skipStep true from_ acc s) (by simpa [skipStep] using j1)
      (fun cm' h s' hs' => hwf cm' (by rw [h]; simpa [skipStep] using j2) s' (List.mem_cons_of_mem _ hs'))
    refine ⟨this.1, ?_⟩
    rw [this.2]; simpa [skipStep] using j2

theorem predOK_use {V} {sh : List (Key × List Key × List Key)} {m : Key} {ss : List Key} (h : PredOK sh m ss)
    (cm : Chans V) (hs : shapes cm = sh) : ∀ s ∈ ss, ∀ c, (s, c) ∈ cm → m ∈ akeys c.ctrl ∨ m ∈ akeys c.data := by
  intro s hs' c hc
  apply h s hs' (akeys c.ctrl) (akeys c.data)
  rw [← hs]
  simp only [shapes, List.mem_map]
  exact ⟨(s, c), hc, rfl⟩

theorem node?_some {V} (r : Runner V) (k : Key) (n : Node V) (h : r.node? k = some n) :
    n ∈ r.nodes ∧ n.key = k := by
  unfold Runner.node? at h
  have h1 := List.mem_of_find?_eq_some h
  have h2 := List.find?_some h
  exact ⟨h1, by simpa using h2⟩

theorem propagate_J {V} {F Cp : Key → Nat} {fr : List Key} (r : Runner V) (hd : r.dag = true) (hs : SuccOK r) :
    ∀ (fuel : Nat) (cm : Chans V) (wl : List Key) (cm' : Chans V), J F Cp fr wl cm →
      shapes cm = shapes (initChans r) → propagateSkips r fuel cm wl = .ok cm' →
      J F Cp fr [] cm' ∧ shapes cm' = shapes (initChans r) := by
  intro fuel
  induction fuel with
  | zero =>
    intro cm wl cm' hJ hsh h
    simp only [propagateSkips, Except.ok.injEq] at h
    subst h; exact ⟨J_drop_wl hJ, hsh⟩
  | succ f ih =>
    intro cm wl cm' hJ hsh h
    cases wl with
    | nil =>
      simp only [propagateSkips, Except.ok.injEq] at h
      subst h; exact ⟨hJ, hsh⟩
    | cons k rest =>
      simp only [propagateSkips] at h
      cases hn : r.node? k with
      | none => simp [hn] at h
      | some n =>
        simp only [hn, hd] at h
        obtain ⟨hmem, hkey⟩ := node?_some r k n hn
        have hJ1 : J F Cp (k :: fr) (rest ++ ([] : List Key)) cm := by simpa using J_pop hJ
        have hp := hs n (Or.inl hmem)
        rw [hkey] at hp
        obtain ⟨j1, j2⟩ := skipFold_J (rest := rest) k (by simp) n.successors (cm, []) hJ1
          (fun cm' h => predOK_use hp cm' (by rw [h]; exact hsh))
        exact ih _ _ cm' (J_drop_fr j1 (fun p hp => List.mem_cons_of_mem _ hp)) (by rw [j2]; exact hsh) h

theorem reportBranch_J {V} {F Cp : Key → Nat} {fr : List Key} (r : Runner V) (hd : r.dag = true) (hs : SuccOK r)
    (cm cm' : Chans V) (from_ : Key) (hf : from_ ∈ fr) (ss : List Key)
    (hp : PredOK (shapes (initChans r)) from_ ss)
    (hJ : J F Cp fr [] cm) (hsh : shapes cm = shapes (initChans r))
    (h : reportBranch r cm from_ ss = .ok cm') :
    J F Cp fr [] cm' ∧ shapes cm' = shapes (initChans r) := by
  unfold reportBranch at h
  simp only [hd] at h
  have hJ1 : J F Cp fr (([] : List Key) ++ ([] : List Key)) cm := by simpa using hJ
  obtain ⟨j1, j2⟩ := skipFold_J (rest := []) from_ hf ss (cm, []) hJ1
    (fun cm' h => predOK_use hp cm' (by rw [h]; exact hsh))
  exact propagate_J r hd hs _ _ _ cm' (by simpa using j1) (by rw [j2]; exact hsh) h

theorem skippedOf_sub {V} (n : Node V) (sel : List Key) : ∀ s, s ∈ skippedOf n sel → s ∈ n.successors := by
  intro s hs
  simp only [skippedOf, List.mem_filter, List.mem_eraseDups] at hs
  simp only [Node.successors, List.mem_append]
  exact Or.inr hs.1

theorem calcBranch_J {V} {F Cp : Key → Nat} {fr : List Key} (r : Runner V) (hd : r.dag = true) (hs : SuccOK r)
    (cm cm' : Chans V) (n : Node V) (hn : n ∈ r.nodes ∨ n = r.start) (hf : n.key ∈ fr) (out : V) (sel : List Key)
    (hJ : J F Cp fr [] cm) (hsh : shapes cm = shapes (initChans r))
    (h : calcBranch r cm n out = .ok (cm', sel)) :
    J F Cp fr [] cm' ∧ shapes cm' = shapes (initChans r) := by
  unfold calcBranch at h
  cases h1 : selectOf n out with
  | error e => simp [h1, bind, Except.bind] at h
  | ok selected =>
    simp only [h1, bind, Except.bind] at h
    cases h2 : reportBranch r cm n.key (skippedOf n selected) with
    | error e => simp [h2] at h
    | ok cm1 =>
      simp only [h2, pure, Except.pure, Except.ok.injEq, Prod.mk.injEq] at h
      obtain ⟨rfl, _⟩ := h
      exact reportBranch_J r hd hs cm cm1 n.key hf _
        (fun s hs' => hs n hn s (skippedOf_sub n selected s hs')) hJ hsh h2

/-! ### resolving completed tasks -/

def WritesOK {V} (dk : List Key) (ws : List (Key × List (Key × V))) : Prop :=
  ∀ to l, (to, l) ∈ ws → ∀ k, k ∈ akeys l → k ∈ dk

def DepsOK (dk : List Key) (ds : List (Key × List Key)) : Prop :=
  ∀ to l, (to, l) ∈ ds → ∀ k, k ∈ l → k ∈ dk

theorem addWrite_ok {V} (dk : List Key) (ws : List (Key × List (Key × V))) (to from_ : Key) (v : V)
    (h : WritesOK dk ws) (hf : from_ ∈ dk) : WritesOK dk (addWrite ws to from_ v) := by
  intro to' l hm k hk
  unfold addWrite at hm
  rcases mem_aset _ _ _ _ _ hm with ⟨_, rfl⟩ | hm
  · rw [akeys_aset] at hk
    have hold : ∀ k, k ∈ akeys ((alookup to ws).getD []) → k ∈ dk := by
      intro k hk
      cases hl : alookup to ws with
      | none => simp [hl, akeys] at hk
      | some l0 =>
        rw [hl] at hk
        exact h to l0 (mem_of_alookup _ _ _ hl) k hk
    split at hk
    · exact hold k hk
    · simp only [List.mem_append, List.mem_singleton] at hk
      rcases hk with hk | rfl
      · exact hold k hk
      · exact hf
  · exact h to' l hm k hk

theorem addDep_ok (dk : List Key) (ds : List (Key × List Key)) (to from_ : Key)
    (h : DepsOK dk ds) (hf : from_ ∈ dk) : DepsOK dk (addDep ds to from_) := by
  intro to' l hm k hk
  unfold addDep at hm
  rcases mem_aset _ _ _ _ _ hm with ⟨_, rfl⟩ | hm
  · simp only [List.mem_append, List.mem_singleton] at hk
    rcases hk with hk | rfl
    · cases hl : alookup to ds with
      | none => simp [hl] at hk
      | some l0 =>
        rw [hl] at hk
        exact h to l0 (mem_of_alookup _ _ _ hl) k hk
    · exact hf
  · exact h to' l hm k hk

theorem foldl_addWrite_ok {V} (dk : List Key) (from_ : Key) (v : V) (hf : from_ ∈ dk) (tg : List Key)
    (ws : List (Key × List (Key × V))) (h : WritesOK dk ws) :
    WritesOK dk (tg.foldl (fun ws k => addWrite ws k from_ v) ws) := by
  induction tg generalizing ws with
  | nil => exact h
  | cons t rest ih => exact ih _ (addWrite_ok dk ws t from_ v h hf)

theorem foldl_addDep_ok (dk : List Key) (from_ : Key) (hf : from_ ∈ dk) (tg : List Key)
    (ds : List (Key × List Key)) (h : DepsOK dk ds) :
    DepsOK dk (tg.foldl (fun ds k => addDep ds k from_) ds) := by
  induction tg generalizing ds with
  | nil => exact h
  | cons t rest ih => exact ih _ (addDep_ok dk ds t from_ h hf)

structure RInv {V} (F Cp : Key → Nat) (dk : List Key) (r : Runner V) (acc : Resolved V) : Prop where
  j : J F Cp dk [] acc.cm
  sh : shapes acc.cm = shapes (initChans r)
  ws : WritesOK dk acc.writes
  ds : DepsOK dk acc.deps

theorem call?_some {V} (r : Runner V) (hk : r.start.key = START) (k : Key) (n : Node V)
    (h : r.call? k = some n) : (n ∈ r.nodes ∨ n = r.start) ∧ n.key = k := by
  unfold Runner.call? at h
  split at h
  · rename_i hs
    have : k = START := by simpa using hs
    simp only [Option.some.injEq] at h
    subst h
    exact ⟨Or.inr rfl, by rw [hk, this]⟩
  · obtain ⟨h1, h2⟩ := node?_some r k n h
    exact ⟨Or.inl h1, h2⟩

theorem resolveStep_J {V} {F Cp : Key → Nat} {dk : List Key} (r : Runner V) (hd : r.dag = true) (hs : SuccOK r)
    (hk : r.start.key = START) (acc acc' : Resolved V) (t : Done V) (ht : t.1 ∈ dk)
    (hi : RInv F Cp dk r acc) (h : resolveStep r acc t = .ok acc') : RInv F Cp dk r acc' := by
  unfold resolveStep at h
  cases hc : r.call? t.1 with
  | none =>
    simp only [hc, pure, Except.pure, Except.ok.injEq] at h
    subst h; exact hi
  | some n =>
    simp only [hc, bind, Except.bind] at h
    obtain ⟨hn, hkey⟩ := call?_some r hk t.1 n hc
    cases hb : calcBranch r acc.cm n t.2 with
    | error e => simp [hb] at h
    | ok res =>
      obtain ⟨cm', sel⟩ := res
      simp only [hb, pure, Except.pure, Except.ok.injEq] at h
      subst h
      obtain ⟨j1, j2⟩ := calcBranch_J r hd hs acc.cm cm' n hn (by rw [hkey]; exact ht) t.2 sel hi.j hi.sh hb
      exact ⟨j1, j2, foldl_addWrite_ok dk t.1 t.2 ht _ _ hi.ws,
        foldl_addDep_ok dk t.1 ht _ _ (foldl_addDep_ok dk t.1 ht _ _ hi.ds)⟩

theorem resolve_J {V} {F Cp : Key → Nat} {dk : List Key} (r : Runner V) (hd : r.dag = true) (hs : SuccOK r)
    (hk : r.start.key = START) (done : List (Done V)) (hdone : ∀ t, t ∈ done → t.1 ∈ dk)
    (acc acc' : Resolved V) (hi : RInv F Cp dk r acc)
    (h : done.foldlM (resolveStep r) acc = .ok acc') : RInv F Cp dk r acc' := by
  induction done generalizing acc with
  | nil =>
    simp only [List.foldlM_nil, pure, Except.pure, Except.ok.injEq] at h
    subst h; exact hi
  | cons t rest ih =>
    simp only [List.foldlM_cons, bind, Except.bind] at h
    cases h1 : resolveStep r acc t with
    | error e => simp [h1] at h
    | ok acc1 =>
      simp only [h1] at h
      exact ih (fun t' ht' => hdone t' (List.mem_cons_of_mem _ ht')) acc1
        (resolveStep_J r hd hs hk acc acc1 t (hdone t (by simp)) hi h1) h

/-! ### updateValues / updateDependencies -/

theorem updateValues_J {V} {F Cp : Key → Nat} {dk : List Key} (r : Runner V) (hd : r.dag = true)
    (writes : List (Key × List (Key × V))) (hw : WritesOK dk writes) (cm : Chans V)
    (hJ : J F Cp dk [] cm) (hsh : shapes cm = shapes (initChans r)) :
    J F Cp dk [] (updateValues r cm writes) ∧ shapes (updateValues r cm writes) = shapes (initChans r) := by
  unfold updateValues
  induction writes generalizing cm with
  | nil => exact ⟨hJ, hsh⟩
  | cons w rest ih =>
    simp only [List.foldl_cons]
    have hins : ∀ k, k ∈ akeys (w.2.filter (fun kv => (lookupList w.1 r.dataPreds).contains kv.1)) → k ∈ dk := by
      intro k hk
      apply hw w.1 w.2 (by simp) k
      simp only [akeys, List.mem_map, List.mem_filter] at hk ⊢
      obtain ⟨x, ⟨hx, _⟩, rfl⟩ := hk
      exact ⟨x, hx, rfl⟩
    generalize w.2.filter (fun kv => (lookupList w.1 r.dataPreds).contains kv.1) = ins at hins
    have key : ∀ c : Chan V, SkOK c → 
        (shapeOf (c.reportValues true ins) = shapeOf c ∧ (c.reportValues true ins).skipped = c.skipped ∧
         (c.reportValues true ins).ctrl = c.ctrl ∧
         (∀ p d, (p, d) ∈ (c.reportValues true ins).data → (p, d) ∈ c.data ∨ (p ∈ akeys ins ∧ p ∈ akeys c.data))) := by
      intro c _
      rw [reportValues_eq]
      split
      · exact ⟨rfl, rfl, rfl, fun p d h => Or.inl h⟩
      · exact valsF_fold ins c
    have := J_update hJ w.1 (fun c => c.reportValues r.dag ins)
      (fun c hc p d hp => by
        rw [hd] at hp
        rw [(key c (hJ.sk _ _ hc)).2.2.1] at hp; exact Or.inl hp)
      (fun c hc p d hp => by
        rw [hd] at hp
        rcases (key c (hJ.sk _ _ hc)).2.2.2 p d hp with h | ⟨h1, h2⟩
        · exact Or.inl h
        · exact Or.inr ⟨hins p h1, h2⟩)
      (fun c hc => by
        rw [hd]
        obtain ⟨k1, k2, k3, k4⟩ := key c (hJ.sk _ _ hc)
        have ho := hJ.sk _ _ hc
        rw [reportValues_eq]
        split
        · exact ho
        · rename_i hns
          have k2' := (valsF_fold ins c).2.1
          refine ⟨fun h => ?_, fun h => ?_⟩
          · rw [k2'] at h; exact absurd h hns
          · rw [k2'] at h; exact absurd h hns)
      (fun c hc h => by rw [hd, (key c (hJ.sk _ _ hc)).2.1]; exact h)
      false
      (by
        simp only [Bool.false_eq_true, false_iff, not_exists, not_and]
        intro c hc h1 h2
        rw [hd, (key c (hJ.sk _ _ hc)).2.1] at h1
        rw [h1] at h2; exact absurd h2 (by simp))
    simp only [Bool.false_eq_true, ↓reduceIte] at this
    apply ih (fun to l hm => hw to l (List.mem_cons_of_mem _ hm)) _ this
    rw [shapes_modChan _ _ _ (fun c hc => by rw [hd]; exact (key c (hJ.sk _ _ hc)).1)]
    exact hsh

theorem updateDeps_J {V} {F Cp : Key → Nat} {dk : List Key} (r : Runner V) (hd : r.dag = true)
    (deps : List (Key × List Key)) (hw : DepsOK dk deps) (cm : Chans V)
    (hJ : J F Cp dk [] cm) (hsh : shapes cm = shapes (initChans r)) :
    J F Cp dk [] (updateDeps r cm deps) ∧ shapes (updateDeps r cm deps) = shapes (initChans r) := by
  unfold updateDeps
  induction deps generalizing cm with
  | nil => exact ⟨hJ, hsh⟩
  | cons w rest ih =>
    simp only [List.foldl_cons]
    have hins : ∀ k, k ∈ w.2.filter (lookupList w.1 r.ctrlPreds).contains → k ∈ dk := by
      intro k hk
      apply hw w.1 w.2 (by simp) k
      exact (List.mem_filter.mp hk).1
    generalize w.2.filter (lookupList w.1 r.ctrlPreds).contains = ins at hins
    have key : ∀ c : Chan V,
        (shapeOf (c.reportDeps true ins) = shapeOf c ∧ (c.reportDeps true ins).skipped = c.skipped ∧
         (c.reportDeps true ins).data = c.data ∧
         (∀ p d, (p, d) ∈ (c.reportDeps true ins).ctrl → (p, d) ∈ c.ctrl ∨ (p ∈ ins ∧ p ∈ akeys c.ctrl))) := by
      intro c
      rw [reportDeps_eq]
      split
      · exact ⟨rfl, rfl, rfl, fun p d h => Or.inl h⟩
      · exact depsF_fold ins c
    have := J_update hJ w.1 (fun c => c.reportDeps r.dag ins)
      (fun c hc p d hp => by
        rw [hd] at hp
        rcases (key c).2.2.2 p d hp with h | ⟨h1, h2⟩
        · exact Or.inl h
        · exact Or.inr ⟨hins p h1, h2⟩)
      (fun c hc p d hp => by
        rw [hd] at hp
        rw [(key c).2.2.1] at hp; exact Or.inl hp)
      (fun c hc => by
        rw [hd]
        have ho := hJ.sk _ _ hc
        rw [reportDeps_eq]
        split
        · exact ho
        · rename_i hns
          have k2' := (depsF_fold ins c).2.1
          refine ⟨fun h => ?_, fun h => ?_⟩
          · rw [k2'] at h; exact absurd h hns
          · rw [k2'] at h; exact absurd h hns)
      (fun c hc h => by rw [hd, (key c).2.1]; exact h)
      false
      (by
        simp only [Bool.false_eq_true, false_iff, not_exists, not_and]
        intro c hc h1 h2
        rw [hd, (key c).2.1] at h1
        rw [h1] at h2; exact absurd h2 (by simp))
    simp only [Bool.false_eq_true, ↓reduceIte] at this
    apply ih (fun to l hm => hw to l (List.mem_cons_of_mem _ hm)) _ this
    rw [shapes_modChan _ _ _ (fun c hc => by rw [hd]; exact (key c).1)]
    exact hsh

/-! ### handing out ready channels -/

theorem getReady_facts {V} (ops : ValOps V) (cm : Chans V) :
    akeys (getReady ops true cm).1 = akeys cm ∧
    (akeys (getReady ops true cm).2.1).Sublist (akeys cm) ∧
    (∀ n c', (n, c') ∈ (getReady ops true cm).1 → ∃ c, (n, c) ∈ cm ∧
        ((c.triggered = true ∧ c' = c.reset) ∨ (c.triggered = false ∧ c' = c ∧ ((akeys cm).Nodup → n ∉ akeys (getReady ops true cm).2.1)))) := by
  induction cm with
  | nil => simp [getReady, akeys]
  | cons q t ih =>
    obtain ⟨k, c⟩ := q
    obtain ⟨i1, i2, i3⟩ := ih
    have hget : (c.get ops true) = if c.triggered then (c.reset, (c.get ops true).2) else (c, .notReady) := by
      unfold Chan.get; simp only [↓reduceIte]; split <;> rfl
    have hfst : (getReady ops true ((k, c) :: t)).1 = (k, (c.get ops true).1) :: (getReady ops true t).1 := by
      simp only [getReady]
      cases (c.get ops true).2 <;> rfl
    have hkeys : akeys (getReady ops true ((k, c) :: t)).2.1 = akeys (getReady ops true t).2.1 ∨
        (akeys (getReady ops true ((k, c) :: t)).2.1 = k :: akeys (getReady ops true t).2.1 ∧ c.triggered = true) := by
      simp only [getReady]
      cases hg : (c.get ops true).2 with
      | notReady => exact Or.inl rfl
      | mergeErr => exact Or.inl rfl
      | ready v =>
        refine Or.inr ⟨rfl, ?_⟩
        by_cases ht : c.triggered = true
        · exact ht
        · rw [hget] at hg; simp [ht] at hg
    refine ⟨?_, ?_, ?_⟩
    · rw [hfst]; simp only [akeys, List.map_cons] at i1 ⊢; rw [i1]
    · rcases hkeys with h | ⟨h, _⟩
      · rw [h]; simp only [akeys, List.map_cons] at i2 ⊢; exact List.Sublist.cons _ i2
      · rw [h]; simp only [akeys, List.map_cons] at i2 ⊢; exact List.Sublist.cons_cons _ i2
    · intro n c' hm
      rw [hfst] at hm
      simp only [List.mem_cons, Prod.mk.injEq] at hm
      rcases hm with ⟨rfl, rfl⟩ | hm
      · refine ⟨c, by simp, ?_⟩
        by_cases ht : c.triggered = true
        · left; rw [hget]; simp [ht]
        · right
          have hf : c.triggered = false := by simpa using ht
          refine ⟨hf, by rw [hget]; simp [ht], fun hnd => ?_⟩
          rcases hkeys with h | ⟨_, h⟩
          · rw [h]
            intro hin
            simp only [akeys, List.map_cons, List.nodup_cons] at hnd
            exact hnd.1 (i2.subset hin)
          · rw [h] at hf; exact absurd hf (by simp)
      · obtain ⟨c0, hc0, h⟩ := i3 n c' hm
        refine ⟨c0, List.mem_cons_of_mem _ hc0, ?_⟩
        rcases h with h | ⟨h1, h2, h3⟩
        · exact Or.inl h
        · refine Or.inr ⟨h1, h2, fun hnd => ?_⟩
          simp only [akeys, List.map_cons, List.nodup_cons] at hnd
          have hne : n ≠ k := fun e => hnd.1 (e ▸ mem_akeys_of_mem n c0 t hc0)
          rcases hkeys with h | ⟨h, _⟩
          · rw [h]; exact h3 hnd.2
          · rw [h]; simp only [List.mem_cons, not_or]; exact ⟨hne, h3 hnd.2⟩

theorem getReady_alookup {V} (ops : ValOps V) (cm : Chans V) (p : Key) :
    alookup p (getReady ops true cm).1 = (alookup p cm).map (fun c => (c.get ops true).1) := by
  induction cm with
  | nil => simp [getReady, alookup]
  | cons q t ih =>
    obtain ⟨k, c⟩ := q
    have hfst : (getReady ops true ((k, c) :: t)).1 = (k, (c.get ops true).1) :: (getReady ops true t).1 := by
      simp only [getReady]
      cases (c.get ops true).2 <;> rfl
    rw [hfst]
    simp only [alookup]
    split
    · rfl
    · exact ih

theorem get_skipped {V} (ops : ValOps V) (c : Chan V) : (c.get ops true).1.skipped = c.skipped := by
  unfold Chan.get; simp only [↓reduceIte]; split <;> rfl

theorem getReady_skOf {V} (ops : ValOps V) (cm : Chans V) (p : Key) :
    skOf (getReady ops true cm).1 p = skOf cm p := by
  unfold skOf
  rw [getReady_alookup]
  cases alookup p cm with
  | none => rfl
  | some c => simp [get_skipped]

theorem triggered_unpack {V} (c : Chan V) (h : c.triggered = true) :
    c.skipped = false ∧ ¬ (c.ctrl = [] ∧ c.data = []) ∧
    (∀ p d, (p, d) ∈ c.ctrl → pendC d = 1) ∧ (∀ p b, (p, b) ∈ c.data → pendD b = 1) := by
  simp only [Chan.triggered, Bool.and_eq_true, Bool.not_eq_eq_eq_not, Bool.not_true,
    List.any_eq_false, beq_iff_eq, Bool.and_eq_false_imp, List.isEmpty_iff] at h
  obtain ⟨⟨⟨h1, h0⟩, h2⟩, h3⟩ := h
  refine ⟨h1, ?_, ?_, ?_⟩
  · rintro ⟨e1, e2⟩
    have := h0 e1
    simp [e2] at this
  · intro p d hm
    have := h2 (p, d) hm
    cases d <;> simp_all [pendC]
  · intro p b hm
    have := h3 (p, b) hm
    cases b <;> simp_all [pendD]

/-- after the ready channels have been handed out (each started once more), every report
    is still paid for -/
theorem getReady_J {V} {F Cp : Key → Nat} (ops : ValOps V) (cm : Chans V) (hJ : J F Cp [] [] cm) :
    J (fun n => F n + (akeys (getReady ops true cm).2.1).count n) Cp [] [] (getReady ops true cm).1 ∧
    shapes (getReady ops true cm).1 = shapes cm ∧
    (∀ n, n ∈ akeys (getReady ops true cm).2.1 → ∃ c, (n, c) ∈ cm ∧ c.triggered = true) := by
  obtain ⟨g1, g2, g3⟩ := getReady_facts ops cm
  have hnd : (akeys (getReady ops true cm).2.1).Nodup := g2.nodup hJ.nd
  have hcnt : ∀ n, (akeys (getReady ops true cm).2.1).count n ≤ 1 := fun n => List.nodup_iff_count.mp hnd n
  refine ⟨⟨?_, ?_, ?_, ?_, List.nodup_nil, by simp⟩, ?_, ?_⟩
  · intro n c' hm p d hp
    obtain ⟨c, hc, h⟩ := g3 n c' hm
    rw [getReady_skOf]
    rcases h with ⟨ht, rfl⟩ | ⟨_, rfl, hn⟩
    · obtain ⟨_, _, t1, _⟩ := triggered_unpack c ht
      obtain ⟨hs, _, r1, _⟩ := reset_facts c
      have hpk : p ∈ akeys c.ctrl := by
        have := congrArg Prod.fst hs
        simp only [shapeOf] at this
        rw [← this]; exact mem_akeys_of_mem p d _ hp
      obtain ⟨d0, hd0⟩ := exists_of_mem_akeys _ _ hpk
      have := hJ.ctrl n c hc p d0 hd0
      have hc1 := hcnt n
      have e1 := t1 p d0 hd0
      have e2 : pendC d = 0 := by rw [r1 p d hp]; rfl
      simp only [effC, List.not_mem_nil, ↓reduceIte, wlInd, e1, e2] at this ⊢
      omega
    · have := hJ.ctrl n c' hc p d hp
      have h0 : (akeys (getReady ops true cm).2.1).count n = 0 := List.count_eq_zero.mpr (hn hJ.nd)
      simp only [h0]; exact this
  · intro n c' hm p d hp
    obtain ⟨c, hc, h⟩ := g3 n c' hm
    rw [getReady_skOf]
    rcases h with ⟨ht, rfl⟩ | ⟨_, rfl, hn⟩
    · obtain ⟨_, _, _, t2⟩ := triggered_unpack c ht
      obtain ⟨hs, _, _, r2⟩ := reset_facts c
      have hpk : p ∈ akeys c.data := by
        have := congrArg Prod.snd hs
        simp only [shapeOf] at this
        rw [← this]; exact mem_akeys_of_mem p d _ hp
      obtain ⟨d0, hd0⟩ := exists_of_mem_akeys _ _ hpk
      have := hJ.data n c hc p d0 hd0
      have hc1 := hcnt n
      have e1 := t2 p d0 hd0
      have e2 : pendD d = 0 := by rw [r2 p d hp]; rfl
      simp only [effD, List.not_mem_nil, ↓reduceIte, wlInd, e1, e2] at this ⊢
      omega
    · have := hJ.data n c' hc p d hp
      have h0 : (akeys (getReady ops true cm).2.1).count n = 0 := List.count_eq_zero.mpr (hn hJ.nd)
      simp only [h0]; exact this
  · intro n c' hm
    obtain ⟨c, hc, h⟩ := g3 n c' hm
    rcases h with ⟨ht, rfl⟩ | ⟨_, rfl, _⟩
    · obtain ⟨t0, _, _, _⟩ := triggered_unpack c ht
      refine ⟨fun h => ?_, fun h => ?_⟩ <;>
      · rw [(reset_facts c).2.1, t0] at h; exact absurd h (by simp)
    · exact hJ.sk n c' hc
  · rw [g1]; exact hJ.nd
  · -- shapes
    have : ∀ (cm : Chans V), shapes (getReady ops true cm).1 = shapes cm := by
      intro cm
      induction cm with
      | nil => simp [getReady, shapes]
      | cons q t ih =>
        obtain ⟨k, c⟩ := q
        have hfst : (getReady ops true ((k, c) :: t)).1 = (k, (c.get ops true).1) :: (getReady ops true t).1 := by
          simp only [getReady]
          cases (c.get ops true).2 <;> rfl
        rw [hfst]
        simp only [shapes, List.map_cons] at ih ⊢
        rw [ih]
        congr 2
        unfold Chan.get; simp only [↓reduceIte]; split
        · exact (reset_facts c).1
        · rfl
    exact this cm
  · intro n hn
    -- a key handed out belongs to a triggered channel
    have : ∀ (cm : Chans V) n, n ∈ akeys (getReady ops true cm).2.1 → ∃ c, (n, c) ∈ cm ∧ c.triggered = true := by
      intro cm
      induction cm with
      | nil => intro n hn; simp [getReady, akeys] at hn
      | cons q t ih =>
        obtain ⟨k, c⟩ := q
        intro n hn
        simp only [getReady] at hn
        cases hg : (c.get ops true).2 with
        | notReady =>
          simp only [hg] at hn
          obtain ⟨c0, h1, h2⟩ := ih n hn
          exact ⟨c0, List.mem_cons_of_mem _ h1, h2⟩
        | mergeErr =>
          simp only [hg] at hn
          obtain ⟨c0, h1, h2⟩ := ih n hn
          exact ⟨c0, List.mem_cons_of_mem _ h1, h2⟩
        | ready v =>
          simp only [hg, akeys, List.map_cons, List.mem_cons] at hn
          rcases hn with rfl | hn
          · refine ⟨c, by simp, ?_⟩
            by_cases ht : c.triggered = true
            · exact ht
            · unfold Chan.get at hg; simp [ht] at hg
          · obtain ⟨c0, h1, h2⟩ := ih n hn
            exact ⟨c0, List.mem_cons_of_mem _ h1, h2⟩
    exact this cm n hn

/-! ### one scheduling round -/

/-- `n` is a channel with at least one predecessor -/
def HasPred (sh : List (Key × List Key × List Key)) (n : Key) : Prop :=
  ∃ cs ds, (n, cs, ds) ∈ sh ∧ ¬ (cs = [] ∧ ds = [])

theorem calcNext_J {V} {F Cp : Key → Nat} (ops : ValOps V) (r : Runner V) (hd : r.dag = true) (hs : SuccOK r)
    (hk : r.start.key = START) (cm cm' : Chans V) (done : List (Done V)) (nx : Next V)
    (hJ : J F Cp [] [] cm) (hsh : shapes cm = shapes (initChans r))
    (h : calcNext ops r cm done = .ok (cm', nx)) :
    ∃ ready : List (Key × V),
      J (fun n => F n + (akeys ready).count n) (fun p => Cp p + (done.map (·.1)).count p) [] [] cm' ∧
      shapes cm' = shapes (initChans r) ∧
      (∀ n, n ∈ akeys ready → HasPred (shapes (initChans r)) n) ∧
      ((∃ v, nx = .result v) ∨ nx = .tasks ready) := by
  unfold calcNext at h
  cases h1 : resolve r cm done with
  | error e => simp [h1, bind, Except.bind] at h
  | ok res =>
    simp only [h1, bind, Except.bind] at h
    have hb : J F (fun p => Cp p + (done.map (·.1)).count p) (done.map (·.1)) [] cm :=
      J_bump hJ (fun p => Nat.le_add_right _ _) (fun p hp => by
        have := List.count_pos_iff.mpr hp
        omega)
    have hr := resolve_J r hd hs hk done (fun t ht => List.mem_map.mpr ⟨t, ht, rfl⟩)
      { cm := cm, writes := [], deps := [] } res
      ⟨hb, hsh, fun _ _ hm => by simp at hm, fun _ _ hm => by simp at hm⟩ h1
    obtain ⟨u1, u2⟩ := updateValues_J r hd res.writes hr.ws res.cm hr.j hr.sh
    obtain ⟨v1, v2⟩ := updateDeps_J r hd res.deps hr.ds _ u1 u2
    have v1' := J_drop_fr (fr' := []) v1 (fun p hp => by simp at hp)
    obtain ⟨g1, g2, g3⟩ := getReady_J ops _ v1'
    rw [hd] at h
    generalize hg : getReady ops true (updateDeps r (updateValues r res.cm res.writes) res.deps) = gr at h g1 g2 g3
    obtain ⟨cm3, ready, bad⟩ := gr
    simp only at h g1 g2 g3
    refine ⟨ready, ?_⟩
    by_cases hbad : bad = true
    · simp [hbad, throw, throwThe, MonadExceptOf.throw] at h
    · simp only [hbad, Bool.false_eq_true, ↓reduceIte] at h
      have hcm : cm' = cm3 ∧ ((∃ v, nx = .result v) ∨ nx = .tasks ready) := by
        split at h
        · simp only [pure, Except.pure, Except.ok.injEq, Prod.mk.injEq] at h
          exact ⟨h.1.symm, Or.inl ⟨_, h.2.symm⟩⟩
        · simp only [pure, Except.pure, Except.ok.injEq, Prod.mk.injEq] at h
          exact ⟨h.1.symm, Or.inr h.2.symm⟩
      obtain ⟨rfl, hnx⟩ := hcm
      refine ⟨g1, by rw [g2]; exact v2, ?_, hnx⟩
      intro n hn
      obtain ⟨c, hc, ht⟩ := g3 n hn
      obtain ⟨_, t0, _, _⟩ := triggered_unpack c ht
      refine ⟨akeys c.ctrl, akeys c.data, ?_, ?_⟩
      · rw [← v2]
        simp only [shapes, List.mem_map]
        exact ⟨(n, c), hc, rfl⟩
      · rintro ⟨e1, e2⟩
        apply t0
        constructor
        · cases hcc : c.ctrl with
          | nil => rfl
          | cons a b => rw [hcc] at e1; simp [akeys] at e1
        · cases hcc : c.data with
          | nil => rfl
          | cons a b => rw [hcc] at e2; simp [akeys] at e2

/-! ### the static argument: along the (acyclic) predecessor order every budget is ≤ 1 -/

theorem shapes_keys {V} (cm : Chans V) : akeys (shapes cm) = akeys cm := by
  simp [shapes, akeys, List.map_map, Function.comp]

theorem shapes_mem {V} (cm : Chans V) (n : Key) (c : Chan V) (h : (n, c) ∈ cm) :
    (n, akeys c.ctrl, akeys c.data) ∈ shapes cm := by
  simp only [shapes, List.mem_map]
  exact ⟨(n, c), h, rfl⟩

theorem static_bound {V} {F Cp : Key → Nat} (cm : Chans V) (rank : Key → Nat)
    (hrank : ∀ n cs ds, (n, cs, ds) ∈ shapes cm → ∀ p, p ∈ cs ∨ p ∈ ds → rank p < rank n)
    (hstart : START ∉ akeys cm) (hJ : J F Cp [] [] cm)
    (hB : ∀ p, Cp p ≤ F p + if p = START then 1 else 0)
    (hpos : ∀ n, 0 < F n → HasPred (shapes cm) n) :
    ∀ n, F n + skOf cm n ≤ 1 := by
  have hF0 : ∀ n, n ∉ akeys cm → F n = 0 := by
    intro n hn
    by_cases h0 : 0 < F n
    · obtain ⟨cs, ds, hm, _⟩ := hpos n h0
      have := mem_akeys_of_mem n (cs, ds) _ hm
      rw [shapes_keys] at this
      exact absurd this hn
    · omega
  have hsk0 : ∀ n, n ∉ akeys cm → skOf cm n = 0 := by
    intro n hn
    unfold skOf; rw [alookup_none_of_not_mem n cm hn]
  intro n
  induction hr : rank n using Nat.strongRecOn generalizing n with
  | _ m ih =>
    by_cases hn : n ∈ akeys cm
    · obtain ⟨c, hc⟩ := exists_of_mem_akeys _ _ hn
      have hl := alookup_of_mem_nodup cm hJ.nd n c hc
      have hshm := shapes_mem cm n c hc
      -- every predecessor's budget is at most one
      have bud : ∀ p, p ∈ akeys c.ctrl ∨ p ∈ akeys c.data → Cp p + skOf cm p ≤ 1 := by
        intro p hp
        have hlt := hrank n _ _ hshm p hp
        have := hB p
        by_cases e : p = START
        · subst e
          simp only [↓reduceIte] at this
          rw [hF0 START hstart] at this
          rw [hsk0 START hstart]; omega
        · simp only [e, ↓reduceIte] at this
          have := ih (rank p) (by rw [← hr]; exact hlt) p rfl
          omega
      have useC : ∀ p d, (p, d) ∈ c.ctrl → F n + pendC d ≤ 1 := by
        intro p d hp
        have h1 := hJ.ctrl n c hc p d hp
        have h2 := bud p (Or.inl (mem_akeys_of_mem p d _ hp))
        simp only [effC, List.not_mem_nil, ↓reduceIte, wlInd] at h1
        omega
      have useD : ∀ p b, (p, b) ∈ c.data → F n + pendD b ≤ 1 := by
        intro p b hp
        have h1 := hJ.data n c hc p b hp
        have h2 := bud p (Or.inr (mem_akeys_of_mem p b _ hp))
        simp only [effD, List.not_mem_nil, ↓reduceIte, wlInd] at h1
        omega
      -- a node that has been started has a predecessor
      have hent : 0 < F n → (∃ p d, (p, d) ∈ c.ctrl) ∨ (∃ p b, (p, b) ∈ c.data) := by
        intro h0
        obtain ⟨cs, ds, hm, hne⟩ := hpos n h0
        have hnd' : (akeys (shapes cm)).Nodup := by rw [shapes_keys]; exact hJ.nd
        have e1 := alookup_of_mem_nodup _ hnd' n _ hm
        have e2 := alookup_of_mem_nodup _ hnd' n _ hshm
        rw [e1] at e2
        simp only [Option.some.injEq, Prod.mk.injEq] at e2
        obtain ⟨rfl, rfl⟩ := e2
        cases hcc : c.ctrl with
        | cons a b => exact Or.inl ⟨a.1, a.2, by simp⟩
        | nil =>
          cases hdd : c.data with
          | cons a b => exact Or.inr ⟨a.1, a.2, by simp⟩
          | nil => exact absurd ⟨by rw [hcc]; rfl, by rw [hdd]; rfl⟩ hne
      by_cases hsk : c.skipped = true
      · have hs1 : skOf cm n = 1 := by unfold skOf; rw [hl]; simp [hsk]
        rw [hs1]
        have ho := hJ.sk n c hc
        cases hcc : c.ctrl with
        | cons a b =>
          have hm : (a.1, a.2) ∈ c.ctrl := by rw [hcc]; simp
          have := ho.all hsk a.1 a.2 hm
          have h2 := useC a.1 a.2 hm
          rw [this] at h2
          simp only [pendC] at h2; omega
        | nil =>
          obtain ⟨p, hp⟩ := ho.wit hsk hcc
          have := useD p true hp
          simp only [pendD] at this; omega
      · have hs0 : skOf cm n = 0 := by unfold skOf; rw [hl]; simp [hsk]
        rw [hs0]
        by_cases h0 : 0 < F n
        · rcases hent h0 with ⟨p, d, hp⟩ | ⟨p, b, hp⟩
          · have := useC p d hp; omega
          · have := useD p b hp; omega
        · omega
    · rw [hF0 n hn, hsk0 n hn]; omega

/-! ### the run -/

theorem keysOfTr_cons {V} (a : List (Key × V)) (tr : Trace V) : keysOfTr (a :: tr) = akeys a ++ keysOfTr tr := by
  simp [keysOfTr, akeys]

theorem count_keysOfTr_reverse {V} (tr : Trace V) (k : Key) :
    (keysOfTr tr.reverse).count k = (keysOfTr tr).count k := by
  induction tr with
  | nil => rfl
  | cons a t ih =>
    rw [keysOfTr_cons, List.reverse_cons]
    have : keysOfTr (t.reverse ++ [a]) = keysOfTr t.reverse ++ akeys a := by
      simp [keysOfTr, akeys]
    rw [this, List.count_append, List.count_append, ih]; omega

structure LInv {V} (r : Runner V) (cm : Chans V) (tasks : List (Key × V)) (tr : Trace V) : Prop where
  j : J (fun n => (keysOfTr (tasks :: tr)).count n)
        (fun p => (keysOfTr tr).count p + if p = START then 1 else 0) [] [] cm
  sh : shapes cm = shapes (initChans r)
  pos : ∀ n, 0 < (keysOfTr (tasks :: tr)).count n → HasPred (shapes (initChans r)) n

theorem linv_bound {V} (r : Runner V) (wf : DagWF r) (cm : Chans V) (tasks : List (Key × V)) (tr : Trace V)
    (h : LInv r cm tasks tr) (k : Key) : (keysOfTr (tasks :: tr)).count k ≤ 1 := by
  obtain ⟨rank, hrank⟩ := wf.acyclic
  have hk : akeys cm = akeys (initChans r) := by rw [← shapes_keys cm, h.sh, shapes_keys]
  have := static_bound cm rank (by rw [h.sh]; exact hrank) (by rw [hk]; exact wf.startFresh) h.j
    (by
      intro p
      simp only [keysOfTr_cons, List.count_append]
      omega)
    (by rw [h.sh]; exact h.pos) k
  omega

theorem loop_once {V} (ops : ValOps V) (r : Runner V) (wf : DagWF r) (sched : Sched V) (hf : sched.Fair) :
    ∀ (fuel : Nat) (cm : Chans V) (tasks : List (Key × V)) (tr : Trace V), LInv r cm tasks tr →
      ∀ k, (keysOfTr (loop ops r sched fuel cm tasks tr).trace).count k ≤ 1 := by
  intro fuel
  induction fuel with
  | zero =>
    intro cm tasks tr h k
    simp only [loop]
    rw [count_keysOfTr_reverse]
    have := linv_bound r wf cm tasks tr h k
    rw [keysOfTr_cons, List.count_append] at this
    omega
  | succ f ih =>
    intro cm tasks tr h k
    have hb : ((keysOfTr ((tasks :: tr).reverse)).count k) ≤ 1 := by
      rw [count_keysOfTr_reverse]; exact linv_bound r wf cm tasks tr h k
    unfold loop
    simp only
    cases hr : runTasks r sched tr.length tasks with
    | error e => exact hb
    | ok done =>
      simp only
      by_cases he : done.isEmpty = true
      · simp only [he, ↓reduceIte]; exact hb
      · simp only [he, Bool.false_eq_true, ↓reduceIte]
        cases hc : calcNext ops r cm done with
        | error e => exact hb
        | ok res =>
          obtain ⟨cm', nx⟩ := res
          obtain ⟨ready, j1, j2, j3, j4⟩ := calcNext_J ops r wf.dag wf.succ wf.startKey cm cm' done nx h.j h.sh hc
          rcases j4 with ⟨v, rfl⟩ | rfl
          · exact hb
          · simp only
            apply ih cm' ready (tasks :: tr)
            have hperm := runTasks_keys r sched hf _ _ _ hr
            refine ⟨?_, j2, ?_⟩
            · have e1 : (fun n => (keysOfTr (ready :: tasks :: tr)).count n) =
                  (fun n => (keysOfTr (tasks :: tr)).count n + (akeys ready).count n) := by
                funext n
                rw [keysOfTr_cons ready, List.count_append]; omega
              have e2 : (fun p => (keysOfTr (tasks :: tr)).count p + if p = START then 1 else 0) =
                  (fun p => ((keysOfTr tr).count p + if p = START then 1 else 0) + (done.map (·.1)).count p) := by
                funext p
                rw [keysOfTr_cons tasks, List.count_append, hperm.count_eq]
                simp only [akeys]; omega
              rw [e1, e2]; exact j1
            · intro n hn
              rw [keysOfTr_cons ready, List.count_append] at hn
              by_cases h0 : 0 < (akeys ready).count n
              · exact j3 n (List.count_pos_iff.mp h0)
              · exact h.pos n (by omega)

theorem init_J {V} (r : Runner V) (hd : r.dag = true) (hnd : (akeys (initChans r)).Nodup) :
    J (fun _ => 0) (fun _ => 0) [] [] (initChans r) := by
  have hinit : ∀ n c, (n, c) ∈ initChans r →
      (∀ p d, (p, d) ∈ c.ctrl → d = Dep.waiting) ∧ (∀ p b, (p, b) ∈ c.data → b = false) ∧ c.skipped = false := by
    intro n c hm
    simp only [initChans, List.mem_append, List.mem_map, List.mem_singleton, Prod.mk.injEq] at hm
    have hci : ∀ (a b : List Key), (∀ p d, (p, d) ∈ (Chan.init (V := V) true a b).ctrl → d = Dep.waiting) ∧
        (∀ p d, (p, d) ∈ (Chan.init (V := V) true a b).data → d = false) ∧ (Chan.init (V := V) true a b).skipped = false := by
      intro a b
      simp only [Chan.init, ↓reduceIte, List.mem_map, Prod.mk.injEq]
      refine ⟨?_, ?_, trivial⟩
      · rintro p d ⟨_, _, _, rfl⟩; rfl
      · rintro p d ⟨_, _, _, rfl⟩; rfl
    rcases hm with ⟨nd, _, _, rfl⟩ | ⟨_, rfl⟩
    · rw [hd]; exact hci _ _
    · rw [hd]; exact hci _ _
  refine ⟨?_, ?_, ?_, hnd, List.nodup_nil, by simp⟩
  · intro n c hm p d hp
    rw [(hinit n c hm).1 p d hp]
    simp [effC, pendC, wlInd]
  · intro n c hm p d hp
    rw [(hinit n c hm).2.1 p d hp]
    simp [effD, pendD, wlInd]
  · intro n c hm
    have := (hinit n c hm).2.2
    exact ⟨fun h => by rw [this] at h; exact absurd h (by simp), fun h => by rw [this] at h; exact absurd h (by simp)⟩

/-- the state after START has been resolved satisfies the loop invariant -/
theorem start_LInv {V} (ops : ValOps V) (r : Runner V) (wf : DagWF r) (x : V) (cm' : Chans V) (ts : List (Key × V))
    (hc : calcNext ops r (initChans r) [(START, x)] = .ok (cm', .tasks ts)) : LInv r cm' ts [] := by
  obtain ⟨ready, j1, j2, j3, j4⟩ := calcNext_J ops r wf.dag wf.succ wf.startKey _ cm' _ _
    (init_J r wf.dag wf.nodup) rfl hc
  rcases j4 with ⟨v, hv⟩ | hv
  · cases hv
  · simp only [Next.tasks.injEq] at hv
    subst hv
    refine ⟨?_, j2, ?_⟩
    · have e1 : (fun n => (keysOfTr (ts :: ([] : Trace V))).count n) = (fun n => 0 + (akeys ts).count n) := by
        funext n; simp [keysOfTr, akeys]
      have e2 : (fun p => (keysOfTr ([] : Trace V)).count p + if p = START then 1 else 0) =
          (fun p => 0 + (([(START, x)] : List (Done V)).map (·.1)).count p) := by
        funext p
        simp only [keysOfTr, List.flatten_nil, List.map_nil, List.count_nil, List.map_cons, Nat.zero_add]
        by_cases e : p = START
        · subst e; simp
        · have : (START == p) = false := by simpa using fun e' => e e'.symm
          simp [e, List.count_cons, this]
      rw [e1, e2]; exact j1
    · intro n hn
      apply j3 n
      simp only [keysOfTr, List.flatten_cons, List.flatten_nil, List.append_nil] at hn
      exact List.count_pos_iff.mp hn

/-- **at most once.** In all-predecessor mode every node of a well-formed acyclic runner is
    started at most once in a run — for every wiring (control-only, data-only, combined
    dependencies, any branches, converging branches, nested skips), every node function and
    branch outcome, every input and every fair completion schedule. -/
theorem run_at_most_once {V} (ops : ValOps V) (r : Runner V) (wf : DagWF r) (sched : Sched V) (hf : sched.Fair)
    (x : V) (k : Key) : (keysOfTr (runS ops r sched x).trace).count k ≤ 1 := by
  unfold runS
  cases hc : calcNext ops r (initChans r) [(START, x)] with
  | error e => simp [keysOfTr]
  | ok res =>
    obtain ⟨cm', nx⟩ := res
    cases nx with
    | result v => simp [keysOfTr]
    | tasks ts =>
      simp only
      exact loop_once ops r wf sched hf _ cm' ts [] (start_LInv ops r wf x cm' ts hc) k

theorem nodupb_sound (l : List Key) (h : nodupb l = true) : l.Nodup := by
  induction l with
  | nil => exact List.nodup_nil
  | cons k t ih =>
    simp only [nodupb, Bool.and_eq_true, Bool.not_eq_eq_eq_not, Bool.not_true] at h
    refine List.nodup_cons.mpr ⟨?_, ih h.2⟩
    intro hm
    have : t.contains k = true := List.contains_iff_mem.mpr hm
    rw [this] at h; exact absurd h.1 (by simp)

/-- the executable check implies the proposition -/
theorem dagWFb_sound {V} (r : Runner V) (h : dagWFb r = true) : DagWF r := by
  simp only [dagWFb, Bool.and_eq_true, beq_iff_eq, Bool.not_eq_eq_eq_not, Bool.not_true,
    List.all_eq_true, Bool.or_eq_true, decide_eq_true_eq, List.mem_cons, forall_eq_or_imp] at h
  obtain ⟨⟨⟨⟨⟨h1, h2⟩, h3⟩, h4⟩, h5s, h5⟩, h6⟩ := h
  refine ⟨h1, nodupb_sound _ h2, h3, ?_, ?_, ⟨rankOf (shapes (initChans r)), ?_⟩⟩
  · intro hm
    have : (akeys (initChans r)).contains START = true := List.contains_iff_mem.mpr hm
    rw [this] at h4; exact absurd h4 (by simp)
  · intro m hm s hs cs ds he
    have hx : ∀ s, s ∈ m.successors → ∀ e, e ∈ shapes (initChans r) →
        ((e.1 == s) = false ∨ e.2.1.contains m.key = true) ∨ e.2.2.contains m.key = true := by
      rcases hm with hm | rfl
      · exact h5 m hm
      · exact h5s
    rcases hx s hs (s, cs, ds) he with (h | h) | h
    · simp at h
    · exact Or.inl (List.contains_iff_mem.mp h)
    · exact Or.inr (List.contains_iff_mem.mp h)
  · intro n cs ds he p hp
    exact h6 (n, cs, ds) he p (by simpa using hp)


theorem length_le_keysOfTr {V} (tr : Trace V) (h : ∀ l, l ∈ tr → l ≠ []) : tr.length ≤ (keysOfTr tr).length := by
  induction tr with
  | nil => simp
  | cons a t ih =>
    rw [keysOfTr_cons, List.length_append, List.length_cons]
    have := ih (fun l hl => h l (List.mem_cons_of_mem _ hl))
    have ha : 0 < (akeys a).length := by
      cases a with
      | nil => exact absurd rfl (h [] (by simp))
      | cons x y => simp [akeys]
    omega

/-- a run that is still going has started fewer than all nodes: the trace is short -/
theorem linv_short {V} (r : Runner V) (wf : DagWF r) (cm : Chans V) (tasks : List (Key × V)) (tr : Trace V)
    (h : LInv r cm tasks tr) (hne : ∀ l, l ∈ tr → l ≠ []) : tr.length ≤ r.nodes.length + 1 := by
  have hnd : (keysOfTr (tasks :: tr)).Nodup := List.nodup_iff_count.mpr (fun k => linv_bound r wf cm tasks tr h k)
  have hsub : (keysOfTr (tasks :: tr)) ⊆ akeys (initChans r) := by
    intro k hk
    obtain ⟨cs, ds, hm, _⟩ := h.pos k (List.count_pos_iff.mpr hk)
    have := mem_akeys_of_mem k (cs, ds) _ hm
    rwa [shapes_keys] at this
  have h1 := hnd.length_le_of_subset hsub
  have h2 : (akeys (initChans r)).length = r.nodes.length + 1 := by simp [initChans, akeys]
  have h3 := length_le_keysOfTr tr hne
  rw [keysOfTr_cons, List.length_append] at h1
  omega

/-- **the model's DAG fuel is never the reason a run stops**: more fuel changes nothing. -/
theorem loop_fuel_enough {V} (ops : ValOps V) (r : Runner V) (wf : DagWF r) (sched : Sched V) (hf : sched.Fair)
    (extra : Nat) :
    ∀ (fuel : Nat) (cm : Chans V) (tasks : List (Key × V)) (tr : Trace V), LInv r cm tasks tr →
      (∀ l, l ∈ tr → l ≠ []) → r.nodes.length + 2 ≤ fuel + tr.length →
      loop ops r sched (fuel + extra) cm tasks tr = loop ops r sched fuel cm tasks tr := by
  intro fuel
  induction fuel with
  | zero =>
    intro cm tasks tr h hne hlen
    have := linv_short r wf cm tasks tr h hne
    omega
  | succ f ih =>
    intro cm tasks tr h hne hlen
    have e : f + 1 + extra = (f + extra) + 1 := by omega
    rw [e]
    unfold loop
    simp only
    cases hr : runTasks r sched tr.length tasks with
    | error e => rfl
    | ok done =>
      simp only
      by_cases he : done.isEmpty = true
      · simp [he]
      · simp only [he, Bool.false_eq_true, ↓reduceIte]
        cases hc : calcNext ops r cm done with
        | error e => rfl
        | ok res =>
          obtain ⟨cm', nx⟩ := res
          obtain ⟨ready, j1, j2, j3, j4⟩ := calcNext_J ops r wf.dag wf.succ wf.startKey cm cm' done nx h.j h.sh hc
          rcases j4 with ⟨v, rfl⟩ | rfl
          · rfl
          · simp only
            have hperm := runTasks_keys r sched hf _ _ _ hr
            have htne : tasks ≠ [] := by
              intro e
              subst e
              have := hperm.length_eq
              simp only [List.map_nil, List.length_nil, List.length_map] at this
              have : done = [] := List.length_eq_zero_iff.mp this
              simp [this] at he
            apply ih cm' ready (tasks :: tr)
            · refine ⟨?_, j2, ?_⟩
              · have e1 : (fun n => (keysOfTr (ready :: tasks :: tr)).count n) =
                    (fun n => (keysOfTr (tasks :: tr)).count n + (akeys ready).count n) := by
                  funext n
                  rw [keysOfTr_cons ready, List.count_append]; omega
                have e2 : (fun p => (keysOfTr (tasks :: tr)).count p + if p = START then 1 else 0) =
                    (fun p => ((keysOfTr tr).count p + if p = START then 1 else 0) + (done.map (·.1)).count p) := by
                  funext p
                  rw [keysOfTr_cons tasks, List.count_append, hperm.count_eq]
                  simp only [akeys]; omega
                rw [e1, e2]; exact j1
              · intro n hn
                rw [keysOfTr_cons ready, List.count_append] at hn
                by_cases h0 : 0 < (akeys ready).count n
                · exact j3 n (List.count_pos_iff.mp h0)
                · exact h.pos n (by omega)
            · intro l hl
              rcases List.mem_cons.mp hl with rfl | hl
              · exact htne
              · exact hne l hl
            · simp only [List.length_cons]; omega


/-- the run with the model's own DAG fuel (`nodes + 2`) is the run with any larger fuel -/
theorem run_fuel_enough {V} (ops : ValOps V) (r : Runner V) (wf : DagWF r) (sched : Sched V) (hf : sched.Fair)
    (x : V) (cm : Chans V) (ts : List (Key × V))
    (hc : calcNext ops r (initChans r) [(START, x)] = .ok (cm, .tasks ts)) (extra : Nat) :
    loop ops r sched (r.fuel + extra) cm ts [] = loop ops r sched r.fuel cm ts [] := by
  apply loop_fuel_enough ops r wf sched hf extra r.fuel cm ts [] (start_LInv ops r wf x cm ts hc)
  · intro l hl; simp at hl
  · simp [Runner.fuel, wf.dag]

end DagRun
end EinoV.Engine
