/-
  Order-freeness of the type-inference work list: whether `updateToValidateMap` reports an
  error, and which types it infers, do not depend on Go's map iteration order.
-/
import EinoV.Proofs.C20Infer

namespace EinoV.Build

/-! ### one entry of one pass, as a case split (used by every induction below) -/

/-- what processing the first entry of a pass amounts to -/
theorem procEntries_cons_cases (im : Impl) (T : Ty) (s : Key) (sTy : Option Ty)
    (pe : PEdge) (rest : List PEdge) (b : Builder) (kept : List PEdge) (ch : Bool)
    (hw : WF b) (hq : Q b T) (hp : PN b) (hsub : ∀ x ∈ pe :: rest, x ∈ getSlice b.toValidate s)
    (hso : SOk b s sTy T (pe :: rest)) :
    -- a typed entry that does not fit: the call fails
    (∃ A B, sTy = some A ∧ b.nodeOut s = some A ∧ b.nodeIn pe.dst = some B ∧
        checkAssignable im (some A) (some B) = .mustNot ∧
        procEntries im s sTy (pe :: rest) b kept ch = .error .edgeMismatch) ∨
    -- the entry stays: both types unknown
    (sTy = none ∧ b.nodeIn pe.dst = none ∧
        procEntries im s sTy (pe :: rest) b kept ch = procEntries im s sTy rest b (pe :: kept) ch) ∨
    -- the entry is resolved: a node is typed `T`, or a typed pair is checked
    (∃ b1, procEntries im s sTy (pe :: rest) b kept ch = procEntries im s sTy rest b1 kept true ∧
        WF b1 ∧ StepT b b1 T ∧ Frame b b1 ∧ b1.toValidate = b.toValidate ∧ SOk b1 s sTy T rest ∧
        SoundE im b1 s pe.dst ∧
        -- what was typed: only ends of this entry, and only if the other end was typed before
        (∀ k, (b1.nodeIn k).isSome → (b.nodeIn k).isSome ∨
           (k = pe.dst ∧ (b.nodeOut s).isSome) ∨ (k = s ∧ (b.nodeIn pe.dst).isSome))) := by
  have hpe : pe ∈ getSlice b.toValidate s := hsub pe List.mem_cons_self
  have hsubr : ∀ x ∈ rest, x ∈ getSlice b.toValidate s := fun x hx => hsub x (List.mem_cons_of_mem _ hx)
  have hq0 := hq s pe hpe
  have hp0 := hp s pe hpe
  rcases hs : sTy with _ | st <;> rcases hd : b.nodeIn pe.dst with _ | et
  · right; left
    exact ⟨rfl, rfl, by simp only [procEntries, hd]⟩
  · -- (nil, typed): the start node takes the end's type
    right; right
    subst hs
    have hfacts : et = T ∧ (b.nodeIn s = none ∨ b.nodeIn s = some T) ∧ (b.nodeOut s = none ∨ b.nodeOut s = some T) ∧
        (∀ x ∈ rest, b.nodeIn x.dst = none ∨ b.nodeIn x.dst = some T) ∧ b.hasNode s = true ∧ s ≠ START ∧ s ≠ END := by
      rcases hso with h0 | ⟨_, hr1, hr2, h2, h3, h4⟩
      · have hon : b.nodeOut s = none := h0.symm
        have hin : b.nodeIn s = none := (hw.untyped_iff s).mpr hon
        have he : et = T := by
          rcases hq0.1 hon with e | e
          · rw [hd] at e; simp at e
          · rw [hd] at e; simpa using e
        have hne := nodeOut_none_ne b s hon
        exact ⟨he, Or.inl hin, Or.inl hon, fun x hx => (hq s x (hsubr x hx)).1 hon, hp0.2.1 hon, hne.1, hne.2⟩
      · have he : et = T := by
          rcases h4 pe List.mem_cons_self with e | e
          · rw [hd] at e; simp at e
          · rw [hd] at e; simpa using e
        exact ⟨he, Or.inr h2, Or.inr h3, fun x hx => h4 x (List.mem_cons_of_mem _ hx),
          hasNode_of_nodeIn h2 hr1 hr2, hr1, hr2⟩
    obtain ⟨he, hin, hon, hrest, hhas, hr1, hr2⟩ := hfacts
    subst he
    have hst1 : StepT b (b.setTy s et) et := StepT.setTy b s et hin hon
    have hi1 : (b.setTy s et).nodeIn s = some et := by rw [nodeIn_setTy_self b s et hr1 hr2, hhas]; rfl
    have ho1 : (b.setTy s et).nodeOut s = some et := by rw [nodeOut_setTy_self b s et hr1 hr2, hhas]; rfl
    have hso1 : SOk (b.setTy s et) s none et rest := by
      refine Or.inr ⟨rfl, hr1, hr2, hi1, ho1, fun x hx => ?_⟩
      rcases hst1.tin x.dst with e | e
      · rw [e]; exact hrest x hx
      · exact Or.inr e
    refine ⟨b.setTy s et, by simp only [procEntries, hd], hw.setTy s et, hst1, Frame.setTy b s et, rfl, hso1,
      SoundE.same ho1 (hst1.mono.tin _ _ hd), ?_⟩
    intro k hk
    rcases (setTy_cases b s et k).1 with e | ⟨e1, _⟩
    · left; rw [← e]; exact hk
    · right; right; exact ⟨e1, by first | rfl | simp [hd]⟩
  · -- (typed, nil): the end node takes the start's type
    right; right
    subst hs
    have hcur : b.nodeOut s = some st := by
      rcases hso with h0 | ⟨h0, _⟩
      · exact h0.symm
      · simp at h0
    have he : st = T := by
      rcases hq0.2 hd with e | e
      · rw [hcur] at e; simp at e
      · rw [hcur] at e; simpa using e
    subst he
    have hdo : b.nodeOut pe.dst = none := (hw.untyped_iff _).mp hd
    have hne := nodeIn_none_ne b pe.dst hd
    have hhas : b.hasNode pe.dst = true := hp0.1 hd
    have hsd : s ≠ pe.dst := by
      intro e; rw [← e] at hdo; rw [hdo] at hcur; simp at hcur
    have hst1 : StepT b (b.setTy pe.dst st) st := StepT.setTy b pe.dst st (Or.inl hd) (Or.inl hdo)
    have hi1 : (b.setTy pe.dst st).nodeIn pe.dst = some st := by
      rw [nodeIn_setTy_self b pe.dst st hne.1 hne.2, hhas]; rfl
    have ho1 : (b.setTy pe.dst st).nodeOut s = some st := by
      rw [nodeOut_setTy_ne b pe.dst s st hsd]; exact hcur
    refine ⟨b.setTy pe.dst st, by simp only [procEntries, hd], hw.setTy _ _, hst1, Frame.setTy b _ _, rfl,
      Or.inl ho1.symm, SoundE.same ho1 hi1, ?_⟩
    intro k hk
    rcases (setTy_cases b pe.dst st k).1 with e | ⟨e1, _⟩
    · left; rw [← e]; exact hk
    · right; left; exact ⟨e1, by first | rfl | simp [hcur]⟩
  · -- (typed, typed): the entry is checked
    subst hs
    have hcur : b.nodeOut s = some st := by
      rcases hso with h0 | ⟨h0, _⟩
      · exact h0.symm
      · simp at h0
    rcases hc : checkAssignable im (some st) (some et) with _ | _ | _
    · left
      exact ⟨st, et, rfl, hcur, rfl, hc, by simp only [procEntries, hd, hp0.2.2, hc]⟩
    · right; right
      refine ⟨b, by simp only [procEntries, hd, hp0.2.2, hc], hw, StepT.refl b T, Frame.refl b, rfl, hso.tail, ?_,
        fun k hk => Or.inl hk⟩
      unfold SoundE; rw [hcur, hd, hc]; trivial
    · right; right
      let b1 : Builder := { b with mayEdges := b.mayEdges ++ [(s, pe.dst)] }
      have hst1 : StepT b b1 T :=
        ⟨⟨fun _ _ hx => hx, fun _ _ hx => hx, fun x hx => List.mem_append_left _ hx⟩, fun _ => Or.inl rfl, fun _ => Or.inl rfl⟩
      refine ⟨b1, by simp only [procEntries, hd, hp0.2.2, hc]; rfl, hw, hst1, Frame.refl b, rfl, Or.inl hcur.symm, ?_,
        fun k hk => Or.inl hk⟩
      unfold SoundE
      show (match checkAssignable im (b.nodeOut s) (b.nodeIn pe.dst) with
        | .mustNot => False | .may => (s, pe.dst) ∈ b.mayEdges ++ [(s, pe.dst)] | .must => True)
      rw [hcur, hd, hc]; simp


/-! ### when does the work list fail?  Exactly when a pending entry joins two typed nodes
    that cannot be connected – a fact about the state before the call, not about the order -/

def Mism (im : Impl) (b : Builder) (s : Key) (pe : PEdge) : Prop :=
  ∃ A B, b.nodeOut s = some A ∧ b.nodeIn pe.dst = some B ∧ checkAssignable im (some A) (some B) = .mustNot

def Err (im : Impl) (b : Builder) : Prop := ∃ s pe, pe ∈ getSlice b.toValidate s ∧ Mism im b s pe

theorem Mism.mono {im : Impl} {b b' : Builder} {s : Key} {pe : PEdge} (hm : Mono b b') (h : Mism im b s pe) :
    Mism im b' s pe := by
  obtain ⟨A, B, h1, h2, h3⟩ := h
  exact ⟨A, B, hm.tout _ _ h1, hm.tin _ _ h2, h3⟩

theorem newly_T {x y : Option Ty} {T A : Ty} (h : x = y ∨ x = some T) (hx : x = some A) (hy : y = none) : A = T := by
  rcases h with e | e
  · rw [hx, hy] at e; simp at e
  · rw [hx] at e; simpa using e

theorem noErr_step {im : Impl} {b b1 : Builder} {T : Ty} (hq : Q b T) (hs : StepT b b1 T)
    (htv : ∀ s pe, pe ∈ getSlice b1.toValidate s → pe ∈ getSlice b.toValidate s)
    (hne : ¬ Err im b) : ¬ Err im b1 := by
  rintro ⟨s, pe, hpe, A', B', ho', hi', hc⟩
  have hpe0 := htv s pe hpe
  have hq0 := hq s pe hpe0
  rcases ho : b.nodeOut s with _ | A0 <;> rcases hi : b.nodeIn pe.dst with _ | B0
  · -- both newly typed: both T
    have e1 : A' = T := newly_T (hs.tout s) ho' ho
    have e2 : B' = T := newly_T (hs.tin pe.dst) hi' hi
    subst e1; subst e2; rw [checkAssignable_same] at hc; simp at hc
  · have e1 : A' = T := newly_T (hs.tout s) ho' ho
    have e0 : B0 = T := by
      rcases hq0.1 ho with e | e
      · rw [hi] at e; simp at e
      · rw [hi] at e; simpa using e
    have e2 : B' = T := by
      have := hs.mono.tin _ _ hi; rw [hi'] at this; simp at this; rw [this, e0]
    subst e1; subst e2; rw [checkAssignable_same] at hc; simp at hc
  · have e2 : B' = T := newly_T (hs.tin pe.dst) hi' hi
    have e0 : A0 = T := by
      rcases hq0.2 hi with e | e
      · rw [ho] at e; simp at e
      · rw [ho] at e; simpa using e
    have e1 : A' = T := by
      have := hs.mono.tout _ _ ho; rw [ho'] at this; simp at this; rw [this, e0]
    subst e1; subst e2; rw [checkAssignable_same] at hc; simp at hc
  · have e1 : A' = A0 := by have := hs.mono.tout _ _ ho; rw [ho'] at this; simpa using this
    have e2 : B' = B0 := by have := hs.mono.tin _ _ hi; rw [hi'] at this; simpa using this
    subst e1; subst e2
    exact hne ⟨s, pe, hpe0, A', B', ho, hi, hc⟩

/-- without a mismatching typed pair, a pass does not fail -/
theorem procEntries_noerr (im : Impl) (T : Ty) (s : Key) (sTy : Option Ty) :
    ∀ (entries : List PEdge) (b : Builder) (kept : List PEdge) (ch : Bool),
      WF b → Q b T → PN b → (∀ pe ∈ entries, pe ∈ getSlice b.toValidate s) → SOk b s sTy T entries →
      ¬ Err im b → ∃ r, procEntries im s sTy entries b kept ch = .ok r := by
  intro entries
  induction entries with
  | nil => intro b kept ch _ _ _ _ _ _; exact ⟨_, rfl⟩
  | cons pe rest ih =>
    intro b kept ch hw hq hp hsub hso hne
    have hsubr : ∀ x ∈ rest, x ∈ getSlice b.toValidate s := fun x hx => hsub x (List.mem_cons_of_mem _ hx)
    rcases procEntries_cons_cases im T s sTy pe rest b kept ch hw hq hp hsub hso with
      ⟨A, B, _, h2, h3, h4, _⟩ | ⟨_, _, heq⟩ | ⟨b1, heq, hw1, hst1, hf1, htv1, hso1, _, _⟩
    · exact absurd ⟨s, pe, hsub pe List.mem_cons_self, A, B, h2, h3, h4⟩ hne
    · rw [heq]; exact ih b (pe :: kept) ch hw hq hp hsubr hso.tail hne
    · rw [heq]
      have htv' : ∀ s' x, x ∈ getSlice b1.toValidate s' → x ∈ getSlice b.toValidate s' := by
        intro s' x hx; rwa [htv1] at hx
      exact ih b1 kept true hw1 (hq.step hst1 htv') (hp.step hst1.mono hf1 htv')
        (fun x hx => by rw [htv1]; exact hsubr x hx) hso1 (noErr_step hq hst1 htv' hne)

/-- a pass over a slice that contains a mismatching typed pair fails (with `edgeMismatch`);
    and `edgeMismatch` is the only error a pass can report -/
theorem procEntries_err (im : Impl) (T : Ty) (s : Key) (sTy : Option Ty) :
    ∀ (entries : List PEdge) (b : Builder) (kept : List PEdge) (ch : Bool),
      WF b → Q b T → PN b → (∀ pe ∈ entries, pe ∈ getSlice b.toValidate s) → SOk b s sTy T entries →
      ((∃ pe0 ∈ entries, Mism im b s pe0 ∧ sTy = b.nodeOut s) →
          procEntries im s sTy entries b kept ch = .error .edgeMismatch) ∧
      (∀ k, procEntries im s sTy entries b kept ch = .error k → k = .edgeMismatch) := by
  intro entries
  induction entries with
  | nil =>
    intro b kept ch _ _ _ _ _
    exact ⟨fun ⟨pe0, h, _⟩ => by simp at h, fun k h => by simp [procEntries] at h⟩
  | cons pe rest ih =>
    intro b kept ch hw hq hp hsub hso
    have hsubr : ∀ x ∈ rest, x ∈ getSlice b.toValidate s := fun x hx => hsub x (List.mem_cons_of_mem _ hx)
    rcases procEntries_cons_cases im T s sTy pe rest b kept ch hw hq hp hsub hso with
      ⟨A, B, _, h2, h3, h4, heq⟩ | ⟨hnone, hdn, heq⟩ | ⟨b1, heq, hw1, hst1, hf1, htv1, hso1, hsound, _⟩
    · exact ⟨fun _ => heq, fun k hk => by rw [heq] at hk; simpa using hk.symm⟩
    · rw [heq]
      have ih' := ih b (pe :: kept) ch hw hq hp hsubr hso.tail
      refine ⟨?_, ih'.2⟩
      rintro ⟨pe0, hmem, hm, hty⟩
      -- the start type is nil here, so no entry of this slice is a typed pair
      obtain ⟨A, B, ho, _, _⟩ := hm
      rw [hnone] at hty; rw [← hty] at ho; simp at ho
    · rw [heq]
      have htv' : ∀ s' x, x ∈ getSlice b1.toValidate s' → x ∈ getSlice b.toValidate s' := by
        intro s' x hx; rwa [htv1] at hx
      have ih' := ih b1 kept true hw1 (hq.step hst1 htv') (hp.step hst1.mono hf1 htv')
        (fun x hx => by rw [htv1]; exact hsubr x hx) hso1
      refine ⟨?_, ih'.2⟩
      rintro ⟨pe0, hmem, hm, hty⟩
      rcases List.mem_cons.mp hmem with e | e
      · -- the head itself mismatches, yet it was resolved soundly: impossible
        subst e
        have hm1 := hm.mono hst1.mono
        obtain ⟨A, B, ho, hi, hc⟩ := hm1
        unfold SoundE at hsound
        rw [ho, hi, hc] at hsound
        exact hsound.elim
      · apply ih'.1
        refine ⟨pe0, e, hm.mono hst1.mono, ?_⟩
        obtain ⟨A, B, ho, _, _⟩ := hm
        rw [hty, ho, hst1.mono.tout _ _ ho]


/-- one pass followed by writing the slice back, as an `Upd` step -/
theorem pass_upd (im : Impl) (T : Ty) (s : Key) (b b1 : Builder) (kept : List PEdge) (ch1 : Bool)
    (hw : WF b) (hq : Q b T) (hp : PN b)
    (hpr : procEntries im s (b.nodeOut s) (getSlice b.toValidate s) b [] false = .ok (b1, kept, ch1)) :
    Upd im b ({ b1 with toValidate := setSlice b1.toValidate s kept } : Builder) T ∧
    b1.toValidate = b.toValidate := by
  obtain ⟨hw1, hst1, hfr1, htv1, k2, hk, hk2, hall⟩ :=
    procEntries_spec im T s (b.nodeOut s) (getSlice b.toValidate s) b [] false hw hq hp
      (fun _ hx => hx) (Or.inl rfl) b1 kept ch1 hpr
  simp only [List.reverse_nil, List.nil_append] at hk
  subst hk
  refine ⟨⟨hw1, ⟨⟨hst1.mono.tin, hst1.mono.tout, hst1.mono.may⟩, hst1.tin, hst1.tout⟩, hfr1, ?_, ?_⟩, htv1⟩
  · intro s' pe hpe
    by_cases hs' : s' = s
    · subst hs'
      exact hk2 pe (getSlice_setSlice_sub _ _ _ _ hpe)
    · have : pe ∈ getSlice b1.toValidate s' := by
        have hpe' : pe ∈ getSlice (setSlice b1.toValidate s kept) s' := hpe
        rwa [getSlice_setSlice_ne _ _ _ _ hs'] at hpe'
      rwa [htv1] at this
  · intro s' pe hpe
    by_cases hs' : s' = s
    · subst hs'
      rcases hall pe hpe with e | e
      · left
        have hkey : s' ∈ b1.toValidate.map (·.1) := by rw [htv1]; exact mem_getSlice_key hpe
        show pe ∈ getSlice (setSlice b1.toValidate s' kept) s'
        rw [getSlice_setSlice_self _ _ _ hkey]
        exact e
      · right; exact e
    · left
      show pe ∈ getSlice (setSlice b1.toValidate s kept) s'
      rw [getSlice_setSlice_ne _ _ _ _ hs', htv1]
      exact hpe

theorem updRound_noerr (im : Impl) (T : Ty) :
    ∀ (ks : List Key) (b : Builder) (ch : Bool), WF b → Q b T → PN b → ¬ Err im b →
      ∃ r, updRound im ks b ch = .ok r := by
  intro ks
  induction ks with
  | nil => intro b ch _ _ _ _; exact ⟨_, rfl⟩
  | cons s ks ih =>
    intro b ch hw hq hp hne
    obtain ⟨⟨b1, kept, ch1⟩, hpr⟩ := procEntries_noerr im T s (b.nodeOut s) (getSlice b.toValidate s) b [] false
      hw hq hp (fun _ hx => hx) (Or.inl rfl) hne
    obtain ⟨hu, _⟩ := pass_upd im T s b b1 kept ch1 hw hq hp hpr
    simp only [updRound, hpr]
    exact ih _ (ch || ch1) hu.wf (hu.q hq) (hu.pn hp) (noErr_step hq hu.step hu.shrink hne)

theorem updRound_err (im : Impl) (T : Ty) :
    ∀ (ks : List Key) (b : Builder) (ch : Bool), WF b → Q b T → PN b →
      ((∃ s ∈ ks, ∃ pe0 ∈ getSlice b.toValidate s, Mism im b s pe0) →
          updRound im ks b ch = .error .edgeMismatch) ∧
      (∀ k, updRound im ks b ch = .error k → k = .edgeMismatch) := by
  intro ks
  induction ks with
  | nil =>
    intro b ch _ _ _
    exact ⟨fun ⟨s, h, _⟩ => by simp at h, fun k h => by simp [updRound] at h⟩
  | cons k0 ks ih =>
    intro b ch hw hq hp
    have hpe := procEntries_err im T k0 (b.nodeOut k0) (getSlice b.toValidate k0) b [] false hw hq hp
      (fun _ hx => hx) (Or.inl rfl)
    rcases hpr : procEntries im k0 (b.nodeOut k0) (getSlice b.toValidate k0) b [] false with k' | ⟨b1, kept, ch1⟩
    · have hk' := hpe.2 k' hpr
      subst hk'
      simp only [updRound, hpr]
      exact ⟨fun _ => trivial, fun k h => by simpa using h.symm⟩
    · obtain ⟨hu, htv1⟩ := pass_upd im T k0 b b1 kept ch1 hw hq hp hpr
      have ih' := ih _ (ch || ch1) hu.wf (hu.q hq) (hu.pn hp)
      simp only [updRound, hpr]
      refine ⟨?_, ih'.2⟩
      rintro ⟨s, hs, pe0, hpe0, hm⟩
      by_cases hsk : s = k0
      · subst hsk
        have := hpe.1 ⟨pe0, hpe0, hm, rfl⟩
        rw [hpr] at this; simp at this
      · apply ih'.1
        have hs' : s ∈ ks := by
          rcases List.mem_cons.mp hs with e | e
          · exact absurd e hsk
          · exact e
        refine ⟨s, hs', pe0, ?_, hm.mono hu.step.mono⟩
        show pe0 ∈ getSlice (setSlice b1.toValidate k0 kept) s
        rw [getSlice_setSlice_ne _ _ _ _ hsk, htv1]; exact hpe0

/-- **whether `updateToValidateMap` fails is decided by the state it starts from**: it
    returns an error – always the edge type mismatch – iff some pending entry joins two typed
    nodes that cannot be connected; this holds for every iteration order. -/
theorem update_error_iff (im : Impl) (ord : Ord) (hv : ord.Valid) (T : Ty) (b : Builder)
    (hw : WF b) (hq : Q b T) (hp : PN b) :
    (Err im b → update im ord b = .error .edgeMismatch) ∧
    (¬ Err im b → ∃ b', update im ord b = .ok b') := by
  constructor
  · rintro ⟨s, pe0, hpe0, hm⟩
    unfold update
    simp only [updLoop]
    have hk : s ∈ ord.keys b (b.toValidate.map (·.1)) :=
      ((hv.keys b _).mem_iff).mpr (mem_getSlice_key hpe0)
    rw [(updRound_err im T _ b false hw hq hp).1 ⟨s, hk, pe0, hpe0, hm⟩]
  · intro hne
    unfold update
    have : ∀ (fuel : Nat) (b : Builder), WF b → Q b T → PN b → ¬ Err im b → ∃ b', updLoop im ord fuel b = .ok b' := by
      intro fuel
      induction fuel with
      | zero => intro b _ _ _ _; exact ⟨b, rfl⟩
      | succ n ih =>
        intro b hw hq hp hne
        obtain ⟨⟨b1, ch⟩, hr⟩ := updRound_noerr im T (ord.keys b (b.toValidate.map (·.1))) b false hw hq hp hne
        have hu := updRound_spec im T _ b false hw hq hp b1 ch hr
        simp only [updLoop, hr]
        split
        · exact ih b1 hu.wf (hu.q hq) (hu.pn hp) (noErr_step hq hu.step hu.shrink hne)
        · exact ⟨b1, rfl⟩
    exact this _ b hw hq hp hne


/-! ### which nodes get typed: exactly those connected, through pending entries, to a typed
    node of the state the work list starts from -/

inductive Reach (b0 : Builder) : Key → Prop
  | typed {k : Key} : (b0.nodeIn k).isSome = true → Reach b0 k
  | fwd {s : Key} {pe : PEdge} : pe ∈ getSlice b0.toValidate s → Reach b0 s → Reach b0 pe.dst
  | bwd {s : Key} {pe : PEdge} : pe ∈ getSlice b0.toValidate s → Reach b0 pe.dst → Reach b0 s

/-- every node typed so far is reachable -/
def TR (b0 b : Builder) : Prop := ∀ k, (b.nodeIn k).isSome = true → Reach b0 k

theorem WF.in_of_out {b : Builder} (hw : WF b) {k : Key} (h : (b.nodeOut k).isSome = true) :
    (b.nodeIn k).isSome = true := by
  rcases hi : b.nodeIn k with _ | t
  · have := (hw.untyped_iff k).mp hi; rw [this] at h; simp at h
  · rfl

theorem procEntries_reach (im : Impl) (T : Ty) (b0 : Builder) (s : Key) (sTy : Option Ty) :
    ∀ (entries : List PEdge) (b : Builder) (kept : List PEdge) (ch : Bool),
      WF b → Q b T → PN b → (∀ pe ∈ entries, pe ∈ getSlice b.toValidate s) → SOk b s sTy T entries →
      (∀ s' x, x ∈ getSlice b.toValidate s' → x ∈ getSlice b0.toValidate s') → TR b0 b →
      ∀ b' kept' ch', procEntries im s sTy entries b kept ch = .ok (b', kept', ch') → TR b0 b' := by
  intro entries
  induction entries with
  | nil =>
    intro b kept ch _ _ _ _ _ _ htr b' kept' ch' h
    simp only [procEntries, Except.ok.injEq, Prod.mk.injEq] at h
    rw [← h.1]; exact htr
  | cons pe rest ih =>
    intro b kept ch hw hq hp hsub hso h0 htr b' kept' ch' h
    have hsubr : ∀ x ∈ rest, x ∈ getSlice b.toValidate s := fun x hx => hsub x (List.mem_cons_of_mem _ hx)
    rcases procEntries_cons_cases im T s sTy pe rest b kept ch hw hq hp hsub hso with
      ⟨_, _, _, _, _, _, heq⟩ | ⟨_, _, heq⟩ | ⟨b1, heq, hw1, hst1, hf1, htv1, hso1, _, hnew⟩
    · rw [heq] at h; simp at h
    · rw [heq] at h
      exact ih b (pe :: kept) ch hw hq hp hsubr hso.tail h0 htr b' kept' ch' h
    · rw [heq] at h
      have htv' : ∀ s' x, x ∈ getSlice b1.toValidate s' → x ∈ getSlice b.toValidate s' := by
        intro s' x hx; rwa [htv1] at hx
      have htr1 : TR b0 b1 := by
        intro k hk
        rcases hnew k hk with e | ⟨rfl, e⟩ | ⟨rfl, e⟩
        · exact htr k e
        · exact Reach.fwd (h0 s pe (hsub pe List.mem_cons_self)) (htr s (hw.in_of_out e))
        · exact Reach.bwd (h0 _ pe (hsub pe List.mem_cons_self)) (htr _ e)
      exact ih b1 kept true hw1 (hq.step hst1 htv') (hp.step hst1.mono hf1 htv')
        (fun x hx => by rw [htv1]; exact hsubr x hx) hso1 (fun s' x hx => h0 s' x (htv' s' x hx)) htr1 b' kept' ch' h

theorem updRound_reach (im : Impl) (T : Ty) (b0 : Builder) :
    ∀ (ks : List Key) (b : Builder) (ch : Bool), WF b → Q b T → PN b →
      (∀ s' x, x ∈ getSlice b.toValidate s' → x ∈ getSlice b0.toValidate s') → TR b0 b →
      ∀ b' ch', updRound im ks b ch = .ok (b', ch') → TR b0 b' := by
  intro ks
  induction ks with
  | nil =>
    intro b ch _ _ _ _ htr b' ch' h
    simp only [updRound, Except.ok.injEq, Prod.mk.injEq] at h
    rw [← h.1]; exact htr
  | cons s ks ih =>
    intro b ch hw hq hp h0 htr b' ch' h
    simp only [updRound] at h
    rcases hpr : procEntries im s (b.nodeOut s) (getSlice b.toValidate s) b [] false with k | ⟨b1, kept, ch1⟩
    · simp [hpr] at h
    · simp only [hpr] at h
      obtain ⟨hu, _⟩ := pass_upd im T s b b1 kept ch1 hw hq hp hpr
      have htr1 : TR b0 b1 := procEntries_reach im T b0 s (b.nodeOut s) _ b [] false hw hq hp
        (fun _ hx => hx) (Or.inl rfl) h0 htr b1 kept ch1 hpr
      exact ih _ (ch || ch1) hu.wf (hu.q hq) (hu.pn hp)
        (fun s' x hx => h0 s' x (hu.shrink s' x hx)) htr1 b' ch' h

theorem updLoop_reach (im : Impl) (ord : Ord) (T : Ty) (b0 : Builder) :
    ∀ (fuel : Nat) (b : Builder), WF b → Q b T → PN b →
      (∀ s' x, x ∈ getSlice b.toValidate s' → x ∈ getSlice b0.toValidate s') → TR b0 b →
      ∀ b', updLoop im ord fuel b = .ok b' → TR b0 b' := by
  intro fuel
  induction fuel with
  | zero =>
    intro b _ _ _ _ htr b' h
    simp only [updLoop, Except.ok.injEq] at h
    rw [← h]; exact htr
  | succ n ih =>
    intro b hw hq hp h0 htr b' h
    simp only [updLoop] at h
    rcases hr : updRound im (ord.keys b (b.toValidate.map (·.1))) b false with k | ⟨b1, ch⟩
    · simp [hr] at h
    · simp only [hr] at h
      have hu := updRound_spec im T _ b false hw hq hp b1 ch hr
      have htr1 := updRound_reach im T b0 _ b false hw hq hp h0 htr b1 ch hr
      split at h
      · exact ih b1 hu.wf (hu.q hq) (hu.pn hp) (fun s' x hx => h0 s' x (hu.shrink s' x hx)) htr1 b' h
      · simp only [Except.ok.injEq] at h; rw [← h]; exact htr1

/-- **the types `updateToValidateMap` leaves behind are a function of the state it starts
    from** (whatever the iteration order): known types stay; an untyped node ends up typed –
    with `T` – exactly when pending entries connect it to a typed node; the entries that stay
    pending are exactly those joining two nodes that are still untyped. -/
theorem update_types (im : Impl) (ord : Ord) (hv : ord.Valid) (T : Ty) (b0 b' : Builder)
    (hw : WF b0) (hq : Q b0 T) (hp : PN b0) (h : update im ord b0 = .ok b') :
    (∀ k, (b'.nodeIn k).isSome = true ↔ Reach b0 k) ∧
    (∀ k, b'.nodeIn k = if (b0.nodeIn k).isSome then b0.nodeIn k else
            if (b'.nodeIn k).isSome then some T else none) ∧
    (∀ k, b'.nodeOut k = if (b0.nodeOut k).isSome then b0.nodeOut k else
            if (b'.nodeOut k).isSome then some T else none) ∧
    (∀ s x, x ∈ getSlice b'.toValidate s ↔
        (x ∈ getSlice b0.toValidate s ∧ b'.nodeOut s = none ∧ b'.nodeIn x.dst = none)) := by
  obtain ⟨hu, hi2, _⟩ := update_spec im ord hv T b0 b' hw hq hp h
  have hup : TR b0 b' := updLoop_reach im ord T b0 _ b0 hw hq hp (fun _ _ hx => hx)
    (fun k hk => Reach.typed hk) b' h
  have hlow : ∀ k, Reach b0 k → (b'.nodeIn k).isSome = true := by
    intro k hr
    induction hr with
    | @typed k0 hk =>
      rcases hk0 : b0.nodeIn k0 with _ | t
      · rw [hk0] at hk; simp at hk
      · rw [hu.step.mono.tin _ _ hk0]; rfl
    | @fwd s0 pe0 hpe _ ih =>
      rcases hu.resolved s0 pe0 hpe with r | r
      · -- still pending: both ends untyped – but the start is typed
        have := (hi2 s0 pe0 r).1
        have hin := (hu.wf.untyped_iff s0).mpr this
        rw [hin] at ih; simp at ih
      · obtain ⟨_, B, _, hB⟩ := r.typed
        rw [hB]; rfl
    | @bwd s0 pe0 hpe _ ih =>
      rcases hu.resolved s0 pe0 hpe with r | r
      · have := (hi2 s0 pe0 r).2
        rw [this] at ih; simp at ih
      · obtain ⟨A, _, hA, _⟩ := r.typed
        exact hu.wf.in_of_out (by rw [hA]; rfl)
  refine ⟨fun k => ⟨hup k, hlow k⟩, ?_, ?_, ?_⟩
  · intro k
    rcases h0 : b0.nodeIn k with _ | t
    · simp only [Option.isSome_none, Bool.false_eq_true, ↓reduceIte]
      rcases hu.step.tin k with e | e
      · rw [e, h0]; simp
      · rw [e]; simp
    · simp only [Option.isSome_some, ↓reduceIte]
      exact hu.step.mono.tin _ _ h0
  · intro k
    rcases h0 : b0.nodeOut k with _ | t
    · simp only [Option.isSome_none, Bool.false_eq_true, ↓reduceIte]
      rcases hu.step.tout k with e | e
      · rw [e, h0]; simp
      · rw [e]; simp
    · simp only [Option.isSome_some, ↓reduceIte]
      exact hu.step.mono.tout _ _ h0
  · intro s x
    constructor
    · intro hx
      exact ⟨hu.shrink s x hx, (hi2 s x hx).1, (hi2 s x hx).2⟩
    · rintro ⟨hx, ho, hi⟩
      rcases hu.resolved s x hx with r | r
      · exact r
      · obtain ⟨A, _, hA, _⟩ := r.typed
        rw [ho] at hA; simp at hA


/-! ### two builder states that no call can tell apart -/

/-- the fields every check reads directly -/
def Builder.simFrame (b : Builder) :=
  (b.cmp, b.inT, b.outT, b.stateTy, b.controlEdges, b.dataEdges, b.branches, b.fmRecords, b.compiled,
   b.preNode, b.nodes.map (fun n => (n.key, n.passthrough)), b.startNodes.isEmpty, b.endNodes.isEmpty)

theorem Frame.simFrame {b c : Builder} (h : Frame b c) : c.simFrame = b.simFrame := by
  simp only [Frame, Builder.frame, Prod.mk.injEq] at h
  obtain ⟨h1, h2, h3, h4, h5, h6, h7, h8, h9, h10, h11, h12, h13, h14, h15, h16⟩ := h
  simp only [Builder.simFrame, h1, h2, h3, h4, h5, h6, h7, h8, h9, h10, h13, h15, h16]

/-- same directly-read fields, same type of every node, same *set* of pending entries, no
    stored error: the two states may differ in the order of work-list slices, of the start/end
    node lists and in the recorded run-time checks – nothing a later call's outcome depends on -/
structure Sim (b b' : Builder) : Prop where
  fr : b'.simFrame = b.simFrame
  err : b.buildError = none ∧ b'.buildError = none
  tin : ∀ k, b'.nodeIn k = b.nodeIn k
  tout : ∀ k, b'.nodeOut k = b.nodeOut k
  pend : ∀ s x, x ∈ getSlice b'.toValidate s ↔ x ∈ getSlice b.toValidate s

theorem Sim.keys {b b' : Builder} (h : Sim b b') :
    b'.nodes.map (fun n => (n.key, n.passthrough)) = b.nodes.map (fun n => (n.key, n.passthrough)) := by
  have := h.fr; simp only [Builder.simFrame, Prod.mk.injEq] at this; exact this.2.2.2.2.2.2.2.2.2.2.1

theorem Sim.hasNode {b b' : Builder} (h : Sim b b') (k : Key) : b'.hasNode k = b.hasNode k :=
  (findNode_isSome_of_keys h.keys k).1

theorem Sim.isPassthrough {b b' : Builder} (h : Sim b b') (k : Key) :
    EinoV.Build.isPassthrough b' k = EinoV.Build.isPassthrough b k := by
  have := (findNode_isSome_of_keys h.keys k).2
  unfold EinoV.Build.isPassthrough
  rcases h1 : findNode b'.nodes k with _ | n1 <;> rcases h2 : findNode b.nodes k with _ | n2 <;> simp_all

theorem Reach.sim {b b' : Builder} (ht : ∀ k, b'.nodeIn k = b.nodeIn k)
    (hp : ∀ s x, x ∈ getSlice b'.toValidate s ↔ x ∈ getSlice b.toValidate s) {k : Key} (h : Reach b k) :
    Reach b' k := by
  induction h with
  | typed hk => exact Reach.typed (by rw [ht]; exact hk)
  | fwd hpe _ ih => exact Reach.fwd ((hp _ _).mpr hpe) ih
  | bwd hpe _ ih => exact Reach.bwd ((hp _ _).mpr hpe) ih

theorem Sim.reach {b b' : Builder} (h : Sim b b') (k : Key) : Reach b' k ↔ Reach b k :=
  ⟨Reach.sim (fun k => (h.tin k).symm) (fun s x => (h.pend s x).symm),
   Reach.sim h.tin h.pend⟩

theorem Sim.err_iff {im : Impl} {b b' : Builder} (h : Sim b b') : Err im b' ↔ Err im b := by
  constructor
  · rintro ⟨s, pe, hpe, A, B, h1, h2, h3⟩
    exact ⟨s, pe, (h.pend s pe).mp hpe, A, B, by rw [← h.tout]; exact h1, by rw [← h.tin]; exact h2, h3⟩
  · rintro ⟨s, pe, hpe, A, B, h1, h2, h3⟩
    exact ⟨s, pe, (h.pend s pe).mpr hpe, A, B, by rw [h.tout]; exact h1, by rw [h.tin]; exact h2, h3⟩

theorem Sim.q {b b' : Builder} (h : Sim b b') {T : Ty} (hq : Q b T) : Q b' T := by
  intro s pe hpe
  have := hq s pe ((h.pend s pe).mp hpe)
  rw [h.tout, h.tin]; exact this

/-- **`updateToValidateMap` cannot tell two such states apart, whatever the two iteration
    orders**: it fails on both or on neither, and the results are again indistinguishable. -/
theorem update_sim (im : Impl) (ord ord' : Ord) (hv : ord.Valid) (hv' : ord'.Valid) (T : Ty)
    (b b' : Builder) (hs : Sim b b') (hw : WF b) (hw' : WF b') (hq : Q b T) (hp : PN b) (hp' : PN b') :
    (update im ord b = .error .edgeMismatch ∧ update im ord' b' = .error .edgeMismatch) ∨
    (∃ c c', update im ord b = .ok c ∧ update im ord' b' = .ok c' ∧ Sim c c') := by
  have hq' : Q b' T := hs.q hq
  by_cases he : Err im b
  · left
    exact ⟨(update_error_iff im ord hv T b hw hq hp).1 he,
           (update_error_iff im ord' hv' T b' hw' hq' hp').1 (hs.err_iff.mpr he)⟩
  · right
    obtain ⟨c, hc⟩ := (update_error_iff im ord hv T b hw hq hp).2 he
    obtain ⟨c', hc'⟩ := (update_error_iff im ord' hv' T b' hw' hq' hp').2 (fun h => he (hs.err_iff.mp h))
    refine ⟨c, c', hc, hc', ?_⟩
    obtain ⟨hu, _, _⟩ := update_spec im ord hv T b c hw hq hp hc
    obtain ⟨hu', _, _⟩ := update_spec im ord' hv' T b' c' hw' hq' hp' hc'
    obtain ⟨t1, t2, t3, t4⟩ := update_types im ord hv T b c hw hq hp hc
    obtain ⟨t1', t2', t3', t4'⟩ := update_types im ord' hv' T b' c' hw' hq' hp' hc'
    have hin : ∀ k, c'.nodeIn k = c.nodeIn k := by
      intro k
      have hiff : (c'.nodeIn k).isSome = (c.nodeIn k).isSome := by
        have a := t1 k; have a' := t1' k; have r := hs.reach k
        rcases h1 : (c'.nodeIn k).isSome <;> rcases h2 : (c.nodeIn k).isSome
        · rfl
        · exact absurd (a'.mpr (r.mpr (a.mp h2))) (by rw [h1]; simp)
        · exact absurd (a.mpr (r.mp (a'.mp h1))) (by rw [h2]; simp)
        · rfl
      rw [t2' k, t2 k, hs.tin k, hiff]
    have hout : ∀ k, c'.nodeOut k = c.nodeOut k := by
      intro k
      have hiff : (c'.nodeOut k).isSome = (c.nodeOut k).isSome := by
        have e1 : (c'.nodeOut k).isSome = (c'.nodeIn k).isSome := by
          rcases h1 : c'.nodeIn k with _ | t
          · rw [(hu'.wf.untyped_iff k).mp h1]
          · rcases h2 : c'.nodeOut k with _ | t'
            · rw [(hu'.wf.untyped_iff k).mpr h2] at h1; simp at h1
            · rfl
        have e2 : (c.nodeOut k).isSome = (c.nodeIn k).isSome := by
          rcases h1 : c.nodeIn k with _ | t
          · rw [(hu.wf.untyped_iff k).mp h1]
          · rcases h2 : c.nodeOut k with _ | t'
            · rw [(hu.wf.untyped_iff k).mpr h2] at h1; simp at h1
            · rfl
        rw [e1, e2, hin k]
      rw [t3' k, t3 k, hs.tout k, hiff]
    refine ⟨?_, ?_, hin, hout, ?_⟩
    · rw [hu'.frame.simFrame, hu.frame.simFrame]; exact hs.fr
    · have f1 : c.buildError = b.buildError := by
        have := hu.frame; simp only [Frame, Builder.frame, Prod.mk.injEq] at this; exact this.2.2.2.2.2.2.2.2.2.2.2.2.2.1
      have f2 : c'.buildError = b'.buildError := by
        have := hu'.frame; simp only [Frame, Builder.frame, Prod.mk.injEq] at this; exact this.2.2.2.2.2.2.2.2.2.2.2.2.2.1
      rw [f1, f2]; exact hs.err
    · intro s x
      rw [t4' s x, t4 s x, hs.pend s x, hout s, hin x.dst]

end EinoV.Build
