/-
  More loop lemmas for the forms `gotrans` produces in the channel manager: folds that hold under an
  invariant, filtering loops, loops that leave with `return` (the state carries an `Option`).
-/
import EinoV.Proofs.GoLoop
import EinoV.Proofs.Assoc
namespace EinoV.GoSem
open EinoV.Engine
theorem goLoop_fold_inv {α β γ : Type} (P : β → Prop) (Q : α → Prop) (h : β → γ) (f : α → β → ForInStep β)
    (g : γ → α → γ)
    (hf : ∀ a b, Q a → P b → ∃ b', f a b = .yield b' ∧ P b' ∧ h b' = g (h b) a)
    (l : List α) (hl : ∀ a ∈ l, Q a) (b : β) (hb : P b) :
    P (goLoop f l b) ∧ h (goLoop f l b) = l.foldl g (h b) := by
  induction l generalizing b with
  | nil => exact ⟨hb, rfl⟩
  | cons a l ih =>
    obtain ⟨b', e, hb', he⟩ := hf a b (hl a (List.mem_cons_self ..)) hb
    simp only [goLoop, e, List.foldl_cons]
    rw [← he]
    exact ih (fun x hx => hl x (List.mem_cons_of_mem _ hx)) b' hb'

theorem goLoop_filter_snd {α γ : Type} (p : α → Bool) (u : α → γ) (l : List α) (b0 : γ) (acc : List α) :
    (goLoop (fun a (s : γ × List α) => if p a = true then ForInStep.yield (u a, s.snd ++ [a]) else ForInStep.yield (u a, s.snd)) l (b0, acc)).snd
      = acc ++ l.filter p := by
  induction l generalizing b0 acc with
  | nil => simp [goLoop]
  | cons a l ih =>
    by_cases h : p a = true
    · simp [goLoop, h, ih]
    · simp [goLoop, h, ih]
/-- building a map from the entries of a map (one entry per key) that pass a test: `m2[k] = v` -/
theorem goLoop_set_filter {β γ ρ : Type} (p : String × β → Bool) (u : String × β → γ) (l : GoMap β) (b0 : γ)
    (acc : GoMap β) (h : ((acc ++ l).map (·.1)).Nodup) :
    goLoop (fun x (s : Option ρ × γ × GoMap β) =>
        if p x = true then ForInStep.yield (none, u x, s.2.2.set x.1 x.2) else ForInStep.yield (none, u x, s.2.2))
      l (none, b0, acc) = (none, l.foldl (fun _ x => u x) b0, acc ++ l.filter p) := by
  induction l generalizing b0 acc with
  | nil => simp [goLoop]
  | cons a l ih =>
    have hfresh : a.1 ∉ akeys acc := by
      simp only [List.map_append, List.map_cons, List.nodup_append, List.mem_cons] at h
      intro hm; exact (h.2.2 a.1 hm a.1 (Or.inl rfl)) rfl
    by_cases hp : p a = true
    · simp only [goLoop, hp, if_true, List.foldl_cons, List.filter_cons_of_pos hp]
      rw [ih]
      · simp [GoMap.set, aset_append_new _ _ _ hfresh]
      · simp only [GoMap.set, aset_append_new _ _ _ hfresh]
        simpa [List.map_append] using h
    · simp only [goLoop, hp, Bool.false_eq_true, if_false, List.foldl_cons, List.filter_cons_of_neg hp]
      rw [ih]
      simp only [List.map_append, List.map_cons, List.nodup_append, List.mem_cons, List.nodup_cons] at h ⊢
      refine ⟨h.1, h.2.1.2, fun x hx y hy => h.2.2 x hx y (Or.inr hy)⟩
end EinoV.GoSem
