/-
  C01 "shared builders" family (Model/C01Share.lean): with the mechanism fact `builderIntact`, what an
  `Append*` call contributes to the graph depends only on the stage description and the position, so
  every run of a compiled chain of a program is the composition of that chain's own stages, whatever
  else was built from the same builder objects and in whatever order.
-/
import EinoV.Model.C01Share
import EinoV.Proofs.C01Chain

namespace EinoV.Chain.Share
open EinoV.Engine EinoV.Chain

theorem condIdx_intact (m : Mech) (hm : m.builderIntact = true) (h : Heap) (o : Option Nat) (i : Nat) :
    condIdx m h o i = i := by
  simp [condIdx, hm]

theorem stageBranchesS_intact (m : Mech) (hm : m.builderIntact = true) (h : Heap) (i : Nat)
    (pre : List Key) (ts : TStage) : stageBranchesS m h i pre ts = stageBranches i pre ts.2 := by
  obtain ⟨o, st⟩ := ts
  cases st <;> simp [stageBranchesS, stageBranches, lowerBranch, condIdx_intact m hm]

theorem lowerFromS_intact (m : Mech) (hm : m.builderIntact = true) (h : Heap) :
    ∀ (ts : List TStage) (i : Nat) (pre : List Key), lowerFromS m h i pre ts = lowerFrom i pre (untag ts)
  | [], i, pre => by simp [lowerFromS, lowerFrom, untag]
  | t :: rest, i, pre => by
    have ih := lowerFromS_intact m hm h rest (i + 1) (stageKeys i t.2)
    simp only [untag] at ih
    simp only [lowerFromS, lowerFrom, untag, List.map_cons, ih, stageBranchesS_intact m hm]

/-- the graph an append sequence builds does not depend on the identity or the history of the
    builder objects -/
theorem lowerS_intact (m : Mech) (hm : m.builderIntact = true) (h : Heap) (ts : List TStage) :
    lowerS m h ts = lower (untag ts) := by
  simp only [lowerS, lower, lowerFromS_intact m hm]

theorem execT_intact (m : Mech) (hm : m.builderIntact = true) (slack : Nat) (h : Heap) (ts : List TStage) :
    execT m slack h ts = (untag ts).exec slack := by
  funext x
  simp only [execT, Chain.exec, Chain.runner, lowerS_intact m hm]

theorem resolveStage_heap (m : Mech) (hm : m.builderIntact = true) (slack : Nat) (h h' : Heap)
    (pool : List Stage) (env : List RChain) (s : SStage) :
    resolveStage m slack h pool env s = resolveStage m slack h' pool env s := by
  cases s with
  | own st => rfl
  | shared o => rfl
  | sub j =>
    simp only [resolveStage]
    cases env[j]? with
    | none => rfl
    | some rc => simp only [execT_intact m hm]

theorem resolveChain_heap (m : Mech) (hm : m.builderIntact = true) (slack : Nat) (h h' : Heap)
    (pool : List Stage) (env : List RChain) (ss : List SStage) :
    resolveChain m slack h pool env ss = resolveChain m slack h' pool env ss := by
  have : ss.map (resolveStage m slack h pool env) = ss.map (resolveStage m slack h' pool env) :=
    List.map_congr_left (fun s _ => resolveStage_heap m hm slack h h' pool env s)
  simp only [resolveChain, this]

theorem resolveAll_heap (m : Mech) (hm : m.builderIntact = true) (slack : Nat) (h h' : Heap)
    (pool : List Stage) : ∀ (cs : List (List SStage)) (env : List RChain),
    resolveAll m slack h pool env cs = resolveAll m slack h' pool env cs
  | [], _ => rfl
  | ss :: rest, env => by
    simp only [resolveAll, resolveChain_heap m hm slack h h' pool env ss]
    exact resolveAll_heap m hm slack h h' pool rest _

/-- the resolved chains of a program do not depend on the state of the builder objects -/
theorem resolved_heap (m : Mech) (hm : m.builderIntact = true) (slack : Nat) (h h' : Heap) (p : Prog) :
    p.resolved m slack h = p.resolved m slack h' :=
  resolveAll_heap m hm slack h h' p.pool p.chains []

theorem wf_of_wfB (c : Chain) (h : wfB c = true) : c.WF := by
  simp only [wfB, Bool.and_eq_true, Bool.not_eq_true', List.isEmpty_eq_false_iff] at h
  exact ⟨h.1.1, h.1.2, (nodupB_iff _).mp h.2⟩

theorem wfB_of_wf (c : Chain) (h : c.WF) : wfB c = true := by
  simp only [wfB, Bool.and_eq_true, Bool.not_eq_true', List.isEmpty_eq_false_iff]
  exact ⟨⟨h.1, h.2.1⟩, (nodupB_iff _).mpr h.2.2⟩

/-- a run of a compiled chain of a program, in any state of the program -/
theorem run_is_sem (m : Mech) (hm : m.builderIntact = true) (slack : Nat) (p : Prog) (s : St)
    (c : Nat) (x : CVal) (rc : RChain)
    (hrc : (p.resolved m slack [])[c]? = some rc) (hwf : rc.chain.WF) (hc : s.compiled.contains c = true) :
    (step m slack p s (.run c x)).2 = .ran (rc.chain.sem x) := by
  have hr : (p.resolved m slack s.heap)[c]? = some rc := by
    rw [resolved_heap m hm slack s.heap [] p]; exact hrc
  simp only [step, hr, hc, if_true, execT_intact m hm, RChain.chain] at *
  rw [chain_is_composition slack _ hwf x]

/-- no operation un-compiles a chain -/
theorem step_compiled_mono (m : Mech) (slack : Nat) (p : Prog) (s : St) (op : Op) (c : Nat)
    (hc : s.compiled.contains c = true) : (step m slack p s op).1.compiled.contains c = true := by
  cases op with
  | build k =>
    simp only [step]
    split
    · split <;> simp_all
    · exact hc
  | compile k =>
    simp only [step]
    split
    · split
      · split
        · simp only [List.contains_cons, Bool.or_eq_true]; exact Or.inr hc
        · exact hc
      · exact hc
    · exact hc
  | run k x =>
    simp only [step]
    split
    · split <;> exact hc
    · exact hc

theorem after_compiled_mono (m : Mech) (slack : Nat) (p : Prog) (c : Nat) :
    ∀ (ops : List Op) (s : St), s.compiled.contains c = true →
      (after m slack p s ops).compiled.contains c = true
  | [], _, hc => hc
  | op :: rest, s, hc => after_compiled_mono m slack p c rest _ (step_compiled_mono m slack p s op c hc)

/-- `Compile` accepts a chain whose `Append*` calls were issued exactly when it is well-formed
    and so is every chain it uses as a node -/
theorem compile_out (m : Mech) (hm : m.builderIntact = true) (slack : Nat) (p : Prog) (s : St)
    (c : Nat) (rc : RChain) (hrc : (p.resolved m slack [])[c]? = some rc)
    (hb : s.built.contains c = true) :
    (step m slack p s (.compile c)).2 = .compiled rc.accepted := by
  have hr : (p.resolved m slack s.heap)[c]? = some rc := by
    rw [resolved_heap m hm slack s.heap [] p]; exact hrc
  simp only [step, hr, hb, if_true]

end EinoV.Chain.Share
