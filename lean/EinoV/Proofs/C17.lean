/-
  C17 — helper lemmas (no property statements here; those are in EinoV/Props/C17.lean).
-/
import EinoV.Model.C17

namespace EinoV.C17

/-! ### mapM in `Except` -/

theorem mapM_congr' {ε α β : Type} {f g : α → Except ε β} :
    ∀ (l : List α), (∀ x ∈ l, f x = g x) → l.mapM f = l.mapM g
  | [], _ => rfl
  | x :: xs, h => by
    simp only [List.mapM_cons]
    rw [h x (by simp), mapM_congr' xs (fun y hy => h y (by simp [hy]))]

theorem mapM_ok_map {ε α β : Type} {f : α → Except ε β} {g : α → β} :
    ∀ (l : List α), (∀ x ∈ l, f x = .ok (g x)) → l.mapM f = .ok (l.map g)
  | [], _ => rfl
  | x :: xs, h => by
    simp only [List.mapM_cons, List.map_cons]
    rw [h x (by simp), mapM_ok_map xs (fun y hy => h y (by simp [hy]))]
    rfl

theorem mapM_first_error {ε α β : Type} {f : α → Except ε β} {e : ε} :
    ∀ (pre : List α) (x : α) (post : List α), (∀ y ∈ pre, ∃ b, f y = .ok b) → f x = .error e →
      (pre ++ x :: post).mapM f = .error e
  | [], x, post, _, hx => by
    simp only [List.nil_append, List.mapM_cons]; rw [hx]; rfl
  | y :: pre, x, post, h, hx => by
    simp only [List.cons_append, List.mapM_cons]
    obtain ⟨b, hb⟩ := h y (by simp)
    rw [hb, mapM_first_error pre x post (fun z hz => h z (by simp [hz])) hx]
    rfl

theorem mapM_error_mem {ε α β : Type} {f : α → Except ε β} {e : ε} :
    ∀ (l : List α), l.mapM f = .error e → ∃ x ∈ l, f x = .error e
  | [], h => by simp [List.mapM_nil, pure, Except.pure] at h
  | x :: xs, h => by
    simp only [List.mapM_cons] at h
    cases hx : f x with
    | error e' =>
      rw [hx] at h
      have : e' = e := by simpa [bind, Except.bind] using h
      exact ⟨x, by simp, by rw [hx, this]⟩
    | ok b =>
      rw [hx] at h
      cases hxs : xs.mapM f with
      | error e' =>
        rw [hxs] at h
        have : e' = e := by simpa [bind, Except.bind] using h
        obtain ⟨y, hy, hfy⟩ := mapM_error_mem xs (this ▸ hxs)
        exact ⟨y, by simp [hy], hfy⟩
      | ok bs => rw [hxs] at h; simp [bind, Except.bind, pure, Except.pure] at h

theorem range_split {j n : Nat} (h : j < n) :
    ∃ post, List.range n = List.range j ++ j :: post := by
  obtain ⟨k, rfl⟩ : ∃ k, n = j + (k + 1) := ⟨n - j - 1, by omega⟩
  refine ⟨((List.range k).map Nat.succ).map (j + ·), ?_⟩
  rw [List.range_add, List.range_succ_eq_map]
  simp only [List.map_cons, Nat.add_zero]

theorem mapM_range_ok {ε β : Type} {f : Nat → Except ε β} {g : Nat → β} (n : Nat)
    (h : ∀ i, i < n → f i = .ok (g i)) : (List.range n).mapM f = .ok ((List.range n).map g) :=
  mapM_ok_map _ (fun x hx => h x (by simpa using hx))

theorem mapM_range_error {ε β : Type} {f : Nat → Except ε β} {e : ε} {j n : Nat}
    (hj : j < n) (h : ∀ i, i < j → ∃ b, f i = .ok b) (he : f j = .error e) :
    (List.range n).mapM f = .error e := by
  obtain ⟨post, hp⟩ := range_split hj
  rw [hp]
  exact mapM_first_error _ _ _ (fun y hy => h y (by simpa using hy)) he


theorem mapM_range'_list_ok {ε γ β : Type} {f : Nat → Except ε β} {w : γ → β} :
    ∀ (l : List γ) (s : Nat), (∀ i (h : i < l.length), f (s + i) = .ok (w l[i])) →
      (List.range' s l.length).mapM f = .ok (l.map w)
  | [], _, _ => rfl
  | c :: l, s, h => by
    simp only [List.length_cons, List.range'_succ, List.mapM_cons, List.map_cons]
    have h0 := h 0 (by simp)
    simp only [Nat.add_zero, List.getElem_cons_zero] at h0
    rw [h0, mapM_range'_list_ok l (s + 1) (fun i hi => by
      have := h (i + 1) (by simp; omega)
      simpa [Nat.add_assoc, Nat.add_comm 1 i] using this)]
    rfl

theorem mapM_range_list_ok {ε γ β : Type} {f : Nat → Except ε β} {w : γ → β} (l : List γ)
    (h : ∀ i (h : i < l.length), f i = .ok (w l[i])) :
    (List.range l.length).mapM f = .ok (l.map w) := by
  rw [List.range_eq_range']
  exact mapM_range'_list_ok l 0 (fun i hi => by simpa using h i hi)

/-! ### runAll: the state after all runners completed, for any completion order -/

/-- the facts the theorems are about: by-index storage, recover, task passed as argument -/
def Facts.Good (F : Facts) : Prop :=
  F.storeByIndex = true ∧ F.goroutineRecovers = true ∧ F.taskPassedAsArg = true

/-- what runner `i` leaves in its slot -/
def settle {α : Type} (i : Nat) : Out α → Option (Except ToolErr α)
  | .ok a => some (.ok a)
  | .err e => some (.error e)
  | .panic p => if i == 0 then none else some (.error (.panicked p))

/-- invariant of the run: `S` = the runners that have completed so far -/
structure Inv {α : Type} (exec : Nat → Out α) (n : Nat) (st : RunState α) (S : List Nat) : Prop where
  len : st.slots.length = n
  crashed : st.crashed = false
  slot : ∀ i, i < n → st.slots[i]? = some (if i ∈ S then settle i (exec i) else none)
  esc : st.escaped = if 0 ∈ S then panicOf (exec 0) else none

theorem inv_init {α : Type} (F : Facts) (hF : F.Good) (exec : Nat → Out α) (n : Nat) :
    Inv exec n (RunState.init F α n) [] := by
  obtain ⟨h1, _, _⟩ := hF
  refine ⟨by simp [RunState.init, h1], rfl, ?_, by simp [RunState.init]⟩
  intro i hi
  simp [RunState.init, h1, hi]

theorem inv_store {α : Type} {F : Facts} (hF : F.Good) {exec : Nat → Out α} {n : Nat}
    {st : RunState α} {S : List Nat} (h : Inv exec n st S) {x : Nat} (hx : x < n)
    (r : Except ToolErr α) (hr : settle x (exec x) = some r)
    (hesc : x = 0 → panicOf (exec 0) = none) :
    Inv exec n (store F x r st) (x :: S) := by
  obtain ⟨h1, _, _⟩ := hF
  refine ⟨by simp [store, h1, h.len], by simp [store, h.crashed], ?_, ?_⟩
  · intro i hi
    simp only [store, h1, if_true, List.getElem?_set, List.mem_cons]
    by_cases hxi : x = i
    · subst hxi; simp [h.len, hx, hr]
    · have : ¬ i = x := fun e => hxi e.symm
      simp [hxi, this, h.slot i hi]
  · simp only [store, h.esc, List.mem_cons]
    by_cases h0 : x = 0
    · subst h0; simp [hesc rfl]
    · have : ¬ 0 = x := fun e => h0 e.symm
      simp [this]

theorem inv_finish {α : Type} {F : Facts} (hF : F.Good) {exec : Nat → Out α} {seen : Nat → Nat}
    {n : Nat} {st : RunState α} {S : List Nat} (h : Inv exec n st S) {x : Nat} (hx : x < n) :
    Inv exec n (finish F exec seen st x) (x :: S) := by
  have ht : target F seen x = x := by simp [target, hF.2.2]
  unfold finish
  simp only [ht]
  cases hex : exec x with
  | ok a =>
    exact inv_store hF h hx _ (by simp [settle, hex]) (by intro h0; subst h0; simp [panicOf, hex])
  | err e =>
    exact inv_store hF h hx _ (by simp [settle, hex]) (by intro h0; subst h0; simp [panicOf, hex])
  | panic p =>
    by_cases h0 : x = 0
    · subst h0
      simp only [BEq.rfl, if_true]
      refine ⟨h.len, h.crashed, ?_, ?_⟩
      · intro i hi
        simp only [List.mem_cons]
        by_cases hi0 : i = 0
        · subst hi0; simp [settle, hex, h.slot 0 hi]
        · simp [hi0, h.slot i hi]
      · simp only [h.esc, List.mem_cons, true_or, if_true, panicOf, hex]
        split <;> simp
    · have hb : (x == 0) = false := by simp [h0]
      simp only [hb, hF.2.1, if_true, Bool.false_eq_true, if_false]
      exact inv_store hF h hx _ (by simp [settle, hex, h0]) (by intro e; exact absurd e h0)

theorem inv_foldl {α : Type} {F : Facts} (hF : F.Good) {exec : Nat → Out α} {seen : Nat → Nat}
    {n : Nat} : ∀ (σ : List Nat) (st : RunState α) (S : List Nat), Inv exec n st S →
      (∀ x ∈ σ, x < n) → Inv exec n (σ.foldl (finish F exec seen) st) (σ.reverse ++ S)
  | [], st, S, h, _ => by simpa using h
  | x :: σ, st, S, h, hσ => by
    have := inv_foldl (seen := seen) hF σ (finish F exec seen st x) (x :: S)
      (inv_finish hF h (hσ x (by simp))) (fun y hy => hσ y (by simp [hy]))
    simpa using this


/-- **σ-independence.** With the shipped facts, whatever the completion order, the run
    ends in the state the by-index specification describes. -/
theorem conclude_runAll {α β : Type} {F : Facts} (hF : F.Good) (mk : Nat → α → β)
    (exec : Nat → Out α) (seen : Nat → Nat) (n : Nat) (σ : List Nat)
    (hσ : σ.Perm (List.range n)) :
    conclude mk (runAll F exec seen n σ) = specRun mk exec n := by
  have hmem : ∀ x, x ∈ σ ↔ x < n := fun x => by rw [hσ.mem_iff]; simp
  have inv := inv_foldl (seen := seen) hF σ _ [] (inv_init F hF exec n) (fun x hx => (hmem x).1 hx)
  have hS : ∀ i, i ∈ σ.reverse ++ [] ↔ i < n := fun i => by simp [hmem]
  unfold conclude specRun runAll
  rw [inv.crashed, inv.esc]
  simp only [Bool.false_eq_true, if_false, hS]
  have hc : (if 0 < n then panicOf (exec 0) else none) = (if n = 0 then none else panicOf (exec 0)) := by
    by_cases h0 : n = 0
    · simp [h0]
    · have : 0 < n := by omega
      simp [h0, this]
  rw [hc]
  cases hp : (if n = 0 then none else panicOf (exec 0)) with
  | some p => rfl
  | none =>
    simp only
    have : assemble mk (List.foldl (finish F exec seen) (RunState.init F α n) σ).slots
        = (List.range n).mapM (specStep mk exec) := by
      unfold assemble
      rw [inv.len]
      apply mapM_congr'
      intro i hi
      have hi' : i < n := by simpa using hi
      rw [inv.slot i hi']
      simp only [(hS i).2 hi', if_true]
      unfold specStep
      cases hex : exec i with
      | ok a => simp [settle]
      | err e => simp [settle]
      | panic p =>
        by_cases h0 : i = 0
        · subst h0
          have : n ≠ 0 := by omega
          simp [this, panicOf, hex] at hp
        · simp [settle, h0]
    rw [this]


/-! ### genToolCallTasks -/

/-- the task made for a call answered by tool `t` -/
def taskFor (g : Call → Tool) (c : Call) : Task := ⟨c.id, c.args, g c⟩

theorem genTask_ok {F : Facts} (hH : F.handlerConsulted = true) {tools : List (String × Tool)}
    {handler : Option Handler} {c : Call} {t : Tool} (h : resolve tools handler c = some t) :
    genTask F tools handler c = .ok ⟨c.id, c.args, t⟩ := by
  unfold resolve at h
  unfold genTask
  cases hl : lookup tools c.name with
  | some t' => simp [hl] at h; simp [h]
  | none =>
    simp only [hl, Option.map_eq_some_iff] at h
    obtain ⟨hh, hhs, rfl⟩ := h
    simp [hH, hhs]

theorem genTask_unknown {F : Facts} {tools : List (String × Tool)} {handler : Option Handler}
    {c : Call} (h : resolve tools handler c = none) :
    genTask F tools handler c = .error (.unknownTool c.name) := by
  unfold resolve at h
  unfold genTask
  cases hl : lookup tools c.name with
  | some t' => simp [hl] at h
  | none =>
    simp only [hl, Option.map_eq_none_iff] at h
    subst h
    simp

theorem genTasks_ok {F : Facts} (hH : F.handlerConsulted = true) {tools : List (String × Tool)}
    {handler : Option Handler} {calls : List Call} (hne : calls ≠ []) (g : Call → Tool)
    (hres : ∀ c ∈ calls, resolve tools handler c = some (g c)) :
    genTasks F tools handler true calls = .ok (calls.map (taskFor g)) := by
  unfold genTasks
  have : calls.isEmpty = false := by cases calls <;> simp_all
  simp only [Bool.not_true, Bool.false_eq_true, if_false, this]
  exact mapM_ok_map calls (fun c hc => by rw [genTask_ok hH (hres c hc)]; rfl)

theorem genTasks_unknown {F : Facts} (hH : F.handlerConsulted = true) {tools : List (String × Tool)}
    {handler : Option Handler} (pre : List Call) (c : Call) (post : List Call)
    (hpre : ∀ c' ∈ pre, (resolve tools handler c').isSome) (hc : resolve tools handler c = none) :
    genTasks F tools handler true (pre ++ c :: post) = .error (.unknownTool c.name) := by
  unfold genTasks
  have : (pre ++ c :: post).isEmpty = false := by cases pre <;> simp
  simp only [Bool.not_true, Bool.false_eq_true, if_false, this]
  refine mapM_first_error pre c post (fun y hy => ?_) (genTask_unknown hc)
  obtain ⟨t, ht⟩ := Option.isSome_iff_exists.1 (hpre y hy)
  exact ⟨_, genTask_ok hH ht⟩

theorem execWith_taskFor {α : Type} (run : Tool → String → Out α) (g : Call → Tool)
    (calls : List Call) (i : Nat) (h : i < calls.length) :
    execWith run (calls.map (taskFor g)) i = run (g calls[i]) calls[i].args := by
  simp [execWith, List.getElem?_map, List.getElem?_eq_getElem h, taskFor]

theorem idAt_taskFor (g : Call → Tool) (calls : List Call) (i : Nat) (h : i < calls.length) :
    idAt (calls.map (taskFor g)) i = calls[i].id := by
  simp [idAt, List.getElem?_map, List.getElem?_eq_getElem h, taskFor]

/-- `Invoke` = the by-index specification, for every completion order -/
theorem invoke_eq_spec {F : Facts} (hF : F.Good) (hH : F.handlerConsulted = true)
    {tools : List (String × Tool)} {handler : Option Handler} {calls : List Call}
    (hne : calls ≠ []) (g : Call → Tool) (hres : ∀ c ∈ calls, resolve tools handler c = some (g c))
    (seen : Nat → Nat) (σ : List Nat) (hσ : σ.Perm (List.range calls.length)) :
    invoke F tools handler true calls seen σ
      = specRun (fun i s => (⟨idAt (calls.map (taskFor g)) i, s⟩ : Msg))
          (execWith packInvoke (calls.map (taskFor g))) calls.length := by
  unfold invoke
  rw [genTasks_ok hH hne g hres]
  simp only [List.length_map]
  exact conclude_runAll hF _ _ seen _ σ hσ

/-- `Stream` (the sources handed to the merge) = the by-index specification -/
theorem stream_eq_spec {F : Facts} (hF : F.Good) (hH : F.handlerConsulted = true)
    {tools : List (String × Tool)} {handler : Option Handler} {calls : List Call}
    (hne : calls ≠ []) (g : Call → Tool) (hres : ∀ c ∈ calls, resolve tools handler c = some (g c))
    (seen : Nat → Nat) (σ : List Nat) (hσ : σ.Perm (List.range calls.length)) :
    stream F tools handler true calls seen σ
      = specRun (fun i (cs : List String) =>
            cs.map fun s => sparse calls.length i ⟨idAt (calls.map (taskFor g)) i, s⟩)
          (execWith packStream (calls.map (taskFor g))) calls.length := by
  unfold stream
  rw [genTasks_ok hH hne g hres]
  simp only [List.length_map]
  exact conclude_runAll hF _ _ seen _ σ hσ

/-! ### the specification, clause by clause -/

theorem specRun_all_ok {α β γ : Type} (mk : Nat → α → β) (exec : Nat → Out α) (l : List γ)
    (w : γ → β) (h : ∀ i (h : i < l.length), ∃ a, exec i = .ok a ∧ mk i a = w l[i]) :
    specRun mk exec l.length = .ok (l.map w) := by
  unfold specRun
  have h0 : (if l.length = 0 then none else panicOf (exec 0)) = none := by
    by_cases hl : l.length = 0
    · simp [hl]
    · obtain ⟨a, ha, _⟩ := h 0 (by omega)
      simp [hl, ha, panicOf]
  rw [h0]
  simp only
  rw [mapM_range_list_ok (w := w) l (fun i hi => by
    obtain ⟨a, ha, hm⟩ := h i hi
    simp [specStep, ha, hm])]

theorem specRun_first_err {α β : Type} (mk : Nat → α → β) (exec : Nat → Out α) (n j : Nat)
    (hj : j < n) (hpre : ∀ i, i < j → ∃ a, exec i = .ok a) (e : ToolErr)
    (he : exec j = .err e ∨ (j ≠ 0 ∧ ∃ p, exec j = .panic p ∧ e = .panicked p)) :
    specRun mk exec n = .err (.tool j e) := by
  unfold specRun
  have hn : n ≠ 0 := by omega
  have h0 : (if n = 0 then none else panicOf (exec 0)) = none := by
    simp only [hn, if_false]
    by_cases hj0 : j = 0
    · subst hj0
      rcases he with he | ⟨h, _⟩
      · simp [he, panicOf]
      · exact absurd rfl h
    · obtain ⟨a, ha⟩ := hpre 0 (by omega)
      simp [ha, panicOf]
  rw [h0]
  simp only
  rw [mapM_range_error hj (fun i hi => by
    obtain ⟨a, ha⟩ := hpre i hi
    exact ⟨mk i a, by simp [specStep, ha]⟩) (e := .tool j e) (by
    rcases he with he | ⟨_, p, hp, rfl⟩
    · simp [specStep, he]
    · simp [specStep, hp])]

theorem specRun_inline_panic {α β : Type} (mk : Nat → α → β) (exec : Nat → Out α) (n p : Nat)
    (hn : 0 < n) (h : exec 0 = .panic p) : specRun mk exec n = .panicEscapes p := by
  unfold specRun
  have : n ≠ 0 := by omega
  simp [this, h, panicOf]

theorem specRun_no_crash {α β : Type} (mk : Nat → α → β) (exec : Nat → Out α) (n : Nat) :
    specRun mk exec n ≠ .crash := by
  unfold specRun
  split
  · simp
  · split <;> simp

theorem specRun_err_is_tool {α β : Type} (mk : Nat → α → β) (exec : Nat → Out α) (n : Nat) (e : Err)
    (h : specRun mk exec n = .err e) : ∃ i te, e = .tool i te := by
  unfold specRun at h
  split at h
  · simp at h
  · split at h
    · simp at h
    · rename_i e' he
      obtain ⟨i, _, hi⟩ := mapM_error_mem _ he
      have : e' = e := by simpa using h
      subst this
      unfold specStep at hi
      split at hi
      · simp at hi
      · exact ⟨_, _, by simpa using hi.symm⟩
      · exact ⟨_, _, by simpa using hi.symm⟩


theorem specRun_all_ok' {α β : Type} (mk : Nat → α → β) (exec : Nat → Out α) (n : Nat)
    (W : Nat → β) (h : ∀ i, i < n → ∃ a, exec i = .ok a ∧ mk i a = W i) :
    specRun mk exec n = .ok ((List.range n).map W) := by
  unfold specRun
  have h0 : (if n = 0 then none else panicOf (exec 0)) = none := by
    by_cases hl : n = 0
    · simp [hl]
    · obtain ⟨a, ha, _⟩ := h 0 (by omega)
      simp [hl, ha, panicOf]
  rw [h0]
  simp only
  rw [mapM_range_ok (g := W) n (fun i hi => by
    obtain ⟨a, ha, hm⟩ := h i hi
    simp [specStep, ha, hm])]

/-! ### strings -/

theorem joinS_singleton (c : String) : joinS [c] = c := by
  simp [joinS, String.append_empty]

theorem concatChunks_ne {cs : List String} (h : cs ≠ []) : concatChunks cs = .ok (joinS cs) := by
  match cs, h with
  | [c], _ => simp [concatChunks, joinS_singleton]
  | _ :: _ :: _, _ => rfl

/-! ### interleavings -/

theorem Interleaving.filterMap_eq {β γ : Type} (g : β → Option γ) (j : Nat) :
    ∀ {srcs : List (List β)} {m : List β}, Interleaving srcs m →
      (∀ i s, i ≠ j → srcs[i]? = some s → ∀ x ∈ s, g x = none) →
      ∀ s, srcs[j]? = some s → m.filterMap g = s.filterMap g := by
  intro srcs m h
  induction h with
  | done hall =>
    intro _ s hs
    have : s ∈ _ := List.mem_of_getElem? hs
    rw [hall s this]
  | @step srcs m i x rest hi _ ih =>
    intro hoth s hs
    by_cases hij : i = j
    · subst hij
      have hsx : s = x :: rest := by rw [hi] at hs; exact (Option.some.inj hs).symm
      subst hsx
      have hlt : i < srcs.length := by
        rcases Nat.lt_or_ge i srcs.length with h | h
        · exact h
        · simp [List.getElem?_eq_none h] at hi
      have := ih (fun i' s' hne hs' y hy => by
        rw [List.getElem?_set_ne (fun e => hne e.symm)] at hs'
        exact hoth i' s' hne hs' y hy) rest (by simp [List.getElem?_set_self hlt])
      simp only [List.filterMap_cons, this]
    · have hgx : g x = none := hoth i (x :: rest) hij hi x (by simp)
      have := ih (fun i' s' hne hs' y hy => by
        by_cases hi' : i' = i
        · subst hi'
          have hlt : i' < srcs.length := by
            rcases Nat.lt_or_ge i' srcs.length with h | h
            · exact h
            · simp [List.getElem?_eq_none h] at hi
          rw [List.getElem?_set_self hlt] at hs'
          have : s' = rest := (Option.some.inj hs').symm
          subst this
          exact hoth i' (x :: s') hne hi y (by simp [hy])
        · rw [List.getElem?_set_ne (fun e => hi' e.symm)] at hs'
          exact hoth i' s' hne hs' y hy) s (by rw [List.getElem?_set_ne hij]; exact hs)
      simp only [List.filterMap_cons, hgx, this]

theorem Interleaving.mem_src {β : Type} :
    ∀ {srcs : List (List β)} {m : List β}, Interleaving srcs m →
      ∀ y ∈ m, ∃ (i : Nat) (s : List β), srcs[i]? = some s ∧ y ∈ s := by
  intro srcs m h
  induction h with
  | done _ => intro y hy; simp at hy
  | @step srcs m i x rest hi _ ih =>
    intro y hy
    rcases List.mem_cons.1 hy with rfl | hy
    · exact ⟨i, _, hi, by simp⟩
    · obtain ⟨i', s', hs', hy'⟩ := ih y hy
      by_cases hi' : i' = i
      · subst hi'
        have hlt : i' < srcs.length := by
          rcases Nat.lt_or_ge i' srcs.length with h | h
          · exact h
          · simp [List.getElem?_eq_none h] at hi
        rw [List.getElem?_set_self hlt] at hs'
        have : s' = rest := (Option.some.inj hs').symm
        subst this
        exact ⟨i', _, hi, by simp [hy']⟩
      · rw [List.getElem?_set_ne (fun e => hi' e.symm)] at hs'
        exact ⟨i', s', hs', hy'⟩

theorem Interleaving.nil_iff {β : Type} {srcs : List (List β)} (h : Interleaving srcs []) :
    ∀ s ∈ srcs, s = [] := by
  cases h with
  | done hall => exact hall


/-! ### sparse arrays and their position-wise concatenation -/

theorem length_sparse (n i : Nat) (m : Msg) : (sparse n i m).length = n := by simp [sparse]

/-- the message a chunk carries at position `j` -/
def at_ (j : Nat) (ma : List (Option Msg)) : Option Msg := (ma[j]?).join

theorem at_sparse_self {n i : Nat} (h : i < n) (m : Msg) : at_ i (sparse n i m) = some m := by
  simp [at_, sparse, h]

theorem at_sparse_ne {n i j : Nat} (h : i ≠ j) (m : Msg) : at_ j (sparse n i m) = none := by
  simp only [at_, sparse, List.getElem?_set_ne h, List.getElem?_replicate]
  split <;> simp

theorem column_eq (mas : List (List (Option Msg))) (j : Nat) : column mas j = mas.filterMap (at_ j) := rfl

theorem mergeId_self (id : String) : mergeId id id = .ok id := by
  unfold mergeId; split <;> simp_all

theorem mergeId_empty (id : String) : mergeId "" id = .ok id := by
  unfold mergeId; split <;> simp_all

theorem foldlM_mergeId_const (id : String) :
    ∀ (cs : List String), ((cs.map fun s => (⟨id, s⟩ : Msg)).map (·.id)).foldlM mergeId id = .ok id
  | [] => rfl
  | c :: cs => by
    simp only [List.map_cons, List.foldlM_cons, mergeId_self]
    exact foldlM_mergeId_const id cs

theorem concatSlot_chunks (id : String) {cs : List String} (h : cs ≠ []) :
    concatSlot (cs.map fun s => (⟨id, s⟩ : Msg)) = .ok (some ⟨id, joinS cs⟩) := by
  match cs, h with
  | [c], _ => simp [concatSlot, joinS_singleton]
  | c1 :: c2 :: rest, _ =>
    have hid : (((c1 :: c2 :: rest).map fun s => (⟨id, s⟩ : Msg)).map (·.id)).foldlM mergeId "" = .ok id := by
      rw [List.map_cons, List.map_cons, List.foldlM_cons, mergeId_empty]
      exact foldlM_mergeId_const id (c2 :: rest)
    have hc : ((c1 :: c2 :: rest).map fun s => (⟨id, s⟩ : Msg)).map (·.content) = c1 :: c2 :: rest := by
      simp [List.map_map, Function.comp_def]
    simp only [List.map_cons, concatSlot, concatMsgs]
    simp only [List.map_cons] at hid hc
    rw [hid, hc]
    rfl

theorem concatArray_singleton (c : List (Option Msg)) : concatArray [c] = .ok c := by
  unfold concatArray
  simp only [List.all_cons, BEq.rfl, List.all_nil, Bool.and_self, if_true]
  have := mapM_range_list_ok (ε := CErr) (f := fun j => concatSlot (column [c] j)) (w := fun (x : Option Msg) => x) c
    (fun i hi => by
      simp only [column, List.filterMap_cons, List.filterMap_nil, List.getElem?_eq_getElem hi, Option.join_some]
      cases c[i] <;> simp [concatSlot])
  simpa using this

theorem collect_eq_concatArray {m : List (List (Option Msg))} (h : m ≠ []) :
    collect m = concatArray m := by
  match m, h with
  | [c], _ => simp [collect, concatArray_singleton]
  | _ :: _ :: _, _ => rfl

/-- **position-wise concatenation of any interleaving.**  `n` sources, source `i` carrying
    the chunks `chunks i` (at least one) as sparse arrays with the message at position `i`:
    whatever the interleaving, the concatenation is the array of the per-source
    concatenations. -/
theorem collect_interleaving (n : Nat) (hn : 0 < n) (ids : Nat → String) (chunks : Nat → List String)
    (hne : ∀ i, i < n → chunks i ≠ []) (m : List (List (Option Msg)))
    (hm : Interleaving ((List.range n).map fun i => (chunks i).map fun s => sparse n i ⟨ids i, s⟩) m) :
    collect m = .ok ((List.range n).map fun i => some ⟨ids i, joinS (chunks i)⟩) := by
  have hsrc : ∀ i, i < n → ((List.range n).map fun i => (chunks i).map fun s => sparse n i ⟨ids i, s⟩)[i]?
      = some ((chunks i).map fun s => sparse n i ⟨ids i, s⟩) := by
    intro i hi; simp [hi]
  have hsrc' : ∀ i s, ((List.range n).map fun i => (chunks i).map fun s => sparse n i ⟨ids i, s⟩)[i]? = some s →
      i < n ∧ s = (chunks i).map fun s => sparse n i ⟨ids i, s⟩ := by
    intro i s hs
    have hi : i < n := by
      rcases Nat.lt_or_ge i n with h | h
      · exact h
      · rw [List.getElem?_eq_none (by simpa using h)] at hs; simp at hs
    rw [hsrc i hi] at hs
    exact ⟨hi, (Option.some.inj hs).symm⟩
  -- the merged stream is not empty, and every chunk has length n
  have hmne : m ≠ [] := by
    intro he; subst he
    have := hm.nil_iff _ (List.mem_of_getElem? (hsrc 0 hn))
    exact hne 0 hn (by simpa using this)
  have hlen : ∀ ma ∈ m, ma.length = n := by
    intro ma hma
    obtain ⟨i, s, hs, hmem⟩ := hm.mem_src ma hma
    obtain ⟨_, rfl⟩ := hsrc' i s hs
    obtain ⟨c, _, rfl⟩ := List.mem_map.1 hmem
    exact length_sparse _ _ _
  rw [collect_eq_concatArray hmne]
  match m, hmne with
  | ma0 :: rest, _ =>
    unfold concatArray
    have h0 : ma0.length = n := hlen ma0 (by simp)
    have hall : ((ma0 :: rest).all fun ma => ma.length == n) = true := by
      rw [List.all_eq_true]; intro ma hma; simp [hlen ma hma]
    simp only [h0]
    rw [if_pos hall]
    apply mapM_range_ok
    intro j hj
    rw [column_eq, hm.filterMap_eq (at_ j) j (fun i s hij hs x hx => by
        obtain ⟨_, rfl⟩ := hsrc' i s hs
        obtain ⟨c, _, rfl⟩ := List.mem_map.1 hx
        exact at_sparse_ne hij _) _ (hsrc j hj)]
    have : ((chunks j).map fun s => sparse n j ⟨ids j, s⟩).filterMap (at_ j)
        = (chunks j).map fun s => (⟨ids j, s⟩ : Msg) := by
      rw [List.filterMap_map]
      have : (at_ j ∘ fun s => sparse n j ⟨ids j, s⟩) = fun s => some (⟨ids j, s⟩ : Msg) := by
        funext s; exact at_sparse_self hj _
      rw [this]
      exact congrFun (List.filterMap_eq_map (f := fun s => (⟨ids j, s⟩ : Msg))) (chunks j)
    rw [this, concatSlot_chunks _ (hne j hj)]


/-! ### the executable merge of the oracle produces interleavings (and they exist) -/

theorem Interleaving.cons_nil {β : Type} {srcs : List (List β)} {m : List β}
    (h : Interleaving srcs m) : Interleaving ([] :: srcs) m := by
  induction h with
  | done hall => exact .done (by intro s hs; rcases List.mem_cons.1 hs with rfl | hs; rfl; exact hall s hs)
  | @step srcs m i x rest hi _ ih =>
    exact .step (i + 1) x rest (by simpa using hi) (by simpa using ih)

theorem interleaving_flatten {β : Type} : ∀ (srcs : List (List β)), Interleaving srcs srcs.flatten
  | [] => .done (by simp)
  | s :: srcs => by
    induction s with
    | nil => simpa using (interleaving_flatten srcs).cons_nil
    | cons x s ih => exact .step 0 x s (by simp) (by simpa using ih)

theorem mergeBy_interleaving {β : Type} :
    ∀ (sched : List Nat) (srcs : List (List β)), Interleaving srcs (mergeBy sched srcs)
  | [], srcs => interleaving_flatten srcs
  | i :: sched, srcs => by
    unfold mergeBy
    split
    · rename_i x rest h
      exact .step i x rest h (mergeBy_interleaving sched _)
    · exact mergeBy_interleaving sched srcs

/-! ### coherence of the two forms of a tool -/

/-- the invokable form is the concatenation of the streamable form.  True by construction
    for a tool with only one form (the packer derives the other); a hypothesis about the
    user's code for a tool implementing both. -/
def Coherent (t : Tool) : Prop := ∀ a, packInvoke t a = (packStream t a).bind concatChunks

theorem coherent_of_no_str (t : Tool) (h : t.str = none) : Coherent t := by
  intro a
  unfold packInvoke packStream
  rw [h]
  cases hi : t.inv with
  | none => rfl
  | some f => cases hf : f a <;> simp [Out.bind, hf, concatChunks]

theorem coherent_of_no_inv (t : Tool) (h : t.inv = none) : Coherent t := by
  intro a
  unfold packInvoke packStream
  rw [h]
  cases hs : t.str with
  | none => rfl
  | some g => rfl

theorem coherent_handlerTool (h : Handler) (name : String) : Coherent (handlerTool h name) :=
  coherent_of_no_str _ rfl

/-! ### answers of calls -/

/-- the tool answering a call (total; meaningful when `resolve` is `some`) -/
def pick (tools : List (String × Tool)) (handler : Option Handler) (c : Call) : Tool :=
  (resolve tools handler c).getD ⟨none, none⟩

theorem resolve_pick {tools : List (String × Tool)} {handler : Option Handler} {c : Call}
    (h : (resolve tools handler c).isSome) : resolve tools handler c = some (pick tools handler c) := by
  obtain ⟨t, ht⟩ := Option.isSome_iff_exists.1 h
  simp [pick, ht]

theorem answerI_pick {tools : List (String × Tool)} {handler : Option Handler} {c : Call}
    {o : Out String} (h : answerI tools handler c = some o) :
    (resolve tools handler c).isSome ∧ packInvoke (pick tools handler c) c.args = o := by
  unfold answerI at h
  cases hr : resolve tools handler c with
  | none => simp [hr] at h
  | some t => simp [hr] at h; simp [pick, hr, h]

theorem answerS_pick {tools : List (String × Tool)} {handler : Option Handler} {c : Call}
    {o : Out (List String)} (h : answerS tools handler c = some o) :
    (resolve tools handler c).isSome ∧ packStream (pick tools handler c) c.args = o := by
  unfold answerS at h
  cases hr : resolve tools handler c with
  | none => simp [hr] at h
  | some t => simp [hr] at h; simp [pick, hr, h]

theorem resolve_isSome_of_handler (tools : List (String × Tool)) (h : Handler) (c : Call) :
    (resolve tools (some h) c).isSome := by
  unfold resolve; cases lookup tools c.name <;> simp

theorem resolve_none_iff {tools : List (String × Tool)} {handler : Option Handler} {c : Call} :
    resolve tools handler c = none ↔ lookup tools c.name = none ∧ handler = none := by
  unfold resolve; cases lookup tools c.name <;> cases handler <;> simp

theorem mapM_ok_length {ε α β : Type} {f : α → Except ε β} :
    ∀ (l : List α) (r : List β), l.mapM f = .ok r → r.length = l.length
  | [], r, h => by
    have : r = [] := by simpa [List.mapM_nil, pure, Except.pure] using h.symm
    simp [this]
  | x :: xs, r, h => by
    simp only [List.mapM_cons] at h
    cases hx : f x with
    | error e => rw [hx] at h; simp [bind, Except.bind] at h
    | ok b =>
      rw [hx] at h
      cases hxs : xs.mapM f with
      | error e => rw [hxs] at h; simp [bind, Except.bind] at h
      | ok bs =>
        rw [hxs] at h
        have : r = b :: bs := by simpa [bind, Except.bind, pure, Except.pure] using h.symm
        simp [this, mapM_ok_length xs bs hxs]

theorem genTasks_length {F : Facts} {tools : List (String × Tool)} {handler : Option Handler}
    {assistant : Bool} {calls : List Call} {tasks : List Task}
    (h : genTasks F tools handler assistant calls = .ok tasks) : tasks.length = calls.length := by
  unfold genTasks at h
  split at h
  · simp at h
  · split at h
    · simp at h
    · exact mapM_ok_length _ _ h

/-- every call of `ToolsNode.Invoke` is a pre-run error or the by-index specification -/
theorem invoke_cases {F : Facts} (hF : F.Good) (tools : List (String × Tool)) (handler : Option Handler)
    (assistant : Bool) (calls : List Call) (seen : Nat → Nat) (σ : List Nat)
    (hσ : σ.Perm (List.range calls.length)) :
    (∃ e, genTasks F tools handler assistant calls = .error e ∧
        invoke F tools handler assistant calls seen σ = .err e) ∨
    (∃ tasks, genTasks F tools handler assistant calls = .ok tasks ∧
        invoke F tools handler assistant calls seen σ
          = specRun (fun i s => (⟨idAt tasks i, s⟩ : Msg)) (execWith packInvoke tasks) tasks.length) := by
  unfold invoke
  cases h : genTasks F tools handler assistant calls with
  | error e => exact .inl ⟨e, rfl, rfl⟩
  | ok tasks =>
    refine .inr ⟨tasks, rfl, ?_⟩
    exact conclude_runAll hF _ _ seen _ σ (by rw [genTasks_length h]; exact hσ)

theorem stream_cases {F : Facts} (hF : F.Good) (tools : List (String × Tool)) (handler : Option Handler)
    (assistant : Bool) (calls : List Call) (seen : Nat → Nat) (σ : List Nat)
    (hσ : σ.Perm (List.range calls.length)) :
    (∃ e, genTasks F tools handler assistant calls = .error e ∧
        stream F tools handler assistant calls seen σ = .err e) ∨
    (∃ tasks, genTasks F tools handler assistant calls = .ok tasks ∧
        stream F tools handler assistant calls seen σ
          = specRun (fun i (cs : List String) => cs.map fun s => sparse tasks.length i ⟨idAt tasks i, s⟩)
              (execWith packStream tasks) tasks.length) := by
  unfold stream
  cases h : genTasks F tools handler assistant calls with
  | error e => exact .inl ⟨e, rfl, rfl⟩
  | ok tasks =>
    refine .inr ⟨tasks, rfl, ?_⟩
    exact conclude_runAll hF _ _ seen _ σ (by rw [genTasks_length h]; exact hσ)

/-- generic first-failure statement for a list of calls split at the first failing one -/
theorem spec_first_failure {α β : Type} (run : Tool → String → Out α) (mk : Nat → α → β)
    (g : Call → Tool) (pre : List Call) (c : Call) (post : List Call)
    (hpre : ∀ c' ∈ pre, ∃ a, run (g c') c'.args = .ok a) :
    (∀ e, run (g c) c.args = .err e →
      specRun mk (execWith run ((pre ++ c :: post).map (taskFor g))) (pre ++ c :: post).length
        = .err (.tool pre.length e)) ∧
    (∀ p, run (g c) c.args = .panic p → pre ≠ [] →
      specRun mk (execWith run ((pre ++ c :: post).map (taskFor g))) (pre ++ c :: post).length
        = .err (.tool pre.length (.panicked p))) ∧
    (∀ p, run (g c) c.args = .panic p → pre = [] →
      specRun mk (execWith run ((pre ++ c :: post).map (taskFor g))) (pre ++ c :: post).length
        = .panicEscapes p) := by
  have hlt : pre.length < (pre ++ c :: post).length := by simp
  have hat : (pre ++ c :: post)[pre.length]'hlt = c := by simp
  have hexj : execWith run ((pre ++ c :: post).map (taskFor g)) pre.length = run (g c) c.args := by
    rw [execWith_taskFor run g _ _ hlt, hat]
  have hexpre : ∀ i, i < pre.length →
      ∃ a, execWith run ((pre ++ c :: post).map (taskFor g)) i = .ok a := by
    intro i hi
    have hi' : i < (pre ++ c :: post).length := by simp; omega
    rw [execWith_taskFor run g _ _ hi']
    have : (pre ++ c :: post)[i]'hi' = pre[i] := by simp [List.getElem_append_left hi]
    rw [this]
    exact hpre _ (List.getElem_mem hi)
  refine ⟨fun e he => ?_, fun p hp hne => ?_, fun p hp hnil => ?_⟩
  · exact specRun_first_err mk _ _ _ hlt hexpre e (.inl (by rw [hexj, he]))
  · have : pre.length ≠ 0 := by cases pre <;> simp_all
    exact specRun_first_err mk _ _ _ hlt hexpre _ (.inr ⟨this, p, by rw [hexj, hp], rfl⟩)
  · subst hnil
    exact specRun_inline_panic mk _ _ p (by simp) (by simpa using hexj.trans hp)

end EinoV.C17
