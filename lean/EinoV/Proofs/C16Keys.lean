/-
  C16 — lemmas about the key wrappers / paradigms (Model/C16Keys.lean): when every wrapper closure
  passes the option list on, the run with keys and paradigm is the run of the erased tree.
-/
import EinoV.Model.C16Keys
import EinoV.Proofs.C16

namespace EinoV.C16

/-- every closure of both wrappers passes `opts...` on -/
def KeyFacts.allForward (K : KeyFacts) : Prop :=
  K.inKeyFwdInvoke = true ∧ K.inKeyFwdTransform = true ∧
  K.outKeyFwdInvoke = true ∧ K.outKeyFwdTransform = true

theorem forwards_of_all {K : KeyFacts} (hK : K.allForward) (par : Paradigm) (w : Wrap) :
    w.forwards K par = true := by
  obtain ⟨h1, h2, h3, h4⟩ := hK
  unfold Wrap.forwards
  cases par.onStreamPath <;> simp [h1, h2, h3, h4]

theorem deliver_of_all {K : KeyFacts} (hK : K.allForward) (par : Paradigm) (w : Wrap)
    (items : List Item) : deliver K par w items = items := by
  simp [deliver, forwards_of_all hK par w]

/-- a node without key wrapper gets its task's list whatever the facts are -/
theorem deliver_plain (K : KeyFacts) (par : Paradigm) (items : List Item) :
    deliver K par Wrap.plain items = items := by
  simp [deliver, Wrap.forwards, Wrap.plain]

mutual
theorem runNodeW_eq {F : Facts} {K : KeyFacts} (hK : K.allForward) (par : Paradigm) :
    ∀ (n : WNode) (pre : Path) (gH : List Nat) (opts : List Opt) (log : Log),
      runNodeW F K par pre gH opts log n = runNode F pre gH opts log n.erase
  | .comp k ty w, pre, gH, opts, log => by
    simp only [runNodeW, runNode, WNode.erase, deliver_of_all hK]
  | .pass k w, pre, gH, opts, log => by
    simp only [runNodeW, runNode, WNode.erase]
  | .graph k ch w, pre, gH, opts, log => by
    simp only [runNodeW, runNode, WNode.erase, deliver_of_all hK]
    cases extract F ch.erase (optsOf (itemsFor log k)) with
    | error e => rfl
    | ok log' =>
      simp only []
      rw [runNodesW_eq hK par ch]
      rfl
theorem runNodesW_eq {F : Facts} {K : KeyFacts} (hK : K.allForward) (par : Paradigm) :
    ∀ (ns : WNodes) (pre : Path) (gH : List Nat) (opts : List Opt) (log : Log),
      runNodesW F K par pre gH opts log ns = runNodes F pre gH opts log ns.erase
  | .nil, pre, gH, opts, log => by
    simp only [runNodesW, runNodes, WNodes.erase]
  | .cons n ns, pre, gH, opts, log => by
    simp only [runNodesW, runNodes, WNodes.erase]
    rw [runNodeW_eq hK par n, runNodesW_eq hK par ns]
    rfl
end

theorem runW_eq {F : Facts} {K : KeyFacts} (hK : K.allForward) (par : Paradigm) (g : WNodes)
    (opts : List Opt) : runW F K par g opts = run F g.erase opts := by
  unfold runW run
  cases extract F g.erase opts with
  | error e => rfl
  | ok log =>
    simp only []
    rw [runNodesW_eq hK par g]
    rfl

theorem runCallsW_eq {F : Facts} {K : KeyFacts} (hK : K.allForward) :
    ∀ (cs : List CallW) (store : List Opt),
      runCallsW F K store cs = runCalls F store (cs.map CallW.erase)
  | [], store => rfl
  | c :: cs, store => by
    simp only [runCallsW, runCalls, List.map_cons, runW_eq hK, runCallsW_eq hK cs]
    rfl

end EinoV.C16
