/-
  C05 — resume = continue: helper lemmas (no property statements here).
-/
import EinoV.Model.C05
import EinoV.Proofs.C05
import EinoV.Proofs.C05Engine

namespace EinoV.Interrupt
open EinoV.Engine

variable {V S X : Type}

/-! ### the checkpoint of a loop state, and restoring it -/

/-- a loop state as `createTasks` produces it on a run whose ctx carries no checkpoint -/
def LoopSt.Fresh (ls : LoopSt V S X) : Prop :=
  ls.stale = [] ∧ ∀ t ∈ ls.tasks, t.skipPre = false ∧ t.sub = none

/-- the channel map has exactly the channels of a fresh manager -/
def LoopSt.KeysOK (r : IRunner V S X) (ls : LoopSt V S X) : Prop :=
  akeys ls.cm = akeys (initChans r.base)

/-- what `handleInterrupt` saves for a loop state: channels, the inputs of the pending tasks
    (before their pre-handlers), state -/
def LoopSt.toCP (ls : LoopSt V S X) : Checkpoint V S X :=
  simpleCP ls.cm (ls.tasks.map (fun t => (t.key, t.input))) ls.st

theorem restoreTasks_plain : ∀ (ts : List (Task V X)), (∀ t ∈ ts, t.skipPre = false ∧ t.sub = none) →
    restoreTasks (ts.map (fun t => (t.key, t.input))) [] ([] : List (Key × X)) = ts := by
  intro ts
  induction ts with
  | nil => intro _; rfl
  | cons t rest ih =>
    intro h
    have ht := h t (by simp)
    have hr := ih (fun t' h' => h t' (by simp [h']))
    simp only [restoreTasks, List.map_cons, List.map_map] at hr ⊢
    congr 1
    obtain ⟨k, i, sp, sb⟩ := t
    simp only at ht
    simp [alookup, ht.1, ht.2]

theorem restore_toCP (cfg : Cfg) (r : IRunner V S X) (ls : LoopSt V S X)
    (hcfg : cfg.fwdStale = false) (hf : ls.Fresh) (hk : ls.KeysOK r) (hnd : (akeys (initChans r.base)).Nodup) :
    restore cfg r ls.toCP = ls := by
  obtain ⟨cm, tasks, st, stale⟩ := ls
  simp only [LoopSt.Fresh] at hf
  simp only [LoopSt.KeysOK] at hk
  simp only [restore, LoopSt.toCP, simpleCP, hcfg, Bool.false_eq_true, ite_false]
  congr 1
  · exact loadChans_same _ _ hk hnd
  · exact restoreTasks_plain tasks hf.2
  · exact hf.1.symm

/-! ### the reference run (interrupt sets empty) executes the same supersteps -/

theorem preOne_plain (r : IRunner V S X) (t : Task V X) (st : S) : preOne r.plain t st = preOne r t st := rfl
theorem bodyOne_plain (r : IRunner V S X) (t : Task V X) (st : S) : bodyOne r.plain t st = bodyOne r t st := rfl
theorem postOne_plain (r : IRunner V S X) (k : Key) (res : BodyRes V S X) (st : S) :
    postOne r.plain k res st = postOne r k res st := rfl

theorem runPres_plain (r : IRunner V S X) : ∀ (ts : List (Task V X)) (st : S), runPres r.plain ts st = runPres r ts st := by
  intro ts
  induction ts with
  | nil => intro st; rfl
  | cons t rest ih => intro st; simp only [runPres, preOne_plain, ih]

theorem runBodies_plain (r : IRunner V S X) : ∀ (ts : List (Task V X)) (st : S), runBodies r.plain ts st = runBodies r ts st := by
  intro ts
  induction ts with
  | nil => intro st; rfl
  | cons t rest ih => intro st; simp only [runBodies, bodyOne_plain, ih]

theorem runPosts_plain (r : IRunner V S X) : ∀ (l : List (Key × BodyRes V S X)) (st : S),
    runPosts r.plain l st = runPosts r l st := by
  intro l
  induction l with
  | nil => intro st; rfl
  | cons kr rest ih => intro st; simp only [runPosts, postOne_plain, ih]

theorem coreOut_plain (ops : ValOps V) (r : IRunner V S X) (sched : ISched V S X) (cm : Chans V)
    (bres : List (Key × BodyRes V S X)) (st : S) :
    coreOut ops r.plain sched cm bres st = coreOut ops r sched cm bres st := by
  simp only [coreOut, runPosts_plain]
  rfl

theorem stepCore_plain (ops : ValOps V) (r : IRunner V S X) (sched : ISched V S X) (ls : LoopSt V S X) :
    stepCore ops r.plain sched ls = stepCore ops r sched ls := by
  simp only [stepCore, stepTasks, runPres_plain, runBodies_plain, coreOut_plain]

theorem finishStep_plain_next (ops : ValOps V) (r : IRunner V S X) (stale : List (Key × X))
    (cm : Chans V) (ts : List (Key × V)) (dones : List (Done V)) (st : S) :
    finishStep ops r.plain stale (.next cm ts dones st) =
      .next { cm := cm, tasks := mkTasks stale ts, st := st, stale := stale } := by
  simp [finishStep, IRunner.plain, hitKeys_nil_keys, afterHits_nil_keys]

/-! ### a before/after interrupt is a pause -/

/-- on channel maps satisfying `Inv` (an invariant of the run): calling `calculateNextTasks` again
    with no completed task changes nothing and yields no task -/
def QuietUnder (ops : ValOps V) (base : Runner V) (Inv : Chans V → Prop) : Prop :=
  ∀ cm done cm' ts, Inv cm → calcNext ops base cm done = .ok (cm', .tasks ts) →
    Inv cm' ∧ calcNext ops base cm' [] = .ok (cm', .tasks [])

/-- the same without side condition on the channels -/
def SecondGetQuiet (ops : ValOps V) (base : Runner V) : Prop := QuietUnder ops base (fun _ => True)

theorem finishStep_simple_intr (ops : ValOps V) (r : IRunner V S X) (stale : List (Key × X))
    (cm : Chans V) (ts : List (Key × V)) (dones : List (Done V)) (st : S)
    (hq : calcNext ops r.base cm [] = .ok (cm, .tasks []))
    (cp : Checkpoint V S X) (info : Info S X)
    (h : finishStep ops r stale (.next cm ts dones st) = .intr cp info) :
    cp = simpleCP cm ts st := by
  simp only [finishStep] at h
  split at h
  · simp at h
  · rw [hq] at h
    simp only at h
    injection h with h1 _
    rw [← h1]; simp

theorem finishStep_next_cases (ops : ValOps V) (r : IRunner V S X) (stale : List (Key × X))
    (cm : Chans V) (ts : List (Key × V)) (dones : List (Done V)) (st : S)
    (hq : calcNext ops r.base cm [] = .ok (cm, .tasks [])) :
    finishStep ops r stale (.next cm ts dones st) = .next { cm := cm, tasks := mkTasks stale ts, st := st, stale := stale } ∨
    ∃ info, finishStep ops r stale (.next cm ts dones st) = .intr (simpleCP cm ts st) info := by
  simp only [finishStep]
  split
  · left; rfl
  · right; rw [hq]; simp

/-! ### nodes that never interrupt themselves -/

/-- no node body of this level returns `InterruptAndRerun` or a nested interrupt -/
def NoSR (r : IRunner V S X) : Prop :=
  ∀ n ∈ r.inodes, ∀ v s x, (∀ s', (n.body v s x).res ≠ .rerun s') ∧ (∀ y s', (n.body v s x).res ≠ .subInt y s')

def BodyRes.isSR : BodyRes V S X → Bool
  | .rerun _ => true | .subInt .. => true | _ => false

/-- the completion order invents no task -/
def SchedSub (sched : ISched V S X) : Prop := ∀ l x, x ∈ sched l → x ∈ l

theorem bodyOne_noSR (r : IRunner V S X) (h : NoSR r) (t : Task V X) (st : S) : (bodyOne r t st).res.isSR = false := by
  unfold bodyOne
  split
  · rfl
  · rename_i n hn
    have hmem : n ∈ r.inodes := List.mem_of_find?_eq_some hn
    have := h n hmem t.input st t.sub
    cases hres : (n.body t.input st t.sub).res with
    | done o s => rfl
    | fail e s => rfl
    | rerun s' => exact absurd hres (this.1 s')
    | subInt y s' => exact absurd hres (this.2 y s')

theorem runBodies_noSR (r : IRunner V S X) (h : NoSR r) : ∀ (ts : List (Task V X)) (st : S),
    ∀ x ∈ (runBodies r ts st).1, x.2.isSR = false := by
  intro ts
  induction ts with
  | nil => intro st x hx; simp [runBodies] at hx
  | cons t rest ih =>
    intro st x hx
    simp only [runBodies, List.mem_cons] at hx
    rcases hx with rfl | hx
    · exact bodyOne_noSR r h t st
    · exact ih _ x hx

theorem runPosts_noSR (r : IRunner V S X) : ∀ (l : List (Key × BodyRes V S X)) (st : S),
    (∀ x ∈ l, x.2.isSR = false) → subIntOf (runPosts r l st).1 = [] ∧ rerunOf (runPosts r l st).1 = [] := by
  intro l
  induction l with
  | nil => intro st _; simp [runPosts, subIntOf, rerunOf]
  | cons kr rest ih =>
    intro st h
    have hkr := h kr (by simp)
    have hr := fun st' => ih st' (fun x hx => h x (by simp [hx]))
    obtain ⟨k, res⟩ := kr
    cases res with
    | done o s =>
      simp only [runPosts, postOne]
      split <;> simp only [subIntOf, rerunOf] <;> exact hr _
    | fail e s => simpa [runPosts, postOne, subIntOf, rerunOf] using hr st
    | rerun s => simp [BodyRes.isSR] at hkr
    | subInt y s => simp [BodyRes.isSR] at hkr

theorem coreOut_noSR (ops : ValOps V) (r : IRunner V S X) (sched : ISched V S X) (cm : Chans V)
    (bres : List (Key × BodyRes V S X)) (st2 : S) (h : ∀ x ∈ sched bres, x.2.isSR = false) :
    ∀ cm' restore subs reruns dones st, coreOut ops r sched cm bres st2 ≠ .sr cm' restore subs reruns dones st := by
  intro cm' restore subs reruns dones st heq
  have hno := runPosts_noSR r (sched bres) st2 h
  unfold coreOut at heq
  simp only [hno.1, hno.2, List.isEmpty_nil, Bool.not_true, Bool.or_self, Bool.false_eq_true, ite_false] at heq
  split at heq
  · simp at heq
  · split at heq
    · simp at heq
    · split at heq <;> simp at heq

theorem coreOut_next_keys (ops : ValOps V) (r : IRunner V S X) (sched : ISched V S X) (cm : Chans V)
    (bres : List (Key × BodyRes V S X)) (st2 : S) (cm' : Chans V) (ts : List (Key × V)) (dones : List (Done V)) (st : S)
    (h : coreOut ops r sched cm bres st2 = .next cm' ts dones st) :
    akeys cm' = akeys cm ∧ ∃ done, calcNext ops r.base cm done = .ok (cm', .tasks ts) := by
  unfold coreOut at h
  simp only at h
  split at h
  · simp at h
  · split at h
    · split at h <;> simp at h
    · split at h
      · simp at h
      · split at h
        · simp at h
        · simp at h
        · rename_i cm'' ts'' hcn
          injection h with h1 h2 _ _
          subst h1 h2
          exact ⟨calcNext_keys ops r.base cm _ _ _ hcn, _, hcn⟩

/-! ### one superstep of the interrupted run against the reference run -/

theorem mkTasks_inputs (stale : List (Key × X)) (ts : List (Key × V)) :
    (mkTasks stale ts).map (fun t => (t.key, t.input)) = ts := by
  simp only [mkTasks, List.map_map]
  conv => rhs; rw [← List.map_id ts]
  apply List.map_congr_left
  intro p _
  rfl

theorem mkTasks_fresh (ts : List (Key × V)) : ∀ t ∈ mkTasks ([] : List (Key × X)) ts, t.skipPre = false ∧ t.sub = none := by
  intro t ht
  simp only [mkTasks, List.mem_map] at ht
  obtain ⟨p, _, rfl⟩ := ht
  simp [alookup]

theorem stepI_sim (ops : ValOps V) (r : IRunner V S X) (sched : ISched V S X) (Inv : Chans V → Prop)
    (hq : QuietUnder ops r.base Inv) (hnsr : NoSR r) (hsub : SchedSub sched)
    (ls : LoopSt V S X) (hf : ls.Fresh) (hk : ls.KeysOK r) (hinv : Inv ls.cm) :
    (stepI ops r sched ls).1 = (stepI ops r.plain sched ls).1 ∧
    (match (stepI ops r.plain sched ls).2 with
     | .done v => (stepI ops r sched ls).2 = .done v
     | .fail e => (stepI ops r sched ls).2 = .fail e
     | .intr _ _ => False
     | .next ls' => ls'.Fresh ∧ ls'.KeysOK r ∧ Inv ls'.cm ∧
        ((stepI ops r sched ls).2 = .next ls' ∨ ∃ info, (stepI ops r sched ls).2 = .intr ls'.toCP info)) := by
  refine ⟨by simp only [stepI, stepCore_plain], ?_⟩
  simp only [stepI, stepCore_plain]
  have hcore : (stepCore ops r sched ls).2 =
      coreOut ops r sched ls.cm (runBodies r (runPres r ls.tasks ls.st).1 (runPres r ls.tasks ls.st).2).1
        (runBodies r (runPres r ls.tasks ls.st).1 (runPres r ls.tasks ls.st).2).2.1 := rfl
  cases hc : (stepCore ops r sched ls).2 with
  | done v => simp [finishStep]
  | fail e => simp [finishStep]
  | sr cm restore subs reruns dones st =>
    exfalso
    rw [hcore] at hc
    refine coreOut_noSR ops r sched _ _ _ ?_ cm restore subs reruns dones st hc
    intro x hx
    exact runBodies_noSR r hnsr _ _ x (hsub _ x hx)
  | next cm ts dones st =>
    rw [hcore] at hc
    obtain ⟨hkeys, done, hcn⟩ := coreOut_next_keys ops r sched _ _ _ cm ts dones st hc
    obtain ⟨hinv', hq'⟩ := hq _ _ _ _ hinv hcn
    rw [finishStep_plain_next]
    simp only
    have hstale : ls.stale = [] := hf.1
    refine ⟨⟨hstale, ?_⟩, ?_, hinv', ?_⟩
    · show ∀ t ∈ mkTasks ls.stale ts, t.skipPre = false ∧ t.sub = none
      rw [hstale]; exact mkTasks_fresh ts
    · simp only [LoopSt.KeysOK]; rw [hkeys]; exact hk
    · rcases finishStep_next_cases ops r ls.stale cm ts dones st hq' with h | ⟨info, h⟩
      · left; exact h
      · right
        refine ⟨info, ?_⟩
        rw [h]
        simp only [LoopSt.toCP, mkTasks_inputs]

/-! ### the whole history against the reference run -/

def Res.final? : Res V S X → Option (Except Err V)
  | .done v => some (.ok v)
  | .failed e => some (.error e)
  | .interrupted .. => none

/-- the reference loop (interrupts off) returns within `n` supersteps from `ls` -/
def finishesIn (ops : ValOps V) (r : IRunner V S X) (sched : ISched V S X) : Nat → LoopSt V S X → Prop
  | 0, _ => False
  | n + 1, ls =>
    match (stepI ops r.plain sched ls).2 with
    | .next ls' => finishesIn ops r sched n ls'
    | _ => True

/-- the history that starts with the call outcome `o` and is resumed (same id) up to `calls` more times -/
def histFrom (ops : ValOps V) (cfg : Cfg) (r : IRunner V S X) (sched : ISched V S X) (calls : Nat)
    (o : Out V S X) : List (Out V S X) :=
  o :: (match o.res with
        | .interrupted cp _ => resumeLoop ops cfg r sched calls (.inr cp)
        | _ => [])

theorem resumeLoop_succ (ops : ValOps V) (cfg : Cfg) (r : IRunner V S X) (sched : ISched V S X) (c : Nat)
    (inp : V ⊕ Checkpoint V S X) :
    resumeLoop ops cfg r sched (c + 1) inp = histFrom ops cfg r sched c (runI ops cfg r sched false true inp) := by
  simp only [resumeLoop, histFrom]
  split <;> simp_all

/-- all events of a history, in order -/
def allEvs (h : List (Out V S X)) : List (Ev V S X) := h.flatMap (·.evs)

theorem obsEvs_append (a b : List (Ev V S X)) : obsEvs (a ++ b) = obsEvs a ++ obsEvs b := by
  simp [obsEvs]

theorem obsEvs_intrEvs (isSub hasID : Bool) (info : Info S X) : obsEvs (intrEvs (V := V) isSub hasID info) = [] := by
  unfold intrEvs obsEvs; split <;> simp [Ev.isObs]

theorem finalOf_cons_ne (o : Out V S X) (rest : List (Out V S X)) (h : rest ≠ []) :
    Out.finalOf (o :: rest) = Out.finalOf rest := by
  cases rest with
  | nil => exact absurd rfl h
  | cons a b => rfl

theorem histFrom_ne_nil (ops : ValOps V) (cfg : Cfg) (r : IRunner V S X) (sched : ISched V S X) (calls : Nat)
    (o : Out V S X) : histFrom ops cfg r sched calls o ≠ [] := by simp [histFrom]

/-- histories of two outcomes with the same result differ only in the first outcome's events -/
theorem histFrom_same_res (ops : ValOps V) (cfg : Cfg) (r : IRunner V S X) (sched : ISched V S X) (calls : Nat)
    (o o' : Out V S X) (h : o.res = o'.res) :
    Out.finalOf (histFrom ops cfg r sched calls o) = Out.finalOf (histFrom ops cfg r sched calls o') ∧
    ∃ rest, histFrom ops cfg r sched calls o = o :: rest ∧ histFrom ops cfg r sched calls o' = o' :: rest := by
  simp only [histFrom, h]
  refine ⟨?_, _, rfl, rfl⟩
  generalize (match o'.res with
        | .interrupted cp _ => resumeLoop ops cfg r sched calls (.inr cp)
        | _ => []) = rest
  cases rest with
  | nil => simp [Out.finalOf, h]
  | cons a b => rfl

theorem sim (ops : ValOps V) (cfg : Cfg) (r : IRunner V S X) (sched : ISched V S X) (Inv : Chans V → Prop)
    (hcfg : cfg.fwdStale = false) (hnd : (akeys (initChans r.base)).Nodup)
    (hq : QuietUnder ops r.base Inv) (hnsr : NoSR r) (hsub : SchedSub sched) :
    ∀ (n k k₀ calls : Nat) (ls : LoopSt V S X),
      finishesIn ops r sched n ls → n ≤ k → n ≤ k₀ → k ≤ r.base.fuel → n ≤ calls + 1 → ls.Fresh → ls.KeysOK r →
      Inv ls.cm →
      (Out.finalOf (histFrom ops cfg r sched calls (loopI ops r sched false true k ls))).bind Res.final? =
          (loopI ops r.plain sched false false k₀ ls).res.final? ∧
      (loopI ops r.plain sched false false k₀ ls).res.final? ≠ none ∧
      obsEvs (allEvs (histFrom ops cfg r sched calls (loopI ops r sched false true k ls))) =
          obsEvs (loopI ops r.plain sched false false k₀ ls).evs := by
  intro n
  induction n with
  | zero => intro k k₀ calls ls hfin; simp [finishesIn] at hfin
  | succ m ih =>
    intro k k₀ calls ls hfin hk hk₀ hF hcalls hfresh hkeys hinv
    obtain ⟨k', rfl⟩ : ∃ k', k = k' + 1 := ⟨k - 1, by omega⟩
    obtain ⟨k₀', rfl⟩ : ∃ k₀', k₀ = k₀' + 1 := ⟨k₀ - 1, by omega⟩
    obtain ⟨hevs, hstep⟩ := stepI_sim ops r sched Inv hq hnsr hsub ls hfresh hkeys hinv
    simp only [finishesIn] at hfin
    cases hp : (stepI ops r.plain sched ls).2 with
    | done v =>
      rw [hp] at hstep
      simp only at hstep
      have h1 : loopI ops r sched false true (k' + 1) ls = { res := .done v, evs := (stepI ops r sched ls).1 } := by
        rw [loopI]; simp only [hstep]
      have h0 : loopI ops r.plain sched false false (k₀' + 1) ls = { res := .done v, evs := (stepI ops r.plain sched ls).1 } := by
        rw [loopI]; simp only [hp]
      rw [h1, h0]
      simp [histFrom, Out.finalOf, Res.final?, allEvs, hevs]
    | fail e =>
      rw [hp] at hstep
      simp only at hstep
      have h1 : loopI ops r sched false true (k' + 1) ls = { res := .failed e, evs := (stepI ops r sched ls).1 } := by
        rw [loopI]; simp only [hstep]
      have h0 : loopI ops r.plain sched false false (k₀' + 1) ls = { res := .failed e, evs := (stepI ops r.plain sched ls).1 } := by
        rw [loopI]; simp only [hp]
      rw [h1, h0]
      simp [histFrom, Out.finalOf, Res.final?, allEvs, hevs]
    | intr cp info =>
      rw [hp] at hstep
      exact absurd hstep (by simp)
    | next ls' =>
      rw [hp] at hstep hfin
      simp only at hstep hfin
      obtain ⟨hf', hk', hinv', hcases⟩ := hstep
      have h0 : loopI ops r.plain sched false false (k₀' + 1) ls =
          { res := (loopI ops r.plain sched false false k₀' ls').res,
            evs := (stepI ops r.plain sched ls).1 ++ (loopI ops r.plain sched false false k₀' ls').evs } := by
        rw [loopI]; simp only [hp]
      rw [h0]
      rcases hcases with hnext | ⟨info, hintr⟩
      · -- the interrupted run goes on as well
        have h1 : loopI ops r sched false true (k' + 1) ls =
            { res := (loopI ops r sched false true k' ls').res,
              evs := (stepI ops r sched ls).1 ++ (loopI ops r sched false true k' ls').evs } := by
          rw [loopI]; simp only [hnext]
        obtain ⟨ih1, ih2, ih3⟩ := ih k' k₀' calls ls' hfin (by omega) (by omega) (by omega) (by omega) hf' hk' hinv'
        obtain ⟨hfe, rest, hr1, hr2⟩ := histFrom_same_res ops cfg r sched calls
          (loopI ops r sched false true (k' + 1) ls) (loopI ops r sched false true k' ls') (by rw [h1])
        refine ⟨?_, ih2, ?_⟩
        · rw [hfe]; exact ih1
        · rw [hr1]
          rw [hr2] at ih3
          simp only [allEvs, List.flatMap_cons] at ih3 ⊢
          rw [h1]
          simp only [List.append_assoc, obsEvs_append] at ih3 ⊢
          rw [ih3, hevs]
      · -- the interrupted run pauses here and is resumed from the checkpoint
        have h1 : loopI ops r sched false true (k' + 1) ls =
            { res := .interrupted ls'.toCP info, evs := (stepI ops r sched ls).1 ++ intrEvs false true info } := by
          rw [loopI]; simp only [hintr]
        have hm : m ≠ 0 := by intro h; subst h; simp [finishesIn] at hfin
        obtain ⟨c, rfl⟩ : ∃ c, calls = c + 1 := ⟨calls - 1, by omega⟩
        have hres : runI ops cfg r sched false true (.inr ls'.toCP) = loopI ops r sched false true r.base.fuel ls' := by
          simp only [runI, restore_toCP cfg r ls' hcfg hf' hk' hnd]
        obtain ⟨ih1, ih2, ih3⟩ := ih r.base.fuel k₀' c ls' hfin (by omega) (by omega) (Nat.le_refl _) (by omega) hf' hk' hinv'
        have hh : histFrom ops cfg r sched (c + 1) (loopI ops r sched false true (k' + 1) ls) =
            loopI ops r sched false true (k' + 1) ls ::
              histFrom ops cfg r sched c (loopI ops r sched false true r.base.fuel ls') := by
          rw [h1]
          simp only [histFrom]
          rw [resumeLoop_succ, hres]
          simp only [histFrom]
        rw [hh]
        refine ⟨?_, ih2, ?_⟩
        · rw [finalOf_cons_ne _ _ (histFrom_ne_nil _ _ _ _ _ _)]; exact ih1
        · simp only [allEvs, List.flatMap_cons] at ih3 ⊢
          rw [h1]
          simp only [List.append_assoc, obsEvs_append, obsEvs_intrEvs, List.nil_append] at ih3 ⊢
          rw [ih3, hevs]

/-- the reference run (interrupt sets empty) returns within `n` supersteps on input `x` -/
def run₀FinishesIn (ops : ValOps V) (r : IRunner V S X) (sched : ISched V S X) (n : Nat) (x : V) : Prop :=
  match calcNext ops r.base (initChans r.base) [(START, x)] with
  | .ok (cm, .tasks ts) => finishesIn ops r sched n { cm := cm, tasks := mkTasks [] ts, st := r.initState, stale := [] }
  | _ => True

theorem resume_equiv_top (ops : ValOps V) (cfg : Cfg) (r : IRunner V S X) (sched : ISched V S X) (Inv : Chans V → Prop)
    (hcfg : cfg.fwdStale = false) (hnd : (akeys (initChans r.base)).Nodup)
    (hq : QuietUnder ops r.base Inv) (hinit : Inv (initChans r.base)) (hnsr : NoSR r) (hsub : SchedSub sched)
    (n calls : Nat) (x : V) (hfin : run₀FinishesIn ops r sched n x) (hn : n ≤ r.base.fuel) (hc : n + 1 ≤ calls) :
    (Out.finalOf (resumeUntilDone ops cfg r sched calls x)).bind Res.final? = (run₀ ops cfg r sched x).res.final? ∧
    (run₀ ops cfg r sched x).res.final? ≠ none ∧
    obsEvs (allEvs (resumeUntilDone ops cfg r sched calls x)) = obsEvs (run₀ ops cfg r sched x).evs := by
  obtain ⟨c, rfl⟩ : ∃ c, calls = c + 1 := ⟨calls - 1, by omega⟩
  simp only [resumeUntilDone, resumeLoop_succ, run₀, runI]
  simp only [run₀FinishesIn] at hfin
  have hplainbase : r.plain.base = r.base := rfl
  have hplaininit : r.plain.initState = r.initState := rfl
  simp only [hplainbase, hplaininit]
  cases hcn : calcNext ops r.base (initChans r.base) [(START, x)] with
  | error e => simp [histFrom, Out.finalOf, Res.final?, allEvs]
  | ok p =>
    obtain ⟨cm, nx⟩ := p
    cases nx with
    | result v => simp [histFrom, Out.finalOf, Res.final?, allEvs]
    | tasks ts =>
      rw [hcn] at hfin
      simp only at hfin ⊢
      have hn0 : n ≠ 0 := by intro h; subst h; simp [finishesIn] at hfin
      have hplainhit : hitKeys ts r.plain.intBefore = [] := hitKeys_nil_keys ts
      simp only [hplainhit, List.isEmpty_nil, Bool.not_true, Bool.and_false, Bool.false_eq_true, ite_false]
      have hf0 : (LoopSt.Fresh ({ cm := cm, tasks := mkTasks [] ts, st := r.initState, stale := [] } : LoopSt V S X)) :=
        ⟨rfl, mkTasks_fresh ts⟩
      have hk0 : (LoopSt.KeysOK r ({ cm := cm, tasks := mkTasks [] ts, st := r.initState, stale := [] } : LoopSt V S X)) :=
        calcNext_keys ops r.base _ _ _ _ hcn
      have hi0 : Inv cm := (hq _ _ _ _ hinit hcn).1
      split
      · -- the tasks computed from START hit the interrupt-before list: the first call is only an interrupt
        obtain ⟨c', rfl⟩ : ∃ c', c = c' + 1 := ⟨c - 1, by omega⟩
        have hcp : (simpleCP cm ts r.initState : Checkpoint V S X) =
            ({ cm := cm, tasks := mkTasks [] ts, st := r.initState, stale := [] } : LoopSt V S X).toCP := by
          simp only [LoopSt.toCP, mkTasks_inputs]
        obtain ⟨s1, s2, s3⟩ := sim ops cfg r sched Inv hcfg hnd hq hnsr hsub n r.base.fuel r.base.fuel c' _ hfin hn hn
          (Nat.le_refl _) (by omega) hf0 hk0 hi0
        have hh : ∀ (info0 : Info S X),
            histFrom ops cfg r sched (c' + 1)
              { res := .interrupted (simpleCP cm ts r.initState) info0, evs := intrEvs false true info0 } =
            { res := .interrupted (simpleCP cm ts r.initState) info0, evs := intrEvs false true info0 } ::
              histFrom ops cfg r sched c' (loopI ops r sched false true r.base.fuel
                { cm := cm, tasks := mkTasks [] ts, st := r.initState, stale := [] }) := by
          intro info0
          conv => lhs; rw [histFrom]
          simp only [resumeLoop_succ, runI]
          rw [hcp, restore_toCP cfg r _ hcfg hf0 hk0 hnd]
        rw [hh]
        refine ⟨?_, s2, ?_⟩
        · rw [finalOf_cons_ne _ _ (histFrom_ne_nil _ _ _ _ _ _)]
          exact s1
        · simp only [allEvs, List.flatMap_cons, obsEvs_append, obsEvs_intrEvs, List.nil_append] at s3 ⊢
          exact s3
      · exact sim ops cfg r sched Inv hcfg hnd hq hnsr hsub n r.base.fuel r.base.fuel c _ hfin hn hn
          (Nat.le_refl _) (by omega) hf0 hk0 hi0

/-! ### tasks created after a resume start fresh -/

/-- no task of these supersteps was handed a nested checkpoint -/
def StepsFresh (steps : List (List (Key × Bool))) : Prop := ∀ ts ∈ steps, ∀ p ∈ ts, p.2 = false

theorem loopI_steps_fresh (ops : ValOps V) (r : IRunner V S X) (sched : ISched V S X) (isSub hasID : Bool) :
    ∀ (fuel : Nat) (ls : LoopSt V S X), ls.stale = [] →
      topSteps (loopI ops r sched isSub hasID fuel ls).evs = [] ∨
      ∃ rest, topSteps (loopI ops r sched isSub hasID fuel ls).evs = stepTasks r ls :: rest ∧ StepsFresh rest := by
  intro fuel
  induction fuel with
  | zero => intro ls _; left; simp [loopI, topSteps]
  | succ n ih =>
    intro ls hst
    right
    unfold loopI
    split
    · exact ⟨[], by simp [topSteps_stepI], by intro ts h; simp at h⟩
    · exact ⟨[], by simp [topSteps_stepI], by intro ts h; simp at h⟩
    · exact ⟨[], by simp [topSteps_append, topSteps_stepI, topSteps_intrEvs], by intro ts h; simp at h⟩
    · rename_i ls' hnext
      obtain ⟨cm, ts, dones, st, _, hls', _, _⟩ := finishStep_next ops r ls.stale _ ls' hnext
      have hst' : ls'.stale = [] := by rw [hls']; exact hst
      simp only [topSteps_append, topSteps_stepI]
      refine ⟨_, rfl, ?_⟩
      rcases ih ls' hst' with h0 | ⟨rest, hr, hfr⟩
      · rw [h0]; intro ts h; simp at h
      · rw [hr]
        intro ts' hts
        have hts : ts' = stepTasks r ls' ∨ ts' ∈ rest := by simpa using hts
        rcases hts with rfl | hts
        · intro p hp
          rw [stepTasks_eq, hls', hst] at hp
          simp only [mkTasks, List.map_map, List.mem_map] at hp
          obtain ⟨q, _, rfl⟩ := hp
          simp [alookup]
        · exact hfr ts' hts

theorem runI_steps_fresh (ops : ValOps V) (cfg : Cfg) (r : IRunner V S X) (sched : ISched V S X) (isSub hasID : Bool)
    (hcfg : cfg.fwdStale = false) :
    (∀ x, StepsFresh (topSteps (runI ops cfg r sched isSub hasID (.inl x)).evs)) ∧
    (∀ cp, StepsFresh (topSteps (runI ops cfg r sched isSub hasID (.inr cp)).evs).tail) := by
  constructor
  · intro x
    simp only [runI]
    split
    · intro ts h; simp [topSteps] at h
    · intro ts h; simp [topSteps] at h
    · rename_i cm ts _
      split
      · intro ts h; simp [topSteps_intrEvs] at h
      · rcases loopI_steps_fresh ops r sched isSub hasID r.base.fuel
          { cm := cm, tasks := mkTasks [] ts, st := r.initState, stale := [] } rfl with h0 | ⟨rest, hr, hfr⟩
        · rw [h0]; intro ts h; simp at h
        · rw [hr]
          intro ts' hts
          have hts : ts' = stepTasks r { cm := cm, tasks := mkTasks [] ts, st := r.initState, stale := [] } ∨ ts' ∈ rest := by
            simpa using hts
          rcases hts with rfl | hts
          · intro p hp
            rw [stepTasks_eq] at hp
            simp only [mkTasks, List.map_map, List.mem_map] at hp
            obtain ⟨q, _, rfl⟩ := hp
            simp [alookup]
          · exact hfr ts' hts
  · intro cp
    simp only [runI]
    rcases loopI_steps_fresh ops r sched isSub hasID r.base.fuel (restore cfg r cp)
        (by simp [restore, hcfg]) with h0 | ⟨rest, hr, hfr⟩
    · rw [h0]; intro ts h; simp at h
    · rw [hr]; exact hfr

/-! ### what the sub-graph / rerun interrupt saves -/

theorem alookup_isSome_iff {α} (k : Key) (l : List (Key × α)) : (alookup k l).isSome ↔ k ∈ l.map (·.1) := by
  induction l with
  | nil => simp [alookup]
  | cons p rest ih =>
    simp only [alookup, List.map_cons, List.mem_cons]
    split
    · rename_i h; simp [beq_iff_eq.1 h]
    · rename_i h
      have hne : k ≠ p.1 := fun heq => h (by simp [heq])
      simp [ih, hne]

theorem stepI_sr_shape (ops : ValOps V) (r : IRunner V S X) (sched : ISched V S X) (ls : LoopSt V S X)
    (cp : Checkpoint V S X) (info : Info S X) (h : (stepI ops r sched ls).2 = .intr cp info)
    (hsr : info.subs ≠ [] ∨ info.rerun ≠ []) :
    cp.subs = info.subs ∧ cp.skipPre = info.subs.map (·.1) ∧ cp.state = info.state ∧
    (∀ p ∈ cp.inputs, p.2 = ops.zero) ∧
    (∀ k ∈ cp.inputs.map (·.1), k ∈ info.rerun ∨ k ∈ info.subs.map (·.1)) := by
  simp only [stepI] at h
  have hl := coreOut_sr_listed ops r sched ls.cm
    (runBodies r (runPres r ls.tasks ls.st).1 (runPres r ls.tasks ls.st).2).1
    (runBodies r (runPres r ls.tasks ls.st).1 (runPres r ls.tasks ls.st).2).2.1
  have hcore : (stepCore ops r sched ls).2 =
      coreOut ops r sched ls.cm (runBodies r (runPres r ls.tasks ls.st).1 (runPres r ls.tasks ls.st).2).1
        (runBodies r (runPres r ls.tasks ls.st).1 (runPres r ls.tasks ls.st).2).2.1 := rfl
  cases hc : (stepCore ops r sched ls).2 with
  | done v => rw [hc] at h; simp [finishStep] at h
  | fail e => rw [hc] at h; simp [finishStep] at h
  | sr cm restore subs reruns dones st =>
    rw [hc] at h
    simp only [finishStep] at h
    injection h with h1 h2
    subst h1 h2
    rw [hcore] at hc
    refine ⟨rfl, rfl, rfl, ?_, ?_⟩
    · intro p hp; simp only [List.mem_map] at hp; obtain ⟨k, _, rfl⟩ := hp; rfl
    · intro k hk
      have : k ∈ restore := by simpa using hk
      exact hl cm restore subs reruns dones st hc k this
  | next cm ts dones st =>
    rw [hc] at h
    simp only [finishStep] at h
    split at h
    · simp at h
    · split at h
      · simp at h
      · simp at h
      · injection h with _ h2
        subst h2
        simp at hsr

/-- the tasks rebuilt from such a checkpoint: zero input; pre-handler skipped and nested checkpoint
    handed down exactly for the nested graphs that interrupted -/
theorem restoreTasks_sr (zero : V) (inputs : List (Key × V)) (subs : List (Key × X))
    (hz : ∀ p ∈ inputs, p.2 = zero) :
    ∀ t ∈ restoreTasks inputs (subs.map (·.1)) subs,
      t.input = zero ∧ (t.skipPre = true ↔ t.key ∈ subs.map (·.1)) ∧ (t.sub.isSome ↔ t.key ∈ subs.map (·.1)) := by
  intro t ht
  simp only [restoreTasks, List.mem_map] at ht
  obtain ⟨p, hp, rfl⟩ := ht
  refine ⟨hz p hp, ?_, ?_⟩
  · simp
  · exact alookup_isSome_iff _ _

/-! ### executable versions of the "returns within n supersteps" hypotheses (for concrete examples) -/

def finishesInB (ops : ValOps V) (r : IRunner V S X) (sched : ISched V S X) : Nat → LoopSt V S X → Bool
  | 0, _ => false
  | n + 1, ls =>
    match (stepI ops r.plain sched ls).2 with
    | .next ls' => finishesInB ops r sched n ls'
    | _ => true

theorem finishesIn_of_B (ops : ValOps V) (r : IRunner V S X) (sched : ISched V S X) :
    ∀ (n : Nat) (ls : LoopSt V S X), finishesInB ops r sched n ls = true → finishesIn ops r sched n ls := by
  intro n
  induction n with
  | zero => intro ls h; simp [finishesInB] at h
  | succ m ih =>
    intro ls h
    simp only [finishesInB] at h
    simp only [finishesIn]
    split <;> simp_all

def run₀FinishesInB (ops : ValOps V) (r : IRunner V S X) (sched : ISched V S X) (n : Nat) (x : V) : Bool :=
  match calcNext ops r.base (initChans r.base) [(START, x)] with
  | .ok (cm, .tasks ts) => finishesInB ops r sched n { cm := cm, tasks := mkTasks [] ts, st := r.initState, stale := [] }
  | _ => true

theorem run₀FinishesIn_of_B (ops : ValOps V) (r : IRunner V S X) (sched : ISched V S X) (n : Nat) (x : V)
    (h : run₀FinishesInB ops r sched n x = true) : run₀FinishesIn ops r sched n x := by
  simp only [run₀FinishesInB] at h
  simp only [run₀FinishesIn]
  split
  · rename_i cm ts heq
    rw [heq] at h
    exact finishesIn_of_B ops r sched n _ h
  · trivial

end EinoV.Interrupt
