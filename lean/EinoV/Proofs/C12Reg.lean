/-
  C12 — helper lemmas for the registry state machine (Model/C12Reg.lean).  Core Lean only.
-/
import EinoV.Model.C12Reg
import EinoV.Proofs.C12

namespace EinoV.C12

/-- all three guards of `GenericRegister` present -/
def RFall : RegFacts := ⟨true, true, true⟩

/-! ### `Ctx.ok` through `regOK` -/

theorem ok_eq (ctx : Ctx) :
    ctx.ok = (regOK ctx.reg && ctx.structs.all (fun s => (s.2.map (·.1)).Nodup)) := rfl

theorem hasKey_false {r : Reg} {k : Name} (h : r.hasKey k = false) : ∀ e ∈ r, (e.1 == k) = false := by
  intro e he
  unfold Reg.hasKey at h
  rw [List.any_eq_false] at h
  simpa using h e he

theorem hasTy_false {r : Reg} {t : GoTy} (h : r.hasTy t = false) : ∀ e ∈ r, (e.2 == t) = false := by
  intro e he
  unfold Reg.hasTy at h
  rw [List.any_eq_false] at h
  simpa using h e he

theorem hasKey_of_find {r : Reg} {k : Name} {e : Name × GoTy}
    (h : r.find? (fun x => x.1 == k) = some e) : r.hasKey k = true := by
  unfold Reg.hasKey
  rw [List.any_eq_true]
  have hp := List.find?_some h
  exact ⟨e, List.mem_of_find?_eq_some h, hp⟩

theorem hasTy_of_find {r : Reg} {t : GoTy} {e : Name × GoTy}
    (h : r.find? (fun x => x.2 == t) = some e) : r.hasTy t = true := by
  unfold Reg.hasTy
  rw [List.any_eq_true]
  have hp := List.find?_some h
  exact ⟨e, List.mem_of_find?_eq_some h, hp⟩

/-! ### one call -/

/-- a call that did not return `nil` left the registry as it was (any guards) -/
theorem regStep_rejected (RF : RegFacts) (r : Reg) (op : RegOp)
    (h : (regStep RF r op).1 ≠ .accepted) : (regStep RF r op).2 = r := by
  unfold regStep at h ⊢
  split
  · rfl
  · split
    · rfl
    · split
      · rfl
      · rename_i h1 h2 h3
        simp [h1, h2, h3] at h

/-- what an accepted call stored -/
theorem regStep_accepted (RF : RegFacts) (r : Reg) (op : RegOp)
    (h : (regStep RF r op).1 = .accepted) : (regStep RF r op).2 = (op.key, op.ty.strip) :: r := by
  unfold regStep at h ⊢
  split
  · rename_i h1; simp [h1] at h
  · split
    · rename_i h1 h2; simp [h1, h2] at h
    · split
      · rename_i h1 h2 h3; simp [h1, h2, h3] at h
      · rfl

/-- with the three guards, an accepted call had a non-empty key that was free and a type
    that was free -/
theorem regStep_accepted_fresh (r : Reg) (op : RegOp) (h : (regStep RFall r op).1 = .accepted) :
    op.key ≠ "" ∧ r.hasKey op.key = false ∧ r.hasTy op.ty.strip = false := by
  unfold regStep RFall at h
  simp only [Bool.true_and] at h
  split at h
  · cases h
  · split at h
    · cases h
    · split at h
      · cases h
      · rename_i h1 h2 h3
        simp only [beq_iff_eq] at h1
        simp only [Bool.not_eq_true] at h2 h3
        exact ⟨h1, h2, h3⟩

/-- adding a pair whose key and type are both free keeps the registry a bijection -/
theorem regOK_cons {r : Reg} {k : Name} {t : GoTy} (hr : regOK r = true) (hk : k ≠ "")
    (hfk : r.hasKey k = false) (hft : r.hasTy t = false) : regOK ((k, t) :: r) = true := by
  unfold regOK at hr ⊢
  rw [List.all_eq_true] at hr ⊢
  intro e he
  rcases List.mem_cons.mp he with rfl | he
  · simp [hk]
  · have h1 := hasKey_false hfk e he
    have h2 := hasTy_false hft e he
    have h1' : (k == e.1) = false := by
      simp only [beq_eq_false_iff_ne, ne_eq] at h1 ⊢; exact fun h => h1 h.symm
    have h2' : (t == e.2) = false := by
      simp only [beq_eq_false_iff_ne, ne_eq] at h2 ⊢; exact fun h => h2 h.symm
    have := hr e he
    simp only [List.find?_cons, h1', h2']
    exact this

theorem regStep_ok (r : Reg) (op : RegOp) (hr : regOK r = true) : regOK (regStep RFall r op).2 = true := by
  by_cases h : (regStep RFall r op).1 = .accepted
  · obtain ⟨hk, hfk, hft⟩ := regStep_accepted_fresh r op h
    rw [regStep_accepted RFall r op h]
    exact regOK_cons hr hk hfk hft
  · rw [regStep_rejected RFall r op h]; exact hr

theorem regAfter_ok : ∀ (ops : List RegOp) (r : Reg), regOK r = true → regOK (regAfter RFall r ops) = true
  | [], _, h => h
  | op :: ops, r, h => regAfter_ok ops _ (regStep_ok r op h)

/-! ### a registration in force stays in force -/

/-- `m[k]` is not touched by later calls (needs the `keyTaken` guard only) -/
theorem tyOfKey_step (RF : RegFacts) (hg : RF.rejectsTakenKey = true) (r : Reg) (op : RegOp) (k : Name) (e : Name × GoTy)
    (h : r.find? (fun x => x.1 == k) = some e) :
    (regStep RF r op).2.find? (fun x => x.1 == k) = some e := by
  by_cases ha : (regStep RF r op).1 = .accepted
  · rw [regStep_accepted RF r op ha]
    have hk := hasKey_of_find h
    have : (op.key == k) = false := by
      apply Bool.eq_false_iff.mpr
      intro hc
      simp only [beq_iff_eq] at hc
      subst hc
      unfold regStep at ha
      simp only [hg, hk, Bool.and_self] at ha
      split at ha <;> simp at ha
    simp only [List.find?_cons, this]
    exact h
  · rw [regStep_rejected RF r op ha]; exact h

/-- `rm[t]` is not touched by later calls (needs the `typeTaken` guard only) -/
theorem keyOf_step (RF : RegFacts) (hg : RF.rejectsTakenType = true) (r : Reg) (op : RegOp) (t : GoTy) (e : Name × GoTy)
    (h : r.find? (fun x => x.2 == t) = some e) :
    (regStep RF r op).2.find? (fun x => x.2 == t) = some e := by
  by_cases ha : (regStep RF r op).1 = .accepted
  · rw [regStep_accepted RF r op ha]
    have hk := hasTy_of_find h
    have : (op.ty.strip == t) = false := by
      apply Bool.eq_false_iff.mpr
      intro hc
      simp only [beq_iff_eq] at hc
      subst hc
      unfold regStep at ha
      simp only [hg, hk, Bool.and_self] at ha
      split at ha
      · simp at ha
      · split at ha <;> simp at ha
    simp only [List.find?_cons, this]
    exact h
  · rw [regStep_rejected RF r op ha]; exact h

theorem tyOfKey_after (RF : RegFacts) (hg : RF.rejectsTakenKey = true) (k : Name) (e : Name × GoTy) :
    ∀ (ops : List RegOp) (r : Reg), r.find? (fun x => x.1 == k) = some e →
      (regAfter RF r ops).find? (fun x => x.1 == k) = some e
  | [], _, h => h
  | op :: ops, r, h => tyOfKey_after RF hg k e ops _ (tyOfKey_step RF hg r op k e h)

theorem keyOf_after (RF : RegFacts) (hg : RF.rejectsTakenType = true) (t : GoTy) (e : Name × GoTy) :
    ∀ (ops : List RegOp) (r : Reg), r.find? (fun x => x.2 == t) = some e →
      (regAfter RF r ops).find? (fun x => x.2 == t) = some e
  | [], _, h => h
  | op :: ops, r, h => keyOf_after RF hg t e ops _ (keyOf_step RF hg r op t e h)

/-! ### `Supported` only grows with the registry -/

mutual
theorem wt_congr {c c' : Ctx} (hs : c'.structs = c.structs) : ∀ v : GoVal, v.wt c' = v.wt c
  | .basic _ _ => by simp only [GoVal.wt]
  | .inil => by simp only [GoVal.wt]
  | .nilptr _ => by simp only [GoVal.wt]
  | .ptr v => by simp only [GoVal.wt]; exact wt_congr hs v
  | .slice et _ vs => by simp only [GoVal.wt]; exact fitVals_congr hs et vs
  | .map kt vt _ kvs => by simp only [GoVal.wt, fitKVs_congr hs vt kvs]
  | .struct n fs => by
    have hd : declOf c' n = declOf c n := by unfold declOf; rw [hs]
    simp only [GoVal.wt, hd]
    cases declOf c n with
    | none => rfl
    | some d => exact fitDecl_congr hs d fs
theorem fitVals_congr {c c' : Ctx} (hs : c'.structs = c.structs) (et : GoTy) :
    ∀ vs : GoVals, vs.fit c' et = vs.fit c et
  | .nil => by simp only [GoVals.fit]
  | .cons v r => by simp only [GoVals.fit, wt_congr hs v, fitVals_congr hs et r]
theorem fitKVs_congr {c c' : Ctx} (hs : c'.structs = c.structs) (vt : GoTy) :
    ∀ kvs : GoKVs, kvs.fit c' vt = kvs.fit c vt
  | .nil => by simp only [GoKVs.fit]
  | .cons _ v r => by simp only [GoKVs.fit, wt_congr hs v, fitKVs_congr hs vt r]
theorem fitDecl_congr {c c' : Ctx} (hs : c'.structs = c.structs) :
    ∀ (d : List (Name × GoTy)) (kvs : GoKVs), kvs.fitDecl c' d = kvs.fitDecl c d
  | [], .nil => by simp only [GoKVs.fitDecl]
  | [], .cons _ _ _ => by simp only [GoKVs.fitDecl]
  | _ :: _, .nil => by simp only [GoKVs.fitDecl]
  | (f, t) :: ds, .cons k v r => by simp only [GoKVs.fitDecl, wt_congr hs v, fitDecl_congr hs ds r]
end

mutual
theorem encodable_mono {c c' : Ctx} (J : JLayer)
    (H : ∀ t, (keyOf c t).isSome = true → (keyOf c' t).isSome = true) :
    ∀ v : GoVal, v.encodable c J = true → v.encodable c' J = true
  | .basic t p, h => by
    simp only [GoVal.encodable, Bool.and_eq_true] at h ⊢; exact ⟨H _ h.1, h.2⟩
  | .inil, _ => by simp only [GoVal.encodable]
  | .nilptr t, h => by simp only [GoVal.encodable] at h ⊢; exact H _ h
  | .ptr v, h => by
    simp only [GoVal.encodable, Bool.and_eq_true] at h ⊢; exact ⟨h.1, encodable_mono J H v h.2⟩
  | .slice et _ vs, h => by
    simp only [GoVal.encodable, Bool.and_eq_true] at h ⊢; exact ⟨H _ h.1, encodableVals_mono J H vs h.2⟩
  | .map kt vt _ kvs, h => by
    simp only [GoVal.encodable, Bool.and_eq_true] at h ⊢
    exact ⟨⟨⟨h.1.1.1, H _ h.1.1.2⟩, H _ h.1.2⟩, encodableMap_mono J H kt kvs h.2⟩
  | .struct n fs, h => by
    simp only [GoVal.encodable, Bool.and_eq_true] at h ⊢; exact ⟨H _ h.1, encodableFields_mono J H fs h.2⟩
theorem encodableVals_mono {c c' : Ctx} (J : JLayer)
    (H : ∀ t, (keyOf c t).isSome = true → (keyOf c' t).isSome = true) :
    ∀ vs : GoVals, vs.encodable c J = true → vs.encodable c' J = true
  | .nil, _ => by simp only [GoVals.encodable]
  | .cons v r, h => by
    simp only [GoVals.encodable, Bool.and_eq_true] at h ⊢
    exact ⟨encodable_mono J H v h.1, encodableVals_mono J H r h.2⟩
theorem encodableMap_mono {c c' : Ctx} (J : JLayer)
    (H : ∀ t, (keyOf c t).isSome = true → (keyOf c' t).isSome = true) (kt : GoTy) :
    ∀ kvs : GoKVs, kvs.encodableMap c J kt = true → kvs.encodableMap c' J kt = true
  | .nil, _ => by simp only [GoKVs.encodableMap]
  | .cons _ v r, h => by
    simp only [GoKVs.encodableMap, Bool.and_eq_true] at h ⊢
    exact ⟨⟨h.1.1, encodable_mono J H v h.1.2⟩, encodableMap_mono J H kt r h.2⟩
theorem encodableFields_mono {c c' : Ctx} (J : JLayer)
    (H : ∀ t, (keyOf c t).isSome = true → (keyOf c' t).isSome = true) :
    ∀ kvs : GoKVs, kvs.encodableFields c J = true → kvs.encodableFields c' J = true
  | .nil, _ => by simp only [GoKVs.encodableFields]
  | .cons _ v r, h => by
    simp only [GoKVs.encodableFields, Bool.and_eq_true] at h ⊢
    exact ⟨encodable_mono J H v h.1, encodableFields_mono J H r h.2⟩
end

/-- a registered type stays registered under its key, whatever is called afterwards -/
theorem keyOf_ctx_after (RF : RegFacts) (hg : RF.rejectsTakenType = true) (ctx : Ctx) (ops : List RegOp)
    (t : GoTy) (k : Name) (h : keyOf ctx t = some k) : keyOf (ctx.after RF ops) t = some k := by
  unfold keyOf at h ⊢
  cases hf : ctx.reg.find? (fun e => e.2 == t) with
  | none => simp [hf] at h
  | some e =>
    have := keyOf_after RF hg t e ops ctx.reg hf
    simp only [Ctx.after, this]
    simpa [hf] using h

/-- a key in use keeps naming its type, whatever is called afterwards -/
theorem tyOfKey_ctx_after (RF : RegFacts) (hg : RF.rejectsTakenKey = true) (ctx : Ctx) (ops : List RegOp)
    (k : Name) (t : GoTy) (h : tyOfKey ctx k = some t) : tyOfKey (ctx.after RF ops) k = some t := by
  unfold tyOfKey at h ⊢
  cases hf : ctx.reg.find? (fun e => e.1 == k) with
  | none => simp [hf] at h
  | some e =>
    have := tyOfKey_after RF hg k e ops ctx.reg hf
    simp only [Ctx.after, this]
    simpa [hf] using h

theorem ok_after (ctx : Ctx) (ops : List RegOp) (hc : ctx.ok = true) : (ctx.after RFall ops).ok = true := by
  rw [ok_eq] at hc ⊢
  simp only [Bool.and_eq_true] at hc ⊢
  exact ⟨regAfter_ok ops ctx.reg hc.1, hc.2⟩

theorem supported_after (ctx : Ctx) (J : JLayer) (ops : List RegOp) (v : GoVal)
    (hs : Supported ctx J v = true) : Supported (ctx.after RFall ops) J v = true := by
  unfold Supported at hs ⊢
  simp only [Bool.and_eq_true] at hs ⊢
  refine ⟨?_, ?_⟩
  · rw [wt_congr (c := ctx) (c' := ctx.after RFall ops) rfl v]; exact hs.1
  · apply encodable_mono J _ v hs.2
    intro t ht
    obtain ⟨k, hk⟩ := Option.isSome_iff_exists.mp ht
    rw [keyOf_ctx_after RFall rfl ctx ops t k hk]; rfl

/-! ### what was written earlier reads back the same in a grown registry -/

/-- `c'` extends `c`: every key in use keeps naming its type; the struct declarations (Go
    source) are the same -/
structure CtxExt (c c' : Ctx) : Prop where
  ty : ∀ k t, tyOfKey c k = some t → tyOfKey c' k = some t
  structs : c'.structs = c.structs

theorem tyOfKeyE_ext {c c' : Ctx} (h : CtxExt c c') {k : Name} {t : GoTy}
    (hk : tyOfKeyE c k = .ok t) : tyOfKeyE c' k = .ok t := by
  unfold tyOfKeyE at hk ⊢
  cases hq : tyOfKey c k with
  | none => simp [hq] at hk
  | some t' =>
    simp only [hq] at hk
    have := ok_inj hk
    subst this
    rw [h.ty k t' hq]

theorem declOf_ext {c c' : Ctx} (h : CtxExt c c') (n : Name) : declOf c' n = declOf c n := by
  unfold declOf; rw [h.structs]

theorem decBasic_ext {c c' : Ctx} (h : CtxExt c c') (J : JLayer) (F : Facts) (pn ne : Nat) (ty js : String)
    (v : GoVal) (hd : decBasic c J F pn ne ty js = .ok v) : decBasic c' J F pn ne ty js = .ok v := by
  unfold decBasic at hd ⊢
  cases ht : tyOfKeyE c ty with
  | error e => rw [ht] at hd; cases hd
  | ok t => rw [ht] at hd; rw [tyOfKeyE_ext h ht]; exact hd

theorem assembleStruct_ext {c c' : Ctx} (h : CtxExt c c') (J : JLayer) (F : Facts) (pn : Nat) (st : String)
    (kvs : GoKVs) (v : GoVal) (hd : assembleStruct c J F pn st kvs = .ok v) :
    assembleStruct c' J F pn st kvs = .ok v := by
  unfold assembleStruct at hd ⊢
  cases ht : tyOfKeyE c st with
  | error e => rw [ht] at hd; cases hd
  | ok t =>
    rw [ht] at hd; rw [tyOfKeyE_ext h ht]
    simp only [declOf_ext h]
    exact hd

theorem assembleMap_ext {c c' : Ctx} (h : CtxExt c c') (J : JLayer) (F : Facts) (pn kpn : Nat) (kty : String)
    (vpn : Nat) (vty : String) (kvs : GoKVs) (v : GoVal)
    (hd : assembleMap c J F pn kpn kty vpn vty kvs = .ok v) :
    assembleMap c' J F pn kpn kty vpn vty kvs = .ok v := by
  unfold assembleMap at hd ⊢
  cases hk : tyOfKeyE c kty with
  | error e => rw [hk] at hd; cases hd
  | ok kt =>
    rw [hk] at hd; rw [tyOfKeyE_ext h hk]
    cases hv : tyOfKeyE c vty with
    | error e => rw [hv] at hd; cases hd
    | ok vt => rw [hv] at hd; rw [tyOfKeyE_ext h hv]; exact hd

theorem assembleSlice_ext {c c' : Ctx} (h : CtxExt c c') (J : JLayer) (F : Facts) (pn spn : Nat) (sty : String)
    (vs : GoVals) (v : GoVal) (hd : assembleSlice c J F pn spn sty vs = .ok v) :
    assembleSlice c' J F pn spn sty vs = .ok v := by
  unfold assembleSlice at hd ⊢
  cases ht : tyOfKeyE c sty with
  | error e => rw [ht] at hd; cases hd
  | ok t => rw [ht] at hd; rw [tyOfKeyE_ext h ht]; exact hd

mutual
theorem dec_ext {c c' : Ctx} (h : CtxExt c c') (J : JLayer) (F : Facts) :
    ∀ (i : IS) (v : GoVal), dec c J F i = .ok v → dec c' J F i = .ok v
  | .absent, v, hd => by simpa only [dec] using hd
  | .mk pn ne ty js st kpn kty vpn vty mvs spn sty svs, v, hd => by
    by_cases h1 : ty ≠ ""
    · simp only [dec] at hd ⊢
      rw [if_pos h1] at hd ⊢
      exact decBasic_ext h J F pn ne ty js v hd
    · by_cases h2 : st ≠ ""
      · simp only [dec] at hd ⊢
        rw [if_neg h1, if_pos h2] at hd ⊢
        cases hk : decKVs c J F mvs with
        | error e => rw [hk] at hd; cases hd
        | ok kvs =>
          rw [hk] at hd; rw [decKVs_ext h J F mvs kvs hk]
          exact assembleStruct_ext h J F pn st kvs v hd
      · by_cases h3 : kty ≠ ""
        · simp only [dec] at hd ⊢
          rw [if_neg h1, if_neg h2, if_pos h3] at hd ⊢
          cases hk : decKVs c J F mvs with
          | error e => rw [hk] at hd; cases hd
          | ok kvs =>
            rw [hk] at hd; rw [decKVs_ext h J F mvs kvs hk]
            exact assembleMap_ext h J F pn kpn kty vpn vty kvs v hd
        · simp only [dec] at hd ⊢
          rw [if_neg h1, if_neg h2, if_neg h3] at hd ⊢
          cases hk : decVals c J F svs with
          | error e => rw [hk] at hd; cases hd
          | ok vs =>
            rw [hk] at hd; rw [decVals_ext h J F svs vs hk]
            exact assembleSlice_ext h J F pn spn sty vs v hd
theorem decKVs_ext {c c' : Ctx} (h : CtxExt c c') (J : JLayer) (F : Facts) :
    ∀ (is : ISKVs) (kvs : GoKVs), decKVs c J F is = .ok kvs → decKVs c' J F is = .ok kvs
  | .nil, kvs, hd => by simpa only [decKVs] using hd
  | .cons k i r, kvs, hd => by
    simp only [decKVs] at hd ⊢
    cases hv : dec c J F i with
    | error e => rw [hv] at hd; cases hd
    | ok v =>
      rw [hv] at hd; rw [dec_ext h J F i v hv]
      cases hr : decKVs c J F r with
      | error e => rw [hr] at hd; cases hd
      | ok r' => rw [hr] at hd; rw [decKVs_ext h J F r r' hr]; exact hd
theorem decVals_ext {c c' : Ctx} (h : CtxExt c c') (J : JLayer) (F : Facts) :
    ∀ (is : ISs) (vs : GoVals), decVals c J F is = .ok vs → decVals c' J F is = .ok vs
  | .nil, vs, hd => by simpa only [decVals] using hd
  | .cons i r, vs, hd => by
    simp only [decVals] at hd ⊢
    cases hv : dec c J F i with
    | error e => rw [hv] at hd; cases hd
    | ok v =>
      rw [hv] at hd; rw [dec_ext h J F i v hv]
      cases hr : decVals c J F r with
      | error e => rw [hr] at hd; cases hd
      | ok r' => rw [hr] at hd; rw [decVals_ext h J F r r' hr]; exact hd
end

theorem unmarshalTop_ext {c c' : Ctx} (h : CtxExt c c') (J : JLayer) (F : Facts) (i : IS) (v : GoVal)
    (hd : unmarshalTop c J F i = .ok v) : unmarshalTop c' J F i = .ok v := by
  cases i with
  | absent => exact dec_ext h J F _ v hd
  | mk => exact dec_ext h J F _ v hd

/-- the registry after any calls extends the registry before them (needs the `keyTaken` guard) -/
theorem ctxExt_after (RF : RegFacts) (hg : RF.rejectsTakenKey = true) (ctx : Ctx) (ops : List RegOp) :
    CtxExt ctx (ctx.after RF ops) :=
  ⟨fun k t hk => tyOfKey_ctx_after RF hg ctx ops k t hk, rfl⟩

end EinoV.C12
